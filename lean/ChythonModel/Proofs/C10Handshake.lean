import ChythonModel.Proofs.C10Rebuild
/-!
# C10: the handshake — symmetric adjacency lists every bond from both ends
-/
namespace ChythonModel.Proofs.C10
open ChythonModel.Model.Pack

/-! counting lemmas -/

theorem countP_or_excl {α} (p q : α → Bool) (l : List α) (h : ∀ x ∈ l, ¬ (p x = true ∧ q x = true)) :
    List.countP (fun x => p x || q x) l = List.countP p l + List.countP q l := by
  induction l with
  | nil => simp
  | cons x l ih =>
    have hx := h x (by simp)
    have := ih (fun y hy => h y (by simp [hy]))
    simp only [List.countP_cons, this]
    cases hp : p x <;> cases hq : q x <;> simp_all <;> omega

theorem countP_eq_of_nodup (l : List Nat) (hnd : l.Nodup) (x : Nat) :
    List.countP (fun y => y == x) l = if l.contains x then 1 else 0 := by
  induction l with
  | nil => simp
  | cons y l ih =>
    simp only [List.nodup_cons] at hnd
    rw [List.countP_cons, ih hnd.2]
    by_cases hyx : y = x
    · subst hyx
      simp [hnd.1]
    · have : (y == x) = false := by simp [hyx]
      simp only [this, Bool.false_eq_true, ↓reduceIte, Nat.add_zero, List.contains_cons]
      have : (x == y) = false := by simp; exact fun e => hyx e.symm
      simp [this]

/-- two duplicate-free lists see the same number of common elements from either side -/
theorem inter_count_symm : ∀ (A B : List Nat), A.Nodup → B.Nodup →
    List.countP (fun x => B.contains x) A = List.countP (fun y => A.contains y) B
  | [], B, _, _ => by simp
  | x :: A, B, hA, hB => by
    simp only [List.nodup_cons] at hA
    have ih := inter_count_symm A B hA.2 hB
    have hex : ∀ y ∈ B, ¬ ((y == x) = true ∧ A.contains y = true) := by
      intro y _ ⟨h1, h2⟩
      have : y = x := by simpa using h1
      subst this
      exact hA.1 (by simpa using h2)
    have hsplit : List.countP (fun y => (x :: A).contains y) B =
        List.countP (fun y => y == x) B + List.countP (fun y => A.contains y) B := by
      rw [← countP_or_excl _ _ B hex]
      apply List.countP_congr
      intro y _
      simp [List.contains_cons]
    rw [hsplit, List.countP_cons, ih, countP_eq_of_nodup B hB x]
    omega


/-! the handshake: with symmetric adjacency every bond is listed from both ends -/

theorem nbr_mem_iff {all : List PAtom} (g : GraphOK all) {a b : PAtom} (ha : a ∈ all) (hb : b ∈ all) :
    (b.nbrs.map (·.m)).contains a.num = (a.nbrs.map (·.m)).contains b.num := by
  have key : ∀ {a b : PAtom}, a ∈ all → b ∈ all → a.num ∈ b.nbrs.map (·.m) → b.num ∈ a.nbrs.map (·.m) := by
    intro a b ha hb h
    obtain ⟨nb, hnb, hm⟩ := List.mem_map.mp h
    obtain ⟨b', hb', hnum, hent⟩ := g.sym b hb nb hnb
    have : b' = a := eq_of_num_eq g.nodup hb' ha (by rw [hnum, hm])
    subst this
    exact List.mem_map.mpr ⟨_, hent, rfl⟩
  by_cases h : a.num ∈ b.nbrs.map (·.m)
  · have := key ha hb h
    simp [List.contains_iff_mem, h, this]
  · have h' : ¬ b.num ∈ a.nbrs.map (·.m) := fun h2 => h (key hb ha h2)
    have e1 : (b.nbrs.map (·.m)).contains a.num = false := by simpa using h
    have e2 : (a.nbrs.map (·.m)).contains b.num = false := by simpa using h'
    rw [e1, e2]

theorem sum_indicator {β} (l : List β) (f : β → Nat) (p : β → Bool) (h : ∀ b ∈ l, f b = if p b then 1 else 0) :
    (l.map f).sum = List.countP p l := by
  induction l with
  | nil => simp
  | cons b l ih =>
    rw [List.map_cons, List.sum_cons, List.countP_cons, h b (by simp), ih (fun c hc => h c (by simp [hc]))]
    omega

def into (seen : List Nat) (suf : List PAtom) : Nat :=
  (suf.map fun b => List.countP (fun nb => seen.contains nb.m) b.nbrs).sum

theorem into_cons (seen : List Nat) (x : Nat) (hx : ¬ x ∈ seen) : ∀ (suf : List PAtom),
    into (x :: seen) suf = into seen suf + (suf.map fun b => List.countP (fun nb => nb.m == x) b.nbrs).sum
  | [] => by simp [into]
  | b :: suf => by
    have ih := into_cons seen x hx suf
    have hex : ∀ nb ∈ b.nbrs, ¬ ((nb.m == x) = true ∧ seen.contains nb.m = true) := by
      intro nb _ ⟨h1, h2⟩
      have : nb.m = x := by simpa using h1
      rw [this] at h2
      exact hx (by simpa using h2)
    have hb : List.countP (fun nb => (x :: seen).contains nb.m) b.nbrs =
        List.countP (fun nb => nb.m == x) b.nbrs + List.countP (fun nb => seen.contains nb.m) b.nbrs := by
      rw [← countP_or_excl _ _ b.nbrs hex]
      apply List.countP_congr
      intro nb _
      simp [List.contains_cons]
    simp only [into, List.map_cons, List.sum_cons, hb] at ih ⊢
    omega

theorem sum_zero {β} (l : List β) : (l.map fun _ => 0).sum = 0 := by
  induction l with
  | nil => rfl
  | cons _ _ ih => simpa using ih

theorem firstSeen_length_cons (seen : List Nat) (a : PAtom) (rest : List PAtom) :
    (firstSeen seen (a :: rest)).length =
      List.countP (fun nb => !(a.num :: seen).contains nb.m) a.nbrs + (firstSeen (a.num :: seen) rest).length := by
  simp [firstSeen, List.countP_eq_length_filter]

theorem handshake_aux {all : List PAtom} (g : GraphOK all) : ∀ (suf pre : List PAtom) (seen : List Nat),
    all = pre ++ suf → (∀ x, x ∈ seen ↔ x ∈ pre.map (·.num)) →
    (suf.map (·.nbrs.length)).sum = 2 * (firstSeen seen suf).length + into seen suf
  | [], _, _, _, _ => by simp [firstSeen, into]
  | a :: suf, pre, seen, hall, hseen => by
    have haall : a ∈ all := by rw [hall]; simp
    have hsufall : ∀ b ∈ suf, b ∈ all := fun b hb => by rw [hall]; simp [hb]
    have hnd := g.nodup
    rw [hall, List.map_append, List.map_cons] at hnd
    have hnd' := List.nodup_append.mp hnd
    have hnotseen : ¬ a.num ∈ seen := by
      intro h
      exact hnd'.2.2 a.num ((hseen _).mp h) a.num (by simp) rfl
    have hnotsuf : ¬ a.num ∈ suf.map (·.num) := (List.nodup_cons.mp hnd'.2.1).1
    have ih := handshake_aux g suf (pre ++ [a]) (a.num :: seen) (by simp [hall])
      (by intro x; simp only [List.mem_cons, List.map_append, List.map_cons, List.map_nil, List.mem_append,
            List.mem_singleton, hseen, List.not_mem_nil, or_false]; exact Or.comm)
    -- forward neighbours of `a` are exactly its neighbours among the later atoms
    have hfwd : List.countP (fun nb => !(a.num :: seen).contains nb.m) a.nbrs =
        List.countP (fun nb => (suf.map (·.num)).contains nb.m) a.nbrs := by
      apply List.countP_congr
      intro nb hnb
      obtain ⟨b, hb, hbn, _⟩ := g.sym a haall nb hnb
      have hne := g.noLoop a haall nb hnb
      rw [hall] at hb
      simp only [Bool.not_eq_true', List.contains_iff_mem, List.mem_cons, List.mem_map]
      rcases List.mem_append.mp hb with hp | hs
      · have : nb.m ∈ seen := (hseen _).mpr (List.mem_map.mpr ⟨b, hp, hbn⟩)
        constructor
        · intro h; simp [this] at h
        · intro ⟨c, hc, hcn⟩
          exact absurd (List.mem_map.mpr ⟨c, hc, hcn⟩ : nb.m ∈ suf.map (·.num))
            (fun h2 => hnd'.2.2 nb.m ((hseen _).mp this) nb.m (by simp [h2]) rfl)
      · rcases List.mem_cons.mp hs with rfl | hs'
        · exact absurd hbn.symm hne
        · constructor
          · intro _; exact ⟨b, hs', hbn⟩
          · intro _
            have hns : ¬ nb.m ∈ seen := fun h2 =>
              hnd'.2.2 nb.m ((hseen _).mp h2) nb.m (by simp [List.mem_map.mpr ⟨b, hs', hbn⟩]) rfl
            simp [hne, hns]
    -- neighbours counted from the later atoms
    have hback : (suf.map fun b => List.countP (fun nb => nb.m == a.num) b.nbrs).sum =
        List.countP (fun nb => (suf.map (·.num)).contains nb.m) a.nbrs := by
      have h1 : ∀ b ∈ suf, List.countP (fun nb => nb.m == a.num) b.nbrs =
          if (a.nbrs.map (·.m)).contains b.num then 1 else 0 := by
        intro b hb
        have := countP_eq_of_nodup (b.nbrs.map (·.m)) (g.nbrNodup b (hsufall b hb)) a.num
        rw [List.countP_map] at this
        rw [← nbr_mem_iff g haall (hsufall b hb)]
        exact this
      rw [sum_indicator suf _ (fun b => (a.nbrs.map (·.m)).contains b.num) h1]
      have := inter_count_symm (suf.map (·.num)) (a.nbrs.map (·.m)) (List.nodup_cons.mp hnd'.2.1).2 (g.nbrNodup a haall)
      rw [List.countP_map, List.countP_map] at this
      exact this
    -- the later atoms' neighbours among the seen ones, before and after `a` is added
    have hinto := into_cons seen a.num hnotseen suf
    have hsplit := List.length_eq_countP_add_countP (fun nb : PNbr => (a.num :: seen).contains nb.m) (l := a.nbrs)
    have hbwd : List.countP (fun nb => (a.num :: seen).contains nb.m) a.nbrs =
        List.countP (fun nb => seen.contains nb.m) a.nbrs := by
      apply List.countP_congr
      intro nb hnb
      have hne := g.noLoop a haall nb hnb
      simp [List.contains_cons, hne]
    have hneg : List.countP (fun nb => decide ¬((a.num :: seen).contains nb.m = true)) a.nbrs =
        List.countP (fun nb => !(a.num :: seen).contains nb.m) a.nbrs := by
      apply List.countP_congr; intro nb _; simp
    rw [firstSeen_length_cons]
    simp only [List.map_cons, List.sum_cons, into] at ih ⊢
    simp only [into] at hinto
    rw [hneg, hbwd] at hsplit
    rw [hinto, hback, ← hfwd] at ih
    omega

/-- **handshake**: in a well-formed graph every bond is listed from both ends, so the total neighbour count is twice the
    number of first-seen bonds. -/
theorem handshake {all : List PAtom} (g : GraphOK all) :
    2 * (firstSeen [] all).length = (all.map (·.nbrs.length)).sum := by
  have := handshake_aux g all [] [] rfl (by simp)
  simp only [into, List.contains_nil, List.countP_false, Function.const] at this
  rw [sum_zero] at this
  omega

end ChythonModel.Proofs.C10
