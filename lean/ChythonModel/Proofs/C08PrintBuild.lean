import ChythonModel.Proofs.C08Print
/-!
# C08 — building the query atom from the dictionary `_query_parse` returns for a canonical spelling (general)
-/
namespace ChythonModel.Proofs.C08
open ChythonModel.Model.Query ChythonModel.Spec.Query ChythonModel.Gen.Query

def optL (l : List Nat) : Option (List Int) := if l.isEmpty then none else some (l.map Int.ofNat)

/-! ### fields of `parsedOf d` -/

theorem parsedOf_element (d : DocAtom) : (parsedOf d).element = mkElem (headToks d.head) := by
  simp only [parsedOf, afterPrims, stepM, stepA, stepZ, stepX, stepNR, stepR, stepH, stepD, apply_ite Parsed.element, ite_self]
theorem parsedOf_isotope (d : DocAtom) : (parsedOf d).isotope = d.isotope := by
  simp only [parsedOf, afterPrims, stepM, stepA, stepZ, stepX, stepNR, stepR, stepH, stepD, apply_ite Parsed.isotope, ite_self]
theorem parsedOf_charge (d : DocAtom) : (parsedOf d).charge = if d.charge = 0 then none else some d.charge := by
  simp only [parsedOf, afterPrims, stepM, stepA, stepZ, stepX, stepNR, stepR, stepH, stepD, apply_ite Parsed.charge, ite_self]
theorem parsedOf_mapping (d : DocAtom) : (parsedOf d).mapping = d.map := by
  simp only [parsedOf, afterPrims, stepM, stepA, stepZ, stepX, stepNR, stepR, stepH, stepD, apply_ite Parsed.mapping, ite_self]
theorem parsedOf_stereo (d : DocAtom) : (parsedOf d).stereo = d.stereo := by
  simp only [parsedOf, afterPrims, stepM, stepA, stepZ, stepX, stepNR, stepR, stepH, stepD, apply_ite Parsed.stereo, ite_self]
theorem parsedOf_neighbors (d : DocAtom) : (parsedOf d).neighbors = optL d.neighbors := by
  simp only [parsedOf, afterPrims, stepM, stepA, stepZ, stepX, stepNR, stepR, stepH, stepD, optL, apply_ite Parsed.neighbors, ite_self]
theorem parsedOf_implH (d : DocAtom) : (parsedOf d).implH = optL d.hydrogens := by
  simp only [parsedOf, afterPrims, stepM, stepA, stepZ, stepX, stepNR, stepR, stepH, stepD, optL, apply_ite Parsed.implH, ite_self]
theorem parsedOf_hetero (d : DocAtom) : (parsedOf d).heteroatoms = optL d.hetero := by
  simp only [parsedOf, afterPrims, stepM, stepA, stepZ, stepX, stepNR, stepR, stepH, stepD, optL, apply_ite Parsed.heteroatoms, ite_self]
theorem parsedOf_ring (d : DocAtom) : (parsedOf d).ringSizes =
    if d.notRing then some (.int 0) else if d.rings.isEmpty then none else some (.lst (d.rings.map Int.ofNat)) := by
  simp only [parsedOf, afterPrims, stepM, stepA, stepZ, stepX, stepNR, stepR, stepH, stepD, apply_ite Parsed.ringSizes, ite_self]
theorem parsedOf_hyb (d : DocAtom) : (parsedOf d).hybridization =
    if d.aromatic then some (.int 4) else if d.hyb.isEmpty then none else some (.lst (d.hyb.map Int.ofNat)) := by
  simp only [parsedOf, afterPrims, stepM, stepA, stepZ, stepX, stepNR, stepR, stepH, stepD, apply_ite Parsed.hybridization, ite_self]
theorem parsedOf_masked (d : DocAtom) : (parsedOf d).masked = d.masked := by
  simp only [parsedOf, afterPrims, stepM, stepA, stepZ, stepX, stepNR, stepR, stepH, stepD, apply_ite Parsed.masked, ite_self]
  cases d.masked <;> rfl

/-! ### validators on ascending lists -/

theorem asc_head_lt : ∀ (x : Nat) (l : List Nat), strictlyAscending (x :: l) = true → ∀ y ∈ l, x < y
  | _, [], _, y, hy => by cases hy
  | x, z :: t, h, y, hy => by
    simp only [strictlyAscending, Bool.and_eq_true, decide_eq_true_eq] at h
    rcases List.mem_cons.mp hy with e | m
    · subst e; exact h.1
    · exact Nat.lt_trans h.1 (asc_head_lt z t h.2 y m)

theorem asc_tail : ∀ (x : Nat) (l : List Nat), strictlyAscending (x :: l) = true → strictlyAscending l = true
  | _, [], _ => rfl
  | x, z :: t, h => by
    simp only [strictlyAscending, Bool.and_eq_true] at h; exact h.2

theorem hasDup_asc : ∀ l : List Nat, strictlyAscending l = true → hasDup (l.map Int.ofNat) = false
  | [], _ => rfl
  | x :: t, h => by
    simp only [List.map_cons, hasDup, Bool.or_eq_false_iff]
    refine ⟨?_, hasDup_asc t (asc_tail x t h)⟩
    cases hc : (t.map Int.ofNat).contains (Int.ofNat x) with
    | false => rfl
    | true =>
      obtain ⟨y, hy, e⟩ := List.mem_map.mp (List.contains_iff_mem.mp hc)
      have := asc_head_lt x t h y hy
      have : y = x := by exact Int.ofNat.inj e
      omega

theorem sortI_asc : ∀ l : List Nat, strictlyAscending l = true → sortI (l.map Int.ofNat) = l.map Int.ofNat
  | [], _ => rfl
  | x :: t, h => by
    have ih := sortI_asc t (asc_tail x t h)
    simp only [List.map_cons, sortI, List.foldr_cons] at ih ⊢
    rw [ih]
    cases t with
    | nil => rfl
    | cons y t' =>
      have : x < y := asc_head_lt x (y :: t') h y (by simp)
      simp only [List.map_cons, insertSortedI]
      have hle : Int.ofNat x ≤ Int.ofNat y := by exact Int.ofNat_le.mpr (Nat.le_of_lt this)
      rw [if_pos hle]

theorem map_toNat_ofNat (l : List Nat) : (l.map Int.ofNat).map Int.toNat = l := by
  induction l with
  | nil => rfl
  | cons x t ih => simp [ih]

theorem validateList_asc (lo hi : Nat) (l : List Nat) (hasc : strictlyAscending l = true)
    (hr : l.all (fun v => lo ≤ v && v ≤ hi) = true) : validateList lo hi (l.map Int.ofNat) = .ok l := by
  unfold validateList
  have h1 : (l.map Int.ofNat).any (fun x => decide (x < (lo : Int)) || decide (x > (hi : Int))) = false := by
    cases hc : (l.map Int.ofNat).any (fun x => decide (x < (lo : Int)) || decide (x > (hi : Int))) with
    | false => rfl
    | true =>
      obtain ⟨x, hx, hb⟩ := List.any_eq_true.mp hc
      obtain ⟨v, hv, e⟩ := List.mem_map.mp hx
      have := List.all_eq_true.mp hr v hv
      simp only [Bool.and_eq_true, decide_eq_true_eq] at this
      subst e
      simp only [Bool.or_eq_true, decide_eq_true_eq] at hb
      rcases hb with hb | hb
      · have : (v : Int) < lo := hb
        omega
      · have : (v : Int) > hi := hb
        omega
  simp only [h1, Bool.false_eq_true, if_false, hasDup_asc l hasc, sortI_asc l hasc, map_toNat_ofNat]

theorem optValidate_optL (lo hi : Nat) (l : List Nat) (hasc : strictlyAscending l = true)
    (hr : l.all (fun v => lo ≤ v && v ≤ hi) = true) : optValidate lo hi (optL l) = .ok l := by
  unfold optL
  cases l with
  | nil => rfl
  | cons x t => simp only [List.isEmpty_cons, Bool.false_eq_true, if_false, optValidate]; exact validateList_asc lo hi _ hasc hr

theorem validateRingList_asc (l : List Nat) (hasc : strictlyAscending l = true) (hr : l.all (fun v => 3 ≤ v) = true) :
    validateRingList (l.map Int.ofNat) = .ok l := by
  unfold validateRingList
  have h1 : (l.map Int.ofNat).any (fun x => decide (x < (ringMin : Int))) = false := by
    cases hc : (l.map Int.ofNat).any (fun x => decide (x < (ringMin : Int))) with
    | false => rfl
    | true =>
      obtain ⟨x, hx, hb⟩ := List.any_eq_true.mp hc
      obtain ⟨v, hv, e⟩ := List.mem_map.mp hx
      have := List.all_eq_true.mp hr v hv
      simp only [decide_eq_true_eq] at this hb
      subst e
      have hm : (ringMin : Int) = 3 := by decide
      have : (v : Int) < 3 := hm ▸ hb
      omega
  simp only [h1, Bool.false_eq_true, if_false, hasDup_asc l hasc, sortI_asc l hasc, map_toNat_ofNat]

/-! ### class resolution (table facts over the regenerated tables and the hand-written symbol table) -/

theorem table_sym : ∀ z ∈ List.range' 1 118,
    zOfQuerySym (symbolOf z) = some z ∧ (symbolOf z == ['A']) = false ∧ (symbolOf z == ['M']) = false ∧
    zOfElemSym (symbolOf z) = some z := by decide +kernel

theorem table_num : ∀ z ∈ List.range' 1 118,
    (querySyms.find? (fun r => r.2 == z)).map (·.2) = some z ∧ elemFlags.any (fun r => r.2.1 == z) = true := by
  decide +kernel

theorem inRange (z : Nat) (h : 1 ≤ z ∧ z ≤ 118) : z ∈ List.range' 1 118 := List.mem_range'_1.mpr ⟨h.1, by omega⟩

theorem insertNat_eq : ∀ (x : Nat) (l : List Nat), insertNat x l = insertSorted x l
  | _, [] => rfl
  | x, y :: ys => by simp only [insertNat, insertSorted, insertNat_eq x ys]

theorem foldr_insertNat (l : List Nat) : l.foldr insertNat [] = sortDedup l := by
  unfold sortDedup
  induction l with
  | nil => rfl
  | cons x t ih => simp only [List.foldr_cons, ih, insertNat_eq]

theorem listElements_printed : ∀ l : List DocItem, (∀ i ∈ l, itemOk i) → listElements (l.map tokOf) = .ok (l.map DocItem.z)
  | [], _ => rfl
  | i :: rest, h => by
    have ih := listElements_printed rest (fun j hj => h j (List.mem_cons_of_mem _ hj))
    have hi := h i List.mem_cons_self
    cases i with
    | sym z =>
      have := (table_sym z (inRange z hi)).2.2.2
      simp only [List.map_cons, tokOf, listElements, this, ih, bind, Except.bind, DocItem.z]
    | num z =>
      have := (table_num z (inRange z hi)).2
      have hz : (Int.ofNat z).toNat = z := rfl
      have hge : (Int.ofNat z ≥ 0) := Int.natCast_nonneg z
      simp only [List.map_cons, tokOf, listElements, hz, this, hge, decide_true, Bool.and_self, if_true, ih, bind, Except.bind, DocItem.z]

/-- the class `smarts()` picks for the head of a documented atom -/
def kindOf : DocHead → QKind
  | .one i => .element i.z none
  | .list l => .list (sortDedup (l.map DocItem.z))
  | .any => .any
  | .metal => .metal

def headWF2 : DocHead → Prop
  | .list l => 2 ≤ l.length
  | _ => True

theorem resolveKind_parsedOf (d : DocAtom) (hw : headWF d.head) (h2 : headWF2 d.head) :
    resolveKind (parsedOf d) = .ok (kindOf d.head) := by
  unfold resolveKind
  rw [parsedOf_element]
  cases hh : d.head with
  | one i =>
    rw [hh] at hw
    cases i with
    | sym z =>
      obtain ⟨t1, t2, t3, _⟩ := table_sym z (inRange z hw)
      simp only [headToks, mkElem, tokOf, t1, t2, t3, Bool.false_eq_true, if_false, kindOf, DocItem.z]
    | num z =>
      have t := (table_num z (inRange z hw)).1
      have hge : (Int.ofNat z ≥ 0) := Int.natCast_nonneg z
      have hz : (Int.ofNat z).toNat = z := rfl
      simp only [headToks, mkElem, tokOf, hge, if_true, hz, kindOf, DocItem.z]
      cases hf : querySyms.find? (fun r => r.2 == z) with
      | none => rw [hf] at t; cases t
      | some r =>
        rw [hf] at t
        simp only [Option.map_some, Option.some.injEq] at t
        simp only [t]
  | list l =>
    rw [hh] at hw h2
    have hm : mkElem (headToks (.list l)) = .many (l.map tokOf) := by
      simp only [headToks]
      unfold mkElem
      split
      · rename_i x heq
        have : (l.map tokOf).length = 1 := by rw [heq]; rfl
        simp only [List.length_map] at this
        simp only [headWF2] at h2
        omega
      · rfl
    rw [hm]
    simp only [listElements_printed l hw.2, kindOf]
  | any => rfl
  | metal => rfl

/-! ### the setters on `parsedOf d` -/

/-- `DocWF d = true`, unpacked -/
structure WFacts (d : DocAtom) : Prop where
  nbAsc : strictlyAscending d.neighbors = true
  nbRange : d.neighbors.all (fun v => 0 ≤ v && v ≤ 14) = true
  hyAsc : strictlyAscending d.hydrogens = true
  hyRange : d.hydrogens.all (fun v => 0 ≤ v && v ≤ 14) = true
  heAsc : strictlyAscending d.hetero = true
  heRange : d.hetero.all (fun v => 0 ≤ v && v ≤ 14) = true
  hbAsc : strictlyAscending d.hyb = true
  hbRange : d.hyb.all (fun v => 1 ≤ v && v ≤ 4) = true
  rgAsc : strictlyAscending d.rings = true
  rgRange : d.rings.all (fun v => 3 ≤ v) = true
  chLo : -4 ≤ d.charge
  chHi : d.charge ≤ 4
  mapOk : ∀ m, d.map = some m → 1 ≤ m ∧ m < 1000000000
  head : headWF d.head
  head2 : headWF2 d.head
  isoOnlyElem : (∀ i, d.head ≠ .one (.sym i)) → d.isotope = none
  metalPlain : d.head = .metal → d.charge = 0 ∧ d.stereo = none ∧ d.hydrogens = [] ∧ d.rings = [] ∧ d.notRing = false ∧ d.hetero = []

theorem wfacts_of_DocWF (d : DocAtom) (h : DocWF d = true) : WFacts d := by
  unfold DocWF at h
  simp only [Bool.and_eq_true, decide_eq_true_eq] at h
  obtain ⟨⟨⟨⟨⟨⟨⟨⟨⟨⟨⟨⟨h1a, h1b⟩, ⟨h2a, h2b⟩⟩, ⟨h3a, h3b⟩⟩, ⟨h4a, h4b⟩⟩, h5⟩, h6⟩, _⟩, _⟩, ⟨h9a, h9b⟩⟩, h10⟩, h11⟩, h12⟩ := h
  refine { nbAsc := h1a, nbRange := h1b, hyAsc := h2a, hyRange := h2b, heAsc := h3a, heRange := h3b, hbAsc := h4a, hbRange := h4b,
           rgAsc := h5, rgRange := h6, chLo := h9a, chHi := h9b, mapOk := ?_, head := ?_, head2 := ?_, isoOnlyElem := ?_,
           metalPlain := ?_ }
  · intro m hm; rw [hm] at h10; simpa using h10
  · cases hh : d.head with
    | one i => rw [hh] at h12; cases i <;> (simp at h12; show 1 ≤ _ ∧ _ ≤ 118; simp only [DocItem.z]; omega)
    | list l =>
      rw [hh] at h12; simp at h12
      refine ⟨?_, fun i hi => ?_⟩
      · intro e; subst e; simp at h12
      · have := h12.1.2 i hi; exact ⟨this.1, this.2⟩
    | any => trivial
    | metal => trivial
  · cases hh : d.head with
    | list l => rw [hh] at h12; simp at h12; exact h12.1.1
    | _ => trivial
  · intro hne
    cases hh : d.head with
    | one i =>
      cases i with
      | sym z => exact absurd hh (hne z)
      | num z => rw [hh] at h12; simp at h12; exact h12.2
    | list l => rw [hh] at h12; simp at h12; exact h12.2
    | any => rw [hh] at h12; simpa using h12
    | metal => rw [hh] at h12; simp at h12; exact h12.1.1.1.1.1.1
  · intro hm
    rw [hm] at h12
    simp at h12
    obtain ⟨⟨⟨⟨⟨⟨_, a2⟩, a3⟩, a4⟩, a5⟩, a6⟩, a7⟩ := h12
    exact ⟨a2, a3, a4, a5, a6, a7⟩

theorem baseFields_parsedOf (d : DocAtom) (w : WFacts d) :
    baseFields (parsedOf d) = .ok (d.neighbors, if d.aromatic then [4] else d.hyb) := by
  unfold baseFields
  rw [parsedOf_neighbors, parsedOf_hyb]
  have h1 : optValidate countLo countHi (optL d.neighbors) = .ok d.neighbors := optValidate_optL 0 14 _ w.nbAsc w.nbRange
  simp only [h1, bind, Except.bind]
  cases ha : d.aromatic
  · simp only [Bool.false_eq_true, if_false]
    cases hl : d.hyb with
    | nil => rfl
    | cons x t =>
      have : intOrListHyb (.lst ((x :: t).map Int.ofNat)) = .ok (x :: t) := by
        have := validateList_asc 1 4 d.hyb w.hbAsc w.hbRange
        rw [hl] at this; exact this
      simp only [List.isEmpty_cons, Bool.false_eq_true, if_false, this]
  · simp only [if_true]
    rfl

theorem ringField_parsedOf (d : DocAtom) (w : WFacts d) :
    ringField (parsedOf d) = .ok (if d.notRing then [0] else d.rings) := by
  unfold ringField
  rw [parsedOf_ring]
  cases d.notRing
  · simp only [Bool.false_eq_true, if_false]
    cases hl : d.rings with
    | nil => rfl
    | cons x t =>
      have := validateRingList_asc d.rings w.rgAsc w.rgRange
      rw [hl] at this
      simp only [List.isEmpty_cons, Bool.false_eq_true, if_false, intOrListRing, this]
  · rfl

theorem buildExt_parsedOf (d : DocAtom) (w : WFacts d) (k : QKind) (rad : Bool) :
    buildExt (parsedOf d) rad k =
      .ok { kind := k, charge := d.charge, radical := rad, neighbors := d.neighbors,
            hybridization := if d.aromatic then [4] else d.hyb, ringSizes := if d.notRing then [0] else d.rings,
            implH := d.hydrogens, heteroatoms := d.hetero, stereo := d.stereo, masked := d.masked } := by
  unfold buildExt
  rw [baseFields_parsedOf d w, ringField_parsedOf d w, parsedOf_charge, parsedOf_hetero, parsedOf_implH, parsedOf_stereo,
      parsedOf_masked]
  have hc : validateCharge ((if d.charge = 0 then none else some d.charge).getD 0) = .ok d.charge := by
    have hv : (if d.charge = 0 then none else some d.charge).getD 0 = d.charge := by
      by_cases h0 : d.charge = 0
      · simp [h0]
      · simp [h0]
    rw [hv]
    unfold validateCharge
    have h1 : (chargeHi : Int) = 4 := by decide
    have h2 : (chargeLo : Int) = -4 := by decide
    have : ¬ (d.charge > chargeHi ∨ d.charge < chargeLo) := by
      rw [h1, h2]; have := w.chLo; have := w.chHi; omega
    simp [this]
  have h2 : optValidate countLo countHi (optL d.hetero) = .ok d.hetero := optValidate_optL 0 14 _ w.heAsc w.heRange
  have h3 : optValidate countLo countHi (optL d.hydrogens) = .ok d.hydrogens := optValidate_optL 0 14 _ w.hyAsc w.hyRange
  simp only [hc, h2, h3]

/-- the documented meaning with the CX radical mark -/
def denoteRad (d : DocAtom) (rad : Bool) : QAtom := { denote d with radical := rad }

theorem buildAtom_parsedOf (d : DocAtom) (w : WFacts d) (rad : Bool) (hr : rad = true → d.head ≠ .metal) :
    buildAtom (parsedOf d) rad = .ok (denoteRad d rad) := by
  unfold buildAtom
  rw [resolveKind_parsedOf d w.head w.head2]
  cases hh : d.head with
  | one i =>
    simp only [kindOf]
    rw [buildExt_parsedOf d w, parsedOf_isotope]
    simp only [denoteRad, denote, hh]
  | list l =>
    have hiso := w.isoOnlyElem (fun i e => by rw [hh] at e; cases e)
    simp only [kindOf, parsedOf_isotope, hiso, Option.isSome_none, Bool.false_eq_true, if_false]
    rw [buildExt_parsedOf d w]
    simp only [denoteRad, denote, hh, foldr_insertNat]
  | any =>
    have hiso := w.isoOnlyElem (fun i e => by rw [hh] at e; cases e)
    simp only [kindOf, parsedOf_isotope, hiso, Option.isSome_none, Bool.false_eq_true, if_false]
    rw [buildExt_parsedOf d w]
    simp only [denoteRad, denote, hh]
  | metal =>
    have hrad : rad = false := by
      cases rad with
      | false => rfl
      | true => exact absurd hh (hr rfl)
    subst hrad
    have hiso := w.isoOnlyElem (fun i e => by rw [hh] at e; cases e)
    obtain ⟨m1, m2, m3, m4, m5, m6⟩ := w.metalPlain hh
    simp only [kindOf, parsedOf_isotope, parsedOf_charge, parsedOf_stereo, parsedOf_ring, parsedOf_implH, parsedOf_hetero,
               hiso, m1, m2, m3, m4, m5, m6, optL]
    simp only [if_true, List.isEmpty_nil, Option.isSome_none, Bool.or_self, Bool.false_eq_true, if_false]
    unfold buildMetal
    rw [baseFields_parsedOf d w, parsedOf_masked]
    simp only [denoteRad, denote, hh]

/-! ### lifting to `smarts('[' + printDoc d + ']')` -/

theorem printCharge_safe (c : Int) (h1 : -4 ≤ c) (h2 : c ≤ 4) : ∀ x ∈ printCharge c, x ≠ '[' ∧ x ≠ ']' := by
  have : c = -4 ∨ c = -3 ∨ c = -2 ∨ c = -1 ∨ c = 0 ∨ c = 1 ∨ c = 2 ∨ c = 3 ∨ c = 4 := by omega
  rcases this with rfl | rfl | rfl | rfl | rfl | rfl | rfl | rfl | rfl <;> decide

theorem digit_safe (c : Char) (h : isDigit c = true) : c ≠ '[' ∧ c ≠ ']' := by
  constructor <;> (intro e; subst e; revert h; decide)

theorem printDoc_safe (d : DocAtom) (w : WFacts d) : (∀ c ∈ printDoc d, c ≠ '[' ∧ c ≠ ']') ∧ printDoc d ≠ [] := by
  obtain ⟨hch, hch0⟩ := head_chars d.head w.head
  obtain ⟨hbp, _⟩ := flatten_semi_chars (bodiesOf d) (bodies_chars d)
  rw [printDoc_shape]
  constructor
  · intro c hc
    simp only [List.mem_append] at hc
    rcases hc with ((((h | h) | h) | h) | h) | h
    · cases hi : d.isotope with
      | none => rw [hi] at h; cases h
      | some i => rw [hi] at h; exact digit_safe c (printNat_digits i c h)
    · exact ⟨(hch c h).1.2.2.2.2.1, (hch c h).1.2.2.2.2.2⟩
    · cases hs : d.stereo with
      | none => rw [hs] at h; cases h
      | some b => rw [hs] at h; cases b <;> (simp [stereoText] at h; subst h; exact ⟨by decide, by decide⟩)
    · exact printCharge_safe d.charge w.chLo w.chHi c h
    · exact ⟨(hbp c h).2.2.2.2.1, (hbp c h).2.2.2.2.2⟩
    · cases hm : d.map with
      | none => rw [hm] at h; cases h
      | some m =>
        rw [hm] at h
        simp only [Option.map_some, mapText, List.mem_cons] at h
        rcases h with e | h
        · subst e; exact ⟨by decide, by decide⟩
        · exact digit_safe c (printNat_digits m c h)
  · intro e
    cases hp : printHead d.head with
    | nil => rw [hp] at hch0; exact hch0
    | cons x xs =>
      rw [hp] at e
      simp at e

/-- **general round trip**: for *every* well-formed documented atom — any element / `#n` / element list of any length, any
    isotope and atom map, value lists of any length — `smarts()` reads the canonical spelling as exactly the documented query atom;
    with the CX radical block `|^1:0|` (`rad = true`, not for any-metal) the atom carries the radical mark -/
theorem smarts_printDoc_rad (d : DocAtom) (h : DocWF d = true) (rad : Bool) (hr : rad = true → d.head ≠ .metal) :
    smartsModel ('[' :: printDoc d ++ [']']) (if rad then [0] else []) = .ok ⟨[(numberOf d, denoteRad d rad)], []⟩ := by
  have w := wfacts_of_DocWF d h
  obtain ⟨hsafe, hne⟩ := printDoc_safe d w
  have ok : DocOK d := ⟨w.head, w.chLo, w.chHi, fun m hm => (w.mapOk m hm).1⟩
  have hq := queryParse_printDoc d ok
  have hb := buildAtom_parsedOf d w rad hr
  have hinner : smartsInner ('[' :: printDoc d ++ [']']) (if rad then [0] else []) = .ok ⟨[(numberOf d, denoteRad d rad)], []⟩ := by
    unfold smartsInner
    rw [tokenize_single (printDoc d) hne (fun hm => (hsafe _ hm).1 rfl) (fun hm => (hsafe _ hm).2 rfl)]
    simp only [smartsTokens, hq, bind, Except.bind, parseLoop, parseStep, List.length_nil, beq_self_eq_true, if_true]
    have hany : (List.any (if rad = true then [0] else []) fun x => decide (x ≥ [parsedOf d].length)) = false := by
      cases rad <;> simp
    have hcont : (if rad = true then [0] else ([] : List Nat)).contains 0 = rad := by
      cases rad <;> simp
    simp only [bne_self_eq_false, Bool.false_eq_true, if_false, List.reverse_cons, List.reverse_nil, List.nil_append,
               hany, List.foldl_cons, List.foldl_nil]
    have hnum : numberAtoms [parsedOf d] (max 0 ((parsedOf d).mapping.getD 0) + 1) 1 = [numberOf d] := by
      unfold numberAtoms numberOf
      rw [parsedOf_mapping, parsedOf_masked]
      cases hm : d.map with
      | some m =>
        have := (w.mapOk m hm).1
        have hm0 : (m != 0) = true := by simp; omega
        simp [hm0, numberAtoms]
      | none =>
        cases d.masked <;> simp [numberAtoms, maskedBase]
    rw [hnum]
    simp only [buildAtoms, hcont, List.contains_nil, hb, bind, Except.bind, Bool.false_eq_true, if_false, buildBonds, buildBondsAux]
  simp only [smartsModel, hinner]

theorem smarts_printDoc (d : DocAtom) (h : DocWF d = true) :
    smartsModel ('[' :: printDoc d ++ [']']) [] = .ok ⟨[(numberOf d, denote d)], []⟩ := by
  have := smarts_printDoc_rad d h false (fun e => by cases e)
  have e : denoteRad d false = denote d := by
    unfold denoteRad denote
    cases d.head <;> rfl
  rw [e] at this
  simpa using this

end ChythonModel.Proofs.C08
