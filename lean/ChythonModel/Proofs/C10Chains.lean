import ChythonModel.Proofs.C10PerceiveMain
import ChythonModel.Spec.Cumulene
/-!
# C10: what the walk of `cumulenes` emits are chains of cumulated double bonds in the sense of `Spec/Cumulene.lean`
-/
namespace ChythonModel.Proofs.C10
open ChythonModel.Model.Pack ChythonModel.Gen ChythonModel.Spec.Cumulene

/-- chython's `is_forming_double_bonds` as the spec's "can carry a double bond" -/
abbrev can : Nat → Bool := fun z => formsDouble.contains z

theorem atomAt_some {atoms : List PAtom} {n : Nat} {a : PAtom} (h : atomAt atoms n = some a) : a ∈ atoms ∧ a.num = n := by
  unfold atomAt at h
  exact ⟨List.mem_of_find?_eq_some h, by simpa using List.find?_some h⟩

theorem atomAt_of_mem {atoms : List PAtom} (hnd : (atoms.map (·.num)).Nodup) {a : PAtom} (ha : a ∈ atoms) :
    atomAt atoms a.num = some a := by
  have := find_of_mem_nodup (fun x : PAtom => x.num) atoms hnd a ha
  unfold atomAt; exact this

theorem fdb_true {atoms : List PAtom} {x : Nat} (h : fdb atoms x = true) :
    ∃ B, atomAt atoms x = some B ∧ can B.z = true := by
  unfold fdb zAt at h
  cases hb : atomAt atoms x with
  | none => rw [hb] at h; revert h; decide
  | some B => rw [hb] at h; exact ⟨B, rfl, h⟩

theorem fdb_of_atomAt {atoms : List PAtom} {x : Nat} {B : PAtom} (hb : atomAt atoms x = some B) (hz : can B.z = true) :
    fdb atoms x = true := by
  unfold fdb zAt; rw [hb]; exact hz

theorem mem_dblAdj {atoms : List PAtom} {m x : Nat} :
    x ∈ dblAdj atoms m ↔
      ∃ a, atomAt atoms m = some a ∧ can a.z = true ∧ ∃ nb ∈ a.nbrs, nb.m = x ∧ nb.order = 2 ∧ fdb atoms x = true := by
  unfold dblAdj
  cases h : atomAt atoms m with
  | none => simp
  | some a =>
    by_cases hz : formsDouble.contains a.z = true
    · simp only [hz, if_true, dblOfAtom, List.mem_map, List.mem_filter, Bool.and_eq_true, beq_iff_eq, dblOrder]
      constructor
      · rintro ⟨nb, ⟨hnb, ho, hf⟩, rfl⟩; exact ⟨a, rfl, hz, nb, hnb, rfl, ho, hf⟩
      · rintro ⟨a', ha', _, nb, hnb, rfl, ho, hf⟩
        cases ha'; exact ⟨nb, ⟨hnb, ho, hf⟩, rfl⟩
    · simp only [hz, Bool.false_eq_true, ↓reduceIte, List.not_mem_nil, false_iff]
      rintro ⟨a', ha', hz', _⟩
      cases ha'; exact hz hz'

theorem dbl_to_DB {atoms : List PAtom} {m x : Nat} (h : x ∈ dblAdj atoms m) : DoubleBond can atoms m x := by
  obtain ⟨a, ha, hz, nb, hnb, hm, ho, hf⟩ := mem_dblAdj.mp h
  obtain ⟨B, hB, hzB⟩ := fdb_true hf
  exact ⟨a, (atomAt_some ha).1, B, (atomAt_some hB).1, (atomAt_some ha).2, (atomAt_some hB).2, hz, hzB, nb, hnb, hm, ho⟩

theorem DB_to_dbl {atoms : List PAtom} (hnd : (atoms.map (·.num)).Nodup) {m x : Nat} (h : DoubleBond can atoms m x) :
    x ∈ dblAdj atoms m := by
  obtain ⟨A, hA, B, hB, rfl, rfl, hzA, hzB, nb, hnb, hm, ho⟩ := h
  exact mem_dblAdj.mpr ⟨A, atomAt_of_mem hnd hA, hzA, nb, hnb, hm, ho, fdb_of_atomAt (atomAt_of_mem hnd hB) hzB⟩

theorem dbl_symm {atoms : List PAtom} (g : GraphOK atoms) {m x : Nat} (h : x ∈ dblAdj atoms m) : m ∈ dblAdj atoms x := by
  obtain ⟨a, ha, hz, nb, hnb, hm, ho, hf⟩ := mem_dblAdj.mp h
  obtain ⟨B, hB, hzB⟩ := fdb_true hf
  obtain ⟨ha1, ha2⟩ := atomAt_some ha
  obtain ⟨b, hb, hbn, hent⟩ := g.sym a ha1 nb hnb
  have : b = B := eq_of_num_eq g.nodup hb (atomAt_some hB).1 (by rw [hbn, hm, (atomAt_some hB).2])
  subst this
  refine mem_dblAdj.mpr ⟨b, hB, hzB, ⟨a.num, nb.order, nb.stereo⟩, hent, ha2, ho, ?_⟩
  exact fdb_of_atomAt ha hz

theorem dblAdj_nodup {atoms : List PAtom} (g : GraphOK atoms) (m : Nat) : (dblAdj atoms m).Nodup := by
  cases h : atomAt atoms m with
  | none => simp [dblAdj, h]
  | some a =>
    simp only [dblAdj, h]
    split
    · unfold dblOfAtom
      exact (g.nbrNodup a (atomAt_some h).1).sublist (List.Sublist.map _ List.filter_sublist)
    · simp

theorem dblAdj_length_le (atoms : List PAtom) (m : Nat) : (dblAdj atoms m).length ≤ degAt atoms m := by
  cases h : atomAt atoms m with
  | none => simp [dblAdj, degAt, h]
  | some a =>
    simp only [dblAdj, degAt, h]
    split
    · unfold dblOfAtom; simp only [List.length_map]; exact List.length_filter_le _ _
    · simp

theorem popOnly_ok {l : List Nat} {x : Nat} (h : popOnly l = .ok x) : l = [x] := by
  match l, h with
  | [y], h => simp only [popOnly, Except.ok.injEq] at h; rw [h]

theorem mem_terminals0 {atoms : List PAtom} (hnd : (atoms.map (·.num)).Nodup) {n : Nat} (h : n ∈ terminals0 atoms) :
    ∃ y, dblAdj atoms n = [y] := by
  unfold terminals0 at h
  obtain ⟨a, ha, rfl⟩ := List.mem_map.mp h
  simp only [List.mem_filter, Bool.and_eq_true, beq_iff_eq] at ha
  obtain ⟨ha, hz, hl⟩ := ha
  simp only [dblAdj, atomAt_of_mem hnd ha, if_pos hz]
  match hd : dblOfAtom atoms a, hl with
  | [y], _ => exact ⟨y, rfl⟩

/-! ### the run invariant of the inner loop -/

theorem links_append_last {R : Nat → Nat → Prop} : ∀ (l : List Nat) (m x : Nat), Links R (l ++ [m]) → R m x →
    Links R (l ++ [m, x])
  | [], _, _, _, hr => ⟨hr, trivial⟩
  | [_], _, _, h, hr => ⟨h.1, hr, trivial⟩
  | _ :: b :: l, m, x, h, hr => ⟨h.1, links_append_last (b :: l) m x h.2 hr⟩

theorem interior_snoc (a : Nat) (r : List Nat) (m x : Nat) :
    interior (a :: r ++ [m, x]) = interior (a :: r ++ [m]) ++ [m] := by
  unfold interior
  have h1 : (a :: r ++ [m, x]).tail = (r ++ [m]) ++ [x] := by simp
  have h2 : (a :: r ++ [m]).tail = r ++ [m] := by simp
  rw [h1, h2, List.dropLast_concat]
  cases r with
  | nil => simp
  | cons b r' =>
    have : (b :: r' ++ [m]) = (b :: r') ++ [m] := rfl
    rw [List.dropLast_concat]

def walkPath : Walk → List Nat
  | .chain p _ => p
  | .broken p => p

/-- what the inner loop guarantees about its result -/
def WalkOK (atoms : List PAtom) (terms : List Nat) : Walk → Prop
  | .chain p l => Run can atoms p ∧ l ∈ terms ∧ ∃ pre a, p = pre ++ [a, l] ∧ a ∈ dblAdj atoms l
  | .broken p => Run can atoms p ∧ ∃ pre a l, p = pre ++ [a, l] ∧ degAt atoms l > 2

theorem hasDegree_two {atoms : List PAtom} {n m x : Nat} (hn : n ∈ dblAdj atoms m)
    (hx : (dblAdj atoms m).erase n = [x]) (hd : ¬ degAt atoms m > cumMaxNbrs) : HasDegree atoms m spNeighbours := by
  obtain ⟨a, ha, _⟩ := mem_dblAdj.mp hn
  have hlen : (dblAdj atoms m).length = 2 := by
    have := List.length_erase_of_mem hn
    rw [hx] at this
    have hpos : 0 < (dblAdj atoms m).length := List.length_pos_of_mem hn
    simp only [List.length_cons, List.length_nil] at this
    omega
  have hle := dblAdj_length_le atoms m
  have hdeg : degAt atoms m = a.nbrs.length := by simp [degAt, ha]
  refine ⟨a, (atomAt_some ha).1, (atomAt_some ha).2, ?_⟩
  have : cumMaxNbrs = 2 := rfl
  show a.nbrs.length = 2
  omega

theorem walk_sound {atoms : List PAtom} (g : GraphOK atoms) (terms : List Nat) :
    ∀ (f n m : Nat) (pre : List Nat) (w : Walk), walk atoms terms f n m (pre ++ [n, m]) = .ok w →
      Run can atoms (pre ++ [n, m]) → n ∈ dblAdj atoms m →
      WalkOK atoms terms w ∧ ∃ tl, walkPath w = (pre ++ [n, m]) ++ tl
  | 0, _, _, _, _, h, _, _ => by simp [walk] at h
  | f + 1, n, m, pre, w, h, hrun, hn => by
    unfold walk at h
    split at h
    · rename_i hc
      simp only [Except.ok.injEq] at h; subst h
      exact ⟨⟨hrun, by simpa using hc, pre, n, rfl, hn⟩, [], by simp [walkPath]⟩
    · split at h
      · rename_i hd
        simp only [Except.ok.injEq] at h; subst h
        exact ⟨⟨hrun, pre, n, m, rfl, hd⟩, [], by simp [walkPath]⟩
      · rename_i hd
        split at h
        · simp at h
        · rename_i x hx
          have hx' := popOnly_ok hx
          have hxm : x ∈ dblAdj atoms m := List.mem_of_mem_erase (by rw [hx']; simp)
          have hpath : pre ++ [n, m] ++ [x] = (pre ++ [n]) ++ [m, x] := by simp
          rw [hpath] at h
          have hrun' : Run can atoms ((pre ++ [n]) ++ [m, x]) := by
            refine ⟨by simp, ?_, ?_⟩
            · apply links_append_last
              · have : pre ++ [n] ++ [m] = pre ++ [n, m] := by simp
                rw [this]; exact hrun.links
              · exact dbl_to_DB hxm
            · intro y hy
              have hne : pre ++ [n] ≠ [] := by simp
              obtain ⟨a, r, har⟩ := List.exists_cons_of_ne_nil hne
              rw [har, interior_snoc] at hy
              rcases List.mem_append.mp hy with hy | hy
              · apply hrun.inner
                have : a :: r ++ [m] = pre ++ [n, m] := by rw [← har]; simp
                rw [← this]; exact hy
              · simp only [List.mem_singleton] at hy
                subst hy
                exact hasDegree_two hn hx' hd
          obtain ⟨hok, tl, htl⟩ := walk_sound g terms f m x (pre ++ [n]) w h hrun' (dbl_symm g hxm)
          exact ⟨hok, x :: tl, by rw [htl]; simp⟩

/-! ### the outer loop -/

/-- an atom with more than two neighbours (not `sp`: a chain of cumulated double bonds cannot pass through it) -/
def Hyper (atoms : List PAtom) (l : Nat) : Prop := ∃ k, spNeighbours < k ∧ HasDegree atoms l k

/-- what each emitted group is, in the terms of `Spec/Cumulene.lean` -/
def WalkSpec (atoms : List PAtom) : Walk → Prop
  | .chain p _ => MaximalChain can atoms p
  | .broken p => Run can atoms p ∧ (∀ a0 a1 r, p = a0 :: a1 :: r → ∀ b, DoubleBond can atoms a0 b → b = a1) ∧
      ∃ pre a l, p = pre ++ [a, l] ∧ Hyper atoms l

theorem degAt_hyper {atoms : List PAtom} {l : Nat} (h : degAt atoms l > 2) : Hyper atoms l := by
  unfold degAt at h
  cases ha : atomAt atoms l with
  | none => simp [ha] at h
  | some a =>
    simp only [ha] at h
    exact ⟨a.nbrs.length, h, a, (atomAt_some ha).1, (atomAt_some ha).2, rfl⟩

theorem first_maximal {atoms : List PAtom} (g : GraphOK atoms) {n m : Nat} (hn : dblAdj atoms n = [m]) {p tl : List Nat}
    (hp : p = [n, m] ++ tl) : ∀ a0 a1 r, p = a0 :: a1 :: r → ∀ b, DoubleBond can atoms a0 b → b = a1 := by
  intro a0 a1 r he b hb
  rw [hp] at he
  simp only [List.cons_append, List.nil_append, List.cons.injEq] at he
  obtain ⟨rfl, rfl, _⟩ := he
  have := DB_to_dbl g.nodup hb
  rw [hn] at this
  simpa using this

theorem cumLoop_sound {atoms : List PAtom} (g : GraphOK atoms) : ∀ (f : Nat) (terms : List Nat) (ws : List Walk),
    (∀ t ∈ terms, t ∈ terminals0 atoms) → cumLoop atoms f terms = .ok ws → ∀ w ∈ ws, WalkSpec atoms w
  | _, [], ws, _, h => by
    simp only [cumLoop, Except.ok.injEq] at h; subst h; intro w hw; simp at hw
  | 0, _ :: _, _, _, h => by simp [cumLoop] at h
  | f + 1, n :: terms, ws, hsub, h => by
    unfold cumLoop at h
    split at h
    · simp at h
    · rename_i m hm
      have hnm := popOnly_ok hm
      have hmn : m ∈ dblAdj atoms n := by rw [hnm]; simp
      have hrun0 : Run can atoms ([] ++ [n, m]) :=
        ⟨by simp, ⟨dbl_to_DB hmn, trivial⟩, by intro x hx; simp [interior] at hx⟩
      split at h
      · simp at h
      · -- chain
        rename_i p l hw
        obtain ⟨hok, tl, htl⟩ := walk_sound g terms _ n m [] _ hw hrun0 (dbl_symm g hmn)
        obtain ⟨hrun, hl, pre, a, hpa, hal⟩ := hok
        simp only [walkPath, List.nil_append] at htl
        have hmax : MaximalChain can atoms p := by
          refine ⟨hrun, first_maximal g hnm htl, ?_⟩
          intro pre' a' l' he b hb
          have hlen : [a, l].length = [a', l'].length := rfl
          have := List.append_inj_right' (hpa.symm.trans he) hlen
          simp only [List.cons.injEq, and_true] at this
          obtain ⟨rfl, rfl⟩ := this
          obtain ⟨y, hy⟩ := mem_terminals0 g.nodup (hsub l (List.mem_cons_of_mem _ hl))
          have hb' := DB_to_dbl g.nodup hb
          rw [hy] at hb' hal
          simp only [List.mem_singleton] at hb' hal
          rw [hb', hal]
        split at h
        · simp at h
        · rename_i r hr
          simp only [Except.ok.injEq] at h; subst h
          intro w hw'
          rcases List.mem_cons.mp hw' with rfl | hw'
          · exact hmax
          · exact cumLoop_sound g f (terms.erase l) r
              (fun t ht => hsub t (List.mem_cons_of_mem _ (List.mem_of_mem_erase ht))) hr w hw'
      · -- broken
        rename_i p hw
        obtain ⟨hok, tl, htl⟩ := walk_sound g terms _ n m [] _ hw hrun0 (dbl_symm g hmn)
        obtain ⟨hrun, pre, a, l, hpa, hdeg⟩ := hok
        simp only [walkPath, List.nil_append] at htl
        split at h
        · simp at h
        · rename_i r hr
          simp only [Except.ok.injEq] at h; subst h
          intro w hw'
          rcases List.mem_cons.mp hw' with rfl | hw'
          · exact ⟨hrun, first_maximal g hnm htl, pre, a, l, hpa, degAt_hyper hdeg⟩
          · exact cumLoop_sound g f terms r (fun t ht => hsub t (List.mem_cons_of_mem _ ht)) hr w hw'

theorem cumulenesTagged_sound {atoms : List PAtom} (g : GraphOK atoms) {ws : List Walk}
    (h : cumulenesTagged atoms = .ok ws) : ∀ w ∈ ws, WalkSpec atoms w :=
  cumLoop_sound g _ _ ws (fun _ ht => ht) h

/-! ### the flat list `cumulenes` -/

theorem links_of_pair {R : Nat → Nat → Prop} : ∀ (run : List Nat) (q : List Nat), Links R run → q ∈ pairsOf run →
    ∃ a b, q = [a, b] ∧ R a b
  | [], _, _, hq => by simp [pairsOf] at hq
  | [_], _, _, hq => by simp [pairsOf] at hq
  | a :: b :: r, q, hl, hq => by
    simp only [pairsOf, List.mem_cons] at hq
    rcases hq with rfl | hq
    · exact ⟨a, b, rfl, hl.1⟩
    · exact links_of_pair (b :: r) q hl.2 hq

/-- one double bond of a walked piece that stopped at an atom with more than two neighbours -/
def BrokenPiece (atoms : List PAtom) (p : List Nat) : Prop :=
  ∃ a b, p = [a, b] ∧ DoubleBond can atoms a b ∧
    ∃ run pre x l, Run can atoms run ∧ run = pre ++ [x, l] ∧ Hyper atoms l ∧ p ∈ pairsOf run

/-- **every path `cumulenes` reports is a maximal chain of cumulated double bonds, or one double bond of a piece that ran
    into an atom with more than two neighbours** -/
theorem cumulenes_sound {atoms : List PAtom} (g : GraphOK atoms) {paths : List (List Nat)}
    (h : cumulenes atoms = .ok paths) : ∀ p ∈ paths, MaximalChain can atoms p ∨ BrokenPiece atoms p := by
  unfold cumulenes at h
  cases hw : cumulenesTagged atoms with
  | error e => simp [hw] at h
  | ok ws =>
    simp only [hw, Except.ok.injEq] at h; subst h
    intro p hp
    obtain ⟨w, hwm, hpw⟩ := List.mem_flatMap.mp hp
    have hs := cumulenesTagged_sound g hw w hwm
    cases w with
    | chain q l =>
      simp only [Walk.paths, List.mem_singleton] at hpw
      subst hpw; exact Or.inl hs
    | broken q =>
      simp only [Walk.paths] at hpw
      obtain ⟨hrun, _, pre, a, l, hq, hy⟩ := hs
      obtain ⟨a', b', he, hdb⟩ := links_of_pair q p hrun.links hpw
      exact Or.inr ⟨a', b', he, hdb, q, pre, a, l, hrun, hq, hy, hpw⟩

end ChythonModel.Proofs.C10
