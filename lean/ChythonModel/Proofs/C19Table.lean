import ChythonModel.Proofs.C19Scan
/-!
# C19 — the table invariant of the int-set model and its preservation by slot updates

`TWF t`: every key stored in the table is found by `lookup` at the slot that stores it.  This one statement carries
"at most one live slot per key" and "no unused slot before a key on its probe sequence".
-/
namespace ChythonModel.Py.IntSet

/-- `k` is stored in the table -/
def Mem (t : Array Slot) (k : Int) : Prop := ∃ j : Nat, t[j]? = some (Slot.active k)

/-- every stored key is found where it is stored -/
def TWF (t : Array Slot) : Prop := ∀ (j : Nat) (k : Int), t[j]? = some (Slot.active k) → lookup t k = some j

def NoDummy (t : Array Slot) : Prop := ∀ j : Nat, t[j]? ≠ some Slot.dummy

theorem lookup_set! (t : Array Slot) (i : Nat) (v : Slot) (k : Int) :
    lookup (t.set! i v) k = look (t.set! i v) (t.size - 1) k (fuelFor (t.size - 1)) (PS.start (t.size - 1) k) := by
  simp [lookup]

theorem TWF.unique {t : Array Slot} (h : TWF t) {i j : Nat} {k : Int} (hi : t[i]? = some (Slot.active k))
    (hj : t[j]? = some (Slot.active k)) : i = j := by
  have := (h i k hi).symm.trans (h j k hj)
  simpa using this

/-- a lookup that ends in an unused slot: the key is not stored -/
theorem not_mem_of_lookup_empty {t : Array Slot} (h : TWF t) {k : Int} {j : Nat} (hl : lookup t k = some j)
    (he : t[j]? = some Slot.empty) : ¬ Mem t k := by
  rintro ⟨j', hj'⟩
  have := (h j' k hj').symm.trans hl
  simp at this
  subst this
  rw [he] at hj'
  simp at hj'

/-- active → dummy (`discard`, `pop`) -/
theorem twf_set_dummy {t : Array Slot} (h : TWF t) {j0 : Nat} {k0 : Int} (h0 : t[j0]? = some (Slot.active k0)) :
    TWF (t.set! j0 .dummy) ∧ ∀ x, Mem (t.set! j0 .dummy) x ↔ (Mem t x ∧ x ≠ k0) := by
  have hsz := lt_size_of_get h0
  constructor
  · intro j k hj
    have hne : j0 ≠ j := by
      intro e; subst e; rw [get_set!_self t _ hsz] at hj; simp at hj
    rw [get_set!_ne t _ hne] at hj
    have hk : k ≠ k0 := by
      intro e; subst e; exact hne (h.unique h0 hj)
    rw [lookup_set!]
    rw [look_congr (t := t) (t' := t.set! j0 .dummy)]
    · exact h j k hj
    · intro i
      by_cases hi : j0 = i
      · subst hi
        rw [get_set!_self t _ hsz, h0]
        refine ⟨by simp, by simp, ?_⟩
        simp
        exact fun e => hk e.symm
      · rw [get_set!_ne t _ hi]
        exact ⟨Iff.rfl, Iff.rfl, Iff.rfl⟩
  · intro x
    constructor
    · rintro ⟨j, hj⟩
      have hne : j0 ≠ j := by
        intro e; subst e; rw [get_set!_self t _ hsz] at hj; simp at hj
      rw [get_set!_ne t _ hne] at hj
      refine ⟨⟨j, hj⟩, ?_⟩
      intro e; subst e; exact hne (h.unique h0 hj)
    · rintro ⟨⟨j, hj⟩, hx⟩
      have hne : j0 ≠ j := by
        intro e; subst e; rw [h0] at hj; simp at hj; exact hx hj.symm
      exact ⟨j, by rw [get_set!_ne t _ hne]; exact hj⟩

theorem mem_set_active {t : Array Slot} {j0 : Nat} {k : Int} {a : Slot} (h0 : t[j0]? = some a) (ha : ∀ k', a ≠ Slot.active k') :
    ∀ x, Mem (t.set! j0 (.active k)) x ↔ (x = k ∨ Mem t x) := by
  have hsz := lt_size_of_get h0
  intro x
  constructor
  · rintro ⟨j, hj⟩
    by_cases hne : j0 = j
    · subst hne; rw [get_set!_self t _ hsz] at hj; simp at hj; exact Or.inl hj.symm
    · rw [get_set!_ne t _ hne] at hj; exact Or.inr ⟨j, hj⟩
  · rintro (e | ⟨j, hj⟩)
    · subst e; exact ⟨j0, get_set!_self t _ hsz⟩
    · have hne : j0 ≠ j := by
        intro e; subst e; rw [h0] at hj; simp at hj; exact ha _ hj
      exact ⟨j, by rw [get_set!_ne t _ hne]; exact hj⟩

/-- unused → active at the slot the lookup ended in (`set_add_entry` found_unused, `set_insert_clean`) -/
theorem twf_fill_empty {t : Array Slot} (h : TWF t) {k : Int} {j : Nat} (hl : lookup t k = some j)
    (he : t[j]? = some Slot.empty) :
    TWF (t.set! j (.active k)) ∧ ∀ x, Mem (t.set! j (.active k)) x ↔ (x = k ∨ Mem t x) := by
  have hsz := lt_size_of_get he
  refine ⟨?_, mem_set_active he (by simp)⟩
  intro j' k' hj'
  rw [lookup_set!]
  by_cases hne : j = j'
  · subst hne
    rw [get_set!_self t _ hsz] at hj'
    simp at hj'
    subst hj'
    exact look_set_self hl
  · rw [get_set!_ne t _ hne] at hj'
    exact look_set_unvisited _ he (h j' k' hj') hne

/-- dummy → active at the free slot of the insertion scan -/
theorem twf_fill_dummy {t : Array Slot} (h : TWF t) {k : Int} (hk : ¬ Mem t k) {f0 : Nat} (hd : t[f0]? = some Slot.dummy)
    (hl : lookup (t.set! f0 (.active k)) k = some f0) :
    TWF (t.set! f0 (.active k)) ∧ ∀ x, Mem (t.set! f0 (.active k)) x ↔ (x = k ∨ Mem t x) := by
  have hsz := lt_size_of_get hd
  refine ⟨?_, mem_set_active hd (by simp)⟩
  intro j' k' hj'
  by_cases hne : f0 = j'
  · subst hne
    rw [get_set!_self t _ hsz] at hj'
    simp at hj'
    subst hj'
    exact hl
  · rw [get_set!_ne t _ hne] at hj'
    have hkk : k' ≠ k := by
      intro e; subst e; exact hk ⟨j', hj'⟩
    rw [lookup_set!]
    rw [look_congr (t := t) (t' := t.set! f0 (.active k))]
    · exact h j' k' hj'
    · intro i
      by_cases hi : f0 = i
      · subst hi
        rw [get_set!_self t _ hsz, hd]
        refine ⟨by simp, by simp, ?_⟩
        simp
        exact fun e => hkk e.symm
      · rw [get_set!_ne t _ hi]
        exact ⟨Iff.rfl, Iff.rfl, Iff.rfl⟩

/-! ### the fresh table -/

theorem get_emptyTable (n j : Nat) : (emptyTable n)[j]? = if j < n then some Slot.empty else none := by
  unfold emptyTable
  by_cases h : j < n <;> simp [h]

theorem twf_emptyTable (n : Nat) : TWF (emptyTable n) := by
  intro j k h
  rw [get_emptyTable] at h
  split at h <;> simp at h

theorem noDummy_emptyTable (n : Nat) : NoDummy (emptyTable n) := by
  intro j h
  rw [get_emptyTable] at h
  split at h <;> simp at h

theorem not_mem_emptyTable (n : Nat) (k : Int) : ¬ Mem (emptyTable n) k := by
  rintro ⟨j, h⟩
  rw [get_emptyTable] at h
  split at h <;> simp at h

/-! ### `set_insert_clean` -/

theorem insertClean_spec {t t' : Array Slot} (h : TWF t) (hd : NoDummy t) {k : Int} (hk : ¬ Mem t k)
    (hi : insertClean t k = some t') :
    TWF t' ∧ NoDummy t' ∧ t'.size = t.size ∧ ∀ x, Mem t' x ↔ (x = k ∨ Mem t x) := by
  unfold insertClean at hi
  rw [lookEmpty_eq_look (k := k) (fun j hj => hk ⟨j, hj⟩) hd] at hi
  split at hi
  · simp at hi
  · rename_i j hl
    simp only [Option.some.injEq] at hi
    subst hi
    have hl' : lookup t k = some j := hl
    have he : t[j]? = some Slot.empty := by
      rcases look_spec hl with h' | h'
      · exact h'
      · exact absurd ⟨j, h'⟩ hk
    obtain ⟨w1, w2⟩ := twf_fill_empty h hl' he
    refine ⟨w1, ?_, size_set! _ _ _, w2⟩
    intro i hi
    by_cases hne : j = i
    · subst hne; rw [get_set!_self t _ (lt_size_of_get he)] at hi; simp at hi
    · rw [get_set!_ne t _ hne] at hi; exact hd i hi

theorem insertCleanAll_spec : ∀ (ks : List Int) {t t' : Array Slot}, TWF t → NoDummy t → ks.Nodup → (∀ k ∈ ks, ¬ Mem t k) →
    insertCleanAll t ks = some t' →
    TWF t' ∧ NoDummy t' ∧ t'.size = t.size ∧ ∀ x, Mem t' x ↔ (x ∈ ks ∨ Mem t x) := by
  intro ks
  induction ks with
  | nil =>
    intro t t' h hd _ _ hi
    simp [insertCleanAll] at hi
    subst hi
    exact ⟨h, hd, rfl, by simp⟩
  | cons k ks ih =>
    intro t t' h hd hn hk hi
    unfold insertCleanAll at hi
    split at hi
    · simp at hi
    · rename_i t1 h1
      obtain ⟨a1, a2, a3, a4⟩ := insertClean_spec h hd (hk k (by simp)) h1
      have hn' := List.nodup_cons.1 hn
      have hk' : ∀ k' ∈ ks, ¬ Mem t1 k' := by
        intro k' hk'' hm
        rcases (a4 k').1 hm with e | hm'
        · subst e; exact hn'.1 hk''
        · exact hk k' (by simp [hk'']) hm'
      obtain ⟨b1, b2, b3, b4⟩ := ih a1 a2 hn'.2 hk' hi
      refine ⟨b1, b2, b3.trans a3, ?_⟩
      intro x
      rw [b4 x, a4 x]
      simp only [List.mem_cons]
      constructor
      · rintro (h | h | h)
        · exact Or.inl (Or.inr h)
        · exact Or.inl (Or.inl h)
        · exact Or.inr h
      · rintro ((h | h) | h)
        · exact Or.inr (Or.inl h)
        · exact Or.inl h
        · exact Or.inr (Or.inr h)

/-! ### iteration order = the stored keys, each once -/

theorem mem_activeKeys {t : Array Slot} {k : Int} : k ∈ activeKeys t ↔ Mem t k := by
  unfold activeKeys Mem
  simp only [List.mem_filterMap]
  constructor
  · rintro ⟨a, ha, hk⟩
    rcases List.mem_iff_getElem.1 ha with ⟨j, hj, e⟩
    refine ⟨j, ?_⟩
    cases a <;> simp at hk
    subst hk
    simp at hj
    simp [hj, ← e]
  · rintro ⟨j, hj⟩
    have hsz := lt_size_of_get hj
    refine ⟨Slot.active k, ?_, rfl⟩
    have : t[j] = Slot.active k := by
      have := hj
      rw [Array.getElem?_eq_getElem hsz] at this
      simpa using this
    rw [← this]
    simp

theorem nodup_activeKeys {t : Array Slot} (h : TWF t) : (activeKeys t).Nodup := by
  unfold activeKeys
  rw [List.Nodup, List.pairwise_filterMap, List.pairwise_iff_getElem]
  intro i j hi hj hij b hb b' hb' e
  subst e
  have gi : t[i]? = some (Slot.active b) := by
    simp at hi
    rw [Array.getElem?_eq_getElem hi]
    generalize hx : t.toList[i] = x at hb
    cases x <;> simp at hb
    subst hb
    simp at hx
    simp [hx]
  have gj : t[j]? = some (Slot.active b) := by
    simp at hj
    rw [Array.getElem?_eq_getElem hj]
    generalize hx : t.toList[j] = x at hb'
    cases x <;> simp at hb'
    subst hb'
    simp at hx
    simp [hx]
  have := h.unique gi gj
  omega

end ChythonModel.Py.IntSet
