import ChythonModel.Proofs.C03RingDefs
/-!
# C03 — completeness of the ring-closure discipline of `Spec.denoteR` w.r.t. `parser`

`parse_printR` (C03SpecRing) : a tree with a denotation is accepted and the parser builds exactly the denoted graph.
Here the converse: a tree whose printing the parser accepts without building a bond from an atom to itself has a
denotation (`denoteR_of_parse`), and denoted graphs have no self-loops (`denoteR_loopFree`).
-/
set_option linter.unusedSimpArgs false
set_option linter.unusedVariables false
namespace ChythonModel.Proofs.C03
open ChythonModel.Model.C03 ChythonModel.Spec.Smiles

/-! ## graphs the spec assigns have no self-loops -/

theorem loopFree_nil : loopFree [] := by
  intro b hb; cases hb

theorem loopFree_append {l1 l2 : List (Nat × Nat × Nat)} (h1 : loopFree l1) (h2 : loopFree l2) :
    loopFree (l1 ++ l2) := by
  intro b hb
  rcases List.mem_append.mp hb with hb | hb
  · exact h1 b hb
  · exact h2 b hb

theorem linkBonds_loopFree {α} (arom : α → Bool) (l : Link) (n p : Nat) (a pa : α) (h : p < n) :
    loopFree (linkBonds arom l n p a pa) := by
  intro b hb
  cases l <;> simp only [linkBonds, List.mem_singleton, List.not_mem_nil] at hb
  all_goals (subst hb; intro e; have e' : n = p := e; omega)

theorem ringOne_loopFree {α} (arom : α → Bool) (tbl tbl1 : List (OpenRing α)) (n : Nat) (a : α) (rb : RingBond)
    (b1 : List (Nat × Nat × Nat)) (hs : ringOne arom tbl n a rb = some (tbl1, b1)) : loopFree b1 := by
  unfold ringOne at hs
  split at hs
  · cases hs; exact loopFree_nil
  · split at hs
    · cases hs
    · rename_i o _ hne
      split at hs
      · cases hs
        intro b hb
        simp only [List.mem_singleton] at hb
        subst hb
        intro e
        apply hne
        simp only [beq_iff_eq]
        exact e.symm
      · cases hs

theorem ringAll_loopFree {α} (arom : α → Bool) (n : Nat) (a : α) : ∀ (rbs : List RingBond)
    (tbl tbl1 : List (OpenRing α)) (b1 : List (Nat × Nat × Nat)),
    ringAll arom n a tbl rbs = some (tbl1, b1) → loopFree b1
  | [], tbl, tbl1, b1, hs => by
    simp only [ringAll, Option.some.injEq, Prod.mk.injEq] at hs
    obtain ⟨_, rfl⟩ := hs
    exact loopFree_nil
  | rb :: rest, tbl, tbl1, b1, hs => by
    unfold ringAll at hs
    cases h1 : ringOne arom tbl n a rb with
    | none => rw [h1] at hs; cases hs
    | some p =>
      obtain ⟨tblA, bA⟩ := p
      rw [h1] at hs
      dsimp only at hs
      cases h2 : ringAll arom n a tblA rest with
      | none => rw [h2] at hs; cases hs
      | some q =>
        obtain ⟨tbl2, b2⟩ := q
        rw [h2] at hs
        dsimp only at hs
        simp only [Option.some.injEq, Prod.mk.injEq] at hs
        obtain ⟨_, rfl⟩ := hs
        exact loopFree_append (ringOne_loopFree arom tbl tblA n a rb bA h1)
          (ringAll_loopFree arom n a rest tblA tbl2 b2 h2)

theorem denoteKR_loopFree {α} (arom : α → Bool) (rbs : α → List RingBond) : ∀ (k : K α) (p : Nat) (pa : α) (n : Nat)
    (tbl : List (OpenRing α)) (as : List α) (bs : List (Nat × Nat × Nat)) (tbl' : List (OpenRing α)), p < n →
    denoteKR arom rbs p pa n tbl k = some (as, bs, tbl') → loopFree bs
  | .done, p, pa, n, tbl, as, bs, tbl', hp, hd => by
    simp only [denoteKR, Option.some.injEq, Prod.mk.injEq] at hd
    obtain ⟨_, rfl, _⟩ := hd
    exact loopFree_nil
  | .next l a k, p, pa, n, tbl, as, bs, tbl', hp, hd => by
    unfold denoteKR at hd
    cases h1 : ringAll arom n a tbl (rbs a) with
    | none => rw [h1] at hd; cases hd
    | some p1 =>
      obtain ⟨tbl1, rb1⟩ := p1
      rw [h1] at hd
      dsimp only at hd
      cases h2 : denoteKR arom rbs n a (n + 1) tbl1 k with
      | none => rw [h2] at hd; cases hd
      | some p2 =>
        obtain ⟨as1, bs1, tbl2⟩ := p2
        rw [h2] at hd
        dsimp only at hd
        simp only [Option.some.injEq, Prod.mk.injEq] at hd
        obtain ⟨_, rfl, _⟩ := hd
        exact loopFree_append (loopFree_append (linkBonds_loopFree arom l n p a pa hp)
          (ringAll_loopFree arom n a _ _ _ _ h1))
          (denoteKR_loopFree arom rbs k n a (n + 1) tbl1 as1 bs1 tbl2 (Nat.lt_succ_self n) h2)
  | .side l a inner k, p, pa, n, tbl, as, bs, tbl', hp, hd => by
    unfold denoteKR at hd
    cases h1 : ringAll arom n a tbl (rbs a) with
    | none => rw [h1] at hd; cases hd
    | some p1 =>
      obtain ⟨tbl1, rb1⟩ := p1
      rw [h1] at hd
      dsimp only at hd
      cases h2 : denoteKR arom rbs n a (n + 1) tbl1 inner with
      | none => rw [h2] at hd; cases hd
      | some p2 =>
        obtain ⟨as1, bs1, tbl2⟩ := p2
        rw [h2] at hd
        dsimp only at hd
        cases h3 : denoteKR arom rbs p pa (n + 1 + as1.length) tbl2 k with
        | none => rw [h3] at hd; cases hd
        | some p3 =>
          obtain ⟨as2, bs2, tbl3⟩ := p3
          rw [h3] at hd
          dsimp only at hd
          simp only [Option.some.injEq, Prod.mk.injEq] at hd
          obtain ⟨_, rfl, _⟩ := hd
          exact loopFree_append (loopFree_append (loopFree_append (linkBonds_loopFree arom l n p a pa hp)
            (ringAll_loopFree arom n a _ _ _ _ h1))
            (denoteKR_loopFree arom rbs inner n a (n + 1) tbl1 as1 bs1 tbl2 (Nat.lt_succ_self n) h2))
            (denoteKR_loopFree arom rbs k p pa (n + 1 + as1.length) tbl2 as2 bs2 tbl3 (by omega) h3)

/-- **graphs the spec assigns have no bond from an atom to itself** -/
theorem denoteR_loopFree (c : Chain B) (g : Graph B) (hd : denoteR aromB (·.2) c = some g) : loopFree g.bonds := by
  obtain ⟨a0, k⟩ := c
  unfold denoteR at hd
  dsimp only at hd
  cases h0 : ringAll aromB 0 a0 [] a0.2 with
  | none => rw [h0] at hd; cases hd
  | some p0 =>
    obtain ⟨tbl0, rb0⟩ := p0
    rw [h0] at hd
    dsimp only at hd
    cases h1 : denoteKR aromB (·.2) 0 a0 1 tbl0 k with
    | none => rw [h1] at hd; cases hd
    | some p1 =>
      obtain ⟨as, bs, tbl⟩ := p1
      rw [h1] at hd
      dsimp only at hd
      split at hd
      · cases hd
        exact loopFree_append (ringAll_loopFree aromB 0 a0 _ _ _ _ h0)
          (denoteKR_loopFree aromB (·.2) k 0 a0 1 tbl0 as bs tbl Nat.one_pos h1)
      · cases hd

/-! ## the parser only appends bonds -/

/-- some bond joins an atom to itself -/
def HasLoop (bs : List (Nat × Nat × Nat)) : Prop := ∃ b ∈ bs, b.1 = b.2.1

/-- the run failed, or built a bond from an atom to itself -/
def Rejected : Except Err PState → Prop
  | .error _ => True
  | .ok st => HasLoop st.bonds

theorem hasLoop_append_left {l1 : List (Nat × Nat × Nat)} (l2 : List (Nat × Nat × Nat)) (h : HasLoop l1) :
    HasLoop (l1 ++ l2) := by
  obtain ⟨b, hb, e⟩ := h
  exact ⟨b, List.mem_append_left _ hb, e⟩

theorem pstep_bonds (s : Bool) (st st' : PState) (t : Tok) (h : pstep s st t = .ok st') :
    ∃ l, st'.bonds = st.bonds ++ l := by
  cases t with
  | other ty v => simp only [pstep] at h; cases h
  | lpar =>
    simp only [pstep] at h
    split at h
    · cases h
    · cases h; exact ⟨[], by simp⟩
  | rpar =>
    simp only [pstep] at h
    split at h
    · cases h
    · split at h
      · cases h
      · cases h; exact ⟨[], by simp⟩
  | bond o =>
    simp only [pstep] at h
    split at h
    · cases h
    · split at h
      · cases h
      · cases h; exact ⟨[], by simp⟩
  | dot =>
    simp only [pstep] at h
    split at h
    · cases h
    · split at h
      · cases h
      · cases h; exact ⟨[], by simp⟩
  | dir b =>
    simp only [pstep] at h
    split at h
    · cases h
    · split at h
      · cases h
      · cases h; exact ⟨[], by simp⟩
  | cyc n =>
    simp only [pstep] at h
    split at h
    · cases h
    · split at h
      · cases h
      · split at h
        · cases h; exact ⟨[], by simp⟩
        · split at h
          · cases h
          · split at h
            · cases h
            · cases h; exact ⟨_, rfl⟩
  | atom ty tok =>
    simp only [pstep] at h
    split at h
    · cases h
    · rename_i bs ord sb pv heq
      cases h
      show ∃ l, bs = st.bonds ++ l
      split at heq
      · cases heq; exact ⟨[], by simp⟩
      · split at heq
        · split at heq
          · cases heq
          · cases heq; exact ⟨_, rfl⟩
        · split at heq
          · cases heq
          · cases heq; exact ⟨_, rfl⟩
        · cases heq; exact ⟨_, rfl⟩
        · cases heq; exact ⟨[], by simp⟩

theorem prun_bonds (s : Bool) : ∀ (ts : List Tok) (st st' : PState), prun s st ts = .ok st' →
    ∃ l, st'.bonds = st.bonds ++ l
  | [], st, st', h => by
    simp only [prun] at h
    cases h
    exact ⟨[], by simp⟩
  | t :: ts, st, st', h => by
    unfold prun at h
    cases hk : pstep s st t with
    | error e => rw [hk] at h; cases h
    | ok st1 =>
      rw [hk] at h
      obtain ⟨l1, e1⟩ := pstep_bonds s st st1 t hk
      obtain ⟨l2, e2⟩ := prun_bonds s ts st1 st' h
      exact ⟨l1 ++ l2, by rw [e2, e1]; simp⟩

theorem rejected_of_loop (st : PState) (ts : List Tok) (h : HasLoop st.bonds) : Rejected (prun false st ts) := by
  cases hk : prun false st ts with
  | error e => trivial
  | ok st' =>
    obtain ⟨l, e⟩ := prun_bonds false ts st st' hk
    show HasLoop st'.bonds
    rw [e]
    exact hasLoop_append_left _ h

/-- rejection is stable under reading more tokens -/
theorem rejected_append (st : PState) (w1 w2 : List Tok) (h : Rejected (prun false st w1)) :
    Rejected (prun false st (w1 ++ w2)) := by
  rw [prun_append]
  cases hk : prun false st w1 with
  | error e => trivial
  | ok st' =>
    rw [hk] at h
    exact rejected_of_loop st' w2 h

theorem rejected_after (st st1 : PState) (w1 w2 : List Tok) (h1 : prun false st w1 = .ok st1)
    (h : Rejected (prun false st1 w2)) : Rejected (prun false st (w1 ++ w2)) := by
  rw [prun_append, h1]
  exact h

theorem rejected_single (st : PState) (t : Tok) (h : Rejected (pstep false st t)) : Rejected (prun false st [t]) := by
  unfold prun
  cases hk : pstep false st t with
  | error e => trivial
  | ok st1 => rw [hk] at h; exact h

theorem rejected_cons (st st1 : PState) (t : Tok) (ts : List Tok) (h1 : pstep false st t = .ok st1)
    (h : Rejected (prun false st1 ts)) : Rejected (prun false st (t :: ts)) := by
  unfold prun
  rw [h1]
  exact h

/-! ## a ring bond the spec refuses makes the parser fail or build a self-loop -/

/-- contradicting bond symbols at the two ends of a ring bond: `closeBond` raises -/
theorem closeBond_none (st : PState) (c : Cyc) (s1 s2 : RSym) (ba : Bool)
    (hb : c.bond = toPB s1) (hp : st.previous = toPB s2) (ho : ringOrder ba s1 s2 = none) :
    ∃ e, closeBond st false c = .error e := by
  unfold closeBond
  dsimp only
  cases s1 with
  | none => cases s2 <;> simp [ringOrder] at ho
  | order o1 =>
    cases s2 with
    | none => simp [ringOrder] at ho
    | order o2 =>
      simp only [toPB] at hb hp
      simp only [ringOrder] at ho
      split at ho
      · cases ho
      · rename_i hne
        have : (o2 != o1) = true := by
          simp only [bne_iff_ne, ne_eq]
          exact fun e => hne e.symm
        simp only [hb, hp, this, if_true]
        exact ⟨_, rfl⟩
    | dir b =>
      simp only [toPB] at hb hp
      simp only [ringOrder] at ho
      split at ho
      · cases ho
      · rename_i hne
        have : (o1 != 1) = true := by
          simp only [bne_iff_ne, ne_eq]
          exact hne
        simp only [hb, hp, this, if_true]
        exact ⟨_, rfl⟩
  | dir b1 =>
    cases s2 with
    | none => simp [ringOrder] at ho
    | order o2 =>
      simp only [toPB] at hb hp
      simp only [ringOrder] at ho
      split at ho
      · cases ho
      · rename_i hne
        have : (o2 != 1) = true := by
          simp only [bne_iff_ne, ne_eq]
          exact hne
        simp only [hb, hp, this, if_true]
        exact ⟨_, rfl⟩
    | dir b2 => simp [ringOrder] at ho

/-- closing a ring at the atom that opened it: error, or a bond from the atom to itself -/
theorem pstep_self_close (st : PState) (n : Nat) (c : Cyc) (hl : lookupNat n st.cycles = some c)
    (hc : c.atom = st.lastNum) : Rejected (pstep false st (.cyc n)) := by
  simp only [pstep]
  split
  · trivial
  · split
    · trivial
    · rw [hl]
      dsimp only
      cases closeBond st false c with
      | error e => trivial
      | ok r =>
        obtain ⟨b, sb, pv, lg⟩ := r
        dsimp only
        cases orderSet st.order c.atom c.ind (some st.lastNum) with
        | none => trivial
        | some ord =>
          dsimp only
          show HasLoop _
          exact ⟨(st.lastNum, c.atom, b), by simp, hc.symm⟩

/-- the ring-closure number itself, in the situation of `ring_cyc_step`, when the spec refuses the ring bond -/
theorem ring_cyc_none (st : PState) (a : B) (sym : RSym) (num : Nat) (tbl : List (OpenRing B))
    (hp : st.previous = toPB sym) (hop : st.opened = false) (hC : CycRel st.cycles tbl)
    (hs : ringOne aromB tbl st.lastNum a ⟨sym, num⟩ = none) : Rejected (pstep false st (.cyc num)) := by
  have hnd : (st.previous == some PB.dot) = false := by
    rw [hp]; cases sym <;> rfl
  unfold ringOne at hs
  dsimp only at hs
  cases hf : findRing num tbl with
  | none => rw [hf] at hs; cases hs
  | some o =>
    rw [hf] at hs
    dsimp only at hs
    obtain ⟨c, hl, hca, hcb⟩ := cycRel_lookup_some st.cycles tbl num o hC hf
    split at hs
    · rename_i heq
      simp only [beq_iff_eq] at heq
      exact pstep_self_close st num c hl (hca.trans heq)
    · cases hro : ringOrder (aromB o.pay && aromB a) o.sym sym with
      | some ord => rw [hro] at hs; cases hs
      | none =>
        obtain ⟨e, hcl⟩ := closeBond_none st c o.sym sym _ hcb hp hro
        have hstep : pstep false st (.cyc num) = .error e := by
          simp only [pstep, hnd, hop, hl, hcl, Bool.false_eq_true, if_false]
        rw [hstep]
        trivial

theorem ring_one_none (st : PState) (a : B) (rb : RingBond) (tbl : List (OpenRing B))
    (hR : Ready st a.1) (hI : PInv st) (hop : st.opened = false) (hC : CycRel st.cycles tbl)
    (hs : ringOne aromB tbl st.lastNum a rb = none) : Rejected (prun false st (toToks (printRing rb))) := by
  obtain ⟨sym, num⟩ := rb
  have hne : st.atoms.isEmpty = false := by
    have := hI.pos
    cases hk : st.atoms with
    | nil => simp [hk] at this
    | cons _ _ => rfl
  have hp0 := hR.prev
  cases sym with
  | none =>
    exact rejected_single st _ (ring_cyc_none st a .none num tbl hp0 hop hC hs)
  | order o =>
    have e1 : pstep false st (.bond o) = .ok { st with previous := some (.bond o) } := by
      simp [pstep, hp0, hne]
    show Rejected (prun false st [Tok.bond o, Tok.cyc num])
    exact rejected_cons st _ _ _ e1 (rejected_single _ _
      (ring_cyc_none { st with previous := some (.bond o) } a (.order o) num tbl rfl hop hC hs))
  | dir b =>
    have e1 : pstep false st (.dir b) = .ok { st with previous := some (.dir b) } := by
      simp [pstep, hp0, hne]
    show Rejected (prun false st [Tok.dir b, Tok.cyc num])
    exact rejected_cons st _ _ _ e1 (rejected_single _ _
      (ring_cyc_none { st with previous := some (.dir b) } a (.dir b) num tbl rfl hop hC hs))

theorem ring_all_none : ∀ (rbs : List RingBond) (st : PState) (a : B) (tbl : List (OpenRing B)),
    Ready st a.1 → PInv st → st.opened = false → CycRel st.cycles tbl → TypesOK st tbl →
    ringAll aromB st.lastNum a tbl rbs = none → Rejected (prun false st (toToks (printRings rbs)))
  | [], st, a, tbl, hR, hI, hop, hC, hT, hs => by
    simp [ringAll] at hs
  | rb :: rest, st, a, tbl, hR, hI, hop, hC, hT, hs => by
    have htoks : toToks (printRings (rb :: rest)) = toToks (printRing rb) ++ toToks (printRings rest) := by
      simp [printRings, toToks]
    rw [htoks]
    unfold ringAll at hs
    cases h1 : ringOne aromB tbl st.lastNum a rb with
    | none => exact rejected_append st _ _ (ring_one_none st a rb tbl hR hI hop hC h1)
    | some p =>
      obtain ⟨tblA, bA⟩ := p
      rw [h1] at hs
      dsimp only at hs
      cases h2 : ringAll aromB st.lastNum a tblA rest with
      | some q => rw [h2] at hs; cases hs
      | none =>
        obtain ⟨stA, eA, fb, fa, ft, fn, fl, fs, fp, fo, fc⟩ := ring_one_run st a rb tbl tblA bA hR hI hop hC hT h1
        have hIA : PInv stA := pinv_of_run hI (toToks_noOther _) eA
        have hRA : Ready stA a.1 := ⟨fp, by rw [fa, fn]; exact hR.alen, by rw [ft, fn]; exact hR.tlen,
          by rw [fl, fn]; exact hR.last, by rw [fl, ft]; exact hR.lty⟩
        have hTA : TypesOK stA tblA := by
          intro o ho
          rw [ft]
          exact ringOne_typesOK st a rb tbl tblA bA hR.lty hT h1 o ho
        rw [← fl] at h2
        exact rejected_after st stA _ _ eA (ring_all_none rest stA a tblA hRA hIA fo fc hTA h2)

theorem toToksB_link_atomR (l : Link) (a : B) : toToksB (printLink l ++ printAtomR (·.2) a) =
    (toToks (printLink l) ++ [symTok (.atom a.1)]) ++ toToks (printRings a.2) := by
  have h1 := toToksB_printLink l
  have h2 := toToksB_printRings a.2
  simp only [toToksB, toToks] at h1 h2
  simp [toToksB, toToks, printAtomR, symTokB, symTok, h1, h2]

/-- `link atom ringbond*` when the spec refuses one of the ring bonds -/
theorem link_atom_rings_none (st : PState) (pa a : B) (l : Link) (tbl : List (OpenRing B))
    (hR : Ready st pa.1) (hI : PInv st) (hC : CycRel st.cycles tbl) (hT : TypesOK st tbl)
    (hs : ringAll aromB st.atomNum a tbl a.2 = none) :
    Rejected (prun false st (toToksB (printLink l ++ printAtomR (·.2) a))) := by
  obtain ⟨stA, eA, xA, hlA, hoA⟩ := link_atom_run st pa.1 a.1 l hR
  have hIA : PInv stA := pinv_of_run hI (by
    intro t ht
    simp only [List.mem_append, List.mem_singleton] at ht
    rcases ht with ht | rfl
    · exact toToks_noOther _ t ht
    · rfl) eA
  have hRA : Ready stA a.1 := by
    refine ⟨xA.prev, ?_, ?_, ?_, ?_⟩
    · rw [xA.atoms, xA.num]; simp [hR.alen]
    · rw [xA.types, xA.num]; simp [hR.tlen]
    · rw [hlA, xA.num]; simp
    · rw [hlA, xA.types]
      have : st.atomNum = st.types.length := hR.tlen.symm
      rw [this]; simp
  have hCA : CycRel stA.cycles tbl := by rw [xA.cycles]; exact hC
  have hTA : TypesOK stA tbl := typesOK_append st stA tbl _ xA.types hT
  rw [← hlA] at hs
  rw [toToksB_link_atomR]
  exact rejected_after st stA _ _ eA (ring_all_none a.2 stA a tbl hRA hIA hoA hCA hTA hs)

/-- **total simulation**: a continuation the spec refuses makes the parser fail or build a self-loop -/
theorem prun_printKR_none : ∀ (k : K B) (st : PState) (pa : B) (tbl : List (OpenRing B)),
    Ready st pa.1 → PInv st → st.opened = false → CycRel st.cycles tbl → TypesOK st tbl →
    denoteKR aromB (·.2) st.lastNum pa st.atomNum tbl k = none →
    Rejected (prun false st (toToksB (printKR (·.2) k)))
  | .done, st, pa, tbl, hR, hI, hop, hC, hT, hd => by
    simp [denoteKR] at hd
  | .next l a k, st, pa, tbl, hR, hI, hop, hC, hT, hd => by
    have htoks : toToksB (printKR (·.2) (.next l a k)) =
        toToksB (printLink l ++ printAtomR (·.2) a) ++ toToksB (printKR (·.2) k) := by
      simp [printKR, toToksB]
    rw [htoks]
    unfold denoteKR at hd
    cases h1 : ringAll aromB st.atomNum a tbl a.2 with
    | none => exact rejected_append st _ _ (link_atom_rings_none st pa a l tbl hR hI hC hT h1)
    | some p1 =>
      obtain ⟨tbl1, rb1⟩ := p1
      rw [h1] at hd
      dsimp only at hd
      cases h2 : denoteKR aromB (·.2) st.atomNum a (st.atomNum + 1) tbl1 k with
      | some p2 => rw [h2] at hd; cases hd
      | none =>
        obtain ⟨st1, e1, a1, hl1, hR1⟩ := link_atom_rings_run st pa a l tbl tbl1 rb1 hR hI hC hT h1
        have hn1 : st1.atomNum = st.atomNum + 1 := by rw [a1.num]; rfl
        have h2' : denoteKR aromB (·.2) st1.lastNum a st1.atomNum tbl1 k = none := by
          rw [hl1, hn1]; exact h2
        exact rejected_after st st1 _ _ e1
          (prun_printKR_none k st1 a tbl1 hR1 a1.inv a1.opened a1.cyc a1.tys h2')
  | .side l a inner k, st, pa, tbl, hR, hI, hop, hC, hT, hd => by
    have htoks : toToksB (printKR (·.2) (.side l a inner k)) =
        [Tok.lpar] ++ (toToksB (printLink l ++ printAtomR (·.2) a) ++ (toToksB (printKR (·.2) inner) ++
          ([Tok.rpar] ++ toToksB (printKR (·.2) k)))) := by
      simp [printKR, toToksB, symTokB]
    rw [htoks]
    -- '('
    obtain ⟨st0, hst0⟩ : ∃ st0 : PState, st0 = { st with stack := st.lastNum :: st.stack, opened := true } := ⟨_, rfl⟩
    have e0 : prun false st [Tok.lpar] = .ok st0 := by
      rw [hst0]; simp [prun, pstep, hR.prev]
    have hI0 : PInv st0 := pinv_of_run hI (by intro t ht; simp at ht; subst ht; rfl) e0
    have n0 : st0.atomNum = st.atomNum := by rw [hst0]
    have l0 : st0.lastNum = st.lastNum := by rw [hst0]
    have a0 : st0.atoms = st.atoms := by rw [hst0]
    have t0 : st0.types = st.types := by rw [hst0]
    have b0 : st0.bonds = st.bonds := by rw [hst0]
    have s0 : st0.stack = st.lastNum :: st.stack := by rw [hst0]
    have c0 : st0.cycles = st.cycles := by rw [hst0]
    have hR0 : Ready st0 pa.1 := by rw [hst0]; exact ⟨hR.prev, hR.alen, hR.tlen, hR.last, hR.lty⟩
    clear hst0
    have hC0 : CycRel st0.cycles tbl := by rw [c0]; exact hC
    have hT0 : TypesOK st0 tbl := by intro o ho; rw [t0]; exact hT o ho
    refine rejected_after st st0 _ _ e0 ?_
    unfold denoteKR at hd
    cases h1 : ringAll aromB st.atomNum a tbl a.2 with
    | none =>
      rw [← n0] at h1
      exact rejected_append st0 _ _ (link_atom_rings_none st0 pa a l tbl hR0 hI0 hC0 hT0 h1)
    | some p1 =>
      obtain ⟨tbl1, rb1⟩ := p1
      rw [h1] at hd
      dsimp only at hd
      rw [← n0] at h1
      obtain ⟨st1, e1, a1, hl1, hR1⟩ := link_atom_rings_run st0 pa a l tbl tbl1 rb1 hR0 hI0 hC0 hT0 h1
      have hn1 : st1.atomNum = st.atomNum + 1 := by rw [a1.num, n0]; rfl
      rw [n0] at hl1
      refine rejected_after st0 st1 _ _ e1 ?_
      cases h2 : denoteKR aromB (·.2) st.atomNum a (st.atomNum + 1) tbl1 inner with
      | none =>
        have h2' : denoteKR aromB (·.2) st1.lastNum a st1.atomNum tbl1 inner = none := by
          rw [hl1, hn1]; exact h2
        exact rejected_append st1 _ _ (prun_printKR_none inner st1 a tbl1 hR1 a1.inv a1.opened a1.cyc a1.tys h2')
      | some p2 =>
        obtain ⟨as1, bs1, tbl2⟩ := p2
        rw [h2] at hd
        dsimp only at hd
        have h2' : denoteKR aromB (·.2) st1.lastNum a st1.atomNum tbl1 inner = some (as1, bs1, tbl2) := by
          rw [hl1, hn1]; exact h2
        obtain ⟨st2, e2, a2, _⟩ := prun_printKR inner st1 a tbl1 as1 bs1 tbl2 hR1 a1.inv a1.opened a1.cyc a1.tys h2'
        refine rejected_after st1 st2 _ _ e2 ?_
        cases h3 : denoteKR aromB (·.2) st.lastNum pa (st.atomNum + 1 + as1.length) tbl2 k with
        | some p3 => rw [h3] at hd; cases hd
        | none =>
          -- ')'
          have hstack : st2.stack = st.lastNum :: st.stack := by rw [a2.stack, a1.stack, s0]
          obtain ⟨st3, hst3⟩ : ∃ st3 : PState, st3 = { st2 with lastNum := st.lastNum, stack := st.stack } := ⟨_, rfl⟩
          have e3 : prun false st2 [Tok.rpar] = .ok st3 := by
            rw [hst3]; simp [prun, pstep, a2.prev, hstack]
          have hI3 : PInv st3 := pinv_of_run a2.inv (by intro t ht; simp at ht; subst ht; rfl) e3
          have n3 : st3.atomNum = st2.atomNum := by rw [hst3]
          have l3 : st3.lastNum = st.lastNum := by rw [hst3]
          have a3 : st3.atoms = st2.atoms := by rw [hst3]
          have t3 : st3.types = st2.types := by rw [hst3]
          have c3 : st3.cycles = st2.cycles := by rw [hst3]
          have p3 : st3.previous = st2.previous := by rw [hst3]
          have o3 : st3.opened = st2.opened := by rw [hst3]
          clear hst3
          have a12 := a1.trans a2
          have hnum2 : st2.atomNum = st.atomNum + 1 + as1.length := by rw [a12.num, n0]; simp; omega
          have hty2 : st2.types = st.types ++ (tyOf a.1 :: as1.map (fun b => tyOf b.1)) := by rw [a12.types, t0]; simp
          have hat2 : st2.atoms = st.atoms ++ (strip a.1 :: as1.map (fun b => strip b.1)) := by rw [a12.atoms, a0]; simp
          have hR3 : Ready st3 pa.1 := by
            refine ⟨by rw [p3]; exact a2.prev, ?_, ?_, ?_, ?_⟩
            · rw [a3, n3, hat2, hnum2]; simp [hR.alen]; omega
            · rw [t3, n3, hty2, hnum2]; simp [hR.tlen]; omega
            · rw [l3, n3, hnum2]; have := hR.last; omega
            · rw [l3, t3, hty2]; exact getElem?_append_left' _ _ _ _ hR.lty
          have hC3 : CycRel st3.cycles tbl2 := by rw [c3]; exact a2.cyc
          have hT3 : TypesOK st3 tbl2 := by intro o ho; rw [t3]; exact a2.tys o ho
          have h3' : denoteKR aromB (·.2) st3.lastNum pa st3.atomNum tbl2 k = none := by
            rw [l3, n3, hnum2]; exact h3
          exact rejected_after st2 st3 _ _ e3
            (prun_printKR_none k st3 pa tbl2 hR3 hI3 (by rw [o3]; exact a2.opened) hC3 hT3 h3')

/-! ## the whole string -/

theorem parse_ok_run (toks : List Tok) (st : PState) (h : parse false toks = .ok st) :
    prun false {} toks = .ok st ∧ st.cycles = [] := by
  unfold parse at h
  split at h
  · cases h
  · split at h
    · cases h
    · rename_i st' hr
      unfold endCheck at h
      split at h
      · cases h
      · split at h
        · cases h
        · split at h
          · cases h
          · cases h
            rename_i hc _
            refine ⟨hr, ?_⟩
            cases hk : st.cycles with
            | nil => rfl
            | cons _ _ => simp [hk] at hc

/-- a tree without a denotation: the run over its printing fails, builds a self-loop, or leaves a ring open -/
theorem denoteR_none_run (c : Chain B) (hd : denoteR aromB (·.2) c = none) :
    Rejected (prun false {} (toToksB (printR (·.2) c))) ∨
      ∃ st, prun false {} (toToksB (printR (·.2) c)) = .ok st ∧ st.cycles ≠ [] := by
  obtain ⟨a0, k⟩ := c
  have htoks : toToksB (printR (·.2) ⟨a0, k⟩) =
      [Tok.atom (tyOf a0.1) a0.1.2] ++ (toToks (printRings a0.2) ++ toToksB (printKR (·.2) k)) := by
    have h2 := toToksB_printRings a0.2
    simp only [toToksB, toToks] at h2
    simp [printR, printAtomR, toToksB, toToks, symTokB, h2]
  rw [htoks]
  -- first atom
  obtain ⟨st1, hst1⟩ : ∃ st1 : PState, pstep false {} (Tok.atom (tyOf a0.1) a0.1.2) = .ok st1 ∧
      st1.atoms = [strip a0.1] ∧ st1.types = [tyOf a0.1] ∧ st1.bonds = [] ∧ st1.atomNum = 1 ∧ st1.lastNum = 0 ∧
      st1.stack = [] ∧ st1.cycles = [] ∧ st1.previous = none ∧ st1.opened = false :=
    ⟨_, rfl, rfl, rfl, rfl, rfl, rfl, rfl, rfl, rfl, rfl⟩
  obtain ⟨e1, a1, t1, b1, n1, l1, s1, c1, p1, o1⟩ := hst1
  have hI1 : PInv st1 := by
    obtain ⟨st1', h1', hinv⟩ := first_atom_inv false (tyOf a0.1) a0.1.2 [] false (by simp)
    have : st1' = st1 := by
      have e1' : pstep false { stack := [], opened := false } (Tok.atom (tyOf a0.1) a0.1.2) = .ok st1 := e1
      rw [h1'] at e1'; cases e1'; rfl
    rw [← this]; exact hinv
  have hR1 : Ready st1 a0.1 := ⟨p1, by rw [a1, n1]; rfl, by rw [t1, n1]; rfl, by rw [l1, n1]; exact Nat.one_pos,
    by rw [l1, t1]; rfl⟩
  have hC1 : CycRel st1.cycles ([] : List (OpenRing B)) := by rw [c1]; trivial
  have hT1 : TypesOK st1 [] := by intro o ho; cases ho
  have er1 : prun false {} [Tok.atom (tyOf a0.1) a0.1.2] = .ok st1 := by simp only [prun, e1]
  unfold denoteR at hd
  dsimp only at hd
  cases h0 : ringAll aromB 0 a0 [] a0.2 with
  | none =>
    left
    have h0' : ringAll aromB st1.lastNum a0 [] a0.2 = none := by rw [l1]; exact h0
    exact rejected_after _ st1 _ _ er1 (rejected_append st1 _ _ (ring_all_none a0.2 st1 a0 [] hR1 hI1 o1 hC1 hT1 h0'))
  | some p0 =>
    obtain ⟨tbl0, rb0⟩ := p0
    rw [h0] at hd
    dsimp only at hd
    have h0' : ringAll aromB st1.lastNum a0 [] a0.2 = some (tbl0, rb0) := by rw [l1]; exact h0
    obtain ⟨stR, eR, gb, ga, gt, gn, gl, gs, gp, go, gc, gi, gT⟩ :=
      ring_all_run a0.2 st1 a0 [] tbl0 rb0 hR1 hI1 o1 hC1 hT1 h0'
    have hRR : Ready stR a0.1 := ⟨gp, by rw [ga, gn]; exact hR1.alen, by rw [gt, gn]; exact hR1.tlen,
      by rw [gl, gn]; exact hR1.last, by rw [gl, gt]; exact hR1.lty⟩
    cases h1 : denoteKR aromB (·.2) 0 a0 1 tbl0 k with
    | none =>
      left
      have h1' : denoteKR aromB (·.2) stR.lastNum a0 stR.atomNum tbl0 k = none := by
        rw [gl, gn, l1, n1]; exact h1
      exact rejected_after _ st1 _ _ er1 (rejected_after st1 stR _ _ eR
        (prun_printKR_none k stR a0 tbl0 hRR gi go gc gT h1'))
    | some q1 =>
      obtain ⟨as, bs, tbl⟩ := q1
      rw [h1] at hd
      dsimp only at hd
      have h1' : denoteKR aromB (·.2) stR.lastNum a0 stR.atomNum tbl0 k = some (as, bs, tbl) := by
        rw [gl, gn, l1, n1]; exact h1
      obtain ⟨st2, e2, a2, _⟩ := prun_printKR k stR a0 tbl0 as bs tbl hRR gi go gc gT h1'
      right
      refine ⟨st2, ?_, ?_⟩
      · rw [prun_append, er1]
        dsimp only
        rw [prun_append, eR]
        exact e2
      · intro hcy
        have hcr := a2.cyc
        rw [hcy] at hcr
        have htbl := cycRel_nil_left tbl hcr
        rw [htbl] at hd
        simp at hd

/-- **the converse of `parse_printR`**: if the parser accepts the printing of a tree and built no bond from an atom to
    itself, the tree has a denotation — the bond symbols at the two ends of every ring bond agree, no ring is closed at
    the atom that opened it, no ring is left open -/
theorem denoteR_of_parse (c : Chain B) (st : PState)
    (h : parse false (toToksB (printR (·.2) c)) = .ok st) (hl : loopFree st.bonds) :
    ∃ g, denoteR aromB (·.2) c = some g := by
  cases hd : denoteR aromB (·.2) c with
  | some g => exact ⟨g, rfl⟩
  | none =>
    exfalso
    obtain ⟨hr, hc⟩ := parse_ok_run _ st h
    rcases denoteR_none_run c hd with hrej | ⟨st', hr', hne⟩
    · rw [hr] at hrej
      obtain ⟨b, hb, e⟩ := hrej
      exact hl b hb e
    · rw [hr] at hr'
      cases hr'
      exact hne hc

end ChythonModel.Proofs.C03
