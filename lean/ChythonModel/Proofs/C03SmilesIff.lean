import ChythonModel.Proofs.C03RingIff
/-!
# C03 — the end-to-end model function `smiles` / `smilesMol` succeeds iff the token-level acceptance predicate holds
(tokenizer accepts, parser accepts, every atom passes `Element.from_symbol(...)(isotope, charge)`, the bond loop of
`create_molecule` accepts)
-/
set_option linter.unusedSimpArgs false
namespace ChythonModel.Proofs.C03
open ChythonModel.Model.C03 ChythonModel.Gen.C03

/-- the atom loop of `create_molecule` keeps the atom numbers and the number of atoms -/
theorem buildAtoms_ids_len : ∀ (ns : List Nat) (as : List AtomTok) (l), buildAtoms ns as = .ok l →
    ns.length = as.length → l.map (·.1) = ns ∧ l.length = as.length
  | [], [], l, h, _ => by simp [buildAtoms] at h; simp [← h]
  | [], _ :: _, _, _, hl => by simp at hl
  | _ :: _, [], _, _, hl => by simp at hl
  | n :: ns, a :: as, l, h, hl => by
    unfold buildAtoms at h
    split at h
    · cases h
    · split at h
      · cases h
      · rename_i tl htl
        cases h
        obtain ⟨h1, h2⟩ := buildAtoms_ids_len ns as tl htl (by simpa using hl)
        simp [h1, h2]

/-- the atom loop succeeds iff every atom passes the element / isotope / charge check -/
theorem buildAtoms_ok_iff : ∀ (ns : List Nat) (as : List AtomTok), ns.length = as.length →
    ((∃ l, buildAtoms ns as = .ok l) ↔ ∀ a ∈ as, ∃ z, atomCheck a = .ok z)
  | [], [], _ => by simp [buildAtoms]
  | [], _ :: _, hl => by simp at hl
  | _ :: _, [], hl => by simp at hl
  | n :: ns, a :: as, hl => by
    have ih := buildAtoms_ok_iff ns as (by simpa using hl)
    constructor
    · rintro ⟨l, h⟩
      unfold buildAtoms at h
      split at h
      · cases h
      · rename_i z hz
        split at h
        · cases h
        · rename_i tl htl
          intro x hx
          simp only [List.mem_cons] at hx
          rcases hx with rfl | hx
          · exact ⟨z, hz⟩
          · exact ih.mp ⟨tl, htl⟩ x hx
    · intro hall
      obtain ⟨z, hz⟩ := hall a (by simp)
      obtain ⟨tl, htl⟩ := ih.mpr (fun x hx => hall x (by simp [hx]))
      exact ⟨_, by unfold buildAtoms; rw [hz]; dsimp only; rw [htl]⟩

/-- `create_molecule` (structural part) succeeds iff every atom passes the check and the bond loop accepts -/
theorem buildMol_ok_iff (r : MolRec) (hlen : r.mapping.length = r.atoms.length) :
    (∃ m, buildMol r = .ok m) ↔
      ((∀ a ∈ r.atoms, ∃ z, atomCheck a = .ok z) ∧
       ∃ adj, buildBonds r.mapping r.bonds (r.mapping.map fun n => (n, [])) = .ok adj) := by
  have key : ∀ l, buildAtoms r.mapping r.atoms = .ok l →
      (l.map fun a => (a.1, ([] : List (Nat × Nat)))) = r.mapping.map fun n => (n, []) := by
    intro l hl
    have := (buildAtoms_ids_len _ _ l hl hlen).1
    rw [← this, List.map_map]
    rfl
  constructor
  · rintro ⟨m, h⟩
    unfold buildMol at h
    split at h
    · cases h
    · rename_i atoms hat
      split at h
      · cases h
      · rename_i adj hadj
        rw [key atoms hat] at hadj
        exact ⟨(buildAtoms_ok_iff _ _ hlen).mp ⟨atoms, hat⟩, adj, hadj⟩
  · rintro ⟨hall, adj, hadj⟩
    obtain ⟨atoms, hat⟩ := (buildAtoms_ok_iff _ _ hlen).mpr hall
    rw [← key atoms hat] at hadj
    exact ⟨_, by unfold buildMol; rw [hat]; dsimp only; rw [hadj]⟩

theorem readMol_ok_iff (s : Str) (r : MolRec) :
    readMol s = .ok r ↔ ∃ toks st, smilesTokenize s = .ok toks ∧ parse false toks = .ok st ∧ r = MolRec.ofState st := by
  unfold readMol
  constructor
  · intro h
    split at h
    · cases h
    · rename_i toks htok
      split at h
      · cases h
      · rename_i st hst
        cases h
        exact ⟨toks, st, htok, hst, rfl⟩
  · rintro ⟨toks, st, h1, h2, rfl⟩
    rw [h1]; dsimp only; rw [h2]

/-- **molecule branch of `smiles()` without CXSMILES radicals**: success ⇔ tokenizer and parser accept, every atom
    passes the element / isotope / charge check and the bond loop accepts the parsed bonds -/
theorem smilesMol_ok_iff (smi : Str) :
    (∃ res, smilesMol smi [] = .ok res) ↔
      ∃ toks st, smilesTokenize smi = .ok toks ∧ parse false toks = .ok st ∧
        (∀ a ∈ st.atoms, ∃ z, atomCheck a = .ok z) ∧ bondsBuild st := by
  constructor
  · rintro ⟨res, h⟩
    unfold smilesMol at h
    split at h
    · cases h
    · rename_i r hr
      obtain ⟨toks, st, h1, h2, rfl⟩ := (readMol_ok_iff smi r).mp hr
      simp only [applyRadicalsMol] at h
      split at h
      · cases h
      · rename_i r' hr'
        split at h
        · cases h
        · rename_i m hm
          have hr2 : mapMolecule (MolRec.ofState st) = .ok r' := hr'
          obtain ⟨ha, hl, _⟩ := mapMolecule_spec _ _ hr2
          have hlen : r'.mapping.length = r'.atoms.length := by rw [hl, ha]
          obtain ⟨hall, adj, hadj⟩ := (buildMol_ok_iff r' hlen).mp ⟨m, hm⟩
          refine ⟨toks, st, h1, h2, ?_, r', adj, hr2, hadj⟩
          intro a hain
          exact hall a (by rw [ha]; exact hain)
  · rintro ⟨toks, st, h1, h2, hall, r', adj, hr', hadj⟩
    obtain ⟨ha, hl, _⟩ := mapMolecule_spec _ _ hr'
    have hlen : r'.mapping.length = r'.atoms.length := by rw [hl, ha]
    obtain ⟨m, hm⟩ := (buildMol_ok_iff r' hlen).mpr
      ⟨fun a hain => hall a (by rw [ha] at hain; exact hain), adj, hadj⟩
    have hr : readMol smi = .ok (MolRec.ofState st) := (readMol_ok_iff smi _).mpr ⟨toks, st, h1, h2, rfl⟩
    have hr2 : mapMolecule { MolRec.ofState st with atoms := (MolRec.ofState st).atoms } = .ok r' := hr'
    refine ⟨.mol r' m, ?_⟩
    unfold smilesMol
    rw [hr]
    simp only [applyRadicalsMol]
    rw [hr2]
    dsimp only
    rw [hm]

/-- **`smiles()` on a single-word molecule string**: success ⇔ the token-level acceptance predicate -/
theorem smiles_ok_iff (data : Str) (hne : data ≠ []) (hw : splitWs data = [data]) (hnr : data.contains 62 = false) :
    (∃ res, smiles data = .ok res) ↔
      ∃ toks st, smilesTokenize data = .ok toks ∧ parse false toks = .ok st ∧
        (∀ a ∈ st.atoms, ∃ z, atomCheck a = .ok z) ∧ bondsBuild st := by
  have he : data.isEmpty = false := by
    cases data with
    | nil => exact absurd rfl hne
    | cons _ _ => rfl
  have : smiles data = smilesMol data [] := by
    unfold smiles
    rw [he, hw]
    have hnr' : 62 ∉ data := by simpa using hnr
    simp [parseCx, hnr']
  rw [this]
  exact smilesMol_ok_iff data

end ChythonModel.Proofs.C03
