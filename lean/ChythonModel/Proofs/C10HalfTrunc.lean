import ChythonModel.Proofs.C10HalfFields
/-!
# C10: `double_to_float16` followed by `double_from_bytes` is truncation toward zero onto the binary16 grid
-/
namespace ChythonModel.Proofs.C10
open ChythonModel.Model.Pack

theorem scale2_lt (m L : Nat) (hm : m < 2 ^ L) (k : Int) (t : Nat) (h : (L : Int) + k ≤ t) : scale2 m k < 2 ^ t := by
  unfold scale2
  split
  · rename_i hk
    rw [Nat.shiftLeft_eq]
    have : L + k.toNat ≤ t := by omega
    calc m * 2 ^ k.toNat < 2 ^ L * 2 ^ k.toNat := Nat.mul_lt_mul_of_pos_right hm (Nat.two_pow_pos _)
      _ = 2 ^ (L + k.toNat) := (Nat.pow_add 2 L k.toNat).symm
      _ ≤ 2 ^ t := Nat.pow_le_pow_right (by decide) this
  · rename_i hk
    rw [Nat.shiftRight_eq_div_pow]
    by_cases hj : (-k).toNat ≤ L
    · have h1 : m < 2 ^ (-k).toNat * 2 ^ (L - (-k).toNat) := by
        rw [← Nat.pow_add]; have : (-k).toNat + (L - (-k).toNat) = L := by omega
        rw [this]; exact hm
      have h2 := Nat.div_lt_of_lt_mul h1
      exact Nat.lt_of_lt_of_le h2 (Nat.pow_le_pow_right (by decide) (by omega))
    · have : m / 2 ^ (-k).toNat = 0 := by
        apply Nat.div_eq_of_lt
        exact Nat.lt_of_lt_of_le hm (Nat.pow_le_pow_right (by decide) (by omega))
      rw [this]; exact Nat.two_pow_pos t

theorem scale2_ge (m L : Nat) (hm : 2 ^ L ≤ m) (k : Int) (t : Nat) (h : (t : Int) ≤ (L : Int) + k) : 2 ^ t ≤ scale2 m k := by
  unfold scale2
  split
  · rename_i hk
    rw [Nat.shiftLeft_eq]
    have : t ≤ L + k.toNat := by omega
    calc 2 ^ t ≤ 2 ^ (L + k.toNat) := Nat.pow_le_pow_right (by decide) this
      _ = 2 ^ L * 2 ^ k.toNat := Nat.pow_add 2 L k.toNat
      _ ≤ m * 2 ^ k.toNat := Nat.mul_le_mul_right _ hm
  · rename_i hk
    rw [Nat.shiftRight_eq_div_pow, Nat.le_div_iff_mul_le (Nat.two_pow_pos _), ← Nat.pow_add]
    exact Nat.le_trans (Nat.pow_le_pow_right (by decide) (by omega)) hm

/-- `scale2 m k = ⌊m·2^k⌋` -/
theorem scale2_spec (m : Nat) (k : Int) :
    (0 ≤ k → scale2 m k = m * 2 ^ k.toNat) ∧
    (k < 0 → scale2 m k * 2 ^ (-k).toNat ≤ m ∧ m < (scale2 m k + 1) * 2 ^ (-k).toNat) := by
  unfold scale2
  constructor
  · intro h; rw [if_pos h, Nat.shiftLeft_eq]
  · intro h
    rw [if_neg (by omega), Nat.shiftRight_eq_div_pow]
    refine ⟨Nat.div_mul_le_self _ _, ?_⟩
    have hp : 0 < 2 ^ (-k).toNat := Nat.two_pow_pos _
    have := Nat.div_add_mod m (2 ^ (-k).toNat)
    have hmod := Nat.mod_lt m hp
    rw [Nat.add_mul, Nat.one_mul, Nat.mul_comm]
    omega


/-- binary exponent of a non-zero dyadic: `2^E ≤ |x| < 2^(E+1)` -/
def halfExp (x : Dy) : Int := ((Nat.log2 x.m + 1 : Nat) : Int) + x.e - 1

/-- **half precision is truncation toward zero**: for every finite double in the half range, decoding the stored bits
    gives the sign of `x` and `⌊|x| / 2^g⌋ · 2^g`, where `2^g` is the binary16 grid spacing at `|x|`
    (`g = E − 10` for normal numbers, `−24` below `2^−14`). -/
theorem f16_truncation_aux (x : Dy) (hm : x.m ≠ 0) (hlo : -25 ≤ halfExp x) (hhi : halfExp x < 16) :
    ofF16 (toF16 x) =
      ⟨x.neg, scale2 x.m (x.e - (max (halfExp x) (-14) - 10)), max (halfExp x) (-14) - 10⟩ := by
  have hL1 : x.m < 2 ^ (Nat.log2 x.m + 1) := Nat.lt_log2_self
  have hL0 : 2 ^ Nat.log2 x.m ≤ x.m := Nat.log2_self_le hm
  have hs : ((if x.neg then 1 else 0 : Nat) != 0) = x.neg := by cases x.neg <;> rfl
  have hs2 : (if x.neg then 1 else 0 : Nat) < 2 := by cases x.neg <;> decide
  unfold toF16
  rw [if_neg hm]
  show ofF16 (if halfExp x ≥ 16 ∨ halfExp x < -25 then 0 else
      if halfExp x < -14 then u16 (scale2 x.m (x.e + 24) ||| ((if x.neg then 1 else 0) <<< 15))
      else u16 ((scale2 x.m (x.e - halfExp x + 10) - 1024) ||| ((halfExp x + 15).toNat <<< 10) |||
        ((if x.neg then 1 else 0) <<< 15))) = _
  rw [if_neg (by omega)]
  by_cases hsub : halfExp x < -14
  · rw [if_pos hsub]
    have hS : scale2 x.m (x.e + 24) < 2 ^ 10 :=
      scale2_lt x.m _ hL1 _ 10 (by unfold halfExp at hsub; omega)
    have hS' : scale2 x.m (x.e + 24) < 1024 := hS
    have hdec : scale2 x.m (x.e + 24) = (scale2 x.m (x.e + 24) / 32) * 32 + scale2 x.m (x.e + 24) % 32 := by omega
    have := ofF16_fields _ hs2 0 (by decide) (scale2 x.m (x.e + 24) / 32) (by omega) (scale2 x.m (x.e + 24) % 32) (by omega)
    rw [← hdec] at this
    simp only [Nat.zero_shiftLeft, Nat.or_zero] at this
    rw [this, hs]
    have hg : max (halfExp x) (-14) - 10 = -24 := by omega
    rw [hg]
    have : x.e - -24 = x.e + 24 := by omega
    rw [this]; rfl
  · rw [if_neg hsub]
    have hk : x.e - halfExp x + 10 = 10 - (Nat.log2 x.m : Int) := by unfold halfExp; omega
    have hSlo : 2 ^ 10 ≤ scale2 x.m (x.e - halfExp x + 10) :=
      scale2_ge x.m _ hL0 _ 10 (by rw [hk]; omega)
    have hShi : scale2 x.m (x.e - halfExp x + 10) < 2 ^ 11 :=
      scale2_lt x.m _ hL1 _ 11 (by rw [hk]; omega)
    have hg : max (halfExp x) (-14) - 10 = halfExp x - 10 := by omega
    have harg : x.e - (halfExp x - 10) = x.e - halfExp x + 10 := by omega
    rw [hg, harg]
    generalize scale2 x.m (x.e - halfExp x + 10) = S at hSlo hShi ⊢
    have hSlo' : 1024 ≤ S := hSlo
    have hShi' : S < 2048 := hShi
    have hdec : S - 1024 = ((S - 1024) / 32) * 32 + (S - 1024) % 32 := by omega
    have hex : (halfExp x + 15).toNat < 32 := by omega
    have := ofF16_fields _ hs2 _ hex ((S - 1024) / 32) (by omega) ((S - 1024) % 32) (by omega)
    rw [← hdec] at this
    rw [this, hs]
    have hne : ((halfExp x + 15).toNat != 0) = true := by simp; omega
    rw [if_pos hne]
    have e1 : 1024 + (S - 1024) = S := by omega
    have e2 : (((halfExp x + 15).toNat : Nat) : Int) - 15 - 10 = halfExp x - 10 := by omega
    rw [e1, e2]

end ChythonModel.Proofs.C10
