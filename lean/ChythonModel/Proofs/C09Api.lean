import ChythonModel.Proofs.C09Enc
namespace ChythonModel.Proofs.C09
open ChythonModel.Model.Bits ChythonModel.Gen.Bits ChythonModel.Model.Query

/-- what the query API (setters of `query.py`) accepts: counts 0…14, hybridisation 1…4, charge −4…4, ring sizes ≥ 3 or the mark 0 -/
structure QApi (q : QAtom) : Prop where
  elems : match q.kind with
    | .element z _ => 1 ≤ z ∧ z ≤ 118
    | .list zs => ∀ z ∈ zs, 1 ≤ z ∧ z ≤ 118
    | _ => True
  chg_lo : -4 ≤ q.charge
  chg_hi : q.charge ≤ 4
  nb : ∀ n ∈ q.neighbors, n ≤ 14
  hyb : ∀ n ∈ q.hybridization, 1 ≤ n ∧ n ≤ 4
  h : ∀ n ∈ q.implH, n ≤ 14
  het : ∀ n ∈ q.heteroatoms, n ≤ 14
  rings : q.ringSizes = [0] ∨ ∀ r ∈ q.ringSizes, 3 ≤ r

/-- what a molecule atom can be: any of the 118 elements, tabulated isotope, charge −4…4, hydrogens unknown or 0…4,
    any ring sizes ≥ 3 -/
structure AApi (mdl : Nat) (a : MAtom) : Prop where
  z_lo : 1 ≤ a.z
  z_hi : a.z ≤ 118
  hyb_lo : 1 ≤ a.hybridization
  hyb_hi : a.hybridization ≤ 4
  iso : ∀ i, isoTruthy a.isotope = some i → mdl ≤ i + 8 ∧ i ≤ mdl + 8
  chg_lo : -4 ≤ a.charge
  chg_hi : a.charge ≤ 4
  h : ∀ k, a.implH = some k → k ≤ 4
  nb : a.neighbors ≤ 14
  het : a.heteroatoms ≤ 14
  rings : ∀ r ∈ a.ringSizes, 3 ≤ r

/-- the `mdl_isotope` hypothesis of the general theorem follows from the tables inside the domain -/
theorem qmdl_eq (q : QAtom) (a : MAtom) (mdl qmdl : Nat) (hmdl : mdlOf a.z = some mdl) (hqmdl : qmdlFor q = .ok qmdl)
    (hc : NoHeavyClash q a)
    (htab : ∀ z, qmdlOf z = mdlOf z) :
    qIso q.kind ≠ none → kindAccepts q.kind a.z = true → qmdl = mdl := by
  intro hi hacc
  cases hk : q.kind with
  | element z iso =>
    rw [kindAccepts_raw q a hc, hk] at hacc
    simp only [beq_iff_eq] at hacc
    rw [hk] at hi
    unfold qmdlFor at hqmdl
    rw [hk] at hqmdl
    simp only at hqmdl
    cases hq : qIso (QKind.element z iso) with
    | none => exact absurd hq hi
    | some i =>
      rw [hq] at hqmdl
      simp only at hqmdl
      rw [htab z, hacc, hmdl] at hqmdl
      simp only [Except.ok.injEq] at hqmdl
      exact hqmdl.symm
  | any => rw [hk] at hi; exact absurd rfl hi
  | list zs => rw [hk] at hi; exact absurd rfl hi
  | metal => rw [hk] at hi; exact absurd rfl hi

end ChythonModel.Proofs.C09
