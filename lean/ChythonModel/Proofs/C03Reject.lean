import ChythonModel.Proofs.C03Spec
/-!
# C03 — whatever `parser` accepts (without ring-closure tokens) is the printing of a syntax tree (helper lemmas)
-/
set_option linter.unusedSimpArgs false
namespace ChythonModel.Proofs.C03
open ChythonModel.Model.C03 ChythonModel.Spec.Smiles

/-- tokens of the core sub-language: atoms (aliphatic 0 / aromatic 8), bonds, direction marks, dots, parentheses -/
def coreTok : Tok → Bool
  | .atom ty _ => ty == 0 || ty == 8
  | .bond _ => true
  | .dot => true
  | .dir _ => true
  | .lpar => true
  | .rpar => true
  | _ => false

/-- no `(` is directly followed by `(` or `)` (the tokenizer rejects `((` and `()`) -/
def pairOK : Tok → Tok → Bool
  | .lpar, .lpar => false
  | .lpar, .rpar => false
  | _, _ => true

def noEmptyOpen : List Tok → Bool
  | [] => true
  | [_] => true
  | t :: u :: tl => pairOK t u && noEmptyOpen (u :: tl)

/-- continuations of the atoms on the branch stack, innermost first, separated by `)` -/
def printStack : List (K A) → List (Sym A)
  | [] => []
  | [k] => printK k
  | k :: tl => printK k ++ .rpar :: printStack tl

theorem printStack_cons (k : K A) (k2 : K A) (tl : List (K A)) :
    printStack (k :: k2 :: tl) = printK k ++ .rpar :: printStack (k2 :: tl) := rfl

def atomOf (ty : Nat) (a : AtomTok) : A := (ty == 8, a)

theorem symTok_atomOf (ty : Nat) (a : AtomTok) (h : (ty == 0 || ty == 8) = true) :
    symTok (.atom (atomOf ty a)) = .atom ty a := by
  simp only [Bool.or_eq_true, beq_iff_eq] at h
  rcases h with rfl | rfl <;> rfl

theorem prun_cons_ok {strong : Bool} {st st' : PState} {t : Tok} {w : List Tok}
    (h : prun strong st (t :: w) = .ok st') : ∃ st1, pstep strong st t = .ok st1 ∧ prun strong st1 w = .ok st' := by
  unfold prun at h
  cases hk : pstep strong st t with
  | ok st1 => rw [hk] at h; exact ⟨st1, rfl, h⟩
  | error e => rw [hk] at h; cases h

theorem pstep_atom_facts {strong : Bool} {st st1 : PState} {ty : Nat} {a : AtomTok} (hne : st.atoms ≠ [])
    (h : pstep strong st (.atom ty a) = .ok st1) :
    st1.previous = none ∧ st1.stack = st.stack ∧ st1.atoms ≠ [] := by
  have he : st.atoms.isEmpty = false := by
    cases hk : st.atoms with
    | nil => exact absurd hk hne
    | cons _ _ => rfl
  simp only [pstep, he, Bool.false_eq_true, if_false] at h
  split at h
  · cases h
  · rename_i bs ord sb pv heq
    cases h
    refine ⟨?_, rfl, by simp⟩
    dsimp only
    -- every non-error branch of `linked` returns `none` as the new `previous`
    split at heq
    · split at heq
      · cases heq
      · cases heq; rfl
    · split at heq
      · cases heq
      · cases heq; rfl
    · cases heq; rfl
    · cases heq; rfl

theorem pstep_link_inv {strong : Bool} {st st1 : PState} {t : Tok} (hp : st.previous = none)
    (ht : t = .bond o ∨ t = .dot ∨ t = .dir b) (h : pstep strong st t = .ok st1) :
    st1.previous.isSome = true ∧ st1.stack = st.stack ∧ st1.atoms = st.atoms := by
  rcases ht with rfl | rfl | rfl <;>
  · simp only [pstep, hp, Option.isSome_none, Bool.false_eq_true, if_false] at h
    split at h
    · cases h
    · cases h; exact ⟨rfl, rfl, rfl⟩

/-- after a bond / dot / direction mark only an atom can follow -/
theorem after_link_is_atom {strong : Bool} {st st1 : PState} {t : Tok} (hp : st.previous.isSome = true)
    (hc : coreTok t = true) (h : pstep strong st t = .ok st1) : ∃ ty a, t = .atom ty a := by
  cases t with
  | atom ty a => exact ⟨ty, a, rfl⟩
  | other _ _ => cases hc
  | cyc _ => cases hc
  | _ => simp [pstep, hp] at h

theorem noEmptyOpen_tail {t : Tok} {w : List Tok} (h : noEmptyOpen (t :: w) = true) : noEmptyOpen w = true := by
  cases w with
  | nil => rfl
  | cons u tl =>
    unfold noEmptyOpen at h
    simp only [Bool.and_eq_true] at h
    exact h.2

/-- the link a token denotes -/
theorem tyOf_atomOf (ty : Nat) (a : AtomTok) (h : coreTok (.atom ty a) = true) : tyOf (atomOf ty a) = ty := by
  simp only [coreTok, Bool.or_eq_true, beq_iff_eq] at h
  rcases h with rfl | rfl <;> rfl

theorem atomOf_snd (ty : Nat) (a : AtomTok) : (atomOf ty a).2 = a := rfl

def linkOf : Tok → Link
  | .bond o => .explicit o
  | .dot => .dot
  | .dir b => .dir b
  | _ => .implicit

theorem printLink_linkOf {t : Tok} (ht : (∃ o, t = .bond o) ∨ t = .dot ∨ (∃ b, t = .dir b)) :
    toToks (printLink (linkOf t) : List (Sym A)) = [t] := by
  rcases ht with ⟨o, rfl⟩ | rfl | ⟨b, rfl⟩ <;> rfl

/-- **inversion of the parser**: an accepted run over core tokens from a state between two tokens, ending with empty
    stack and no pending bond, reads one continuation per open branch -/
theorem unprint (strong : Bool) : ∀ (w : List Tok) (st st' : PState), st.atoms ≠ [] → st.previous = none →
    (∀ t ∈ w, coreTok t = true) → noEmptyOpen w = true → prun strong st w = .ok st' → st'.stack = [] →
    st'.previous = none →
    ∃ ks : List (K A), ks.length = st.stack.length + 1 ∧ w = toToks (printStack ks)
  | [], st, st', _, _, _, _, hrun, hst, _ => by
    simp only [prun] at hrun
    cases hrun
    exact ⟨[.done], by simp [hst], rfl⟩
  | t :: w, st, st', hne, hp, hcore, hneo, hrun, hst, hpv => by
    obtain ⟨st1, h1, hrun1⟩ := prun_cons_ok hrun
    have hcore' : ∀ u ∈ w, coreTok u = true := fun u hu => hcore u (by simp [hu])
    have hneo' := noEmptyOpen_tail hneo
    -- what follows an atom token `ty a` read in state `sa` (link already consumed or absent): recursion
    cases t with
    | other ty v => have := hcore (.other ty v) (by simp); simp [coreTok] at this
    | cyc n => have := hcore (.cyc n) (by simp); simp [coreTok] at this
    | rpar =>
      simp only [pstep, hp, Option.isSome_none, Bool.false_eq_true, if_false] at h1
      split at h1
      · cases h1
      · rename_i x tl hstk
        cases h1
        obtain ⟨ks, hlen, hw⟩ := unprint strong w { st with lastNum := x, stack := tl, previous := none } st' hne rfl hcore' hneo' hrun1 hst hpv
        refine ⟨.done :: ks, by simp [hlen, hstk], ?_⟩
        cases ks with
        | nil => simp at hlen
        | cons k ktl => rw [printStack_cons, hw]; rfl
    | atom ty a =>
      obtain ⟨f1, f2, f3⟩ := pstep_atom_facts hne h1
      obtain ⟨ks, hlen, hw⟩ := unprint strong w st1 st' f3 f1 hcore' hneo' hrun1 hst hpv
      have hty := hcore (.atom ty a) (by simp)
      cases ks with
      | nil => simp at hlen
      | cons k ktl =>
        refine ⟨.next .implicit (atomOf ty a) k :: ktl, by simpa [f2] using hlen, ?_⟩
        rw [hw]
        cases ktl with
        | nil => simp [printStack, printK, printLink, toToks, symTok_atomOf ty a hty]
        | cons k2 tl2 => simp [printStack, printK, printLink, toToks, symTok_atomOf ty a hty]
    | bond o =>
      obtain ⟨g1, g2, g3⟩ := pstep_link_inv (o := o) (b := true) hp (Or.inl rfl) h1
      cases w with
      | nil => simp only [prun] at hrun1; cases hrun1; rw [hpv] at g1; cases g1
      | cons u w2 =>
        obtain ⟨st2, h2, hrun2⟩ := prun_cons_ok hrun1
        obtain ⟨ty, a, rfl⟩ := after_link_is_atom g1 (hcore' u (by simp)) h2
        obtain ⟨f1, f2, f3⟩ := pstep_atom_facts (by rw [g3]; exact hne) h2
        obtain ⟨ks, hlen, hw⟩ := unprint strong w2 st2 st' f3 f1 (fun v hv => hcore' v (by simp [hv]))
          (noEmptyOpen_tail hneo') hrun2 hst hpv
        have hty := hcore' (.atom ty a) (by simp)
        cases ks with
        | nil => simp at hlen
        | cons k ktl =>
          refine ⟨.next (.explicit o) (atomOf ty a) k :: ktl, by simpa [f2, g2] using hlen, ?_⟩
          rw [hw]
          cases ktl with
          | nil => simp [printStack, printK, printLink, toToks, symTok, tyOf_atomOf ty a hty, atomOf_snd]
          | cons k2 tl2 => simp [printStack, printK, printLink, toToks, symTok, tyOf_atomOf ty a hty, atomOf_snd]
    | dot =>
      obtain ⟨g1, g2, g3⟩ := pstep_link_inv (o := 0) (b := true) hp (Or.inr (Or.inl rfl)) h1
      cases w with
      | nil => simp only [prun] at hrun1; cases hrun1; rw [hpv] at g1; cases g1
      | cons u w2 =>
        obtain ⟨st2, h2, hrun2⟩ := prun_cons_ok hrun1
        obtain ⟨ty, a, rfl⟩ := after_link_is_atom g1 (hcore' u (by simp)) h2
        obtain ⟨f1, f2, f3⟩ := pstep_atom_facts (by rw [g3]; exact hne) h2
        obtain ⟨ks, hlen, hw⟩ := unprint strong w2 st2 st' f3 f1 (fun v hv => hcore' v (by simp [hv]))
          (noEmptyOpen_tail hneo') hrun2 hst hpv
        have hty := hcore' (.atom ty a) (by simp)
        cases ks with
        | nil => simp at hlen
        | cons k ktl =>
          refine ⟨.next .dot (atomOf ty a) k :: ktl, by simpa [f2, g2] using hlen, ?_⟩
          rw [hw]
          cases ktl with
          | nil => simp [printStack, printK, printLink, toToks, symTok, tyOf_atomOf ty a hty, atomOf_snd]
          | cons k2 tl2 => simp [printStack, printK, printLink, toToks, symTok, tyOf_atomOf ty a hty, atomOf_snd]
    | dir b =>
      obtain ⟨g1, g2, g3⟩ := pstep_link_inv (o := 0) (b := b) hp (Or.inr (Or.inr rfl)) h1
      cases w with
      | nil => simp only [prun] at hrun1; cases hrun1; rw [hpv] at g1; cases g1
      | cons u w2 =>
        obtain ⟨st2, h2, hrun2⟩ := prun_cons_ok hrun1
        obtain ⟨ty, a, rfl⟩ := after_link_is_atom g1 (hcore' u (by simp)) h2
        obtain ⟨f1, f2, f3⟩ := pstep_atom_facts (by rw [g3]; exact hne) h2
        obtain ⟨ks, hlen, hw⟩ := unprint strong w2 st2 st' f3 f1 (fun v hv => hcore' v (by simp [hv]))
          (noEmptyOpen_tail hneo') hrun2 hst hpv
        have hty := hcore' (.atom ty a) (by simp)
        cases ks with
        | nil => simp at hlen
        | cons k ktl =>
          refine ⟨.next (.dir b) (atomOf ty a) k :: ktl, by simpa [f2, g2] using hlen, ?_⟩
          rw [hw]
          cases ktl with
          | nil => simp [printStack, printK, printLink, toToks, symTok, tyOf_atomOf ty a hty, atomOf_snd]
          | cons k2 tl2 => simp [printStack, printK, printLink, toToks, symTok, tyOf_atomOf ty a hty, atomOf_snd]
    | lpar =>
      simp only [pstep, hp, Option.isSome_none, Bool.false_eq_true, if_false] at h1
      cases h1
      -- shape of the result once the branch atom `ty a` (after link `l`) and the rest have been inverted
      have build : ∀ (l : Link) (ty : Nat) (a : AtomTok) (pre : List Tok) (w3 : List Tok) (ks : List (K A)),
          coreTok (.atom ty a) = true → toToks (printLink l : List (Sym A)) = pre →
          ks.length = (st.lastNum :: st.stack).length + 1 → w3 = toToks (printStack ks) →
          ∃ ks' : List (K A), ks'.length = st.stack.length + 1 ∧
            Tok.lpar :: (pre ++ Tok.atom ty a :: w3) = toToks (printStack ks') := by
        intro l ty a pre w3 ks hty hpre hlen hw
        match ks, hlen with
        | ki :: k0 :: rest, hlen =>
          refine ⟨.side l (atomOf ty a) ki k0 :: rest, by simpa using hlen, ?_⟩
          rw [hw, ← hpre]
          cases rest with
          | nil => simp [printStack, printK, toToks, symTok, tyOf_atomOf ty a hty, atomOf_snd]
          | cons k2 tl2 => simp [printStack, printK, toToks, symTok, tyOf_atomOf ty a hty, atomOf_snd]
      cases w with
      | nil => simp only [prun] at hrun1; cases hrun1; simp at hst
      | cons u w2 =>
        obtain ⟨st2, h2, hrun2⟩ := prun_cons_ok hrun1
        have hu := hcore' u (by simp)
        cases u with
        | other ty v => simp [coreTok] at hu
        | cyc n => simp [coreTok] at hu
        | lpar => simp [noEmptyOpen, pairOK] at hneo
        | rpar => simp [noEmptyOpen, pairOK] at hneo
        | atom ty a =>
          obtain ⟨f1, f2, f3⟩ := pstep_atom_facts (st := { st with stack := st.lastNum :: st.stack, opened := true, previous := none })
            hne h2
          obtain ⟨ks, hlen, hw⟩ := unprint strong w2 st2 st' f3 f1 (fun v hv => hcore' v (by simp [hv]))
            (noEmptyOpen_tail hneo') hrun2 hst hpv
          obtain ⟨ks', hl', hw'⟩ := build .implicit ty a [] w2 ks hu rfl (by rw [hlen, f2]) hw
          exact ⟨ks', hl', by simpa using hw'⟩
        | bond o =>
          obtain ⟨g1, g2, g3⟩ := pstep_link_inv (o := o) (b := true)
            (st := { st with stack := st.lastNum :: st.stack, opened := true, previous := none }) rfl (Or.inl rfl) h2
          cases w2 with
          | nil => simp only [prun] at hrun2; cases hrun2; rw [hpv] at g1; cases g1
          | cons u3 w3 =>
            obtain ⟨st3, h3, hrun3⟩ := prun_cons_ok hrun2
            obtain ⟨ty, a, rfl⟩ := after_link_is_atom g1 (hcore' u3 (by simp)) h3
            obtain ⟨f1, f2, f3⟩ := pstep_atom_facts (by rw [g3]; exact hne) h3
            obtain ⟨ks, hlen, hw⟩ := unprint strong w3 st3 st' f3 f1 (fun v hv => hcore' v (by simp [hv]))
              (noEmptyOpen_tail (noEmptyOpen_tail hneo')) hrun3 hst hpv
            obtain ⟨ks', hl', hw'⟩ := build (.explicit o) ty a [.bond o] w3 ks (hcore' _ (by simp)) rfl
              (by rw [hlen, f2, g2]) hw
            exact ⟨ks', hl', by simpa using hw'⟩
        | dot =>
          obtain ⟨g1, g2, g3⟩ := pstep_link_inv (o := 0) (b := true)
            (st := { st with stack := st.lastNum :: st.stack, opened := true, previous := none }) rfl (Or.inr (Or.inl rfl)) h2
          cases w2 with
          | nil => simp only [prun] at hrun2; cases hrun2; rw [hpv] at g1; cases g1
          | cons u3 w3 =>
            obtain ⟨st3, h3, hrun3⟩ := prun_cons_ok hrun2
            obtain ⟨ty, a, rfl⟩ := after_link_is_atom g1 (hcore' u3 (by simp)) h3
            obtain ⟨f1, f2, f3⟩ := pstep_atom_facts (by rw [g3]; exact hne) h3
            obtain ⟨ks, hlen, hw⟩ := unprint strong w3 st3 st' f3 f1 (fun v hv => hcore' v (by simp [hv]))
              (noEmptyOpen_tail (noEmptyOpen_tail hneo')) hrun3 hst hpv
            obtain ⟨ks', hl', hw'⟩ := build .dot ty a [.dot] w3 ks (hcore' _ (by simp)) rfl
              (by rw [hlen, f2, g2]) hw
            exact ⟨ks', hl', by simpa using hw'⟩
        | dir b =>
          obtain ⟨g1, g2, g3⟩ := pstep_link_inv (o := 0) (b := b)
            (st := { st with stack := st.lastNum :: st.stack, opened := true, previous := none }) rfl (Or.inr (Or.inr rfl)) h2
          cases w2 with
          | nil => simp only [prun] at hrun2; cases hrun2; rw [hpv] at g1; cases g1
          | cons u3 w3 =>
            obtain ⟨st3, h3, hrun3⟩ := prun_cons_ok hrun2
            obtain ⟨ty, a, rfl⟩ := after_link_is_atom g1 (hcore' u3 (by simp)) h3
            obtain ⟨f1, f2, f3⟩ := pstep_atom_facts (by rw [g3]; exact hne) h3
            obtain ⟨ks, hlen, hw⟩ := unprint strong w3 st3 st' f3 f1 (fun v hv => hcore' v (by simp [hv]))
              (noEmptyOpen_tail (noEmptyOpen_tail hneo')) hrun3 hst hpv
            obtain ⟨ks', hl', hw'⟩ := build (.dir b) ty a [.dir b] w3 ks (hcore' _ (by simp)) rfl
              (by rw [hlen, f2, g2]) hw
            exact ⟨ks', hl', by simpa using hw'⟩
termination_by w => w.length

theorem endCheck_ok {st st' : PState} (h : endCheck st = .ok st') :
    st' = st ∧ st.stack = [] ∧ st.previous = none := by
  unfold endCheck at h
  split at h
  · cases h
  · split at h
    · cases h
    · split at h
      · cases h
      · rename_i h1 _ h3
        cases h
        refine ⟨rfl, ?_, ?_⟩
        · cases hk : st.stack <;> simp_all
        · cases hk : st.previous <;> simp_all

/-- **whatever the parser accepts is in the grammar**: a core token sequence that starts with an atom, has no `((` / `()`
    and is accepted by `parser` is the printing of a syntax tree -/
theorem parse_unprint (strong : Bool) (ty : Nat) (a : AtomTok) (rest : List Tok) (st : PState)
    (hcore : ∀ t ∈ Tok.atom ty a :: rest, coreTok t = true) (hneo : noEmptyOpen (Tok.atom ty a :: rest) = true)
    (h : parse strong (Tok.atom ty a :: rest) = .ok st) :
    ∃ c : Chain A, Tok.atom ty a :: rest = toToks (print c) := by
  unfold parse at h
  simp only [startCheck, Tok.isAtom, if_true] at h
  cases hrun : prun strong {} (Tok.atom ty a :: rest) with
  | error e => rw [hrun] at h; cases h
  | ok st2 =>
    rw [hrun] at h
    dsimp only at h
    obtain ⟨heq, hstk, hprev⟩ := endCheck_ok h
    obtain ⟨st1, h1, hrun1⟩ := prun_cons_ok hrun
    have hfirst : st1.atoms ≠ [] ∧ st1.previous = none ∧ st1.stack = [] := by
      have : pstep strong {} (Tok.atom ty a) = .ok st1 := h1
      simp only [pstep] at this
      cases this
      exact ⟨by simp, rfl, rfl⟩
    obtain ⟨ks, hlen, hw⟩ := unprint strong rest st1 st2 hfirst.1 hfirst.2.1 (fun t ht => hcore t (by simp [ht]))
      (noEmptyOpen_tail hneo) hrun1 hstk hprev
    have hty := hcore (.atom ty a) (by simp)
    match ks, hlen with
    | [k], _ =>
      refine ⟨⟨atomOf ty a, k⟩, ?_⟩
      rw [hw]
      simp [print, toToks, symTok, printStack, tyOf_atomOf ty a hty, atomOf_snd]
    | [], hlen => simp at hlen
    | _ :: _ :: _, hlen => simp [hfirst.2.2] at hlen

end ChythonModel.Proofs.C03
