import ChythonModel.Proofs.C02DfsInv
/-!
# C02 — `dfsStep` preserves the invariant; what `dfsRun` returns
-/
namespace ChythonModel.Proofs.C02
open ChythonModel.Model ChythonModel.Model.SmilesWriter

def Inv (m : Mol) (S : List Nat) (start c0 : Nat) (s : Dfs) : Prop :=
  InvG m S start c0 (vis s) (treeP s.edges) s.disconnected (cycT s.tokens) s.cycle ∧
  InvS m S (vis s) (treeP s.edges) s.disconnected s.stack ∧
  (s.edges.map (·.1)).Nodup

theorem inv_tree_step {m : Mol} {S : List Nat} {start c0 : Nat} {s : Dfs} {f : Frame} {rest : List Frame} {child : Nat}
    {cs : List Nat} {newF : List Frame} {dr : List (Nat × Nat)}
    (hwf : m.WF = true) (hS : ∀ a ∈ S, ∀ b ∈ nk m a, b ∈ S) (hI : Inv m S start c0 s)
    (hs : s.stack = f :: rest) (hc : f.children = child :: cs) (hv : alHas s.visited child = false)
    (hnew : (newF = [] ∧ (f.depth ≤ 1 ∨ wantOf m child f.parent = [])) ∨
            (1 < f.depth ∧ ∃ ch, (wantOf m child f.parent).Perm ch ∧
               newF = [{ parent := child, depth := f.depth - 1, children := ch }])) :
    Inv m S start c0 { s with stack := newF ++ { f with children := cs } :: rest,
                              edges := alAppend s.edges f.parent child,
                              visited := s.visited ++ [(child, [f.parent])], draws := dr } := by
  obtain ⟨hG, hSt, hK⟩ := hI
  rw [hs] at hSt
  have hv' : child ∉ vis s := (alHas_false_iff _ _).1 hv
  have hpV : f.parent ∈ vis s := hSt.stackVis f (by simp)
  have hcp : child ∈ nk m f.parent := by
    have := (hSt.frameCh f (by simp)).2
    rw [hc] at this
    exact (this child (by simp)).1
  have hcS : child ∈ S := hS _ (hG.visSub _ hpV) _ hcp
  have e1 : vis { s with stack := newF ++ { f with children := cs } :: rest, edges := alAppend s.edges f.parent child,
                         visited := s.visited ++ [(child, [f.parent])], draws := dr } = vis s ++ [child] := by
    simp [vis]
  refine ⟨?_, ?_, alAppend_keys_nodup _ _ _ hK⟩
  · rw [e1]
    exact (hG.tree hpV hv' hcS hcp).perm (treeP_alAppend _ _ _).symm (List.Perm.refl _)
  · rw [e1]
    exact (InvS.tree hwf hS hG hSt hc hv' hnew).perm (treeP_alAppend _ _ _).symm

theorem dfsStep_inv {m : Mol} {env : Env} {opts : Opts} {groups seen} {S : List Nat} {start c0 : Nat} {s s' : Dfs}
    (hwf : m.WF = true) (hS : ∀ a ∈ S, ∀ b ∈ nk m a, b ∈ S) (hI : Inv m S start c0 s)
    (h : dfsStep m env opts groups seen s = .ok s') : Inv m S start c0 s' := by
  unfold dfsStep at h
  split at h
  · cases h; exact hI
  · rename_i f rest hs
    split at h
    · rename_i hc
      cases h
      obtain ⟨hG, hSt, hK⟩ := hI
      rw [hs] at hSt
      exact ⟨hG, hSt.pop hc, hK⟩
    · rename_i child cs hc
      simp only at h
      split at h
      · -- unvisited child
        rename_i hv
        have hv : alHas s.visited child = false := by simpa using hv
        have hwn : (wantOf m child f.parent).Nodup := ((wf_nbrs hwf child).1).filter _
        split at h
        · rename_i hd
          simp only [bind, Except.bind, pure, Except.pure] at h
          split at h
          · cases h
          · rename_i front hfront
            have hp := frontOf_perm hwn hfront
            split at h
            · rename_i hemp
              cases h
              have : front = [] := by simpa using hemp
              subst this
              have hw : wantOf m child f.parent = [] := List.Perm.eq_nil (hp)
              exact inv_tree_step (newF := []) hwf hS hI hs hc hv (Or.inl ⟨rfl, Or.inr hw⟩)
            · split at h
              · cases h
              · rename_i ks hks
                obtain ⟨ks1, dr1⟩ := ks
                cases h
                have hk := keysFor_perm (hp.nodup_iff.1 hwn) hks
                exact inv_tree_step
                  (newF := [{ parent := child, depth := f.depth - 1, children := (sortKeyed ks1).map (·.1) }]) hwf hS hI hs hc hv
                  (Or.inr ⟨hd, _, (hp.trans hk).trans (sortKeyed_fst_perm ks1).symm, rfl⟩)
        · rename_i hd
          cases h
          exact inv_tree_step (newF := []) (dr := s.draws) hwf hS hI hs hc hv (Or.inl ⟨rfl, Or.inl (by omega)⟩)
      · rename_i hv
        have hv : child ∈ vis s := by
          have : alHas s.visited child = true := by simpa using hv
          exact (alHas_iff _ _).1 this
        obtain ⟨hG, hSt, hK⟩ := hI
        rw [hs] at hSt
        have hpV : f.parent ∈ vis s := hSt.stackVis f (by simp)
        obtain ⟨_, hfc⟩ := hSt.frameCh f (by simp)
        rw [hc] at hfc
        obtain ⟨hcp, ht1, ht2⟩ := hfc child (by simp)
        split at h
        · rename_i hd
          cases h
          have hd : (child, f.parent) ∉ s.disconnected := by simpa using hd
          obtain ⟨_, hw⟩ := wf_nbrs hwf f.parent
          obtain ⟨hne, _, hpc⟩ := hw child hcp
          refine ⟨?_, ?_, hK⟩
          · exact (hG.cycle hpV hv hcp hpc (Ne.symm hne) ht1 ht2 hd).perm (List.Perm.refl _)
              (((cycT_alAppend (alAppend s.tokens f.parent (child, s.cycle + 1)) child (f.parent, s.cycle + 1)).trans
                ((cycT_alAppend s.tokens f.parent (child, s.cycle + 1)).append_right _)).symm)
          · exact hSt.consume hc (fun x hx => List.mem_cons_of_mem _ (List.mem_cons_of_mem _ hx))
              (Or.inr (Or.inr (by simp)))
        · rename_i hd
          cases h
          have hd : (child, f.parent) ∈ s.disconnected := by simpa using hd
          exact ⟨hG, hSt.consume hc (fun x hx => hx) (Or.inr (Or.inr (hG.discSymm _ _ hd))), hK⟩

/-- the run: the invariant holds for the final state, and the stack is empty -/
theorem dfsRun_inv {m : Mol} {env : Env} {opts : Opts} {groups seen} {S : List Nat} {start c0 : Nat}
    (hwf : m.WF = true) (hS : ∀ a ∈ S, ∀ b ∈ nk m a, b ∈ S) :
    ∀ (fuel : Nat) (s r : Dfs), Inv m S start c0 s → dfsRun m env opts groups seen fuel s = .ok r →
      Inv m S start c0 r ∧ r.stack = [] := by
  intro fuel
  induction fuel with
  | zero =>
    intro s r hI h
    simp only [dfsRun] at h
    split at h
    · rename_i he; cases h; exact ⟨hI, by simpa using he⟩
    · cases h
  | succ n ih =>
    intro s r hI h
    simp only [dfsRun] at h
    split at h
    · rename_i he; cases h; exact ⟨hI, by simpa using he⟩
    · split at h
      · cases h
      · rename_i s' hs'
        exact ih s' r (dfsStep_inv hwf hS hI hs') h

end ChythonModel.Proofs.C02
