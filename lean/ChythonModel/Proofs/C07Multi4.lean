import ChythonModel.Proofs.C07Multi3
/-!
No duplicates in the multi-component branch: one assignment yields each merged dict once, and two different assignments of
target components never yield the same dict.
-/
namespace ChythonModel.Proofs.C07
open ChythonModel.Model.Iso ChythonModel.Spec.Embedding

/-- two assignments whose components all contain the same witness atoms coincide -/
theorem cands_unique (tComps : List (List Nat)) (hdis : tComps.Pairwise List.Disjoint) (w : List Step → Nat) :
    ∀ (comps : List (List Step)) (cands cands' : List (List Nat)),
      cands.length = comps.length → cands'.length = comps.length →
      (∀ c ∈ cands, c ∈ tComps) → (∀ c ∈ cands', c ∈ tComps) →
      (∀ pr ∈ comps.zip cands, w pr.1 ∈ pr.2) → (∀ pr ∈ comps.zip cands', w pr.1 ∈ pr.2) → cands = cands' := by
  intro comps
  induction comps with
  | nil =>
    intro cands cands' h1 h2 _ _ _ _
    rw [List.eq_nil_of_length_eq_zero h1, List.eq_nil_of_length_eq_zero h2]
  | cons lq lqs ih =>
    intro cands cands' h1 h2 hs1 hs2 hw1 hw2
    match cands, cands', h1, h2 with
    | c :: cs, c' :: cs', h1, h2 =>
      have e1 : w lq ∈ c := hw1 (lq, c) (by simp)
      have e2 : w lq ∈ c' := hw2 (lq, c') (by simp)
      have hcc : c = c' := by
        rcases pairwise_cases (fun _ _ h => disjoint_symm' h) _ hdis c (hs1 c (by simp)) c' (hs2 c' (by simp)) with h | h
        · exact h
        · exact absurd e2 (fun hh => h e1 hh)
      have := ih cs cs' (by simpa using h1) (by simpa using h2) (fun x hx => hs1 x (by simp [hx]))
        (fun x hx => hs2 x (by simp [hx])) (fun pr hpr => hw1 pr (by simp [hpr])) (fun pr hpr => hw2 pr (by simp [hpr]))
      rw [hcc, this]

theorem headFront_mem (lq : List Step) (h : lq ≠ []) : headFront lq ∈ frontsOf lq := by
  cases lq with
  | nil => exact absurd rfl h
  | cons a l => simp [headFront, frontsOf]


theorem mapperList_nodup (p : Problem) (cl : Closures)
    (h : ∀ lq cand, (recMapping (mkEnv p cl lq (restrict p.scope cand))).Nodup) :
    ∀ (comps : List (List Step)) (cands : List (List Nat)), ∀ l ∈ mapperList p cl comps cands, l.Nodup := by
  intro comps
  induction comps with
  | nil => intro cands l hl; simp [mapperList] at hl
  | cons lq lqs ih =>
    intro cands l hl
    cases cands with
    | nil => simp [mapperList] at hl
    | cons c cs =>
      simp only [mapperList, List.zipWith_cons_cons, List.mem_cons] at hl
      rcases hl with rfl | hl
      · exact h lq c
      · exact ih cs l hl

end ChythonModel.Proofs.C07
