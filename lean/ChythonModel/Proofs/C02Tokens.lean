import ChythonModel.Proofs.C02Lex
import ChythonModel.Proofs.C02Paren
import ChythonModel.Proofs.C02Heap
namespace ChythonModel.Proofs.C02
open ChythonModel.Model ChythonModel.Model.SmilesWriter ChythonModel.Model.C02RT ChythonModel.Gen.C02

/-! ## the tokens the writer emits have the shapes `token_roundtrip` needs -/

theorem natDigits_digits : ∀ (fuel n : Nat), ∀ x ∈ natDigits fuel n, 48 ≤ x ∧ x ≤ 57 := by
  intro fuel
  induction fuel with
  | zero => intro n x hx; simp [natDigits] at hx
  | succ f ih =>
    intro n x hx
    simp only [natDigits] at hx
    split at hx
    · simp at hx; omega
    · simp at hx
      rcases hx with hx | hx
      · exact ih _ x hx
      · omega

theorem natStr_no93 (n : Nat) : ¬ 93 ∈ natStr n := by
  intro h
  have := natDigits_digits _ _ 93 h
  omega

/-- table facts, by kernel evaluation over the regenerated tables -/
theorem symbols_no93 : symbols.all (fun p => !p.2.contains 93 && !(lower p.2).contains 93) = true := by decide +kernel
theorem charges_no93 : chargeStr.all (fun p => !p.2.contains 93) = true := by decide +kernel
theorem organic_plain : symbols.all (fun p => !organicSet.contains p.2 ||
    (plainSyms.contains p.2 && ([9, 17, 35, 53].contains p.1 || plainSyms.contains (lower p.2)))) = true := by decide +kernel

theorem lookup_mem {α} : ∀ (l : List (Nat × α)) (k : Nat) (v : α), l.lookup k = some v → (k, v) ∈ l := by
  intro l
  induction l with
  | nil => intro k v h; simp at h
  | cons p tl ih =>
    intro k v h
    simp only [List.lookup] at h
    split at h
    · rename_i heq
      simp only [Option.some.injEq] at h
      have : k = p.1 := by simpa using heq
      subst this; subst h; simp
    · exact List.mem_cons_of_mem _ (ih k v h)

theorem lookupInt_mem {α} : ∀ (l : List (Int × α)) (k : Int) (v : α), l.lookup k = some v → (k, v) ∈ l := by
  intro l
  induction l with
  | nil => intro k v h; simp at h
  | cons p tl ih =>
    intro k v h
    simp only [List.lookup] at h
    split at h
    · rename_i heq
      simp only [Option.some.injEq] at h
      have : k = p.1 := by simpa using heq
      subst this; subst h; simp
    · exact List.mem_cons_of_mem _ (ih k v h)

/-- the excluded class: an unbracketed aromatic halogen would be written `f`, `cl`, `br`, `i` (no reader accepts these) -/
def NoAromaticHalogen (m : Mol) (opts : Opts) : Prop :=
  ∀ n atom, m.atom? n = some atom → opts.aromatic = true → hybridization m n = 4 → ¬ atom.z ∈ [9, 17, 35, 53]

theorem formatBond_ok {m opts sc a b s} (h : formatBond m opts sc a b = .ok s) : tokOk (.bond s) = true := by
  unfold formatBond at h
  split at h
  · cases h; rfl
  · split at h
    · cases h
    · split at h
      · cases h; split <;> decide
      · split at h
        · split at h
          · cases h; decide
          · split at h
            · split at h
              · cases h
              · split at h
                · cases h; split <;> decide
                · cases h; rfl
            · cases h; rfl
        · split at h
          · cases h; decide
          · split at h
            · cases h; decide
            · cases h; decide

theorem chargeText_no93 {opts atom s} (h : chargeText opts atom = .ok s) : ¬ 93 ∈ s := by
  unfold chargeText at h
  split at h
  · split at h
    · rename_i hl
      cases h
      have hm := lookupInt_mem _ _ _ hl
      have := List.all_eq_true.mp charges_no93 _ hm
      simpa using this
    · cases h
  · cases h; simp

theorem p1 (o : Option Nat) : ¬ 93 ∈ (match o with | some i => natStr i | none => []) := by
  cases o with
  | none => simp
  | some i => exact natStr_no93 i
theorem p2 (o : Option Bool) : ¬ 93 ∈ (match o with | some true => [64] | some false => [64, 64] | none => ([] : Str)) := by
  cases o with
  | none => simp
  | some b => cases b <;> simp
theorem p3 (h : Nat) : ¬ 93 ∈ (if h == 0 then [] else if h == 1 then [72] else 72 :: natStr h) := by
  split
  · simp
  · split
    · simp
    · simp only [List.mem_cons, not_or]; exact ⟨by decide, natStr_no93 h⟩
theorem p4 (o : Option Nat) : ¬ 93 ∈ (match o with | some k => 58 :: natStr k | none => []) := by
  cases o with
  | none => simp
  | some k => simp only [List.mem_cons, not_or]; exact ⟨by decide, natStr_no93 k⟩

theorem inner_no93 (a : ATok) (h1 : ¬ 93 ∈ a.symbol) (h2 : ¬ 93 ∈ a.charge) : ¬ 93 ∈ ATok.inner a := by
  simp only [ATok.inner, ATok.render, Bool.false_eq_true, if_false, List.nil_append, List.append_nil,
    List.mem_append, not_or]
  exact ⟨⟨⟨⟨⟨p1 _, h1⟩, p2 _⟩, p3 _⟩, h2⟩, p4 _⟩

theorem bracketH_false {m opts n atom sym anySmi} (h : (bracketH m opts n atom sym anySmi).1 = false) :
    anySmi = false ∧ organicSet.contains sym = true ∧ (bracketH m opts n atom sym anySmi).2 = 0 := by
  have key : ¬ (anySmi || !organicSet.contains sym || atom.radical || opts.hydrogens) = true := by
    intro hc
    unfold bracketH at h
    simp only at h
    rw [if_pos hc] at h
    cases h
  have k2 : (bracketH m opts n atom sym anySmi).2 = 0 := by
    unfold bracketH at h ⊢
    simp only at h ⊢
    split
    · rename_i hc; exact absurd hc key
    · split
      · rename_i h1 h2; simp [h1, h2] at h
      · split
        · rfl
        · split
          · rename_i h1 h2 h3 h4; simp [h1, h2, h3, h4] at h
          · rfl
  simp only [Bool.or_eq_true, not_or, Bool.not_eq_true, Bool.not_eq_false'] at key
  exact ⟨key.1.1.1, by simpa using key.1.1.2, k2⟩

theorem mkATok_ok (m : Mol) (opts : Opts) (n : Nat) (atom : Atom) (sym : Str) (mark : Option Bool) (charge : Str)
    (hsym : (atom.z, sym) ∈ symbols) (hch : ¬ 93 ∈ charge)
    (hAr : opts.aromatic = true → hybridization m n = 4 → ¬ atom.z ∈ [9, 17, 35, 53]) :
    tokOk (.atom n (mkATok m opts n atom sym mark charge)) = true := by
  have hs93 := List.all_eq_true.mp symbols_no93 _ hsym
  have hop := List.all_eq_true.mp organic_plain _ hsym
  simp only [Bool.and_eq_true, Bool.not_eq_true', List.contains_eq_mem, decide_eq_false_iff_not] at hs93
  simp only [tokOk]
  split
  · simp only [Bool.not_eq_true', List.contains_eq_mem, decide_eq_false_iff_not]
    apply inner_no93
    · simp only [mkATok]; split
      · exact hs93.2
      · exact hs93.1
    · exact hch
  · rename_i hb
    simp only [mkATok] at hb
    obtain ⟨hany, horg, hh⟩ := bracketH_false (by simpa using hb)
    simp only [Bool.or_eq_false_iff, Option.isSome_eq_false_iff, Option.isNone_iff_eq_none, Bool.not_eq_false',
      List.isEmpty_iff] at hany
    obtain ⟨⟨⟨ha1, ha2⟩, ha3⟩, ha4⟩ := hany
    simp only [horg, Bool.not_true, Bool.false_or, Bool.and_eq_true, Bool.or_eq_true, List.contains_eq_mem,
      decide_eq_true_eq] at hop
    have hh' : (bracketH m opts n atom sym false).2 = 0 := by simpa [ha1, ha2, ha3, ha4] using hh
    simp only [mkATok, ha1, ha2, ha3, ha4, Option.isNone_none, beq_self_eq_true, List.isEmpty_nil, Bool.and_true]
    split
    · rename_i har
      simp only [Bool.and_eq_true, beq_iff_eq] at har
      rcases hop.2 with h | h
      · exact absurd h (hAr har.1 har.2)
      · simpa [hh'] using h
    · simpa [hh'] using hop.1

theorem formatAtom_ok {m opts sc n a} (hAr : NoAromaticHalogen m opts) (h : formatAtom m opts sc n = .ok a) :
    tokOk (.atom n a) = true := by
  unfold formatAtom at h
  split at h
  · cases h
  · rename_i atom hatom
    split at h
    · cases h
    · rename_i sym hsym
      split at h
      · cases h
      · split at h
        · cases h
        · rename_i charge hc
          cases h
          have hs : (atom.z, sym) ∈ symbols := by
            unfold symbolOf at hsym
            split at hsym
            · rename_i hl; cases hsym; exact lookup_mem _ _ _ hl
            · cases hsym
          exact mkATok_ok m opts n atom sym _ charge hs (chargeText_no93 hc) (hAr n atom hatom)

/-! ### closure numbers stay below 100 -/

def Below (casted : List (Nat × Nat)) (heap : List Nat) : Prop :=
  (∀ k ∈ heap, k < 100) ∧ ∀ c k, casted.lookup c = some k → k < 100

theorem lookup_append_cases {α} (l : List (Nat × α)) (c' : Nat) (v : α) (c : Nat) (k : α)
    (h : (l ++ [(c', v)]).lookup c = some k) : l.lookup c = some k ∨ k = v := by
  induction l with
  | nil =>
    simp only [List.nil_append, List.lookup] at h
    split at h
    · simp at h; exact Or.inr h.symm
    · simp at h
  | cons y tl ih =>
    simp only [List.cons_append, List.lookup] at h ⊢
    split
    · rename_i heq; rw [heq] at h; exact Or.inl h
    · rename_i hne; rw [hne] at h; exact ih h

theorem castOne_below : ∀ (cyc : List Nat) (casted : List (Nat × Nat)) (heap released : List Nat)
    (casted' : List (Nat × Nat)) (heap' released' : List Nat),
    Below casted heap → (∀ k ∈ released, k < 100) →
    castOne cyc casted heap released = .ok (casted', heap', released') →
    Below casted' heap' ∧ ∀ k ∈ released', k < 100 := by
  intro cyc
  induction cyc with
  | nil =>
    intro casted heap released casted' heap' released' hB hR h
    simp only [castOne, Except.ok.injEq, Prod.mk.injEq] at h
    obtain ⟨rfl, rfl, rfl⟩ := h
    exact ⟨hB, hR⟩
  | cons c cs ih =>
    intro casted heap released casted' heap' released' hB hR h
    simp only [castOne] at h
    split at h
    · rename_i num hnum
      refine ih _ _ _ _ _ _ hB ?_ h
      intro k hk
      simp at hk
      rcases hk with hk | rfl
      · exact hR k hk
      · exact hB.2 c _ hnum
    · split at h
      · cases h
      · rename_i hp heap1
        refine ih _ _ _ _ _ _ ⟨fun k hk => hB.1 k (by simp [hk]), ?_⟩ hR h
        intro c0 k hk
        rcases lookup_append_cases _ _ _ _ _ hk with h1 | rfl
        · exact hB.2 c0 k h1
        · exact hB.1 _ (by simp)

theorem castSeq_below : ∀ (L : List (List Nat)) (casted : List (Nat × Nat)) (heap : List Nat)
    (casted' : List (Nat × Nat)) (heap' : List Nat),
    Below casted heap → castSeq L casted heap = .ok (casted', heap') → Below casted' heap' := by
  intro L
  induction L with
  | nil =>
    intro casted heap casted' heap' hB h
    simp only [castSeq, Except.ok.injEq, Prod.mk.injEq] at h
    obtain ⟨rfl, rfl⟩ := h
    exact hB
  | cons cyc tl ih =>
    intro casted heap casted' heap' hB h
    simp only [castSeq] at h
    split at h
    · cases h
    · rename_i c1 h1 rel hc
      obtain ⟨hB1, hR1⟩ := castOne_below _ _ _ _ _ _ _ hB (by simp) hc
      refine ih _ _ _ _ ⟨?_, hB1.2⟩ h
      intro k hk
      rw [mem_pushAll] at hk
      rcases hk with hk | hk
      · exact hB1.1 k hk
      · exact hR1 k hk

theorem below_initial : Below [] initialHeap := by
  refine ⟨?_, by intro c k h; simp at h⟩
  intro k hk
  simp only [initialHeap, List.mem_filter, List.mem_range] at hk
  exact hk.1

theorem emitClosures_ok (m : Mol) (opts : Opts) (sc : SCtx) (casted : List (Nat × Nat)) (n : Nat)
    (hB : ∀ c k, casted.lookup c = some k → k < 100) :
    ∀ (cl vb : List (Nat × Nat)) cts vb', emitClosures m opts sc casted n cl vb = .ok (cts, vb') →
      ∀ t ∈ cts, tokOk t = true := by
  intro cl
  induction cl with
  | nil => intro vb cts vb' h t ht; simp [emitClosures] at h; simp [h.1] at ht
  | cons kc tl ih =>
    intro vb cts vb' h t ht
    obtain ⟨k, c⟩ := kc
    simp only [emitClosures] at h
    split at h
    · cases h
    · rename_i num hnum
      split at h
      · cases h
      · rename_i bt vb1 hb
        split at h
        · cases h
        · rename_i rest' vb2 hr
          simp only [Except.ok.injEq, Prod.mk.injEq] at h
          rw [← h.1] at ht
          simp only [List.mem_append, List.mem_cons] at ht
          rcases ht with ht | rfl | ht
          · -- the bond token
            unfold closureBond at hb
            split at hb
            · split at hb
              · simp only [Except.ok.injEq, Prod.mk.injEq] at hb; rw [← hb.1] at ht; simp at ht
              · split at hb
                · cases hb
                · rename_i s hs
                  simp only [Except.ok.injEq, Prod.mk.injEq] at hb; rw [← hb.1] at ht
                  simp at ht; subst ht; exact formatBond_ok hs
            · split at hb
              · cases hb
              · rename_i s hs
                simp only [Except.ok.injEq, Prod.mk.injEq] at hb; rw [← hb.1] at ht
                simp at ht; subst ht; exact formatBond_ok hs
          · simp [tokOk, hB c num hnum]
          · exact ih vb1 rest' vb2 hr t ht

theorem emit_ok (m : Mol) (opts : Opts) (sc : SCtx) (casted : List (Nat × Nat)) (tokens : List (Nat × List (Nat × Nat)))
    (hAr : NoAromaticHalogen m opts) (hB : ∀ c k, casted.lookup c = some k → k < 100) :
    ∀ (smi : List FTok) vb out order vb', emit m opts sc casted tokens smi vb = .ok (out, order, vb') →
      ∀ t ∈ out, tokOk t = true := by
  intro smi
  induction smi with
  | nil => intro vb out order vb' h t ht; simp [emit] at h; simp [h.1] at ht
  | cons tk tl ih =>
    intro vb out order vb' h t ht
    cases tk with
    | atom n =>
      simp only [emit] at h
      split at h
      · cases h
      · rename_i a ha
        split at h
        · cases h
        · split at h
          · cases h
          · rename_i cts vb1 hc
            split at h
            · cases h
            · rename_i rest order' vb2 hr
              simp only [Except.ok.injEq, Prod.mk.injEq] at h
              rw [← h.1] at ht
              simp only [List.mem_cons, List.mem_append] at ht
              rcases ht with rfl | ht | ht
              · exact formatAtom_ok hAr ha
              · exact emitClosures_ok m opts sc casted n hB _ _ _ _ hc t ht
              · exact ih _ _ _ _ hr t ht
    | bond a b =>
      simp only [emit] at h
      split at h
      · cases h
      · rename_i s hs
        split at h
        · cases h
        · rename_i rest order' vb2 hr
          simp only [Except.ok.injEq, Prod.mk.injEq] at h
          rw [← h.1] at ht
          simp only [List.mem_cons] at ht
          rcases ht with rfl | ht
          · exact formatBond_ok hs
          · exact ih _ _ _ _ hr t ht
    | lpar =>
      simp only [emit] at h
      split at h
      · cases h
      · rename_i rest order' vb2 hr
        simp only [Except.ok.injEq, Prod.mk.injEq] at h
        rw [← h.1] at ht
        simp only [List.mem_cons] at ht
        rcases ht with rfl | ht
        · rfl
        · exact ih _ _ _ _ hr t ht
    | rpar =>
      simp only [emit] at h
      split at h
      · cases h
      · rename_i rest order' vb2 hr
        simp only [Except.ok.injEq, Prod.mk.injEq] at h
        rw [← h.1] at ht
        simp only [List.mem_cons] at ht
        rcases ht with rfl | ht
        · rfl
        · exact ih _ _ _ _ hr t ht

end ChythonModel.Proofs.C02
