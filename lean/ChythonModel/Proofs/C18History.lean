import ChythonModel.Model.C18Atom
/-!
Helper lemmas for the atom-object part of C18 (`Model/C18Atom.lean`): the invariant every constructor call establishes and every
step keeps, and what each kind of step can change.
-/
namespace ChythonModel.Proofs.C18
open ChythonModel.Gen ChythonModel.Model.C18

/-- the label is `None` or a key of the abundance table, the charge is within −4…4 -/
def Inv (r : ElemRow) (o : Obj) : Prop :=
  (∀ i, o.isotope = some i → (keys r.dist).contains i = true) ∧ -4 ≤ o.charge ∧ o.charge ≤ 4

theorem setIsotope_ok {r : ElemRow} {o o' : Obj} {v : PyVal} (h : setIsotope r o v = .ok o') :
    o'.charge = o.charge ∧ o'.radical = o.radical ∧ ∀ i, o'.isotope = some i → (keys r.dist).contains i = true := by
  unfold setIsotope at h
  split at h
  · split at h
    · next hc =>
      injection h with h; subst h
      refine ⟨rfl, rfl, fun i hi => ?_⟩
      simp only [Option.some.injEq] at hi
      subst hi
      simp only [Bool.and_eq_true] at hc
      exact hc.2
    · cases h
  · split at h
    · injection h with h; subst h
      exact ⟨rfl, rfl, fun i hi => by simp at hi⟩
    · cases h

theorem setCharge_ok {o o' : Obj} {v : PyVal} (h : setCharge o v = .ok o') :
    o'.isotope = o.isotope ∧ o'.radical = o.radical ∧ -4 ≤ o'.charge ∧ o'.charge ≤ 4 := by
  unfold setCharge at h
  split at h
  · split at h
    · cases h
    · next hc =>
      injection h with h; subst h
      simp only [Bool.or_eq_true, decide_eq_true_eq, not_or, Int.not_lt] at hc
      exact ⟨rfl, rfl, by dsimp only; omega, by dsimp only; omega⟩
  · cases h

theorem setRadical_ok {o o' : Obj} {v : PyVal} (h : setRadical o v = .ok o') :
    o'.isotope = o.isotope ∧ o'.charge = o.charge := by
  unfold setRadical at h
  split at h
  · injection h with h; subst h; exact ⟨rfl, rfl⟩
  · cases h

theorem stepSet_fst_ok {o o' : Obj} : (stepSet o (.ok o')).1 = o' := rfl
theorem stepSet_fst_err {o : Obj} {e : Err} : (stepSet o (.error e)).1 = o := rfl

theorem step_inv {r : ElemRow} {o : Obj} (op : Op) (h : Inv r o) : Inv r (step r o op).1 := by
  cases op with
  | iso v =>
    simp only [step]
    cases hs : setIsotope r o v with
    | error e => exact h
    | ok o' =>
      have := setIsotope_ok hs
      exact ⟨this.2.2, by rw [stepSet_fst_ok, this.1]; exact h.2.1, by rw [stepSet_fst_ok, this.1]; exact h.2.2⟩
  | charge v =>
    simp only [step]
    cases hs : setCharge o v with
    | error e => exact h
    | ok o' =>
      have := setCharge_ok hs
      exact ⟨by rw [stepSet_fst_ok, this.1]; exact h.1, this.2.2.1, this.2.2.2⟩
  | rad v =>
    simp only [step]
    cases hs : setRadical o v with
    | error e => exact h
    | ok o' =>
      have := setRadical_ok hs
      exact ⟨by rw [stepSet_fst_ok, this.1]; exact h.1, by rw [stepSet_fst_ok, this.2]; exact h.2.1,
        by rw [stepSet_fst_ok, this.2]; exact h.2.2⟩
  | read => exact h
  | copy => exact h
  | rules v => exact h

theorem run_inv {r : ElemRow} (ops : List Op) : ∀ {o : Obj}, Inv r o → Inv r (runObj r o ops) := by
  induction ops with
  | nil => intro o h; exact h
  | cons op ops ih =>
    intro o h
    show Inv r (run r (step r o op).1 ops).1
    exact ih (step_inv op h)

theorem new_inv {r : ElemRow} {a b c : PyVal} {o : Obj} (h : new r a b c = .ok o) : Inv r o := by
  unfold new at h
  cases h1 : setIsotope r ⟨none, 0, false⟩ a with
  | error e => rw [h1] at h; cases h
  | ok o1 =>
    rw [h1] at h
    dsimp only at h
    cases h2 : setCharge o1 b with
    | error e => rw [h2] at h; cases h
    | ok o2 =>
      rw [h2] at h
      have h3 : setRadical o2 c = .ok o := h
      have e1 := setIsotope_ok h1
      have e2 := setCharge_ok h2
      have e3 := setRadical_ok h3
      exact ⟨by rw [e3.1, e2.1]; exact e1.2.2, by rw [e3.2]; exact e2.2.2.1, by rw [e3.2]; exact e2.2.2.2⟩

/-- `naturalMass` succeeds when every abundance key has a mass -/
theorem naturalMass_ok (mass : List (Nat × Nat)) :
    ∀ dist : List (Nat × Nat), (∀ p ∈ dist, (mass.lookup p.1).isSome = true) → ∃ m, naturalMass mass dist = .ok m := by
  intro dist
  induction dist with
  | nil => intro _; exact ⟨0, rfl⟩
  | cons p tl ih =>
    intro h
    obtain ⟨i, x⟩ := p
    have hp := h (i, x) (by simp)
    obtain ⟨s, hs⟩ := ih (fun q hq => h q (by simp [hq]))
    cases hm : mass.lookup i with
    | none => simp [hm] at hp
    | some m =>
      refine ⟨x * m + s, ?_⟩
      simp only [naturalMass, hm, hs]

/-- the isotope label after a history, as a function of the accepted isotope assignments alone -/
def lastIso (r : ElemRow) : Option Nat → List Op → Option Nat
  | cur, [] => cur
  | cur, .iso v :: ops =>
    (match setIsotope r ⟨cur, 0, false⟩ v with
     | .ok o => lastIso r o.isotope ops
     | .error _ => lastIso r cur ops)
  | cur, _ :: ops => lastIso r cur ops

theorem setIsotope_isotope_indep (r : ElemRow) (o : Obj) (v : PyVal) :
    (setIsotope r o v).map (·.isotope) = (setIsotope r ⟨o.isotope, 0, false⟩ v).map (·.isotope) := by
  unfold setIsotope
  split
  · split <;> rfl
  · split <;> rfl

theorem step_isotope_other {r : ElemRow} {o : Obj} {op : Op} (h : ∀ v, op ≠ .iso v) : (step r o op).1.isotope = o.isotope := by
  cases op with
  | iso v => exact absurd rfl (h v)
  | charge v =>
    simp only [step]
    cases hs : setCharge o v with
    | error e => rfl
    | ok o' => exact (setCharge_ok hs).1
  | rad v =>
    simp only [step]
    cases hs : setRadical o v with
    | error e => rfl
    | ok o' => exact (setRadical_ok hs).1
  | read => rfl
  | copy => rfl
  | rules v => rfl

theorem run_isotope (r : ElemRow) (ops : List Op) : ∀ o : Obj, (runObj r o ops).isotope = lastIso r o.isotope ops := by
  induction ops with
  | nil => intro o; rfl
  | cons op ops ih =>
    intro o
    show (runObj r (step r o op).1 ops).isotope = _
    rw [ih]
    cases op with
    | iso v =>
      have hi := setIsotope_isotope_indep r o v
      simp only [step, lastIso]
      cases hs : setIsotope r o v with
      | error e =>
        rw [hs] at hi
        cases hs' : setIsotope r ⟨o.isotope, 0, false⟩ v with
        | error e' => rfl
        | ok o' => rw [hs'] at hi; cases hi
      | ok o1 =>
        rw [hs] at hi
        cases hs' : setIsotope r ⟨o.isotope, 0, false⟩ v with
        | error e' => rw [hs'] at hi; cases hi
        | ok o' =>
          rw [hs'] at hi
          have : o1.isotope = o'.isotope := by injection hi
          simp only [stepSet, this]
    | charge v => rw [step_isotope_other (by intro v h; cases h)]; rfl
    | rad v => rw [step_isotope_other (by intro v h; cases h)]; rfl
    | read => rfl
    | copy => rfl
    | rules v => rfl

end ChythonModel.Proofs.C18
