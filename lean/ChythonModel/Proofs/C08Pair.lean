import ChythonModel.Proofs.C08PrintBuild
/-!
# C08 — two documented atoms joined by a documented bond token: the reader returns the documented two-atom query
(general in the two atoms; the bond token ranges over the documented ones)
-/
namespace ChythonModel.Proofs.C08
open ChythonModel.Model.Query ChythonModel.Spec.Query ChythonModel.Gen.Query

/-- a documented bond spelling: symbols from the table, negation only of `- = # :` -/
def bondWF (b : DocBond) : Prop :=
  match b.kind with
  | .implicit => b.ring = none
  | .single c => c ∈ bondSymbols
  | .pair c d => c ∈ bondSymbols ∧ d ∈ bondSymbols
  | .negated c => c ∈ bondSymbols.take 4

/-- what `parser` keeps as the bond between the two atoms -/
def pbOf (b : DocBond) : PBond :=
  match b.kind, b.ring with
  | .implicit, _ => .order 1
  | .single c, none => .order c.2
  | .pair c d, none => .orders [c.2, d.2]
  | .negated c, none => .orders ([1, 2, 3, 4].filter (· != c.2))
  | .single c, some r => .query { orders := [c.2], inRing := some r }
  | .pair c d, some r => .query { orders := sortDedup [c.2, d.2], inRing := some r }
  | .negated c, some r => .query { orders := sortDedup ([1, 2, 3, 4].filter (· != c.2)), inRing := some r }

def tokOfPB : PBond → Tok
  | .order o => .bond o
  | .orders l => .orlist l
  | .query q => .ring q

theorem mid_single (c : Char × Nat) (hc : c ∈ bondSymbols) (T : List Tok) :
    tokLoop { tt := .t0, toks := T } [c.1] = .ok { tt := .t1, toks := .bond c.2 :: T } := by
  simp only [bondSymbols, List.mem_cons, List.mem_nil_iff, or_false] at hc
  rcases hc with rfl | rfl | rfl | rfl | rfl <;>
    simp [tokLoop, tokStep, bondChars, tokClasses, replaceDict, lookupCh, bind, Except.bind]

theorem mid_pair (c d : Char × Nat) (hc : c ∈ bondSymbols) (hd : d ∈ bondSymbols) (T : List Tok) :
    tokLoop { tt := .t0, toks := T } [c.1, ',', d.1] = .ok { tt := .none, toks := .orlist [c.2, d.2] :: T } := by
  simp only [bondSymbols, List.mem_cons, List.mem_nil_iff, or_false] at hc hd
  rcases hc with rfl | rfl | rfl | rfl | rfl <;> rcases hd with rfl | rfl | rfl | rfl | rfl <;>
    simp [tokLoop, tokStep, bondChars, updownChars, tokClasses, replaceDict, lookupCh, bind, Except.bind]

theorem mid_negated (c : Char × Nat) (hc : c ∈ bondSymbols.take 4) (T : List Tok) :
    tokLoop { tt := .t0, toks := T } ['!', c.1] = .ok { tt := .none, toks := .orlist ([1, 2, 3, 4].filter (· != c.2)) :: T } := by
  simp only [bondSymbols, List.take, List.mem_cons, List.mem_nil_iff, or_false] at hc
  rcases hc with rfl | rfl | rfl | rfl <;>
    simp [tokLoop, tokStep, bondChars, updownChars, tokClasses, notDict, lookupCh, bind, Except.bind]

theorem ring_suffix_bond (o : Nat) (ho : bondOrders.contains o = true) (r : Bool) (T : List Tok) :
    tokLoop { tt := .t1, toks := .bond o :: T } (if r then [';', '@'] else [';', '!', '@']) =
      .ok { tt := .none, toks := .ring { orders := [o], inRing := some r } :: T } := by
  have ho' : o ∈ bondOrders := List.contains_iff_mem.mp ho
  cases r <;>
    simp [tokLoop, tokStep, bondChars, updownChars, tokClasses, mkQBondInt, ho', bind, Except.bind]

theorem ring_suffix_list (l : List Nat) (hl : l.all (fun o => bondOrders.contains o) = true) (r : Bool) (T : List Tok) :
    tokLoop { tt := .none, toks := .orlist l :: T } (if r then [';', '@'] else [';', '!', '@']) =
      .ok { tt := .none, toks := .ring { orders := sortDedup l, inRing := some r } :: T } := by
  have hno : ¬ ∃ x, x ∈ l ∧ ¬ x ∈ bondOrders := by
    rintro ⟨x, hx, hn⟩
    exact hn (List.contains_iff_mem.mp (List.all_eq_true.mp hl x hx))
  cases r <;>
    simp [tokLoop, tokStep, bondChars, updownChars, tokClasses, mkQBondList, hno, bind, Except.bind]

theorem symbols_valid : ∀ c ∈ bondSymbols, bondOrders.contains c.2 = true := by decide

theorem ringText (r : Option Bool) :
    (match r with | none => ([] : List Char) | some true => [';', '@'] | some false => [';', '!', '@']) =
    (match r with | none => [] | some b => if b then [';', '@'] else [';', '!', '@']) := by
  cases r with
  | none => rfl
  | some b => cases b <;> rfl

/-- scanning a documented bond token after an atom pushes exactly the parser's bond token (or nothing for the implicit bond) and
    leaves a state in which the next `[` is accepted -/
theorem mid_token (b : DocBond) (hb : bondWF b) (T : List Tok) :
    ∃ tt, (tt = TT.t0 ∨ tt = TT.t1 ∨ tt = TT.none) ∧
      tokLoop { tt := .t0, toks := T } (printBond b) =
        .ok { tt := tt, toks := (match b.kind with | .implicit => [] | _ => [tokOfPB (pbOf b)]) ++ T } := by
  obtain ⟨kind, ring⟩ := b
  unfold printBond pbOf
  simp only [ringText]
  cases kind with
  | implicit =>
    simp only [bondWF] at hb
    subst hb
    exact ⟨.t0, Or.inl rfl, by simp [tokLoop]⟩
  | single c =>
    simp only [bondWF] at hb
    cases ring with
    | none => exact ⟨.t1, Or.inr (Or.inl rfl), by simpa [tokOfPB] using mid_single c hb T⟩
    | some r =>
      refine ⟨.none, Or.inr (Or.inr rfl), ?_⟩
      rw [tokLoop_append, mid_single c hb T]
      have key := ring_suffix_bond c.2 (symbols_valid c hb) r T
      cases r <;> simpa [tokOfPB] using key
  | pair c d =>
    simp only [bondWF] at hb
    cases ring with
    | none => exact ⟨.none, Or.inr (Or.inr rfl), by simpa [tokOfPB] using mid_pair c d hb.1 hb.2 T⟩
    | some r =>
      refine ⟨.none, Or.inr (Or.inr rfl), ?_⟩
      rw [tokLoop_append, mid_pair c d hb.1 hb.2 T]
      have hv : [c.2, d.2].all (fun o => bondOrders.contains o) = true := by
        simp only [List.all_cons, List.all_nil, Bool.and_true, symbols_valid c hb.1, symbols_valid d hb.2, Bool.and_self]
      have key := ring_suffix_list [c.2, d.2] hv r T
      cases r <;> simpa [tokOfPB] using key
  | negated c =>
    simp only [bondWF] at hb
    cases ring with
    | none => exact ⟨.none, Or.inr (Or.inr rfl), by simpa [tokOfPB] using mid_negated c hb T⟩
    | some r =>
      refine ⟨.none, Or.inr (Or.inr rfl), ?_⟩
      rw [tokLoop_append, mid_negated c hb T]
      have hv : ([1, 2, 3, 4].filter (· != c.2)).all (fun o => bondOrders.contains o) = true := by
        apply List.all_eq_true.mpr
        intro o ho
        have hmem : o ∈ [1, 2, 3, 4] := (List.mem_filter.mp ho).1
        simp only [List.mem_cons, List.mem_nil_iff, or_false] at hmem
        rcases hmem with rfl | rfl | rfl | rfl <;> decide
      have key := ring_suffix_list _ hv r T
      cases r <;> simpa [tokOfPB] using key

/-! ### bracket atoms from any quiet tokenizer state -/

theorem tokLoop_inside' (st : TState) (h5 : st.tt = .t5) :
    ∀ s : List Char, '[' ∉ s → ']' ∉ s → tokLoop st s = .ok { st with chars := s.reverse ++ st.chars }
  | [], _, _ => by simp [tokLoop]
  | x :: xs, h1, h2 => by
    have hx1 : x ≠ '[' := fun e => h1 (e ▸ List.mem_cons_self)
    have hx2 : x ≠ ']' := fun e => h2 (e ▸ List.mem_cons_self)
    have step : tokStep st x = .ok { st with chars := x :: st.chars } := by
      unfold tokStep
      have a1 : (x == '[') = false := by simp [hx1]
      have a2 : (x == ']') = false := by simp [hx2]
      simp [h5, a1, a2]
    unfold tokLoop
    simp only [step, bind, Except.bind]
    rw [tokLoop_inside' { st with chars := x :: st.chars } h5 xs (fun h => h1 (List.mem_cons_of_mem _ h))
          (fun h => h2 (List.mem_cons_of_mem _ h))]
    simp

theorem tok_bracket (st : TState) (htt : st.tt = .t0 ∨ st.tt = .t1 ∨ st.tt = .none) (s : List Char) (hne : s ≠ [])
    (h1 : '[' ∉ s) (h2 : ']' ∉ s) :
    tokLoop st ('[' :: s ++ [']']) = .ok { st with tt := .t0, chars := [], toks := .atom s :: st.toks } := by
  have hopen : tokStep st '[' = .ok { st with tt := .t5, chars := [] } := by
    unfold tokStep
    rcases htt with h | h | h <;> simp [h]
  show tokLoop st ('[' :: (s ++ [']'])) = _
  unfold tokLoop
  simp only [hopen, bind, Except.bind]
  rw [tokLoop_append, tokLoop_inside' { st with tt := .t5, chars := [] } rfl s h1 h2]
  simp only [List.append_nil]
  unfold tokLoop
  have hclose : tokStep { st with tt := .t5, chars := s.reverse } ']' =
      .ok { st with tt := .t0, chars := [], toks := .atom s :: st.toks } := by
    unfold tokStep
    have e : s.reverse.isEmpty = false := by
      cases hs : s.reverse with
      | nil => exact absurd (List.reverse_eq_nil_iff.mp hs) hne
      | cons _ _ => rfl
    simp [e]
  simp only [hclose, bind, Except.bind, tokLoop]

def bondToks (b : DocBond) : List Tok :=
  match b.kind with
  | .implicit => []
  | _ => [tokOfPB (pbOf b)]

theorem tokenize_pair (s1 s2 : List Char) (b : DocBond) (hb : bondWF b) (hne1 : s1 ≠ []) (hne2 : s2 ≠ [])
    (h11 : '[' ∉ s1) (h12 : ']' ∉ s1) (h21 : '[' ∉ s2) (h22 : ']' ∉ s2) :
    tokenizeQ (('[' :: s1 ++ [']']) ++ (printBond b ++ ('[' :: s2 ++ [']']))) = .ok ([.atom s1] ++ bondToks b ++ [.atom s2]) := by
  obtain ⟨tt, htt, hmid⟩ := mid_token b hb [.atom s1]
  unfold tokenizeQ
  have hl : tokLoop {} (('[' :: s1 ++ [']']) ++ (printBond b ++ ('[' :: s2 ++ [']']))) =
      .ok { tt := .t0, toks := .atom s2 :: (bondToks b ++ [.atom s1]) } := by
    rw [tokLoop_append, tok_bracket {} (Or.inr (Or.inr rfl)) s1 hne1 h11 h12]
    simp only
    rw [tokLoop_append]
    have : ({ ({} : TState) with tt := .t0, chars := [], toks := [Tok.atom s1] } : TState) = { tt := .t0, toks := [.atom s1] } := rfl
    rw [this, hmid]
    simp only
    have := tok_bracket { tt := tt, toks := bondToks b ++ [.atom s1] } htt s2 hne2 h21 h22
    simpa [bondToks] using this
  simp only [hl, bind, Except.bind]
  have : (Tok.atom s2 :: (bondToks b ++ [Tok.atom s1])).reverse = [.atom s1] ++ bondToks b ++ [.atom s2] := by
    unfold bondToks
    cases b.kind <;> simp
  simp [this]

/-! ### parser, numbering, construction -/

theorem toQBond_pbOf (b : DocBond) (hb : bondWF b) : toQBond (pbOf b) none = .ok (denoteBond b) := by
  obtain ⟨kind, ring⟩ := b
  have neg : ∀ c : Char × Nat, c ∈ bondSymbols.take 4 →
      sortDedup ([1, 2, 3, 4].filter (· != c.2)) = [1, 2, 3, 4].filter (· != c.2) ∧
      ([1, 2, 3, 4].filter (· != c.2)).any (fun o => !bondOrders.contains o) = false := by
    intro c hc
    simp only [bondSymbols, List.take, List.mem_cons, List.mem_nil_iff, or_false] at hc
    rcases hc with rfl | rfl | rfl | rfl <;> decide
  cases kind with
  | implicit =>
    simp only [bondWF] at hb
    subst hb
    have h1 : (1 : Nat) ∈ bondOrders := by decide
    simp [pbOf, toQBond, mkQBondInt, denoteBond, h1]
  | single c =>
    simp only [bondWF] at hb
    have hv : c.2 ∈ bondOrders := List.contains_iff_mem.mp (symbols_valid c hb)
    cases ring with
    | none => simp [pbOf, toQBond, mkQBondInt, hv, denoteBond]
    | some r => simp [pbOf, toQBond, denoteBond]
  | pair c d =>
    simp only [bondWF] at hb
    have hc : c.2 ∈ bondOrders := List.contains_iff_mem.mp (symbols_valid c hb.1)
    have hd : d.2 ∈ bondOrders := List.contains_iff_mem.mp (symbols_valid d hb.2)
    have hs : sortDedup [c.2, d.2] = insertNat c.2 [d.2] := by
      simp [sortDedup, insertNat_eq, insertSorted]
    cases ring with
    | none => simp [pbOf, toQBond, mkQBondList, hc, hd, denoteBond, hs]
    | some r => simp [pbOf, toQBond, denoteBond, hs]
  | negated c =>
    simp only [bondWF] at hb
    obtain ⟨n1, n2⟩ := neg c hb
    have h1234 : (1 : Nat) ∈ bondOrders ∧ (2 : Nat) ∈ bondOrders ∧ (3 : Nat) ∈ bondOrders ∧ (4 : Nat) ∈ bondOrders := by decide
    cases ring with
    | none => simp [pbOf, toQBond, mkQBondList, n1, denoteBond, h1234.1, h1234.2.1, h1234.2.2.1, h1234.2.2.2]
    | some r => simp [pbOf, toQBond, denoteBond, n1]

/-- **two documented atoms joined by a documented bond token** (atoms without map and mask, so that the numbers are 1 and 2):
    `smarts('[' d1 ']' b '[' d2 ']')` is the two-atom query with the documented atoms and the documented bond -/
theorem smarts_pair (d1 d2 : DocAtom) (b : DocBond) (h1 : DocWF d1 = true) (h2 : DocWF d2 = true) (hb : bondWF b)
    (hm1 : d1.map = none ∧ d1.masked = false) (hm2 : d2.map = none ∧ d2.masked = false) :
    smartsModel (('[' :: printDoc d1 ++ [']']) ++ (printBond b ++ ('[' :: printDoc d2 ++ [']']))) [] =
      .ok ⟨[(1, denote d1), (2, denote d2)], [(2, 1, denoteBond b)]⟩ := by
  have w1 := wfacts_of_DocWF d1 h1
  have w2 := wfacts_of_DocWF d2 h2
  obtain ⟨hs1, hn1⟩ := printDoc_safe d1 w1
  obtain ⟨hs2, hn2⟩ := printDoc_safe d2 w2
  have hq1 := queryParse_printDoc d1 ⟨w1.head, w1.chLo, w1.chHi, fun m hm => (w1.mapOk m hm).1⟩
  have hq2 := queryParse_printDoc d2 ⟨w2.head, w2.chLo, w2.chHi, fun m hm => (w2.mapOk m hm).1⟩
  have hb1 := buildAtom_parsedOf d1 w1 false (fun e => by cases e)
  have hb2 := buildAtom_parsedOf d2 w2 false (fun e => by cases e)
  have e1 : denoteRad d1 false = denote d1 := by unfold denoteRad denote; cases d1.head <;> rfl
  have e2 : denoteRad d2 false = denote d2 := by unfold denoteRad denote; cases d2.head <;> rfl
  rw [e1] at hb1
  rw [e2] at hb2
  have htok := tokenize_pair (printDoc d1) (printDoc d2) b hb hn1 hn2 (fun hm => (hs1 _ hm).1 rfl) (fun hm => (hs1 _ hm).2 rfl)
    (fun hm => (hs2 _ hm).1 rfl) (fun hm => (hs2 _ hm).2 rfl)
  have hmap1 : (parsedOf d1).mapping = none := by rw [parsedOf_mapping]; exact hm1.1
  have hmap2 : (parsedOf d2).mapping = none := by rw [parsedOf_mapping]; exact hm2.1
  have hmk1 : (parsedOf d1).masked = false := by rw [parsedOf_masked]; exact hm1.2
  have hmk2 : (parsedOf d2).masked = false := by rw [parsedOf_masked]; exact hm2.2
  have hqb := toQBond_pbOf b hb
  have hinner : smartsInner (('[' :: printDoc d1 ++ [']']) ++ (printBond b ++ ('[' :: printDoc d2 ++ [']']))) [] =
      .ok ⟨[(1, denote d1), (2, denote d2)], [(2, 1, denoteBond b)]⟩ := by
    unfold smartsInner
    rw [htok]
    simp only []
    -- the bond token (if any) and what the parser keeps of it
    have hparse : ∀ bt : List Tok, bt = bondToks b →
        (match smartsTokens ([Tok.atom (printDoc d1)] ++ bt ++ [Tok.atom (printDoc d2)]) with
         | .error e => Except.error e
         | .ok pt => parseLoop {} pt) =
        .ok { atoms := [parsedOf d2, parsedOf d1], bonds := [(1, 0, pbOf b)], sb := [], prev := .none } ∧
        ∃ pt, smartsTokens ([Tok.atom (printDoc d1)] ++ bt ++ [Tok.atom (printDoc d2)]) = .ok (PTok.atom (parsedOf d1) :: pt) := by
      intro bt hbt
      subst hbt
      obtain ⟨kind, ring⟩ := b
      cases kind with
      | implicit =>
        simp only [bondWF] at hb
        subst hb
        simp [bondToks, smartsTokens, hq1, hq2, bind, Except.bind, parseLoop, parseStep, pbOf]
      | single c =>
        cases ring <;> simp [bondToks, tokOfPB, pbOf, smartsTokens, hq1, hq2, bind, Except.bind, parseLoop, parseStep]
      | pair c d =>
        cases ring <;> simp [bondToks, tokOfPB, pbOf, smartsTokens, hq1, hq2, bind, Except.bind, parseLoop, parseStep]
      | negated c =>
        cases ring <;> simp [bondToks, tokOfPB, pbOf, smartsTokens, hq1, hq2, bind, Except.bind, parseLoop, parseStep]
    obtain ⟨hpl, pt, hst⟩ := hparse (bondToks b) rfl
    rw [hst] at hpl ⊢
    simp only at hpl ⊢
    rw [hpl]
    simp only [bne_self_eq_false, Bool.false_eq_true, if_false, List.reverse_cons, List.reverse_nil, List.nil_append,
               List.singleton_append, List.any_nil, List.foldl_cons, List.foldl_nil, hmap1, hmap2, Option.getD_none, Nat.max_self]
    have hnum : numberAtoms [parsedOf d1, parsedOf d2] (0 + 1) 1 = [1, 2] := by
      simp [numberAtoms, hmap1, hmap2, hmk1, hmk2]
    rw [hnum]
    simp only [buildAtoms, List.contains_nil, hb1, hb2, bind, Except.bind, Bool.false_eq_true, if_false, List.contains_cons,
               List.contains_nil, Bool.or_false]
    simp [buildBonds, buildBondsAux, sbGet, hqb, addBondOk, bind, Except.bind]
  simp only [smartsModel, hinner]

end ChythonModel.Proofs.C08
