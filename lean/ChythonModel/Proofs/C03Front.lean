import ChythonModel.Proofs.C03Parser
import ChythonModel.Model.C03Front
/-!
# C03 — the `smiles()` front end never reaches a non-library exception (helper lemmas)
-/
set_option linter.unusedSimpArgs false
namespace ChythonModel.Proofs.C03
open ChythonModel.Model.C03 ChythonModel.Gen.C03

/-! ## `str.split()` yields non-empty words -/

theorem splitWs_go_nonempty : ∀ (s cur : Str), ∀ w ∈ splitWs.go s cur, w ≠ []
  | [], cur, w, hw => by
    unfold splitWs.go at hw
    split at hw
    · cases hw
    · rename_i hc
      simp only [List.mem_singleton] at hw
      subst hw
      intro h
      simp only [List.reverse_eq_nil_iff] at h
      simp [h] at hc
  | c :: cs, cur, w, hw => by
    unfold splitWs.go at hw
    split at hw
    · split at hw
      · exact splitWs_go_nonempty cs [] w hw
      · rename_i hc
        simp only [List.mem_cons] at hw
        rcases hw with rfl | hw
        · intro h
          simp only [List.reverse_eq_nil_iff] at h
          simp [h] at hc
        · exact splitWs_go_nonempty cs [] w hw
    · exact splitWs_go_nonempty cs (c :: cur) w hw

theorem splitWs_nonempty (s : Str) : ∀ w ∈ splitWs s, w ≠ [] := splitWs_go_nonempty s []

/-! ## one molecule -/

/-- well-formedness of a parsed record: what `create_molecule` relies on -/
structure RecWF (r : MolRec) : Prop where
  pos : 0 < r.atoms.length
  bonds : ∀ b ∈ r.bonds, b.1 < r.atoms.length ∧ b.2.1 < r.atoms.length

theorem readMol_good (s : Str) (hs : s ≠ []) :
    (∃ r, readMol s = .ok r ∧ RecWF r) ∨ (∃ e, readMol s = .error e ∧ e.isCrash = false) := by
  unfold readMol
  rcases smilesTokenize_good s hs with ⟨l, hl, hne, hall⟩ | ⟨e, he, hc⟩
  · rw [hl]
    have := parse_good false l hne hall
    cases hk : parse false l with
    | ok st =>
      rw [hk] at this
      left
      exact ⟨MolRec.ofState st, by simp [hk], ⟨this.1.pos, this.1.bonds⟩⟩
    | error e => rw [hk] at this; right; exact ⟨e, by simp [hk], this⟩
  · rw [he]; right; exact ⟨e, by rfl, hc⟩

theorem setRadical_some : ∀ (as : List AtomTok) (x : Nat), x < as.length →
    ∃ as', setRadical as x = some as' ∧ as'.length = as.length
  | [], x, h => by simp at h
  | a :: tl, 0, _ => ⟨_, rfl, by simp⟩
  | a :: tl, k+1, h => by
    obtain ⟨as', h1, h2⟩ := setRadical_some tl k (by simpa using h)
    exact ⟨a :: as', by simp [setRadical, h1], by simp [h2]⟩

theorem applyRadicalsMol_good : ∀ (rad : List Nat) (as : List AtomTok),
    (∃ as', applyRadicalsMol as rad = .ok as' ∧ as'.length = as.length) ∨
    (∃ e, applyRadicalsMol as rad = .error e ∧ e.isCrash = false)
  | [], as => Or.inl ⟨as, rfl, rfl⟩
  | x :: tl, as => by
    unfold applyRadicalsMol
    split
    · right; exact ⟨_, rfl, rfl⟩
    · rename_i hx
      obtain ⟨as', h1, h2⟩ := setRadical_some as x (by omega)
      rw [h1]
      rcases applyRadicalsMol_good tl as' with ⟨a2, h3, h4⟩ | ⟨e, h3, h4⟩
      · left; exact ⟨a2, h3, by omega⟩
      · right; exact ⟨e, h3, h4⟩

theorem remapLoop_length : ∀ (ms used : List Nat) (next : Nat), (remapLoop ms used next).1.length = ms.length
  | [], _, _ => rfl
  | m :: tl, used, next => by
    unfold remapLoop
    split
    · simp [remapLoop_length tl used (next + 1)]
    · simp [remapLoop_length tl (m :: used) next]

/-! ## structural part of `create_molecule` -/

theorem atomCheck_nocrash (a : AtomTok) (k : String) : atomCheck a ≠ .error (.crash k) := by
  unfold atomCheck
  split
  · simp [valueErr]
  · split
    · simp [valueErr]
    · split <;> simp [valueErr]

theorem buildAtoms_ids : ∀ (ns : List Nat) (as : List AtomTok) (out), ns.length = as.length →
    buildAtoms ns as = .ok out → out.map (·.1) = ns
  | [], [], out, _, h => by simp [buildAtoms] at h; simp [← h]
  | [], _ :: _, _, hl, _ => by simp at hl
  | _ :: _, [], _, hl, _ => by simp at hl
  | n :: ns, a :: as, out, hl, h => by
    unfold buildAtoms at h
    split at h
    · cases h
    · split at h
      · cases h
      · rename_i tl htl
        cases h
        simp [buildAtoms_ids ns as tl (by simpa using hl) htl]

theorem buildAtoms_nocrash : ∀ (ns : List Nat) (as : List AtomTok) (k : String), buildAtoms ns as ≠ .error (.crash k)
  | [], _, k => by simp [buildAtoms]
  | _ :: _, [], k => by simp [buildAtoms]
  | n :: ns, a :: as, k => by
    unfold buildAtoms
    split
    · rename_i e he; intro h; cases h; exact atomCheck_nocrash a k he
    · split
      · rename_i e he; intro h; cases h; exact buildAtoms_nocrash ns as k he
      · simp

theorem adjAdd_keys (adj : List (Nat × List (Nat × Nat))) (n m b : Nat) :
    (adjAdd adj n m b).map (·.1) = adj.map (·.1) := by
  induction adj with
  | nil => rfl
  | cons p tl ih =>
    obtain ⟨a, l⟩ := p
    unfold adjAdd
    split <;> simp [ih]

theorem lookupNat_of_key {β} (k : Nat) (l : List (Nat × β)) (h : k ∈ l.map (·.1)) : ∃ v, lookupNat k l = some v := by
  induction l with
  | nil => simp at h
  | cons p tl ih =>
    obtain ⟨a, b⟩ := p
    unfold lookupNat
    by_cases hk : a = k
    · simp [hk]
    · have : (a == k) = false := by simpa using hk
      simp only [this, Bool.false_eq_true, if_false]
      simp only [List.map_cons, List.mem_cons] at h
      rcases h with h | h
      · exact absurd h.symm hk
      · exact ih h

theorem buildBonds_nocrash (mapping : List Nat) : ∀ (bonds : List (Nat × Nat × Nat)) (adj : List (Nat × List (Nat × Nat))),
    (∀ b ∈ bonds, b.1 < mapping.length ∧ b.2.1 < mapping.length) → adj.map (·.1) = mapping →
    ∀ k, buildBonds mapping bonds adj ≠ .error (.crash k)
  | [], _, _, _, k => by simp [buildBonds]
  | (i, j, b) :: tl, adj, hb, hk, k => by
    obtain ⟨hi, hj⟩ := hb (i, j, b) (by simp)
    unfold buildBonds
    have hi' : mapping[i]? = some mapping[i] := by simp [hi]
    have hj' : mapping[j]? = some mapping[j] := by simp [hj]
    rw [hi', hj']
    dsimp only
    split
    · simp [valueErr]
    · obtain ⟨v1, h1⟩ := lookupNat_of_key mapping[i] adj (by rw [hk]; exact List.getElem_mem hi)
      obtain ⟨v2, h2⟩ := lookupNat_of_key mapping[j] adj (by rw [hk]; exact List.getElem_mem hj)
      rw [h1, h2]
      dsimp only
      split
      · simp [valueErr]
      · split
        · simp [valueErr]
        · exact buildBonds_nocrash mapping tl _ (fun x hx => hb x (by simp [hx]))
            (by rw [adjAdd_keys, adjAdd_keys]; exact hk) k

theorem buildMol_nocrash (r : MolRec) (hm : r.mapping.length = r.atoms.length)
    (hb : ∀ b ∈ r.bonds, b.1 < r.atoms.length ∧ b.2.1 < r.atoms.length) : ∀ k, buildMol r ≠ .error (.crash k) := by
  intro k
  unfold buildMol
  cases ha : buildAtoms r.mapping r.atoms with
  | error e =>
    dsimp only
    intro h; cases h
    exact buildAtoms_nocrash _ _ k ha
  | ok atoms =>
    dsimp only
    have hids := buildAtoms_ids _ _ atoms hm ha
    have := buildBonds_nocrash r.mapping r.bonds (atoms.map fun a => (a.1, []))
      (fun b hb' => by rw [hm]; exact hb b hb') (by rw [List.map_map]; exact hids) k
    cases hbb : buildBonds r.mapping r.bonds (atoms.map fun a => (a.1, [])) with
    | error e => dsimp only; intro h; cases h; exact this hbb
    | ok adj => simp

theorem notCrash_of_isCrash_false {e : Err} (h : e.isCrash = false) (k : String) : e ≠ .crash k := by
  intro he; subst he; cases h

/-- **molecule branch of `smiles()`** -/
theorem smilesMol_nocrash (smi : Str) (rad : List Nat) (hs : smi ≠ []) : ∀ k, smilesMol smi rad ≠ .error (.crash k) := by
  intro k
  unfold smilesMol
  rcases readMol_good smi hs with ⟨r, hr, wf⟩ | ⟨e, he, hc⟩
  · rw [hr]
    dsimp only
    rcases applyRadicalsMol_good rad r.atoms with ⟨as', h1, h2⟩ | ⟨e, h1, h2⟩
    · rw [h1]
      dsimp only
      have hpos : 0 < as'.length := by rw [h2]; exact wf.pos
      have hne : as'.isEmpty = false := by
        cases as' with
        | nil => simp at hpos
        | cons _ _ => rfl
      simp only [mapMolecule, hne, Bool.false_eq_true, if_false]
      have hb := buildMol_nocrash
        { r with atoms := as', mapping := (remapLoop (as'.map mapOr0) [] (maxList (as'.map mapOr0) + 1)).1 }
        (by simp [remapLoop_length]) (by
          intro b hb
          have := wf.bonds b hb
          dsimp only
          rw [h2]; exact this) k
      split
      · rename_i e he
        intro h; cases h; exact hb he
      · simp
    · rw [h1]
      dsimp only
      intro h; cases h; cases h2
  · rw [he]
    dsimp only
    intro h; cases h; cases hc

/-! ## reactions -/

theorem nonEmptyParts_ne (d : Str) : ∀ x ∈ nonEmptyParts d, x ≠ [] := by
  intro x hx
  unfold nonEmptyParts at hx
  split at hx
  · cases hx
  · simp only [List.mem_filter] at hx
    intro h; subst h; simp at hx

theorem readMols_good : ∀ (l : List Str), (∀ x ∈ l, x ≠ []) →
    (∃ rs, readMols l = .ok rs ∧ ∀ r ∈ rs, RecWF r) ∨ (∃ e, readMols l = .error e ∧ e.isCrash = false)
  | [], _ => Or.inl ⟨[], rfl, by simp⟩
  | s :: tl, h => by
    unfold readMols
    rcases readMol_good s (h s (by simp)) with ⟨r, hr, wf⟩ | ⟨e, he, hc⟩
    · rw [hr]
      rcases readMols_good tl (fun x hx => h x (by simp [hx])) with ⟨rs, hrs, hwf⟩ | ⟨e, he, hc⟩
      · rw [hrs]; left
        refine ⟨r :: rs, rfl, ?_⟩
        intro x hx
        simp only [List.mem_cons] at hx
        rcases hx with rfl | hx
        · exact wf
        · exact hwf x hx
      · rw [he]; right; exact ⟨e, rfl, hc⟩
    · rw [he]; right; exact ⟨e, rfl, hc⟩

theorem setRadicalMols_some : ∀ (ms : List MolRec) (x : Nat), x < (ms.map (·.atoms.length)).sum → (∀ r ∈ ms, RecWF r) →
    ∃ ms', setRadicalMols ms x = some ms' ∧ ms'.map (·.atoms.length) = ms.map (·.atoms.length) ∧ ∀ r ∈ ms', RecWF r
  | [], x, h, _ => by simp at h
  | r :: tl, x, h, hwf => by
    unfold setRadicalMols
    split
    · rename_i hx
      obtain ⟨as', h1, h2⟩ := setRadical_some r.atoms x hx
      rw [h1]
      refine ⟨_, rfl, by simp [h2], ?_⟩
      intro y hy
      simp only [List.mem_cons] at hy
      rcases hy with rfl | hy
      · have := hwf r (by simp)
        exact ⟨by dsimp only; rw [h2]; exact this.pos, by dsimp only; rw [h2]; exact this.bonds⟩
      · exact hwf y (by simp [hy])
    · rename_i hx
      obtain ⟨ms', h1, h2, h3⟩ := setRadicalMols_some tl (x - r.atoms.length)
        (by simp only [List.map_cons, List.sum_cons] at h; omega) (fun y hy => hwf y (by simp [hy]))
      rw [h1]
      refine ⟨_, rfl, by simp [h2], ?_⟩
      intro y hy
      simp only [List.mem_cons] at hy
      rcases hy with rfl | hy
      · exact hwf y (by simp)
      · exact h3 y hy

theorem applyRadicalsRxn_good : ∀ (rad : List Nat) (ms : List MolRec), (∀ r ∈ ms, RecWF r) →
    (∃ ms', applyRadicalsRxn ms rad = .ok ms' ∧ ms'.length = ms.length ∧ ∀ r ∈ ms', RecWF r) ∨
    (∃ e, applyRadicalsRxn ms rad = .error e ∧ e.isCrash = false)
  | [], ms, h => Or.inl ⟨ms, rfl, rfl, h⟩
  | x :: tl, ms, h => by
    unfold applyRadicalsRxn
    split
    · right; exact ⟨_, rfl, rfl⟩
    · rename_i hx
      obtain ⟨ms', h1, h2, h3⟩ := setRadicalMols_some ms x (by omega) h
      rw [h1]
      dsimp only
      have hlen : ms'.length = ms.length := by simpa using congrArg List.length h2
      rcases applyRadicalsRxn_good tl ms' h3 with ⟨m2, h4, h5, h6⟩ | ⟨e, h4, h5⟩
      · left; exact ⟨m2, h4, by omega, h6⟩
      · right; exact ⟨e, h4, h5⟩

/-- what `create_molecule` needs from a numbered record -/
structure MapWF (r : MolRec) : Prop where
  map : r.mapping.length = r.atoms.length
  bonds : ∀ b ∈ r.bonds, b.1 < r.atoms.length ∧ b.2.1 < r.atoms.length

theorem splitLens_map {α} : ∀ (lens : List Nat) (l : List α), lens.sum ≤ l.length →
    (splitLens lens l).map List.length = lens
  | [], _, _ => rfl
  | n :: tl, l, h => by
    simp only [List.sum_cons] at h
    unfold splitLens
    simp only [List.map_cons, List.length_take]
    rw [splitLens_map tl (l.drop n) (by simp; omega)]
    congr 1
    omega

theorem assignMaps_wf (ms : List MolRec) (nums : List Nat) (hn : (ms.map (·.atoms.length)).sum ≤ nums.length)
    (hwf : ∀ r ∈ ms, RecWF r) : ∀ r ∈ assignMaps ms nums, MapWF r := by
  intro r hr
  unfold assignMaps at hr
  simp only [List.mem_map] at hr
  obtain ⟨⟨m, piece⟩, hp, rfl⟩ := hr
  have hlens := splitLens_map (ms.map (·.atoms.length)) nums hn
  -- position of the pair in the zip
  obtain ⟨i, hi, hget⟩ := List.getElem_of_mem hp
  have hi1 : i < ms.length := by simp at hi; omega
  have hi2 : i < (splitLens (ms.map (·.atoms.length)) nums).length := by simp at hi; omega
  have hz : (ms.zip (splitLens (ms.map (·.atoms.length)) nums))[i] = (ms[i], (splitLens (ms.map (·.atoms.length)) nums)[i]) := by
    simp
  rw [hz] at hget
  have hm : m = ms[i] := (congrArg Prod.fst hget).symm
  have hpc : piece = (splitLens (ms.map (·.atoms.length)) nums)[i] := (congrArg Prod.snd hget).symm
  have hlen : piece.length = m.atoms.length := by
    have := congrArg (fun l => l[i]?) hlens
    simp only [List.getElem?_map] at this
    rw [List.getElem?_eq_getElem hi2, List.getElem?_eq_getElem hi1] at this
    simp only [Option.map_some, Option.some.injEq] at this
    rw [hpc, hm]; exact this
  have hw := hwf m (by rw [hm]; exact List.getElem_mem hi1)
  exact ⟨hlen, hw.bonds⟩

theorem flat_length (ms : List MolRec) :
    ((ms.map fun m => m.atoms.map mapOr0).flatten).length = (ms.map (·.atoms.length)).sum := by
  induction ms with
  | nil => rfl
  | cons m tl ih => simp [ih]

theorem renum_length (clash : List Nat) : ∀ (l : List Nat) (nx : Nat), (mapReaction.renum clash l nx).length = l.length
  | [], _ => rfl
  | x :: tl, nx => by
    unfold mapReaction.renum
    split <;> simp [renum_length clash tl]

theorem mapReaction_wf (r : RxnRec) (h1 : ∀ x ∈ r.reactants, RecWF x) (h2 : ∀ x ∈ r.reagents, RecWF x)
    (h3 : ∀ x ∈ r.products, RecWF x) :
    (∀ x ∈ (mapReaction r).reactants, MapWF x) ∧ (∀ x ∈ (mapReaction r).reagents, MapWF x) ∧
    (∀ x ∈ (mapReaction r).products, MapWF x) := by
  unfold mapReaction
  dsimp only
  refine ⟨?_, ?_, ?_⟩
  · apply assignMaps_wf _ _ _ h1
    rw [remapLoop_length, flat_length]; exact Nat.le_refl _
  · apply assignMaps_wf _ _ _ h2
    split
    · rw [remapLoop_length, flat_length]; exact Nat.le_refl _
    · rw [renum_length, remapLoop_length, flat_length]; exact Nat.le_refl _
  · apply assignMaps_wf _ _ _ h3
    rw [remapLoop_length, flat_length]; exact Nat.le_refl _

theorem buildMols_nocrash : ∀ (ms : List MolRec), (∀ r ∈ ms, MapWF r) → ∀ k, buildMols ms ≠ .error (.crash k)
  | [], _, k => by simp [buildMols]
  | r :: tl, h, k => by
    unfold buildMols
    have ih := buildMols_nocrash tl (fun x hx => h x (by simp [hx])) k
    cases hk : buildMols tl with
    | error e => dsimp only; intro hh; cases hh; exact ih hk
    | ok rest =>
      dsimp only
      have hw := h r (by simp)
      have hb := buildMol_nocrash r hw.map hw.bonds k
      cases hm : buildMol r with
      | ok m => simp
      | error e =>
        cases e with
        | lib c m => simp
        | crash k' =>
          dsimp only
          intro hh; cases hh
          exact hb hm

theorem buildRoles_nocrash (r : RxnRec) (h1 : ∀ x ∈ r.reactants, MapWF x) (h2 : ∀ x ∈ r.reagents, MapWF x)
    (h3 : ∀ x ∈ r.products, MapWF x) : ∀ k, buildRoles r ≠ .error (.crash k) := by
  intro k
  unfold buildRoles
  split
  · rename_i e he; intro hh; cases hh; exact buildMols_nocrash _ h1 k he
  · split
    · rename_i e he; intro hh; cases hh; exact buildMols_nocrash _ h3 k he
    · split
      · rename_i e he; intro hh; cases hh; exact buildMols_nocrash _ h2 k he
      · simp

theorem mem_take {α} {l : List α} {n : Nat} {x : α} (h : x ∈ l.take n) : x ∈ l := List.mem_of_mem_take h
theorem mem_drop {α} {l : List α} {n : Nat} {x : α} (h : x ∈ l.drop n) : x ∈ l := List.mem_of_mem_drop h

/-- parsing, numbering and building the molecule lists of a reaction never reaches a non-library exception -/
theorem finishRxn_nocrash (R G P : List Str) (rad : List Nat) (hR : ∀ x ∈ R, x ≠ []) (hG : ∀ x ∈ G, x ≠ [])
    (hP : ∀ x ∈ P, x ≠ []) : ∀ k, finishRxn R G P rad ≠ .error (.crash k) := by
  intro k
  unfold finishRxn
  rcases readMols_good R hR with ⟨rr, h1, w1⟩ | ⟨e, he, hc⟩
  · rw [h1]; dsimp only
    rcases readMols_good P hP with ⟨pp, h2, w2⟩ | ⟨e, he, hc⟩
    · rw [h2]; dsimp only
      rcases readMols_good G hG with ⟨gg, h3, w3⟩ | ⟨e, he, hc⟩
      · rw [h3]; dsimp only
        have wall : ∀ r ∈ rr ++ gg ++ pp, RecWF r := by
          intro r hr
          simp only [List.mem_append] at hr
          rcases hr with (hr | hr) | hr
          · exact w1 r hr
          · exact w3 r hr
          · exact w2 r hr
        rcases applyRadicalsRxn_good rad (rr ++ gg ++ pp) wall with ⟨all, h4, _, w4⟩ | ⟨e, he, hc⟩
        · rw [h4]; dsimp only
          obtain ⟨m1, m2, m3⟩ := mapReaction_wf
            { reactants := all.take rr.length, reagents := (all.drop rr.length).take gg.length,
              products := all.drop (rr.length + gg.length) }
            (fun x hx => w4 x (mem_take hx)) (fun x hx => w4 x (mem_drop (mem_take hx)))
            (fun x hx => w4 x (mem_drop hx))
          have hb := buildRoles_nocrash _ m1 m2 m3 k
          split
          · rename_i e he; intro hh; cases hh; exact hb he
          · split <;> simp [valueErr]
        · rw [he]; dsimp only; intro hh; cases hh; cases hc
      · rw [he]; dsimp only; intro hh; cases hh; cases hc
    · rw [he]; dsimp only; intro hh; cases hh; cases hc
  · rw [he]; dsimp only; intro hh; cases hh; cases hc

/-! ## CXSMILES fragment contraction -/

theorem pyIndex_some {α} (l : List α) (i : Int) (h : (0 ≤ i ∧ i.toNat < l.length) ∨ (i < 0 ∧ (-i).toNat ≤ l.length)) :
    ∃ y, pyIndex l i = some y ∧ y ∈ l := by
  unfold pyIndex
  rcases h with ⟨h0, h1⟩ | ⟨h0, h1⟩
  · have : ¬ i < 0 := by omega
    simp only [this, if_false]
    exact ⟨l[i.toNat], by simp [h1], List.getElem_mem h1⟩
  · simp only [h0, if_true, h1]
    have hlt : l.length - (-i).toNat < l.length := by omega
    exact ⟨l[l.length - (-i).toNat], by simp [hlt], List.getElem_mem hlt⟩

theorem allSome_map {α β} (f : α → Option β) (Q : β → Prop) : ∀ (c : List α), (∀ x ∈ c, ∃ y, f x = some y ∧ Q y) →
    ∃ l, allSome (c.map f) = some l ∧ l.length = c.length ∧ ∀ y ∈ l, Q y
  | [], _ => ⟨[], rfl, rfl, by simp⟩
  | x :: tl, h => by
    obtain ⟨y, hy, hq⟩ := h x (by simp)
    obtain ⟨l, hl, hlen, hall⟩ := allSome_map f Q tl (fun z hz => h z (by simp [hz]))
    refine ⟨y :: l, by simp [allSome, hy, hl], by simp [hlen], ?_⟩
    intro z hz
    simp only [List.mem_cons] at hz
    rcases hz with rfl | hz
    · exact hq
    · exact hall z hz

theorem joinWith_ne (sep : Nat) : ∀ (l : List Str), l ≠ [] → (∀ x ∈ l, x ≠ []) → joinWith sep l ≠ []
  | [], h, _ => absurd rfl h
  | [x], _, h => by simpa [joinWith] using h x (by simp)
  | x :: y :: tl, _, h => by
    have := h x (by simp)
    unfold joinWith
    cases x with
    | nil => exact absurd rfl this
    | cons a b => simp

/-- invariant of the contraction loop -/
structure CInv (lr lp molCount : Nat) (st : Contr) : Prop where
  len : st.nm.length = molCount
  rs : ∀ x ∈ st.rs, x < lr
  gs : ∀ x ∈ st.gs, lr ≤ x ∧ x < molCount - lp
  ps : ∀ x ∈ st.ps, molCount - lp ≤ x ∧ x < molCount
  ne : ∀ s, some s ∈ st.nm → s ≠ []

theorem set_some_ne (nm : List (Option Str)) (i : Nat) (s : Str) (hs : s ≠ []) (h : ∀ t, some t ∈ nm → t ≠ []) :
    ∀ t, some t ∈ nm.set i (some s) → t ≠ [] := by
  intro t ht
  rcases List.mem_or_eq_of_mem_set ht with h1 | h1
  · exact h t h1
  · cases h1; exact hs

theorem contractOne_good (R G P : List Str) (hR : ∀ x ∈ R, x ≠ []) (hG : ∀ x ∈ G, x ≠ []) (hP : ∀ x ∈ P, x ≠ [])
    (st : Contr) (c : List Nat) (hc : c ≠ [])
    (h : CInv R.length P.length (R.length + P.length + G.length) st) :
    ∃ st', contractOne R G P (R.length + P.length + G.length) R.length st c = .ok st' ∧
      CInv R.length P.length (R.length + P.length + G.length) st' := by
  obtain ⟨c0, ctl, rfl⟩ : ∃ c0 ctl, c = c0 :: ctl := by
    cases c with
    | nil => exact absurd rfl hc
    | cons a b => exact ⟨a, b, rfl⟩
  -- generic continuation: given the joined string and the updated index sets, `put` succeeds
  have put_ok : ∀ (s : Str) (st2 : Contr), s ≠ [] → c0 < R.length + P.length + G.length →
      CInv R.length P.length (R.length + P.length + G.length) st2 →
      ∃ st', (match (c0 :: ctl).head? with
              | none => (.error (.crash "IndexError") : Except Err Contr)
              | some c0' => match setAt st2.nm c0' (some s) with
                | some nm => .ok { st2 with nm := nm }
                | none => .error (.crash "IndexError")) = .ok st' ∧
        CInv R.length P.length (R.length + P.length + G.length) st' := by
    intro s st2 hs hlt hinv
    simp only [List.head?_cons, setAt, hinv.len, hlt, if_true]
    exact ⟨_, rfl, ⟨by simp [hinv.len], hinv.rs, hinv.gs, hinv.ps, set_some_ne _ _ _ hs hinv.ne⟩⟩
  unfold contractOne
  dsimp only
  by_cases h1 : (c0 :: ctl).all st.rs.contains = true
  · rw [if_pos h1]
    have hmem : ∀ x ∈ c0 :: ctl, x < R.length := by
      intro x hx
      have := List.all_eq_true.mp h1 x hx
      exact h.rs x (by simpa using this)
    obtain ⟨l, hl, hlen, hall⟩ := allSome_map (fun x => R[x]?) (fun y => y ≠ []) (c0 :: ctl) (by
      intro x hx
      have := hmem x hx
      exact ⟨R[x], by simp [this], hR _ (List.getElem_mem this)⟩)
    rw [hl]
    dsimp only
    have hlne : l ≠ [] := by intro hh; rw [hh] at hlen; simp at hlen
    exact put_ok (joinWith 46 l) { st with rs := st.rs.filter (!(c0 :: ctl).contains ·) }
      (joinWith_ne 46 l hlne hall) (by have := hmem c0 (by simp); omega)
      ⟨h.len, fun x hx => h.rs x (List.mem_filter.mp hx).1, h.gs, h.ps, h.ne⟩
  rw [if_neg h1]
  by_cases h2 : (c0 :: ctl).all st.ps.contains = true
  · rw [if_pos h2]
    have hmem : ∀ x ∈ c0 :: ctl, R.length + P.length + G.length - P.length ≤ x ∧ x < R.length + P.length + G.length := by
      intro x hx
      have := List.all_eq_true.mp h2 x hx
      exact h.ps x (by simpa using this)
    obtain ⟨l, hl, hlen, hall⟩ := allSome_map
      (fun (x : Nat) => pyIndex P ((x : Int) - ((R.length + P.length + G.length : Nat) : Int)))
      (fun y => y ≠ []) (c0 :: ctl) (by
        intro x hx
        have := hmem x hx
        obtain ⟨y, hy, hyin⟩ := pyIndex_some P ((x : Int) - ((R.length + P.length + G.length : Nat) : Int))
          (Or.inr ⟨by omega, by omega⟩)
        exact ⟨y, hy, hP y hyin⟩)
    rw [hl]
    dsimp only
    have hlne : l ≠ [] := by intro hh; rw [hh] at hlen; simp at hlen
    exact put_ok (joinWith 46 l) { st with ps := st.ps.filter (!(c0 :: ctl).contains ·) }
      (joinWith_ne 46 l hlne hall) (hmem c0 (by simp)).2
      ⟨h.len, h.rs, h.gs, fun x hx => h.ps x (List.mem_filter.mp hx).1, h.ne⟩
  rw [if_neg h2]
  by_cases h3 : (c0 :: ctl).all st.gs.contains = true
  · rw [if_pos h3]
    have hmem : ∀ x ∈ c0 :: ctl, R.length ≤ x ∧ x < R.length + P.length + G.length - P.length := by
      intro x hx
      have := List.all_eq_true.mp h3 x hx
      exact h.gs x (by simpa using this)
    obtain ⟨l, hl, hlen, hall⟩ := allSome_map
      (fun (x : Nat) => pyIndex G ((x : Int) - (R.length : Int)))
      (fun y => y ≠ []) (c0 :: ctl) (by
        intro x hx
        have := hmem x hx
        obtain ⟨y, hy, hyin⟩ := pyIndex_some G ((x : Int) - (R.length : Int)) (Or.inl ⟨by omega, by omega⟩)
        exact ⟨y, hy, hG y hyin⟩)
    rw [hl]
    dsimp only
    have hlne : l ≠ [] := by intro hh; rw [hh] at hlen; simp at hlen
    exact put_ok (joinWith 46 l) { st with gs := st.gs.filter (!(c0 :: ctl).contains ·) }
      (joinWith_ne 46 l hlne hall) (by have := hmem c0 (by simp); omega)
      ⟨h.len, h.rs, fun x hx => h.gs x (List.mem_filter.mp hx).1, h.ps, h.ne⟩
  rw [if_neg h3]
  exact ⟨st, rfl, h⟩

theorem contractAll_good (R G P : List Str) (hR : ∀ x ∈ R, x ≠ []) (hG : ∀ x ∈ G, x ≠ []) (hP : ∀ x ∈ P, x ≠ []) :
    ∀ (ct : List (List Nat)) (st : Contr), (∀ c ∈ ct, c ≠ []) →
      CInv R.length P.length (R.length + P.length + G.length) st →
      ∃ st', contractAll R G P (R.length + P.length + G.length) R.length st ct = .ok st' ∧
        CInv R.length P.length (R.length + P.length + G.length) st'
  | [], st, _, h => ⟨st, rfl, h⟩
  | c :: tl, st, hct, h => by
    obtain ⟨st1, h1, hinv⟩ := contractOne_good R G P hR hG hP st c (hct c (by simp)) h
    unfold contractAll
    rw [h1]
    exact contractAll_good R G P hR hG hP tl st1 (fun x hx => hct x (by simp [hx])) hinv

theorem fillRest_good (src : List Str) (off : Int) (hsrc : ∀ x ∈ src, x ≠ []) :
    ∀ (xs : List Nat) (nm : List (Option Str)),
      (∀ x ∈ xs, x < nm.length ∧
        ((0 ≤ (x : Int) - off ∧ ((x : Int) - off).toNat < src.length) ∨
         ((x : Int) - off < 0 ∧ (-((x : Int) - off)).toNat ≤ src.length))) →
      (∀ s, some s ∈ nm → s ≠ []) →
      ∃ nm', fillRest src off xs nm = .ok nm' ∧ nm'.length = nm.length ∧ ∀ s, some s ∈ nm' → s ≠ []
  | [], nm, _, hne => ⟨nm, rfl, rfl, hne⟩
  | x :: tl, nm, hx, hne => by
    obtain ⟨hlt, hidx⟩ := hx x (by simp)
    obtain ⟨y, hy, hyin⟩ := pyIndex_some src ((x : Int) - off) hidx
    unfold fillRest
    rw [hy]
    simp only [hlt, if_true]
    obtain ⟨nm', h1, h2, h3⟩ := fillRest_good src off hsrc tl (nm.set x (some y))
      (fun z hz => by simpa using hx z (by simp [hz])) (set_some_ne nm x y (hsrc y hyin) hne)
    exact ⟨nm', h1, by simpa using h2, h3⟩

theorem filterMap_id_ne (l : List (Option Str)) (h : ∀ s, some s ∈ l → s ≠ []) : ∀ x ∈ l.filterMap id, x ≠ [] := by
  intro x hx
  simp only [List.mem_filterMap, id] at hx
  obtain ⟨a, ha, rfl⟩ := hx
  exact h x ha

/-- **fragment contraction never indexes out of range and produces non-empty molecule strings** -/
theorem applyContract_good (R G P : List Str) (hR : ∀ x ∈ R, x ≠ []) (hG : ∀ x ∈ G, x ≠ []) (hP : ∀ x ∈ P, x ≠ [])
    (ct : List (List Nat)) (hct : ∀ c ∈ ct, c ≠ []) :
    ∃ R' G' P', applyContract R G P ct = .ok (R', G', P') ∧ (∀ x ∈ R', x ≠ []) ∧ (∀ x ∈ G', x ≠ []) ∧
      (∀ x ∈ P', x ≠ []) := by
  unfold applyContract
  dsimp only
  have h0 : CInv R.length P.length (R.length + P.length + G.length)
      { rs := List.range R.length,
        gs := (List.range (R.length + P.length + G.length - P.length)).filter (R.length ≤ ·),
        ps := (List.range (R.length + P.length + G.length)).filter (R.length + P.length + G.length - P.length ≤ ·),
        nm := List.replicate (R.length + P.length + G.length) none } := by
    refine ⟨by simp, ?_, ?_, ?_, ?_⟩
    · intro x hx; simpa using hx
    · intro x hx
      simp only [List.mem_filter, List.mem_range, decide_eq_true_eq] at hx
      omega
    · intro x hx
      simp only [List.mem_filter, List.mem_range, decide_eq_true_eq] at hx
      omega
    · intro s hs
      simp [List.mem_replicate] at hs
  obtain ⟨st, h1, hinv⟩ := contractAll_good R G P hR hG hP ct _ hct h0
  rw [h1]
  dsimp only
  obtain ⟨nm1, e1, l1, n1⟩ := fillRest_good R 0 hR st.rs st.nm (by
    intro x hx
    have := hinv.rs x hx
    have hl := hinv.len
    refine ⟨by omega, Or.inl ⟨by omega, by omega⟩⟩) hinv.ne
  rw [e1]
  dsimp only
  obtain ⟨nm2, e2, l2, n2⟩ := fillRest_good P ((R.length + P.length + G.length : Nat) : Int) hP st.ps nm1 (by
    intro x hx
    have := hinv.ps x hx
    have hl := hinv.len
    refine ⟨by omega, Or.inr ⟨by omega, by omega⟩⟩) n1
  rw [e2]
  dsimp only
  obtain ⟨nm3, e3, l3, n3⟩ := fillRest_good G (R.length : Int) hG st.gs nm2 (by
    intro x hx
    have := hinv.gs x hx
    have hl := hinv.len
    refine ⟨by omega, Or.inl ⟨by omega, by omega⟩⟩) n2
  rw [e3]
  dsimp only
  refine ⟨_, _, _, rfl, ?_, ?_, ?_⟩
  · exact filterMap_id_ne _ (fun s hs => n3 s (mem_take hs))
  · exact filterMap_id_ne _ (fun s hs => n3 s (mem_drop (mem_take hs)))
  · exact filterMap_id_ne _ (fun s hs => n3 s (mem_drop hs))

/-! ## the CXSMILES block only produces non-empty fragment groups -/

theorem fragGroup_ne (s : Str) (g : List Nat) (r : Str) (h : fragGroup s = some (g, r)) : g ≠ [] := by
  unfold fragGroup at h
  dsimp only at h
  split at h
  · cases h
  · split at h
    · cases h
    · cases h; simp

theorem moreGroups_ne : ∀ (fuel : Nat) (s : Str), ∀ g ∈ moreGroups fuel s, g ≠ []
  | 0, _, g, hg => by simp [moreGroups] at hg
  | fuel+1, [], g, hg => by simp [moreGroups] at hg
  | fuel+1, c :: cs, g, hg => by
    by_cases hc : c = 44
    · subst hc
      simp only [moreGroups] at hg
      cases hfg : fragGroup cs with
      | none => simp [hfg] at hg
      | some p =>
        obtain ⟨g0, r0⟩ := p
        simp only [hfg, List.mem_cons] at hg
        rcases hg with rfl | hg
        · exact fragGroup_ne _ _ _ hfg
        · exact moreGroups_ne _ _ g hg
    · unfold moreGroups at hg
      split at hg
      · cases hg
      · rename_i heq; simp at heq; exact absurd heq.1 hc
      · cases hg

theorem findFragments_ne : ∀ (s : Str) (gs : List (List Nat)), findFragments s = some gs → ∀ g ∈ gs, g ≠ []
  | [], gs, h => by simp [findFragments] at h
  | c :: cs, gs, h => by
    unfold findFragments at h
    split at h
    · cases h
    · rename_i rest heq
      split at h
      · rename_i g r hfg
        cases h
        intro x hx
        simp only [List.mem_cons] at hx
        rcases hx with rfl | hx
        · exact fragGroup_ne _ _ _ hfg
        · exact moreGroups_ne _ _ x hx
      · cases heq
        exact findFragments_ne _ gs h
    · rename_i rest heq
      cases heq
      exact findFragments_ne _ gs h
termination_by s => s.length

theorem insertAsc_ne (x : Nat) (l : List Nat) : insertAsc x l ≠ [] := by
  cases l with
  | nil => simp [insertAsc]
  | cons y tl => unfold insertAsc; split <;> simp

theorem sortAsc_ne (l : List Nat) (h : l ≠ []) : sortAsc l ≠ [] := by
  cases l with
  | nil => exact absurd rfl h
  | cons x tl => exact insertAsc_ne x _

theorem parseCx_groups_ne (rest : List Str) (ct : List (List Nat)) (h : (parseCx rest).2 = some ct) :
    ∀ c ∈ ct, c ≠ [] := by
  unfold parseCx at h
  split at h
  · split at h
    · dsimp only at h
      split at h
      · rename_i gs hgs
        dsimp only at h
        split at h
        · cases h
        · cases h
          intro c hc
          simp only [List.mem_map] at hc
          obtain ⟨g, hg, rfl⟩ := hc
          exact sortAsc_ne g (findFragments_ne _ gs hgs g hg)
      · cases h
    · cases h
  · cases h

/-- **reaction branch of `smiles()`** -/
theorem smilesRxn_nocrash (smi : Str) (rad : List Nat) (contract : Option (List (List Nat)))
    (hct : ∀ ct, contract = some ct → ∀ c ∈ ct, c ≠ []) : ∀ k, smilesRxn smi rad contract ≠ .error (.crash k) := by
  intro k
  unfold smilesRxn
  split
  · rename_i a b c _
    dsimp only
    cases contract with
    | none =>
      dsimp only
      exact finishRxn_nocrash _ _ _ rad (nonEmptyParts_ne a) (nonEmptyParts_ne b) (nonEmptyParts_ne c) k
    | some ct =>
      dsimp only
      obtain ⟨R', G', P', h1, hR, hG, hP⟩ := applyContract_good (nonEmptyParts a) (nonEmptyParts b) (nonEmptyParts c)
        (nonEmptyParts_ne a) (nonEmptyParts_ne b) (nonEmptyParts_ne c) ct (hct ct rfl)
      rw [h1]
      dsimp only
      exact finishRxn_nocrash R' G' P' rad hR hG hP k
  · simp [valueErr]

/-- **`smiles()` never reaches an exception that is not the library's ValueError family** -/
theorem smiles_nocrash (data : Str) : ∀ k, smiles data ≠ .error (.crash k) := by
  intro k
  unfold smiles
  split
  · simp [valueErr]
  · cases hw : splitWs data with
    | nil => simp [valueErr]
    | cons smi rest =>
      dsimp only
      have hne : smi ≠ [] := splitWs_nonempty data smi (by simp [hw])
      split
      · exact smilesRxn_nocrash smi _ _ (fun ct h => parseCx_groups_ne rest ct h) k
      · exact smilesMol_nocrash smi _ hne k

end ChythonModel.Proofs.C03
