import ChythonModel.Proofs.C02Paren
namespace ChythonModel.Proofs.C02
open ChythonModel.Model ChythonModel.Model.SmilesWriter ChythonModel.Model.C02RT

/-! ## chain bonds: reading the flattened DFS tree gives back its (tail, child) pairs -/

def fsk (l : List FTok) : List SK := l.filterMap FTok.skel
def fpairs (l : List FTok) : List (Nat × Nat) := l.filterMap FTok.bond?

@[simp] theorem fsk_nil : fsk [] = [] := rfl
@[simp] theorem fsk_bond (a b l) : fsk (FTok.bond a b :: l) = fsk l := rfl
@[simp] theorem fsk_atom (n l) : fsk (FTok.atom n :: l) = SK.atom n :: fsk l := rfl
@[simp] theorem fsk_lpar (l) : fsk (FTok.lpar :: l) = SK.lpar :: fsk l := rfl
@[simp] theorem fsk_rpar (l) : fsk (FTok.rpar :: l) = SK.rpar :: fsk l := rfl
@[simp] theorem fsk_append (a b) : fsk (a ++ b) = fsk a ++ fsk b := by simp [fsk]
@[simp] theorem fpairs_nil : fpairs [] = [] := rfl
@[simp] theorem fpairs_bond (a b l) : fpairs (FTok.bond a b :: l) = (a, b) :: fpairs l := rfl
@[simp] theorem fpairs_atom (n l) : fpairs (FTok.atom n :: l) = fpairs l := rfl
@[simp] theorem fpairs_lpar (l) : fpairs (FTok.lpar :: l) = fpairs l := rfl
@[simp] theorem fpairs_rpar (l) : fpairs (FTok.rpar :: l) = fpairs l := rfl
@[simp] theorem fpairs_append (a b) : fpairs (a ++ b) = fpairs a ++ fpairs b := by simp [fpairs]

theorem skRead_flatKids (rec : Nat → List FTok) (recEnd : Nat → Nat)
    (hrec : ∀ c stk rest, skRead (some c) false stk (fsk (rec c) ++ rest) =
      (skRead (some (recEnd c)) false stk rest).map (fpairs (rec c) ++ ·))
    (tail : Nat) (kids : List Nat) : ∀ stk rest,
    skRead (some tail) false stk (fsk (flatKids rec tail kids) ++ rest) =
      (skRead (some (chainEndKids recEnd tail kids)) false stk rest).map (fpairs (flatKids rec tail kids) ++ ·) := by
  induction kids with
  | nil => intro stk rest; simp [flatKids, chainEndKids]
  | cons c tl ih =>
    intro stk rest
    cases tl with
    | nil =>
      have := hrec c stk rest
      simp [flatKids, chainEndKids, skRead, this, Function.comp_def]
    | cons c2 tl2 =>
      have h1 := hrec c (tail :: stk) (SK.rpar :: (fsk (flatKids rec tail (c2 :: tl2)) ++ rest))
      have h2 := ih stk rest
      simp only [flatKids, chainEndKids, fsk_lpar, fsk_bond, fsk_atom, fsk_append, fsk_rpar, fpairs_lpar, fpairs_bond,
        fpairs_atom, fpairs_append, fpairs_rpar, List.cons_append, List.append_assoc, skRead]
      rw [h1]
      simp only [skRead]
      rw [h2]
      simp [Function.comp_def]

theorem skRead_flat (edges : List (Nat × List Nat)) (fuel : Nat) : ∀ tail stk rest,
    skRead (some tail) false stk (fsk (flat edges fuel tail) ++ rest) =
      (skRead (some (chainEnd edges fuel tail)) false stk rest).map (fpairs (flat edges fuel tail) ++ ·) := by
  induction fuel with
  | zero => intro tail stk rest; simp [flat, chainEnd]
  | succ f ih =>
    intro tail stk rest
    simp only [flat, chainEnd]
    exact skRead_flatKids _ _ ih tail _ stk rest

def wsk (l : List WTok) : List SK := l.filterMap WTok.skel
@[simp] theorem wsk_nil : wsk [] = [] := rfl
@[simp] theorem wsk_atom (n a l) : wsk (WTok.atom n a :: l) = SK.atom n :: wsk l := rfl
@[simp] theorem wsk_bond (s l) : wsk (WTok.bond s :: l) = wsk l := rfl
@[simp] theorem wsk_closure (c l) : wsk (WTok.closure c :: l) = wsk l := rfl
@[simp] theorem wsk_lpar (l) : wsk (WTok.lpar :: l) = SK.lpar :: wsk l := rfl
@[simp] theorem wsk_rpar (l) : wsk (WTok.rpar :: l) = SK.rpar :: wsk l := rfl
@[simp] theorem wsk_dot (l) : wsk (WTok.dot :: l) = SK.dot :: wsk l := rfl
@[simp] theorem wsk_append (a b) : wsk (a ++ b) = wsk a ++ wsk b := by simp [wsk]

/-- the skeleton of the emitted tokens is the skeleton of the flattened list -/
theorem emitClosures_skel (m : Mol) (opts : Opts) (sc : SCtx) (casted : List (Nat × Nat)) (n : Nat) :
    ∀ (cl vb : List (Nat × Nat)) cts vb', emitClosures m opts sc casted n cl vb = .ok (cts, vb') →
      wsk cts = [] := by
  intro cl
  induction cl with
  | nil => intro vb cts vb' h; simp [emitClosures] at h; simp [h.1]
  | cons kc tl ih =>
    intro vb cts vb' h
    obtain ⟨k, c⟩ := kc
    simp only [emitClosures] at h
    split at h
    · cases h
    · split at h
      · cases h
      · rename_i bt vb1 hb
        split at h
        · cases h
        · rename_i rest' vb2 hr
          simp only [Except.ok.injEq, Prod.mk.injEq] at h
          rw [← h.1]
          have := ih vb1 rest' vb2 hr
          rcases closureBond_shape hb with hbt | ⟨s, hbt⟩ <;> subst hbt <;> simp [this]

theorem emit_skel (m : Mol) (opts : Opts) (sc : SCtx) (casted : List (Nat × Nat)) (tokens : List (Nat × List (Nat × Nat))) :
    ∀ (smi : List FTok) vb out order vb', emit m opts sc casted tokens smi vb = .ok (out, order, vb') →
      wsk out = fsk smi := by
  intro smi
  induction smi with
  | nil => intro vb out order vb' h; simp [emit] at h; simp [h.1]
  | cons t tl ih =>
    intro vb out order vb' h
    cases t with
    | atom n =>
      simp only [emit] at h
      split at h
      · cases h
      · split at h
        · cases h
        · split at h
          · cases h
          · rename_i cts vb1 hc
            split at h
            · cases h
            · rename_i rest order' vb2 hr
              simp only [Except.ok.injEq, Prod.mk.injEq] at h
              rw [← h.1]
              simp [emitClosures_skel m opts sc casted n _ _ _ _ hc]
              exact ih _ _ _ _ hr
    | bond a b =>
      simp only [emit] at h
      split at h
      · cases h
      · split at h
        · cases h
        · rename_i rest order' vb2 hr
          simp only [Except.ok.injEq, Prod.mk.injEq] at h
          rw [← h.1]
          simp
          exact ih _ _ _ _ hr
    | lpar =>
      simp only [emit] at h
      split at h
      · cases h
      · rename_i rest order' vb2 hr
        simp only [Except.ok.injEq, Prod.mk.injEq] at h
        rw [← h.1]
        simp
        exact ih _ _ _ _ hr
    | rpar =>
      simp only [emit] at h
      split at h
      · cases h
      · rename_i rest order' vb2 hr
        simp only [Except.ok.injEq, Prod.mk.injEq] at h
        rw [← h.1]
        simp
        exact ih _ _ _ _ hr

/-- chain bonds among read edges -/
def chainOf (es : List REdge) : List (Nat × Nat) := (es.filter (fun e => !e.closure)).map fun e => (e.a, e.b)

@[simp] theorem chainOf_nil : chainOf [] = [] := rfl
theorem chainOf_append (a b : List REdge) : chainOf (a ++ b) = chainOf a ++ chainOf b := by simp [chainOf]

theorem rrun_skRead : ∀ (ts : List WTok) (st st' : RState), rrun st ts = .ok st' →
    ∃ new, st'.edges = new.reverse ++ st.edges ∧
      ∀ R, skRead st.prev st.afterDot st.stack (wsk ts ++ R) =
        (skRead st'.prev st'.afterDot st'.stack R).map (chainOf new ++ ·) := by
  intro ts
  induction ts with
  | nil =>
    intro st st' h
    simp only [rrun, Except.ok.injEq] at h
    subst h
    exact ⟨[], by simp, by intro R; simp⟩
  | cons t tl ih =>
    intro st st' h
    simp only [rrun] at h
    split at h
    · cases h
    · rename_i st1 hstep
      obtain ⟨new, hnew, hsk⟩ := ih st1 st' h
      cases t with
      | atom n a =>
        simp only [rstep, Except.ok.injEq] at hstep
        subst hstep
        cases hp : st.prev with
        | none =>
          simp only [hp] at hnew hsk
          refine ⟨new, by simpa using hnew, ?_⟩
          intro R
          have := hsk R
          simp only [wsk_atom, List.cons_append, skRead, hp]
          try simp at this
          rw [this]; simp [Function.comp_def]
        | some p =>
          cases had : st.afterDot with
          | true =>
            simp only [hp, had] at hnew hsk
            refine ⟨new, by simpa using hnew, ?_⟩
            intro R
            have := hsk R
            simp only [wsk_atom, List.cons_append, skRead, hp, had]
            try simp at this
            rw [this]; simp [Function.comp_def]
          | false =>
            simp only [hp, had] at hnew hsk
            refine ⟨{ a := p, b := n, closure := false, s1 := none, s2 := st.pending } :: new, by simp [hnew], ?_⟩
            intro R
            have := hsk R
            simp only [wsk_atom, List.cons_append, skRead, hp, had]
            try simp at this
            rw [this]
            simp [chainOf, Function.comp_def]
      | bond s =>
        simp only [rstep] at hstep
        split at hstep
        · cases hstep
        · simp only [Except.ok.injEq] at hstep
          subst hstep
          exact ⟨new, by simpa using hnew, by intro R; simpa using hsk R⟩
      | closure c =>
        simp only [rstep] at hstep
        split at hstep
        · cases hstep
        · rename_i cur hcur
          split at hstep
          · rename_i a s1 hl
            split at hstep
            · cases hstep
            · simp only [Except.ok.injEq] at hstep
              subst hstep
              refine ⟨{ a := a, b := cur, closure := true, s1 := s1, s2 := st.pending } :: new, by simp [hnew], ?_⟩
              intro R
              have := hsk R
              simp at this
              simp [this, chainOf]
          · simp only [Except.ok.injEq] at hstep
            subst hstep
            exact ⟨new, by simpa using hnew, by intro R; simpa using hsk R⟩
      | lpar =>
        simp only [rstep] at hstep
        split at hstep
        · cases hstep
        · rename_i p hp
          split at hstep
          · cases hstep
          · simp only [Except.ok.injEq] at hstep
            subst hstep
            refine ⟨new, by simpa using hnew, ?_⟩
            intro R
            have := hsk R
            simp at this
            rw [hp] at this
            simp [skRead, hp, this]
      | rpar =>
        simp only [rstep] at hstep
        split at hstep
        · cases hstep
        · rename_i p stk hs
          split at hstep
          · cases hstep
          · simp only [Except.ok.injEq] at hstep
            subst hstep
            refine ⟨new, by simpa using hnew, ?_⟩
            intro R
            have := hsk R
            simp at this
            simp [skRead, hs, this]
      | dot =>
        simp only [rstep, Except.ok.injEq] at hstep
        subst hstep
        refine ⟨new, by simpa using hnew, ?_⟩
        intro R
        have := hsk R
        simp at this
        simp [skRead, this]

/-- the chain bonds among the edges read by `readToks` are what `chainRead` computes -/
theorem readToks_chain (ts : List WTok) (es : List REdge) (h : readToks ts = .ok es) :
    chainRead ts = some (chainOf es) := by
  unfold readToks at h
  split at h
  · cases h
  · rename_i st hrun
    split at h
    · cases h
    · split at h
      · cases h
      · split at h
        · cases h
        · simp only [Except.ok.injEq] at h
          obtain ⟨new, hnew, hsk⟩ := rrun_skRead ts {} st hrun
          have := hsk []
          simp [skRead] at this
          simp only [chainRead]
          have e : wsk ts = ts.filterMap WTok.skel := rfl
          rw [← e, this, ← h, hnew]
          simp

/-- one round as `oneRound` builds it: the emitted tokens of the flattening of some DFS tree -/
def RoundEmitted (m : Mol) (opts : Opts) (r : Round) : Prop :=
  ∃ casted vb order vb' fuel, r.smi = flatten r.edges fuel r.start ∧
    emit m opts r.sc casted r.tokens r.smi vb = .ok (r.out, order, vb')

theorem skRead_first (prev : Option Nat) (ad : Bool) (h : prev = none ∨ ad = true) (n : Nat) (stk : List Nat) (ts : List SK) :
    skRead prev ad stk (SK.atom n :: ts) = skRead (some n) false stk ts := by
  rcases h with rfl | rfl
  · simp [skRead]
  · cases prev <;> simp [skRead]

theorem skRead_rounds (m : Mol) (opts : Opts) : ∀ (rs : List Round), (∀ r ∈ rs, RoundEmitted m opts r) →
    ∀ prev ad, (prev = none ∨ ad = true) →
    skRead prev ad [] (wsk (joinRounds rs)) = some (rs.flatMap fun r => fpairs r.smi) := by
  intro rs
  induction rs with
  | nil => intro _ prev ad _; simp [joinRounds, skRead]
  | cons r tl ih =>
    intro hall prev ad hpa
    obtain ⟨casted, vb, order, vb', fuel, hsmi, hemit⟩ := hall r (by simp)
    have hsk := emit_skel m opts r.sc casted r.tokens r.smi vb r.out order vb' hemit
    cases tl with
    | nil =>
      simp only [joinRounds, hsk, List.flatMap_cons, List.flatMap_nil, List.append_nil]
      rw [hsmi]
      simp only [flatten, fsk_atom, fpairs_atom]
      rw [skRead_first prev ad hpa]
      have := skRead_flat r.edges fuel r.start [] []
      simp only [List.append_nil] at this
      rw [this]; simp [skRead]
    | cons r2 tl2 =>
      have ih' := ih (fun r' hr' => hall r' (by simp [hr'])) (some (chainEnd r.edges fuel r.start)) true (Or.inr rfl)
      simp only [joinRounds, wsk_append, wsk_dot, hsk, List.flatMap_cons]
      rw [hsmi]
      simp only [flatten, fsk_atom, fpairs_atom, List.cons_append]
      rw [skRead_first prev ad hpa, skRead_flat]
      simp only [skRead]
      simp only [List.flatMap_cons] at ih'
      rw [ih']; simp

end ChythonModel.Proofs.C02
