import ChythonModel.Proofs.C16Patcher
/-!
# C16 — helper lemmas: renumbering by `dict(zip(<set>, count(start)))` with `start` above every number in sight is injective
and fresh (`fix_mapping_overlap`, collision remap of `_single_stage`)
-/
namespace ChythonModel.Proofs.C16O
open ChythonModel.Model ChythonModel.Model.C16 ChythonModel.Proofs.C16P

theorem dictSet_append {β} (l : List (Nat × β)) (k : Nat) (v : β) (h : k ∉ l.map (·.1)) : dictSet l k v = l ++ [(k, v)] := by
  induction l with
  | nil => rfl
  | cons p tl ih =>
    obtain ⟨k', v'⟩ := p
    simp only [List.map_cons, List.mem_cons, not_or] at h
    have : (k' == k) = false := by simpa using fun e : k' = k => h.1 e.symm
    simp only [dictSet, this, Bool.false_eq_true, if_false, List.cons_append, ih h.2]

theorem foldl_dictSet_nodup {β} (l acc : List (Nat × β)) (h : (acc.map (·.1) ++ l.map (·.1)).Nodup) :
    l.foldl (fun a p => dictSet a p.1 p.2) acc = acc ++ l := by
  induction l generalizing acc with
  | nil => simp
  | cons p tl ih =>
    simp only [List.foldl_cons]
    have hk : p.1 ∉ acc.map (·.1) := by
      intro hin
      rw [List.nodup_append] at h
      exact h.2.2 p.1 hin p.1 (by simp) rfl
    rw [dictSet_append acc p.1 p.2 hk, ih]
    · simp
    · simpa [List.append_assoc] using h

/-- a dict comprehension over distinct keys keeps the list as it is -/
theorem dictOfList_nodup {β} (l : List (Nat × β)) (h : (l.map (·.1)).Nodup) : dictOfList l = l := by
  simp only [dictOfList]
  simpa using foldl_dictSet_nodup l [] (by simpa using h)

theorem zipCount_keys (l : List Nat) (c : Nat) : (zipCount l c).map (·.1) = l := by
  induction l generalizing c with
  | nil => rfl
  | cons x xs ih => simp [zipCount, ih]

theorem zipCount_lookup_ge (l : List Nat) (c k v : Nat) (h : (zipCount l c).lookup k = some v) : c ≤ v ∧ k ∈ l := by
  induction l generalizing c with
  | nil => simp [zipCount, List.lookup] at h
  | cons x xs ih =>
    simp only [zipCount, List.lookup] at h
    split at h
    · next heq =>
      have : k = x := by simpa using heq
      cases h; exact ⟨Nat.le_refl _, by simp [this]⟩
    · obtain ⟨h1, h2⟩ := ih (c + 1) h
      exact ⟨by omega, List.mem_cons_of_mem _ h2⟩

theorem zipCount_lookup_none (l : List Nat) (c k : Nat) (h : k ∉ l) : (zipCount l c).lookup k = none :=
  (lookup_none_iff_not_mem_keys _ _).2 (by rw [zipCount_keys]; exact h)

theorem zipCount_lookup_some (l : List Nat) (c k : Nat) (h : k ∈ l) : ∃ v, (zipCount l c).lookup k = some v := by
  have : ((zipCount l c).lookup k).isSome := (lookup_isSome_iff_mem_keys _ _).2 (by rw [zipCount_keys]; exact h)
  exact Option.isSome_iff_exists.1 this

theorem zipCount_lookup_inj (l : List Nat) (c k1 k2 v : Nat) (h1 : (zipCount l c).lookup k1 = some v)
    (h2 : (zipCount l c).lookup k2 = some v) : k1 = k2 := by
  induction l generalizing c with
  | nil => simp [zipCount, List.lookup] at h1
  | cons x xs ih =>
    simp only [zipCount, List.lookup] at h1 h2
    split at h1
    · next e1 =>
      split at h2
      · next e2 =>
        have a : k1 = x := by simpa using e1
        have b : k2 = x := by simpa using e2
        rw [a, b]
      · cases h1
        have := (zipCount_lookup_ge xs _ k2 _ h2).1
        omega
    · split at h2
      · cases h2
        have := (zipCount_lookup_ge xs _ k1 _ h1).1
        omega
      · exact ih (c + 1) h1 h2

theorem maxOf_ge (l : List Nat) : ∀ k ∈ l, k ≤ maxOf l := (foldl_max_ge l 0).2

/-- the renumbering function of `remap(dict(zip(order, count(start))))` -/
def renum (order : List Nat) (start : Nat) (k : Nat) : Nat := mgD (zipCount order start) k

theorem renum_out (order : List Nat) (start k : Nat) (h : k ∉ order) : renum order start k = k := by
  simp [renum, mgD, zipCount_lookup_none order start k h]

theorem renum_in (order : List Nat) (start k : Nat) (h : k ∈ order) : start ≤ renum order start k := by
  obtain ⟨v, hv⟩ := zipCount_lookup_some order start k h
  simp only [renum, mgD, hv, Option.getD_some]
  exact (zipCount_lookup_ge order start k v hv).1

theorem renum_inj (order : List Nat) (start : Nat) (ids : List Nat) (hlt : ∀ k ∈ ids, k < start) :
    ∀ k1 ∈ ids, ∀ k2 ∈ ids, renum order start k1 = renum order start k2 → k1 = k2 := by
  intro k1 h1 k2 h2 e
  by_cases a : k1 ∈ order <;> by_cases b : k2 ∈ order
  · obtain ⟨v1, hv1⟩ := zipCount_lookup_some order start k1 a
    obtain ⟨v2, hv2⟩ := zipCount_lookup_some order start k2 b
    simp only [renum, mgD, hv1, hv2, Option.getD_some] at e
    subst e
    exact zipCount_lookup_inj order start k1 k2 v1 hv1 hv2
  · have := renum_in order start k1 a
    rw [e, renum_out order start k2 b] at this
    exact absurd (hlt k2 h2) (by omega)
  · have := renum_in order start k2 b
    rw [← e, renum_out order start k1 a] at this
    exact absurd (hlt k1 h1) (by omega)
  · rwa [renum_out order start k1 a, renum_out order start k2 b] at e

theorem nodup_map_of_inj {f : Nat → Nat} (l : List Nat) (hnd : l.Nodup) (hinj : ∀ a ∈ l, ∀ b ∈ l, f a = f b → a = b) :
    (l.map f).Nodup := by
  induction l with
  | nil => simp
  | cons x xs ih =>
    simp only [List.nodup_cons] at hnd
    simp only [List.map_cons, List.nodup_cons, List.mem_map, not_exists, not_and]
    refine ⟨?_, ih hnd.2 (fun a ha b hb => hinj a (List.mem_cons_of_mem _ ha) b (List.mem_cons_of_mem _ hb))⟩
    intro y hy e
    have := hinj y (List.mem_cons_of_mem _ hy) x (by simp) e
    subst this
    exact hnd.1 hy

/-- the atom numbers after a successful `remap` with the mapping `zip(order, count(start))`, `start` above every number of
the molecule: position-wise `renum`, still pairwise distinct -/
theorem remap_ids {m m' : Mol} {order : List Nat} {start : Nat} (h : remap m (zipCount order start) = .ok m')
    (hnd : m.ids.Nodup) (hord : order.Nodup) (hlt : ∀ k ∈ m.ids, k < start) :
    m'.ids = m.ids.map (renum order start) ∧ m'.ids.Nodup := by
  have hz : dictOfList (zipCount order start) = zipCount order start :=
    dictOfList_nodup _ (by rw [zipCount_keys]; exact hord)
  have hnd' : (m.ids.map (renum order start)).Nodup := nodup_map_of_inj m.ids hnd (renum_inj order start m.ids hlt)
  unfold remap at h
  simp only [hz] at h
  split at h
  · simp at h
  · simp only [Except.ok.injEq] at h
    subst h
    have hk : ((m.atoms.map fun p => (mgD (zipCount order start) p.1, p.2)).map (·.1)) = m.ids.map (renum order start) := by
      simp [Mol.ids, renum, List.map_map, Function.comp]
    have : (dictOfList (m.atoms.map fun p => (mgD (zipCount order start) p.1, p.2))).map (·.1) = m.ids.map (renum order start) := by
      rw [dictOfList_nodup _ (by rw [hk]; exact hnd'), hk]
    exact ⟨this, by simp only [Mol.ids] at this ⊢; rw [this]; exact hnd'⟩


theorem remap_fresh {m m' : Mol} {order : List Nat} {start : Nat} (h : remap m (zipCount order start) = .ok m')
    (hnd : m.ids.Nodup) (hord : order.Nodup) (hlt : ∀ k ∈ m.ids, k < start) (avoid : List Nat)
    (havoid : ∀ k ∈ avoid, k < start) (hinter : ∀ k ∈ m.ids, k ∈ avoid → k ∈ order) :
    (∀ k ∈ m'.ids, k ∉ avoid) ∧ m'.ids.Nodup := by
  obtain ⟨hids, hnd'⟩ := remap_ids h hnd hord hlt
  refine ⟨?_, hnd'⟩
  intro k hk hav
  rw [hids] at hk
  obtain ⟨k0, hk0, rfl⟩ := List.mem_map.1 hk
  by_cases ho : k0 ∈ order
  · have := renum_in order start k0 ho
    have := havoid _ hav
    omega
  · rw [renum_out order start k0 ho] at hav
    exact ho (hinter k0 hk0 hav)

theorem of_not_not_true {b : Bool} (h : ¬ ((!b) = true)) : b = true := by cases b <;> simp_all

theorem guard_perm {order inter : List Nat}
    (h : (order.all inter.contains && inter.all order.contains && decide order.Nodup) = true) :
    order.Nodup ∧ ∀ k, k ∈ inter → k ∈ order := by
  simp only [Bool.and_eq_true, List.all_eq_true, List.contains_iff_mem, decide_eq_true_eq] at h
  exact ⟨h.2, h.1.2⟩

/-- collision remap of `_single_stage`: afterwards no product atom carries a number of an ignored molecule -/
theorem collisionRemap_disjoint {new new' : Mol} {ignored order : List Nat} (h : collisionRemap new ignored order = .ok new')
    (hnd : new.ids.Nodup) : (∀ k ∈ new'.ids, k ∉ ignored) ∧ new'.ids.Nodup := by
  unfold collisionRemap at h
  dsimp only at h
  split at h
  · next hemp =>
    simp only [Except.ok.injEq] at h
    subst h
    refine ⟨?_, hnd⟩
    intro k hk hig
    have : k ∈ new.ids.filter ignored.contains := List.mem_filter.2 ⟨hk, List.contains_iff_mem.2 hig⟩
    rw [List.isEmpty_iff.1 hemp] at this
    simp at this
  · split at h
    · simp at h
    · next hguard =>
      have hguard' : (order.all (new.ids.filter ignored.contains).contains &&
          (new.ids.filter ignored.contains).all order.contains && decide order.Nodup) = true := of_not_not_true hguard
      obtain ⟨hord, hsub⟩ := guard_perm hguard'
      apply remap_fresh h hnd hord
      · intro k hk
        have := maxOf_ge new.ids k hk
        omega
      · intro k hk
        have := maxOf_ge ignored k hk
        omega
      · intro k hk hig
        exact hsub k (List.mem_filter.2 ⟨hk, List.contains_iff_mem.2 hig⟩)

/-- `fix_mapping_overlap`: the returned structures carry pairwise disjoint atom numbers, none of which was already
taken (`checked`), and keep their numbers pairwise distinct -/
theorem fixOverlapLoop_disjoint : ∀ (ss : List Mol) (orders : List (List Nat)) (checked : List Nat) (out : List Mol),
    fixOverlapLoop ss orders checked = .ok out → (∀ s ∈ ss, s.ids.Nodup) →
    out.length = ss.length ∧ (∀ s' ∈ out, s'.ids.Nodup ∧ ∀ k ∈ s'.ids, k ∉ checked) ∧
    out.Pairwise (fun a b => ∀ k ∈ a.ids, k ∉ b.ids) := by
  intro ss
  induction ss with
  | nil =>
    intro orders checked out h _
    simp only [fixOverlapLoop, Except.ok.injEq] at h
    subst h
    simp
  | cons s tl ih =>
    intro orders checked out h hnd
    have hnds := hnd s (by simp)
    have hndtl : ∀ x ∈ tl, x.ids.Nodup := fun x hx => hnd x (List.mem_cons_of_mem _ hx)
    -- common tail argument
    have tailarg : ∀ (s' : Mol) (r : List Mol), s'.ids.Nodup → (∀ k ∈ s'.ids, k ∉ checked) →
        fixOverlapLoop tl orders.tail (checked ++ s'.ids) = .ok r →
        (s' :: r).length = (s :: tl).length ∧ (∀ x ∈ s' :: r, x.ids.Nodup ∧ ∀ k ∈ x.ids, k ∉ checked) ∧
        (s' :: r).Pairwise (fun a b => ∀ k ∈ a.ids, k ∉ b.ids) := by
      intro s' r hs'nd hs'ch hr
      obtain ⟨hlen, hall, hpw⟩ := ih orders.tail (checked ++ s'.ids) r hr hndtl
      refine ⟨by simp [hlen], ?_, ?_⟩
      · intro x hx
        rcases List.mem_cons.1 hx with rfl | hx
        · exact ⟨hs'nd, hs'ch⟩
        · obtain ⟨h1, h2⟩ := hall x hx
          exact ⟨h1, fun k hk hc => h2 k hk (List.mem_append.2 (Or.inl hc))⟩
      · rw [List.pairwise_cons]
        refine ⟨?_, hpw⟩
        intro x hx k hk hkx
        exact (hall x hx).2 k hkx (List.mem_append.2 (Or.inr hk))
    simp only [fixOverlapLoop] at h
    split at h
    · next hemp =>
      split at h
      · simp at h
      · next r hr =>
        simp only [Except.ok.injEq] at h
        subst h
        apply tailarg s r hnds _ hr
        intro k hk hc
        have : k ∈ s.ids.filter checked.contains := List.mem_filter.2 ⟨hk, List.contains_iff_mem.2 hc⟩
        rw [List.isEmpty_iff.1 hemp] at this
        simp at this
    · split at h
      · simp at h
      · next hguard =>
        split at h
        · simp at h
        · next s' hs' =>
          split at h
          · simp at h
          · next r hr =>
            simp only [Except.ok.injEq] at h
            subst h
            have hguard' : ((orders.headD []).all (s.ids.filter checked.contains).contains &&
                (s.ids.filter checked.contains).all (orders.headD []).contains && decide (orders.headD []).Nodup) = true :=
              of_not_not_true hguard
            obtain ⟨hord, hsub⟩ := guard_perm hguard'
            obtain ⟨hfresh, hnd'⟩ := remap_fresh hs' hnds hord
              (by intro k hk; have := maxOf_ge s.ids k hk; omega) checked
              (by intro k hk; have := maxOf_ge checked k hk; omega)
              (by intro k hk hc; exact hsub k (List.mem_filter.2 ⟨hk, List.contains_iff_mem.2 hc⟩))
            exact tailarg s' r hnd' hfresh hr

end ChythonModel.Proofs.C16O
