import ChythonModel.Model.ChiralMorgan
/-!
The fuel given to the `while True` loop of `__differentiation` suffices: every iteration that changes `morgan`
removes at least one atom from `atoms_stereo`.
-/
namespace ChythonModel.Proofs.C01
open ChythonModel.Model ChythonModel.Model.Morgan ChythonModel.Model.Stereo ChythonModel.Model.ChiralMorgan
open List

theorem exMapM_keyOf_fst (w : Weights) :
    ∀ (l : List Nat) (r : List (Nat × Int)), exMapM (keyOf w) l = .ok r → r.map (·.1) = l := by
  intro l
  induction l with
  | nil => intro r h; simp only [exMapM, pure, Except.pure, Except.ok.injEq] at h; subst h; rfl
  | cons a tl ih =>
    intro r h
    simp only [exMapM, bind, Except.bind] at h
    cases hfa : keyOf w a with
    | error e => simp [hfa] at h
    | ok v =>
      have hv : v.1 = a := by
        unfold keyOf at hfa
        cases hm : mget w a with
        | error e => simp [hm] at hfa
        | ok x => simp only [hm, Except.ok.injEq] at hfa; subst hfa; rfl
      simp only [hfa] at h
      cases hr : exMapM (keyOf w) tl with
      | error e => simp [hr] at h
      | ok r' =>
        simp only [hr, pure, Except.pure, Except.ok.injEq] at h
        subst h
        simp [ih r' hr, hv]

/-- members of the groups are members of `S` -/
theorem groupsOf_subset (w : Weights) (S : List Nat) (gs : List (List Nat)) (h : groupsOf w S = .ok gs) :
    ∀ g ∈ gs, ∀ n ∈ g, n ∈ S := by
  unfold groupsOf at h
  cases hk : exMapM (keyOf w) S with
  | error e => simp [hk] at h
  | ok keyed =>
    have hfst := exMapM_keyOf_fst w S keyed hk
    simp only [hk, Except.ok.injEq] at h
    subst h
    intro g hg n hn
    obtain ⟨k, _, rfl⟩ := mem_map.mp hg
    obtain ⟨nv, hnv, rfl⟩ := mem_map.mp hn
    have : nv ∈ keyed := (mem_filter.mp hnv).1
    rw [← hfst]
    exact mem_map.mpr ⟨nv, this, rfl⟩

/-- what one group can do to the pass state -/
theorem processGroup_spec (tetra : List (Nat × List Nat)) (labels : List (Nat × Bool)) (w : Weights)
    (st st' : PassState) (g : List Nat) (h : processGroup tetra labels w st g = .ok st') :
    (st'.update = st.update ∧ (st'.discard = st.discard ∨ st'.discard = st.discard ++ g)) ∨
    (g ≠ [] ∧ st'.discard = st.discard ++ g) := by
  unfold processGroup at h
  split at h
  · simp only [Except.ok.injEq] at h; subst h; exact Or.inl ⟨rfl, Or.inl rfl⟩
  · split at h
    · simp only [Except.ok.injEq] at h; subst h; exact Or.inl ⟨rfl, Or.inl rfl⟩
    · split at h
      · simp at h
      · split at h
        · simp at h
        · split at h
          · split at h
            · simp at h
            · split at h
              · simp at h
              · simp only [Except.ok.injEq] at h
                subst h
                exact Or.inr ⟨by simp, rfl⟩
          · simp only [Except.ok.injEq] at h
            subst h
            exact Or.inl ⟨rfl, Or.inl rfl⟩

/-- invariant of a pass: a non-empty update comes with a discarded atom of `S` -/
def PassInv (S : List Nat) (st : PassState) : Prop := st.update = [] ∨ ∃ n, n ∈ st.discard ∧ n ∈ S

theorem processGroups_inv (tetra : List (Nat × List Nat)) (labels : List (Nat × Bool)) (w : Weights) (S : List Nat) :
    ∀ (gs : List (List Nat)) (st st' : PassState), (∀ g ∈ gs, ∀ n ∈ g, n ∈ S) → PassInv S st →
      processGroups tetra labels w st gs = .ok st' → PassInv S st' := by
  intro gs
  induction gs with
  | nil =>
    intro st st' _ hinv h
    simp only [processGroups, Except.ok.injEq] at h
    subst h; exact hinv
  | cons g tl ih =>
    intro st st' hsub hinv h
    simp only [processGroups] at h
    cases h1 : processGroup tetra labels w st g with
    | error e => simp [h1] at h
    | ok st1 =>
      simp only [h1] at h
      refine ih st1 st' (fun g' hg' => hsub g' (mem_cons_of_mem _ hg')) ?_ h
      rcases processGroup_spec tetra labels w st st1 g h1 with ⟨hu, hd⟩ | ⟨hne, hd⟩
      · rcases hinv with h0 | ⟨n, hn, hnS⟩
        · exact Or.inl (hu ▸ h0)
        · refine Or.inr ⟨n, ?_, hnS⟩
          rcases hd with hd | hd <;> rw [hd]
          · exact hn
          · exact mem_append_left _ hn
      · cases g with
        | nil => exact absurd rfl hne
        | cons g0 gt =>
          refine Or.inr ⟨g0, ?_, hsub _ mem_cons_self g0 mem_cons_self⟩
          rw [hd]; exact mem_append_right _ mem_cons_self

theorem pass_inv (tetra : List (Nat × List Nat)) (labels : List (Nat × Bool)) (w : Weights) (S : List Nat)
    (st : PassState) (h : pass tetra labels w S = .ok st) : PassInv S st := by
  unfold pass at h
  cases hg : groupsOf w S with
  | error e => simp [hg] at h
  | ok gs =>
    simp only [hg] at h
    exact processGroups_inv tetra labels w S gs ⟨[], [], []⟩ st (groupsOf_subset _ _ _ hg) (Or.inl rfl) h

theorem differentiation_fuel (h : TupleHash) (bonds : IntAdj) (tetra : List (Nat × List Nat))
    (labels : List (Nat × Bool)) :
    ∀ (fuel : Nat) (morgan : List (Nat × Nat)) (S : List Nat), S.length < fuel →
      differentiation h bonds tetra labels fuel morgan S ≠ .fuelOut := by
  intro fuel
  induction fuel with
  | zero => intro _ S hlt; omega
  | succ fuel ih =>
    intro morgan S hlt
    simp only [differentiation]
    cases hp : pass tetra labels (toWeights morgan) S with
    | error e => simp
    | ok st =>
      simp only
      split
      · simp
      · rename_i hupd
        cases Morgan.morgan h (applyUpdate (toWeights morgan) st.update) bonds with
        | none => simp
        | some morgan' =>
          simp only
          apply ih
          rcases pass_inv tetra labels (toWeights morgan) S st hp with h0 | ⟨n, hn, hnS⟩
          · simp [h0] at hupd
          · have : (S.filter fun n => !st.discard.contains n).length < S.length := by
              apply length_filter_lt_length_iff_exists.mpr
              exact ⟨n, hnS, by simp [hn]⟩
            omega

theorem chiralMorgan_fuel (h : TupleHash) (single : Nat → Bool) (m : MolView) (labels : List (Nat × Bool)) :
    chiralMorgan h single m labels ≠ .fuelOut := by
  unfold chiralMorgan
  split
  · split <;> simp
  · split
    · simp
    · split
      · simp
      · split
        · simp
        · rename_i tet _
          simp only
          split
          · simp
          · split
            · simp
            · rename_i tetra _
              split
              · simp
              · rename_i heq
                exact absurd heq (differentiation_fuel h (intAdjacency m.bonds) tetra labels _ _ _ (Nat.lt_succ_self _))
              · split <;> simp

/-! ## labels on pairwise inequivalent centres do not change the classes -/

theorem toWeights_lookup (r : List (Nat × Nat)) (n : Nat) :
    (toWeights r).lookup n = (r.lookup n).map (fun v => (v : Int)) := by
  induction r with
  | nil => rfl
  | cons kv tl ih =>
    obtain ⟨k, v⟩ := kv
    simp only [toWeights, map_cons, lookup_cons] at ih ⊢
    cases hk : n == k <;> simp [ih]

theorem exMapM_keyOf_ok (w : Weights) (val : Nat → Int) :
    ∀ (S : List Nat), (∀ n ∈ S, w.lookup n = some (val n)) → exMapM (keyOf w) S = .ok (S.map fun n => (n, val n)) := by
  intro S
  induction S with
  | nil => intro _; rfl
  | cons a tl ih =>
    intro hS
    have ha : keyOf w a = .ok (a, val a) := by
      unfold keyOf mget getKey
      rw [hS a mem_cons_self]
    simp only [exMapM, bind, Except.bind, ha, ih (fun n hn => hS n (mem_cons_of_mem _ hn)), pure, Except.pure, map_cons]

/-- all groups are singletons when the labelled atoms have pairwise different weights -/
theorem groupsOf_singletons (w : Weights) (val : Nat → Int) (S : List Nat)
    (hS : ∀ n ∈ S, w.lookup n = some (val n)) (hd : (S.map val).Nodup) :
    ∃ gs, groupsOf w S = .ok gs ∧ ∀ g ∈ gs, g.length = 1 := by
  unfold groupsOf
  rw [exMapM_keyOf_ok w val S hS]
  refine ⟨_, rfl, ?_⟩
  intro g hg
  obtain ⟨k, hk, rfl⟩ := mem_map.mp hg
  simp only [length_map]
  -- k is one of the values; exactly one element of S has it
  have hk' : k ∈ (S.map fun n => (n, val n)).map (·.2) := by
    have : ∀ l : List Int, ∀ x, x ∈ dedupInts l → x ∈ l := by
      intro l
      induction l with
      | nil => intro x hx; simp [dedupInts] at hx
      | cons a tl ih =>
        intro x hx
        simp only [dedupInts, mem_cons, mem_filter] at hx
        rcases hx with rfl | ⟨hx, _⟩
        · exact mem_cons_self
        · exact mem_cons_of_mem _ (ih x hx)
    exact this _ _ hk
  simp only [map_map, Function.comp_def] at hk'
  clear hk hg
  induction S with
  | nil => simp at hk'
  | cons a tl ih =>
    simp only [map_cons, nodup_cons, mem_map] at hd
    simp only [map_cons, filter_cons]
    by_cases hak : val a = k
    · subst hak
      have : filter (fun nv => nv.2 == val a) (map (fun n => (n, val n)) tl) = [] := by
        simp only [filter_eq_nil_iff, mem_map, beq_iff_eq]
        rintro nv ⟨n, hn, rfl⟩ heq
        exact hd.1 ⟨n, hn, heq⟩
      simp [this]
    · have hne : ((val a) == k) = false := by simp [hak]
      simp only [hne, Bool.false_eq_true, if_false]
      apply ih (fun n hn => hS n (mem_cons_of_mem _ hn)) hd.2
      simp only [map_cons, mem_cons] at hk'
      rcases hk' with h | h
      · exact absurd h.symm hak
      · exact h

theorem processGroup_singleton (tetra : List (Nat × List Nat)) (labels : List (Nat × Bool)) (w : Weights)
    (st : PassState) (g : List Nat) (hg : g.length = 1) : processGroup tetra labels w st g = .ok st := by
  unfold processGroup
  simp [hg]

theorem processGroups_singletons (tetra : List (Nat × List Nat)) (labels : List (Nat × Bool)) (w : Weights) :
    ∀ (gs : List (List Nat)) (st : PassState), (∀ g ∈ gs, g.length = 1) →
      processGroups tetra labels w st gs = .ok st := by
  intro gs
  induction gs with
  | nil => intro st _; rfl
  | cons g tl ih =>
    intro st hg
    simp only [processGroups, processGroup_singleton tetra labels w st g (hg g mem_cons_self)]
    exact ih st (fun g' hg' => hg g' (mem_cons_of_mem _ hg'))

theorem nodup_cast {l : List Nat} (h : l.Nodup) : (l.map fun (v : Nat) => (v : Int)).Nodup := by
  induction l with
  | nil => simp
  | cons a tl ih =>
    simp only [nodup_cons, map_cons, mem_map] at h ⊢
    refine ⟨?_, ih h.2⟩
    rintro ⟨b, hb, hab⟩
    have : b = a := by exact_mod_cast hab
    exact h.1 (this ▸ hb)

theorem chiralMorgan_distinct (h : TupleHash) (single : Nat → Bool) (m : MolView) (labels : List (Nat × Bool))
    (r0 : List (Nat × Nat)) (tet : List Nat) (tetra : List (Nat × List Nat))
    (hb : stereoBondAtoms m.bonds = []) (hl : labels ≠ [])
    (hr : atomsOrder h m = some r0) (ht : tetrahedrons m = .ok tet)
    (hst : stereogenicTetrahedrons single m = .ok tetra)
    (hin : ∀ n ∈ labels.map (·.1), n ∈ tet)
    (val : Nat → Nat) (hval : ∀ n ∈ labels.map (·.1), r0.lookup n = some (val n))
    (hd : ((labels.map (·.1)).map val).Nodup) :
    chiralMorgan h single m labels = .ranks r0 := by
  have hS : (labels.map (·.1)).filter tet.contains = labels.map (·.1) := by
    apply filter_eq_self.mpr
    intro n hn
    simpa using hin n hn
  have hle : labels.isEmpty = false := by cases labels <;> simp_all
  unfold chiralMorgan
  simp only [hle, Bool.false_and, Bool.false_eq_true, if_false, hb, isEmpty_nil, Bool.not_true, hr, ht, hS,
    length_map, bne_self_eq_false, hst]
  -- one pass, nothing to do
  have hw : ∀ n ∈ labels.map (·.1), (toWeights r0).lookup n = some ((val n : Nat) : Int) := by
    intro n hn; rw [toWeights_lookup, hval n hn]; rfl
  have hd' : ((labels.map (·.1)).map fun n => ((val n : Nat) : Int)).Nodup := by
    have h2 := nodup_cast hd
    rw [map_map] at h2
    exact h2
  obtain ⟨gs, hgs, hone⟩ := groupsOf_singletons (toWeights r0) (fun n => ((val n : Nat) : Int)) _ hw hd'
  have hp : pass tetra labels (toWeights r0) (labels.map (·.1)) = .ok ⟨[], [], []⟩ := by
    unfold pass
    rw [hgs]
    exact processGroups_singletons tetra labels (toWeights r0) gs _ hone
  simp only [differentiation, hp, isEmpty_nil, if_true]

end ChythonModel.Proofs.C01
