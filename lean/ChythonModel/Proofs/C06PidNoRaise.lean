import ChythonModel.Proofs.C06PidFilter
/-!
# C06 — the filter stage of the model raises only on an empty candidate sequence

Helpers live in the namespace `NoRaise`.
-/
namespace ChythonModel.Proofs.C06
open ChythonModel.Model.C06

/-- "good ring": what every candidate is (`candidates_are_simple_cycles`) -/
def GoodRing (r : Ring) : Prop := 3 ≤ r.length ∧ r.Nodup

namespace NoRaise

/-! ## `_ring_adjacency` is defined on every ring of at least two atoms -/

def HasKey (d : List (Nat × List Nat)) (k : Nat) : Prop := d.any (·.1 == k) = true

theorem hasKey_iff {d : List (Nat × List Nat)} {k : Nat} : HasKey d k ↔ ∃ p ∈ d, p.1 = k := by
  unfold HasKey
  simp

theorem hasKey_dictSet_self (d : List (Nat × List Nat)) (k : Nat) (v : List Nat) : HasKey (dictSet d k v) k := by
  unfold dictSet
  split
  · next h =>
    obtain ⟨p, hp, hk⟩ := hasKey_iff.1 h
    refine hasKey_iff.2 ⟨(k, v), List.mem_map.2 ⟨p, hp, ?_⟩, rfl⟩
    simp [hk]
  · exact hasKey_iff.2 ⟨(k, v), by simp, rfl⟩

theorem dictAppend_some {d : List (Nat × List Nat)} {k : Nat} (h : HasKey d k) (x : Nat) :
    ∃ d', dictAppend d k x = some d' := by
  unfold HasKey at h
  unfold dictAppend
  rw [if_pos h]
  exact ⟨_, rfl⟩

def adjStep (acc : Option (List (Nat × List Nat))) (nm : Nat × Nat) : Option (List (Nat × List Nat)) :=
  match acc with
  | none => none
  | some d => (dictAppend d nm.1 nm.2).map fun d' => dictSet d' nm.2 [nm.1]

theorem adjFold_some : ∀ (l : List Nat) (a : Nat) (d : List (Nat × List Nat)), HasKey d a →
    ∃ d', ((a :: l).zip l).foldl adjStep (some d) = some d' ∧ HasKey d' ((a :: l).getD l.length 0)
  | [], a, d, h => ⟨d, rfl, by simpa using h⟩
  | b :: l, a, d, h => by
    obtain ⟨d1, h1⟩ := dictAppend_some h b
    have hstep : adjStep (some d) (a, b) = some (dictSet d1 b [a]) := by
      simp only [adjStep, h1, Option.map_some]
    obtain ⟨d', h2, h3⟩ := adjFold_some l b (dictSet d1 b [a]) (hasKey_dictSet_self _ _ _)
    refine ⟨d', ?_, ?_⟩
    · rw [List.zip_cons_cons, List.foldl_cons, hstep]
      exact h2
    · simpa using h3

def adjFinal (r0 last : Nat) (acc : Option (List (Nat × List Nat))) : Option (List (Nat × List Nat)) :=
  match acc with
  | none => none
  | some d => dictAppend d last r0

theorem ringAdjacency_eq (r0 r1 : Nat) (tl : List Nat) :
    ringAdjacency (r0 :: r1 :: tl) = adjFinal r0 ((r0 :: r1 :: tl).getD ((r0 :: r1 :: tl).length - 1) 0)
      (((r0 :: r1 :: tl).zip (r1 :: tl)).foldl adjStep
        (some [(r0, [(r0 :: r1 :: tl).getD ((r0 :: r1 :: tl).length - 1) 0])])) := rfl

theorem ringAdjacency_isSome {r : Ring} (h : 2 ≤ r.length) : (ringAdjacency r).isSome = true := by
  match r, h with
  | r0 :: r1 :: tl, _ =>
    have hk : HasKey [(r0, [(r0 :: r1 :: tl).getD ((r0 :: r1 :: tl).length - 1) 0])] r0 :=
      hasKey_iff.2 ⟨_, List.mem_singleton.2 rfl, rfl⟩
    obtain ⟨d', h1, h2⟩ := adjFold_some (r1 :: tl) r0 _ hk
    obtain ⟨d'', h3⟩ := dictAppend_some h2 r0
    rw [ringAdjacency_eq, h1]
    have e : (r0 :: r1 :: tl).length - 1 = (r1 :: tl).length := by simp
    rw [e]
    unfold adjFinal
    simp only
    rw [h3]
    rfl

/-! ## `_canonic_ring`, `_ring_scissors` -/

theorem canonicRing_isSome_of_two {r : List Nat} (h : 2 ≤ r.length) : (canonicRing r).isSome = true := by
  obtain ⟨m, hm⟩ := minOf_isSome r (by rintro rfl; simp at h)
  unfold canonicRing
  rw [hm]
  simp only
  rw [if_neg (by omega)]
  split
  · split <;> rfl
  · split
    · split <;> rfl
    · split <;> rfl

theorem getD_idxOf {l : List Nat} {n : Nat} (h : n ∈ l) : l.getD (l.idxOf n) 0 = n := by
  induction l with
  | nil => simp at h
  | cons a tl ih =>
    by_cases e : a = n
    · subst e; simp
    · have : n ∈ tl := by
        rcases List.mem_cons.1 h with h | h
        · exact absurd h.symm e
        · exact h
      rw [List.idxOf_cons_ne _ e]
      simpa using ih this

theorem ringScissors_spec {ring : List Nat} {n m : Nat} (hn : n ∈ ring) (hm : m ∈ ring) :
    ∃ x, ringScissors ring n m = some x ∧ x.Perm ring ∧ x.head? = some n := by
  have hg := getD_idxOf hn
  have hlt : ring.idxOf n < ring.length := List.idxOf_lt_length_of_mem hn
  unfold ringScissors
  rw [if_neg (by simp [hn, hm])]
  simp only
  split
  · next h0 =>
    have h0' : ring.idxOf n = 0 := by simpa using h0
    rw [h0'] at hg
    obtain ⟨a, tl, rfl⟩ : ∃ a tl, ring = a :: tl := by
      cases ring with
      | nil => simp at hn
      | cons a tl => exact ⟨a, tl, rfl⟩
    have : a = n := by simpa using hg
    subst this
    split
    · exact ⟨_, rfl, by simp, rfl⟩
    · exact ⟨_, rfl, List.Perm.refl _, rfl⟩
  · split
    · next hl =>
      have hl' : ring.idxOf n = ring.length - 1 := by simpa using hl
      rw [hl'] at hg
      have hne : ring ≠ [] := by rintro rfl; simp at hn
      have hlast : ring = ring.dropLast ++ [n] := by
        have h1 := (List.dropLast_append_getLast hne).symm
        have h2 : ring.getLast hne = n := by
          rw [List.getLast_eq_getElem]
          rw [List.getD_eq_getElem _ _ (by omega)] at hg
          exact hg
        rw [h2] at h1
        exact h1
      split
      · refine ⟨_, rfl, List.reverse_perm _, ?_⟩
        rw [hlast]
        simp
      · refine ⟨_, rfl, ?_, rfl⟩
        conv => rhs; rw [hlast]
        exact (List.perm_append_comm (l₁ := ring.dropLast) (l₂ := [n])).symm
    · have hh : ((ring.take (ring.idxOf n + 1)).reverse).head? = some n := by
        rw [List.head?_reverse, List.getLast?_take]
        simp only [Nat.add_sub_cancel, Nat.add_one_ne_zero, if_false]
        rw [List.getD_eq_getElem?_getD] at hg
        rw [List.getElem?_eq_getElem hlt] at hg ⊢
        simp at hg ⊢
      split
      · refine ⟨_, rfl, ?_, ?_⟩
        · exact ((List.reverse_perm _).append (List.reverse_perm _)).trans
            (by rw [List.take_append_drop])
        · rw [List.head?_append, hh]; rfl
      · refine ⟨_, rfl, ?_, ?_⟩
        · exact List.perm_append_comm.trans (by rw [List.take_append_drop])
        · rw [List.head?_append, List.head?_drop]
          rw [List.getD_eq_getElem?_getD, List.getElem?_eq_getElem hlt] at hg
          rw [List.getElem?_eq_getElem hlt]
          simp at hg ⊢

/-! ## joining two rings -/

theorem commonAtoms_perm (a b : Ring) : (commonAtoms a b).Perm (a.filter fun x => b.contains x) :=
  isort_perm _ _

theorem mem_commonAtoms {a b : Ring} {x : Nat} (h : x ∈ commonAtoms a b) : x ∈ a ∧ x ∈ b := by
  have := (commonAtoms_perm a b).mem_iff.1 h
  simpa using this

theorem joinRings_some {a b : Ring} {n m : Nat} (han : n ∈ a) (ham : m ∈ a) (hbn : n ∈ b) (hbm : m ∈ b)
    (h2 : 2 ≤ a.length) :
    ∃ x y c, ringScissors a n m = some x ∧ ringScissors b m n = some y ∧ joinRings a b n m = some c ∧
      canonicRing (x ++ inner1 y) = some c := by
  obtain ⟨x, hx, hxp, _⟩ := ringScissors_spec han ham
  obtain ⟨y, hy, _, _⟩ := ringScissors_spec hbm hbn
  have hl : 2 ≤ (x ++ inner1 y).length := by
    rw [List.length_append, hxp.length_eq]; omega
  obtain ⟨c, hc⟩ := Option.isSome_iff_exists.1 (canonicRing_isSome_of_two hl)
  refine ⟨x, y, c, hx, hy, ?_, hc⟩
  unfold joinRings
  rw [hx, hy]
  exact hc

/-! ## `_is_condensed_ring` never raises -/

theorem condMerge_ne_none (parent child : Ring) : condMerge parent child ≠ none := by
  unfold condMerge
  simp only
  split
  · split
    · next n m hterm =>
      -- `term = [n, m]`
      generalize hq : (fun n => ((ringNbrs parent n).filter fun x => (commonAtoms parent child).contains x).length == 1)
        = q at hterm
      generalize hcm : commonAtoms parent child = common at hterm
      have hperm : common.Perm (parent.filter fun x => child.contains x) := hcm ▸ commonAtoms_perm parent child
      have hsub : ∀ x ∈ [n, m], x ∈ parent ∧ x ∈ child := by
        intro x hx
        rw [← hterm] at hx
        have := (List.mem_filter.1 hx).1
        exact mem_commonAtoms (hcm ▸ this)
      -- members of `term` survive the filter, the other common atoms do not
      rw [hterm]
      have hkeep : ∀ x ∈ [n, m], x ∉ common.filter (fun x => !([n, m] : List Nat).contains x) := by
        intro x hx hr
        have := (List.mem_filter.1 hr).2
        simp only [Bool.not_eq_true', List.contains_eq_mem, decide_eq_false_iff_not] at this
        exact this hx
      have hdrop : ∀ x ∈ common, x ∉ [n, m] → x ∈ common.filter (fun x => !([n, m] : List Nat).contains x) := by
        intro x hx hnm
        exact List.mem_filter.2 ⟨hx, by simpa using hnm⟩
      generalize common.filter (fun x => !([n, m] : List Nat).contains x) = rest at hkeep hdrop ⊢
      -- the filtered parent still has at least two atoms
      have hlen : 2 ≤ (parent.filter fun x => !rest.contains x).length := by
        have e1 : common.filter (fun x => !rest.contains x) = common.filter q := by
          apply List.filter_congr
          intro x hx
          have hmem : x ∈ [n, m] ↔ q x = true := by
            rw [← hterm, List.mem_filter]
            exact ⟨fun h => h.2, fun h => ⟨hx, h⟩⟩
          by_cases hqx : q x = true
          · have h1 : x ∉ rest := hkeep x (hmem.2 hqx)
            rw [hqx]
            simpa using h1
          · have hnm : x ∉ [n, m] := fun h => hqx (hmem.1 h)
            have hqf : q x = false := by simpa using hqx
            have h1 : x ∈ rest := hdrop x hx hnm
            rw [hqf]
            simpa using h1
        have e2 := (hperm.filter (fun x => !rest.contains x)).length_eq
        rw [e1, hterm] at e2
        have e3 : ((parent.filter fun x => child.contains x).filter fun x => !rest.contains x).length ≤
            (parent.filter fun x => !rest.contains x).length :=
          (List.Sublist.filter _ List.filter_sublist).length_le
        simp only [List.length_cons, List.length_nil] at e2
        omega
      have hin : ∀ (ring : Ring) x, x ∈ [n, m] → x ∈ ring → x ∈ ring.filter fun x => !rest.contains x := by
        intro ring x hx hr
        refine List.mem_filter.2 ⟨hr, ?_⟩
        have := hkeep x hx
        simpa using this
      obtain ⟨_, _, c, _, _, hj, _⟩ := joinRings_some
        (hin parent n (by simp) (hsub n (by simp)).1) (hin parent m (by simp) (hsub m (by simp)).1)
        (hin child n (by simp) (hsub n (by simp)).2) (hin child m (by simp) (hsub m (by simp)).2) hlen
      rw [hj]
      simp
    · simp
  · split
    · next n m hc =>
      have hperm := commonAtoms_perm parent child
      rw [hc] at hperm
      have hsub : ∀ x ∈ [n, m], x ∈ parent ∧ x ∈ child := fun x hx => mem_commonAtoms (hc ▸ hx)
      have hlen : 2 ≤ parent.length := by
        have := hperm.length_eq
        have := List.length_filter_le (fun x => child.contains x) parent
        simp only [List.length_cons, List.length_nil] at *
        omega
      obtain ⟨_, _, c, _, _, hj, _⟩ := joinRings_some (hsub n (by simp)).1 (hsub m (by simp)).1
        (hsub n (by simp)).2 (hsub m (by simp)).2 hlen
      rw [hj]
      simp
    · simp

theorem cond_ne_none (c : Ring) (nb : List (Ring × List Ring)) : ∀ depth : Nat,
    (∀ mc child seen, condDescend c nb depth mc child seen ≠ none) ∧
    (∀ parent children seen, condExplore c nb depth parent children seen ≠ none) := by
  intro depth
  induction depth with
  | zero =>
    have hd : ∀ mc child seen, condDescend c nb 0 mc child seen ≠ none := by
      intro mc child seen
      rw [condDescend.eq_def]
      simp
    refine ⟨hd, ?_⟩
    intro parent children
    induction children with
    | nil => intro seen; rw [condExplore.eq_def]; simp
    | cons child more ih =>
      intro seen
      rw [condExplore.eq_def]
      simp only
      split
      · exact ih seen
      · split
        · next h => exact absurd h (condMerge_ne_none parent child)
        · exact ih seen
        · split
          · simp
          · split
            · next h => exact absurd h (hd _ _ _)
            · simp
            · exact ih seen
  | succ d ihd =>
    have hd : ∀ mc child seen, condDescend c nb (d + 1) mc child seen ≠ none := by
      intro mc child seen
      rw [condDescend.eq_def]
      simp only
      split
      · next hg =>
        have h2 : 2 ≤ mc.length := by
          simp only [Bool.and_eq_true, decide_eq_true_eq] at hg
          omega
        rw [if_pos (ringAdjacency_isSome h2)]
        exact ihd.2 _ _ _
      · simp
    refine ⟨hd, ?_⟩
    intro parent children
    induction children with
    | nil => intro seen; rw [condExplore.eq_def]; simp
    | cons child more ih =>
      intro seen
      rw [condExplore.eq_def]
      simp only
      split
      · exact ih seen
      · split
        · next h => exact absurd h (condMerge_ne_none parent child)
        · exact ih seen
        · split
          · simp
          · split
            · next h => exact absurd h (hd _ _ _)
            · simp
            · exact ih seen

theorem condStarts_ne_none (c : Ring) (nb : List (Ring × List Ring)) (depth : Nat) :
    ∀ l : List (Ring × List Ring), condStarts c nb depth l ≠ none
  | [] => by simp [condStarts]
  | (start, nbrs) :: more => by
    unfold condStarts
    split
    · exact condStarts_ne_none c nb depth more
    · split
      · next h => exact absurd h ((cond_ne_none c nb depth).2 _ _ _)
      · simp
      · exact condStarts_ne_none c nb depth more

/-- `_is_condensed_ring` (model) never raises -/
theorem isCondensedRing_ne_none (c : Ring) (sssr : List Ring) : isCondensedRing c sssr ≠ none := by
  unfold isCondensedRing
  simp only
  split
  · exact condStarts_ne_none _ _ _ _
  · simp

/-! ## `seen_rings[ring][n]` holds only cyclic neighbours of `n` -/

def IdxAdj (i j len : Nat) : Prop := j = i + 1 ∨ i = j + 1 ∨ (i = 0 ∧ j = len - 1) ∨ (i = len - 1 ∧ j = 0)

def RAdj (r : List Nat) (a b : Nat) : Prop := ∃ i j, r[i]? = some a ∧ r[j]? = some b ∧ IdxAdj i j r.length

theorem RAdj.symm {r : List Nat} {a b : Nat} (h : RAdj r a b) : RAdj r b a := by
  obtain ⟨i, j, hi, hj, h⟩ := h
  refine ⟨j, i, hj, hi, ?_⟩
  unfold IdxAdj at h ⊢
  omega

def DictR (R : Nat → Nat → Prop) (d : List (Nat × List Nat)) : Prop := ∀ p ∈ d, ∀ v ∈ p.2, R p.1 v

theorem dictAppend_R {R : Nat → Nat → Prop} {d d' : List (Nat × List Nat)} {k x : Nat} (hd : DictR R d)
    (hx : R k x) (h : dictAppend d k x = some d') : DictR R d' := by
  unfold dictAppend at h
  split at h
  · simp only [Option.some.injEq] at h
    subst h
    intro p hp v hv
    obtain ⟨q, hq, rfl⟩ := List.mem_map.1 hp
    split at hv
    · next hk =>
      have hk' : q.1 = k := by simpa using hk
      rw [if_pos hk]
      rcases List.mem_append.1 hv with hv | hv
      · exact hk' ▸ hd q hq v hv
      · simp only [List.mem_singleton] at hv
        subst hv
        exact hx
    · next hk =>
      rw [if_neg hk]
      exact hd q hq v hv
  · cases h

theorem dictSet_R {R : Nat → Nat → Prop} {d : List (Nat × List Nat)} {k : Nat} {vs : List Nat} (hd : DictR R d)
    (hx : ∀ v ∈ vs, R k v) : DictR R (dictSet d k vs) := by
  unfold dictSet
  split
  · intro p hp v hv
    obtain ⟨q, hq, rfl⟩ := List.mem_map.1 hp
    split at hv
    · next hk => rw [if_pos hk]; exact hx v hv
    · next hk => rw [if_neg hk]; exact hd q hq v hv
  · intro p hp v hv
    rcases List.mem_append.1 hp with hp | hp
    · exact hd p hp v hv
    · simp only [List.mem_singleton] at hp
      subst hp
      exact hx v hv

theorem adjFold_none (ps : List (Nat × Nat)) : ps.foldl adjStep none = none := by
  induction ps with
  | nil => rfl
  | cons p ps ih => rw [List.foldl_cons]; exact ih

theorem adjFold_R {R : Nat → Nat → Prop} : ∀ (ps : List (Nat × Nat)) (d d' : List (Nat × List Nat)), DictR R d →
    (∀ p ∈ ps, R p.1 p.2 ∧ R p.2 p.1) → ps.foldl adjStep (some d) = some d' → DictR R d'
  | [], d, d', hd, _, h => by
    simp only [List.foldl_nil, Option.some.injEq] at h
    exact h ▸ hd
  | p :: ps, d, d', hd, hp, h => by
    rw [List.foldl_cons] at h
    cases h1 : dictAppend d p.1 p.2 with
    | none =>
      have : adjStep (some d) p = none := by simp only [adjStep, h1, Option.map_none]
      rw [this, adjFold_none] at h
      cases h
    | some d1 =>
      have : adjStep (some d) p = some (dictSet d1 p.2 [p.1]) := by simp only [adjStep, h1, Option.map_some]
      rw [this] at h
      have hp0 := hp p List.mem_cons_self
      refine adjFold_R ps _ d' (dictSet_R (dictAppend_R hd hp0.1 h1) ?_)
        (fun q hq => hp q (List.mem_cons_of_mem _ hq)) h
      intro v hv
      simp only [List.mem_singleton] at hv
      subst hv
      exact hp0.2

theorem lookup_mem' {d : List (Nat × List Nat)} {k : Nat} {v : List Nat} (h : d.lookup k = some v) : (k, v) ∈ d := by
  induction d with
  | nil => simp at h
  | cons hd tl ih =>
    obtain ⟨k', v'⟩ := hd
    rw [List.lookup_cons] at h
    split at h
    · next hk =>
      have : k = k' := by simpa using hk
      subst this
      simp only [Option.some.injEq] at h
      subst h
      exact List.mem_cons_self
    · exact List.mem_cons_of_mem _ (ih h)

theorem ringNbrs_adj {r : Ring} {n m : Nat} (h : m ∈ ringNbrs r n) : RAdj r n m := by
  unfold ringNbrs at h
  match r with
  | [] => simp [ringAdjacency] at h
  | [_] => simp [ringAdjacency] at h
  | r0 :: r1 :: tl =>
    cases hd : ringAdjacency (r0 :: r1 :: tl) with
    | none => rw [hd] at h; simp at h
    | some d =>
      rw [hd] at h
      simp only [Option.getD_some] at h
      cases hl : d.lookup n with
      | none => rw [hl] at h; simp at h
      | some vs =>
        rw [hl] at h
        simp only [Option.getD_some] at h
        have hmem := lookup_mem' hl
        rw [ringAdjacency_eq] at hd
        have hlen : (r0 :: r1 :: tl).length - 1 = tl.length + 1 := by simp
        have hlast : (r0 :: r1 :: tl)[tl.length + 1]? = some ((r0 :: r1 :: tl).getD ((r0 :: r1 :: tl).length - 1) 0) := by
          rw [hlen, List.getD_eq_getElem?_getD]
          rw [List.getElem?_eq_getElem (by simp)]
          rfl
        generalize (r0 :: r1 :: tl).getD ((r0 :: r1 :: tl).length - 1) 0 = last at hd hlast
        have h0l : RAdj (r0 :: r1 :: tl) r0 last := ⟨0, tl.length + 1, rfl, hlast, Or.inr (Or.inr (Or.inl ⟨rfl, by simp⟩))⟩
        cases hf : ((r0 :: r1 :: tl).zip (r1 :: tl)).foldl adjStep (some [(r0, [last])]) with
        | none => rw [hf] at hd; simp [adjFinal] at hd
        | some d1 =>
          rw [hf] at hd
          simp only [adjFinal] at hd
          have hd1 : DictR (RAdj (r0 :: r1 :: tl)) d1 := by
            refine adjFold_R _ _ _ ?_ ?_ hf
            · intro p hp v hv
              simp only [List.mem_singleton] at hp
              subst hp
              simp only [List.mem_singleton] at hv
              subst hv
              exact h0l
            · intro p hp
              obtain ⟨i, hi⟩ := List.mem_iff_getElem?.1 hp
              obtain ⟨h1, h2⟩ := List.getElem?_zip_eq_some.1 hi
              have h2' : (r0 :: r1 :: tl)[i + 1]? = some p.2 := by simpa using h2
              have : RAdj (r0 :: r1 :: tl) p.1 p.2 := ⟨i, i + 1, h1, h2', Or.inl rfl⟩
              exact ⟨this, this.symm⟩
          exact dictAppend_R hd1 h0l.symm hd (n, vs) hmem m h

/-- for a cyclic neighbour `b` of `a`, `_ring_scissors(ring, a, b)` ends at `b` -/
theorem scissors_last {r : List Nat} {a b : Nat} {y : List Nat} (hnd : r.Nodup) (hadj : RAdj r a b)
    (h : ringScissors r a b = some y) : y.getLast? = some b := by
  obtain ⟨i, j, hi, hj, hij⟩ := hadj
  have hil : i < r.length := (List.getElem?_eq_some_iff.1 hi).1
  have hjl : j < r.length := (List.getElem?_eq_some_iff.1 hj).1
  have ha : a ∈ r := List.mem_iff_getElem?.2 ⟨i, hi⟩
  have hb : b ∈ r := List.mem_iff_getElem?.2 ⟨j, hj⟩
  have hia : r.idxOf a = i := by
    have := hnd.idxOf_getElem i hil
    rw [(List.getElem?_eq_some_iff.1 hi).2] at this
    exact this
  have hjb : r.idxOf b = j := by
    have := hnd.idxOf_getElem j hjl
    rw [(List.getElem?_eq_some_iff.1 hj).2] at this
    exact this
  unfold ringScissors at h
  rw [if_neg (by simp [ha, hb])] at h
  simp only [hia, hjb] at h
  unfold IdxAdj at hij
  split at h
  · next h0 =>
    have h0' : i = 0 := by simpa using h0
    split at h
    · next h1 =>
      have h1' : j = 1 := by simpa using h1
      simp only [Option.some.injEq] at h
      subst h
      rw [List.getLast?_cons, List.getLast?_reverse, List.head?_drop, ← h1', hj]
      rfl
    · next h1 =>
      have h1' : ¬ j = 1 := by simpa using h1
      simp only [Option.some.injEq] at h
      subst h
      rw [List.getLast?_eq_getElem?]
      have : r.length - 1 = j := by omega
      rw [this, hj]
  · next h0 =>
    have h0' : ¬ i = 0 := by simpa using h0
    split at h
    · next hl =>
      have hl' : i = r.length - 1 := by simpa using hl
      split at h
      · next hj0 =>
        have hj0' : j = 0 := by simpa using hj0
        simp only [Option.some.injEq] at h
        subst h
        rw [List.getLast?_reverse, List.head?_eq_getElem?, ← hj0', hj]
      · next hj0 =>
        have hj0' : ¬ j = 0 := by simpa using hj0
        simp only [Option.some.injEq] at h
        subst h
        rw [List.getLast?_cons, List.getLast?_dropLast, if_neg (by omega)]
        have : r.length - 2 = j := by omega
        rw [this, hj]
        rfl
    · next hl =>
      have hl' : ¬ i = r.length - 1 := by simpa using hl
      split at h
      · next hlt =>
        simp only [Option.some.injEq] at h
        subst h
        rw [List.getLast?_append, List.getLast?_reverse, List.head?_drop]
        have : i + 1 = j := by omega
        rw [this, hj]
        rfl
      · next hlt =>
        simp only [Option.some.injEq] at h
        subst h
        rw [List.getLast?_append, List.getLast?_take, if_neg h0']
        have : i - 1 = j := by omega
        rw [this, hj]
        rfl

/-! ## merging two good rings gives a good ring -/

theorem good_of_perm {a b : Ring} (h : a.Perm b) (hb : GoodRing b) : GoodRing a :=
  ⟨h.length_eq ▸ hb.1, h.nodup_iff.2 hb.2⟩

theorem mergedOf_canonic_good {l : List Nat} (h : GoodRing l) :
    ∃ x, mergedOf (canonicRing l) = .merged x ∧ GoodRing x := by
  obtain ⟨c, hc, hd, _⟩ := canonic_ring_spec_proof l h.1 h.2
  have hg : GoodRing c := good_of_perm hd.perm h
  refine ⟨c, ?_, hg⟩
  rw [hc]
  unfold mergedOf
  simp only
  rw [if_pos (ringAdjacency_isSome (by have := hg.1; omega))]

theorem mem_commonAtoms_iff {a b : Ring} {x : Nat} : x ∈ commonAtoms a b ↔ x ∈ a ∧ x ∈ b := by
  rw [(commonAtoms_perm a b).mem_iff]
  simp

theorem commonAtoms_nodup {a b : Ring} (h : a.Nodup) : (commonAtoms a b).Nodup :=
  (commonAtoms_perm a b).nodup_iff.2 (h.filter _)

theorem commonAtoms_length_le_left (a b : Ring) : (commonAtoms a b).length ≤ a.length := by
  rw [(commonAtoms_perm a b).length_eq]
  exact List.length_filter_le _ _

theorem commonAtoms_length_le_right {a b : Ring} (h : a.Nodup) : (commonAtoms a b).length ≤ b.length :=
  nodup_length_le (commonAtoms_nodup h) fun _ hx => (mem_commonAtoms_iff.1 hx).2

theorem inner1_mid (x h : Nat) (mid : List Nat) : inner1 (x :: mid ++ [h]) = mid := by
  simp [inner1]

theorem inner1_mid_reverse (x h : Nat) (mid : List Nat) : inner1 (x :: mid ++ [h]).reverse = mid.reverse := by
  simp [inner1]

theorem join_good {c r : Ring} {n m : Nat} (hc : GoodRing c) (hr : GoodRing r) (hcm : commonAtoms r c = [n, m])
    (hadj : m ∈ ringNbrs r n) : ∃ x, mergedOf (joinRings c r n m) = .merged x ∧ GoodRing x := by
  have hmem : ∀ a, a ∈ [n, m] ↔ a ∈ r ∧ a ∈ c := fun a => hcm ▸ mem_commonAtoms_iff
  have hn := (hmem n).1 (by simp)
  have hm := (hmem m).1 (by simp)
  have hnm : n ≠ m := by
    have := commonAtoms_nodup (b := c) hr.2
    rw [hcm] at this
    simpa using this
  obtain ⟨x, hx, hxp, _⟩ := ringScissors_spec hn.2 hm.2
  obtain ⟨y, hy, hyp, hyh⟩ := ringScissors_spec hm.1 hn.1
  have hyl := scissors_last hr.2 (ringNbrs_adj hadj).symm hy
  have hynd : y.Nodup := hyp.nodup_iff.2 hr.2
  obtain ⟨y', rfl⟩ := List.head?_eq_some_iff.1 hyh
  obtain ⟨z, hz⟩ := List.getLast?_eq_some_iff.1 hyl
  -- `y = m :: mid ++ [n]`
  obtain ⟨mid, rfl⟩ : ∃ mid, y' = mid ++ [n] := by
    cases z with
    | nil =>
      simp only [List.nil_append, List.cons.injEq] at hz
      exact absurd hz.1.symm hnm
    | cons z0 z' =>
      simp only [List.cons_append, List.cons.injEq] at hz
      exact ⟨z', hz.2⟩
  have hin : inner1 (m :: (mid ++ [n])) = mid := inner1_mid m n mid
  have hgood : GoodRing (x ++ mid) := by
    refine ⟨by rw [List.length_append, hxp.length_eq]; have := hc.1; omega, ?_⟩
    have hmidnd : mid.Nodup := by
      have := (List.nodup_cons.1 hynd).2
      exact (List.nodup_append.1 this).1
    refine List.Nodup.append (hxp.nodup_iff.2 hc.2) hmidnd ?_
    intro a hax hamid
    have hac : a ∈ c := hxp.mem_iff.1 hax
    have har : a ∈ r := hyp.mem_iff.1 (by simp [hamid])
    have := (hmem a).2 ⟨har, hac⟩
    simp only [List.mem_cons, List.not_mem_nil, or_false] at this
    rcases this with rfl | rfl
    · -- `n` is the last atom of `y`
      have h1 := (List.nodup_cons.1 hynd).2
      have h2 := List.nodup_append.1 h1
      exact h2.2.2 a hamid a (by simp) rfl
    · exact (List.nodup_cons.1 hynd).1 (by simp [hamid])
  obtain ⟨w, hw, hwg⟩ := mergedOf_canonic_good hgood
  refine ⟨w, ?_, hwg⟩
  unfold joinRings
  rw [hx, hy]
  simp only
  rw [hin]
  exact hw

theorem rotateLeft_perm (l : List Nat) (k : Nat) : (l.rotateLeft k).Perm l := by
  unfold List.rotateLeft
  by_cases h : l.length ≤ 1
  · simp only [h, if_true]
    exact List.Perm.refl _
  · simp only [h, if_false]
    exact List.perm_append_comm.trans (by rw [List.take_append_drop])

theorem setEq_sub {a b : List Nat} (h : setEq a b = true) : ∀ x ∈ a, x ∈ b := by
  unfold setEq at h
  simp only [Bool.and_eq_true, List.all_eq_true, List.contains_eq_mem, decide_eq_true_eq] at h
  exact h.1

/-- a non-empty chord: `x :: mid ++ [h]`, without repetition, inside the ring, `mid` free of common atoms -/
theorem uniqueChord_spec {ring common cc : List Nat} (hnd : ring.Nodup) (hlc : common.length ≤ ring.length)
    (h2 : 2 < common.length) (h : uniqueChord ring common = some cc) (hne : cc ≠ []) :
    ∃ x mid h', cc = x :: mid ++ [h'] ∧ mid ≠ [] ∧ cc.Nodup ∧ (∀ a ∈ cc, a ∈ ring) ∧ (∀ a ∈ mid, a ∉ common) := by
  unfold uniqueChord at h
  simp only at h
  split at h
  · split at h
    · simp only [Option.some.injEq] at h
      exact absurd h.symm hne
    · cases h
  · next hlen =>
    have hlen' : ¬ ring.length = common.length := by simpa using hlen
    obtain ⟨k, _, hk⟩ := List.exists_of_findSome?_eq_some h
    have hperm := rotateLeft_perm ring k
    generalize ring.rotateLeft k = rot at hk hperm
    have hrl : rot.length = ring.length := hperm.length_eq
    have hrnd : rot.Nodup := hperm.nodup_iff.2 hnd
    split at hk
    · cases hk
    · next h' t =>
      split at hk
      · next hse =>
        simp only [Option.some.injEq] at hk
        have hd1 : (h' :: t).drop (common.length - 1) =
            (h' :: t)[common.length - 1]'(by omega) :: (h' :: t).drop common.length := by
          have := List.drop_eq_getElem_cons (l := h' :: t) (i := common.length - 1) (by omega)
          rw [this]
          congr 2
          omega
        have hmidne : (h' :: t).drop common.length ≠ [] := by
          intro e
          have := congrArg List.length e
          simp only [List.length_drop, List.length_nil] at this
          omega
        have hdropsub : ∀ a ∈ (h' :: t).drop (common.length - 1), a ∈ t := by
          intro a ha
          have e : common.length - 1 = (common.length - 2) + 1 := by omega
          rw [e, List.drop_succ_cons] at ha
          exact List.mem_of_mem_drop ha
        have hh't : h' ∉ t := (List.nodup_cons.1 hrnd).1
        refine ⟨(h' :: t)[common.length - 1]'(by omega), (h' :: t).drop common.length, h', ?_, hmidne, ?_, ?_, ?_⟩
        · rw [← hk, hd1]
        · rw [← hk]
          refine List.Nodup.append (hrnd.sublist (List.drop_sublist _ _)) (List.nodup_singleton _) ?_
          intro a ha hb
          simp only [List.mem_singleton] at hb
          subst hb
          exact hh't (hdropsub a ha)
        · intro a ha
          rw [← hk] at ha
          apply hperm.mem_iff.1
          rcases List.mem_append.1 ha with ha | ha
          · exact List.mem_of_mem_drop ha
          · simp only [List.mem_singleton] at ha
            subst ha
            exact List.mem_cons_self
        · intro a ha hac
          have h1 := setEq_sub hse a hac
          have h3 : ((h' :: t).take common.length ++ (h' :: t).drop common.length).Nodup := by
            rw [List.take_append_drop]; exact hrnd
          exact (List.nodup_append.1 h3).2.2 a h1 a ha rfl
      · cases hk

theorem chord_length {x h' : Nat} {mid : List Nat} (hm : mid ≠ []) : 3 ≤ (x :: mid ++ [h']).length := by
  cases mid with
  | nil => exact absurd rfl hm
  | cons a tl => simp

theorem mergeOf_good {c r : Ring} (hc : GoodRing c) (hr : GoodRing r) :
    mergeOf c r = .no ∨ ∃ x, mergeOf c r = .merged x ∧ GoodRing x := by
  unfold mergeOf
  simp only
  split
  · split
    · next n m hcm =>
      split
      · next hg =>
        simp only [Bool.and_eq_true, List.contains_eq_mem, decide_eq_true_eq] at hg
        exact Or.inr (join_good hc hr hcm hg.2)
      · exact Or.inl rfl
    · exact Or.inl rfl
  · split
    · next _ h2 =>
      have h2' : 2 < (commonAtoms r c).length := h2
      have hmem : ∀ a, a ∈ r → a ∈ c → a ∈ commonAtoms r c := fun a h1 h2 => mem_commonAtoms_iff.2 ⟨h1, h2⟩
      split
      · exact Or.inl rfl
      · next cc hcc =>
        split
        · exact Or.inl rfl
        · next rr hrr =>
          have specC := fun hne => uniqueChord_spec hc.2 (commonAtoms_length_le_right hr.2) h2' hcc hne
          have specR := fun hne => uniqueChord_spec hr.2 (commonAtoms_length_le_left r c) h2' hrr hne
          split
          · next hce =>
            have hcne : cc ≠ [] := by
              intro e; subst e; simp at hce
            obtain ⟨x, mid, h', rfl, hmid, hccnd, hccsub, _⟩ := specC hcne
            split
            · next hre =>
              have hrne : rr ≠ [] := by
                intro e; subst e; simp at hre
              obtain ⟨x2, mid2, h2'', rfl, _, hrrnd, hrrsub, hmid2⟩ := specR hrne
              have hmid2nd : mid2.Nodup := by
                have := (List.nodup_cons.1 hrrnd).2
                exact (List.nodup_append.1 this).1
              have hdisj : ∀ a, a ∈ x :: mid ++ [h'] → a ∈ mid2 → False := by
                intro a ha hb
                exact hmid2 a hb (hmem a (hrrsub a (by simp [hb])) (hccsub a ha))
              have hgood : ∀ l, (∀ a ∈ l, a ∈ mid2) → l.Nodup → GoodRing ((x :: mid ++ [h']) ++ l) := by
                intro l hl hlnd
                refine ⟨?_, List.Nodup.append hccnd hlnd (fun a ha hb => hdisj a ha (hl a hb))⟩
                have := chord_length (x := x) (h' := h') hmid
                rw [List.length_append]
                omega
              apply Or.inr
              split
              · rw [inner1_mid_reverse]
                exact mergedOf_canonic_good (hgood _ (fun a ha => List.mem_reverse.1 ha)
                  (List.nodup_reverse.2 hmid2nd))
              · rw [inner1_mid]
                exact mergedOf_canonic_good (hgood _ (fun a ha => ha) hmid2nd)
            · exact Or.inr (mergedOf_canonic_good ⟨chord_length hmid, hccnd⟩)
          · split
            · next hre =>
              have hrne : rr ≠ [] := by
                intro e; subst e; simp at hre
              obtain ⟨x2, mid2, h2'', rfl, hmid2, hrrnd, _, _⟩ := specR hrne
              exact Or.inr (mergedOf_canonic_good ⟨chord_length hmid2, hrrnd⟩)
            · exact Or.inl rfl
    · exact Or.inl rfl

/-! ## `_connected_rings` on good rings -/

theorem tryMerge_good {c : Ring} (hc : GoodRing c) : ∀ (rest : List Ring), (∀ r ∈ rest, GoodRing r) →
    tryMerge c rest = some none ∨
      ∃ rest', tryMerge c rest = some (some rest') ∧ rest'.length = rest.length ∧ ∀ r ∈ rest', GoodRing r
  | [], _ => Or.inl rfl
  | r :: rest, hg => by
    have hr : GoodRing r := hg r List.mem_cons_self
    have hrest : ∀ r ∈ rest, GoodRing r := fun x hx => hg x (List.mem_cons_of_mem _ hx)
    unfold tryMerge
    rcases mergeOf_good hc hr with h | ⟨x, h, hx⟩
    · rw [h]
      simp only
      rcases tryMerge_good hc rest hrest with h' | ⟨rest', h', hl, hg'⟩
      · rw [h']; exact Or.inl rfl
      · rw [h']
        refine Or.inr ⟨r :: rest', rfl, by simp [hl], ?_⟩
        intro y hy
        rcases List.mem_cons.1 hy with rfl | hy
        · exact hr
        · exact hg' y hy
    · rw [h]
      refine Or.inr ⟨x :: rest, rfl, rfl, ?_⟩
      intro y hy
      rcases List.mem_cons.1 hy with rfl | hy
      · exact hx
      · exact hrest y hy

theorem connectedRingsAux_good : ∀ (fuel : Nat) (rings : List Ring), rings.length ≤ fuel →
    (∀ r ∈ rings, GoodRing r) → ∃ out, connectedRingsAux fuel rings = some out ∧ ∀ r ∈ out, GoodRing r
  | _, [], _, _ => ⟨[], by simp [connectedRingsAux], fun _ h => by simp at h⟩
  | 0, _ :: _, hl, _ => by simp at hl
  | fuel + 1, c :: rest, hl, hg => by
    have hc : GoodRing c := hg c List.mem_cons_self
    have hrest : ∀ r ∈ rest, GoodRing r := fun x hx => hg x (List.mem_cons_of_mem _ hx)
    have hl' : rest.length ≤ fuel := by simpa using hl
    unfold connectedRingsAux
    rcases tryMerge_good hc rest hrest with h | ⟨rest', h, hlen, hg'⟩
    · rw [h]
      simp only
      obtain ⟨out, ho, hog⟩ := connectedRingsAux_good fuel rest hl' hrest
      rw [ho]
      refine ⟨c :: out, rfl, ?_⟩
      intro y hy
      rcases List.mem_cons.1 hy with rfl | hy
      · exact hc
      · exact hog y hy
    · rw [h]
      simp only
      exact connectedRingsAux_good fuel rest' (by omega) hg'

/-- `_connected_rings` (model) does not raise on good rings and returns good rings -/
theorem connectedRings_good {rings : List Ring} (hg : ∀ r ∈ rings, GoodRing r) :
    ∃ out, connectedRings rings = some out ∧ ∀ r ∈ out, GoodRing r :=
  connectedRingsAux_good rings.length rings (Nat.le_refl _) hg

/-! ## the two loops of `_rings_filter` -/

theorem filterLoop1_no_raise (n : Nat) :
    ∀ (rest : List (Option Ring)) (seen : List Ring) (atoms : List Nat) (sssr hold : List Ring),
      (∀ x ∈ rest, x ≠ none) → filterLoop1 n rest seen atoms sssr hold ≠ .raised := by
  intro rest
  induction rest with
  | nil => intro seen atoms sssr hold _; simp [filterLoop1]
  | cons x rest ih =>
    intro seen atoms sssr hold h
    have hr : ∀ x ∈ rest, x ≠ none := fun y hy => h y (List.mem_cons_of_mem _ hy)
    cases x with
    | none => exact absurd rfl (h none List.mem_cons_self)
    | some c =>
      simp only [filterLoop1]
      split
      · exact ih _ _ _ _ hr
      · split
        · exact ih _ _ _ _ hr
        · split
          · simp
          · exact ih _ _ _ _ hr

theorem filterLoop1_seen (P : Ring → Prop) (n : Nat) :
    ∀ (rest : List (Option Ring)) (seen : List Ring) (atoms : List Nat) (sssr hold : List Ring),
      (∀ r, some r ∈ rest → P r) → (∀ r ∈ seen, P r) →
      ∀ seen' sssr' hold', filterLoop1 n rest seen atoms sssr hold = .more seen' sssr' hold' → ∀ r ∈ seen', P r := by
  intro rest
  induction rest with
  | nil =>
    intro seen atoms sssr hold _ hs seen' sssr' hold' h
    simp only [filterLoop1] at h
    injection h with h1 _ _
    subst h1
    exact hs
  | cons x rest ih =>
    intro seen atoms sssr hold hr hs seen' sssr' hold' h
    cases x with
    | none => simp [filterLoop1] at h
    | some c =>
      have hc : P c := hr c (by simp)
      have hr' : ∀ r, some r ∈ rest → P r := fun r h => hr r (List.mem_cons_of_mem _ h)
      have hsc : ∀ r ∈ seen ++ [c], P r := by
        intro r h
        rcases List.mem_append.1 h with h | h
        · exact hs r h
        · simp at h; subst h; exact hc
      simp only [filterLoop1] at h
      split at h
      · exact ih _ _ _ _ hr' hs _ _ _ h
      · split at h
        · exact ih _ _ _ _ hr' hsc _ _ _ h
        · split at h
          · cases h
          · exact ih _ _ _ _ hr' hsc _ _ _ h

theorem filterLoop2_no_raise (n : Nat) :
    ∀ (hold cond sssr : List Ring), (∀ r ∈ hold, GoodRing r) → (∀ r ∈ cond, GoodRing r) →
      filterLoop2 n hold cond sssr ≠ .raised := by
  intro hold
  induction hold with
  | nil => intro cond sssr _ _; simp [filterLoop2]
  | cons c rest ih =>
    intro cond sssr hh hcond
    have hc : GoodRing c := hh c List.mem_cons_self
    have hh' : ∀ r ∈ rest, GoodRing r := fun r h => hh r (List.mem_cons_of_mem _ h)
    obtain ⟨cond', hcr, hg'⟩ := connectedRings_good (rings := c :: cond) (by
      intro r hr
      rcases List.mem_cons.1 hr with rfl | hr
      · exact hc
      · exact hcond r hr)
    simp only [filterLoop2]
    split
    · next hnone =>
      split at hnone
      · cases hnone
      · exact absurd hnone (isCondensedRing_ne_none c sssr)
    · exact ih _ _ hh' hcond
    · rw [hcr]
      simp only
      split
      · simp
      · exact ih _ _ hh' hg'

end NoRaise

/-- `_rings_filter` (model) raises only through `next(rings)` on an empty generator: with at least one candidate, all
candidates good rings and none of them a raise, the result is `ok …` or `notReached` (ImplementationError) -/
theorem ringsFilter_no_raise {cands : List (Option Ring)} (hc : ∀ x ∈ cands, ∃ r, x = some r ∧ GoodRing r)
    (hne : cands ≠ []) (n : Nat) : ringsFilter cands n ≠ .raised := by
  cases cands with
  | nil => exact absurd rfl hne
  | cons x rest =>
    obtain ⟨c, rfl, hcg⟩ := hc x List.mem_cons_self
    have hrest : ∀ x ∈ rest, x ≠ none := by
      intro y hy e
      obtain ⟨r, hr, _⟩ := hc y (List.mem_cons_of_mem _ hy)
      rw [e] at hr
      cases hr
    have hgood : ∀ r, some r ∈ rest → GoodRing r := by
      intro r hr
      obtain ⟨r', hr', hg⟩ := hc (some r) (List.mem_cons_of_mem _ hr)
      simp only [Option.some.injEq] at hr'
      exact hr' ▸ hg
    have hc1 : ∀ r ∈ [c], GoodRing r := by
      intro r hr
      simp only [List.mem_singleton] at hr
      exact hr ▸ hcg
    unfold ringsFilter
    simp only
    split
    · simp
    · split
      · next h => exact absurd h (NoRaise.filterLoop1_no_raise n rest [c] c [c] [] hrest)
      · simp
      · next seen sssr hold hm =>
        have hseen := NoRaise.filterLoop1_seen GoodRing n rest [c] c [c] [] hgood hc1 _ _ _ hm
        obtain ⟨hs, hh⟩ := (filterLoop1_pred GoodRing n rest [c] c [c] [] hgood hc1 (by simp)).2 _ _ _ hm
        have hall : (seen.all fun r => (ringAdjacency r).isSome) = true := by
          rw [List.all_eq_true]
          intro r hr
          exact NoRaise.ringAdjacency_isSome (by have := (hseen r hr).1; omega)
        rw [if_pos hall]
        obtain ⟨cond, hcr, hg⟩ := NoRaise.connectedRings_good hs
        rw [hcr]
        exact NoRaise.filterLoop2_no_raise n hold cond sssr hh hg


end ChythonModel.Proofs.C06
