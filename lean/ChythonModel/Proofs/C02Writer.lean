import ChythonModel.Proofs.C02Rounds
import ChythonModel.Proofs.C02Tokens
/-! # C02 — lemmas about everything `smilesRounds` returns -/
namespace ChythonModel.Proofs.C02
open ChythonModel.Model ChythonModel.Model.SmilesWriter ChythonModel.Model.C02RT

theorem chained_below (m : Mol) (opts : Opts) : ∀ (rs : List Round) (c : List (Nat × Nat)) (h : List Nat),
    (∀ r ∈ rs, RoundSpec m opts r) → Chained c h rs → Below c h → ∀ r ∈ rs, Below r.castedOut r.heapOut := by
  intro rs
  induction rs with
  | nil => intro _ _ _ _ _ r hr; simp at hr
  | cons r0 tl ih =>
    intro c h hs hc hB r hr
    obtain ⟨rfl, rfl, hc'⟩ := hc
    have h1 := (hs r0 (by simp)).cast
    have hB0 : Below r0.castedOut r0.heapOut := castSeq_below _ _ _ _ _ hB (by simpa [castAll] using h1)
    simp only [List.mem_cons] at hr
    rcases hr with rfl | hr
    · exact hB0
    · exact ih _ _ (fun r' hr' => hs r' (by simp [hr'])) hc' hB0 r hr

theorem mem_joinRounds : ∀ (rs : List Round) (t : WTok), t ∈ joinRounds rs → t = WTok.dot ∨ ∃ r ∈ rs, t ∈ r.out := by
  intro rs
  induction rs with
  | nil => intro t ht; simp [joinRounds] at ht
  | cons r tl ih =>
    intro t ht
    cases tl with
    | nil => simp only [joinRounds] at ht; exact Or.inr ⟨r, by simp, ht⟩
    | cons r2 tl2 =>
      simp only [joinRounds, List.mem_append, List.mem_cons] at ht
      rcases ht with ht | rfl | ht
      · exact Or.inr ⟨r, by simp, ht⟩
      · exact Or.inl rfl
      · rcases ih t ht with h | ⟨r', hr', h⟩
        · exact Or.inl h
        · exact Or.inr ⟨r', by simp [hr'], h⟩

theorem writer_tokens_ok (m : Mol) (env : Env) (opts : Opts) (rs : List Round) (order : List Nat)
    (hAr : NoAromaticHalogen m opts) (h : smilesRounds m env opts = .ok (rs, order)) :
    ∀ t ∈ joinRounds rs, tokOk t = true := by
  obtain ⟨h1, h2⟩ := smilesRounds_spec m env opts rs order h
  have hB := chained_below m opts rs [] initialHeap h1 h2 below_initial
  intro t ht
  rcases mem_joinRounds rs t ht with rfl | ⟨r, hr, htr⟩
  · rfl
  · obtain ⟨order', vb', he⟩ := (h1 r hr).emitted
    exact emit_ok m opts r.sc r.castedOut r.tokens hAr (hB r hr).2 _ _ _ _ _ he t htr

end ChythonModel.Proofs.C02
