import ChythonModel.Spec.CycleBasis
/-!
# Meaning of `ringVec`: the bit mask of a simple cycle is its GF(2) edge-incidence vector

`ringVec_testBit`: for a simple cycle whose edges all occur in the duplicate-free edge list `E`, bit `i` of
`ringVec E r` is set iff the `i`-th edge of `E` is an edge of the cycle. So `Independent (rings.map (ringVec E))`
in `check_sssr_sound` is linear independence of the rings in the cycle space of the graph.
-/
namespace ChythonModel.Proofs.C06
open ChythonModel.Spec.CycleBasis

/-- the undirected edges of the closed walk `r` -/
def cycleEdges (r : List Nat) : List (Nat × Nat) := (cyclePairs r).map fun ab => norm ab.1 ab.2

/-! ## xor of distinct unit vectors -/

theorem testBit_xorAll_shift (ks : List Nat) (hk : ks.Nodup) (i : Nat) :
    (xorAll (ks.map fun k => 1 <<< k)).testBit i = decide (i ∈ ks) := by
  induction ks with
  | nil => simp [xorAll]
  | cons k ks ih =>
    have hk' := List.nodup_cons.1 hk
    rw [List.map_cons, xorAll, Nat.testBit_xor, ih hk'.2, Nat.one_shiftLeft, Nat.testBit_two_pow]
    simp only [List.mem_cons]
    by_cases h : k = i
    · subst h
      simp [hk'.1]
    · have h' : ¬ i = k := fun e => h e.symm
      simp [h, h']

theorem ringVec_eq (E : List (Nat × Nat)) (r : List Nat) :
    ringVec E r = xorAll (((cycleEdges r).map fun e => E.idxOf e).map fun k => 1 <<< k) := by
  simp [ringVec, cycleEdges, edgeBit, List.map_map, Function.comp_def]

theorem idxOf_inj_on {E : List (Nat × Nat)} {a b : Nat × Nat} (ha : a ∈ E) (hb : b ∈ E)
    (h : E.idxOf a = E.idxOf b) : a = b := by
  have h1 := List.getElem_idxOf (List.idxOf_lt_length_iff.2 ha)
  have h2 := List.getElem_idxOf (List.idxOf_lt_length_iff.2 hb)
  rw [← h1, ← h2]
  simp [h]

theorem nodup_map_idxOf {E l : List (Nat × Nat)} (hl : l.Nodup) (hsub : ∀ e ∈ l, e ∈ E) :
    (l.map fun e => E.idxOf e).Nodup := by
  induction l with
  | nil => simp
  | cons a l ih =>
    have hl' := List.nodup_cons.1 hl
    rw [List.map_cons, List.nodup_cons]
    refine ⟨?_, ih hl'.2 fun e he => hsub e (List.mem_cons_of_mem _ he)⟩
    intro hm
    obtain ⟨b, hb, hab⟩ := List.mem_map.1 hm
    have := idxOf_inj_on (hsub b (List.mem_cons_of_mem _ hb)) (hsub a (List.mem_cons_self ..)) hab
    exact hl'.1 (this ▸ hb)

/-- bit `i` of the mask ⇔ the `i`-th edge of `E` is an edge of the walk (edges of the walk distinct and in `E`) -/
theorem ringVec_testBit_of_nodup (E : List (Nat × Nat)) (hE : E.Nodup) (r : List Nat)
    (hce : (cycleEdges r).Nodup) (hsub : ∀ e ∈ cycleEdges r, e ∈ E) (i : Nat) (hi : i < E.length) :
    (ringVec E r).testBit i = true ↔ E[i] ∈ cycleEdges r := by
  rw [ringVec_eq, testBit_xorAll_shift _ (nodup_map_idxOf hce hsub)]
  simp only [decide_eq_true_eq, List.mem_map]
  constructor
  · rintro ⟨e, he, rfl⟩
    have := List.getElem_idxOf (List.idxOf_lt_length_iff.2 (hsub e he))
    rw [this]; exact he
  · intro h
    exact ⟨E[i], h, hE.idxOf_getElem i hi⟩

/-! ## a simple cycle uses each of its edges once -/

theorem norm_eq_iff (a b c d : Nat) : norm a b = norm c d ↔ (a = c ∧ b = d) ∨ (a = d ∧ b = c) := by
  unfold norm
  by_cases h1 : a ≤ b <;> by_cases h2 : c ≤ d <;> simp only [h1, h2, ↓reduceIte, Prod.mk.injEq] <;> omega

theorem cyclePairs_length (r : List Nat) : (cyclePairs r).length = r.length := by
  cases r with
  | nil => rfl
  | cons x tl => simp [cyclePairs, List.length_zip]

/-- the `i`-th pair of the closed walk: `(r[i], r[i+1])`, wrapping around at the end -/
theorem cyclePairs_getElem (r : List Nat) (i : Nat) (hi : i < r.length) :
    (cyclePairs r)[i]'(by rw [cyclePairs_length]; exact hi) =
      (r[i], if h : i + 1 < r.length then r[i + 1] else r[0]'(by omega)) := by
  cases r with
  | nil => simp at hi
  | cons x tl =>
    simp only [cyclePairs, List.getElem_zip, Prod.mk.injEq, true_and]
    simp only [List.length_cons] at hi ⊢
    by_cases h : i + 1 < tl.length + 1
    · have hi' : i < tl.length := by omega
      rw [List.getElem_append_left hi']
      simp [h]
    · have hi' : tl.length ≤ i := by omega
      rw [List.getElem_append_right hi']
      have : i - tl.length = 0 := by omega
      simp [h, this]

theorem cycleEdges_nodup (r : List Nat) (h3 : 3 ≤ r.length) (hnd : r.Nodup) : (cycleEdges r).Nodup := by
  rw [List.nodup_iff_pairwise_ne, List.pairwise_iff_getElem]
  intro i j hi hj hij
  have hlen : (cycleEdges r).length = r.length := by simp [cycleEdges, cyclePairs_length]
  have hi' : i < r.length := by omega
  have hj' : j < r.length := by omega
  simp only [cycleEdges, List.getElem_map]
  rw [cyclePairs_getElem r i hi', cyclePairs_getElem r j hj']
  intro heq
  have hinj : ∀ (a b : Nat) (ha : a < r.length) (hb : b < r.length), r[a] = r[b] → a = b :=
    fun a b ha hb e => (List.getElem_inj hnd).mp e
  have hi1 : i + 1 < r.length := by omega
  simp only [hi1, ↓reduceDIte] at heq
  rcases (norm_eq_iff _ _ _ _).1 heq with ⟨e1, _⟩ | ⟨e1, e2⟩
  · have := hinj i j hi' hj' e1; omega
  · -- r[i] = succ r[j] and r[i+1] = r[j]
    have hj1 : j = i + 1 := (hinj (i + 1) j hi1 hj' e2).symm
    subst hj1
    by_cases h : i + 1 + 1 < r.length
    · simp only [h, ↓reduceDIte] at e1
      have := hinj i (i + 1 + 1) hi' h e1; omega
    · simp only [h, ↓reduceDIte] at e1
      have := hinj i 0 hi' (by omega) e1; omega

/-- **meaning of the bit mask** for a simple cycle -/
theorem ringVec_testBit (E : List (Nat × Nat)) (hE : E.Nodup) (r : List Nat) (h3 : 3 ≤ r.length) (hnd : r.Nodup)
    (hsub : ∀ e ∈ cycleEdges r, e ∈ E) (i : Nat) (hi : i < E.length) :
    (ringVec E r).testBit i = true ↔ E[i] ∈ cycleEdges r :=
  ringVec_testBit_of_nodup E hE r (cycleEdges_nodup r h3 hnd) hsub i hi

end ChythonModel.Proofs.C06
