import ChythonModel.Proofs.C05SearchDone
/-!
# C05 — soundness of the model of `_kekule_component` on prepared components without ambiguous atoms
-/
namespace ChythonModel.Proofs.C05S
open ChythonModel.Model ChythonModel.Model.C05 ChythonModel.Model.C05S

/-- `rings[v]` of a component dict (empty for a missing key) -/
def nbr (rings : Adj) (v : Nat) : List Nat := (rings.lookup v).getD []

/-- what `__prepare_rings` + the component split guarantee of `rings`: unique keys, a symmetric simple graph,
    every atom with two or three ring neighbours, atom numbers ≥ 1 -/
structure GraphOK (rings : Adj) : Prop where
  keys : (rings.map (·.1)).Nodup
  sym : ∀ v w, w ∈ nbr rings v → v ∈ nbr rings w
  nodup : ∀ v, (nbr rings v).Nodup
  noself : ∀ v, v ∉ nbr rings v
  deg : ∀ v, nbr rings v ≠ [] → 2 ≤ (nbr rings v).length ∧ (nbr rings v).length ≤ 3
  nz : nbr rings 0 = []

theorem graphOKb_sound {rings : Adj} (h : graphOKb rings = true) : GraphOK rings := by
  simp only [graphOKb, Bool.and_eq_true, decide_eq_true_eq, List.all_eq_true, Bool.not_eq_true',
    List.any_eq_false, beq_iff_eq] at h
  obtain ⟨⟨hk, hall⟩, hz⟩ := h
  have hcase : ∀ v, nbr rings v = [] ∨ ∃ ns, (v, ns) ∈ rings ∧ nbr rings v = ns := by
    intro v
    unfold nbr
    cases hl : rings.lookup v with
    | none => exact Or.inl rfl
    | some ns => exact Or.inr ⟨ns, lookup_mem hl, rfl⟩
  refine ⟨hk, ?_, ?_, ?_, ?_, ?_⟩
  · intro v w hw
    rcases hcase v with h0 | ⟨ns, hm, hn⟩
    · rw [h0] at hw; exact absurd hw List.not_mem_nil
    · rw [hn] at hw
      have := (hall _ hm).2 w hw
      simpa [nbr, Adj.get] using this
  · intro v
    rcases hcase v with h0 | ⟨ns, hm, hn⟩
    · rw [h0]; exact List.nodup_nil
    · rw [hn]; exact (hall _ hm).1.1.1
  · intro v hv
    rcases hcase v with h0 | ⟨ns, hm, hn⟩
    · rw [h0] at hv; exact absurd hv List.not_mem_nil
    · rw [hn] at hv
      have := (hall _ hm).1.1.2
      simp only [List.contains_eq_mem, decide_eq_false_iff_not] at this
      exact this hv
  · intro v hv
    rcases hcase v with h0 | ⟨ns, hm, hn⟩
    · exact absurd h0 hv
    · rw [hn]; exact (hall _ hm).1.2
  · rcases hcase 0 with h0 | ⟨ns, hm, -⟩
    · exact h0
    · exact absurd rfl (hz _ hm)

/-- the yielded path is a Kekulé form of the component (see `PathSound`) -/
def KekuleFormOf (rings : Adj) (db0 : List Nat) (p : Path) : Prop := PathSound ⟨rings, db0, [], 0, 0⟩ db0 p

theorem pathSound_rings {c c' : Ctx} (h : c.rings = c'.rings) {db0 : List Nat} {p : Path} (hs : PathSound c db0 p) :
    PathSound c' db0 p := by
  have hnb : ∀ v, nb c v = nb c' v := fun v => by simp [nb, h]
  exact ⟨fun x hx => hnb _ ▸ hs.edges x hx, hs.once, fun v w hw => hs.all v w (hnb _ ▸ hw),
    fun v hv => hs.matching v (hnb _ ▸ hv)⟩

theorem dom_of {c : Ctx} (G : GraphOK c.rings) (hp : c.pyr = []) (hs : nbr c.rings c.start ≠ []) : Dom c where
  sym := G.sym
  nodup := G.nodup
  noself := G.noself
  deg := G.deg
  nz := fun h => hs (h ▸ G.nz)
  pyr := hp

theorem dom2_of {c : Ctx} (G : GraphOK c.rings) (hsz : c.size = (c.rings.map (·.2.length)).sum / 2) : Dom2 c where
  keys := G.keys
  size := by
    have : (dirEdges c).length = (c.rings.map (·.2.length)).sum := by
      simp [dirEdges, List.length_flatMap, Function.comp_def]
    rw [this, hsz]
    omega

/-- the invariant holds when the search is entered with one of the initial levels -/
theorem inv_init {c : Ctx} (D : Dom c) {e0 : Entry} (hp : e0.prev = c.start) (hf : e0.atom ∈ nb c c.start)
    (hb : e0.bond = 1 ∨ e0.bond = 2) (hdb : e0.bond = 2 → c.db.contains e0.atom = false) :
    Inv c (pe e0) [e0] [] where
  edges := by
    intro x hx
    simp only [M, List.nil_append, List.map_cons, List.map_nil, List.mem_singleton] at hx
    subst hx
    exact ⟨by simpa [pe, hp] using hf, hb⟩
  nodup := by simp [M]
  cover := by intro v hv; simp [hashedIn] at hv
  alt := by intro v hv; simp [hashedIn] at hv
  lvl := by
    intro e he
    simp only [List.mem_singleton] at he
    subst he
    exact ⟨Or.inl (by simp [hashedIn]), Or.inr rfl, hdb⟩
  pth := by intro x hx; simp at hx
  st1 := by
    intro x hx _
    simpa [M] using hx
  st2 := by
    intro x hx hxs
    simp only [M, List.nil_append, List.map_cons, List.map_nil, List.mem_singleton] at hx
    subst hx
    exfalso
    have : e0.atom = c.start := hxs
    exact D.noself _ (this ▸ hf)
  ini := by simp [M]
  fresh := fun _ => rfl

/-- soundness of `explore` from an initial level -/
theorem explore_sound {c : Ctx} (D : Dom c) (D2 : Dom2 c) {db0 : List Nat} {e0 : Entry}
    (SO : StartOK c db0 (pe e0)) (hf : e0.atom ∈ nb c c.start) (hb : e0.bond = 1 ∨ e0.bond = 2)
    (hdb : e0.bond = 2 → c.db.contains e0.atom = false) (limit : Nat) :
    ∀ p ∈ (explore c [e0] [] limit).found, PathSound c db0 p := by
  apply explore_found_inv c (Inv c (pe e0)) (PathSound c db0)
  · intro level path e I hl hlen
    obtain ⟨ys, rfl⟩ := List.getLast?_eq_some_iff.1 hl
    exact inv_done D D2 SO I hlen
  · intro level path e I hl _ hs
    obtain ⟨ys, rfl⟩ := List.getLast?_eq_some_iff.1 hl
    rw [List.dropLast_concat]
    exact inv_start I SO.prev hs
  · intro level path e ins0 clos brs base b I hl _ hs hp hr hb
    obtain ⟨ys, rfl⟩ := List.getLast?_eq_some_iff.1 hl
    rw [List.dropLast_concat] at hr
    exact inv_branch D (stepCtx_of D SO.prev I hs hp hr) hb
  · exact inv_init D SO.prev hf hb hdb

/-- what the start selection hands to the loop -/
structure InitOK (rings : Adj) (db0 : List Nat) (c : Ctx) (levels : List Level) : Prop where
  hr : c.rings = rings
  pyr : c.pyr = []
  size : c.size = (c.rings.map (·.2.length)).sum / 2
  lv : ∀ l ∈ levels, ∃ e0, l = [e0] ∧ StartOK c db0 (pe e0) ∧ e0.atom ∈ nb c c.start ∧
    (e0.bond = 1 ∨ e0.bond = 2) ∧ (e0.bond = 2 → c.db.contains e0.atom = false)
  /-- several initial levels: the start atom is not in `double_bonded`, the levels lead to different neighbours by
      bonds of one order -/
  cross : levels.Pairwise fun l l' => db0.contains c.start = false ∧
    ∀ e e', l = [e] → l' = [e'] → e.atom ≠ e'.atom ∧ e.bond = e'.bond
  /-- the start atom is a key; unless it is in `double_bonded` there is a level for each of its neighbours -/
  skey : ∃ ms, (c.start, ms) ∈ rings
  all : db0.contains c.start = false → ∀ x ∈ nb c c.start, ∃ e0, [e0] ∈ levels ∧ e0.atom = x
  one : db0.contains c.start = true → ∃ e0, [e0] ∈ levels

theorem nbr_of_mem {rings : Adj} (G : GraphOK rings) {s : Nat} {ms : List Nat} (h : (s, ms) ∈ rings) :
    nbr rings s = ms := by
  simp [nbr, lookup_of_mem_nodup G.keys h]

theorem levels_pairwise {ms : List Nat} (hnd : ms.Nodup) (s b : Nat) (P : Prop) (hP : P) :
    ((ms.map fun x => [(⟨x, s, b, some 0⟩ : Entry)]).reverse).Pairwise fun l l' => P ∧
      ∀ e e', l = [e] → l' = [e'] → e.atom ≠ e'.atom ∧ e.bond = e'.bond := by
  rw [List.pairwise_reverse, List.pairwise_map]
  refine (List.nodup_iff_pairwise_ne.1 hnd).imp ?_
  intro x y hxy
  refine ⟨hP, ?_⟩
  intro e e' he he'
  simp only [List.cons.injEq, and_true] at he he'
  subst he he'
  exact ⟨fun h => hxy h.symm, rfl⟩

theorem initial_ok {rings : Adj} (G : GraphOK rings) {db0 : List Nat} {c : Ctx} {levels : List Level}
    (h : initial rings db0 [] = .ok (c, levels)) : InitOK rings db0 c levels := by
  unfold initial at h
  simp only at h
  split at h
  · -- start from a double bonded atom
    rename_i s rest
    split at h
    · cases h
    · cases h
    · rename_i f tl hl
      injection h with h
      injection h with hc hlv
      subst hc hlv
      have hnb : nbr rings s = f :: tl := by simp [nbr, hl]
      refine ⟨rfl, rfl, rfl, ?_, by simp, ⟨_, lookup_mem hl⟩, by simp, fun _ => ⟨_, List.mem_singleton.2 rfl⟩⟩
      intro l hl'
      simp only [List.mem_singleton] at hl'
      subst hl'
      refine ⟨_, rfl, ⟨rfl, fun _ _ => rfl, Or.inl ⟨by simp [loopBond], rfl, by simp⟩⟩, ?_, Or.inl rfl, ?_⟩
      · show f ∈ nbr rings s
        rw [hnb]; simp
      · intro h2; simp at h2
  · split at h
    · -- a non-condensed atom that is not ambiguous
      rename_i s ms hfind
      injection h with h
      injection h with hc hlv
      subst hc hlv
      have hmem := List.mem_of_find?_eq_some hfind
      have hpred := List.find?_some hfind
      simp only [List.contains_nil, Bool.not_false, Bool.and_true, beq_iff_eq] at hpred
      have hnb := nbr_of_mem G hmem
      have hms : ms.Nodup := hnb ▸ G.nodup s
      have hall : ∀ x ∈ nbr rings s, ∃ e0 : Entry, [e0] ∈ (ms.map fun x => [(⟨x, s, 1, some 0⟩ : Entry)]).reverse ∧
          e0.atom = x := by
        intro x hx
        rw [hnb] at hx
        exact ⟨⟨x, s, 1, some 0⟩, by simp only [List.mem_reverse, List.mem_map]; exact ⟨x, hx, rfl⟩, rfl⟩
      refine ⟨rfl, rfl, rfl, ?_, levels_pairwise hms s 1 _ (by simp), ⟨_, hmem⟩, fun _ => hall, by simp⟩
      · intro l hl'
        simp only [List.mem_reverse, List.mem_map] at hl'
        obtain ⟨x, hx, rfl⟩ := hl'
        refine ⟨_, rfl, ⟨rfl, fun _ _ => rfl, Or.inr (Or.inl ⟨by simp [loopBond], rfl, by simp, ?_⟩)⟩, ?_, Or.inl rfl, ?_⟩
        · show (nbr rings s).length = 2
          rw [hnb]; exact hpred
        · show x ∈ nbr rings s
          rw [hnb]; exact hx
        · intro h2; simp at h2
    · split at h
      · rename_i s ms hfind
        injection h with h
        injection h with hc hlv
        subst hc hlv
        have hmem := List.mem_of_find?_eq_some hfind
        have hpred := List.find?_some hfind
        simp only [beq_iff_eq] at hpred
        have hnb := nbr_of_mem G hmem
        have hms : ms.Nodup := hnb ▸ G.nodup s
        have hall : ∀ x ∈ nbr rings s, ∃ e0 : Entry, [e0] ∈ (ms.map fun x => [(⟨x, s, 1, some 0⟩ : Entry)]).reverse ∧
            e0.atom = x := by
          intro x hx
          rw [hnb] at hx
          exact ⟨⟨x, s, 1, some 0⟩, by simp only [List.mem_reverse, List.mem_map]; exact ⟨x, hx, rfl⟩, rfl⟩
        refine ⟨rfl, rfl, rfl, ?_, levels_pairwise hms s 1 _ (by simp), ⟨_, hmem⟩, fun _ => hall, by simp⟩
        · intro l hl'
          simp only [List.mem_reverse, List.mem_map] at hl'
          obtain ⟨x, hx, rfl⟩ := hl'
          refine ⟨_, rfl, ⟨rfl, fun _ _ => rfl, Or.inr (Or.inl ⟨by simp [loopBond], rfl, by simp, ?_⟩)⟩, ?_, Or.inl rfl, ?_⟩
          · show (nbr rings s).length = 2
            rw [hnb]; exact hpred
          · show x ∈ nbr rings s
            rw [hnb]; exact hx
          · intro h2; simp at h2
      · -- every atom condensed: the first atom, entered by a double bond
        split at h
        · cases h
        · rename_i s ms tl hf1 hf2
          injection h with h
          injection h with hc hlv
          subst hc hlv
          have hnb : nbr ((s, ms) :: tl) s = ms := nbr_of_mem G List.mem_cons_self
          · have hms : ms.Nodup := hnb ▸ G.nodup s
            have hall : ∀ x ∈ nbr ((s, ms) :: tl) s, ∃ e0 : Entry,
                [e0] ∈ (ms.map fun x => [(⟨x, s, 2, some 0⟩ : Entry)]).reverse ∧ e0.atom = x := by
              intro x hx
              rw [hnb] at hx
              exact ⟨⟨x, s, 2, some 0⟩, by simp only [List.mem_reverse, List.mem_map]; exact ⟨x, hx, rfl⟩, rfl⟩
            refine ⟨rfl, rfl, rfl, ?_, levels_pairwise hms s 2 _ (by simp), ⟨_, List.mem_cons_self⟩, fun _ => hall,
              by simp⟩
            intro l hl'
            simp only [List.mem_reverse, List.mem_map] at hl'
            obtain ⟨x, hx, rfl⟩ := hl'
            have hxs : x ≠ s := by
              intro hxs
              have h1 : x ∈ nbr ((s, ms) :: tl) s := by rw [hnb]; exact hx
              exact G.noself s (hxs ▸ h1)
            refine ⟨_, rfl, ⟨rfl, ?_, Or.inr (Or.inr ⟨by simp [loopBond], rfl, by simp⟩)⟩, ?_, Or.inr rfl, ?_⟩
            · intro v hv
              simp [hv]
            · show x ∈ nbr ((s, ms) :: tl) s
              rw [hnb]; exact hx
            · intro _
              simp [hxs]

/-- **soundness of the search**: on a prepared component without ambiguous atoms every complete path is a Kekulé
    form of the component -/
theorem searchRaw_sound {rings : Adj} (G : GraphOK rings) (db0 : List Nat) (limit : Nat) :
    ∀ p ∈ (searchRaw rings db0 [] limit).found, KekuleFormOf rings db0 p := by
  intro p hp
  unfold searchRaw at hp
  split at hp
  · simp at hp
  · rename_i c levels hinit
    have IO := initial_ok G hinit
    obtain ⟨l, hl, lim, hpl⟩ := seqBranches_found _ _ _ p hp
    obtain ⟨e0, rfl, SO, hf, hb, hdb⟩ := IO.lv l hl
    have Gc : GraphOK c.rings := IO.hr ▸ G
    have hstart : nbr c.rings c.start ≠ [] := List.ne_nil_of_mem hf
    have D := dom_of Gc IO.pyr hstart
    have D2 := dom2_of Gc IO.size
    have := explore_sound D D2 SO hf hb hdb lim p hpl
    exact pathSound_rings (c' := ⟨rings, db0, [], 0, 0⟩) IO.hr this

/-- every path `kekuleComponent` yields is one of the complete paths of the search -/
theorem component_yields_found (rings : Adj) (db pyr : List Nat) (buf limit : Nat) :
    ∀ y ∈ (kekuleComponent rings db pyr buf limit).1, y ∈ (searchRaw rings db pyr limit).found := by
  intro y hy
  unfold kekuleComponent at hy
  simp only at hy
  have hsub := feedAll_sub pyr (searchRaw rings db pyr limit).found ⟨buf, []⟩
  have hperm := feedAll_perm pyr (searchRaw rings db pyr limit).found ⟨buf, []⟩
  simp only [List.nil_append] at hperm
  split at hy
  · rcases hsub y hy with h | h
    · simp at h
    · exact h
  · split at hy
    · rcases hsub y hy with h | h
      · simp at h
      · exact h
    · split at hy
      · rcases hsub y hy with h | h
        · simp at h
        · exact h
      · exact hperm.subset hy

theorem component_sound {rings : Adj} (G : GraphOK rings) (db0 : List Nat) (buf limit : Nat) :
    ∀ y ∈ (kekuleComponent rings db0 [] buf limit).1, KekuleFormOf rings db0 y :=
  fun y hy => searchRaw_sound G db0 limit y (component_yields_found rings db0 [] buf limit y hy)

end ChythonModel.Proofs.C05S
