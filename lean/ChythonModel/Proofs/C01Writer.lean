import ChythonModel.Proofs.C01Rename
import ChythonModel.Model.SmilesWriter
import Mathlib.Data.List.Nodup
/-!
The two choice points of the writer `Smiles._smiles` (C02's model `Model/SmilesWriter.lean`) on molecules whose weights
are all different: `start = min(atoms_set, key=mod_weights_start)` and `sorted(front, key=mod_weights)`.
When the candidates have pairwise different weights the keys `(groups[w], w, seen)` are decided by their first two
components, so neither the iteration order of the Python `set` (an *input* of C02's model) nor the BFS distance nor the
atom numbers can influence the choice.
-/
namespace ChythonModel.Proofs.C01
open ChythonModel.Model ChythonModel.Model.SmilesWriter
open List

/-! ## the writer's `sorted` is the refinement's `sorted` -/

theorem swInsertBy_eq {α : Type} (le : α → α → Bool) (x : α) (l : List α) :
    SmilesWriter.insertBy le x l = Morgan.insertBy le x l := by
  induction l with
  | nil => rfl
  | cons y tl ih => simp only [SmilesWriter.insertBy, Morgan.insertBy, ih]

theorem swSortBy_eq {α : Type} (le : α → α → Bool) (l : List α) : SmilesWriter.sortBy le l = Morgan.sortBy le l := by
  induction l with
  | nil => rfl
  | cons a tl ih =>
    show SmilesWriter.insertBy le a (SmilesWriter.sortBy le tl) = Morgan.insertBy le a (Morgan.sortBy le tl)
    rw [ih, swInsertBy_eq]

/-! ## the key order -/

theorem keyLe_trans (a b c : Key) : Key.le a b → Key.le b c → Key.le a c := by
  obtain ⟨a1, a2, a3⟩ := a; obtain ⟨b1, b2, b3⟩ := b; obtain ⟨c1, c2, c3⟩ := c
  simp only [Key.le, Bool.or_eq_true, Bool.and_eq_true, decide_eq_true_eq, beq_iff_eq]
  omega

theorem keyLe_total (a b : Key) : (Key.le a b || Key.le b a) = true := by
  obtain ⟨a1, a2, a3⟩ := a; obtain ⟨b1, b2, b3⟩ := b
  simp only [Key.le, Bool.or_eq_true, Bool.and_eq_true, decide_eq_true_eq, beq_iff_eq]
  omega

theorem keyLe_antisymm (a b : Key) : Key.le a b → Key.le b a → a = b := by
  obtain ⟨a1, a2, a3⟩ := a; obtain ⟨b1, b2, b3⟩ := b
  simp only [Key.le, Bool.or_eq_true, Bool.and_eq_true, decide_eq_true_eq, beq_iff_eq, Prod.mk.injEq]
  omega

/-- the part of a key that does not depend on the BFS distance: `(groups[w], w)` -/
def keyW (k : Key) : Int × Int := (k.1, k.2.1)

/-- the key with the BFS distance erased -/
def stripKey (k : Key) : Key := (k.1, k.2.1, 0)

theorem keyLe_strip (a b : Key) (h : keyW a ≠ keyW b) : Key.le (stripKey a) (stripKey b) = Key.le a b := by
  obtain ⟨a1, a2, a3⟩ := a; obtain ⟨b1, b2, b3⟩ := b
  simp only [keyW, ne_eq, Prod.mk.injEq, not_and] at h
  rw [Bool.eq_iff_iff]
  simp only [Key.le, stripKey]
  simp only [Bool.or_eq_true, Bool.and_eq_true, decide_eq_true_eq, beq_iff_eq]
  constructor
  · rintro (h1 | ⟨h1, h2 | ⟨h2, _⟩⟩)
    · exact Or.inl (of_decide_eq_true h1)
    · exact Or.inr ⟨h1, Or.inl (of_decide_eq_true h2)⟩
    · exact absurd h2 (h h1)
  · rintro (h1 | ⟨h1, h2 | ⟨h2, _⟩⟩)
    · exact Or.inl (decide_eq_true h1)
    · exact Or.inr ⟨h1, Or.inl (decide_eq_true h2)⟩
    · exact absurd h2 (h h1)

theorem keyLe_refl (a : Key) : Key.le a a = true := by
  obtain ⟨a1, a2, a3⟩ := a
  simp [Key.le]

/-! ## sorting and `min` on keyed candidates -/

abbrev leK {α : Type} (a b : α × Key) : Bool := Key.le a.2 b.2

theorem sortKeyed_eq {α : Type} (l : List (α × Key)) : sortKeyed l = Morgan.sortBy leK l := swSortBy_eq _ l

theorem mem_of_nodup_key {α : Type} {l : List (α × Key)} (hd : (l.map (·.2)).Nodup) {a b : α × Key}
    (ha : a ∈ l) (hb : b ∈ l) (h : a.2 = b.2) : a = b := by
  induction l with
  | nil => simp at ha
  | cons x tl ih =>
    simp only [map_cons, nodup_cons, mem_map] at hd
    rcases mem_cons.mp ha with rfl | ha' <;> rcases mem_cons.mp hb with rfl | hb'
    · rfl
    · exact absurd ⟨b, hb', h.symm⟩ hd.1
    · exact absurd ⟨a, ha', h⟩ hd.1
    · exact ih hd.2 ha' hb'

/-- **`sorted(front, key=…)` does not depend on the iteration order of the set** when the keys are pairwise different -/
theorem sortKeyed_perm_of_nodup_keys {α : Type} {l l' : List (α × Key)} (hp : l ~ l') (hd : (l.map (·.2)).Nodup) :
    sortKeyed l = sortKeyed l' := by
  rw [sortKeyed_eq, sortKeyed_eq]
  apply Perm.eq_of_pairwise (le := fun a b => leK a b = true)
  · intro a b ha hb h1 h2
    have ha' : a ∈ l := (sortBy_perm l leK).mem_iff.mp ha
    have hb' : b ∈ l := hp.mem_iff.mpr ((sortBy_perm l' leK).mem_iff.mp hb)
    exact mem_of_nodup_key hd ha' hb' (keyLe_antisymm a.2 b.2 h1 h2)
  · exact sortBy_pairwise (fun a b c => keyLe_trans a.2 b.2 c.2) (fun a b => keyLe_total a.2 b.2) l
  · exact sortBy_pairwise (fun a b c => keyLe_trans a.2 b.2 c.2) (fun a b => keyLe_total a.2 b.2) l'
  · exact (sortBy_perm l leK).trans (hp.trans (sortBy_perm l' leK).symm)

theorem head?_insertBy {α : Type} (le : α → α → Bool) (x : α) (s : List α) :
    (Morgan.insertBy le x s).head? = match s.head? with
      | none => some x
      | some y => if le x y then some x else some y := by
  cases s with
  | nil => rfl
  | cons y tl => simp only [Morgan.insertBy, head?_cons]; split <;> rfl

/-- `min(xs, key=…)` is the head of the stable `sorted(xs, key=…)` -/
theorem minKeyed_eq_head {α : Type} (l : List (α × Key)) : minKeyed l = (sortKeyed l).head? := by
  rw [sortKeyed_eq]
  induction l with
  | nil => rfl
  | cons x tl ih =>
    show minKeyed (x :: tl) = (Morgan.insertBy leK x (Morgan.sortBy leK tl)).head?
    rw [head?_insertBy, ← ih]
    simp only [minKeyed]
    cases minKeyed tl <;> rfl

/-- **the start choice does not depend on the iteration order of `atoms_set`** when the keys are pairwise different -/
theorem minKeyed_perm_of_nodup_keys {α : Type} {l l' : List (α × Key)} (hp : l ~ l') (hd : (l.map (·.2)).Nodup) :
    minKeyed l = minKeyed l' := by
  rw [minKeyed_eq_head, minKeyed_eq_head, sortKeyed_perm_of_nodup_keys hp hd]

/-! ## the BFS distance never decides when the weights differ -/

def stripP {α : Type} (p : α × Key) : α × Key := (p.1, stripKey p.2)

theorem insertBy_map_on {α β : Type} (f : α → β) (le : α → α → Bool) (le' : β → β → Bool) (a : α) (l : List α)
    (hle : ∀ b ∈ l, le' (f a) (f b) = le a b) :
    Morgan.insertBy le' (f a) (l.map f) = (Morgan.insertBy le a l).map f := by
  induction l with
  | nil => rfl
  | cons b tl ih =>
    simp only [map_cons, Morgan.insertBy, hle b mem_cons_self]
    split
    · rfl
    · simp [ih (fun c hc => hle c (mem_cons_of_mem _ hc))]

theorem sortBy_map_on {α β : Type} (f : α → β) (le : α → α → Bool) (le' : β → β → Bool) (l : List α)
    (hle : ∀ a ∈ l, ∀ b ∈ l, le' (f a) (f b) = le a b) :
    Morgan.sortBy le' (l.map f) = (Morgan.sortBy le l).map f := by
  induction l with
  | nil => rfl
  | cons a tl ih =>
    show Morgan.insertBy le' (f a) (Morgan.sortBy le' (tl.map f)) = (Morgan.insertBy le a (Morgan.sortBy le tl)).map f
    rw [ih (fun x hx y hy => hle x (mem_cons_of_mem _ hx) y (mem_cons_of_mem _ hy))]
    apply insertBy_map_on
    intro b hb
    exact hle a mem_cons_self b (mem_cons_of_mem _ ((sortBy_perm tl le).mem_iff.mp hb))

theorem mem_of_nodup_keyW {α : Type} {l : List (α × Key)} (hd : (l.map fun p => keyW p.2).Nodup) {a b : α × Key}
    (ha : a ∈ l) (hb : b ∈ l) (h : keyW a.2 = keyW b.2) : a = b := by
  induction l with
  | nil => simp at ha
  | cons x tl ih =>
    simp only [map_cons, nodup_cons, mem_map] at hd
    rcases mem_cons.mp ha with rfl | ha' <;> rcases mem_cons.mp hb with rfl | hb'
    · rfl
    · exact absurd ⟨b, hb', h.symm⟩ hd.1
    · exact absurd ⟨a, ha', h⟩ hd.1
    · exact ih hd.2 ha' hb'

theorem nodup_strip {α : Type} (l : List (α × Key)) (hd : (l.map fun p => keyW p.2).Nodup) :
    ((l.map stripP).map (·.2)).Nodup := by
  induction l with
  | nil => simp
  | cons x tl ih =>
    simp only [map_cons, nodup_cons, mem_map] at hd ⊢
    refine ⟨?_, ih hd.2⟩
    rintro ⟨q, ⟨y, hy, rfl⟩, hq⟩
    apply hd.1
    refine ⟨y, hy, ?_⟩
    simp only [stripP, stripKey, Prod.mk.injEq] at hq
    exact Prod.ext hq.1 hq.2.1

/-- with pairwise different `(groups[w], w)` the sort ignores the third key component (the BFS distance `seen[n]`) -/
theorem sortKeyed_strip {α : Type} (l : List (α × Key)) (hd : (l.map fun p => keyW p.2).Nodup) :
    sortKeyed (l.map stripP) = (sortKeyed l).map stripP := by
  rw [sortKeyed_eq, sortKeyed_eq]
  apply sortBy_map_on
  intro a ha b hb
  by_cases hab : keyW a.2 = keyW b.2
  · have := mem_of_nodup_keyW hd ha hb hab
    subst this
    simp [leK, stripP, keyLe_refl]
  · exact keyLe_strip a.2 b.2 hab

theorem sortKeyed_map_fst {α β : Type} (f : α → β) (l : List (α × Key)) :
    sortKeyed (l.map fun p => (f p.1, p.2)) = (sortKeyed l).map fun p => (f p.1, p.2) := by
  rw [sortKeyed_eq, sortKeyed_eq]
  exact sortBy_map (fun p : α × Key => (f p.1, p.2)) leK leK (fun _ _ => rfl) l

/-- **the sorted order of keyed candidates is a function of `(groups[w], w)` alone**: two keyed candidate lists whose
    `(atom, groups[w], w)` parts correspond under a renaming `f` — in any order, with unrelated third components — are
    sorted into corresponding orders, provided the `(groups[w], w)` parts are pairwise different -/
theorem sortKeyed_invariant {α β : Type} (f : α → β) {l : List (α × Key)} {l' : List (β × Key)}
    (hd : (l.map fun p => keyW p.2).Nodup)
    (hp : l'.map stripP ~ (l.map stripP).map fun p => (f p.1, p.2)) :
    (sortKeyed l').map (·.1) = ((sortKeyed l).map (·.1)).map f := by
  have hkw : ∀ (γ : Type) (x : List (γ × Key)), (x.map stripP).map (fun p => keyW p.2) = x.map fun p => keyW p.2 := by
    intro γ x; simp [stripP, stripKey, keyW, map_map, Function.comp_def]
  have hd' : (l'.map fun p => keyW p.2).Nodup := by
    have h1 := hp.map (fun p : β × Key => keyW p.2)
    rw [hkw, map_map] at h1
    have h2 : (map ((fun p : β × Key => keyW p.2) ∘ fun p : α × Key => (f p.1, p.2)) (l.map stripP)) =
        l.map fun p => keyW p.2 := by
      simp [stripP, stripKey, keyW, map_map, Function.comp_def]
    rw [h2] at h1
    exact h1.nodup_iff.mpr hd
  have hds : ((l'.map stripP).map (·.2)).Nodup := nodup_strip l' hd'
  have h1 : (sortKeyed l').map stripP = ((sortKeyed l).map stripP).map fun p => (f p.1, p.2) := by
    rw [← sortKeyed_strip l' hd', sortKeyed_perm_of_nodup_keys hp hds, sortKeyed_map_fst, sortKeyed_strip l hd]
  have h2 := congrArg (List.map (·.1)) h1
  simpa [stripP, map_map, Function.comp_def] using h2

/-- the same for the start choice `min(atoms_set, key=mod_weights_start)` -/
theorem minKeyed_invariant {α β : Type} (f : α → β) {l : List (α × Key)} {l' : List (β × Key)}
    (hd : (l.map fun p => keyW p.2).Nodup)
    (hp : l'.map stripP ~ (l.map stripP).map fun p => (f p.1, p.2)) :
    (minKeyed l').map (·.1) = ((minKeyed l).map (·.1)).map f := by
  rw [minKeyed_eq_head, minKeyed_eq_head]
  have h := sortKeyed_invariant f hd hp
  have h' := congrArg List.head? h
  simpa [head?_map] using h'

/-! ## the keys the writer computes (`keysFor`, canonical mode) -/

/-- `(n, (groups[w], w, 0))` with `w = weights(n)`; `none` = KeyError -/
def wkOf (env : Env) (groups : List (Int × Int)) (n : Nat) : Option (Nat × Key) :=
  (env.weights.lookup n).map fun w => (n, (groupOf groups w, w, 0))

theorem mapM_ok_map {ε α β γ : Type} (f : α → Except ε β) (g : β → γ) (g' : α → γ)
    (hfg : ∀ a b, f a = .ok b → g b = g' a) :
    ∀ (l : List α) (r : List β), l.mapM f = .ok r → r.map g = l.map g' := by
  intro l
  induction l with
  | nil =>
    intro r h
    simp only [mapM_nil, pure, Except.pure, Except.ok.injEq] at h
    subst h; rfl
  | cons a tl ih =>
    intro r h
    simp only [mapM_cons, bind, Except.bind] at h
    cases hfa : f a with
    | error e => simp [hfa] at h
    | ok b =>
      simp only [hfa] at h
      cases ht : tl.mapM f with
      | error e => simp [ht] at h
      | ok r' =>
        simp only [ht, pure, Except.pure, Except.ok.injEq] at h
        subst h
        simp only [map_cons, hfg a b hfa, ih r' ht]

/-- in canonical mode the keyed candidates are, up to the BFS-distance component, `(n, (groups[w n], w n, ·))` -/
theorem keysFor_strip (env : Env) (opts : Opts) (hr : opts.random = false) (groups : List (Int × Int))
    (seen : List (Nat × Int)) (useSeen : Bool) (draws : List (Nat × Nat))
    (cands : List Nat) (ks : List (Nat × Key)) (d : List (Nat × Nat))
    (h : keysFor env opts groups seen useSeen draws cands = .ok (ks, d)) :
    ks.map (fun p => some (stripP p)) = cands.map (wkOf env groups) := by
  simp only [keysFor, hr, Bool.false_eq_true, if_false, bind, Except.bind] at h
  split at h
  · simp at h
  · rename_i ks0 hm
    simp only [pure, Except.pure, Except.ok.injEq, Prod.mk.injEq] at h
    obtain ⟨rfl, _⟩ := h
    refine mapM_ok_map _ _ _ ?_ cands ks0 hm
    intro n b hb
    unfold weightOf at hb
    unfold wkOf
    cases hw : env.weights.lookup n with
    | none => simp [hw] at hb
    | some w =>
      simp only [hw, Option.map_some] at hb ⊢
      cases useSeen with
      | false =>
        simp only [Bool.false_eq_true, if_false, pure, Except.pure, Except.ok.injEq] at hb
        subst hb; rfl
      | true =>
        simp only [if_true] at hb
        cases hs : seen.lookup n with
        | none => simp [hs] at hb
        | some dist =>
          simp only [hs, pure, Except.pure, Except.ok.injEq] at hb
          subst hb; rfl

/-- **both choice points of the writer on candidates with pairwise different weights**: the order in which
    `sorted(front, key=mod_weights)` puts the candidates and the atom `min(atoms_set, key=mod_weights_start)` picks
    correspond under the renaming — for any iteration order of the Python sets (`cands'` is any permutation), any BFS
    distances on either side (`seen`, `seen'` unrelated) and any atom numbers. -/
theorem writer_choices_of_distinct_weights (env env' : Env) (opts : Opts) (hr : opts.random = false)
    (groups : List (Int × Int)) (seen seen' : List (Nat × Int)) (us us' : Bool) (draws draws' : List (Nat × Nat))
    (π : Nat → Nat) (cands cands' : List Nat)
    (hw : ∀ n ∈ cands, env'.weights.lookup (π n) = env.weights.lookup n)
    (hdis : (cands.map fun n => env.weights.lookup n).Nodup)
    (hp : cands' ~ cands.map π)
    {ks ks' : List (Nat × Key)} {d d' : List (Nat × Nat)}
    (hk : keysFor env opts groups seen us draws cands = .ok (ks, d))
    (hk' : keysFor env' opts groups seen' us' draws' cands' = .ok (ks', d')) :
    (sortKeyed ks').map (·.1) = ((sortKeyed ks).map (·.1)).map π ∧
    (minKeyed ks').map (·.1) = ((minKeyed ks).map (·.1)).map π := by
  have hA := keysFor_strip env opts hr groups seen us draws cands ks d hk
  have hB := keysFor_strip env' opts hr groups seen' us' draws' cands' ks' d' hk'
  -- keys of the first side are pairwise different in their `(groups[w], w)` part
  have hd : (ks.map fun p => keyW p.2).Nodup := by
    have h1 := congrArg (List.map (Option.map fun p : Nat × Key => keyW p.2)) hA
    simp only [map_map, Function.comp_def, Option.map_some] at h1
    have h2 : (cands.map fun n => Option.map (fun p : Nat × Key => keyW p.2) (wkOf env groups n)) =
        (cands.map fun n => env.weights.lookup n).map (Option.map fun w => (groupOf groups w, w)) := by
      simp only [map_map, Function.comp_def, wkOf, Option.map_map]
      apply map_congr_left
      intro n _
      cases env.weights.lookup n <;> rfl
    have hinj : Function.Injective (Option.map fun w : Int => (groupOf groups w, w)) := by
      apply Option.map_injective
      intro a b h
      exact (Prod.mk.injEq _ _ _ _ ▸ h).2
    have h3 : (ks.map fun p => some (keyW (stripP p).2)).Nodup := by
      rw [h1, h2]; exact hdis.map hinj
    have h4 : (ks.map fun p => some (keyW (stripP p).2)) = (ks.map fun p => keyW p.2).map some := by
      simp [stripP, stripKey, keyW, map_map, Function.comp_def]
    rw [h4] at h3
    exact Nodup.of_map _ h3
  -- the stripped keyed lists correspond up to a permutation
  have hperm : ks'.map stripP ~ (ks.map stripP).map fun p => (π p.1, p.2) := by
    have h1 : (ks'.map stripP).map some ~ ((ks.map stripP).map fun p => (π p.1, p.2)).map some := by
      have e1 : (ks'.map stripP).map some = cands'.map (wkOf env' groups) := by
        rw [← hB]; simp [map_map, Function.comp_def]
      have e2 : ((ks.map stripP).map fun p => (π p.1, p.2)).map some = (cands.map π).map (wkOf env' groups) := by
        have : ((ks.map stripP).map fun p => (π p.1, p.2)).map some =
            (ks.map fun p => some (stripP p)).map (Option.map fun p : Nat × Key => (π p.1, p.2)) := by
          simp [map_map, Function.comp_def]
        rw [this, hA, map_map, map_map]
        apply map_congr_left
        intro n hn
        simp only [Function.comp_def, wkOf, hw n hn, Option.map_map]
      rw [e1, e2]
      exact hp.map _
    have h2 := h1.filterMap id
    simpa [filterMap_map, Function.comp_def] using h2
  exact ⟨sortKeyed_invariant π hd hperm, minKeyed_invariant π hd hperm⟩

end ChythonModel.Proofs.C01
