import ChythonModel.Model.BitLayout
import Mathlib.Data.List.Nodup
namespace ChythonModel.Proofs.C09
open ChythonModel.Model.Bits ChythonModel.Model

theorem mappersWith_python (p : Iso.Problem) (cl : Iso.Closures) (lqs : List (List Iso.Step)) (cands : List (List Nat)) :
    mappersWith (fun lq c => Iso.getMapping (Iso.mkEnv p cl lq c)) p.scope lqs cands = Iso.mappersFor p cl lqs cands := by
  induction lqs generalizing cands with
  | nil => cases cands <;> rfl
  | cons lq lqs ih =>
    cases cands with
    | nil => rfl
    | cons c cs =>
      simp only [mappersWith, Iso.mappersFor, ih]
      split
      · rfl
      · cases Iso.getMapping (Iso.mkEnv p cl lq (Iso.restrict p.scope c)) with
        | none => rfl
        | some r =>
          simp only [Option.bind_eq_bind, bind, Option.bind_some]
          cases Iso.mappersFor p cl lqs cs with
          | none => rfl
          | some o => cases o <;> rfl

/-- the copy of `Isomorphism._get_mapping` used for the accelerated path is C07's function when the mapper is the Python one -/
theorem isoWith_python (p : Iso.Problem) (comps : List (List Iso.Step)) (cl : Iso.Closures) :
    isoWith (fun lq c => Iso.getMapping (Iso.mkEnv p cl lq c)) p.tComps p.scope comps = Iso.isoUnfiltered p comps cl := by
  unfold isoWith Iso.isoUnfiltered
  split
  · rfl
  · simp only [mappersWith_python]
    congr 1


theorem mapM_except_length {ε α β} (f : α → Except ε β) : ∀ (l : List α) (r : List β), l.mapM f = .ok r → r.length = l.length := by
  intro l
  induction l with
  | nil => intro r h; simp [List.mapM_nil, pure, Except.pure] at h; subst h; rfl
  | cons a l ih =>
    intro r h
    rw [List.mapM_cons] at h
    cases hfa : f a with
    | error e => simp [hfa, bind, Except.bind] at h
    | ok b =>
      cases hl : l.mapM f with
      | error e => simp [hfa, hl, bind, Except.bind] at h
      | ok r' =>
        simp [hfa, hl, bind, Except.bind, pure, Except.pure] at h
        subst h
        simp [ih r' hl]

/-- the offsets of the second loop of `_cython_compiled_structure`: row `k` of `_bonds` occupies `bonds[s : s + len]` -/
theorem molBonds_rows (ids bits1 : List Nat) :
    ∀ (adj : List (Nat × List (Nat × Query.MBond))) (start : Nat) (offs : List (Nat × Nat × Nat)) (bonds : List CBond),
      molBonds ids bits1 adj start = .ok (offs, bonds) →
      offs.length = adj.length ∧
      ∀ (k n : Nat) (ms : List (Nat × Query.MBond)), adj[k]? = some (n, ms) →
        ∃ (i : Nat) (bs : List CBond) (s : Nat), indexOf? ids n = some i ∧ rowBonds ids bits1 ms = .ok bs ∧ offs[k]? = some (i, s, s + ms.length) ∧
          start ≤ s ∧ s + ms.length ≤ start + bonds.length ∧ (bonds.drop (s - start)).take ms.length = bs := by
  intro adj
  induction adj with
  | nil =>
    intro start offs bonds h
    simp [molBonds] at h
    obtain ⟨rfl, rfl⟩ := h
    exact ⟨rfl, by intro k n ms hk; simp at hk⟩
  | cons row rest ih =>
    intro start offs bonds h
    obtain ⟨n, ms⟩ := row
    simp only [molBonds, bind, Except.bind] at h
    cases hi : indexOf? ids n with
    | none => simp [hi] at h
    | some i =>
      simp only [hi, pure, Except.pure] at h
      cases hb : rowBonds ids bits1 ms with
      | error e => simp [hb] at h
      | ok bs =>
        simp only [hb] at h
        cases hr : molBonds ids bits1 rest (start + ms.length) with
        | error e => simp [hr] at h
        | ok res =>
          obtain ⟨offs', tl⟩ := res
          simp only [hr, Except.ok.injEq, Prod.mk.injEq] at h
          obtain ⟨rfl, rfl⟩ := h
          obtain ⟨hlen, hrows⟩ := ih (start + ms.length) offs' tl hr
          have hbl : bs.length = ms.length := mapM_except_length _ ms bs hb
          refine ⟨by simp [hlen], ?_⟩
          intro k n' ms' hk
          cases k with
          | zero =>
            simp only [List.getElem?_cons_zero, Option.some.injEq, Prod.mk.injEq] at hk
            obtain ⟨rfl, rfl⟩ := hk
            refine ⟨i, bs, start, hi, hb, by simp, Nat.le_refl _, by simp [hbl], ?_⟩
            simp [hbl]
          | succ k =>
            simp only [List.getElem?_cons_succ] at hk
            obtain ⟨i', bs', s, h1, h2, h3, h4, h5, h6⟩ := hrows k n' ms' hk
            refine ⟨i', bs', s, h1, h2, by simpa using h3, by omega, by simp [List.length_append, hbl]; omega, ?_⟩
            have : s - start = bs.length + (s - (start + ms.length)) := by omega
            rw [this, ← List.drop_drop, List.drop_left]
            exact h6


theorem mapM_except_get {ε α β} (f : α → Except ε β) : ∀ (l : List α) (r : List β), l.mapM f = .ok r →
    ∀ (i : Nat) (x : α), l[i]? = some x → ∃ y, f x = .ok y ∧ r[i]? = some y := by
  intro l
  induction l with
  | nil => intro r _ i x hx; simp at hx
  | cons a l ih =>
    intro r h i x hx
    rw [List.mapM_cons] at h
    cases hfa : f a with
    | error e => simp [hfa, bind, Except.bind] at h
    | ok b =>
      cases hl : l.mapM f with
      | error e => simp [hfa, hl, bind, Except.bind] at h
      | ok r' =>
        simp [hfa, hl, bind, Except.bind, pure, Except.pure] at h
        subst h
        cases i with
        | zero => simp at hx; subst hx; exact ⟨b, hfa, by simp⟩
        | succ i => simp at hx; obtain ⟨y, hy, hr⟩ := ih r' hl i x hx; exact ⟨y, hy, by simpa using hr⟩

theorem indexOf_nodup (ids : List Nat) (hnd : ids.Nodup) (i : Nat) (n : Nat) (h : ids[i]? = some n) : indexOf? ids n = some i := by
  unfold indexOf?
  rw [List.findIdx?_eq_some_iff_getElem]
  obtain ⟨hi, he⟩ := List.getElem?_eq_some_iff.mp h
  refine ⟨hi, by simp [he], ?_⟩
  intro j hj
  have : ids[j] ≠ n := by
    intro e
    have := (List.Nodup.getElem_inj_iff hnd (hi := by omega) (hj := hi)).mp (e.trans he.symm)
    omega
  simp [this]

theorem offOf_unique (offs : List (Nat × Nat × Nat)) (hk : ∀ (k : Nat) (e : Nat × Nat × Nat), offs[k]? = some e → e.1 = k) (i : Nat) (e : Nat × Nat × Nat)
    (h : offs[i]? = some e) : offOf offs i = (e.2.1, e.2.2) := by
  unfold offOf
  have hfind : offs.reverse.find? (·.1 == i) = some e := by
    rw [List.find?_eq_some_iff_getElem]
    obtain ⟨hi, he⟩ := List.getElem?_eq_some_iff.mp h
    have hlen : offs.reverse.length = offs.length := List.length_reverse
    refine ⟨by simp [hk i e h], offs.length - 1 - i, by rw [hlen]; omega, ?_, ?_⟩
    · rw [List.getElem_reverse]
      have : offs.length - 1 - (offs.length - 1 - i) = i := by omega
      simp only [this, he]
    · intro j hj
      rw [List.getElem_reverse]
      have hj' : offs.length - 1 - j < offs.length := by omega
      have := hk (offs.length - 1 - j) offs[offs.length - 1 - j] (List.getElem?_eq_getElem hj')
      have hne : (offs[offs.length - 1 - j]).1 ≠ i := by rw [this]; omega
      simp [hne]
  rw [hfind]


theorem molWords_get (m : LMol) (ws : List Words) (h : molWords m = .ok ws) :
    ws.length = m.atoms.length ∧
    ∀ (i n : Nat) (a : Query.MAtom), m.atoms[i]? = some (n, a) → ∃ mdl, mdlOf a.z = some mdl ∧ ws[i]? = some (atomWords mdl a) := by
  unfold molWords at h
  refine ⟨mapM_except_length _ _ _ h, ?_⟩
  intro i n a hi
  obtain ⟨y, hy, hr⟩ := mapM_except_get _ _ _ h i (n, a) hi
  simp only at hy
  cases hm : mdlOf a.z with
  | none => rw [hm] at hy; simp at hy
  | some mdl =>
    rw [hm] at hy
    simp only at hy
    split at hy
    · simp at hy
    · simp only [Except.ok.injEq] at hy
      exact ⟨mdl, rfl, by rw [hr, hy]⟩

/-- **layout of the structure buffer**: `_cython_compiled_structure` stores atom `i` of `_atoms` at index `i` with its four words and
    its number, and `o_from/o_to` delimit exactly the encoded row of `_bonds` of that atom (`_bonds` keyed like `_atoms`) -/
theorem encStructure_layout (m : LMol) (cm : CMol) (h : encStructure m = .ok cm) (hkeys : m.adj.map (·.1) = m.ids)
    (hnd : m.ids.Nodup) :
    cm.atoms.length = m.atoms.length ∧
    ∀ (i n : Nat) (a : Query.MAtom) (ms : List (Nat × Query.MBond)), m.atoms[i]? = some (n, a) → m.adj[i]? = some (n, ms) →
      ∃ (ca : CAtom) (mdl : Nat) (ws : List Words) (bs : List CBond),
        cm.atoms[i]? = some ca ∧ mdlOf a.z = some mdl ∧ (⟨ca.b1, ca.b2, ca.b3, ca.b4⟩ : Words) = atomWords mdl a ∧ ca.mapping = n ∧
        molWords m = .ok ws ∧ rowBonds m.ids (ws.map (·.v1)) ms = .ok bs ∧ slice? cm.bonds ca.from_ ca.to_ = some bs := by
  unfold encStructure at h
  simp only [bind, Except.bind] at h
  cases hw : molWords m with
  | error e => simp [hw] at h
  | ok ws =>
    simp only [hw] at h
    cases hb : molBonds m.ids (ws.map (·.v1)) m.adj 0 with
    | error e => simp [hb] at h
    | ok res =>
      obtain ⟨offs, bonds⟩ := res
      simp only [hb] at h
      split at h
      · simp only [pure, Except.pure, Except.ok.injEq] at h
        subst h
        obtain ⟨hwl, hwg⟩ := molWords_get m ws hw
        obtain ⟨hol, hrows⟩ := molBonds_rows m.ids (ws.map (·.v1)) m.adj 0 offs bonds hb
        have hidl : m.ids.length = m.atoms.length := by simp [LMol.ids]
        refine ⟨by simp [hwl, hidl], ?_⟩
        intro i n a ms hia hadj
        obtain ⟨mdl, hmdl, hwi⟩ := hwg i n a hia
        have hidi : m.ids[i]? = some n := by simp [LMol.ids, hia]
        obtain ⟨i', bs, s, h1, h2, h3, _, h5, h6⟩ := hrows i n ms hadj
        have hii : i' = i := by
          have := indexOf_nodup m.ids hnd i n hidi
          rw [this] at h1; exact (Option.some.inj h1).symm
        subst hii
        -- every offs entry carries its own position
        have hkpos : ∀ (k : Nat) (e : Nat × Nat × Nat), offs[k]? = some e → e.1 = k := by
          intro k e hk
          have hkl : k < m.adj.length := by
            rw [← hol]; exact (List.getElem?_eq_some_iff.mp hk).1
          obtain ⟨nk, msk⟩ := m.adj[k]
          obtain ⟨ik, _, sk, g1, _, g3, _⟩ := hrows k (m.adj[k]).1 (m.adj[k]).2 (by simp [List.getElem?_eq_getElem hkl])
          rw [hk] at g3
          have hidk : m.ids[k]? = some (m.adj[k]).1 := by
            rw [← hkeys]; simp [List.getElem?_eq_getElem hkl]
          have := indexOf_nodup m.ids hnd k _ hidk
          rw [this] at g1
          have : ik = k := (Option.some.inj g1).symm
          rw [← this]
          exact (congrArg (·.1) (Option.some.inj g3))
        have hoff := offOf_unique offs hkpos i' _ h3
        simp only at hoff
        have hil : i' < (ws.zip m.ids).length := by
          have := (List.getElem?_eq_some_iff.mp hwi).1
          have := (List.getElem?_eq_some_iff.mp hidi).1
          simp [List.length_zip]; omega
        refine ⟨⟨(atomWords mdl a).v1, (atomWords mdl a).v2, (atomWords mdl a).v3, (atomWords mdl a).v4, s, s + ms.length, n⟩,
          mdl, ws, bs, ?_, hmdl, rfl, rfl, rfl, h2, ?_⟩
        · rw [List.getElem?_map, List.getElem?_zipIdx]
          have hz : (ws.zip m.ids)[i']? = some (atomWords mdl a, n) := by
            rw [List.getElem?_zip_eq_some]; exact ⟨hwi, hidi⟩
          simp only [hz, Option.map_some, Nat.zero_add, hoff]
        · unfold slice?
          have : s ≤ s + ms.length := by omega
          simp only [this, if_true]
          have h5' : s + ms.length ≤ bonds.length := by omega
          simp only [h5', if_true]
          have : s + ms.length - s = ms.length := by omega
          rw [this]
          simpa using h6
      · simp at h


theorem indexOf_get (keys : List Nat) (n i : Nat) (h : indexOf? keys n = some i) : keys[i]? = some n := by
  unfold indexOf? at h
  rw [List.findIdx?_eq_some_iff_getElem] at h
  obtain ⟨hi, he, _⟩ := h
  rw [List.getElem?_eq_getElem hi]
  simp only [beq_iff_eq] at he
  rw [he]

/-- the closure rows of `_cython_compiled_query`: every kept `closures` entry occupies `bonds[s : s + len]` -/
theorem closureRows_spec (q : LQuery) (fronts : List Nat) :
    ∀ (cl : Iso.Closures) (start : Nat) (rows : List (Nat × Nat × Nat × Nat)) (bonds : List CBond),
      closureRows q fronts cl start = .ok (rows, bonds) →
      (∀ (n : Nat) (ms : List Nat) (i : Nat), (n, ms) ∈ cl → indexOf? fronts n = some i → ms ≠ [] →
        ∃ (bs : List CBond) (s : Nat), closureBonds q fronts n ms = .ok bs ∧ (i, ms.length, s, s + ms.length) ∈ rows ∧
          start ≤ s ∧ s + ms.length ≤ start + bonds.length ∧ (bonds.drop (s - start)).take ms.length = bs) ∧
      (∀ r ∈ rows, ∃ (n : Nat) (ms : List Nat), (n, ms) ∈ cl ∧ indexOf? fronts n = some r.1 ∧ ms ≠ []) := by
  intro cl
  induction cl with
  | nil =>
    intro start rows bonds h
    simp [closureRows] at h
    obtain ⟨rfl, rfl⟩ := h
    exact ⟨by intro n ms i hm; simp at hm, by intro r hr; simp at hr⟩
  | cons ent rest ih =>
    intro start rows bonds h
    obtain ⟨n0, ms0⟩ := ent
    unfold closureRows at h
    cases hi : indexOf? fronts n0 with
    | none =>
      simp only [hi] at h
      obtain ⟨h1, h2⟩ := ih start rows bonds h
      refine ⟨?_, ?_⟩
      · intro n ms i hm hidx hne
        rcases List.mem_cons.mp hm with he | hm'
        · simp only [Prod.mk.injEq] at he; obtain ⟨rfl, rfl⟩ := he; rw [hi] at hidx; simp at hidx
        · exact h1 n ms i hm' hidx hne
      · intro r hr
        obtain ⟨n, ms, hm, hx⟩ := h2 r hr
        exact ⟨n, ms, List.mem_cons_of_mem _ hm, hx⟩
    | some i0 =>
      simp only [hi] at h
      by_cases hemp : ms0.isEmpty = true
      · simp only [hemp, if_true] at h
        obtain ⟨h1, h2⟩ := ih start rows bonds h
        refine ⟨?_, ?_⟩
        · intro n ms i hm hidx hne
          rcases List.mem_cons.mp hm with he | hm'
          · simp only [Prod.mk.injEq] at he; obtain ⟨rfl, rfl⟩ := he
            exact absurd (List.isEmpty_iff.mp hemp) hne
          · exact h1 n ms i hm' hidx hne
        · intro r hr
          obtain ⟨n, ms, hm, hx⟩ := h2 r hr
          exact ⟨n, ms, List.mem_cons_of_mem _ hm, hx⟩
      · simp only [hemp, Bool.false_eq_true, if_false, bind, Except.bind] at h
        cases hb : closureBonds q fronts n0 ms0 with
        | error e => simp [hb] at h
        | ok bs =>
          simp only [hb] at h
          cases hr : closureRows q fronts rest (start + ms0.length) with
          | error e => simp [hr] at h
          | ok res =>
            obtain ⟨rows', tl⟩ := res
            simp only [hr, pure, Except.pure, Except.ok.injEq, Prod.mk.injEq] at h
            obtain ⟨rfl, rfl⟩ := h
            obtain ⟨h1, h2⟩ := ih (start + ms0.length) rows' tl hr
            have hbl : bs.length = ms0.length := mapM_except_length _ ms0 bs hb
            refine ⟨?_, ?_⟩
            · intro n ms i hm hidx hne
              rcases List.mem_cons.mp hm with he | hm'
              · simp only [Prod.mk.injEq] at he; obtain ⟨rfl, rfl⟩ := he
                rw [hi] at hidx; obtain rfl := Option.some.inj hidx
                refine ⟨bs, start, hb, by simp, Nat.le_refl _, by simp [hbl], ?_⟩
                simp [hbl]
              · obtain ⟨bs', s, g1, g2, g3, g4, g5⟩ := h1 n ms i hm' hidx hne
                refine ⟨bs', s, g1, List.mem_cons_of_mem _ g2, by omega, by simp [List.length_append, hbl]; omega, ?_⟩
                have : s - start = bs.length + (s - (start + ms0.length)) := by omega
                rw [this, ← List.drop_drop, List.drop_left]
                exact g5
            · intro r hr'
              rcases List.mem_cons.mp hr' with he | hr''
              · subst he
                exact ⟨n0, ms0, by simp, hi, fun e => hemp (by simp [e])⟩
              · obtain ⟨n, ms, hm, hx⟩ := h2 r hr''
                exact ⟨n, ms, List.mem_cons_of_mem _ hm, hx⟩


theorem closureRows_nodup (q : LQuery) (fronts : List Nat) :
    ∀ (cl : Iso.Closures) (start : Nat) (rows : List (Nat × Nat × Nat × Nat)) (bonds : List CBond),
      closureRows q fronts cl start = .ok (rows, bonds) → (cl.map (·.1)).Nodup → (rows.map (·.1)).Nodup := by
  intro cl
  induction cl with
  | nil =>
    intro start rows bonds h _
    simp [closureRows] at h
    obtain ⟨rfl, rfl⟩ := h
    simp
  | cons ent rest ih =>
    intro start rows bonds h hnd
    obtain ⟨n0, ms0⟩ := ent
    have hnd' : n0 ∉ rest.map (·.1) ∧ (rest.map (·.1)).Nodup := by
      rw [List.map_cons] at hnd; exact List.nodup_cons.mp hnd
    unfold closureRows at h
    cases hi : indexOf? fronts n0 with
    | none => simp only [hi] at h; exact ih start rows bonds h hnd'.2
    | some i0 =>
      simp only [hi] at h
      by_cases hemp : ms0.isEmpty = true
      · simp only [hemp, if_true] at h; exact ih start rows bonds h hnd'.2
      · simp only [hemp, Bool.false_eq_true, if_false, bind, Except.bind] at h
        cases hb : closureBonds q fronts n0 ms0 with
        | error e => simp [hb] at h
        | ok bs =>
          simp only [hb] at h
          cases hr : closureRows q fronts rest (start + ms0.length) with
          | error e => simp [hr] at h
          | ok res =>
            obtain ⟨rows', tl⟩ := res
            simp only [hr, pure, Except.pure, Except.ok.injEq, Prod.mk.injEq] at h
            obtain ⟨rfl, rfl⟩ := h
            have ihn := ih (start + ms0.length) rows' tl hr hnd'.2
            obtain ⟨_, h2⟩ := closureRows_spec q fronts rest (start + ms0.length) rows' tl hr
            simp only [List.map_cons, List.nodup_cons]
            refine ⟨?_, ihn⟩
            intro hmem
            obtain ⟨r, hr', hr1⟩ := List.mem_map.mp hmem
            obtain ⟨n, ms, hm, hx, _⟩ := h2 r hr'
            rw [hr1] at hx
            have e1 := indexOf_get fronts n i0 hx
            have e2 := indexOf_get fronts n0 i0 hi
            rw [e1] at e2
            obtain rfl := Option.some.inj e2
            exact hnd'.1 (List.mem_map.mpr ⟨(n, ms), hm, rfl⟩)

theorem rowOf_mem (rows : List (Nat × Nat × Nat × Nat)) (hnd : (rows.map (·.1)).Nodup) (i c f t : Nat)
    (h : (i, c, f, t) ∈ rows) : rowOf rows i = (c, f, t) := by
  unfold rowOf
  have : rows.reverse.find? (·.1 == i) = some (i, c, f, t) := by
    have hnd' : (rows.reverse.map (·.1)).Nodup := by rw [List.map_reverse]; exact List.nodup_reverse.mpr hnd
    have hm : (i, c, f, t) ∈ rows.reverse := List.mem_reverse.mpr h
    generalize rows.reverse = l at hnd' hm
    induction l with
    | nil => simp at hm
    | cons r l ih =>
      simp only [List.map_cons, List.nodup_cons] at hnd'
      rcases List.mem_cons.mp hm with he | hm'
      · subst he; simp
      · have : r.1 ≠ i := by
          intro e; apply hnd'.1; rw [e]; exact List.mem_map.mpr ⟨_, hm', rfl⟩
        rw [List.find?_cons]
        have : (r.1 == i) = false := by simp [this]
        simp only [this]
        exact ih hnd'.2 hm'
  rw [this]

theorem rowOf_none (rows : List (Nat × Nat × Nat × Nat)) (i : Nat) (h : ∀ r ∈ rows, r.1 ≠ i) : rowOf rows i = (0, 0, 0) := by
  unfold rowOf
  have : rows.reverse.find? (·.1 == i) = none := by
    rw [List.find?_eq_none]; intro r hr; have := h r (List.mem_reverse.mp hr); simp [this]
  rw [this]


theorem lookup_mem_nodup (cl : Iso.Closures) (hnd : (cl.map (·.1)).Nodup) (n : Nat) (ms : List Nat) (h : (n, ms) ∈ cl) :
    cl.lookup n = some ms := by
  induction cl with
  | nil => simp at h
  | cons e rest ih =>
    have hnd' : e.1 ∉ rest.map (·.1) ∧ (rest.map (·.1)).Nodup := by
      rw [List.map_cons] at hnd; exact List.nodup_cons.mp hnd
    rcases List.mem_cons.mp h with he | h'
    · subst he; simp [List.lookup_cons]
    · have : e.1 ≠ n := fun e' => hnd'.1 (e' ▸ List.mem_map.mpr ⟨(n, ms), h', rfl⟩)
      obtain ⟨k, v⟩ := e
      simp only at this
      have hb : (n == k) = false := by simp [Ne.symm this]
      simp only [List.lookup_cons, hb]
      exact ih hnd'.2 h'

theorem lookup_some_mem (cl : Iso.Closures) (n : Nat) (ms : List Nat) (h : cl.lookup n = some ms) : (n, ms) ∈ cl := by
  induction cl with
  | nil => simp at h
  | cons e rest ih =>
    obtain ⟨k, v⟩ := e
    simp only [List.lookup_cons] at h
    by_cases hk : n = k
    · subst hk; simp at h; subst h; simp
    · have hb : (n == k) = false := by simp [hk]
      simp only [hb] at h
      exact List.mem_cons_of_mem _ (ih h)

/-- **layout of a query component buffer**: step `j` of the linearised component sits at index `j` with its four masks, its number,
    the index of its parent, and `q_from/q_to` delimit exactly its encoded closure bonds (`closure` = their number) -/
theorem encComponent_layout (q : LQuery) (cl : Iso.Closures) (comp : List Iso.Step) (cq : CQuery)
    (h : encComponent q cl comp = .ok cq) (hF : (comp.map (·.front)).Nodup) (hcl : (cl.map (·.1)).Nodup) :
    cq.atoms.length = comp.length ∧
    ∀ (j : Nat) (s : Iso.Step), comp[j]? = some s →
      ∃ (qa : CQAtom) (w : Words) (qb : List CBond),
        cq.atoms[j]? = some qa ∧ stepMask q s = .ok w ∧ (⟨qa.m1, qa.m2, qa.m3, qa.m4⟩ : Words) = w ∧ qa.mapping = s.front ∧
        (∀ b, s.back = some b → indexOf? (comp.map (·.front)) b = some qa.back) ∧ (s.back = none → qa.back = 0) ∧
        slice? cq.bonds qa.from_ qa.to_ = some qb ∧ qb.length = qa.closure ∧
        (∀ ms, cl.lookup s.front = some ms → ms ≠ [] → closureBonds q (comp.map (·.front)) s.front ms = .ok qb) ∧
        ((cl.lookup s.front = none ∨ cl.lookup s.front = some []) → qb = []) := by
  unfold encComponent at h
  simp only [bind, Except.bind] at h
  cases hm : comp.mapM (stepMask q) with
  | error e => simp [hm] at h
  | ok masks =>
    simp only [hm] at h
    cases hr : closureRows q (comp.map (·.front)) cl 0 with
    | error e => simp [hr] at h
    | ok res =>
      obtain ⟨rows, bonds⟩ := res
      simp only [hr] at h
      cases hb : comp.mapM (backIndex (comp.map (·.front))) with
      | error e => simp [hb] at h
      | ok backs =>
        simp only [hb] at h
        split at h
        · simp only [pure, Except.pure, Except.ok.injEq] at h
          subst h
          have hml := mapM_except_length _ _ _ hm
          have hbl := mapM_except_length _ _ _ hb
          obtain ⟨hspec1, hspec2⟩ := closureRows_spec q (comp.map (·.front)) cl 0 rows bonds hr
          have hrn := closureRows_nodup q (comp.map (·.front)) cl 0 rows bonds hr hcl
          refine ⟨by simp [hml, hbl], ?_⟩
          intro j s hj
          obtain ⟨w, hw, hwj⟩ := mapM_except_get _ _ _ hm j s hj
          obtain ⟨bk, hbk', hbj⟩ := mapM_except_get _ _ _ hb j s hj
          have hfj : (comp.map (·.front))[j]? = some s.front := by simp [hj]
          have hz : ((masks.zip backs).zip (comp.map (·.front)))[j]? = some ((w, bk), s.front) := by
            rw [List.getElem?_zip_eq_some]; exact ⟨by rw [List.getElem?_zip_eq_some]; exact ⟨hwj, hbj⟩, hfj⟩
          have hatom : ∀ (r : Nat × Nat × Nat), rowOf rows j = r →
              (List.map (fun (x : ((Words × Nat) × Nat) × Nat) =>
                  (⟨x.1.1.1.v1, x.1.1.1.v2, x.1.1.1.v3, x.1.1.1.v4, x.1.1.2, (rowOf rows x.2).1, (rowOf rows x.2).2.1,
                    (rowOf rows x.2).2.2, x.1.2⟩ : CQAtom))
                ((masks.zip backs).zip (comp.map (·.front))).zipIdx)[j]? =
              some ⟨w.v1, w.v2, w.v3, w.v4, bk, r.1, r.2.1, r.2.2, s.front⟩ := by
            intro r hr'
            rw [List.getElem?_map, List.getElem?_zipIdx, hz]
            simp only [Option.map_some, Nat.zero_add, hr']
          -- the parent index
          have hback1 : ∀ b, s.back = some b → indexOf? (comp.map (·.front)) b = some bk := by
            intro b hsb
            unfold backIndex at hbk'
            simp only [hsb] at hbk'
            cases hix : indexOf? (comp.map (·.front)) b with
            | none => rw [hix] at hbk'; simp at hbk'
            | some jj => rw [hix] at hbk'; simp only [Except.ok.injEq] at hbk'; rw [hbk']
          have hback2 : s.back = none → bk = 0 := by
            intro hsb
            unfold backIndex at hbk'
            simp only [hsb, Except.ok.injEq] at hbk'
            exact hbk'.symm
          have hidx : indexOf? (comp.map (·.front)) s.front = some j := indexOf_nodup _ hF j s.front hfj
          cases hlk : cl.lookup s.front with
          | none =>
            have hnone : ∀ r ∈ rows, r.1 ≠ j := by
              intro r hr' he
              obtain ⟨n, ms, hmem, hx, _⟩ := hspec2 r hr'
              rw [he] at hx
              have e1 := indexOf_get _ n j hx
              rw [hfj] at e1; obtain rfl := Option.some.inj e1
              rw [lookup_mem_nodup cl hcl _ ms hmem] at hlk; simp at hlk
            have hro := rowOf_none rows j hnone
            refine ⟨_, w, [], hatom _ hro, hw, rfl, rfl, hback1, hback2, ?_, rfl, ?_, fun _ => rfl⟩
            · simp [slice?]
            · intro ms hms; simp at hms
          | some ms =>
            by_cases hemp : ms = []
            · subst hemp
              have hnone : ∀ r ∈ rows, r.1 ≠ j := by
                intro r hr' he
                obtain ⟨n, ms', hmem, hx, hne⟩ := hspec2 r hr'
                rw [he] at hx
                have e1 := indexOf_get _ n j hx
                rw [hfj] at e1; obtain rfl := Option.some.inj e1
                rw [lookup_mem_nodup cl hcl _ ms' hmem] at hlk
                exact hne (Option.some.inj hlk)
              have hro := rowOf_none rows j hnone
              refine ⟨_, w, [], hatom _ hro, hw, rfl, rfl, hback1, hback2, ?_, rfl, ?_, fun _ => rfl⟩
              · simp [slice?]
              · intro ms' hms hne; exact absurd (Option.some.inj hms).symm hne
            · obtain ⟨bs, s0, g1, g2, _, g4, g5⟩ := hspec1 s.front ms j (lookup_some_mem cl _ _ hlk) hidx hemp
              have hro := rowOf_mem rows hrn j ms.length s0 (s0 + ms.length) g2
              have hbsl : bs.length = ms.length := mapM_except_length _ ms bs g1
              refine ⟨_, w, bs, hatom _ hro, hw, rfl, rfl, hback1, hback2, ?_, hbsl, ?_, ?_⟩
              · unfold slice?
                have h1 : s0 ≤ s0 + ms.length := by omega
                have h2 : s0 + ms.length ≤ bonds.length := by omega
                simp only [h1, h2, if_true]
                have : s0 + ms.length - s0 = ms.length := by omega
                rw [this]; simpa using g5
              · intro ms' hms _; obtain rfl := Option.some.inj hms; exact g1
              · intro hcase
                rcases hcase with hc | hc
                · simp at hc
                · exact absurd (Option.some.inj hc) hemp
        · simp at h

end ChythonModel.Proofs.C09
