import ChythonModel.Model.BitLayout
import Mathlib.Data.List.Nodup
namespace ChythonModel.Proofs.C09
open ChythonModel.Model.Bits ChythonModel.Model

theorem mappersWith_python (p : Iso.Problem) (cl : Iso.Closures) (lqs : List (List Iso.Step)) (cands : List (List Nat)) :
    mappersWith (fun lq c => Iso.getMapping (Iso.mkEnv p cl lq c)) p.scope lqs cands = Iso.mappersFor p cl lqs cands := by
  induction lqs generalizing cands with
  | nil => cases cands <;> rfl
  | cons lq lqs ih =>
    cases cands with
    | nil => rfl
    | cons c cs =>
      simp only [mappersWith, Iso.mappersFor, ih]
      split
      · rfl
      · cases Iso.getMapping (Iso.mkEnv p cl lq (Iso.restrict p.scope c)) with
        | none => rfl
        | some r =>
          simp only [Option.bind_eq_bind, bind, Option.bind_some]
          cases Iso.mappersFor p cl lqs cs with
          | none => rfl
          | some o => cases o <;> rfl

/-- the copy of `Isomorphism._get_mapping` used for the accelerated path is C07's function when the mapper is the Python one -/
theorem isoWith_python (p : Iso.Problem) (comps : List (List Iso.Step)) (cl : Iso.Closures) :
    isoWith (fun lq c => Iso.getMapping (Iso.mkEnv p cl lq c)) p.tComps p.scope comps = Iso.isoUnfiltered p comps cl := by
  unfold isoWith Iso.isoUnfiltered
  split
  · rfl
  · simp only [mappersWith_python]
    congr 1


theorem mapM_except_length {ε α β} (f : α → Except ε β) : ∀ (l : List α) (r : List β), l.mapM f = .ok r → r.length = l.length := by
  intro l
  induction l with
  | nil => intro r h; simp [List.mapM_nil, pure, Except.pure] at h; subst h; rfl
  | cons a l ih =>
    intro r h
    rw [List.mapM_cons] at h
    cases hfa : f a with
    | error e => simp [hfa, bind, Except.bind] at h
    | ok b =>
      cases hl : l.mapM f with
      | error e => simp [hfa, hl, bind, Except.bind] at h
      | ok r' =>
        simp [hfa, hl, bind, Except.bind, pure, Except.pure] at h
        subst h
        simp [ih r' hl]

/-- the offsets of the second loop of `_cython_compiled_structure`: row `k` of `_bonds` occupies `bonds[s : s + len]` -/
theorem molBonds_rows (ids bits1 : List Nat) :
    ∀ (adj : List (Nat × List (Nat × Query.MBond))) (start : Nat) (offs : List (Nat × Nat × Nat)) (bonds : List CBond),
      molBonds ids bits1 adj start = .ok (offs, bonds) →
      offs.length = adj.length ∧
      ∀ (k n : Nat) (ms : List (Nat × Query.MBond)), adj[k]? = some (n, ms) →
        ∃ (i : Nat) (bs : List CBond) (s : Nat), indexOf? ids n = some i ∧ rowBonds ids bits1 ms = .ok bs ∧ offs[k]? = some (i, s, s + ms.length) ∧
          start ≤ s ∧ s + ms.length ≤ start + bonds.length ∧ (bonds.drop (s - start)).take ms.length = bs := by
  intro adj
  induction adj with
  | nil =>
    intro start offs bonds h
    simp [molBonds] at h
    obtain ⟨rfl, rfl⟩ := h
    exact ⟨rfl, by intro k n ms hk; simp at hk⟩
  | cons row rest ih =>
    intro start offs bonds h
    obtain ⟨n, ms⟩ := row
    simp only [molBonds, bind, Except.bind] at h
    cases hi : indexOf? ids n with
    | none => simp [hi] at h
    | some i =>
      simp only [hi, pure, Except.pure] at h
      cases hb : rowBonds ids bits1 ms with
      | error e => simp [hb] at h
      | ok bs =>
        simp only [hb] at h
        cases hr : molBonds ids bits1 rest (start + ms.length) with
        | error e => simp [hr] at h
        | ok res =>
          obtain ⟨offs', tl⟩ := res
          simp only [hr, Except.ok.injEq, Prod.mk.injEq] at h
          obtain ⟨rfl, rfl⟩ := h
          obtain ⟨hlen, hrows⟩ := ih (start + ms.length) offs' tl hr
          have hbl : bs.length = ms.length := mapM_except_length _ ms bs hb
          refine ⟨by simp [hlen], ?_⟩
          intro k n' ms' hk
          cases k with
          | zero =>
            simp only [List.getElem?_cons_zero, Option.some.injEq, Prod.mk.injEq] at hk
            obtain ⟨rfl, rfl⟩ := hk
            refine ⟨i, bs, start, hi, hb, by simp, Nat.le_refl _, by simp [hbl], ?_⟩
            simp [hbl]
          | succ k =>
            simp only [List.getElem?_cons_succ] at hk
            obtain ⟨i', bs', s, h1, h2, h3, h4, h5, h6⟩ := hrows k n' ms' hk
            refine ⟨i', bs', s, h1, h2, by simpa using h3, by omega, by simp [List.length_append, hbl]; omega, ?_⟩
            have : s - start = bs.length + (s - (start + ms.length)) := by omega
            rw [this, ← List.drop_drop, List.drop_left]
            exact h6


theorem mapM_except_get {ε α β} (f : α → Except ε β) : ∀ (l : List α) (r : List β), l.mapM f = .ok r →
    ∀ (i : Nat) (x : α), l[i]? = some x → ∃ y, f x = .ok y ∧ r[i]? = some y := by
  intro l
  induction l with
  | nil => intro r _ i x hx; simp at hx
  | cons a l ih =>
    intro r h i x hx
    rw [List.mapM_cons] at h
    cases hfa : f a with
    | error e => simp [hfa, bind, Except.bind] at h
    | ok b =>
      cases hl : l.mapM f with
      | error e => simp [hfa, hl, bind, Except.bind] at h
      | ok r' =>
        simp [hfa, hl, bind, Except.bind, pure, Except.pure] at h
        subst h
        cases i with
        | zero => simp at hx; subst hx; exact ⟨b, hfa, by simp⟩
        | succ i => simp at hx; obtain ⟨y, hy, hr⟩ := ih r' hl i x hx; exact ⟨y, hy, by simpa using hr⟩

theorem indexOf_nodup (ids : List Nat) (hnd : ids.Nodup) (i : Nat) (n : Nat) (h : ids[i]? = some n) : indexOf? ids n = some i := by
  unfold indexOf?
  rw [List.findIdx?_eq_some_iff_getElem]
  obtain ⟨hi, he⟩ := List.getElem?_eq_some_iff.mp h
  refine ⟨hi, by simp [he], ?_⟩
  intro j hj
  have : ids[j] ≠ n := by
    intro e
    have := (List.Nodup.getElem_inj_iff hnd (hi := by omega) (hj := hi)).mp (e.trans he.symm)
    omega
  simp [this]

theorem offOf_unique (offs : List (Nat × Nat × Nat)) (hk : ∀ (k : Nat) (e : Nat × Nat × Nat), offs[k]? = some e → e.1 = k) (i : Nat) (e : Nat × Nat × Nat)
    (h : offs[i]? = some e) : offOf offs i = (e.2.1, e.2.2) := by
  unfold offOf
  have hfind : offs.reverse.find? (·.1 == i) = some e := by
    rw [List.find?_eq_some_iff_getElem]
    obtain ⟨hi, he⟩ := List.getElem?_eq_some_iff.mp h
    have hlen : offs.reverse.length = offs.length := List.length_reverse
    refine ⟨by simp [hk i e h], offs.length - 1 - i, by rw [hlen]; omega, ?_, ?_⟩
    · rw [List.getElem_reverse]
      have : offs.length - 1 - (offs.length - 1 - i) = i := by omega
      simp only [this, he]
    · intro j hj
      rw [List.getElem_reverse]
      have hj' : offs.length - 1 - j < offs.length := by omega
      have := hk (offs.length - 1 - j) offs[offs.length - 1 - j] (List.getElem?_eq_getElem hj')
      have hne : (offs[offs.length - 1 - j]).1 ≠ i := by rw [this]; omega
      simp [hne]
  rw [hfind]


theorem molWords_get (m : LMol) (ws : List Words) (h : molWords m = .ok ws) :
    ws.length = m.atoms.length ∧
    ∀ (i n : Nat) (a : Query.MAtom), m.atoms[i]? = some (n, a) → ∃ mdl, mdlOf a.z = some mdl ∧ ws[i]? = some (atomWords mdl a) := by
  unfold molWords at h
  refine ⟨mapM_except_length _ _ _ h, ?_⟩
  intro i n a hi
  obtain ⟨y, hy, hr⟩ := mapM_except_get _ _ _ h i (n, a) hi
  simp only at hy
  cases hm : mdlOf a.z with
  | none => rw [hm] at hy; simp at hy
  | some mdl =>
    rw [hm] at hy
    simp only at hy
    split at hy
    · simp at hy
    · simp only [Except.ok.injEq] at hy
      exact ⟨mdl, rfl, by rw [hr, hy]⟩

/-- **layout of the structure buffer**: `_cython_compiled_structure` stores atom `i` of `_atoms` at index `i` with its four words and
    its number, and `o_from/o_to` delimit exactly the encoded row of `_bonds` of that atom (`_bonds` keyed like `_atoms`) -/
theorem encStructure_layout (m : LMol) (cm : CMol) (h : encStructure m = .ok cm) (hkeys : m.adj.map (·.1) = m.ids)
    (hnd : m.ids.Nodup) :
    cm.atoms.length = m.atoms.length ∧
    ∀ (i n : Nat) (a : Query.MAtom) (ms : List (Nat × Query.MBond)), m.atoms[i]? = some (n, a) → m.adj[i]? = some (n, ms) →
      ∃ (ca : CAtom) (mdl : Nat) (ws : List Words) (bs : List CBond),
        cm.atoms[i]? = some ca ∧ mdlOf a.z = some mdl ∧ (⟨ca.b1, ca.b2, ca.b3, ca.b4⟩ : Words) = atomWords mdl a ∧ ca.mapping = n ∧
        molWords m = .ok ws ∧ rowBonds m.ids (ws.map (·.v1)) ms = .ok bs ∧ slice? cm.bonds ca.from_ ca.to_ = some bs := by
  unfold encStructure at h
  simp only [bind, Except.bind] at h
  cases hw : molWords m with
  | error e => simp [hw] at h
  | ok ws =>
    simp only [hw] at h
    cases hb : molBonds m.ids (ws.map (·.v1)) m.adj 0 with
    | error e => simp [hb] at h
    | ok res =>
      obtain ⟨offs, bonds⟩ := res
      simp only [hb] at h
      split at h
      · simp only [pure, Except.pure, Except.ok.injEq] at h
        subst h
        obtain ⟨hwl, hwg⟩ := molWords_get m ws hw
        obtain ⟨hol, hrows⟩ := molBonds_rows m.ids (ws.map (·.v1)) m.adj 0 offs bonds hb
        have hidl : m.ids.length = m.atoms.length := by simp [LMol.ids]
        refine ⟨by simp [hwl, hidl], ?_⟩
        intro i n a ms hia hadj
        obtain ⟨mdl, hmdl, hwi⟩ := hwg i n a hia
        have hidi : m.ids[i]? = some n := by simp [LMol.ids, hia]
        obtain ⟨i', bs, s, h1, h2, h3, _, h5, h6⟩ := hrows i n ms hadj
        have hii : i' = i := by
          have := indexOf_nodup m.ids hnd i n hidi
          rw [this] at h1; exact (Option.some.inj h1).symm
        subst hii
        -- every offs entry carries its own position
        have hkpos : ∀ (k : Nat) (e : Nat × Nat × Nat), offs[k]? = some e → e.1 = k := by
          intro k e hk
          have hkl : k < m.adj.length := by
            rw [← hol]; exact (List.getElem?_eq_some_iff.mp hk).1
          obtain ⟨nk, msk⟩ := m.adj[k]
          obtain ⟨ik, _, sk, g1, _, g3, _⟩ := hrows k (m.adj[k]).1 (m.adj[k]).2 (by simp [List.getElem?_eq_getElem hkl])
          rw [hk] at g3
          have hidk : m.ids[k]? = some (m.adj[k]).1 := by
            rw [← hkeys]; simp [List.getElem?_eq_getElem hkl]
          have := indexOf_nodup m.ids hnd k _ hidk
          rw [this] at g1
          have : ik = k := (Option.some.inj g1).symm
          rw [← this]
          exact (congrArg (·.1) (Option.some.inj g3))
        have hoff := offOf_unique offs hkpos i' _ h3
        simp only at hoff
        have hil : i' < (ws.zip m.ids).length := by
          have := (List.getElem?_eq_some_iff.mp hwi).1
          have := (List.getElem?_eq_some_iff.mp hidi).1
          simp [List.length_zip]; omega
        refine ⟨⟨(atomWords mdl a).v1, (atomWords mdl a).v2, (atomWords mdl a).v3, (atomWords mdl a).v4, s, s + ms.length, n⟩,
          mdl, ws, bs, ?_, hmdl, rfl, rfl, rfl, h2, ?_⟩
        · rw [List.getElem?_map, List.getElem?_zipIdx]
          have hz : (ws.zip m.ids)[i']? = some (atomWords mdl a, n) := by
            rw [List.getElem?_zip_eq_some]; exact ⟨hwi, hidi⟩
          simp only [hz, Option.map_some, Nat.zero_add, hoff]
        · unfold slice?
          have : s ≤ s + ms.length := by omega
          simp only [this, if_true]
          have h5' : s + ms.length ≤ bonds.length := by omega
          simp only [h5', if_true]
          have : s + ms.length - s = ms.length := by omega
          rw [this]
          simpa using h6
      · simp at h


end ChythonModel.Proofs.C09
