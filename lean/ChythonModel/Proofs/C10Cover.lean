import ChythonModel.Proofs.C10PerceiveWF
/-!
# C10: completeness of the outer loop — every terminal is an end of a reported group
-/
namespace ChythonModel.Proofs.C10
open ChythonModel.Model.Pack ChythonModel.Gen ChythonModel.Spec.Cumulene

/-- `t` is the first atom of the group, or the terminal in which a complete chain ended -/
def EndOf (t : Nat) (w : Walk) : Prop := (walkPath w).head? = some t ∨ ∃ p, w = .chain p t

theorem cumLoop_cover {atoms : List PAtom} (g : GraphOK atoms) : ∀ (f : Nat) (terms : List Nat) (ws : List Walk),
    cumLoop atoms f terms = .ok ws → ∀ t ∈ terms, ∃ w ∈ ws, EndOf t w
  | _, [], _, _, t, ht => by simp at ht
  | 0, _ :: _, _, h, _, _ => by simp [cumLoop] at h
  | f + 1, n :: terms, ws, h, t, ht => by
    unfold cumLoop at h
    split at h
    · simp at h
    · rename_i m hm
      have hnm := popOnly_ok hm
      have hmn : m ∈ dblAdj atoms n := by rw [hnm]; simp
      have hrun0 : Run can atoms ([] ++ [n, m]) :=
        ⟨by simp, ⟨dbl_to_DB hmn, trivial⟩, by intro x hx; simp [interior] at hx⟩
      split at h
      · simp at h
      · rename_i p l hw
        obtain ⟨_, tl, htl⟩ := walk_sound g terms _ n m [] _ hw hrun0 (dbl_symm g hmn)
        simp only [walkPath, List.nil_append] at htl
        split at h
        · simp at h
        · rename_i r hr
          simp only [Except.ok.injEq] at h; subst h
          rcases List.mem_cons.mp ht with rfl | ht'
          · exact ⟨.chain p l, by simp, Or.inl (by simp [walkPath, htl])⟩
          · by_cases htl' : t = l
            · subst htl'; exact ⟨.chain p t, by simp, Or.inr ⟨p, rfl⟩⟩
            · obtain ⟨w, hw', he⟩ := cumLoop_cover g f (terms.erase l) r hr t ((List.mem_erase_of_ne htl').mpr ht')
              exact ⟨w, by simp [hw'], he⟩
      · rename_i p hw
        obtain ⟨_, tl, htl⟩ := walk_sound g terms _ n m [] _ hw hrun0 (dbl_symm g hmn)
        simp only [walkPath, List.nil_append] at htl
        split at h
        · simp at h
        · rename_i r hr
          simp only [Except.ok.injEq] at h; subst h
          rcases List.mem_cons.mp ht with rfl | ht'
          · exact ⟨.broken p, by simp, Or.inl (by simp [walkPath, htl])⟩
          · obtain ⟨w, hw', he⟩ := cumLoop_cover g f terms r hr t ht'
            exact ⟨w, by simp [hw'], he⟩

/-- an atom with exactly one double bond to a double-bond-forming atom (both able to carry it) is in the terminal list -/
theorem terminal_iff {atoms : List PAtom} (g : GraphOK atoms) (t : Nat) :
    t ∈ terminals0 atoms ↔ ∃ y, dblAdj atoms t = [y] :=
  ⟨mem_terminals0 g.nodup, fun ⟨_, h⟩ => terminal_of_single h⟩

/-- **completeness**: every atom that has exactly one double-bond partner is the first atom of a reported group or the last atom
    of a reported complete chain — no end of a chain of cumulated double bonds is missed -/
theorem terminals_covered {atoms : List PAtom} (g : GraphOK atoms) {ws : List Walk} (h : cumulenesTagged atoms = .ok ws)
    {t y : Nat} (ht : dblAdj atoms t = [y]) : ∃ w ∈ ws, EndOf t w :=
  cumLoop_cover g _ _ ws h t (terminal_of_single ht)

end ChythonModel.Proofs.C10
