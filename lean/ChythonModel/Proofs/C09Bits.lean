import ChythonModel.Model.BitLayout
/-!
# C09 — bit-level lemmas (helper file for `Props/C09.lean`)
-/
namespace ChythonModel.Proofs.C09
open ChythonModel.Model.Bits ChythonModel.Gen.Bits ChythonModel.Model.Query

/-- `m & b == b` says: every bit of `b` is a bit of `m` -/
theorem and_eq_self_iff (m b : Nat) : m &&& b = b ↔ ∀ i, b.testBit i = true → m.testBit i = true := by
  constructor
  · intro h i hb
    have := congrArg (·.testBit i) h
    simp [Nat.testBit_and, hb] at this
    exact this
  · intro h
    apply Nat.eq_of_testBit_eq
    intro i
    simp only [Nat.testBit_and]
    cases hb : b.testBit i
    · simp
    · simp [h i hb]

theorem testBit_orShifts (off : Nat) (S : List Nat) (i : Nat) :
    (orShifts off S).testBit i = S.any (fun s => s + off == i) := by
  induction S with
  | nil => simp [orShifts]
  | cons x xs ih =>
    simp only [orShifts, Nat.testBit_or, ih, List.any_cons, Nat.one_shiftLeft, Nat.testBit_two_pow]
    congr 1

theorem sub_orShifts (m : Nat) (P : List Nat) :
    (m &&& orShifts 0 P == orShifts 0 P) = P.all (m.testBit ·) := by
  rw [Bool.eq_iff_iff, beq_iff_eq, and_eq_self_iff]
  simp only [testBit_orShifts, List.any_eq_true, List.all_eq_true, Nat.add_zero, beq_iff_eq]
  constructor
  · intro h p hp; exact h p ⟨p, hp, rfl⟩
  · rintro h i ⟨p, hp, rfl⟩; exact h p hp

theorem meet_orShifts (m : Nat) (P : List Nat) :
    (m &&& orShifts 0 P != 0) = P.any (m.testBit ·) := by
  rw [Bool.eq_iff_iff, bne_iff_ne]
  simp only [List.any_eq_true]
  constructor
  · intro h
    obtain ⟨i, hi⟩ := Nat.exists_testBit_of_ne_zero h
    simp only [Nat.testBit_and, testBit_orShifts, Bool.and_eq_true, List.any_eq_true, Nat.add_zero, beq_iff_eq] at hi
    obtain ⟨hm, p, hp, rfl⟩ := hi
    exact ⟨p, hp, hm⟩
  · rintro ⟨p, hp, hm⟩ h0
    have : (m &&& orShifts 0 P).testBit p = true := by
      simp only [Nat.testBit_and, testBit_orShifts, hm, Bool.true_and, List.any_eq_true, Nat.add_zero, beq_iff_eq]
      exact ⟨p, hp, rfl⟩
    rw [h0] at this
    simp at this

def pos1 (a : MAtom) : Nat := if a.z > 56 then 0 else 57 - a.z
def pos2 (a : MAtom) : List Nat := (a.hybridization - 1) :: (if a.z > 56 then [120 - capS a.z] else [])
def isoPos (mdl : Nat) (a : MAtom) : Nat := match isoTruthy a.isotope with | some i => i + 54 - mdl | none => 63
def pos3 (mdl : Nat) (a : MAtom) : List Nat :=
  [isoPos mdl a, if a.radical then 45 else 44, (a.charge + 39).toNat, hOr a.implH + 30, a.neighbors + 15, a.heteroatoms]

theorem atomV1_eq (a : MAtom) : atomV1 a = orShifts 0 [pos1 a] := by
  by_cases h : a.z > 56 <;> simp [atomV1, pos1, orShifts, h, sTransferZ, sTransferBit, sLoBase]

theorem atomV2_eq (a : MAtom) : atomV2 a = orShifts 0 (pos2 a) := by
  by_cases h : a.z > 56 <;> simp [atomV2, pos2, orShifts, h, sTransferZ, sHybSub, sHiBase]

theorem c_noiso_norad : (9223389629040820224 : Nat) = 9223372036854775808 ||| 17592186044416 := by decide
theorem c_noiso_rad : (9223407221226864640 : Nat) = 9223372036854775808 ||| 35184372088832 := by decide

theorem atomV3_eq (mdl : Nat) (a : MAtom) : atomV3 mdl a = orShifts 0 (pos3 mdl a) := by
  simp only [atomV3, pos3, isoPos, orShifts, sIsoOff, sChargeOff, sHOff, sNbOff, Nat.add_zero, Nat.or_zero]
  cases isoTruthy a.isotope <;> cases a.radical <;>
    simp only [sIsoRad, sIsoNoRad, sNoIsoRad, sNoIsoNoRad, Nat.or_assoc, if_true, if_false, Bool.false_eq_true]
  · rw [c_noiso_norad, Nat.or_assoc]; rfl
  · rw [c_noiso_rad, Nat.or_assoc]; rfl
  · rfl
  · rfl

/-- all set bits of `x` lie in `[lo, hi)` -/
def Within (x lo hi : Nat) : Prop := ∀ p, x.testBit p = true → lo ≤ p ∧ p < hi

theorem Within.out {x lo hi p : Nat} (h : Within x lo hi) (hp : p < lo ∨ hi ≤ p) : x.testBit p = false := by
  cases hb : x.testBit p
  · rfl
  · have := h p hb; omega

theorem within_or {x y lo hi : Nat} (hx : Within x lo hi) (hy : Within y lo hi) : Within (x ||| y) lo hi := by
  intro p hp
  simp only [Nat.testBit_or, Bool.or_eq_true] at hp
  cases hp with
  | inl h => exact hx p h
  | inr h => exact hy p h

theorem within_mono {x lo hi lo' hi' : Nat} (h : Within x lo hi) (h1 : lo' ≤ lo) (h2 : hi ≤ hi') : Within x lo' hi' := by
  intro p hp; have := h p hp; omega

theorem within_zero (lo hi : Nat) : Within 0 lo hi := by intro p hp; simp at hp

theorem within_shl1 (k : Nat) : Within (1 <<< k) k (k + 1) := by
  intro p hp
  simp only [Nat.one_shiftLeft, Nat.testBit_two_pow, decide_eq_true_eq] at hp
  omega

theorem testBit_shl1 (k p : Nat) : (1 <<< k).testBit p = decide (k = p) := by
  simp [Nat.one_shiftLeft, Nat.testBit_two_pow]

theorem within_orShifts (off w : Nat) (S : List Nat) (h : ∀ s ∈ S, s < w) : Within (orShifts off S) off (off + w) := by
  intro p hp
  simp only [testBit_orShifts, List.any_eq_true, beq_iff_eq] at hp
  obtain ⟨s, hs, rfl⟩ := hp
  have := h s hs; omega

/-- `(2^w - 1) << off` is the run of `w` ones starting at `off` -/
theorem testBit_run (w off p : Nat) : ((2 ^ w - 1) <<< off).testBit p = (decide (off ≤ p) && decide (p - off < w)) := by
  simp [Nat.testBit_shiftLeft, Nat.testBit_two_pow_sub_one]

theorem within_run (w off : Nat) : Within ((2 ^ w - 1) <<< off) off (off + w) := by
  intro p hp
  simp only [testBit_run, Bool.and_eq_true, decide_eq_true_eq] at hp
  omega

theorem qHAll_eq : qHAll = (2 ^ 5 - 1) <<< 30 := by decide
theorem qHetAll_eq : qHetAll = (2 ^ 15 - 1) <<< 0 := by decide
theorem qNbAll_eq : qNbAll = (2 ^ 15 - 1) <<< 15 := by decide
theorem qHybAll_eq : qHybAll = (2 ^ 4 - 1) <<< 0 := by decide
theorem qAnyIsoRad_eq : qAnyIsoRad = (2 ^ 19 - 1) <<< 45 := by decide
theorem qAnyIsoNoRad_eq : qAnyIsoNoRad = ((2 ^ 18 - 1) <<< 46) ||| (1 <<< 44) := by decide
theorem qAnyV1_eq : qAnyV1 = (2 ^ 57 - 1) <<< 0 := by decide
theorem qAnyV2_eq : qAnyV2 = (2 ^ 60 - 1) <<< 4 := by decide
theorem qAnyRing_eq : qAnyRing = (2 ^ 64 - 1) <<< 0 := by decide
theorem qMetalV3_eq : qMetalV3 = ((2 ^ 15 - 1) <<< 0) ||| ((2 ^ 34 - 1) <<< 30) := by decide
theorem qMetalV4_eq : qMetalV4 = (2 ^ 64 - 1) <<< 0 := by decide

end ChythonModel.Proofs.C09
