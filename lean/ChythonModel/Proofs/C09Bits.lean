import ChythonModel.Model.BitLayout
/-!
# C09 — bit-level lemmas (helper file for `Props/C09.lean`)
-/
namespace ChythonModel.Proofs.C09
open ChythonModel.Model.Bits ChythonModel.Gen.Bits ChythonModel.Model.Query

/-- `m & b == b` says: every bit of `b` is a bit of `m` -/
theorem and_eq_self_iff (m b : Nat) : m &&& b = b ↔ ∀ i, b.testBit i = true → m.testBit i = true := by
  constructor
  · intro h i hb
    have := congrArg (·.testBit i) h
    simp [Nat.testBit_and, hb] at this
    exact this
  · intro h
    apply Nat.eq_of_testBit_eq
    intro i
    simp only [Nat.testBit_and]
    cases hb : b.testBit i
    · simp
    · simp [h i hb]

theorem testBit_orShifts (off : Nat) (S : List Nat) (i : Nat) :
    (orShifts off S).testBit i = S.any (fun s => s + off == i) := by
  induction S with
  | nil => simp [orShifts]
  | cons x xs ih =>
    simp only [orShifts, Nat.testBit_or, ih, List.any_cons, Nat.one_shiftLeft, Nat.testBit_two_pow]
    congr 1

end ChythonModel.Proofs.C09
