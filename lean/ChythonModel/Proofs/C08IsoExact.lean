import ChythonModel.Proofs.C07Complete
import ChythonModel.Proofs.C07WF
import ChythonModel.Proofs.C07Product
import ChythonModel.Proofs.C07Compile
import ChythonModel.Proofs.C07Stack
import ChythonModel.Proofs.C07Top
import ChythonModel.Proofs.C07Multi3
import ChythonModel.Proofs.C07Multi4
/-!
# Exactness of property C07's matcher model — the chain `compile_covers … get_mapping_exact`

A verbatim copy (statements and proofs, other namespace) of the first part of `Props/C07.lean` as committed in /verif
(`envOf` … `get_mapping_exact`), kept here for ONE reason: `Props/C08.lean: pattern_match_is_documented` instantiates
`get_mapping_exact`, and importing `Props/C07.lean` made C08's build fail whenever that file was in the middle of an edit
(it keeps growing: stereo post-filter, fast mapping). Everything below is about the SAME definitions (`Model/Iso.lean`,
`Spec/Embedding.lean`) and rests on the same lemma files `Proofs/C07*.lean`; nothing is re-modelled. If C07's chain changes,
this copy still proves what it states.
-/
namespace ChythonModel.Proofs.C08.IsoExact
open ChythonModel.Model.Iso ChythonModel.Spec.Embedding ChythonModel.Proofs.C07

/-- the environment of one `_get_mapping(linear_query, closures, other._atoms, other._bonds, scope)` call -/
def envOf (t : Graph) (lq : List Step) (cl : Closures) (scope : Nat → Bool) (atomOk : Nat → Nat → Bool)
    (bondOk : Nat → Nat → Nat → Nat → Bool) : Env :=
  { lq := lq, cl := cl, oAtoms := t.atoms, t := t, scope := scope, atomOk := atomOk, bondOk := bondOk }

/-- bond compatibility does not depend on the direction in which a bond is looked at (one shared bond object) -/
def BondSymm (bondOk : Nat → Nat → Nat → Nat → Bool) : Prop := ∀ u v x y, bondOk u v x y = bondOk v u y x

theorem setting_of (q t : Graph) (comps : List (List Step)) (cl : Closures) (hq : q.WF = true) (ht : t.WF = true)
    (hc : CompiledOK q comps cl) (lq : List Step) (hlq : lq ∈ comps) (scope : Nat → Bool)
    (atomOk : Nat → Nat → Bool) (bondOk : Nat → Nat → Nat → Nat → Bool) (hb : BondSymm bondOk) :
    Setting q (envOf t lq cl scope atomOk bondOk) := by
  have hQ := wf_ok q hq
  have hT := wf_ok t ht
  have hC := hc
  exact ⟨hC.comp lq hlq, hC.comp_nodup hlq, hQ.symm, hQ.loop, hT.symm, hT.loop, hT.closed, rfl, hb⟩

/-- **`compile_covers`**: whatever `_compile_query` returns for a well-formed pattern is a valid DFS linearisation:
    every atom occurs exactly once as a front; every component starts with a back-less step and every other step hangs on an
    earlier atom of its own component by a pattern bond; for every step, parent ∪ recorded closures = exactly the
    earlier-visited neighbours, without repetition (so every pattern bond is a tree edge or a recorded closure, exactly once);
    no bond leaves a component. -/
theorem compile_covers (q : Graph) (hq : q.WF = true) (comps : List (List Step)) (cl : Closures)
    (h : compileQuery q = some (comps, cl)) : CompiledOK q comps cl :=
  compile_ok q hq comps cl h

/-- **`compile_total`**: on a well-formed pattern the DFS of `_compile_query` terminates within the fuel the model gives
    it (`fuelFor` = sum of degrees + 1; potential: stack height + degrees of unseen atoms) — the `none` branch is dead. -/
theorem compile_total (q : Graph) (hq : q.WF = true) : ∃ comps cl, compileQuery q = some (comps, cl) :=
  ChythonModel.Proofs.C07.compile_total q hq

/-- the executable checker the driver applies to the REAL `_compile_query` output guarantees the same facts -/
theorem checkCompiled_guarantees (q : Graph) (comps : List (List Step)) (cl : Closures)
    (h : checkCompiled q comps cl = true) : CompiledOK q comps cl :=
  checkCompiled_sound q comps cl h

/-- **Soundness** (`rec_sound`): every mapping the enumerator returns for a component is the dict of a valid embedding
    of that component into the target, inside the scope. -/
theorem rec_sound (q t : Graph) (comps : List (List Step)) (cl : Closures) (hq : q.WF = true) (ht : t.WF = true)
    (hc : CompiledOK q comps cl) (lq : List Step) (hlq : lq ∈ comps) (scope : Nat → Bool)
    (atomOk : Nat → Nat → Bool) (bondOk : Nat → Nat → Nat → Nat → Bool) (hb : BondSymm bondOk) :
    ∀ m ∈ recMapping (envOf t lq cl scope atomOk bondOk),
      ∃ f, m = asDict (lq.map (·.front)) f ∧ EmbedsComp q t (lq.map (·.front)) scope atomOk bondOk f := by
  intro m hm
  have hS := setting_of q t comps cl hq ht hc lq hlq scope atomOk bondOk hb
  rw [recMapping_eq] at hm
  obtain ⟨p, hp, rfl⟩ := List.mem_map.1 hm
  have pv := (mem_allPaths _ hS.ok.ne p).1 hp
  refine ⟨fOf lq p, ?_, pathValid_embeds hS pv⟩
  have := pv_path_eq hS pv
  show (lq.map (·.front)).zip p = (lq.map (·.front)).zip ((lq.map (·.front)).map (fOf lq p))
  exact congrArg _ this

/-- **Completeness** (`rec_complete`): the dict of every valid embedding of the component is returned. -/
theorem rec_complete (q t : Graph) (comps : List (List Step)) (cl : Closures) (hq : q.WF = true) (ht : t.WF = true)
    (hc : CompiledOK q comps cl) (lq : List Step) (hlq : lq ∈ comps) (scope : Nat → Bool)
    (atomOk : Nat → Nat → Bool) (bondOk : Nat → Nat → Nat → Nat → Bool) (hb : BondSymm bondOk)
    (f : Nat → Nat) (emb : EmbedsComp q t (lq.map (·.front)) scope atomOk bondOk f) :
    asDict (lq.map (·.front)) f ∈ recMapping (envOf t lq cl scope atomOk bondOk) := by
  have hS := setting_of q t comps cl hq ht hc lq hlq scope atomOk bondOk hb
  rw [recMapping_eq]
  exact List.mem_map.2 ⟨_, (mem_allPaths _ hS.ok.ne _).2 (embeds_pathValid hS emb), rfl⟩

/-- **No duplicates** (`rec_nodup`): no mapping is returned twice (the multiset is a set). -/
theorem rec_nodup (t : Graph) (ht : t.WF = true) (lq : List Step) (cl : Closures) (scope : Nat → Bool)
    (atomOk : Nat → Nat → Bool) (bondOk : Nat → Nat → Nat → Nat → Bool) :
    (recMapping (envOf t lq cl scope atomOk bondOk)).Nodup := by
  have hT := wf_ok t ht
  rw [recMapping_eq]
  refine List.Nodup.map_on ?_ (allPaths_nodup _ hT.nbrs_nodup hT.atoms_nodup)
  intro p1 h1 p2 h2 heq
  have len : ∀ p ∈ allPaths (envOf t lq cl scope atomOk bondOk), p.length ≤ (lq.map (·.front)).length := by
    intro p hp
    unfold allPaths at hp
    obtain ⟨r, hr, hp⟩ := List.mem_flatMap.1 hp
    have := extend_length _ _ _ _ hp
    have hne : lq ≠ [] := by
      intro h
      simp [roots, envOf, h] at hr
    have : 1 ≤ lq.length := by
      cases lq with
      | nil => exact absurd rfl hne
      | cons a l => simp
    simp [envOf] at *
    omega
  have := congrArg (List.map Prod.snd) heq
  simp only [envOf] at this
  rwa [List.map_snd_zip (len p1 h1), List.map_snd_zip (len p2 h2)] at this

/-- **Exactness for one component**: membership in the result ⇔ being (the dict of) a valid embedding; and the result is
    duplicate free. This is the statement "the mappings returned are exactly the injective maps …". -/
theorem component_exact (q t : Graph) (comps : List (List Step)) (cl : Closures) (hq : q.WF = true) (ht : t.WF = true)
    (hc : CompiledOK q comps cl) (lq : List Step) (hlq : lq ∈ comps) (scope : Nat → Bool)
    (atomOk : Nat → Nat → Bool) (bondOk : Nat → Nat → Nat → Nat → Bool) (hb : BondSymm bondOk) :
    (∀ m, m ∈ recMapping (envOf t lq cl scope atomOk bondOk) ↔
      ∃ f, m = asDict (lq.map (·.front)) f ∧ EmbedsComp q t (lq.map (·.front)) scope atomOk bondOk f) ∧
    (recMapping (envOf t lq cl scope atomOk bondOk)).Nodup := by
  refine ⟨fun m => ⟨rec_sound q t comps cl hq ht hc lq hlq scope atomOk bondOk hb m, ?_⟩,
    rec_nodup t ht lq cl scope atomOk bondOk⟩
  rintro ⟨f, rfl, emb⟩
  exact rec_complete q t comps cl hq ht hc lq hlq scope atomOk bondOk hb f emb

/-- **Exactness for every component of the model's own linearisation** (no checker in the statement): for a well-formed
    pattern and target, each component `lq` of `compileQuery q` is matched exactly. -/
theorem model_component_exact (q t : Graph) (hq : q.WF = true) (ht : t.WF = true) (comps : List (List Step))
    (cl : Closures) (hcq : compileQuery q = some (comps, cl)) (lq : List Step) (hlq : lq ∈ comps) (scope : Nat → Bool)
    (atomOk : Nat → Nat → Bool) (bondOk : Nat → Nat → Nat → Nat → Bool) (hb : BondSymm bondOk) :
    (∀ m, m ∈ recMapping (envOf t lq cl scope atomOk bondOk) ↔
      ∃ f, m = asDict (lq.map (·.front)) f ∧ EmbedsComp q t (lq.map (·.front)) scope atomOk bondOk f) ∧
    (recMapping (envOf t lq cl scope atomOk bondOk)).Nodup :=
  component_exact q t comps cl hq ht (compile_covers q hq comps cl hcq) lq hlq scope atomOk bondOk hb

/-- **`stack_refines_rec`**: the explicit stack machine (`_get_mapping`: `stack`, `path`, `mapping`, `reversed_mapping`,
    truncation on backtracking, closure-set test on the dictionaries) never crashes, never runs out of the fuel
    `machineFuel`, and yields exactly the list — same mappings, same order — the recursive enumerator yields. -/
theorem stack_refines_rec (q t : Graph) (comps : List (List Step)) (cl : Closures) (hq : q.WF = true) (ht : t.WF = true)
    (hc : CompiledOK q comps cl) (lq : List Step) (hlq : lq ∈ comps) (scope : Nat → Bool)
    (atomOk : Nat → Nat → Bool) (bondOk : Nat → Nat → Nat → Nat → Bool) (hb : BondSymm bondOk) :
    getMapping (envOf t lq cl scope atomOk bondOk) = some (recMapping (envOf t lq cl scope atomOk bondOk)) :=
  getMapping_eq_rec q _ (setting_of q t comps cl hq ht hc lq hlq scope atomOk bondOk hb) (wf_ok t ht).nbrs_nodup

/-- **`getMapping_exact`** — the statement about the function the code runs: for every well-formed pattern `q` and target
    `t`, every component `lq` of the model's own linearisation `compileQuery q`, every scope and every (direction
    independent) compatibility relation, the module-level `_get_mapping` terminates normally with a duplicate-free list whose
    members are exactly the dicts of the valid embeddings of that component inside the scope. -/
theorem getMapping_exact (q t : Graph) (hq : q.WF = true) (ht : t.WF = true) (comps : List (List Step))
    (cl : Closures) (hcq : compileQuery q = some (comps, cl)) (lq : List Step) (hlq : lq ∈ comps) (scope : Nat → Bool)
    (atomOk : Nat → Nat → Bool) (bondOk : Nat → Nat → Nat → Nat → Bool) (hb : BondSymm bondOk) :
    ∃ r, getMapping (envOf t lq cl scope atomOk bondOk) = some r ∧ r.Nodup ∧
      ∀ m, m ∈ r ↔ ∃ f, m = asDict (lq.map (·.front)) f ∧ EmbedsComp q t (lq.map (·.front)) scope atomOk bondOk f := by
  have hc := compile_covers q hq comps cl hcq
  have hx := component_exact q t comps cl hq ht hc lq hlq scope atomOk bondOk hb
  exact ⟨_, stack_refines_rec q t comps cl hq ht hc lq hlq scope atomOk bondOk hb, hx.2, hx.1⟩

/-- **Scope**: with a scope the result is exactly the embeddings all of whose images lie inside it — stated as: the
    result for scope `s` is the result without scope filtered by "every image is in `s`" (as sets of dicts). -/
theorem scope_exact (q t : Graph) (comps : List (List Step)) (cl : Closures) (hq : q.WF = true) (ht : t.WF = true)
    (hc : CompiledOK q comps cl) (lq : List Step) (hlq : lq ∈ comps) (scope : Nat → Bool)
    (atomOk : Nat → Nat → Bool) (bondOk : Nat → Nat → Nat → Nat → Bool) (hb : BondSymm bondOk) (m : Dict) :
    m ∈ recMapping (envOf t lq cl scope atomOk bondOk) ↔
      (m ∈ recMapping (envOf t lq cl (fun _ => true) atomOk bondOk) ∧
        ∃ f, m = asDict (lq.map (·.front)) f ∧ ∀ u ∈ lq.map (·.front), scope (f u) = true) := by
  have h1 := (component_exact q t comps cl hq ht hc lq hlq scope atomOk bondOk hb).1 m
  have h2 := (component_exact q t comps cl hq ht hc lq hlq (fun _ => true) atomOk bondOk hb).1 m
  rw [h1, h2]
  constructor
  · rintro ⟨f, rfl, emb⟩
    exact ⟨⟨f, rfl, ⟨emb.injective, emb.atom_in_target, emb.atom_matches, emb.bond_matches, emb.no_extra_bond,
      fun _ _ => rfl⟩⟩, f, rfl, emb.in_scope⟩
  · rintro ⟨⟨f, rfl, emb⟩, g, hg, hsc⟩
    refine ⟨g, hg, ?_⟩
    -- f and g agree on the fronts (same dict)
    have hfg : ∀ u ∈ lq.map (·.front), f u = g u := by
      have := congrArg (List.map Prod.snd) hg
      simp only [asDict] at this
      rw [List.map_snd_zip (by simp), List.map_snd_zip (by simp)] at this
      exact fun u hu => List.map_inj_left.1 this u hu
    have hQ := wf_ok q hq
    have hC := hc
    refine ⟨?_, ?_, ?_, ?_, ?_, hsc⟩
    · intro u hu v hv h; rw [← hfg u hu, ← hfg v hv] at h; exact emb.injective u hu v hv h
    · intro u hu; rw [← hfg u hu]; exact emb.atom_in_target u hu
    · intro u hu; rw [← hfg u hu]; exact emb.atom_matches u hu
    · intro u hu v hv
      obtain ⟨j, s, hs, rfl⟩ := pos_of_mem lq u hu
      have hvF : v ∈ lq.map (·.front) := ((hC.comp lq hlq).step j s hs).closed v hv
      rw [← hfg _ hu, ← hfg v hvF]; exact emb.bond_matches _ hu v hv
    · intro u hu v hv h; rw [← hfg u hu, ← hfg v hv] at h; exact emb.no_extra_bond u hu v hv h

/-! ## the whole call for a connected pattern: `Isomorphism._get_mapping`, branch `len(components) == 1` -/

/-- **`iso_single_exact`**: for a well-formed connected pattern (its linearisation has one component), a well-formed target
    whose `connected_components` were accepted by `checkComponents`, any `searching_scope` (`none`, or a list — also an empty
    one) and direction-independent bond compatibility, `Isomorphism._get_mapping` (before the `seen` filter) terminates
    normally with a duplicate-free list whose members are exactly the dicts of the maps satisfying the FULL specification
    `IsEmbedding` (injective, atoms match, bonds match, no additional bond, components apart, inside the scope). -/
theorem iso_single_exact (p : Problem) (hq : p.q.WF = true) (ht : p.t.WF = true)
    (hpart : checkComponents p.t p.tComps = true) (hb : BondSymm p.bondOk) (lq : List Step) (cl : Closures)
    (hcq : compileQuery p.q = some ([lq], cl)) :
    ∃ r, isoUnfiltered p [lq] cl = some r ∧ r.Nodup ∧
      ∀ m, m ∈ r ↔ ∃ f, m = asDict (lq.map (·.front)) f ∧
        IsEmbedding p.q p.t (scopeFn p.scope) p.atomOk p.bondOk f := by
  have hc := compile_covers p.q hq [lq] cl hcq
  have hlq : lq ∈ [lq] := by simp
  have hQ := wf_ok p.q hq
  have hP := checkComponents_sound p.t p.tComps hpart
  have hcomp := hc.comp lq hlq
  have hmem : ∀ u, u ∈ p.q.atoms ↔ u ∈ lq.map (·.front) := by
    intro u
    constructor
    · intro h; simpa using hc.cover u h
    · intro h; exact hc.sub u (by simpa using h)
  have hconn := comp_connected p.q hQ.symm cl lq hcomp
  have hclosed := comp_closed p.q cl lq hcomp
  have hx : ∀ cand, (∀ m, m ∈ recMapping (mkEnv p cl lq (restrict p.scope cand)) ↔
      ∃ f, m = asDict (lq.map (·.front)) f ∧
        EmbedsComp p.q p.t (lq.map (·.front)) (fun n => (restrict p.scope cand).contains n) p.atomOk p.bondOk f) ∧
      (recMapping (mkEnv p cl lq (restrict p.scope cand))).Nodup :=
    fun cand => component_exact p.q p.t [lq] cl hq ht hc lq hlq _ p.atomOk p.bondOk hb
  have hgm : ∀ cand, getMapping (mkEnv p cl lq (restrict p.scope cand)) =
      some (recMapping (mkEnv p cl lq (restrict p.scope cand))) :=
    fun cand => stack_refines_rec p.q p.t [lq] cl hq ht hc lq hlq _ p.atomOk p.bondOk hb
  -- the first atom of the pattern
  obtain ⟨s0, h0⟩ : ∃ s0, lq[0]? = some s0 := by
    cases hl : lq with
    | nil => exact absurd hl hcomp.ne
    | cons a l => exact ⟨a, rfl⟩
  have hu0 : s0.front ∈ lq.map (·.front) := front_mem lq 0 s0 h0
  refine ⟨_, isoUnfiltered_single p cl lq hgm, ?_, ?_⟩
  · -- no duplicates: different target components give different images of the first atom
    rw [List.nodup_flatMap]
    refine ⟨fun cand _ => (hx cand).2, ?_⟩
    refine List.Pairwise.imp ?_ hP.disjoint
    intro c1 c2 hdis
    simp only [Function.onFun]
    intro m hm1 hm2
    obtain ⟨f1, rfl, e1⟩ := ((hx c1).1 m).1 hm1
    obtain ⟨f2, h12, e2⟩ := ((hx c2).1 _).1 hm2
    have heq := asDict_inj _ f1 f2 h12 s0.front hu0
    have i1 := e1.in_scope _ hu0
    have i2 := e2.in_scope _ hu0
    simp only [restrict_contains, Bool.and_eq_true, List.contains_iff_mem] at i1 i2
    exact hdis i1.1 (heq ▸ i2.1)
  · intro m
    rw [List.mem_flatMap]
    constructor
    · rintro ⟨cand, _, hm⟩
      obtain ⟨f, rfl, emb⟩ := ((hx cand).1 m).1 hm
      refine ⟨f, rfl, ?_⟩
      refine ⟨?_, ?_, ?_, ?_, ?_, ?_, ?_⟩
      · intro u hu v hv h; exact emb.injective u ((hmem u).1 hu) v ((hmem v).1 hv) h
      · intro u hu; exact emb.atom_in_target u ((hmem u).1 hu)
      · intro u hu; exact emb.atom_matches u ((hmem u).1 hu)
      · intro u hu v hv; exact emb.bond_matches u ((hmem u).1 hu) v hv
      · intro u hu v hv _ h; exact emb.no_extra_bond u ((hmem u).1 hu) v ((hmem v).1 hv) h
      · intro u hu v hv hnr; exact absurd (hconn u v ((hmem u).1 hu) ((hmem v).1 hv)) hnr
      · intro u hu
        have := emb.in_scope u ((hmem u).1 hu)
        simp only [restrict_contains, Bool.and_eq_true] at this
        exact this.2
    · rintro ⟨f, rfl, isE⟩
      -- the target component of the image of the first atom
      obtain ⟨cand, hcand, hfc⟩ := hP.cover _ (isE.atom_in_target _ ((hmem _).2 hu0))
      have himg : ∀ u ∈ lq.map (·.front), f u ∈ cand := by
        intro u hu
        have hr : Reach p.t (f s0.front) (f u) :=
          reach_map (fun w => w ∈ lq.map (·.front)) hclosed f
            (fun w hw v hv => (isE.bond_matches w ((hmem w).2 hw) v hv).1) hu0 (hconn _ _ hu0 hu)
        exact reach_closed (fun y => y ∈ cand) (fun x hx y hy => hP.closed cand hcand x hx y hy) hfc hr
      refine ⟨cand, hcand, ((hx cand).1 _).2 ⟨f, rfl, ?_⟩⟩
      refine ⟨?_, ?_, ?_, ?_, ?_, ?_⟩
      · intro u hu v hv h; exact isE.injective u ((hmem u).2 hu) v ((hmem v).2 hv) h
      · intro u hu; exact isE.atom_in_target u ((hmem u).2 hu)
      · intro u hu; exact isE.atom_matches u ((hmem u).2 hu)
      · intro u hu v hv; exact isE.bond_matches u ((hmem u).2 hu) v hv
      · intro u hu v hv h
        exact isE.no_extra_bond u ((hmem u).2 hu) v ((hmem v).2 hv) (hconn u v hu hv) h
      · intro u hu
        simp only [restrict_contains, Bool.and_eq_true, List.contains_iff_mem]
        exact ⟨himg u hu, isE.in_scope u ((hmem u).2 hu)⟩

/-! ## the automorphism filter: exactly one mapping per distinct set of image atoms -/

/-- the `seen` filter keeps a sub-list of the mappings, no two survivors have the same image set, and every image set
    that occurred is represented by a survivor. -/
theorem filter_one_per_image_set (ms : List Dict) :
    (autoFilter ms).Sublist ms ∧
    (autoFilter ms).Pairwise (fun a b => setEq (vals a) (vals b) = false) ∧
    (∀ m ∈ ms, ∃ m' ∈ autoFilter ms, setEq (vals m) (vals m') = true) := by
  obtain ⟨h1, _, h3, h4⟩ := autoFilterGo_spec ms []
  refine ⟨h1, h3, ?_⟩
  intro m hm
  rcases h4 m hm with ⟨k, hk, _⟩ | h
  · simp at hk
  · exact h

/-- **`iso_multi_exact`**: the same for a pattern with several components (branch `else:` — `permutations` of the target
    components, one generator per pair, `lazy_product`, dict merge): the result contains exactly the dicts of the maps
    satisfying the full specification `IsEmbedding` — in particular different pattern components land in different target
    components, and a scope that covers target components only partly is respected per component. -/
theorem iso_multi_exact (p : Problem) (hq : p.q.WF = true) (ht : p.t.WF = true)
    (hpart : checkComponents p.t p.tComps = true) (hb : BondSymm p.bondOk) (comps : List (List Step)) (cl : Closures)
    (hcq : compileQuery p.q = some (comps, cl)) (hne : comps ≠ []) (hk : ∀ lq, comps ≠ [lq]) :
    ∃ r, isoUnfiltered p comps cl = some r ∧ r.Nodup ∧
      ∀ m, m ∈ r ↔ ∃ f, m = asDict (comps.flatten.map (·.front)) f ∧
        IsEmbedding p.q p.t (scopeFn p.scope) p.atomOk p.bondOk f := by
  have hc := compile_covers p.q hq comps cl hcq
  have hQ := wf_ok p.q hq
  have hT := wf_ok p.t ht
  have hP := checkComponents_sound p.t p.tComps hpart
  obtain ⟨hne', hconn⟩ := partition_extra p.t hT.symm p.tComps hpart
  have hF := compsFacts_of p.q comps cl hc
  have htnd : p.tComps.Nodup := nodup_of_pairwise_disjoint _ hP.disjoint hne'
  have hx : ∀ lq ∈ comps, ∀ cand m, m ∈ recMapping (mkEnv p cl lq (restrict p.scope cand)) ↔
      ∃ f, m = asDict (frontsOf lq) f ∧
        EmbedsComp p.q p.t (frontsOf lq) (fun n => (restrict p.scope cand).contains n) p.atomOk p.bondOk f :=
    fun lq hlq cand m => (component_exact p.q p.t comps cl hq ht hc lq hlq _ p.atomOk p.bondOk hb).1 m
  have hgm : ∀ lq ∈ comps, ∀ cand, getMapping (mkEnv p cl lq (restrict p.scope cand)) =
      some (recMapping (mkEnv p cl lq (restrict p.scope cand))) :=
    fun lq hlq cand => stack_refines_rec p.q p.t comps cl hq ht hc lq hlq _ p.atomOk p.bondOk hb
  have hcl : ∀ lq ∈ comps, ∀ u ∈ frontsOf lq, ∀ v ∈ p.q.nbrs u, v ∈ frontsOf lq :=
    fun lq hlq => comp_closed p.q cl lq (hF.ok lq hlq)
  have hflat : comps.flatten.map (·.front) = (comps.map frontsOf).flatten := by
    rw [List.map_flatten]; rfl
  -- the merged dict of a tuple
  have hmerge : ∀ (cands : List (List Nat)) (f : Nat → Nat), cands.length = comps.length →
      mergeD ((comps.zip cands).map fun pr => asDict (frontsOf pr.1) f) = asDict (comps.flatten.map (·.front)) f := by
    intro cands f hl
    have h1 : ((comps.zip cands).map fun pr => asDict (frontsOf pr.1) f) =
        (comps.map frontsOf).map fun C => asDict C f := by
      rw [List.map_map]
      have : (comps.zip cands).map (·.1) = comps := List.map_fst_zip (by omega)
      conv_rhs => rw [← this]
      rw [List.map_map]
      rfl
    rw [h1, hflat]
    apply mergeD_asDict
    · intro h; exact hne (List.map_eq_nil_iff.1 h)
    · intro C hC
      obtain ⟨lq, hlq, rfl⟩ := List.mem_map.1 hC
      exact hF.nodup lq hlq
    · rw [List.pairwise_map]; exact hF.disj
  -- membership in the result of one assignment
  have htuple : ∀ cands, cands.length = comps.length → ∀ m, m ∈ tupleResult p cl comps cands ↔
      ∃ f, AllEmb p comps cands f ∧ m = asDict (comps.flatten.map (·.front)) f := by
    intro cands hl m
    simp only [tupleResult, List.mem_map]
    constructor
    · rintro ⟨ms, hms, rfl⟩
      rw [lazyProduct_mem, glue_tuple p cl comps cands ms hx hcl hF.disj] at hms
      obtain ⟨f, hall, rfl⟩ := hms
      exact ⟨f, hall, hmerge cands f hl⟩
    · rintro ⟨f, hall, rfl⟩
      refine ⟨(comps.zip cands).map fun pr => asDict (frontsOf pr.1) f, ?_, hmerge cands f hl⟩
      rw [lazyProduct_mem, glue_tuple p cl comps cands _ hx hcl hF.disj]
      exact ⟨f, hall, rfl⟩
  have hperm := permutations_spec comps.length p.tComps htnd
  have hallF : ∀ lq ∈ comps, ∀ u ∈ frontsOf lq, u ∈ comps.flatten.map (·.front) := by
    intro lq hlq u hu
    rw [hflat, List.mem_flatten]
    exact ⟨_, List.mem_map.2 ⟨lq, hlq, rfl⟩, hu⟩
  refine ⟨_, isoUnfiltered_multi p cl comps hne hk hgm, ?_, ?_⟩
  · -- no duplicates
    rw [List.nodup_flatMap]
    refine ⟨?_, ?_⟩
    · intro cands hcands
      obtain ⟨hl, _, _⟩ := (hperm.1 cands).1 hcands
      unfold tupleResult
      refine List.Nodup.map_on ?_ ?_
      · intro ms hms ms' hms' heq
        rw [lazyProduct_mem, glue_tuple p cl comps cands ms hx hcl hF.disj] at hms
        rw [lazyProduct_mem, glue_tuple p cl comps cands ms' hx hcl hF.disj] at hms'
        obtain ⟨f, _, rfl⟩ := hms
        obtain ⟨f', _, rfl⟩ := hms'
        rw [hmerge cands f hl, hmerge cands f' hl] at heq
        have hff := asDict_inj _ f f' heq
        apply List.map_congr_left
        intro pr hpr
        apply asDict_congr
        intro u hu
        exact hff u (hallF pr.1 (List.of_mem_zip hpr).1 u hu)
      · exact ((lazyProduct_perm _).nodup_iff).2 (cartesian_nodup _
          (mapperList_nodup p cl (fun lq cand => rec_nodup p.t ht lq cl _ p.atomOk p.bondOk) comps cands))
    · refine List.Pairwise.imp_of_mem ?_ hperm.2
      intro a b ha hb hab
      simp only [Function.onFun]
      intro m hma hmb
      obtain ⟨hla, _, hsa⟩ := (hperm.1 a).1 ha
      obtain ⟨hlb, _, hsb⟩ := (hperm.1 b).1 hb
      obtain ⟨f, hfa, rfl⟩ := (htuple a hla m).1 hma
      obtain ⟨f', hfb, hmm⟩ := (htuple b hlb _).1 hmb
      have hff := asDict_inj _ f f' hmm
      apply hab
      refine cands_unique p.tComps hP.disjoint (fun lq => f (headFront lq)) comps a b hla hlb hsa hsb ?_ ?_
      · intro pr hpr
        have hlq := (List.of_mem_zip hpr).1
        have := (hfa pr hpr).in_scope _ (headFront_mem pr.1 (hF.ok pr.1 hlq).ne)
        simp only [restrict_contains, Bool.and_eq_true, List.contains_iff_mem] at this
        exact this.1
      · intro pr hpr
        have hlq := (List.of_mem_zip hpr).1
        have hh := headFront_mem pr.1 (hF.ok pr.1 hlq).ne
        have := (hfb pr hpr).in_scope _ hh
        simp only [restrict_contains, Bool.and_eq_true, List.contains_iff_mem] at this
        rw [hff _ (hallF pr.1 hlq _ hh)]
        exact this.1
  intro m
  rw [List.mem_flatMap]
  constructor
  · rintro ⟨cands, hcands, hm⟩
    obtain ⟨hl, hnd, hsub⟩ := ((permutations_spec comps.length p.tComps htnd).1 cands).1 hcands
    simp only [tupleResult, List.mem_map] at hm
    obtain ⟨ms, hms, rfl⟩ := hm
    rw [lazyProduct_mem, glue_tuple p cl comps cands ms hx hcl hF.disj] at hms
    obtain ⟨f, hall, rfl⟩ := hms
    exact ⟨f, hmerge cands f hl, allEmb_sound p cl comps hF hQ.symm hP cands hl hnd hsub f hall⟩
  · rintro ⟨f, rfl, isE⟩
    obtain ⟨cands, hl, hnd, hsub, hall⟩ := allEmb_complete p cl comps hF hQ.symm hP hconn f isE
    refine ⟨cands, ((permutations_spec comps.length p.tComps htnd).1 cands).2 ⟨hl, hnd, hsub⟩, ?_⟩
    simp only [tupleResult, List.mem_map]
    refine ⟨(comps.zip cands).map fun pr => asDict (frontsOf pr.1) f, ?_, hmerge cands f hl⟩
    rw [lazyProduct_mem, glue_tuple p cl comps cands _ hx hcl hF.disj]
    exact ⟨f, hall, rfl⟩

/-- the unfiltered list `Isomorphism._get_mapping` builds before the `seen` filter, for any number of pattern components:
    terminates normally, duplicate free, and contains exactly the dicts of the maps satisfying `IsEmbedding` -/
theorem iso_unfiltered_exact (p : Problem) (hq : p.q.WF = true) (ht : p.t.WF = true)
    (hpart : checkComponents p.t p.tComps = true) (hb : BondSymm p.bondOk) (hatoms : p.q.atoms ≠ []) :
    ∃ comps cl r, compileQuery p.q = some (comps, cl) ∧ isoUnfiltered p comps cl = some r ∧ r.Nodup ∧
      ∀ m, m ∈ r ↔ ∃ f, m = asDict (comps.flatten.map (·.front)) f ∧
        IsEmbedding p.q p.t (scopeFn p.scope) p.atomOk p.bondOk f := by
  obtain ⟨comps, cl, hcq⟩ := compile_total p.q hq
  have hc := compile_covers p.q hq comps cl hcq
  have hne : comps ≠ [] := by
    intro h
    obtain ⟨a, ha⟩ := List.exists_mem_of_ne_nil _ hatoms
    have := hc.cover a ha
    rw [h] at this
    simp at this
  by_cases hk : ∃ lq, comps = [lq]
  · obtain ⟨lq, rfl⟩ := hk
    obtain ⟨r, hr, hnd, hmem⟩ := iso_single_exact p hq ht hpart hb lq cl hcq
    exact ⟨[lq], cl, r, hcq, hr, hnd, by simpa using hmem⟩
  · have hk' : ∀ lq, comps ≠ [lq] := fun lq h => hk ⟨lq, h⟩
    obtain ⟨r, hr, hnd, hmem⟩ := iso_multi_exact p hq ht hpart hb comps cl hcq hne hk'
    exact ⟨comps, cl, r, hcq, hr, hnd, hmem⟩

/-- **`get_mapping_exact`** — the property's first sentence for the whole unfiltered call, any number of pattern
    components: for every well-formed non-empty pattern and well-formed target (with accepted `connected_components`), every
    scope (`None`, or any collection — also an empty one) and every direction-independent compatibility relation,
    `Isomorphism._get_mapping(automorphism_filter=False)` terminates normally and returns, without duplicates, exactly the
    dicts of the maps satisfying `IsEmbedding`. -/
theorem get_mapping_exact (p : Problem) (hq : p.q.WF = true) (ht : p.t.WF = true)
    (hpart : checkComponents p.t p.tComps = true) (hb : BondSymm p.bondOk) (hatoms : p.q.atoms ≠ [])
    (haf : p.autoFilter = false) :
    ∃ comps cl r, compileQuery p.q = some (comps, cl) ∧ isoGetMapping p = some r ∧ r.Nodup ∧
      ∀ m, m ∈ r ↔ ∃ f, m = asDict (comps.flatten.map (·.front)) f ∧
        IsEmbedding p.q p.t (scopeFn p.scope) p.atomOk p.bondOk f := by
  obtain ⟨comps, cl, r, hcq, hr, hnd, hmem⟩ := iso_unfiltered_exact p hq ht hpart hb hatoms
  refine ⟨comps, cl, r, hcq, ?_, hnd, hmem⟩
  unfold isoGetMapping
  simp [hcq, hr, haf]


end ChythonModel.Proofs.C08.IsoExact
