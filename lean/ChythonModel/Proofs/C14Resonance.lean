import ChythonModel.Model.C14Resonance
import ChythonModel.Proofs.C14Charge
/-!
# C14 — helper lemmas for `fix_resonance` (`Model/C14Resonance.lean`): atoms and net charge through both loops
-/
namespace ChythonModel.Proofs.C14
open ChythonModel.Model ChythonModel.Model.Std ChythonModel.Gen.Rules

/-- same atoms (numbers, order, elements, isotopes) and same net charge -/
def Keeps (m m' : Mol) : Prop := skeleton m' = skeleton m ∧ netCharge m' = netCharge m

theorem Keeps.refl (m : Mol) : Keeps m m := ⟨rfl, rfl⟩
theorem Keeps.trans {a b c : Mol} (h1 : Keeps a b) (h2 : Keeps b c) : Keeps a c := ⟨h2.1.trans h1.1, h2.2.trans h1.2⟩

theorem ids_of_skeleton {m m' : Mol} (h : skeleton m' = skeleton m) : m'.ids = m.ids := by
  have := congrArg (List.map (·.1)) h
  simp only [skeleton, List.map_map, Function.comp_def] at this
  exact this

theorem keeps_of_atoms {m m' : Mol} (h : m'.atoms = m.atoms) : Keeps m m' := by
  unfold Keeps skeleton netCharge; rw [h]; exact ⟨rfl, rfl⟩

theorem applyPath_atoms : ∀ (path : RPath) (m : Mol) (hs : List Nat), (applyPath path m hs).1.atoms = m.atoms := by
  intro path
  induction path with
  | nil => intro m hs; rfl
  | cons p rest ih =>
    intro m hs
    obtain ⟨x, y, b⟩ := p
    rw [applyPath, ih]
    rfl

theorem keeps_applyPath (path : RPath) (m : Mol) (hs : List Nat) : Keeps m (applyPath path m hs).1 :=
  keeps_of_atoms (applyPath_atoms path m hs)

theorem netCharge_updAtom_same (m : Mol) (n : Nat) (f : Atom → Atom) (hf : ∀ a, (f a).charge = a.charge) :
    netCharge (updAtom m n f) = netCharge m := by
  unfold netCharge updAtom
  simp only [List.map_map]
  congr 1
  apply List.map_congr_left
  intro p _
  simp only [Function.comp, setAtomEntry]
  split <;> simp [hf]

/-- clearing a radical flag -/
theorem updAtom?_radical {m m' : Mol} {n : Nat} {r : Bool} (h : updAtom? m n (fun a => { a with radical := r }) = some m') :
    Keeps m m' := by
  unfold updAtom? at h
  split at h
  · simp at h
  · simp only [Option.some.injEq] at h
    subst h
    exact ⟨skeleton_updAtom _ _ _ (fun _ => rfl) (fun _ => rfl), netCharge_updAtom_same _ _ _ (fun _ => rfl)⟩

/-- moving one charge unit onto / off an atom that exists -/
theorem updAtom?_charge {m m' : Mol} {n : Nat} {d : Int} (hnd : m.ids.Nodup)
    (h : updAtom? m n (fun a => { a with charge := a.charge + d }) = some m') :
    skeleton m' = skeleton m ∧ netCharge m' = netCharge m + d := by
  unfold updAtom? at h
  split at h
  · simp at h
  · rename_i a ha
    simp only [Option.some.injEq] at h
    subst h
    refine ⟨skeleton_updAtom _ _ _ (fun _ => rfl) (fun _ => rfl), ?_⟩
    rw [netCharge_updAtom m n _ a hnd ha]
    simp only
    omega

theorem radLoop_keeps (order constrains : List Nat) :
    ∀ (fuel : Nat) (rads : List Nat) (st st' : RState2), radLoop order constrains fuel rads st = some st' → Keeps st.mol st'.mol := by
  intro fuel
  induction fuel with
  | zero => intro rads st st' h; simp [radLoop] at h
  | succ k ih =>
    intro rads st st' h
    rw [radLoop] at h
    split at h
    · simp only [Option.some.injEq] at h; subst h; exact .refl _
    · split at h
      · simp at h
      · simp only at h
        split at h
        · simp at h
        · split at h
          · simp at h
          · exact ih _ _ _ h
          · split at h
            · simp at h
            · split at h
              · simp at h
              · rename_i m1 h1
                split at h
                · simp at h
                · rename_i m3 h3
                  have k1 := updAtom?_radical h1
                  have k3 := updAtom?_radical h3
                  exact (k1.trans ((keeps_applyPath _ _ _).trans k3)).trans (ih _ _ _ h)

theorem chargeLoop_keeps (order : List Nat) (s : ResSets) :
    ∀ (fuel : Nat) (entries exits : List Nat) (st st' : RState2), st.mol.ids.Nodup →
      chargeLoop order s fuel entries exits st = some st' → Keeps st.mol st'.mol := by
  intro fuel
  induction fuel with
  | zero => intro entries exits st st' _ h; simp [chargeLoop] at h
  | succ k ih =>
    intro entries exits st st' hnd h
    rw [chargeLoop] at h
    split at h
    · simp only [Option.some.injEq] at h; subst h; exact .refl _
    · split at h
      · simp at h
      · simp only at h
        split at h
        · simp at h
        · split at h
          · simp at h
          · exact ih _ _ _ _ hnd h
          · split at h
            · simp at h
            · split at h
              · simp at h
              · rename_i m1 h1
                split at h
                · simp at h
                · rename_i m2 h2
                  have c1 := updAtom?_charge (d := -1) hnd (by simpa [Int.sub_eq_add_neg] using h1)
                  have hnd1 : m1.ids.Nodup := by rw [ids_of_skeleton c1.1]; exact hnd
                  have c2 := updAtom?_charge (d := 1) hnd1 h2
                  have k12 : Keeps st.mol m2 := ⟨c2.1.trans c1.1, by rw [c2.2, c1.2]; omega⟩
                  have hk : ∀ (p : RPath) (hs0 en ex : List Nat) (st'' : RState2),
                      chargeLoop order s k en ex
                        { mol := (applyPath p m2 hs0).1, hs := (applyPath p m2 hs0).2 } = some st'' → Keeps st.mol st''.mol := by
                    intro p hs0 en ex st'' hh
                    have k := k12.trans (keeps_applyPath p m2 hs0)
                    have hnd3 : (applyPath p m2 hs0).1.ids.Nodup := by rw [ids_of_skeleton k.1]; exact hnd
                    exact k.trans (ih _ _ _ _ hnd3 hh)
                  exact hk _ _ _ _ _ h

theorem fixResonance_keeps (m : Mol) (L : Labels) (ro eo : List Nat) (o : Mol) (hs : List Nat) (hnd : m.ids.Nodup)
    (h : fixResonance m L ro eo = some (o, hs)) : Keeps m o := by
  unfold fixResonance at h
  split at h
  · simp at h
  · split at h
    · simp at h
    · split at h
      · simp at h
      · rename_i st1 h1
        have k1 := radLoop_keeps _ _ _ _ _ _ h1
        split at h
        · simp at h
        · rename_i st2 h2
          have hnd1 : st1.mol.ids.Nodup := by rw [ids_of_skeleton k1.1]; exact hnd
          have k2 := chargeLoop_keeps _ _ _ _ _ _ _ hnd1 h2
          split at h
          · simp only [Option.some.injEq, Prod.mk.injEq] at h
            rw [← h.1]; exact k1.trans k2
          · obtain ⟨m', hr, he⟩ := Option.map_eq_some_iff.mp h
            simp only [Prod.mk.injEq] at he
            rw [← he.1]
            have hv := recalc_heavyView _ _ _ hr
            exact (k1.trans k2).trans ⟨skeleton_of_heavyView hv, netCharge_of_heavyView hv⟩

/-! ## the delocalisation paths alternate -/

/-- `(x, y, b)` at index `i` of a path rewrites an existing bond `x–y` of order `o` to `b = o + 1` (even `i`, `o ≤ 2`) or
    `b = o − 1` (odd `i`, `2 ≤ o ≤ 4`) -/
def StepOk (m : Mol) (i : Nat) (t : Nat × Nat × Nat) : Prop :=
  ∃ row kb, m.adj.lookup t.1 = some row ∧ kb ∈ row ∧ kb.1 = t.2.1 ∧
    (if i % 2 = 0 then kb.2.order ≤ 2 ∧ t.2.2 = kb.2.order + 1 else 2 ≤ kb.2.order ∧ kb.2.order ≤ 4 ∧ t.2.2 + 1 = kb.2.order)

def PathOk (m : Mol) (p : RPath) : Prop := ∀ i t, p[i]? = some t → StepOk m i t

/-- stack entries carry legal steps for their depth; depths are non-increasing from the top and bounded -/
def StackOk (m : Mol) : List (Nat × Nat × Nat × Nat) → Nat → Prop
  | [], _ => True
  | (l, c, d, o) :: rest, bound => d ≤ bound ∧ StepOk m d (l, c, o) ∧ StackOk m rest d

theorem StackOk.mono (m : Mol) : ∀ (s : List (Nat × Nat × Nat × Nat)) (b b' : Nat), b ≤ b' → StackOk m s b → StackOk m s b' := by
  intro s
  cases s with
  | nil => intro _ _ _ _; trivial
  | cons e rest =>
    obtain ⟨l, c, d, o⟩ := e
    intro b b' hb h
    exact ⟨Nat.le_trans h.1 hb, h.2.1, h.2.2⟩

theorem StackOk.append (m : Mol) (d : Nat) : ∀ (ch : List (Nat × Nat × Nat × Nat)) (rest : List (Nat × Nat × Nat × Nat)),
    (∀ e ∈ ch, e.2.2.1 = d ∧ StepOk m d (e.1, e.2.1, e.2.2.2)) → StackOk m rest d → StackOk m (ch ++ rest) d := by
  intro ch
  induction ch with
  | nil => intro rest _ h; exact h
  | cons e tl ih =>
    intro rest hch h
    obtain ⟨l, c, d', o⟩ := e
    have he := hch (l, c, d', o) List.mem_cons_self
    simp only at he
    obtain ⟨rfl, hs⟩ := he
    exact ⟨Nat.le_refl _, hs, ih rest (fun e he => hch e (List.mem_cons_of_mem _ he)) h⟩

theorem PathOk.take_append (m : Mol) (p : RPath) (d : Nat) (t : Nat × Nat × Nat) (hp : PathOk m p) (hd : d ≤ p.length)
    (ht : StepOk m d t) : PathOk m (p.take d ++ [t]) := by
  intro i x hx
  by_cases hi : i < d
  · have : (p.take d ++ [t])[i]? = p[i]? := by
      rw [List.getElem?_append_left (by simp; omega), List.getElem?_take]; simp [hi]
    rw [this] at hx
    exact hp i x hx
  · have hlen : (p.take d).length = d := by simp; omega
    by_cases hid : i = d
    · subst hid
      rw [List.getElem?_append_right (by omega), hlen] at hx
      simp at hx
      subst hx
      exact ht
    · rw [List.getElem?_append_right (by omega), hlen] at hx
      have : i - d ≥ 1 := by omega
      cases hk : i - d with
      | zero => omega
      | succ k => rw [hk] at hx; simp at hx


theorem children_ok (m : Mol) (cur depth : Nat) (row : List (Nat × Bond)) (seen constrains : List Nat)
    (hrow : m.adj.lookup cur = some row) :
    ∀ e ∈ (row.filterMap fun kb =>
            if !seen.contains kb.1 && constrains.contains kb.1 then
              if depth % 2 == 1 then (if 2 ≤ kb.2.order && kb.2.order ≤ 4 then some (cur, kb.1, depth, kb.2.order - 1) else none)
              else (if kb.2.order ≤ 2 then some (cur, kb.1, depth, kb.2.order + 1) else none)
            else none).reverse, e.2.2.1 = depth ∧ StepOk m depth (e.1, e.2.1, e.2.2.2) := by
  intro e he
  rw [List.mem_reverse, List.mem_filterMap] at he
  obtain ⟨kb, hkb, hf⟩ := he
  split at hf
  · split at hf
    · rename_i hodd
      split at hf
      · rename_i hr
        simp only [Option.some.injEq] at hf
        subst hf
        simp only [Bool.and_eq_true, decide_eq_true_eq] at hr
        refine ⟨rfl, row, kb, hrow, hkb, rfl, ?_⟩
        have : depth % 2 ≠ 0 := by simp at hodd; omega
        simp only [this, if_false]
        omega
      · simp at hf
    · rename_i hodd
      split at hf
      · rename_i hr
        simp only [Option.some.injEq] at hf
        subst hf
        refine ⟨rfl, row, kb, hrow, hkb, rfl, ?_⟩
        have : depth % 2 = 0 := by simp at hodd; omega
        simp only [this, if_true]
        exact ⟨hr, by first | rfl | trivial⟩
      · simp at hf
  · simp at hf

theorem findPath_alternates (m : Mol) (finish constrains : List Nat) (oddOnly : Bool) (accept : RPath → Option Bool) :
    ∀ (fuel : Nat) (stack : List (Nat × Nat × Nat × Nat)) (path : RPath) (seen : List Nat) (p : RPath),
      PathOk m path → StackOk m stack path.length →
      findPath m finish constrains oddOnly accept fuel stack path seen = some (some p) → PathOk m p := by
  intro fuel
  induction fuel with
  | zero => intro stack path seen p _ _ h; simp [findPath] at h
  | succ k ih =>
    intro stack path seen p hp hs h
    cases stack with
    | nil => simp [findPath] at h
    | cons e rest =>
      obtain ⟨last, cur, depth, order⟩ := e
      obtain ⟨hd, hstep, hrest⟩ := hs
      unfold findPath at h
      simp only at h
      have hpath : (if path.length > depth then path.take depth else path) = path.take depth := by
        split
        · rfl
        · rw [List.take_of_length_le (by omega)]
      simp only [hpath] at h
      have hp' := PathOk.take_append m path depth (last, cur, order) hp hd hstep
      have hlen : (path.take depth ++ [(last, cur, order)]).length = depth + 1 := by
        simp only [List.length_append, List.length_take, List.length_cons, List.length_nil]; omega
      have hrest' : StackOk m rest (path.take depth ++ [(last, cur, order)]).length := by
        rw [hlen]; exact StackOk.mono m rest depth (depth + 1) (by omega) hrest
      have hgo : ∀ (seen' : List Nat),
          (if (finish.contains cur && oddOnly && (path.take depth ++ [(last, cur, order)]).length % 2 == 0) = true then
            findPath m finish constrains oddOnly accept k rest (path.take depth ++ [(last, cur, order)]) seen'
          else
            match List.lookup cur m.adj with
            | none => none
            | some row =>
              findPath m finish constrains oddOnly accept k
                ((row.filterMap fun kb =>
                    if (!(setAdd seen' cur).contains kb.1 && constrains.contains kb.1) = true then
                      if ((depth + 1) % 2 == 1) = true then
                        (if (decide (2 ≤ kb.2.order) && decide (kb.2.order ≤ 4)) = true then some (cur, kb.1, depth + 1, kb.2.order - 1) else none)
                      else (if kb.2.order ≤ 2 then some (cur, kb.1, depth + 1, kb.2.order + 1) else none)
                    else none).reverse ++ rest)
                (path.take depth ++ [(last, cur, order)]) (setAdd seen' cur)) = some (some p) → PathOk m p := by
        intro seen' hh
        split at hh
        · exact ih _ _ _ _ hp' hrest' hh
        · split at hh
          · simp at hh
          · rename_i row hrow
            refine ih _ _ _ _ hp' ?_ hh
            rw [hlen]
            exact StackOk.append m (depth + 1) _ rest (children_ok m cur (depth + 1) row (setAdd seen' cur) constrains hrow)
              (StackOk.mono m rest depth (depth + 1) (by omega) hrest)
      have key : ∀ (c : Bool) (path' : RPath) (GO : Option (Option RPath)), PathOk m path' →
          (GO = some (some p) → PathOk m p) →
          (if c = true then
            match accept path' with
            | none => none
            | some true => some (some path')
            | some false => GO
          else GO) = some (some p) → PathOk m p := by
        intro c path' GO hpp hG hh
        split at hh
        · split at hh
          · simp at hh
          · simp only [Option.some.injEq] at hh
            rw [← hh]; exact hpp
          · exact hG hh
        · exact hG hh
      exact key _ _ _ hp' (hgo _) h


theorem startStack_ok (m : Mol) (start : Nat) (constrains : List Nat) (st0 : List (Nat × Nat × Nat × Nat))
    (h : startStack m start constrains = some st0) : StackOk m st0 0 := by
  unfold startStack at h
  obtain ⟨row, hrow, rfl⟩ := Option.map_eq_some_iff.mp h
  have := StackOk.append m 0
    (row.filterMap fun kb => if constrains.contains kb.1 && kb.2.order < 3 then some (start, kb.1, 0, kb.2.order + 1) else none).reverse []
    (by
      intro e he
      rw [List.mem_reverse, List.mem_filterMap] at he
      obtain ⟨kb, hkb, hf⟩ := he
      split at hf
      · rename_i hc
        simp only [Option.some.injEq] at hf
        subst hf
        simp only [Bool.and_eq_true, decide_eq_true_eq] at hc
        refine ⟨rfl, row, kb, hrow, hkb, rfl, ?_⟩
        simp only [Nat.zero_mod, if_true]
        exact ⟨by omega, by first | rfl | trivial⟩
      · simp at hf) trivial
  simpa using this

/-- **every delocalisation path the search hands to the loop body alternates**: step `i` of the path rewrites an existing bond
    of order `o` to `o + 1` (`i` even, `o ≤ 2`) or to `o − 1` (`i` odd, `2 ≤ o ≤ 4`) -/
theorem search_alternates (m : Mol) (start : Nat) (finish constrains : List Nat) (oddOnly : Bool) (accept : RPath → Option Bool)
    (fuel : Nat) (st0 : List (Nat × Nat × Nat × Nat)) (seen : List Nat) (p : RPath)
    (h0 : startStack m start constrains = some st0)
    (h : findPath m finish constrains oddOnly accept fuel st0 [] seen = some (some p)) : PathOk m p :=
  findPath_alternates m finish constrains oddOnly accept fuel st0 [] seen p (by intro i t ht; simp at ht)
    (startStack_ok m start constrains st0 h0) h

end ChythonModel.Proofs.C14
