import ChythonModel.Model.C14Resonance
import ChythonModel.Proofs.C14Charge
/-!
# C14 — helper lemmas for `fix_resonance` (`Model/C14Resonance.lean`): atoms and net charge through both loops
-/
namespace ChythonModel.Proofs.C14
open ChythonModel.Model ChythonModel.Model.Std ChythonModel.Gen.Rules

/-- same atoms (numbers, order, elements, isotopes) and same net charge -/
def Keeps (m m' : Mol) : Prop := skeleton m' = skeleton m ∧ netCharge m' = netCharge m

theorem Keeps.refl (m : Mol) : Keeps m m := ⟨rfl, rfl⟩
theorem Keeps.trans {a b c : Mol} (h1 : Keeps a b) (h2 : Keeps b c) : Keeps a c := ⟨h2.1.trans h1.1, h2.2.trans h1.2⟩

theorem ids_of_skeleton {m m' : Mol} (h : skeleton m' = skeleton m) : m'.ids = m.ids := by
  have := congrArg (List.map (·.1)) h
  simp only [skeleton, List.map_map, Function.comp_def] at this
  exact this

theorem keeps_of_atoms {m m' : Mol} (h : m'.atoms = m.atoms) : Keeps m m' := by
  unfold Keeps skeleton netCharge; rw [h]; exact ⟨rfl, rfl⟩

theorem applyPath_atoms : ∀ (path : RPath) (m : Mol) (hs : List Nat), (applyPath path m hs).1.atoms = m.atoms := by
  intro path
  induction path with
  | nil => intro m hs; rfl
  | cons p rest ih =>
    intro m hs
    obtain ⟨x, y, b⟩ := p
    rw [applyPath, ih]
    rfl

theorem keeps_applyPath (path : RPath) (m : Mol) (hs : List Nat) : Keeps m (applyPath path m hs).1 :=
  keeps_of_atoms (applyPath_atoms path m hs)

theorem netCharge_updAtom_same (m : Mol) (n : Nat) (f : Atom → Atom) (hf : ∀ a, (f a).charge = a.charge) :
    netCharge (updAtom m n f) = netCharge m := by
  unfold netCharge updAtom
  simp only [List.map_map]
  congr 1
  apply List.map_congr_left
  intro p _
  simp only [Function.comp, setAtomEntry]
  split <;> simp [hf]

/-- clearing a radical flag -/
theorem updAtom?_radical {m m' : Mol} {n : Nat} {r : Bool} (h : updAtom? m n (fun a => { a with radical := r }) = some m') :
    Keeps m m' := by
  unfold updAtom? at h
  split at h
  · simp at h
  · simp only [Option.some.injEq] at h
    subst h
    exact ⟨skeleton_updAtom _ _ _ (fun _ => rfl) (fun _ => rfl), netCharge_updAtom_same _ _ _ (fun _ => rfl)⟩

/-- moving one charge unit onto / off an atom that exists -/
theorem updAtom?_charge {m m' : Mol} {n : Nat} {d : Int} (hnd : m.ids.Nodup)
    (h : updAtom? m n (fun a => { a with charge := a.charge + d }) = some m') :
    skeleton m' = skeleton m ∧ netCharge m' = netCharge m + d := by
  unfold updAtom? at h
  split at h
  · simp at h
  · rename_i a ha
    simp only [Option.some.injEq] at h
    subst h
    refine ⟨skeleton_updAtom _ _ _ (fun _ => rfl) (fun _ => rfl), ?_⟩
    rw [netCharge_updAtom m n _ a hnd ha]
    simp only
    omega

theorem radLoop_keeps (order constrains : List Nat) :
    ∀ (fuel : Nat) (rads : List Nat) (st st' : RState2), radLoop order constrains fuel rads st = some st' → Keeps st.mol st'.mol := by
  intro fuel
  induction fuel with
  | zero => intro rads st st' h; simp [radLoop] at h
  | succ k ih =>
    intro rads st st' h
    rw [radLoop] at h
    split at h
    · simp only [Option.some.injEq] at h; subst h; exact .refl _
    · split at h
      · simp at h
      · simp only at h
        split at h
        · simp at h
        · split at h
          · simp at h
          · exact ih _ _ _ h
          · split at h
            · simp at h
            · split at h
              · simp at h
              · rename_i m1 h1
                split at h
                · simp at h
                · rename_i m3 h3
                  have k1 := updAtom?_radical h1
                  have k3 := updAtom?_radical h3
                  exact (k1.trans ((keeps_applyPath _ _ _).trans k3)).trans (ih _ _ _ h)

theorem chargeLoop_keeps (order : List Nat) (s : ResSets) :
    ∀ (fuel : Nat) (entries exits : List Nat) (st st' : RState2), st.mol.ids.Nodup →
      chargeLoop order s fuel entries exits st = some st' → Keeps st.mol st'.mol := by
  intro fuel
  induction fuel with
  | zero => intro entries exits st st' _ h; simp [chargeLoop] at h
  | succ k ih =>
    intro entries exits st st' hnd h
    rw [chargeLoop] at h
    split at h
    · simp only [Option.some.injEq] at h; subst h; exact .refl _
    · split at h
      · simp at h
      · simp only at h
        split at h
        · simp at h
        · split at h
          · simp at h
          · exact ih _ _ _ _ hnd h
          · split at h
            · simp at h
            · split at h
              · simp at h
              · rename_i m1 h1
                split at h
                · simp at h
                · rename_i m2 h2
                  have c1 := updAtom?_charge (d := -1) hnd (by simpa [Int.sub_eq_add_neg] using h1)
                  have hnd1 : m1.ids.Nodup := by rw [ids_of_skeleton c1.1]; exact hnd
                  have c2 := updAtom?_charge (d := 1) hnd1 h2
                  have k12 : Keeps st.mol m2 := ⟨c2.1.trans c1.1, by rw [c2.2, c1.2]; omega⟩
                  have hk : ∀ (p : RPath) (hs0 en ex : List Nat) (st'' : RState2),
                      chargeLoop order s k en ex
                        { mol := (applyPath p m2 hs0).1, hs := (applyPath p m2 hs0).2 } = some st'' → Keeps st.mol st''.mol := by
                    intro p hs0 en ex st'' hh
                    have k := k12.trans (keeps_applyPath p m2 hs0)
                    have hnd3 : (applyPath p m2 hs0).1.ids.Nodup := by rw [ids_of_skeleton k.1]; exact hnd
                    exact k.trans (ih _ _ _ _ hnd3 hh)
                  exact hk _ _ _ _ _ h

theorem fixResonance_keeps (m : Mol) (L : Labels) (ro eo : List Nat) (o : Mol) (hs : List Nat) (hnd : m.ids.Nodup)
    (h : fixResonance m L ro eo = some (o, hs)) : Keeps m o := by
  unfold fixResonance at h
  split at h
  · simp at h
  · split at h
    · simp at h
    · split at h
      · simp at h
      · rename_i st1 h1
        have k1 := radLoop_keeps _ _ _ _ _ _ h1
        split at h
        · simp at h
        · rename_i st2 h2
          have hnd1 : st1.mol.ids.Nodup := by rw [ids_of_skeleton k1.1]; exact hnd
          have k2 := chargeLoop_keeps _ _ _ _ _ _ _ hnd1 h2
          split at h
          · simp only [Option.some.injEq, Prod.mk.injEq] at h
            rw [← h.1]; exact k1.trans k2
          · obtain ⟨m', hr, he⟩ := Option.map_eq_some_iff.mp h
            simp only [Prod.mk.injEq] at he
            rw [← he.1]
            have hv := recalc_heavyView _ _ _ hr
            exact (k1.trans k2).trans ⟨skeleton_of_heavyView hv, netCharge_of_heavyView hv⟩

end ChythonModel.Proofs.C14
