import ChythonModel.Proofs.C09Bits
namespace ChythonModel.Proofs.C09
open ChythonModel.Model.Bits ChythonModel.Gen.Bits ChythonModel.Model.Query

/-- documented domain of a molecule atom (what the layout can represent) -/
structure ADom (mdl : Nat) (a : MAtom) : Prop where
  z_lo : 1 ≤ a.z
  z_hi : a.z ≤ 118
  hyb_lo : 1 ≤ a.hybridization
  hyb_hi : a.hybridization ≤ 4
  iso : ∀ i, isoTruthy a.isotope = some i → mdl ≤ i + 8 ∧ i ≤ mdl + 8
  chg_lo : -4 ≤ a.charge
  chg_hi : a.charge ≤ 4
  h : hOr a.implH ≤ 4
  nb : a.neighbors ≤ 14
  het : a.heteroatoms ≤ 14
  rings : ∀ r ∈ a.ringSizes, 3 ≤ r ∧ r ≤ 65

/-- documented domain of a query atom -/
structure QDom (q : QAtom) : Prop where
  elems : match q.kind with
    | .element z _ => 1 ≤ z ∧ z ≤ 118
    | .list zs => ∀ z ∈ zs, 1 ≤ z ∧ z ≤ 118
    | _ => True
  chg_lo : -4 ≤ q.charge
  chg_hi : q.charge ≤ 4
  nb : ∀ n ∈ q.neighbors, n ≤ 14
  hyb : ∀ n ∈ q.hybridization, 1 ≤ n ∧ n ≤ 4
  h : ∀ n ∈ q.implH, n ≤ 4
  het : ∀ n ∈ q.heteroatoms, n ≤ 14
  rings : q.ringSizes.head? = some 0 ∨ ∀ r ∈ q.ringSizes, 3 ≤ r ∧ r ≤ 65

/-- the raw `isotope` attribute of a `QueryElement` (other kinds have none) -/
def kindIso : QKind → Option Nat
  | .element _ iso => iso
  | _ => none

theorem qIso_eq (k : QKind) : qIso k = isoTruthy (kindIso k) := by cases k <;> rfl

def nbPart (q : QAtom) : Nat := if q.neighbors.isEmpty then qNbAll else orShifts qNbOff q.neighbors
def hPart (q : QAtom) : Nat := if q.implH.isEmpty then qHAll else orShifts qHOff q.implH
def hetPart (q : QAtom) : Nat := if q.heteroatoms.isEmpty then qHetAll else orShifts 0 q.heteroatoms
def isoBase (qmdl : Nat) (q : QAtom) : Nat :=
  match qIso q.kind with
  | some i =>
    (if decide (qmdl ≤ i + qIsoLo) && decide (i ≤ qmdl + qIsoHi) then 1 <<< (i + qIsoOff - qmdl) else qIsoNone)
      ||| (if q.radical then qIsoRad else qIsoNoRad)
  | none => if q.radical then qAnyIsoRad else qAnyIsoNoRad
def chgPart (q : QAtom) : Nat := 1 <<< (q.charge + qChargeOff).toNat

theorem qV3ext_eq (qmdl : Nat) (q : QAtom) : qV3ext qmdl q = isoBase qmdl q ||| chgPart q ||| hPart q ||| hetPart q := rfl

theorem any_shift_contains (S : List Nat) (off v : Nat) : S.any (fun s => s + off == v + off) = S.contains v := by
  induction S with
  | nil => rfl
  | cons x xs ih =>
    have : (x + off == v + off) = (v == x) := by
      rw [Bool.eq_iff_iff, beq_iff_eq, beq_iff_eq]; omega
    simp only [List.any_cons, List.contains_cons, ih, this]

theorem within_nbPart (q : QAtom) (hq : QDom q) : Within (nbPart q) 15 30 := by
  unfold nbPart
  split
  · rw [qNbAll_eq]; exact within_run 15 15
  · exact within_orShifts 15 15 _ (fun s hs => by have := hq.nb s hs; omega)

theorem within_hPart (q : QAtom) (hq : QDom q) : Within (hPart q) 30 35 := by
  unfold hPart
  split
  · rw [qHAll_eq]; exact within_run 5 30
  · exact within_orShifts 30 5 _ (fun s hs => by have := hq.h s hs; omega)

theorem within_hetPart (q : QAtom) (hq : QDom q) : Within (hetPart q) 0 15 := by
  unfold hetPart
  split
  · rw [qHetAll_eq]; exact within_run 15 0
  · exact within_orShifts 0 15 _ (fun s hs => by have := hq.het s hs; omega)

theorem within_chgPart (q : QAtom) (hq : QDom q) : Within (chgPart q) 35 44 := by
  unfold chgPart
  have h1 := hq.chg_lo; have h2 := hq.chg_hi
  refine within_mono (within_shl1 _) ?_ ?_ <;> simp only [qChargeOff] <;> omega

theorem within_isoBase (qmdl : Nat) (q : QAtom) : Within (isoBase qmdl q) 44 64 := by
  unfold isoBase
  split
  · rename_i i _
    apply within_or
    · by_cases h : qmdl ≤ i + qIsoLo ∧ i ≤ qmdl + qIsoHi
      · have h1 := h.1; have h2 := h.2
        simp only [h1, h2, decide_true, Bool.and_self, if_true]
        simp only [qIsoLo, qIsoHi] at h1 h2
        refine within_mono (within_shl1 _) ?_ ?_ <;> simp only [qIsoOff] <;> omega
      · have : (decide (qmdl ≤ i + qIsoLo) && decide (i ≤ qmdl + qIsoHi)) = false := by
          rw [Bool.eq_false_iff]; intro hc; simp only [Bool.and_eq_true, decide_eq_true_eq] at hc; exact h hc
        simp only [this, Bool.false_eq_true, if_false, qIsoNone]
        exact within_zero _ _
    · split
      · exact within_mono (by simpa [qIsoRad] using within_shl1 45) (by omega) (by omega)
      · exact within_mono (by simpa [qIsoNoRad] using within_shl1 44) (by omega) (by omega)
  · split
    · rw [qAnyIsoRad_eq]; exact within_mono (within_run 19 45) (by omega) (by omega)
    · rw [qAnyIsoNoRad_eq]
      exact within_or (within_mono (within_run 18 46) (by omega) (by omega)) (within_mono (within_shl1 44) (by omega) (by omega))


def m3 (qmdl : Nat) (q : QAtom) : Nat := qV3ext qmdl q ||| nbPart q

theorem m3_at (qmdl : Nat) (q : QAtom) (hq : QDom q) (p : Nat) :
    (m3 qmdl q).testBit p =
      if p < 15 then (hetPart q).testBit p else if p < 30 then (nbPart q).testBit p
      else if p < 35 then (hPart q).testBit p else if p < 44 then (chgPart q).testBit p
      else (isoBase qmdl q).testBit p := by
  have w1 := within_isoBase qmdl q
  have w2 := within_chgPart q hq
  have w3 := within_hPart q hq
  have w4 := within_hetPart q hq
  have w5 := within_nbPart q hq
  simp only [m3, qV3ext_eq, Nat.testBit_or]
  by_cases h1 : p < 15
  · simp [h1, w1.out (p := p) (by omega), w2.out (p := p) (by omega), w3.out (p := p) (by omega), w5.out (p := p) (by omega)]
  by_cases h2 : p < 30
  · simp [h1, h2, w1.out (p := p) (by omega), w2.out (p := p) (by omega), w3.out (p := p) (by omega), w4.out (p := p) (by omega)]
  by_cases h3 : p < 35
  · simp [h1, h2, h3, w1.out (p := p) (by omega), w2.out (p := p) (by omega), w4.out (p := p) (by omega), w5.out (p := p) (by omega)]
  by_cases h4 : p < 44
  · simp [h1, h2, h3, h4, w1.out (p := p) (by omega), w3.out (p := p) (by omega), w4.out (p := p) (by omega), w5.out (p := p) (by omega)]
  · simp [h1, h2, h3, h4, w2.out (p := p) (by omega), w3.out (p := p) (by omega), w4.out (p := p) (by omega), w5.out (p := p) (by omega)]


theorem part_at (all off w : Nat) (S : List Nat) (v : Nat) (hall : all = (2 ^ w - 1) <<< off) (hv : v < w) :
    (if S.isEmpty then all else orShifts off S).testBit (v + off) = (S.isEmpty || S.contains v) := by
  cases hS : S.isEmpty
  · simp only [Bool.false_eq_true, if_false, Bool.false_or, testBit_orShifts, any_shift_contains]
  · simp only [if_true, Bool.true_or, hall, testBit_run]
    simp; omega

theorem not_tupleRejects (c : List Nat) (v : Nat) : (!tupleRejects c v) = (c.isEmpty || c.contains v) := by
  unfold tupleRejects; cases c.isEmpty <;> cases c.contains v <;> rfl

theorem het_at (q : QAtom) (v : Nat) (hv : v ≤ 14) : (hetPart q).testBit v = !tupleRejects q.heteroatoms v := by
  have := part_at qHetAll 0 15 q.heteroatoms v qHetAll_eq (by omega)
  rw [not_tupleRejects]; simpa [hetPart] using this

theorem nb_at (q : QAtom) (v : Nat) (hv : v ≤ 14) : (nbPart q).testBit (v + 15) = !tupleRejects q.neighbors v := by
  have := part_at qNbAll 15 15 q.neighbors v qNbAll_eq (by omega)
  rw [not_tupleRejects]; simpa [nbPart, qNbOff] using this

theorem h_at (q : QAtom) (v : Nat) (hv : v ≤ 4) : (hPart q).testBit (v + 30) = !hRejects q.implH (some v) := by
  have := part_at qHAll 30 5 q.implH v qHAll_eq (by omega)
  have e : (!hRejects q.implH (some v)) = (q.implH.isEmpty || q.implH.contains v) := by
    simp only [hRejects]; cases q.implH.isEmpty <;> cases q.implH.contains v <;> rfl
  rw [e]; simpa [hPart, qHOff] using this

theorem chg_at (q : QAtom) (hq : QDom q) (c : Int) (h1 : -4 ≤ c) (h2 : c ≤ 4) :
    (chgPart q).testBit (c + 39).toNat = (q.charge == c) := by
  have := hq.chg_lo; have := hq.chg_hi
  simp only [chgPart, testBit_shl1, qChargeOff]
  rw [Bool.eq_iff_iff]; simp only [decide_eq_true_eq, beq_iff_eq]
  omega


/-- the isotope-offset bit of the query (or nothing when the isotope is outside the window) -/
def isoBit (qmdl i : Nat) : Nat :=
  if decide (qmdl ≤ i + qIsoLo) && decide (i ≤ qmdl + qIsoHi) then 1 <<< (i + qIsoOff - qmdl) else qIsoNone

theorem isoBit_in (qmdl i : Nat) (h1 : qmdl ≤ i + 8) (h2 : i ≤ qmdl + 8) : isoBit qmdl i = 1 <<< (i + 54 - qmdl) := by
  simp [isoBit, qIsoLo, qIsoHi, qIsoOff, h1, h2]

theorem isoBit_out (qmdl i : Nat) (h : ¬ (qmdl ≤ i + 8 ∧ i ≤ qmdl + 8)) : isoBit qmdl i = 0 := by
  unfold isoBit
  have : (decide (qmdl ≤ i + qIsoLo) && decide (i ≤ qmdl + qIsoHi)) = false := by
    rw [Bool.eq_false_iff]; intro hc
    simp only [Bool.and_eq_true, qIsoLo, qIsoHi] at hc; exact h ⟨of_decide_eq_true hc.1, of_decide_eq_true hc.2⟩
  simp [this, qIsoNone]

theorem isoBit_low (qmdl i p : Nat) (hp : p < 46) : (isoBit qmdl i).testBit p = false := by
  by_cases h : qmdl ≤ i + 8 ∧ i ≤ qmdl + 8
  · rw [isoBit_in qmdl i h.1 h.2, testBit_shl1, decide_eq_false_iff_not]; omega
  · rw [isoBit_out qmdl i h]; simp

theorem isoBase_some (qmdl : Nat) (q : QAtom) (i : Nat) (h : qIso q.kind = some i) :
    isoBase qmdl q = isoBit qmdl i ||| (if q.radical then qIsoRad else qIsoNoRad) := by
  simp only [isoBase, h, isoBit]

theorem isoBase_none (qmdl : Nat) (q : QAtom) (h : qIso q.kind = none) :
    isoBase qmdl q = if q.radical then qAnyIsoRad else qAnyIsoNoRad := by
  simp only [isoBase, h]

theorem rad_at (qmdl : Nat) (q : QAtom) (r : Bool) :
    (isoBase qmdl q).testBit (if r then 45 else 44) = (q.radical == r) := by
  cases hi : qIso q.kind with
  | some i =>
    rw [isoBase_some qmdl q i hi, Nat.testBit_or, isoBit_low qmdl i _ (by cases r <;> simp)]
    cases r <;> cases q.radical <;> simp [qIsoRad, qIsoNoRad] <;> decide
  | none =>
    rw [isoBase_none qmdl q hi]
    cases r <;> cases q.radical <;> simp [qAnyIsoRad, qAnyIsoNoRad] <;> decide


theorem isoTruthy_some {o : Option Nat} {j : Nat} (h : isoTruthy o = some j) : o = some j ∧ j ≠ 0 := by
  cases o with
  | none => simp [isoTruthy] at h
  | some k =>
    simp only [isoTruthy] at h
    split at h
    · rename_i hk; simp only [Option.some.injEq] at h; subst h; exact ⟨rfl, by simpa using hk⟩
    · simp at h

theorem isoTruthy_none {o : Option Nat} (h : isoTruthy o = none) : o = none ∨ o = some 0 := by
  cases o with
  | none => exact Or.inl rfl
  | some k =>
    simp only [isoTruthy] at h
    split at h
    · simp at h
    · rename_i hk; right; simp at hk; rw [hk]

theorem iso_at (mdl qmdl : Nat) (q : QAtom) (a : MAtom) (ha : ∀ i, isoTruthy a.isotope = some i → mdl ≤ i + 8 ∧ i ≤ mdl + 8)
    (hm : qIso q.kind ≠ none → qmdl = mdl) :
    (isoBase qmdl q).testBit (isoPos mdl a) = !isoRejects (kindIso q.kind) a.isotope := by
  have hpos : 46 ≤ isoPos mdl a ∧ isoPos mdl a ≤ 63 := by
    unfold isoPos; split
    · rename_i j hj; have := ha j hj; omega
    · omega
  cases hi : qIso q.kind with
  | none =>
    have hrej : isoRejects (kindIso q.kind) a.isotope = false := by
      rw [qIso_eq] at hi
      rcases isoTruthy_none hi with h | h <;> simp [h, isoRejects]
    rw [isoBase_none qmdl q hi, hrej]
    cases q.radical <;>
      simp only [if_true, if_false, Bool.false_eq_true, qAnyIsoRad_eq, qAnyIsoNoRad_eq, Nat.testBit_or, testBit_run, Bool.not_false] <;>
      simp <;> omega
  | some i =>
    have hq : qmdl = mdl := hm (by rw [hi]; simp)
    subst hq
    rw [qIso_eq] at hi
    obtain ⟨hk, hi0⟩ := isoTruthy_some hi
    rw [isoBase_some qmdl q i (by rw [qIso_eq, hk]; simp [isoTruthy, hi0])]
    have hradc : (if q.radical then qIsoRad else qIsoNoRad).testBit (isoPos qmdl a) = false := by
      have e1 : qIsoRad = 1 <<< 45 := by decide
      have e2 : qIsoNoRad = 1 <<< 44 := by decide
      cases q.radical <;> simp only [if_true, if_false, Bool.false_eq_true, e1, e2, testBit_shl1, decide_eq_false_iff_not] <;> omega
    rw [Nat.testBit_or, hradc, Bool.or_false, hk]
    simp only [isoRejects]
    by_cases hw : qmdl ≤ i + 8 ∧ i ≤ qmdl + 8
    · rw [isoBit_in qmdl i hw.1 hw.2, testBit_shl1]
      unfold isoPos
      cases hj : isoTruthy a.isotope with
      | some j =>
        obtain ⟨haj, _⟩ := isoTruthy_some hj
        have := ha j hj
        simp only [haj]
        rw [Bool.eq_iff_iff]
        simp [hi0]
        omega
      | none =>
        have r1 : (i != 0) = true := by simp [hi0]
        have r2 : (some i != (none : Option Nat)) = true := by simp
        have r3 : (some i != some 0) = true := by simp [hi0]
        have r4 : decide (i + 54 - qmdl = 63) = false := by rw [decide_eq_false_iff_not]; omega
        rcases isoTruthy_none hj with h | h <;> simp only [h, r1, r2, r3, r4] <;> rfl
    · rw [isoBit_out qmdl i hw]
      simp only [Nat.zero_testBit]
      cases hj : isoTruthy a.isotope with
      | some j =>
        obtain ⟨haj, _⟩ := isoTruthy_some hj
        have := ha j hj
        simp [haj, hi0]
        intro h; subst h; exact hw this
      | none =>
        rcases isoTruthy_none hj with h | h <;> simp [h, hi0]


theorem isoPos_range (mdl : Nat) (a : MAtom) (ha : ∀ i, isoTruthy a.isotope = some i → mdl ≤ i + 8 ∧ i ≤ mdl + 8) :
    46 ≤ isoPos mdl a ∧ isoPos mdl a ≤ 63 := by
  unfold isoPos; split
  · rename_i j hj; have := ha j hj; omega
  · omega

/-- word III for the non-metal kinds -/
theorem test3_ext (mdl qmdl : Nat) (q : QAtom) (a : MAtom) (hq : QDom q) (ha : ADom mdl a)
    (hm : qIso q.kind ≠ none → qmdl = mdl) :
    (m3 qmdl q &&& atomV3 mdl a == atomV3 mdl a) =
      ((q.charge == a.charge) && (q.radical == a.radical) && !isoRejects (kindIso q.kind) a.isotope &&
       !tupleRejects q.neighbors a.neighbors && !hRejects q.implH (some (hOr a.implH)) &&
       !tupleRejects q.heteroatoms a.heteroatoms) := by
  have hp := isoPos_range mdl a ha.iso
  have b1 : (m3 qmdl q).testBit (isoPos mdl a) = !isoRejects (kindIso q.kind) a.isotope := by
    rw [m3_at qmdl q hq]
    simp only [show ¬ isoPos mdl a < 15 by omega, show ¬ isoPos mdl a < 30 by omega, show ¬ isoPos mdl a < 35 by omega,
      show ¬ isoPos mdl a < 44 by omega, if_false]
    exact iso_at mdl qmdl q a ha.iso hm
  have b2 : (m3 qmdl q).testBit (if a.radical then 45 else 44) = (q.radical == a.radical) := by
    rw [m3_at qmdl q hq]
    have : 44 ≤ (if a.radical then 45 else 44) := by split <;> omega
    simp only [show ¬ (if a.radical then 45 else 44) < 15 by omega, show ¬ (if a.radical then 45 else 44) < 30 by omega,
      show ¬ (if a.radical then 45 else 44) < 35 by omega, show ¬ (if a.radical then 45 else 44) < 44 by omega, if_false]
    exact rad_at qmdl q a.radical
  have hc1 := ha.chg_lo; have hc2 := ha.chg_hi
  have b3 : (m3 qmdl q).testBit (a.charge + 39).toNat = (q.charge == a.charge) := by
    rw [m3_at qmdl q hq]
    simp only [show ¬ (a.charge + 39).toNat < 15 by omega, show ¬ (a.charge + 39).toNat < 30 by omega,
      show ¬ (a.charge + 39).toNat < 35 by omega, show (a.charge + 39).toNat < 44 by omega, if_false, if_true]
    exact chg_at q hq a.charge hc1 hc2
  have hh := ha.h
  have b4 : (m3 qmdl q).testBit (hOr a.implH + 30) = !hRejects q.implH (some (hOr a.implH)) := by
    rw [m3_at qmdl q hq]
    simp only [show ¬ hOr a.implH + 30 < 15 by omega, show ¬ hOr a.implH + 30 < 30 by omega,
      show hOr a.implH + 30 < 35 by omega, if_false, if_true]
    exact h_at q _ hh
  have hn := ha.nb
  have b5 : (m3 qmdl q).testBit (a.neighbors + 15) = !tupleRejects q.neighbors a.neighbors := by
    rw [m3_at qmdl q hq]
    simp only [show ¬ a.neighbors + 15 < 15 by omega, show a.neighbors + 15 < 30 by omega, if_false, if_true]
    exact nb_at q _ hn
  have he := ha.het
  have b6 : (m3 qmdl q).testBit a.heteroatoms = !tupleRejects q.heteroatoms a.heteroatoms := by
    rw [m3_at qmdl q hq]
    simp only [show a.heteroatoms < 15 by omega, if_true]
    exact het_at q _ he
  rw [atomV3_eq, sub_orShifts]
  simp only [pos3, List.all_cons, List.all_nil, Bool.and_true, b1, b2, b3, b4, b5, b6]
  cases (q.charge == a.charge) <;> cases (q.radical == a.radical) <;> cases isoRejects (kindIso q.kind) a.isotope <;>
    cases tupleRejects q.neighbors a.neighbors <;> cases hRejects q.implH (some (hOr a.implH)) <;>
    cases tupleRejects q.heteroatoms a.heteroatoms <;> rfl

end ChythonModel.Proofs.C09
