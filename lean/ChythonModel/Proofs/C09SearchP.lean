import ChythonModel.Proofs.C09Search
namespace ChythonModel.Proofs.C09
open ChythonModel.Model.Bits ChythonModel.Model

/-! ## dictionary lemmas for the reference loop (`mapping` / `reversed_mapping` are the zips of the query order with the path) -/

def swapP (p : Nat × Nat) : Nat × Nat := (p.2, p.1)

theorem lookup_map_swap (L : List (Nat × Nat)) (hs : (L.map (·.2)).Nodup) (k x : Nat) (h : (k, x) ∈ L) :
    (L.map swapP).lookup x = some k := by
  induction L with
  | nil => simp at h
  | cons q L ih =>
    simp only [List.map_cons, List.nodup_cons] at hs
    simp only [List.map_cons, swapP, List.lookup_cons]
    rcases List.mem_cons.mp h with rfl | h'
    · simp
    · have : q.2 ≠ x := by
        intro e; apply hs.1; rw [e]; exact List.mem_map.mpr ⟨(k, x), h', rfl⟩
      have : (x == q.2) = false := by simp [Ne.symm this]
      simp only [this]
      exact ih hs.2 h'

theorem del_filter (d : Iso.Dict) (k : Nat) (h : d.has k = true) : d.del? k = some (d.filter (·.1 != k)) := by
  unfold Iso.Dict.del?; unfold Iso.Dict.has at h; simp [h]

/-- `truncate` on a pair of mutually inverse dicts removes exactly the entries of the dropped atoms -/
theorem truncate_filter (xs : List Nat) (L : List (Nat × Nat)) (hf : (L.map (·.1)).Nodup) (hs : (L.map (·.2)).Nodup)
    (hx : ∀ x ∈ xs, x ∈ L.map (·.2)) (hxs : xs.Nodup) :
    Iso.truncate xs L (L.map swapP) =
      some (L.filter (fun q => !xs.contains q.2), (L.filter (fun q => !xs.contains q.2)).map swapP) := by
  induction xs generalizing L with
  | nil => simp [Iso.truncate]
  | cons x xs ih =>
    obtain ⟨q, hq, hqx⟩ := List.mem_map.mp (hx x (by simp))
    have hq' : (q.1, x) ∈ L := by rw [← hqx]; exact hq
    have hl := lookup_map_swap L hs q.1 x hq'
    have hasR : Iso.Dict.has (L.map swapP) x = true := by
      unfold Iso.Dict.has; simp only [List.any_map, List.any_eq_true]; exact ⟨q, hq, by simp [swapP, hqx]⟩
    have hasM : Iso.Dict.has L q.1 = true := by
      unfold Iso.Dict.has; simp only [List.any_eq_true]; exact ⟨q, hq, by simp⟩
    -- the two deletions remove the same entry
    have hsame : L.filter (·.1 != q.1) = L.filter (·.2 != x) := by
      apply List.filter_congr
      intro r hr
      by_cases h1 : r.1 = q.1
      · have : r = q := by
          have := List.inj_on_of_nodup_map hf hr hq h1; exact this
        subst this
        have e1 : (r.1 != r.1) = false := by simp
        have e2 : (r.2 != x) = false := by simp [hqx]
        rw [e1, e2]
      · have h2 : r.2 ≠ x := by
          intro e
          have : r = q := List.inj_on_of_nodup_map hs hr hq (by rw [e, hqx])
          exact h1 (by rw [this])
        have e1 : (r.1 != q.1) = true := by simp [h1]
        have e2 : (r.2 != x) = true := by simp [h2]
        rw [e1, e2]
    have hR : (L.map swapP).filter (·.1 != x) = (L.filter (·.2 != x)).map swapP := by
      rw [List.filter_map]; rfl
    simp only [Iso.truncate, hl, del_filter _ _ hasR, del_filter _ _ hasM, Option.bind_eq_bind, Option.bind_some, bind, hsame, hR]
    have hf' : ((L.filter (·.2 != x)).map (·.1)).Nodup := (hf.sublist (List.Sublist.map _ (List.filter_sublist)))
    have hs' : ((L.filter (·.2 != x)).map (·.2)).Nodup := (hs.sublist (List.Sublist.map _ (List.filter_sublist)))
    have hxs' := List.nodup_cons.mp hxs
    have hx' : ∀ y ∈ xs, y ∈ (L.filter (·.2 != x)).map (·.2) := by
      intro y hy
      obtain ⟨r, hr, hry⟩ := List.mem_map.mp (hx y (by simp [hy]))
      refine List.mem_map.mpr ⟨r, List.mem_filter.mpr ⟨hr, ?_⟩, hry⟩
      have : y ≠ x := fun e => hxs'.1 (e ▸ hy)
      simp [hry, this]
    rw [ih _ hf' hs' hx' hxs'.2]
    have hff : (L.filter (·.2 != x)).filter (fun q => !xs.contains q.2) = L.filter (fun q => !(x :: xs).contains q.2) := by
      rw [List.filter_filter]
      apply List.filter_congr
      intro r _
      simp only [List.contains_cons]
      cases h1 : xs.contains r.2 <;> cases h2 : (r.2 == x) <;> simp [bne, h2]
    rw [hff]


theorem zip_fst_sublist (F P : List Nat) : ((F.zip P).map (·.1)).Sublist F := by
  induction F generalizing P with
  | nil => simp
  | cons f F ih =>
    cases P with
    | nil => simp
    | cons a P => simp only [List.zip_cons_cons, List.map_cons]; exact (ih P).cons₂ f

theorem zip_snd_sublist (F P : List Nat) : ((F.zip P).map (·.2)).Sublist P := by
  induction F generalizing P with
  | nil => simp
  | cons f F ih =>
    cases P with
    | nil => simp
    | cons a P => simp only [List.zip_cons_cons, List.map_cons]; exact (ih P).cons₂ a

theorem zip_map_swap (F P : List Nat) : (F.zip P).map swapP = P.zip F := by
  induction F generalizing P with
  | nil => cases P <;> simp
  | cons f F ih =>
    cases P with
    | nil => simp
    | cons a P => simp only [List.zip_cons_cons, List.map_cons, swapP, ih]

theorem zip_snd_mem (F P : List Nat) (q : Nat × Nat) (h : q ∈ F.zip P) : q.2 ∈ P :=
  (zip_snd_sublist F P).subset (List.mem_map.mpr ⟨q, h, rfl⟩)

theorem zip_filter_drop (F p xs : List Nat) (hnd : (p ++ xs).Nodup) :
    (F.zip (p ++ xs)).filter (fun q => !xs.contains q.2) = F.zip p := by
  induction F generalizing p with
  | nil => simp
  | cons f F ih =>
    cases p with
    | nil =>
      simp only [List.nil_append, List.zip_nil_right]
      rw [List.filter_eq_nil_iff]
      intro q hq
      have := zip_snd_mem (f :: F) xs q hq
      simp [this]
    | cons a p =>
      have hnd' : a ∉ p ++ xs ∧ (p ++ xs).Nodup := by
        rw [List.cons_append] at hnd; exact List.nodup_cons.mp hnd
      have ha : a ∉ xs := fun h => hnd'.1 (List.mem_append.mpr (Or.inr h))
      simp only [List.cons_append, List.zip_cons_cons, List.filter_cons]
      have : (!xs.contains a) = true := by simp [ha]
      simp only [this, if_true]
      rw [ih p hnd'.2]

/-- a key that is not in the dict is appended -/
theorem set_append (d : Iso.Dict) (k v : Nat) (h : ∀ q ∈ d, q.1 ≠ k) : d.set k v = d ++ [(k, v)] := by
  unfold Iso.Dict.set
  have : d.any (·.1 == k) = false := by
    rw [List.any_eq_false]; intro q hq; simp [h q hq]
  simp [this]

theorem zip_append_one (F p : List Nat) (n : Nat) (f : Nat) (hf : F[p.length]? = some f) :
    F.zip (p ++ [n]) = F.zip p ++ [(f, n)] := by
  induction F generalizing p with
  | nil => simp at hf
  | cons g F ih =>
    cases p with
    | nil => simp at hf; subst hf; simp
    | cons a p =>
      simp only [List.length_cons, List.getElem?_cons_succ] at hf
      simp only [List.cons_append, List.zip_cons_cons, ih p hf]

theorem zip_one_append (F p : List Nat) (n : Nat) (f : Nat) (hf : F[p.length]? = some f) :
    (p ++ [n]).zip F = p.zip F ++ [(n, f)] := by
  rw [← zip_map_swap, zip_append_one F p n f hf, List.map_append, zip_map_swap]; rfl


/-! ## the reference matcher as an instance of the generic search -/

def frontsOf (lq : List Iso.Step) : List Nat := lq.map (·.front)
def mappingOf (lq : List Iso.Step) (path : List Nat) : Iso.Dict := (frontsOf lq).zip path
def rmappingOf (lq : List Iso.Step) (path : List Nat) : Iso.Dict := path.zip (frontsOf lq)

/-- the expansion step of `_get_mapping` with the dicts recomputed from the path -/
def expandP (e : Iso.Env) (d n : Nat) (path' : List Nat) : Option (List Nat) :=
  match e.lq[d]?, e.lq[d + 1]? with
  | some cur, some nxt =>
    match nxt.back with
    | none => none
    | some back =>
      match (if back != cur.front then Iso.img e.lq path' back else some n) with
      | none => none
      | some n' => Iso.candidates e nxt.front back n' (mappingOf e.lq path') (rmappingOf e.lq path') (e.t.nbrs n')
  | _, _ => none

def candsOfP (e : Iso.Env) (d : Nat) (path' : List Nat) : Option (List Nat) :=
  match path'.getLast? with
  | none => none
  | some n => expandP e d n path'

def envP (e : Iso.Env) : GenEnv :=
  { size := e.lq.length - 1, cands := candsOfP e,
    yld := fun path d n => match e.lq[d]? with | some cur => some ((mappingOf e.lq path).set cur.front n) | none => none }

theorem frontsOf_get (lq : List Iso.Step) (d : Nat) (cur : Iso.Step) (h : lq[d]? = some cur) : (frontsOf lq)[d]? = some cur.front := by
  simp [frontsOf, h]

theorem candidates_fresh (e : Iso.Env) (sN back n : Nat) (mapping rmapping : Iso.Dict) (row cs : List Nat)
    (h : Iso.candidates e sN back n mapping rmapping row = some cs) : ∀ c ∈ cs, rmapping.has c = false := by
  induction row generalizing cs with
  | nil => simp [Iso.candidates] at h; subst h; intro c hc; simp at hc
  | cons oN rest ih =>
    simp only [Iso.candidates, Option.bind_eq_bind, Option.pure_def, bind, pure] at h
    cases htl : Iso.candidates e sN back n mapping rmapping rest with
    | none => rw [htl] at h; simp at h
    | some tl =>
      rw [htl] at h
      simp only [Option.bind_some] at h
      by_cases hc : (e.scope oN && !rmapping.has oN && e.bondOk back sN n oN) = true
      · simp only [hc, if_true] at h
        by_cases ha : e.atomOk sN oN = true
        · simp only [ha, if_true] at h
          cases hcl : Iso.closureOk e sN oN n mapping rmapping with
          | none => rw [hcl] at h; simp at h
          | some b =>
            rw [hcl] at h
            simp only [Option.bind_some] at h
            cases b
            · simp only [Bool.false_eq_true, if_false, Option.some.injEq] at h
              subst h; exact ih tl htl
            · simp only [if_true, Option.some.injEq] at h
              subst h
              intro c hc'
              rcases List.mem_cons.mp hc' with rfl | hc'
              · simp only [Bool.and_eq_true, Bool.not_eq_true'] at hc; exact hc.1.2
              · exact ih tl htl c hc'
        · simp only [ha, Bool.false_eq_true, if_false, Option.some.injEq] at h
          subst h; exact ih tl htl
      · have hc' : (e.scope oN && !rmapping.has oN && e.bondOk back sN n oN) = false := by simpa using hc
        simp only [hc', Bool.false_eq_true, if_false, Option.some.injEq] at h
        subst h; exact ih tl htl

theorem rmapping_has (lq : List Iso.Step) (path : List Nat) (hlen : path.length ≤ lq.length) (c : Nat) :
    (rmappingOf lq path).has c = path.contains c := by
  unfold rmappingOf Iso.Dict.has
  have : (path.zip (frontsOf lq)).map (·.1) = path := by
    rw [List.map_fst_zip]; simp [frontsOf]; exact hlen
  rw [Bool.eq_iff_iff, List.any_eq_true, List.contains_iff_mem]
  constructor
  · rintro ⟨q, hq, he⟩
    simp only [beq_iff_eq] at he
    rw [← this]; exact List.mem_map.mpr ⟨q, hq, he⟩
  · intro hc
    rw [← this] at hc
    obtain ⟨q, hq, he⟩ := List.mem_map.mp hc
    exact ⟨q, hq, by simp [he]⟩


/-- `truncate` on the zips -/
theorem truncate_zip (lq : List Iso.Step) (hF : (frontsOf lq).Nodup) (path : List Nat) (d : Nat) (hnd : path.Nodup)
    (hlen : path.length ≤ lq.length) :
    Iso.truncate (path.drop d) (mappingOf lq path) (rmappingOf lq path) =
      some (mappingOf lq (path.take d), rmappingOf lq (path.take d)) := by
  have hsw : rmappingOf lq path = (mappingOf lq path).map swapP := by
    unfold rmappingOf mappingOf; rw [zip_map_swap]
  have hsnd : (mappingOf lq path).map (·.2) = path := by
    unfold mappingOf; rw [List.map_snd_zip]; simp [frontsOf]; exact hlen
  rw [hsw, truncate_filter (path.drop d) (mappingOf lq path)
      (hF.sublist (zip_fst_sublist _ _)) (by rw [hsnd]; exact hnd)
      (by intro x hx; rw [hsnd]; exact List.mem_of_mem_drop hx)
      (hnd.sublist (List.drop_sublist _ _))]
  have hz : (mappingOf lq path).filter (fun q => !(path.drop d).contains q.2) = mappingOf lq (path.take d) := by
    unfold mappingOf
    have h := zip_filter_drop (frontsOf lq) (path.take d) (path.drop d) (by rw [List.take_append_drop]; exact hnd)
    rwa [List.take_append_drop] at h
  rw [hz]
  unfold rmappingOf mappingOf; rw [zip_map_swap]


theorem mappingOf_keys (lq : List Iso.Step) (hF : (frontsOf lq).Nodup) (p : List Nat) (d : Nat) (hp : p.length = d) (cur : Iso.Step)
    (hcur : lq[d]? = some cur) : ∀ q ∈ mappingOf lq p, q.1 ≠ cur.front := by
  intro q hq he
  -- keys of the zip are the first `d` fronts; `cur.front` is the `d`-th
  have hk : q.1 ∈ (frontsOf lq).take d := by
    have : ∀ (F p : List Nat), (F.zip p).map (·.1) = F.take p.length := by
      intro F
      induction F with
      | nil => intro p; simp
      | cons f F ih =>
        intro p
        cases p with
        | nil => simp
        | cons a p => simp only [List.zip_cons_cons, List.map_cons, List.length_cons, List.take_succ_cons, ih p]
    have := this (frontsOf lq) p
    rw [hp] at this
    unfold mappingOf at hq
    rw [← this]; exact List.mem_map.mpr ⟨q, hq, rfl⟩
  have hget := frontsOf_get lq d cur hcur
  rw [he] at hk
  obtain ⟨i, hi, hgi⟩ := List.mem_iff_getElem.mp hk
  simp only [List.length_take] at hi
  rw [List.getElem_take] at hgi
  have hd : d < (frontsOf lq).length := by
    by_contra hc; rw [List.getElem?_eq_none (by omega)] at hget; simp at hget
  have hgd : (frontsOf lq)[d] = cur.front := by
    rw [List.getElem?_eq_getElem hd] at hget; simpa using hget
  have := (List.Nodup.getElem_inj_iff hF (hi := by omega) (hj := hd)).mp (hgi.trans hgd.symm)
  omega

/-- **Lemma B**: the loop of `_get_mapping` with its two dicts is the generic search (the dicts are the zips of the query order with
    the path) -/
theorem runLoop_eq_runG (e : Iso.Env) (hF : (frontsOf e.lq).Nodup) (fuel : Nat) (stack : List (Nat × Nat)) (path : List Nat)
    (acc : List Iso.Dict) (hinv : InvS stack path) (hlen : path.length ≤ e.lq.length) :
    Iso.runLoop e (e.lq.length - 1) fuel stack path (mappingOf e.lq path) (rmappingOf e.lq path) acc =
      runG (envP e) fuel stack path acc := by
  induction fuel generalizing stack path acc with
  | zero => rfl
  | succ fuel ih =>
    cases stack with
    | nil => rfl
    | cons en stack =>
      obtain ⟨n, d⟩ := en
      have hent := hinv.entries (n, d) (by simp)
      have hd : d ≤ path.length := hent.1
      simp only [Iso.runLoop, runG, envP]
      cases hcur : e.lq[d]? with
      | none =>
        simp only
        by_cases hsz : (d == e.lq.length - 1) = true
        · simp [hsz]
        · simp only [hsz, Bool.false_eq_true, if_false]
          unfold candsOfP expandP
          simp [hcur]
      | some cur =>
        simp only
        by_cases hsz : (d == e.lq.length - 1) = true
        · simp only [hsz, if_true]
          exact ih stack path _ hinv.pop hlen
        · simp only [hsz, Bool.false_eq_true, if_false]
          have hdl : d < e.lq.length := by
            by_contra hc; rw [List.getElem?_eq_none (by omega)] at hcur; simp at hcur
          have htr : (if path.length != d then Iso.truncate (path.drop d) (mappingOf e.lq path) (rmappingOf e.lq path)
              else some (mappingOf e.lq path, rmappingOf e.lq path)) =
              some (mappingOf e.lq (path.take d), rmappingOf e.lq (path.take d)) := by
            by_cases hl : path.length = d
            · have h2 : path.take d = path := List.take_of_length_le (by omega)
              have h3 : (path.length != d) = false := by simp [hl]
              rw [h3, h2]; rfl
            · have : (path.length != d) = true := by simp [hl]
              simp only [this, if_true]
              exact truncate_zip e.lq hF path d hinv.nodup hlen
          have htl : (path.take d).length = d := by simp [List.length_take]; omega
          have hset1 : (mappingOf e.lq (path.take d)).set cur.front n = mappingOf e.lq (path.take d ++ [n]) := by
            rw [set_append _ _ _ (mappingOf_keys e.lq hF _ d htl cur hcur)]
            unfold mappingOf
            rw [zip_append_one _ _ n cur.front (by rw [htl]; exact frontsOf_get _ _ _ hcur)]
          have hset2 : (rmappingOf e.lq (path.take d)).set n cur.front = rmappingOf e.lq (path.take d ++ [n]) := by
            rw [set_append]
            · unfold rmappingOf
              rw [zip_one_append _ _ n cur.front (by rw [htl]; exact frontsOf_get _ _ _ hcur)]
            · intro q hq he
              have : q.1 ∈ path.take d := by
                unfold rmappingOf at hq
                exact (zip_fst_sublist _ _).subset (List.mem_map.mpr ⟨q, hq, rfl⟩)
              rw [he] at this; exact hent.2 this
          unfold Iso.stepDown
          rw [htr]
          simp only [hset1, hset2]
          unfold candsOfP expandP
          simp only [List.getLast?_append, List.getLast?_singleton, Option.some_or, hcur]
          cases hnxt : e.lq[d + 1]? with
          | none => simp
          | some nxt =>
            simp only
            cases hback : nxt.back with
            | none => simp
            | some back =>
              simp only
              cases hn' : (if back != cur.front then Iso.img e.lq (path.take d ++ [n]) back else some n) with
              | none => simp
              | some n' =>
                simp only
                cases hc : Iso.candidates e nxt.front back n' (mappingOf e.lq (path.take d ++ [n])) (rmappingOf e.lq (path.take d ++ [n])) (e.t.nbrs n') with
                | none => simp
                | some cs =>
                  simp only
                  have hlen' : (path.take d ++ [n]).length ≤ e.lq.length := by
                    simp [List.length_take]; omega
                  have hfresh : ∀ c ∈ cs, c ∉ path.take d ++ [n] := by
                    intro c hc'
                    have := candidates_fresh _ _ _ _ _ _ _ _ hc c hc'
                    rw [rmapping_has _ _ hlen'] at this
                    intro hm; rw [List.contains_iff_mem.mpr hm] at this; simp at this
                  exact ih _ _ acc (hinv.step hfresh) hlen'

end ChythonModel.Proofs.C09
