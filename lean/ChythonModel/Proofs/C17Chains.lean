import ChythonModel.Proofs.C17Fold
import ChythonModel.Proofs.C17Pure
import ChythonModel.Spec.Fingerprint
/-! Helper lemmas for C17: tuple order, direction canonicalisation, the `_chains` queue loop. -/
namespace ChythonModel.Proofs.C17
open ChythonModel.Model ChythonModel.Model.Fingerprint ChythonModel.Spec.Fingerprint

/-! ## Python tuple order -/
section order
variable {α : Type} [LT α] [DecidableRel (α := α) (· < ·)]
  (irr : ∀ a : α, ¬ a < a) (asym : ∀ a b : α, a < b → ¬ b < a) (tri : ∀ a b : α, ¬ a < b → ¬ b < a → a = b)
include irr in
theorem tupleGt_irrefl (l : List α) : tupleGt l l = false := by
  induction l with
  | nil => rfl
  | cons a l ih => simp [tupleGt, irr a, ih]

include asym in
theorem tupleGt_asymm : ∀ (a b : List α), tupleGt a b = true → tupleGt b a = false
  | [], _, h => by simp [tupleGt] at h
  | _ :: _, [], _ => by simp [tupleGt]
  | a :: as, b :: bs, h => by
    simp only [tupleGt] at h ⊢
    by_cases h1 : b < a
    · have := asym _ _ h1
      simp [h1, this]
    · by_cases h2 : a < b
      · simp [h1, h2] at h
      · simp only [h1, h2, if_false] at h ⊢
        exact tupleGt_asymm as bs h

include tri in
theorem tupleGt_total : ∀ (a b : List α), tupleGt a b = false → tupleGt b a = false → a = b
  | [], [], _, _ => rfl
  | [], _ :: _, _, h => by simp [tupleGt] at h
  | _ :: _, [], h, _ => by simp [tupleGt] at h
  | a :: as, b :: bs, h, h' => by
    simp only [tupleGt] at h h'
    by_cases h1 : b < a
    · simp [h1] at h
    · by_cases h2 : a < b
      · simp [h2] at h'
      · simp only [h1, h2, if_false] at h h'
        have := tri _ _ h2 h1
        subst this
        rw [tupleGt_total as bs h h']
end order

theorem natGt_asymm (a b : List Nat) : tupleGt a b = true → tupleGt b a = false :=
  tupleGt_asymm (fun a b h => by omega) a b
theorem natGt_total (a b : List Nat) : tupleGt a b = false → tupleGt b a = false → a = b :=
  tupleGt_total (fun a b h h' => by omega) a b
theorem intGt_asymm (a b : List Int) : tupleGt a b = true → tupleGt b a = false :=
  tupleGt_asymm (fun a b h => by omega) a b
theorem intGt_total (a b : List Int) : tupleGt a b = false → tupleGt b a = false → a = b :=
  tupleGt_total (fun a b h h' => by omega) a b

/-! ## `canon` -/

theorem canon_eq_or (p : Path) : canon p = p ∨ canon p = p.reverse := by
  unfold canon; split <;> simp

theorem canon_reverse (p : Path) : canon p.reverse = canon p := by
  unfold canon
  rw [List.reverse_reverse]
  by_cases h : tupleGt p p.reverse = true
  · rw [if_pos h, natGt_asymm _ _ h]; simp
  · have h' : tupleGt p p.reverse = false := by simpa using h
    rw [if_neg h]
    by_cases h2 : tupleGt p.reverse p = true
    · rw [if_pos h2]
    · have h2' : tupleGt p.reverse p = false := by simpa using h2
      rw [if_neg h2]
      exact natGt_total _ _ h' h2'

theorem length_canon (p : Path) : (canon p).length = p.length := by
  rcases canon_eq_or p with h | h <;> simp [h]

theorem canon_single (x : Nat) : canon [x] = [x] := by
  rcases canon_eq_or [x] with h | h <;> simpa using h

/-- two paths have the same canonical form iff they are the same undirected path -/
theorem canon_eq_iff (p q : Path) : canon p = canon q ↔ p = q ∨ p = q.reverse := by
  constructor
  · intro h
    rcases canon_eq_or p with hp | hp <;> rcases canon_eq_or q with hq | hq <;> rw [hp, hq] at h
    · exact Or.inl h
    · exact Or.inr h
    · right; rw [← h, List.reverse_reverse]
    · left; simpa using congrArg List.reverse h
  · rintro (rfl | rfl)
    · rfl
    · exact canon_reverse q

/-! ## `Walk`, `SimplePath` -/

theorem walk_append_single (m : Mol) : ∀ (p : Path) (y : Nat),
    Walk m (p ++ [y]) ↔ Walk m p ∧ ∀ l, p.getLast? = some l → Adj m l y
  | [], y => by simp [Walk]
  | [a], y => by simp [Walk]
  | a :: b :: t, y => by
    have ih := walk_append_single m (b :: t) y
    simp only [List.cons_append, Walk] at ih ⊢
    rw [ih]
    have : (a :: b :: t).getLast? = (b :: t).getLast? := by simp [List.getLast?_cons_cons]
    rw [this]
    constructor
    · rintro ⟨h1, h2, h3⟩; exact ⟨⟨h1, h2⟩, h3⟩
    · rintro ⟨⟨h1, h2⟩, h3⟩; exact ⟨h1, h2, h3⟩

theorem walk_reverse (m : Mol) (sym : ∀ x y, Adj m x y → Adj m y x) : ∀ p : Path, Walk m p → Walk m p.reverse
  | [], _ => by simp [Walk]
  | [a], _ => by simp [Walk]
  | a :: b :: t, h => by
    simp only [Walk] at h
    have ih := walk_reverse m sym (b :: t) h.2
    rw [List.reverse_cons, walk_append_single]
    refine ⟨ih, ?_⟩
    intro l hl
    simp at hl
    subst hl
    exact sym _ _ h.1

theorem simplePath_reverse (m : Mol) (sym : ∀ x y, Adj m x y → Adj m y x) (p : Path) (h : SimplePath m p) :
    SimplePath m p.reverse :=
  ⟨by simpa using h.ne, by simpa using h.atoms, (List.reverse_perm p).nodup_iff.mpr h.nodup, walk_reverse m sym p h.walk⟩

theorem simplePath_single (m : Mol) (x : Nat) (hx : x ∈ m.ids) : SimplePath m [x] :=
  ⟨by simp, by simpa using hx, by simp, by simp [Walk]⟩

/-! ## `extendP` -/

theorem mem_extend (m : Mol) (now c : Path) :
    c ∈ extendP m now ↔ ∃ l x, now.getLast? = some l ∧ Adj m l x ∧ x ∉ now ∧ c = now ++ [x] := by
  unfold extendP
  cases h : now.getLast? with
  | none => simp
  | some l =>
    simp only [List.mem_map, List.mem_filter, Adj]
    constructor
    · rintro ⟨x, ⟨hx, hn⟩, rfl⟩
      refine ⟨l, x, rfl, ?_, ?_, rfl⟩
      · simpa using hx
      · simpa using hn
    · rintro ⟨l', x, hl, hx, hn, rfl⟩
      cases hl
      exact ⟨x, ⟨by simpa using hx, by simpa using hn⟩, rfl⟩

theorem length_of_mem_extend (m : Mol) (now c : Path) (h : c ∈ extendP m now) : c.length = now.length + 1 := by
  obtain ⟨l, x, _, _, _, rfl⟩ := (mem_extend m now c).mp h
  simp

theorem simplePath_extend (m : Mol) (hc : Closed m) (now c : Path) (hs : SimplePath m now) (h : c ∈ extendP m now) :
    SimplePath m c := by
  obtain ⟨l, x, hl, hadj, hn, rfl⟩ := (mem_extend m now c).mp h
  refine ⟨by simp, ?_, ?_, ?_⟩
  · intro y hy
    rcases List.mem_append.mp hy with hy | hy
    · exact hs.atoms y hy
    · simp at hy; subst hy; exact hc _ _ hadj
  · rw [List.nodup_append]
    refine ⟨hs.nodup, by simp, ?_⟩
    intro a ha b hb
    simp at hb; subst hb
    intro e; subst e; exact hn ha
  · rw [walk_append_single]
    refine ⟨hs.walk, ?_⟩
    intro l' hl'
    rw [hl] at hl'; cases hl'; exact hadj

/-- `p` is reached from `now` by one or more `extendP` steps -/
inductive Grow (m : Mol) : Path → Path → Prop
  | step {now c : Path} : c ∈ extendP m now → Grow m now c
  | trans {now c p : Path} : c ∈ extendP m now → Grow m c p → Grow m now p

theorem Grow.length_lt {m : Mol} {now p : Path} (h : Grow m now p) : now.length < p.length := by
  induction h with
  | step hc => rw [length_of_mem_extend _ _ _ hc]; omega
  | trans hc _ ih => rw [length_of_mem_extend _ _ _ hc] at ih; omega

theorem Grow.simple {m : Mol} (hcl : Closed m) {now p : Path} (h : Grow m now p) (hs : SimplePath m now) :
    SimplePath m p := by
  induction h with
  | step hc => exact simplePath_extend m hcl _ _ hs hc
  | trans hc _ ih => exact ih (simplePath_extend m hcl _ _ hs hc)

theorem Grow.no_children {m : Mol} {now p : Path} (h : Grow m now p) (he : extendP m now = []) : False := by
  cases h with
  | step hc => rw [he] at hc; simp at hc
  | trans hc _ => rw [he] at hc; simp at hc

theorem walk_append_cons (m : Mol) : ∀ (now : Path) (y : Nat) (s : Path), now ≠ [] → Walk m (now ++ y :: s) →
    ∃ l, now.getLast? = some l ∧ Adj m l y
  | [], _, _, h, _ => absurd rfl h
  | [a], y, s, _, hw => by
    simp only [List.cons_append, List.nil_append, Walk] at hw
    exact ⟨a, by simp, hw.1⟩
  | a :: b :: t, y, s, _, hw => by
    simp only [List.cons_append, Walk] at hw
    obtain ⟨l, hl, h⟩ := walk_append_cons m (b :: t) y s (by simp) (by simpa using hw.2)
    exact ⟨l, by rw [List.getLast?_cons_cons]; exact hl, h⟩

theorem grow_complete (m : Mol) : ∀ (s now : Path), now ≠ [] → s ≠ [] → (now ++ s).Nodup → Walk m (now ++ s) →
    Grow m now (now ++ s)
  | [], _, _, h, _, _ => absurd rfl h
  | y :: s, now, hne, _, hnd, hw => by
    obtain ⟨l, hl, hadj⟩ := walk_append_cons m now y s hne hw
    have hy : y ∉ now := by
      rw [List.nodup_append] at hnd
      intro hmem
      exact hnd.2.2 y hmem y (by simp) rfl
    have hc : now ++ [y] ∈ extendP m now := (mem_extend m now _).mpr ⟨l, y, hl, hadj, hy, rfl⟩
    cases s with
    | nil => exact Grow.step hc
    | cons z s' =>
      have e : now ++ y :: z :: s' = (now ++ [y]) ++ (z :: s') := by simp
      rw [e]
      exact Grow.trans hc (grow_complete m (z :: s') (now ++ [y]) (by simp) (by simp) (by rw [← e]; exact hnd)
        (by rw [← e]; exact hw))

/-! ## the queue loop -/

theorem mem_foldl_setAdd (var : List Path) (arr : List Path) (x : Path) :
    x ∈ var.foldl (fun a frag => setAdd a (canon frag)) arr ↔ x ∈ arr ∨ ∃ c ∈ var, x = canon c := by
  induction var generalizing arr with
  | nil => simp
  | cons v var ih =>
    simp only [List.foldl_cons, ih, mem_setAdd, List.mem_cons]
    constructor
    · rintro ((h | h) | ⟨c, hc, h⟩)
      · exact Or.inl h
      · exact Or.inr ⟨v, Or.inl rfl, h⟩
      · exact Or.inr ⟨c, Or.inr hc, h⟩
    · rintro (h | ⟨c, rfl | hc, h⟩)
      · exact Or.inl (Or.inl h)
      · exact Or.inl (Or.inr h)
      · exact Or.inr ⟨c, hc, h⟩

theorem nodup_foldl_setAdd (var : List Path) (arr : List Path) (h : arr.Nodup) :
    (var.foldl (fun a frag => setAdd a (canon frag)) arr).Nodup := by
  induction var generalizing arr with
  | nil => simpa
  | cons v var ih => exact ih _ (nodup_setAdd h)

/-- what the loop adds: canonical forms of the paths grown from queue members, within the length window -/
theorem chainsLoop_spec (m : Mol) (lo hi : Int) : ∀ (fuel : Nat) (q arr r : List Path),
    (∀ now ∈ q, (now.length : Int) < hi) → chainsLoopP m lo hi fuel q arr = .ok r →
    ∀ x, x ∈ r ↔ x ∈ arr ∨ ∃ now ∈ q, ∃ p, Grow m now p ∧ lo ≤ (p.length : Int) ∧ (p.length : Int) ≤ hi ∧ x = canon p
  | 0, _, _, _, _, h => by simp [chainsLoopP, throw, throwThe, MonadExceptOf.throw] at h
  | f + 1, [], arr, r, _, h => by
    simp only [chainsLoopP, pure, Except.pure] at h
    cases h
    simp
  | f + 1, now :: q, arr, r, hq, h => by
    intro x
    rw [chainsLoopP] at h
    have hnow : (now.length : Int) < hi := hq now (by simp)
    have hq' : ∀ n ∈ q, (n.length : Int) < hi := fun n hn => hq n (List.mem_cons_of_mem _ hn)
    cases hvar : extendP m now with
    | nil =>
      simp only [hvar] at h
      rw [chainsLoop_spec m lo hi f q arr r hq' h x]
      constructor
      · rintro (h1 | ⟨n, hn, rest⟩)
        · exact Or.inl h1
        · exact Or.inr ⟨n, List.mem_cons_of_mem _ hn, rest⟩
      · rintro (h1 | ⟨n, hn, p, hg, rest⟩)
        · exact Or.inl h1
        · rcases List.mem_cons.mp hn with rfl | hn
          · exact (hg.no_children hvar).elim
          · exact Or.inr ⟨n, hn, p, hg, rest⟩
    | cons v0 vs =>
      simp only [hvar] at h
      have hlen : ∀ c ∈ v0 :: vs, c.length = now.length + 1 := fun c hc =>
        length_of_mem_extend m now c (by rw [hvar]; exact hc)
      have hv0 : v0.length = now.length + 1 := hlen v0 (by simp)
      have hq'' : ∀ n ∈ (if (v0.length : Int) < hi then q ++ (v0 :: vs) else q), (n.length : Int) < hi := by
        intro n hn
        split at hn
        · rename_i hlt
          rcases List.mem_append.mp hn with hn | hn
          · exact hq' n hn
          · rw [hlen n hn, ← hv0]; exact hlt
        · exact hq' n hn
      rw [chainsLoop_spec m lo hi f _ _ r hq'' h x]
      -- membership in the updated set
      have harr : x ∈ (if (v0.length : Int) ≥ lo then (v0 :: vs).foldl (fun a frag => setAdd a (canon frag)) arr else arr)
          ↔ x ∈ arr ∨ ((v0.length : Int) ≥ lo ∧ ∃ c ∈ v0 :: vs, x = canon c) := by
        split
        · rename_i hge; rw [mem_foldl_setAdd]; simp [hge]
        · rename_i hge; simp [hge]
      rw [harr]
      constructor
      · rintro ((h1 | ⟨hge, c, hc, rfl⟩) | ⟨n, hn, p, hg, h1, h2, rfl⟩)
        · exact Or.inl h1
        · refine Or.inr ⟨now, by simp, c, Grow.step (by rw [hvar]; exact hc), ?_, ?_, rfl⟩
          · rw [hlen c hc, ← hv0]; exact hge
          · rw [hlen c hc]; push_cast; omega
        · split at hn
          · rcases List.mem_append.mp hn with hn | hn
            · exact Or.inr ⟨n, List.mem_cons_of_mem _ hn, p, hg, h1, h2, rfl⟩
            · exact Or.inr ⟨now, by simp, p, Grow.trans (by rw [hvar]; exact hn) hg, h1, h2, rfl⟩
          · exact Or.inr ⟨n, List.mem_cons_of_mem _ hn, p, hg, h1, h2, rfl⟩
      · rintro (h1 | ⟨n, hn, p, hg, h1, h2, rfl⟩)
        · exact Or.inl (Or.inl h1)
        · rcases List.mem_cons.mp hn with rfl | hn
          · cases hg with
            | step hc =>
              rw [hvar] at hc
              refine Or.inl (Or.inr ⟨?_, p, hc, rfl⟩)
              rw [hv0, ← hlen p hc]; exact h1
            | trans hc hg' =>
              rw [hvar] at hc
              have hl := hg'.length_lt
              have : (v0.length : Int) < hi := by rw [hv0, ← hlen _ hc]; omega
              refine Or.inr ⟨_, ?_, p, hg', h1, h2, rfl⟩
              rw [if_pos this]; exact List.mem_append_right _ hc
          · refine Or.inr ⟨n, ?_, p, hg, h1, h2, rfl⟩
            split
            · exact List.mem_append_left _ hn
            · exact hn

theorem chainsLoop_nodup (m : Mol) (lo hi : Int) : ∀ (fuel : Nat) (q arr r : List Path),
    arr.Nodup → chainsLoopP m lo hi fuel q arr = .ok r → r.Nodup
  | 0, _, _, _, _, h => by simp [chainsLoopP, throw, throwThe, MonadExceptOf.throw] at h
  | f + 1, [], arr, r, ha, h => by
    simp only [chainsLoopP, pure, Except.pure] at h
    cases h; exact ha
  | f + 1, now :: q, arr, r, ha, h => by
    rw [chainsLoopP] at h
    cases hvar : extendP m now with
    | nil => simp only [hvar] at h; exact chainsLoop_nodup m lo hi f q arr r ha h
    | cons v0 vs =>
      simp only [hvar] at h
      refine chainsLoop_nodup m lo hi f _ _ r ?_ h
      split
      · exact nodup_foldl_setAdd _ _ ha
      · exact ha

end ChythonModel.Proofs.C17
