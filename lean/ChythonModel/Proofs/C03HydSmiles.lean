import ChythonModel.Proofs.C03HydTotal
/-!
# C03 — the hydrogen loop raises nothing on any molecule `smiles` returns (molecule, or any role of a reaction)
-/
set_option linter.unusedSimpArgs false
namespace ChythonModel.Proofs.C03
open ChythonModel.Model.C03 ChythonModel.Gen.C03 ChythonModel.Model.Valence

/-- all built molecules of a result -/
def builtOf : Result → List MolOut
  | .mol _ m => [m]
  | .rxn _ _ out => out.reactants ++ out.reagents ++ out.products

theorem buildMols_from : ∀ (l : List MolRec) (ps : List (MolRec × MolOut)), buildMols l = .ok ps →
    ∀ p ∈ ps, buildMol p.1 = .ok p.2
  | [], ps, h, p, hp => by simp [buildMols] at h; subst h; simp at hp
  | r :: tl, ps, h, p, hp => by
    unfold buildMols at h
    cases htl : buildMols tl with
    | error e => rw [htl] at h; cases h
    | ok rest =>
      rw [htl] at h
      dsimp only at h
      cases hb : buildMol r with
      | ok m =>
        rw [hb] at h
        dsimp only at h
        cases h
        simp only [List.mem_cons] at hp
        rcases hp with rfl | hp
        · exact hb
        · exact buildMols_from tl rest htl p hp
      | error e =>
        rw [hb] at h
        cases e with
        | lib c m => dsimp only at h; cases h; exact buildMols_from tl _ htl p hp
        | crash c => cases h

theorem buildRoles_from (r kept : RxnRec) (out : RxnOut) (h : buildRoles r = .ok (kept, out)) :
    ∀ m ∈ out.reactants ++ out.reagents ++ out.products, ∃ q, buildMol q = .ok m := by
  unfold buildRoles at h
  cases ha : buildMols r.reactants with
  | error e => rw [ha] at h; cases h
  | ok a =>
    rw [ha] at h
    dsimp only at h
    cases hp : buildMols r.products with
    | error e => rw [hp] at h; cases h
    | ok p =>
      rw [hp] at h
      dsimp only at h
      cases hg : buildMols r.reagents with
      | error e => rw [hg] at h; cases h
      | ok g =>
        rw [hg] at h
        dsimp only at h
        cases h
        intro m hm
        simp only [List.mem_append, List.mem_map] at hm
        rcases hm with (⟨x, hx, rfl⟩ | ⟨x, hx, rfl⟩) | ⟨x, hx, rfl⟩
        · exact ⟨x.1, buildMols_from _ _ ha x hx⟩
        · exact ⟨x.1, buildMols_from _ _ hg x hx⟩
        · exact ⟨x.1, buildMols_from _ _ hp x hx⟩

theorem finishRxn_from (R G P : List Str) (rad : List Nat) (res : Result) (h : finishRxn R G P rad = .ok res) :
    ∀ m ∈ builtOf res, ∃ q, buildMol q = .ok m := by
  unfold finishRxn at h
  split at h
  · cases h
  · split at h
    · cases h
    · split at h
      · cases h
      · split at h
        · cases h
        · dsimp only at h
          split at h
          · cases h
          · rename_i kept out hb
            split at h
            · cases h
            · cases h
              exact buildRoles_from _ kept out hb

theorem smilesRxn_from (smi : Str) (rad : List Nat) (ct : Option (List (List Nat))) (res : Result)
    (h : smilesRxn smi rad ct = .ok res) : ∀ m ∈ builtOf res, ∃ q, buildMol q = .ok m := by
  unfold smilesRxn at h
  split at h
  · dsimp only at h
    split at h
    · split at h
      · cases h
      · exact finishRxn_from _ _ _ _ res h
    · exact finishRxn_from _ _ _ _ res h
  · cases h

theorem smilesMol_from (smi : Str) (rad : List Nat) (res : Result) (h : smilesMol smi rad = .ok res) :
    ∀ m ∈ builtOf res, ∃ q, buildMol q = .ok m := by
  unfold smilesMol at h
  split at h
  · cases h
  · split at h
    · cases h
    · split at h
      · cases h
      · split at h
        · cases h
        · cases h
          intro x hx
          simp only [builtOf, List.mem_singleton] at hx
          subst hx
          exact ⟨_, by assumption⟩

/-- every molecule in what `smiles` returns came out of `buildMol` -/
theorem smiles_built_from_buildMol (s : Str) (res : Result) (h : smiles s = .ok res) :
    ∀ m ∈ builtOf res, ∃ r, buildMol r = .ok m := by
  unfold smiles at h
  split at h
  · cases h
  · split at h
    · cases h
    · dsimp only at h
      split at h
      · exact smilesRxn_from _ _ _ res h
      · exact smilesMol_from _ _ res h

/-- **the hydrogen loop raises nothing on any molecule `smiles` returns** -/
theorem smiles_hydrogens_total (s : Str) (res : Result) (h : smiles s = .ok res) :
    ∀ m ∈ builtOf res, ∃ l, molHydrogens m = .ok l ∧ l.map (·.1) = m.atoms.map (·.1) := by
  intro m hm
  obtain ⟨r, hr⟩ := smiles_built_from_buildMol s res h m hm
  exact molHydrogens_total r m hr

/-- the keyword-aware loop has the same two failure modes, both ruled out on built molecules -/
theorem hydLoopOpt_total (o : HOpts) (m : MolOut) (wf : HydWF m) :
    ∀ (as : List (Nat × Nat × Option Nat × Int × Bool × Option Nat)), (∀ a ∈ as, a ∈ m.atoms) →
    ∃ l, hydLoopOpt o m as = .ok l ∧ l.map (·.1) = as.map (·.1)
  | [], _ => ⟨[], rfl, rfl⟩
  | a :: tl, hin => by
    obtain ⟨c, hc, hz⟩ := hCtx_some m wf a (hin a (by simp))
    have ht : (tableOf c.z).isSome = true := by rw [hz]; exact wf.tables a (hin a (by simp))
    obtain ⟨l, hl, hids⟩ := hydLoopOpt_total o m wf tl (fun x hx => hin x (by simp [hx]))
    cases htab : tableOf c.z with
    | none => rw [htab] at ht; cases ht
    | some t =>
      refine ⟨(a.1, (assignOpt o (calcWith t) (checkWith t) c a.2.2.2.2.2).1,
        (assignOpt o (calcWith t) (checkWith t) c a.2.2.2.2.2).2) :: l, ?_, by simp [hids]⟩
      unfold hydLoopOpt
      simp only [hc, assignHOpt, htab, Option.map_some, hl]

theorem smiles_hydrogens_total_opt (o : HOpts) (s : Str) (res : Result) (h : smiles s = .ok res) :
    ∀ m ∈ builtOf res, ∃ l, molHydrogensOpt o m = .ok l ∧ l.map (·.1) = m.atoms.map (·.1) := by
  intro m hm
  obtain ⟨r, hr⟩ := smiles_built_from_buildMol s res h m hm
  exact hydLoopOpt_total o m (buildMol_wf r m hr) m.atoms (fun a ha => ha)

end ChythonModel.Proofs.C03
