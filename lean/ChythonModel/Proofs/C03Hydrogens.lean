import ChythonModel.Model.C03Hydrogens
import ChythonModel.Spec.SmilesHydrogens
/-!
# C03 — hydrogens after graph construction: helper lemmas

About `Model/C03Hydrogens.lean` (`assignWith`, `assignH`, `hydLoop`, `molHydrogens`) over C04's executable valence model
(`calcWith`, `checkWith`, `tableOf`).  Self-contained: nothing is imported from C04's proof files.
-/
set_option linter.unusedSimpArgs false
namespace ChythonModel.Proofs.C03
open ChythonModel.Model.C03 ChythonModel.Model.Valence ChythonModel.Spec ChythonModel.Spec.Smiles

/-! ## `calc_implicit` vs `check_implicit` (localised bonds) -/

theorem firstRule_any (ed : List (BE × Nat)) : ∀ (rules : List Rule) (k : Nat), firstRule ed rules = some k →
    (rules.any fun r => k == r.h && ruleMatches ed r) = true
  | [], _, h => by simp [firstRule] at h
  | r :: rs, k, h => by
    unfold firstRule at h
    simp only [List.any_cons, Bool.or_eq_true, Bool.and_eq_true, beq_iff_eq]
    by_cases hm : ruleMatches ed r = true
    · simp only [hm, if_true, Option.some.injEq] at h
      exact Or.inl ⟨h.symm, hm⟩
    · simp only [hm, Bool.false_eq_true, if_false] at h
      exact Or.inr (firstRule_any ed rs k h)

theorem firstRule_none_any (ed : List (BE × Nat)) : ∀ (rules : List Rule), firstRule ed rules = none →
    ∀ h, (rules.any fun r => h == r.h && ruleMatches ed r) = false
  | [], _, _ => rfl
  | r :: rs, hn, h => by
    unfold firstRule at hn
    by_cases hm : ruleMatches ed r = true
    · simp [hm] at hn
    · simp only [hm, Bool.false_eq_true, if_false] at hn
      have hm' : ruleMatches ed r = false := by simpa using hm
      simp only [List.any_cons, hm', Bool.and_false, Bool.false_or]
      exact firstRule_none_any ed rs hn h

/-- the count `calc_implicit` assigns is accepted by `check_implicit` -/
theorem check_of_calc (t : Rules) (c : Ctx) (k : Nat) (ha : aromaCount c.bonds = 0) (h : calcWith t c = some k) :
    checkWith t c k = true := by
  unfold calcWith at h
  unfold checkWith
  by_cases hz : (c.z == 1) = true
  · simp only [hz, if_true, Option.some.injEq] at h
    simp [hz, ← h]
  · simp only [hz, Bool.false_eq_true, if_false, ha] at h ⊢
    simp only [bne_self_eq_false, Bool.false_and, Bool.false_eq_true, if_false, Nat.reduceBEq] at h ⊢
    cases hv : valenceRules t c.charge c.radical (explicitSum c.bonds) with
    | none => rw [hv] at h; cases h
    | some rules => rw [hv] at h; exact firstRule_any _ rules k h

/-- `calc_implicit` finds no valence state ⇒ `check_implicit` rejects every count -/
theorem check_of_calc_none (t : Rules) (c : Ctx) (ha : aromaCount c.bonds = 0) (h : calcWith t c = none) (k : Nat) :
    checkWith t c k = false := by
  unfold calcWith at h
  unfold checkWith
  by_cases hz : (c.z == 1) = true
  · simp [hz] at h
  · simp only [hz, Bool.false_eq_true, if_false, ha] at h ⊢
    simp only [bne_self_eq_false, Bool.false_and, Bool.false_eq_true, if_false, Nat.reduceBEq] at h ⊢
    cases hv : valenceRules t c.charge c.radical (explicitSum c.bonds) with
    | none => rfl
    | some rules => rw [hv] at h; exact firstRule_none_any _ rules h k

/-- aromatic bonds on anything but a neutral non-radical carbon: `calc_implicit` leaves `None` (left to `kekule()`) -/
theorem calc_aromatic_hetero (t : Rules) (c : Ctx) (hz : c.z ≠ 1) (ha : isAromaticAtom c = true)
    (hc : ¬ (c.charge = 0 ∧ c.radical = false ∧ c.z = 6)) : calcWith t c = none := by
  unfold calcWith
  have hz' : (c.z == 1) = false := by simpa using hz
  have ha' : (aromaCount c.bonds != 0) = true := ha
  have hc' : (c.charge == 0 && !c.radical && c.z == 6) = false := by
    cases hcc : (c.charge == 0 && !c.radical && c.z == 6) with
    | false => rfl
    | true =>
      exfalso; apply hc
      simp only [Bool.and_eq_true, beq_iff_eq, Bool.not_eq_true'] at hcc
      exact ⟨hcc.1.1, hcc.1.2, hcc.2⟩
  simp [hz', ha', hc']

/-! ## the branch of `create_molecule` for one atom (`assignWith`), for arbitrary `calc` / `check` -/

/-- unbracketed atom: exactly `calc_implicit`, radical flag untouched -/
theorem assignWith_unbracketed (calcF : Ctx → Option Nat) (checkF : Ctx → Nat → Bool) (c : Ctx) :
    assignWith calcF checkF c none = (calcF c, c.radical) := rfl

/-- a bracket atom ends with the written count or with the count `calc_implicit` computed — nothing else -/
theorem assignWith_written_or_calc (calcF : Ctx → Option Nat) (checkF : Ctx → Nat → Bool) (c : Ctx) (h : Nat) :
    (assignWith calcF checkF c (some h)).1 = some h ∨ (assignWith calcF checkF c (some h)).1 = calcF c := by
  unfold assignWith
  cases hc : calcF c with
  | none =>
    dsimp only
    split
    · exact Or.inl rfl
    · split
      · split
        · exact Or.inl rfl
        · exact Or.inr rfl
      · exact Or.inr rfl
  | some k =>
    dsimp only
    split
    · rename_i hk
      have : h = k := by simpa using hk
      exact Or.inl (by rw [this])
    · split
      · split
        · rename_i hr
          simp only [aromRadicalCase, Bool.and_eq_true, beq_iff_eq] at hr
          exact Or.inl (by rw [hr.1.1.1.1])
        · exact Or.inr rfl
      · split
        · exact Or.inl rfl
        · split
          · split
            · exact Or.inl rfl
            · exact Or.inr rfl
          · exact Or.inr rfl

/-- localised bonds: the written count of a bracket atom is kept **iff** `check_implicit` admits it for the atom as
    written or — when the atom is not already marked as a radical — for its radical form -/
theorem assignWith_kept_iff (calcF : Ctx → Option Nat) (checkF : Ctx → Nat → Bool) (c : Ctx) (h : Nat)
    (hna : isAromaticAtom c = false) (hcc : ∀ k, calcF c = some k → checkF c k = true)
    (hcn : calcF c = none → ∀ k, checkF c k = false) :
    (assignWith calcF checkF c (some h)).1 = some h ↔
      (checkF c h = true ∨ (c.radical = false ∧ checkF { c with radical := true } h = true)) := by
  unfold assignWith
  cases hc : calcF c with
  | none =>
    have hno := hcn hc h
    simp only [hna, Bool.false_eq_true, if_false, hno, false_or]
    cases hr : c.radical with
    | true => simp
    | false =>
      simp only [Bool.not_false, if_true, true_and]
      cases hk : checkF { c with radical := true } h <;> simp
  | some k =>
    have hyes := hcc k hc
    dsimp only
    by_cases hk : (h == k) = true
    · have e : h = k := by simpa using hk
      subst e
      simp [hyes]
    · have hne : h ≠ k := by simpa using hk
      have hne' : ¬ (k = h) := fun e => hne e.symm
      simp only [hk, Bool.false_eq_true, if_false, hna]
      cases h1 : checkF c h with
      | true => simp
      | false =>
        simp only [Bool.false_eq_true, if_false, false_or]
        cases hr : c.radical with
        | true => simp [hne']
        | false =>
          simp only [Bool.not_false, if_true, true_and]
          cases hk2 : checkF { c with radical := true } h <;> simp [hne']

/-- aromatic atom for which `calc_implicit` has no answer: the written count is restored -/
theorem assignWith_aromatic_none (calcF : Ctx → Option Nat) (checkF : Ctx → Nat → Bool) (c : Ctx) (h : Nat)
    (ha : isAromaticAtom c = true) (hc : calcF c = none) :
    assignWith calcF checkF c (some h) = (some h, c.radical) := by
  unfold assignWith
  simp [hc, ha]

/-- the radical flag is only ever switched on by the radical form being admitted, or by the `c[c]c` special case -/
theorem assignWith_radical (calcF : Ctx → Option Nat) (checkF : Ctx → Nat → Bool) (c : Ctx) (h : Nat)
    (hr : (assignWith calcF checkF c (some h)).2 = true) :
    c.radical = true ∨ checkF { c with radical := true } h = true ∨ aromRadicalCase c h = true := by
  unfold assignWith at hr
  cases hrad : c.radical with
  | true => exact Or.inl rfl
  | false =>
    right
    cases hc : calcF c with
    | none =>
      rw [hc] at hr
      simp only [hrad, Bool.not_false, if_true] at hr
      split at hr
      · cases hr
      · split at hr
        · rename_i hk; exact Or.inl hk
        · cases hr
    | some k =>
      rw [hc] at hr
      simp only [hrad, Bool.not_false, if_true] at hr
      split at hr
      · cases hr
      · split at hr
        · split at hr
          · rename_i hk; exact Or.inr hk
          · cases hr
        · split at hr
          · cases hr
          · split at hr
            · rename_i hk; exact Or.inl hk
            · cases hr

/-! ## unbracketed organic-subset atoms against the OpenSMILES rule -/

/-- the first rule of element `z` for (neutral, not radical, valence `v`) is unconditional and assigns `h` -/
def headRuleOK (z v h : Nat) : Bool :=
  z != 1 &&
  match tableOf z with
  | some t => match valenceRules t 0 false v with
    | some (r :: _) => r.set.isEmpty && r.dict.isEmpty && r.h == h
    | _ => false
  | none => false

/-- table sweep (regenerated periodic table): for every element of the organic subset and every bond-order sum up to
    its lowest normal valence `v0`, the head rule is unconditional and gives `v0 − v`, which is the OpenSMILES count -/
theorem organic_table :
    ∀ zv ∈ OrganicValence.normalValences, ∀ v0 ∈ zv.2.head?, OrganicValence.lowest zv.1 = some v0 ∧
      ∀ v ∈ List.range (v0 + 1), headRuleOK zv.1 v (v0 - v) = true ∧ organicH zv.1 v = some (v0 - v) := by
  decide +kernel

theorem calc_of_headRule (z : Nat) (bs : List BE) (h : Nat) (ha : aromaCount bs = 0)
    (hh : headRuleOK z (explicitSum bs) h = true) : assignH ⟨z, 0, false, bs⟩ none = some (some h, false) := by
  simp only [headRuleOK, Bool.and_eq_true, bne_iff_ne, ne_eq] at hh
  obtain ⟨hz, hh⟩ := hh
  cases ht : tableOf z with
  | none => simp [ht] at hh
  | some t =>
    simp only [ht] at hh
    cases hv : valenceRules t 0 false (explicitSum bs) with
    | none => simp [hv] at hh
    | some rules =>
      cases rules with
      | nil => simp [hv] at hh
      | cons r tl =>
        simp only [hv, Bool.and_eq_true, List.isEmpty_iff, beq_iff_eq] at hh
        obtain ⟨⟨h1, h2⟩, h3⟩ := hh
        have hz' : (z == 1) = false := by simpa using hz
        have hm : ruleMatches (explicitDict bs) r = true := by simp [ruleMatches, h1, h2]
        simp [assignH, assignWith, ht, calcWith, hz', ha, hv, firstRule, hm, h3]

/-- **organic subset, up to the lowest normal valence**: the reader's count is the OpenSMILES count -/
theorem organic_low (z : Nat) (hz : z ∈ OrganicValence.organicSubset) (bs : List BE) (ha : aromaCount bs = 0)
    (v0 : Nat) (hl : OrganicValence.lowest z = some v0) (hle : explicitSum bs ≤ v0) :
    assignH ⟨z, 0, false, bs⟩ none = (organicH z (explicitSum bs)).map fun h => (some h, false) := by
  simp only [OrganicValence.organicSubset, List.mem_map] at hz
  obtain ⟨zv, hzv, rfl⟩ := hz
  cases hhd : zv.2.head? with
  | none =>
    have : ∀ zv ∈ OrganicValence.normalValences, zv.2.head? ≠ none := by decide
    exact absurd hhd (this zv hzv)
  | some w =>
    obtain ⟨hlw, hall⟩ := organic_table zv hzv w (by rw [hhd]; rfl)
    rw [hlw] at hl
    cases hl
    obtain ⟨h1, h2⟩ := hall (explicitSum bs) (by simp; omega)
    rw [h2]
    exact calc_of_headRule zv.1 bs _ ha h1

theorem lookup_none_of_forall {β : Type} (l : List ((Int × Bool × Nat) × β)) (k : Int × Bool × Nat)
    (h : ∀ p ∈ l, p.1 ≠ k) : l.lookup k = none := by
  induction l with
  | nil => rfl
  | cons p tl ih =>
    have hp := h p (by simp)
    have : (k == p.1) = false := by
      simp only [beq_eq_false_iff_ne, ne_eq]
      exact fun e => hp e.symm
    rw [List.lookup_cons, this]
    exact ih fun q hq => h q (by simp [hq])

/-- the table of `z` has no entry for a neutral non-radical atom whose bond orders sum to more than `v0` -/
def noNeutralAbove (z v0 : Nat) : Bool :=
  z != 1 &&
  match tableOf z with
  | none => false
  | some t => t.all fun krs => !(krs.1.1 == 0 && !krs.1.2.1) || decide (krs.1.2.2 ≤ v0)

theorem second_period_table : ∀ z ∈ [5, 6, 7, 8, 9], ∃ v0, OrganicValence.lowest z = some v0 ∧ noNeutralAbove z v0 = true := by
  decide +kernel

/-- B C N O F above their (only chython-supported) normal valence: `calc_implicit` reports a valence error (`None`) where
    OpenSMILES would say "next higher valence" (N: 5) or "0 hydrogens" -/
theorem second_period_above (z : Nat) (hz : z ∈ [5, 6, 7, 8, 9]) (bs : List BE) (ha : aromaCount bs = 0)
    (v0 : Nat) (hl : OrganicValence.lowest z = some v0) (hgt : v0 < explicitSum bs) :
    assignH ⟨z, 0, false, bs⟩ none = some (none, false) := by
  obtain ⟨w, hw, hno⟩ := second_period_table z hz
  rw [hl] at hw
  cases hw
  simp only [noNeutralAbove, Bool.and_eq_true, bne_iff_ne, ne_eq] at hno
  obtain ⟨hz1, hno⟩ := hno
  cases ht : tableOf z with
  | none => simp [ht] at hno
  | some t =>
    simp only [ht] at hno
    have hz' : (z == 1) = false := by simpa using hz1
    have hv : valenceRules t 0 false (explicitSum bs) = none := by
      apply lookup_none_of_forall
      intro p hp e
      have := List.all_eq_true.mp hno p hp
      rw [e] at this
      simp at this
      omega
    simp [assignH, assignWith, ht, calcWith, hz', ha, hv]

/-! ## the loop over the atoms of a built molecule -/

theorem hydLoop_entry (m : MolOut) : ∀ (as : List (Nat × Nat × Option Nat × Int × Bool × Option Nat))
    (l : List (Nat × Option Nat × Bool)), hydLoop m as = .ok l →
    ∀ (i : Nat) (a : Nat × Nat × Option Nat × Int × Bool × Option Nat), as[i]? = some a →
      ∃ c r, hCtx m a = some c ∧ assignH c a.2.2.2.2.2 = some r ∧ l[i]? = some (a.1, r.1, r.2)
  | [], _, _, i, a, hi => by simp at hi
  | x :: tl, l, h, i, a, hi => by
    unfold hydLoop at h
    cases hc : hCtx m x with
    | none => rw [hc] at h; cases h
    | some c =>
      rw [hc] at h
      dsimp only at h
      cases hr : assignH c x.2.2.2.2.2 with
      | none => rw [hr] at h; cases h
      | some r =>
        rw [hr] at h
        dsimp only at h
        cases hrest : hydLoop m tl with
        | error e => rw [hrest] at h; cases h
        | ok rest =>
          rw [hrest] at h
          dsimp only at h
          cases h
          cases i with
          | zero =>
            simp only [List.getElem?_cons_zero, Option.some.injEq] at hi
            subst hi
            exact ⟨c, r, hc, hr, rfl⟩
          | succ j =>
            simp only [List.getElem?_cons_succ] at hi
            obtain ⟨c', r', h1, h2, h3⟩ := hydLoop_entry m tl rest hrest j a hi
            exact ⟨c', r', h1, h2, by simpa using h3⟩

/-! ## the keyword arguments acting inside the hydrogen loop -/

/-- with the defaults of `smiles()` the option-aware branch is the plain one -/
theorem assignOpt_default (calcF : Ctx → Option Nat) (checkF : Ctx → Nat → Bool) (c : Ctx) (hyd : Option Nat) :
    assignOpt {} calcF checkF c hyd = assignWith calcF checkF c hyd := by
  unfold assignOpt assignOptCore assignWith
  cases hyd with
  | none => rfl
  | some h =>
    simp only [Bool.false_eq_true, if_false, Bool.false_and, Bool.not_true]
    cases calcF c with
    | none => dsimp only; repeat' split
              all_goals rfl
    | some k => dsimp only; repeat' split
                all_goals rfl

theorem assignHOpt_default (c : Ctx) (hyd : Option Nat) : assignHOpt {} c hyd = assignH c hyd := by
  unfold assignHOpt assignH
  congr 1
  funext t
  exact assignOpt_default _ _ c hyd

theorem hydLoopOpt_default (m : MolOut) : ∀ as, hydLoopOpt {} m as = hydLoop m as
  | [] => rfl
  | a :: tl => by
    unfold hydLoopOpt hydLoop
    rw [hydLoopOpt_default m tl]
    cases hCtx m a with
    | none => rfl
    | some c => simp only [assignHOpt_default]

/-- `keep_implicit=True`: a bracket atom keeps exactly the written count and its radical mark, whatever the valence
    model says -/
theorem assignOpt_keepImplicit (o : HOpts) (ho : o.keepImplicit = true) (calcF : Ctx → Option Nat)
    (checkF : Ctx → Nat → Bool) (c : Ctx) (h : Nat) : assignOpt o calcF checkF c (some h) = (some h, c.radical) := by
  unfold assignOpt assignOptCore
  simp [ho]

/-- `ignore_carbon_radicals=True`: a carbon that is not named in the CXSMILES block never ends as a radical — a guessed
    carbon radical is replaced by one more hydrogen -/
theorem assignOpt_ignoreCarbonRadicals (o : HOpts) (ho : o.ignoreCarbonRadicals = true) (calcF : Ctx → Option Nat)
    (checkF : Ctx → Nat → Bool) (c : Ctx) (hyd : Option Nat) (hz : c.z = 6) (hr : c.radical = false) :
    (assignOpt o calcF checkF c hyd).2 = false := by
  unfold assignOpt assignOptCore
  simp only [ho, hz, hr, Bool.true_and, beq_self_eq_true, Bool.and_true, Bool.not_false, if_true]
  cases hyd with
  | none => simp
  | some h =>
    dsimp only
    split
    · simp
    · cases calcF c with
      | none => dsimp only; repeat' split
                all_goals first | (simp; done) | simp_all
      | some k => dsimp only; repeat' split
                  all_goals first | (simp; done) | simp_all

end ChythonModel.Proofs.C03
