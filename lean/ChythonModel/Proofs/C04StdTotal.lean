import ChythonModel.Proofs.C04Standardize
/-!
# The loop body of `__standardize` raises nothing on a well-formed molecule (helper lemmas, core Lean only)

`Shape m ids keys`: the keys of `_atoms` are `ids`, the keys of `_bonds` are `keys`, every key of `ids` has a neighbour dict, every
neighbour mentioned anywhere is an atom, every element is known to the valence tables. The rewrite loops keep `Shape` (same `ids`,
same `keys`), so every look-up the loop body and the recount perform succeeds.
-/
namespace ChythonModel.Proofs.C04StdTotal
open ChythonModel.Model ChythonModel.Model.Valence ChythonModel.Model.C04Standardize ChythonModel.Proofs.C04
open ChythonModel.Proofs.C04Standardize

theorem lookup_isSome_of_mem {β : Type} (l : List (Nat × β)) (k : Nat) (h : k ∈ l.map (·.1)) : (l.lookup k).isSome = true := by
  induction l with
  | nil => simp at h
  | cons p tl ih =>
    obtain ⟨k0, b⟩ := p
    simp only [List.lookup]
    cases hb : (k == k0) with
    | true => rfl
    | false =>
      have hne : k ≠ k0 := by simpa using hb
      simp only [List.map_cons, List.mem_cons] at h
      cases h with
      | inl e => exact absurd e hne
      | inr e => exact ih e

theorem mem_of_lookup {β : Type} (l : List (Nat × β)) (k : Nat) (v : β) (h : l.lookup k = some v) : (k, v) ∈ l := by
  induction l with
  | nil => simp [List.lookup] at h
  | cons p tl ih =>
    obtain ⟨k0, b⟩ := p
    simp only [List.lookup] at h
    cases hb : (k == k0) with
    | true =>
      have : k = k0 := by simpa using hb
      simp only [hb, Option.some.injEq] at h
      subst this; subst h; simp
    | false =>
      simp only [hb] at h
      exact List.mem_cons_of_mem _ (ih h)

/-- well-formedness the Graph API maintains, as far as the loop body and `calc_implicit` need it -/
structure Shape (m : Mol) : Prop where
  rows : ∀ n ∈ m.ids, n ∈ m.adj.map (·.1)
  closed : ∀ r ∈ m.adj, ∀ kb ∈ r.2, kb.1 ∈ m.ids
  known : ∀ p ∈ m.atoms, (tableOf p.2.z).isSome = true

/-- `calc_implicit` raises nothing for an atom of a well-formed molecule -/
theorem calc_isSome {m : Mol} (s : Shape m) (n : Nat) (hn : n ∈ m.ids) : (calcImplicitMol m n).isSome = true := by
  have h1 := lookup_isSome_of_mem m.atoms n hn
  have h2 := lookup_isSome_of_mem m.adj n (s.rows n hn)
  cases ha : m.atoms.lookup n with
  | none => simp [ha] at h1
  | some a =>
    cases hr : m.adj.lookup n with
    | none => simp [hr] at h2
    | some row =>
      have hrow := mem_of_lookup m.adj n row hr
      have hmapM : ∃ bs, row.mapM (nbrEntry m.atoms) = some bs := by
        have hall : ∀ kb ∈ row, kb.1 ∈ m.ids := s.closed (n, row) hrow
        clear hr hrow
        induction row with
        | nil => exact ⟨[], rfl⟩
        | cons kb tl ih =>
          obtain ⟨bs, hbs⟩ := ih (fun x hx => hall x (List.mem_cons_of_mem _ hx))
          have hk := lookup_isSome_of_mem m.atoms kb.1 (hall kb (by simp))
          cases hl : m.atoms.lookup kb.1 with
          | none => simp [hl] at hk
          | some x => exact ⟨(kb.2.order, x.z) :: bs, by simp [List.mapM_cons, nbrEntry, hl, hbs]⟩
      obtain ⟨bs, hbs⟩ := hmapM
      have ht := s.known (n, a) (mem_of_lookup m.atoms n a ha)
      simp only [calcImplicitMol, ctxOf, ha, hr, hbs, Option.map_some, Option.bind_some, calcImplicit]
      cases htb : tableOf a.z with
      | none => simp [htb] at ht
      | some t => rfl

/-- the atom step keeps the shape -/
theorem shape_atomStep {m : Mol} (s : Shape m) (n : Nat) (ch : Int) (ir : Option Bool) :
    Shape { m with atoms := m.atoms.map (fixAtomEntry n ch ir) } ∧
    ({ m with atoms := m.atoms.map (fixAtomEntry n ch ir) } : Mol).ids = m.ids := by
  have hid : ({ m with atoms := m.atoms.map (fixAtomEntry n ch ir) } : Mol).ids = m.ids :=
    (atomStep_unch m n ch ir []).ids
  refine ⟨⟨fun k hk => s.rows k (hid ▸ hk), fun r hr kb hkb => hid ▸ s.closed r hr kb hkb, ?_⟩, hid⟩
  intro p hp
  simp only [List.mem_map] at hp
  obtain ⟨p0, hp0, e⟩ := hp
  have hz : p.2.z = p0.2.z := by rw [← e]; simp only [fixAtomEntry]; split <;> rfl
  rw [hz]; exact s.known p0 hp0

theorem keys_mapRows (n k : Nat) (fn fk : List (Nat × Bond) → List (Nat × Bond)) (adj : List (Nat × List (Nat × Bond))) :
    (mapRows n k fn fk adj).map (·.1) = adj.map (·.1) := by
  simp only [mapRows, List.map_map]
  apply List.map_congr_left
  intro p _
  simp only [Function.comp]
  split
  · rfl
  · split <;> rfl

/-- a bond step keeps the shape when both ends are atoms and the row functions only add keys that are atoms -/
theorem shape_bondStep {m : Mol} (s : Shape m) (n k : Nat) (fn fk : List (Nat × Bond) → List (Nat × Bond))
    (hfn : ∀ row, ∀ kb ∈ fn row, kb ∈ row.map (fun x => (x.1, kb.2)) ∨ kb.1 ∈ m.ids)
    (hfk : ∀ row, ∀ kb ∈ fk row, kb ∈ row.map (fun x => (x.1, kb.2)) ∨ kb.1 ∈ m.ids) :
    Shape { m with adj := mapRows n k fn fk m.adj } := by
  refine ⟨fun x hx => ?_, ?_, s.known⟩
  · show x ∈ (mapRows n k fn fk m.adj).map (·.1)
    rw [keys_mapRows]; exact s.rows x hx
  · intro r hr kb hkb
    show kb.1 ∈ m.ids
    simp only [mapRows, List.mem_map] at hr
    obtain ⟨r0, hr0, e⟩ := hr
    have old : ∀ x ∈ r0.2, x.1 ∈ m.ids := s.closed r0 hr0
    have via : ∀ (f : List (Nat × Bond) → List (Nat × Bond)),
        (∀ row, ∀ kb ∈ f row, kb ∈ row.map (fun x => (x.1, kb.2)) ∨ kb.1 ∈ m.ids) → kb ∈ f r0.2 → kb.1 ∈ m.ids := by
      intro f hf hin
      cases hf r0.2 kb hin with
      | inl h1 =>
        simp only [List.mem_map] at h1
        obtain ⟨x, hx, ex⟩ := h1
        have : kb.1 = x.1 := by rw [← ex]
        rw [this]; exact old x hx
      | inr h1 => exact h1
    by_cases h1 : (r0.1 == n) = true
    · simp only [h1, if_true] at e
      subst e
      exact via fn hfn hkb
    · simp only [h1] at e
      by_cases h2 : (r0.1 == k) = true
      · simp only [h2, if_true] at e
        subst e
        exact via fk hfk hkb
      · simp only [h2] at e
        subst e
        exact old kb hkb

theorem setOrderRow_keys (k bo : Nat) (row : List (Nat × Bond)) :
    ∀ kb ∈ setOrderRow k bo row, kb ∈ row.map (fun x => (x.1, kb.2)) := by
  intro kb hkb
  simp only [setOrderRow, List.mem_map] at hkb ⊢
  obtain ⟨x, hx, e⟩ := hkb
  refine ⟨x, hx, ?_⟩
  rw [← e]
  split <;> rfl

theorem append_keys (row : List (Nat × Bond)) (k : Nat) (b : Bond) (ids : List Nat) (hk : k ∈ ids) :
    ∀ kb ∈ row ++ [(k, b)], kb ∈ row.map (fun x => (x.1, kb.2)) ∨ kb.1 ∈ ids := by
  intro kb hkb
  cases List.mem_append.mp hkb with
  | inl h => left; exact List.mem_map.mpr ⟨kb, h, rfl⟩
  | inr h => right; simp only [List.mem_singleton] at h; rw [h]; exact hk

/-- every pattern atom the rule names is mapped to an atom of the molecule -/
structure MapsInto (fx : RuleFix) (mp : List (Nat × Nat)) (ids : List Nat) : Prop where
  atomFix : ∀ e ∈ fx.atomFix, ∃ n, mp.lookup e.1 = some n ∧ n ∈ ids
  bondsFix : ∀ e ∈ fx.bondsFix, ∃ n k, mp.lookup e.1 = some n ∧ mp.lookup e.2.1 = some k ∧ n ∈ ids ∧ k ∈ ids
  anyAtoms : ∀ a ∈ fx.anyAtoms, (mp.lookup a).isSome = true

theorem atomFixLoop_total (mp : List (Nat × Nat)) : ∀ (af : List (Nat × Int × Option Bool)) (m : Mol) (hs : List Nat),
    Shape m → (∀ e ∈ af, ∃ n, mp.lookup e.1 = some n ∧ n ∈ m.ids) →
    ∃ m1 hs1 fl, atomFixLoop mp af m hs = some (m1, hs1, fl) ∧ Shape m1 ∧ m1.ids = m.ids ∧
      ∀ x ∈ hs1, x ∈ hs ∨ x ∈ m.ids := by
  intro af
  induction af with
  | nil => intro m hs s _; exact ⟨m, hs, false, rfl, s, rfl, fun x hx => Or.inl hx⟩
  | cons e tl ih =>
    intro m hs s hmap
    obtain ⟨pn, ch, ir⟩ := e
    obtain ⟨n, hl, hn⟩ := hmap (pn, ch, ir) (by simp)
    have ha := lookup_isSome_of_mem m.atoms n hn
    cases hat : m.atoms.lookup n with
    | none => simp [hat] at ha
    | some a =>
      simp only [atomFixLoop, hl, hat]
      by_cases hc : a.charge + ch > 4
      · simp only [hc, if_true]
        refine ⟨m, n :: hs, true, rfl, s, rfl, fun x hx => ?_⟩
        cases List.mem_cons.mp hx with
        | inl e1 => right; rw [e1]; exact hn
        | inr e1 => left; exact e1
      · simp only [hc, if_false]
        obtain ⟨s1, hid⟩ := shape_atomStep s n ch ir
        obtain ⟨m1, hs1, fl, h1, s2, hid2, hsub⟩ := ih _ (n :: hs) s1
          (fun e he => by
            obtain ⟨k, hk1, hk2⟩ := hmap e (List.mem_cons_of_mem _ he)
            exact ⟨k, hk1, hid ▸ hk2⟩)
        refine ⟨m1, hs1, fl, h1, s2, hid2.trans hid, fun x hx => ?_⟩
        cases hsub x hx with
        | inl e1 =>
          cases List.mem_cons.mp e1 with
          | inl e2 => right; rw [e2]; exact hn
          | inr e2 => left; exact e2
        | inr e1 => right; exact hid ▸ e1

theorem bondsFixLoop_total (mp : List (Nat × Nat)) : ∀ (bf : List (Nat × Nat × Nat)) (m : Mol) (hs : List Nat),
    Shape m → (∀ e ∈ bf, ∃ n k, mp.lookup e.1 = some n ∧ mp.lookup e.2.1 = some k ∧ n ∈ m.ids ∧ k ∈ m.ids) →
    ∃ m1 hs1, bondsFixLoop mp bf m hs = some (m1, hs1) ∧ Shape m1 ∧ m1.ids = m.ids ∧
      ∀ x ∈ hs1, x ∈ hs ∨ x ∈ m.ids := by
  intro bf
  induction bf with
  | nil => intro m hs s _; exact ⟨m, hs, rfl, s, rfl, fun x hx => Or.inl hx⟩
  | cons e tl ih =>
    intro m hs s hmap
    obtain ⟨pn, pm, bo⟩ := e
    obtain ⟨n, k, hl1, hl2, hn, hk⟩ := hmap (pn, pm, bo) (by simp)
    have hr1 := lookup_isSome_of_mem m.adj n (s.rows n hn)
    have hr2 := lookup_isSome_of_mem m.adj k (s.rows k hk)
    have finish : ∀ (fn fk : List (Nat × Bond) → List (Nat × Bond)),
        (∀ row, ∀ kb ∈ fn row, kb ∈ row.map (fun x => (x.1, kb.2)) ∨ kb.1 ∈ m.ids) →
        (∀ row, ∀ kb ∈ fk row, kb ∈ row.map (fun x => (x.1, kb.2)) ∨ kb.1 ∈ m.ids) →
        ∃ m1 hs1, bondsFixLoop mp tl { m with adj := mapRows n k fn fk m.adj } (k :: n :: hs) = some (m1, hs1) ∧
          Shape m1 ∧ m1.ids = m.ids ∧ ∀ x ∈ hs1, x ∈ hs ∨ x ∈ m.ids := by
      intro fn fk hfn hfk
      have s1 := shape_bondStep s n k fn fk hfn hfk
      obtain ⟨m1, hs1, h1, s2, hid2, hsub⟩ := ih { m with adj := mapRows n k fn fk m.adj } (k :: n :: hs) s1
        (fun e he => hmap e (List.mem_cons_of_mem _ he))
      refine ⟨m1, hs1, h1, s2, hid2, fun x hx => ?_⟩
      cases hsub x hx with
      | inl e1 =>
        cases List.mem_cons.mp e1 with
        | inl e2 => right; rw [e2]; exact hk
        | inr e2 =>
          cases List.mem_cons.mp e2 with
          | inl e3 => right; rw [e3]; exact hn
          | inr e3 => left; exact e3
      | inr e1 => right; exact e1
    cases hrow : m.adj.lookup n with
    | none => simp [hrow] at hr1
    | some row =>
      cases hrow2 : m.adj.lookup k with
      | none => simp [hrow2] at hr2
      | some row2 =>
        simp only [bondsFixLoop, hl1, hl2, hrow, hrow2]
        by_cases hany : row.any (·.1 == k) = true
        · simp only [hany, if_true]
          exact finish _ _ (fun r kb h => Or.inl (setOrderRow_keys k bo r kb h)) (fun r kb h => Or.inl (setOrderRow_keys n bo r kb h))
        · simp only [hany]
          exact finish _ _ (fun r => append_keys r k ⟨bo, none⟩ m.ids hk) (fun r => append_keys r n ⟨bo, none⟩ m.ids hn)

theorem processMapping_total (fx : RuleFix) (st : St) (mp : List (Nat × Nat)) (s : Shape st.mol)
    (hm : MapsInto fx mp st.mol.ids) :
    ∃ st', processMapping fx st mp = some st' ∧ Shape st'.mol ∧ st'.mol.ids = st.mol.ids ∧
      ∀ x ∈ st'.hs, x ∈ st.hs ∨ x ∈ st.mol.ids := by
  simp only [processMapping]
  by_cases hseen : (mp.map (·.2)).any (st.seen.contains ·) = true
  · simp only [hseen, if_true]
    exact ⟨st, rfl, s, rfl, fun x hx => Or.inl hx⟩
  · simp only [hseen, Bool.false_eq_true, if_false]
    have hany : ∃ ids, fx.anyAtoms.mapM (mp.lookup ·) = some ids := by
      have h := hm.anyAtoms
      generalize fx.anyAtoms = l at h
      induction l with
      | nil => exact ⟨[], rfl⟩
      | cons a tl ih =>
        obtain ⟨ids, hids⟩ := ih (fun x hx => h x (List.mem_cons_of_mem _ hx))
        have ha := h a (by simp)
        cases hl : mp.lookup a with
        | none => simp [hl] at ha
        | some v => exact ⟨v :: ids, by simp [List.mapM_cons, hl, hids]⟩
    obtain ⟨anyIds, hanyIds⟩ := hany
    simp only [hanyIds]
    obtain ⟨m1, hs1, fl, h1, s1, hid1, hsub1⟩ := atomFixLoop_total mp fx.atomFix st.mol st.hs s hm.atomFix
    simp only [h1]
    cases fl with
    | true => exact ⟨_, rfl, s1, hid1, hsub1⟩
    | false =>
      obtain ⟨m2, hs2, h2, s2, hid2, hsub2⟩ := bondsFixLoop_total mp fx.bondsFix m1 hs1 s1
        (fun e he => by
          obtain ⟨n, k, a, b, c, d⟩ := hm.bondsFix e he
          exact ⟨n, k, a, b, hid1 ▸ c, hid1 ▸ d⟩)
      simp only [h2]
      refine ⟨_, rfl, s2, hid2.trans hid1, fun x hx => ?_⟩
      cases hsub2 x hx with
      | inl e1 => exact hsub1 x e1
      | inr e1 => right; exact hid1 ▸ e1

theorem applyMappings_total (fx : RuleFix) : ∀ (maps : List (List (Nat × Nat))) (st : St), Shape st.mol →
    (∀ mp ∈ maps, MapsInto fx mp st.mol.ids) →
    ∃ st', applyMappings fx maps st = some st' ∧ Shape st'.mol ∧ st'.mol.ids = st.mol.ids ∧
      ∀ x ∈ st'.hs, x ∈ st.hs ∨ x ∈ st.mol.ids := by
  intro maps
  induction maps with
  | nil => intro st s _; exact ⟨st, rfl, s, rfl, fun x hx => Or.inl hx⟩
  | cons mp tl ih =>
    intro st s hm
    obtain ⟨st1, h1, s1, hid1, hsub1⟩ := processMapping_total fx st mp s (hm mp (by simp))
    obtain ⟨st2, h2, s2, hid2, hsub2⟩ := ih st1 s1 (fun x hx => hid1 ▸ hm x (List.mem_cons_of_mem _ hx))
    simp only [applyMappings, h1]
    refine ⟨st2, h2, s2, hid2.trans hid1, fun x hx => ?_⟩
    cases hsub2 x hx with
    | inl e1 => exact hsub1 x e1
    | inr e1 => right; exact hid1 ▸ e1

end ChythonModel.Proofs.C04StdTotal
