import ChythonModel.Proofs.C02Closures
import Mathlib.Data.List.Perm.Subperm
import Mathlib.Data.List.Nodup
/-!
# C02 — the writer's DFS covers every bond once: basic lemmas

Association-list lemmas (`alAppend`, `alHas`), what `Mol.WF` says about neighbour lists, and the facts that the
children of every DFS frame are a permutation of the neighbours minus the parent (`frontOf`, `keysFor`, `sortKeyed`).
-/
namespace ChythonModel.Proofs.C02
open ChythonModel.Model ChythonModel.Model.SmilesWriter

/-- neighbour keys of an atom -/
def nk (m : Mol) (a : Nat) : List Nat := (m.nbrs a).map (·.1)

/-- visited atoms in discovery order -/
def vis (s : Dfs) : List Nat := s.visited.map (·.1)

/-- the tree bonds `(parent, child)` stored in `edges` -/
def treeP (edges : List (Nat × List Nat)) : List (Nat × Nat) := edges.flatMap fun e => e.2.map fun c => (e.1, c)

/-- the closure records `(atom, partner, cycle id)` stored in `tokens` -/
def cycT (tokens : List (Nat × List (Nat × Nat))) : List (Nat × Nat × Nat) :=
  tokens.flatMap fun e => e.2.map fun t => (e.1, t.1, t.2)

/-! ## association lists -/

theorem alAppend_flatMap_perm {α β} (g : Nat → α → β) : ∀ (d : List (Nat × List α)) (k : Nat) (v : α),
    ((alAppend d k v).flatMap fun e => e.2.map (g e.1)).Perm ((d.flatMap fun e => e.2.map (g e.1)) ++ [g k v]) := by
  intro d
  induction d with
  | nil => intro k v; simp [alAppend]
  | cons hd tl ih =>
    intro k v
    obtain ⟨a, l⟩ := hd
    simp only [alAppend]
    split
    · rename_i h
      have : a = k := by simpa using h
      subst this
      simp only [List.flatMap_cons, List.map_append, List.map_cons, List.map_nil, List.append_assoc]
      exact List.Perm.append_left _ List.perm_append_comm
    · simp only [List.flatMap_cons, List.append_assoc]
      exact List.Perm.append_left _ (ih k v)

theorem treeP_alAppend (edges : List (Nat × List Nat)) (p c : Nat) :
    (treeP (alAppend edges p c)).Perm (treeP edges ++ [(p, c)]) :=
  alAppend_flatMap_perm (fun a c => (a, c)) edges p c

theorem cycT_alAppend (tokens : List (Nat × List (Nat × Nat))) (a : Nat) (t : Nat × Nat) :
    (cycT (alAppend tokens a t)).Perm (cycT tokens ++ [(a, t.1, t.2)]) :=
  alAppend_flatMap_perm (fun a (t : Nat × Nat) => (a, t.1, t.2)) tokens a t

theorem alAppend_keys {α} : ∀ (d : List (Nat × List α)) (k : Nat) (v : α),
    (alAppend d k v).map (·.1) = if k ∈ d.map (·.1) then d.map (·.1) else d.map (·.1) ++ [k] := by
  intro d
  induction d with
  | nil => intro k v; simp [alAppend]
  | cons hd tl ih =>
    intro k v
    obtain ⟨a, l⟩ := hd
    simp only [alAppend]
    split
    · rename_i h
      have : a = k := by simpa using h
      subst this
      simp
    · rename_i h
      have hne : ¬ a = k := by simpa using h
      simp only [List.map_cons, ih k v, List.mem_cons]
      by_cases hk : k ∈ tl.map (·.1)
      · simp [hk]
      · have hka : ¬ k = a := fun e => hne e.symm
        simp [hk, hka]

theorem alAppend_keys_nodup {α} (d : List (Nat × List α)) (k : Nat) (v : α) (h : (d.map (·.1)).Nodup) :
    ((alAppend d k v).map (·.1)).Nodup := by
  rw [alAppend_keys]
  split
  · exact h
  · rename_i hk
    exact List.Nodup.append h (by simp) (by simpa using hk)

theorem alGet_alAppend_ne {α} : ∀ (d : List (Nat × List α)) (k x : Nat) (v : α), x ≠ k →
    alGet (alAppend d k v) x = alGet d x := by
  intro d
  induction d with
  | nil =>
    intro k x v h
    have : (x == k) = false := by simpa using h
    simp [alAppend, alGet, List.lookup, this]
  | cons hd tl ih =>
    intro k x v h
    obtain ⟨a, l⟩ := hd
    simp only [alAppend]
    split
    · rename_i hak
      have : a = k := by simpa using hak
      subst this
      have : (x == a) = false := by simpa using h
      simp [alGet, List.lookup, this]
    · have := ih k x v h
      simp only [alGet, List.lookup] at this ⊢
      split
      · rfl
      · exact this

theorem alGet_alAppend_eq {α} : ∀ (d : List (Nat × List α)) (k : Nat) (v : α),
    alGet (alAppend d k v) k = alGet d k ++ [v] := by
  intro d
  induction d with
  | nil => intro k v; simp [alAppend, alGet, List.lookup]
  | cons hd tl ih =>
    intro k v
    obtain ⟨a, l⟩ := hd
    simp only [alAppend]
    split
    · rename_i hak
      have : a = k := by simpa using hak
      subst this
      simp [alGet, List.lookup]
    · rename_i hak
      have hne : (k == a) = false := by
        have : ¬ a = k := by simpa using hak
        simpa using fun h => this h.symm
      have := ih k v
      simp only [alGet, List.lookup, hne] at this ⊢
      exact this

theorem alHas_iff {α} (d : List (Nat × α)) (k : Nat) : alHas d k = true ↔ k ∈ d.map (·.1) := by
  simp only [alHas, List.any_eq_true, List.mem_map]
  constructor
  · rintro ⟨x, hx, h⟩; exact ⟨x, hx, by simpa using h⟩
  · rintro ⟨x, hx, h⟩; exact ⟨x, hx, by simpa using h⟩

theorem alHas_false_iff {α} (d : List (Nat × α)) (k : Nat) : alHas d k = false ↔ k ∉ d.map (·.1) := by
  rw [← alHas_iff]; simp

theorem mem_alGet_treeP (edges : List (Nat × List Nat)) (p c : Nat) (h : c ∈ alGet edges p) : (p, c) ∈ treeP edges := by
  simp only [alGet] at h
  cases hl : edges.lookup p with
  | none => simp [hl] at h
  | some l =>
    simp only [hl, Option.getD_some] at h
    have := lookup_mem_pair' edges p l hl
    simp only [treeP, List.mem_flatMap, List.mem_map]
    exact ⟨(p, l), this, c, h, rfl⟩
where
  lookup_mem_pair' : ∀ (d : List (Nat × List Nat)) (k : Nat) (l : List Nat), d.lookup k = some l → (k, l) ∈ d := by
    intro d
    induction d with
    | nil => intro k l h; simp at h
    | cons hd tl ih =>
      intro k l h
      obtain ⟨a, x⟩ := hd
      simp only [List.lookup] at h
      split at h
      · rename_i hka
        have : k = a := by simpa using hka
        subst this
        cases h; simp
      · exact List.mem_cons_of_mem _ (ih k l h)

theorem lookup_of_mem_nodup {α} : ∀ (d : List (Nat × α)) (k : Nat) (v : α), (d.map (·.1)).Nodup → (k, v) ∈ d →
    d.lookup k = some v := by
  intro d
  induction d with
  | nil => intro k v _ h; simp at h
  | cons hd tl ih =>
    intro k v hn h
    obtain ⟨a, x⟩ := hd
    simp only [List.map_cons, List.nodup_cons] at hn
    simp only [List.mem_cons, Prod.mk.injEq] at h
    simp only [List.lookup]
    rcases h with ⟨rfl, rfl⟩ | h
    · simp
    · have : ¬ k = a := by
        intro e; subst e
        exact hn.1 (List.mem_map.2 ⟨(k, v), h, rfl⟩)
      have : (k == a) = false := by simpa using this
      simp only [this]
      exact ih k v hn.2 h

theorem mem_treeP_alGet (edges : List (Nat × List Nat)) (hk : (edges.map (·.1)).Nodup) (p c : Nat)
    (h : (p, c) ∈ treeP edges) : c ∈ alGet edges p := by
  simp only [treeP, List.mem_flatMap, List.mem_map] at h
  obtain ⟨⟨a, l⟩, he, c', hc', heq⟩ := h
  simp only [Prod.mk.injEq] at heq
  obtain ⟨rfl, rfl⟩ := heq
  simp [alGet, lookup_of_mem_nodup edges a l hk he, hc']

/-! ## pigeonhole -/

theorem perm_of_length_subset {l w : List Nat} (hw : w.Nodup) (hlen : l.length = w.length) (hsub : ∀ x ∈ w, x ∈ l) :
    w.Perm l :=
  (List.subperm_of_subset hw hsub).perm_of_length_le (by omega)

theorem nodup_subset_length_le {l S : List Nat} (hl : l.Nodup) (hsub : ∀ x ∈ l, x ∈ S) : l.length ≤ S.length :=
  (List.subperm_of_subset hl hsub).length_le

/-! ## well-formed molecules -/

theorem lookup_mem' {α} : ∀ (d : List (Nat × α)) (k : Nat) (v : α), d.lookup k = some v → (k, v) ∈ d := by
  intro d
  induction d with
  | nil => intro k v h; simp at h
  | cons hd tl ih =>
    intro k v h
    obtain ⟨a, x⟩ := hd
    simp only [List.lookup] at h
    split at h
    · rename_i hka
      have : k = a := by simpa using hka
      subst this
      cases h; simp
    · exact List.mem_cons_of_mem _ (ih k v h)

theorem wf_nbrs {m : Mol} (h : m.WF = true) (a : Nat) :
    (nk m a).Nodup ∧ ∀ k ∈ nk m a, k ≠ a ∧ k ∈ m.ids ∧ a ∈ nk m k := by
  simp only [nk, Mol.nbrs]
  cases hl : m.adj.lookup a with
  | none => simp
  | some ms =>
    have hmem := lookup_mem' m.adj a ms hl
    simp only [Mol.WF, Bool.and_eq_true, List.all_eq_true, decide_eq_true_eq] at h
    have h2 := h.2 (a, ms) hmem
    simp only [Bool.and_eq_true, decide_eq_true_eq, List.all_eq_true] at h2
    refine ⟨by simpa using h2.1, ?_⟩
    intro k hk
    simp only [Option.getD_some, List.mem_map] at hk
    obtain ⟨⟨k', b⟩, hkb, rfl⟩ := hk
    have h3 := h2.2 (k', b) hkb
    simp only [Bool.and_eq_true, bne_iff_ne, ne_eq, beq_iff_eq] at h3
    refine ⟨h3.1.1, ?_, ?_⟩
    · have := h3.1.2
      simp only [Mol.hasAtom, List.any_eq_true, beq_iff_eq] at this
      obtain ⟨x, hx, rfl⟩ := this
      exact List.mem_map.2 ⟨x, hx, rfl⟩
    · have := h3.2
      simp only [Mol.bond?, Mol.nbrs] at this
      have := lookup_mem' _ _ _ this
      exact List.mem_map.2 ⟨(a, b), this, rfl⟩

theorem wf_ids_nodup {m : Mol} (h : m.WF = true) : m.ids.Nodup := by
  simp only [Mol.WF, Bool.and_eq_true, decide_eq_true_eq] at h
  exact h.1.1

/-! ## children of a frame -/

/-- the candidates `bonds[child].keys() - {parent}` -/
def wantOf (m : Mol) (child parent : Nat) : List Nat := (nk m child).filter (· != parent)

theorem wantOf_eq (m : Mol) (child parent : Nat) :
    ((m.nbrs child).filterMap fun (k, _) => if k == parent then none else some k) = wantOf m child parent := by
  simp only [wantOf, nk]
  induction m.nbrs child with
  | nil => rfl
  | cons hd tl ih =>
    obtain ⟨k, b⟩ := hd
    simp only [List.filterMap_cons, List.map_cons, List.filter_cons]
    by_cases hk : k = parent
    · subst hk; simpa using ih
    · simpa [hk] using ih

theorem frontOf_perm {m : Mol} {env : Env} {opts : Opts} {child parent : Nat} {l : List Nat}
    (hw : (wantOf m child parent).Nodup) (h : frontOf m env opts child parent = .ok l) :
    (wantOf m child parent).Perm l := by
  unfold frontOf at h
  simp only [wantOf_eq] at h
  split at h
  · cases h; exact List.Perm.refl _
  · split at h
    · split at h
      · rename_i hc
        cases h
        simp only [Bool.and_eq_true, beq_iff_eq, List.all_eq_true, List.contains_iff_mem] at hc
        exact perm_of_length_subset hw hc.1 (fun x hx => by simpa using hc.2 x hx)
      · cases h
    · split at h
      · cases h; exact List.Perm.refl _
      · cases h

theorem mapM_keys_fst {ε} (F : Nat → Except ε (Nat × Key)) (hF : ∀ n r, F n = .ok r → r.1 = n) :
    ∀ (cands : List Nat) (ks : List (Nat × Key)), cands.mapM F = .ok ks → ks.map (·.1) = cands := by
  intro cands
  induction cands with
  | nil => intro ks h; simp [pure, Except.pure] at h; subst h; rfl
  | cons c tl ih =>
    intro ks h
    simp only [List.mapM_cons, bind, Except.bind, pure, Except.pure] at h
    split at h
    · cases h
    · rename_i v hv
      split at h
      · cases h
      · rename_i ks' hks'
        cases h
        simp [ih ks' hks', hF c v hv]

theorem keysFor_perm {env : Env} {opts : Opts} {groups seen useSeen draws} {cands : List Nat} {ks draws'}
    (hc : cands.Nodup) (h : keysFor env opts groups seen useSeen draws cands = .ok (ks, draws')) :
    cands.Perm (ks.map (·.1)) := by
  unfold keysFor at h
  split at h
  · unfold takeDraws at h
    simp only at h
    split at h
    · rename_i hcond
      cases h
      simp only [Bool.and_eq_true, beq_iff_eq, List.all_eq_true, List.contains_iff_mem, List.any_eq_true] at hcond
      simp only [List.map_map]
      have : (List.map ((fun x : Nat × Key => x.1) ∘ fun p : Nat × Nat => (p.1, ((0 : Int), (p.2 : Int), (0 : Int)))) (List.take cands.length draws))
          = (List.take cands.length draws).map (·.1) := by
        apply List.map_congr_left; intro a _; rfl
      rw [this]
      apply perm_of_length_subset hc
      · simpa using hcond.1.1
      · intro x hx
        obtain ⟨p, hp, hpe⟩ := hcond.2 x hx
        have : p.1 = x := by simpa using hpe
        exact List.mem_map.2 ⟨p, hp, this⟩
    · cases h
  · simp only [bind, Except.bind, pure, Except.pure] at h
    split at h
    · cases h
    · rename_i ks0 hks
      cases h
      rw [mapM_keys_fst _ ?_ cands ks hks]
      intro n r hr
      split at hr
      · cases hr
      · split at hr
        · split at hr
          · cases hr
          · cases hr; rfl
        · cases hr; rfl

theorem sortKeyed_fst_perm (ks : List (Nat × Key)) : ((sortKeyed ks).map (·.1)).Perm (ks.map (·.1)) :=
  (sortBy_perm _ ks).map _

end ChythonModel.Proofs.C02
