import ChythonModel.Model.StereoFix
/-!
# C12 — lemmas about the `fix_stereo` model (`Model/StereoFix.lean`): the restore loop `fixLoop` for an arbitrary oracle,
arbitrary starting labels and queue; the collection rule for bonds and atoms.  The property-level statements built from
them are in `Props/C12.lean` (section 9).
-/
namespace ChythonModel.Proofs.C12Fix
open ChythonModel.Model.StereoFix

theorem filter_rest_full {α} (c : α → Bool) (p : List α)
    (h : (p.filter fun l => !c l).length = p.length) : p.filter c = [] := by
  rw [List.filter_eq_nil_iff]
  intro a ha
  have := (List.length_filter_eq_length_iff).1 h a ha
  simpa using this

theorem filter_rest_lt {α} (c : α → Bool) (p : List α)
    (h : ¬ (p.filter fun l => !c l).length = p.length) : (p.filter fun l => !c l).length < p.length := by
  have := List.length_filter_le (fun l => !c l) p
  omega

/-- labels present at the start of a round stay -/
theorem fixLoop_mono (ch : List Label → SUnit → Bool) (fuel : Nat) :
    ∀ (r p : List Label) (a : List (List Label)), ∀ x ∈ r, x ∈ (fixLoop ch fuel r p a).labels := by
  induction fuel with
  | zero => intro r p a x hx; simpa [fixLoop] using hx
  | succ n ih =>
    intro r p a x hx
    unfold fixLoop
    split
    · simpa using hx
    · simp only []
      split
      · simp [hx]
      · apply ih; simp [hx]

/-- the round bound: any fuel above the queue length gives the same result (Python's `while` needs no bound) -/
theorem fixLoop_fuel (ch : List Label → SUnit → Bool) (f1 : Nat) :
    ∀ (f2 : Nat) (r p : List Label) (a : List (List Label)), p.length < f1 → p.length < f2 →
      fixLoop ch f1 r p a = fixLoop ch f2 r p a := by
  induction f1 with
  | zero => intro f2 r p a h; omega
  | succ n ih =>
    intro f2 r p a h1 h2
    cases f2 with
    | zero => omega
    | succ m =>
      unfold fixLoop
      split
      · rfl
      · simp only []
        split
        · rfl
        · rename_i hne
          have := filter_rest_lt (fun l : Label => ch r l.1) p hne
          apply ih <;> omega

/-- completeness (fixpoint): a queued label whose unit is chiral with respect to the final labels has been restored -/
theorem fixLoop_fixpoint (ch : List Label → SUnit → Bool) (fuel : Nat) :
    ∀ (r p : List Label) (a : List (List Label)), p.length < fuel →
      ∀ l ∈ p, ch (fixLoop ch fuel r p a).labels l.1 = true → l ∈ (fixLoop ch fuel r p a).labels := by
  induction fuel with
  | zero => intro r p a h; omega
  | succ n ih =>
    intro r p a hlen l hl
    unfold fixLoop
    split
    · rename_i hp; subst hp; simp at hl
    · simp only []
      split
      · rename_i hfull
        have hnil := filter_rest_full (fun l : Label => ch r l.1) p hfull
        have hall := (List.length_filter_eq_length_iff).1 hfull l hl
        simp only [hnil, List.append_nil]
        intro hc
        simp [hc] at hall
      · rename_i hne
        have hlt := filter_rest_lt (fun l : Label => ch r l.1) p hne
        intro hc
        by_cases hcl : ch r l.1 = true
        · apply fixLoop_mono
          simp [List.mem_filter, hl, hcl]
        · apply ih _ _ _ (by omega) l _ hc
          simp [List.mem_filter, hl, hcl]

/-- the cached `chiral_*` sets left behind are the ones of the final labels (or there is no cache) -/
theorem fixLoop_cache_fresh (ch : List Label → SUnit → Bool) (fuel : Nat) :
    ∀ (r p : List Label) (a : List (List Label)),
      (fixLoop ch fuel r p a).cache = none ∨ (fixLoop ch fuel r p a).cache = some (fixLoop ch fuel r p a).labels := by
  induction fuel with
  | zero => intro r p a; simp [fixLoop]
  | succ n ih =>
    intro r p a
    unfold fixLoop
    split
    · simp
    · simp only []
      split
      · rename_i hfull
        have hnil := filter_rest_full (fun l : Label => ch r l.1) p hfull
        simp [hnil]
      · apply ih

/-- labels present at the start of a round stay, in place: the result extends them -/
theorem fixLoop_prefix (ch : List Label → SUnit → Bool) (fuel : Nat) :
    ∀ (r p : List Label) (a : List (List Label)), r <+: (fixLoop ch fuel r p a).labels := by
  induction fuel with
  | zero => intro r p a; simp [fixLoop]
  | succ n ih =>
    intro r p a
    unfold fixLoop
    split
    · simp
    · simp only []
      split
      · simp
      · exact List.IsPrefix.trans (List.prefix_append _ _) (ih _ _ _)

/-- soundness: every label on the molecule afterwards was there before the rounds, or was queued and its unit was chiral
with respect to the labels restored in earlier rounds (an initial segment `q` of the final labels) -/
theorem fixLoop_sound (ch : List Label → SUnit → Bool) (fuel : Nat) :
    ∀ (r p : List Label) (a : List (List Label)),
      ∀ l ∈ (fixLoop ch fuel r p a).labels,
        l ∈ r ∨ (l ∈ p ∧ ∃ q, r <+: q ∧ q <+: (fixLoop ch fuel r p a).labels ∧ ch q l.1 = true) := by
  induction fuel with
  | zero => intro r p a l hl; left; simpa [fixLoop] using hl
  | succ n ih =>
    intro r p a l
    unfold fixLoop
    split
    · intro hl; left; simpa using hl
    · simp only []
      split
      · intro hl
        rcases List.mem_append.1 hl with h | h
        · left; exact h
        · right
          rw [List.mem_filter] at h
          exact ⟨h.1, r, List.prefix_refl _, List.prefix_append _ _, by simpa using h.2⟩
      · intro hl
        rcases ih _ _ _ l hl with h | ⟨hm, q, hq1, hq2, hq3⟩
        · rcases List.mem_append.1 h with h | h
          · left; exact h
          · right
            rw [List.mem_filter] at h
            exact ⟨h.1, r, List.prefix_refl _, List.IsPrefix.trans (List.prefix_append _ _) (fixLoop_prefix ch n _ _ _),
              by simpa using h.2⟩
        · right
          exact ⟨(List.mem_filter.1 hm).1, q, List.IsPrefix.trans (List.prefix_append _ _) hq1, hq2, hq3⟩

/-- every label set the loop asks the oracle about is an initial segment of the final labels -/
theorem fixLoop_asked (ch : List Label → SUnit → Bool) (fuel : Nat) :
    ∀ (r p : List Label) (a : List (List Label)),
      ∀ q ∈ (fixLoop ch fuel r p a).asked, q ∈ a ∨ q <+: (fixLoop ch fuel r p a).labels := by
  induction fuel with
  | zero => intro r p a q hq; left; simpa [fixLoop] using hq
  | succ n ih =>
    intro r p a q
    unfold fixLoop
    split
    · intro hq; left; simpa using hq
    · simp only []
      split
      · intro hq
        rcases List.mem_append.1 hq with h | h
        · left; exact h
        · right; simp at h; subst h; exact List.prefix_append _ _
      · intro hq
        rcases ih _ _ _ q hq with h | h
        · rcases List.mem_append.1 h with h | h
          · left; exact h
          · right; simp at h; subst h
            exact List.IsPrefix.trans (List.prefix_append _ _) (fixLoop_prefix ch n _ _ _)
        · right; exact h

/-- the ordinary case: every queued unit is chiral on constitution alone - one round restores everything -/
theorem fixLoop_all (ch : List Label → SUnit → Bool) (fuel : Nat) (r p : List Label) (a : List (List Label))
    (h : ∀ l ∈ p, ch r l.1 = true) : (fixLoop ch (fuel + 2) r p a).labels = r ++ p := by
  unfold fixLoop
  split
  · rename_i hp; simp [hp]
  · rename_i hp
    simp only []
    have hok : p.filter (fun l => ch r l.1) = p := by
      rw [List.filter_eq_self]; exact h
    have hrest : p.filter (fun l => !ch r l.1) = [] := by
      rw [List.filter_eq_nil_iff]; intro x hx; simp [h x hx]
    rw [hok, hrest]
    have : ¬ ([] : List Label).length = p.length := by
      cases p with
      | nil => exact absurd rfl hp
      | cons x xs => simp
    simp only [this, if_false]
    unfold fixLoop
    simp

/-- nothing queued is chiral any more (the structural change destroyed every unit): no label comes back -/
theorem fixLoop_none (ch : List Label → SUnit → Bool) (fuel : Nat) (r p : List Label) (a : List (List Label))
    (h : ∀ l ∈ p, ch r l.1 = false) : (fixLoop ch (fuel + 1) r p a).labels = r := by
  unfold fixLoop
  split
  · rfl
  · simp only []
    have hok : p.filter (fun l => ch r l.1) = [] := by
      rw [List.filter_eq_nil_iff]; intro x hx; simp [h x hx]
    have hrest : p.filter (fun l => !ch r l.1) = p := by
      rw [List.filter_eq_self]; intro x hx; simp [h x hx]
    rw [hok, hrest]
    simp

/-- the result does not depend on the order in which atoms and bonds are walked, as long as the `chiral_*` sets do not -/
theorem fixLoop_perm (ch : List Label → SUnit → Bool) (hch : ∀ r r' : List Label, r.Perm r' → ch r = ch r') (fuel : Nat) :
    ∀ (r r' p p' : List Label) (a a' : List (List Label)), r.Perm r' → p.Perm p' →
      (fixLoop ch fuel r p a).labels.Perm (fixLoop ch fuel r' p' a').labels := by
  induction fuel with
  | zero => intro r r' p p' a a' hr hp; simpa [fixLoop] using hr
  | succ n ih =>
    intro r r' p p' a a' hr hp
    have hc := hch r r' hr
    have hok : (p.filter fun l => ch r l.1).Perm (p'.filter fun l => ch r' l.1) := by
      rw [hc]; exact hp.filter _
    have hrest : (p.filter fun l => !ch r l.1).Perm (p'.filter fun l => !ch r' l.1) := by
      rw [hc]; exact hp.filter _
    have hnil : p = [] ↔ p' = [] := by
      constructor
      · intro h; subst h; exact hp.symm.eq_nil
      · intro h; subst h; exact hp.eq_nil
    unfold fixLoop
    by_cases h0 : p = []
    · have h0' := hnil.1 h0
      simp [h0, h0', hr]
    · have h0' : ¬ p' = [] := fun h => h0 (hnil.2 h)
      simp only [h0, h0', if_false]
      have hl : (p.filter fun l => !ch r l.1).length = p.length ↔ (p'.filter fun l => !ch r' l.1).length = p'.length := by
        rw [hrest.length_eq, hp.length_eq]
      by_cases h1 : (p.filter fun l => !ch r l.1).length = p.length
      · have h1' := hl.1 h1
        simp only [h1, h1', if_true]
        exact hr.append hok
      · have h1' : ¬ _ := fun h => h1 (hl.2 h)
        simp only [h1, h1', if_false]
        exact ih _ _ _ _ _ _ (hr.append hok) hrest

theorem collectBonds_rule (bonds : List BondIn) (u : SUnit) (s : Bool) :
    (u, s) ∈ collectBonds bonds ↔
      ∃ b ∈ bonds, b.stereo = some s ∧ b.order = 2 ∧ ∃ ta, b.tn = some ta ∧ b.tm = some ta ∧ u = ⟨.cisTrans, ta.1, ta.2⟩ := by
  induction bonds with
  | nil => simp [collectBonds]
  | cons x xs ih =>
    unfold collectBonds
    rcases hs : x.stereo with _ | s'
    · simp [ih, hs]
    · rcases ht : x.tn with _ | ta
      · simp [ih, hs, ht]
      · by_cases hc : x.order = 2 ∧ x.tm = some ta
        · simp only [hc, and_self, if_true]
          rw [List.mem_cons, ih]
          constructor
          · rintro (h | ⟨b, hb, h⟩)
            · injection h with h1 h2
              exact ⟨x, by simp, by simp [hs, h2], hc.1, ta, ht, hc.2, h1⟩
            · exact ⟨b, by simp [hb], h⟩
          · rintro ⟨b, hb, h1, h2, ta', h3, h4, h5⟩
            rcases List.mem_cons.1 hb with rfl | hb
            · left
              rw [hs] at h1; rw [ht] at h3
              injection h1 with h1; injection h3 with h3
              subst h1; subst h3; rw [h5]
            · right; exact ⟨b, hb, h1, h2, ta', h3, h4, h5⟩
        · simp only [hc, if_false, ih]
          constructor
          · rintro ⟨b, hb, h⟩; exact ⟨b, by simp [hb], h⟩
          · rintro ⟨b, hb, h1, h2, ta', h3, h4, h5⟩
            rcases List.mem_cons.1 hb with rfl | hb
            · exfalso; apply hc
              rw [ht] at h3; injection h3 with h3; subst h3
              exact ⟨h2, h4⟩
            · exact ⟨b, hb, h1, h2, ta', h3, h4, h5⟩

theorem collectAtoms_rule (atoms : List AtomIn) (u : SUnit) (s : Bool) :
    ((u, s) ∈ (collectAtoms atoms).1 ↔ ∃ x ∈ atoms, x.stereo = some s ∧ x.tetra = true ∧ u = ⟨.tetra, x.n, 0⟩) ∧
    ((u, s) ∈ (collectAtoms atoms).2 ↔
      ∃ x ∈ atoms, x.stereo = some s ∧ x.tetra = false ∧ x.allene = true ∧ u = ⟨.allene, x.n, 0⟩) := by
  induction atoms with
  | nil => simp [collectAtoms]
  | cons x xs ih =>
    unfold collectAtoms
    rcases hs : x.stereo with _ | s'
    · simp [ih, hs]
    · rcases ht : x.tetra with _ | _
      · rcases ha : x.allene with _ | _
        · simp [ih, hs, ht, ha]
        · simp only [Bool.false_eq_true, if_false, if_true, List.mem_cons, ih, Prod.mk.injEq, exists_eq_or_imp, hs, ht, ha,
            Option.some.injEq, true_and, false_and]
          constructor
          · simp
          · constructor
            · rintro (⟨h1, h2⟩ | h)
              · left; exact ⟨h2.symm, h1⟩
              · right; exact h
            · rintro (⟨h1, h2⟩ | h)
              · left; exact ⟨h2, h1.symm⟩
              · right; exact h
      · simp only [if_true, List.mem_cons, ih, Prod.mk.injEq, exists_eq_or_imp, hs, ht,
          Option.some.injEq, true_and, Bool.true_eq_false, false_and]
        constructor
        · constructor
          · rintro (⟨h1, h2⟩ | h)
            · left; exact ⟨h2.symm, h1⟩
            · right; exact h
          · rintro (⟨h1, h2⟩ | h)
            · left; exact ⟨h2, h1.symm⟩
            · right; exact h
        · simp

end ChythonModel.Proofs.C12Fix
