import ChythonModel.Proofs.C02RoundsDfs
import ChythonModel.Proofs.C02Fuel
/-!
# C02 — the round loop never hits its own fuel bound (every round writes at least its start atom)
-/
namespace ChythonModel.Proofs.C02
open ChythonModel.Model ChythonModel.Model.SmilesWriter ChythonModel.Model.C02RT

theorem filter_visited_length_lt {S V : List Nat} {x : Nat} (hx : x ∈ S) (hv : x ∈ V) :
    (S.filter fun n => !V.contains n).length < S.length := by
  rw [List.length_filter_lt_length_iff_exists]
  exact ⟨x, hx, by simpa using hv⟩

/-- `rounds` with fuel above the number of atoms still to write never reports its own fuel error: if a fuel error comes out,
    it was raised inside a round (the only remaining fuelled loop there is the cis/trans repair `ctFlipLoop`) -/
theorem rounds_own_fuel {m : Mol} {env : Env} {opts : Opts} {groups : List (Int × Int)} (hwf : m.WF = true)
    (hone : ∀ g, oneRound m env opts groups g ≠ .error .fuel) :
    ∀ (fuel : Nat) (g : Global), SetOk m g.atomsSet → g.atomsSet.length ≤ fuel →
      rounds m env opts groups (fuel + 1) g ≠ .error .fuel := by
  intro fuel
  induction fuel with
  | zero =>
    intro g hS hlen h
    simp only [rounds] at h
    split at h
    · rename_i e he
      cases h
      exact hone g he
    · rename_i r order g' h1
      obtain ⟨_, _, hs⟩ := oneRound_dfs hwf hS h1
      have : g.atomsSet = [] := List.length_eq_zero_iff.1 (by omega)
      rw [this] at hs
      simp only [List.filter_nil] at hs
      simp [hs] at h
  | succ n ih =>
    intro g hS hlen h
    rw [rounds] at h
    split at h
    · rename_i e he
      cases h
      exact hone g he
    · rename_i r order g' h1
      obtain ⟨hr, _, hs⟩ := oneRound_dfs hwf hS h1
      split at h
      · cases h
      · obtain ⟨d, hd, hv, _⟩ := hr.ex
        have hS' : SetOk m g'.atomsSet := by
          rw [hs]; exact hS.filter hwf _ (hv ▸ hd.closed)
        have hlt : g'.atomsSet.length < g.atomsSet.length := by
          rw [hs]
          exact filter_visited_length_lt hr.startS (hv ▸ hd.inv.startVis)
        split at h
        · rename_i e he
          cases h
          exact ih g' hS' (by omega) he
        · cases h

theorem smilesRounds_own_fuel {m : Mol} {env : Env} {opts : Opts} (hwf : m.WF = true)
    (hone : ∀ groups g, oneRound m env opts groups g ≠ .error .fuel) : smilesRounds m env opts ≠ .error .fuel := by
  intro h
  unfold smilesRounds at h
  split at h
  · cases h
  · split at h
    · rename_i e he
      cases h
      unfold groupsOf at he
      split at he
      · cases he
      · split at he
        · rename_i e' he'
          cases he
          -- weightOf only raises keyError
          have : ∀ (l : List Nat) e, l.mapM (weightOf env) = .error e → e = .keyError := by
            intro l
            induction l with
            | nil => intro e h; simp [pure, Except.pure] at h
            | cons a tl ih =>
              intro e h
              simp only [List.mapM_cons, bind, Except.bind, pure, Except.pure] at h
              split at h
              · rename_i e1 h1
                cases h
                unfold weightOf at h1
                split at h1
                · cases h1
                · cases h1; rfl
              · split at h
                · rename_i e2 h2; cases h; exact ih _ h2
                · cases h
          have := this _ _ he'
          cases this
        · cases he
    · rename_i groups _
      have hS : SetOk m (initialGlobal m env).atomsSet :=
        ⟨wf_ids_nodup hwf, fun a ha => ha, fun a _ b hb => ((wf_nbrs hwf a).2 b hb).2.1⟩
      exact rounds_own_fuel hwf (hone groups) m.atoms.length (initialGlobal m env) hS (by simp [initialGlobal, Mol.ids]) h

/-! ## the cis/trans repair loop `ctFlipLoop` -/

namespace Fuel2

def S (adjacency : List (Nat × List Nat)) (done : List Nat) : Nat :=
  ((adjacency.filter fun e => !done.contains e.1).map fun e => 2 * e.2.length + 1).sum

theorem S_mono (k : Nat) (done : List Nat) : ∀ adjacency : List (Nat × List Nat), S adjacency (k :: done) ≤ S adjacency done := by
  intro adjacency
  induction adjacency with
  | nil => simp [S]
  | cons hd tl ih =>
    simp only [S, List.filter_cons] at ih ⊢
    by_cases h1 : hd.1 ∈ done
    · have h2 : hd.1 ∈ k :: done := List.mem_cons_of_mem _ h1
      simp only [List.contains_eq_mem, h1, h2, decide_true, Bool.not_true, Bool.false_eq_true, if_false]
      simpa using ih
    · by_cases h2 : hd.1 = k
      · have h3 : hd.1 ∈ k :: done := by simp [h2]
        simp only [List.contains_eq_mem, h1, h3, decide_true, decide_false, Bool.not_true, Bool.not_false,
          Bool.false_eq_true, if_false, if_true, List.map_cons, List.sum_cons]
        have := ih
        simp only [List.contains_eq_mem] at this
        omega
      · have h3 : hd.1 ∉ k :: done := by simp [h1, h2]
        simp only [List.contains_eq_mem, h1, h3, decide_false, Bool.not_false, if_true, List.map_cons, List.sum_cons]
        have := ih
        simp only [List.contains_eq_mem] at this
        omega

theorem S_drop (k : Nat) (done : List Nat) (hk : k ∉ done) : ∀ (adjacency : List (Nat × List Nat)) (vs : List Nat),
    adjacency.lookup k = some vs → S adjacency (k :: done) + (2 * vs.length + 1) ≤ S adjacency done := by
  intro adjacency
  induction adjacency with
  | nil => intro vs h; simp at h
  | cons hd tl ih =>
    intro vs h
    obtain ⟨a, l⟩ := hd
    simp only [List.lookup] at h
    split at h
    · rename_i hka
      have : k = a := by simpa using hka
      subst this
      cases h
      have h3 : k ∈ k :: done := by simp
      have := S_mono k done tl
      simp only [S, List.filter_cons, List.contains_eq_mem, hk, h3, decide_true, decide_false, Bool.not_true, Bool.not_false,
        Bool.false_eq_true, if_false, if_true, List.map_cons, List.sum_cons] at this ⊢
      omega
    · rename_i hka
      have hne : ¬ k = a := by simpa using hka
      have := ih vs h
      simp only [S, List.filter_cons, List.contains_eq_mem] at this ⊢
      by_cases h1 : a ∈ done
      · have h2 : a ∈ k :: done := List.mem_cons_of_mem _ h1
        simp only [h1, h2, decide_true, Bool.not_true, Bool.false_eq_true, if_false]
        exact this
      · have h2 : a ∉ k :: done := by
          intro hx; rcases List.mem_cons.1 hx with hx | hx
          · exact hne hx.symm
          · exact h1 hx
        simp only [h1, h2, decide_false, Bool.not_false, if_true, List.map_cons, List.sum_cons]
        omega

theorem S_nil : ∀ adjacency : List (Nat × List Nat),
    S adjacency [] = 2 * (adjacency.map (·.2.length)).sum + adjacency.length := by
  intro adjacency
  induction adjacency with
  | nil => simp [S]
  | cons hd tl ih =>
    simp only [S, List.filter_cons, List.contains_nil, Bool.not_false, if_true, List.map_cons, List.sum_cons, List.length_cons] at ih ⊢
    omega

theorem ctFlipNbrs_len (se : SEnv) (k : Nat) (done : List Nat) : ∀ (vs : List Nat) (pair : List ((Nat × Nat) × Bool)) (todo : List Nat),
    (ctFlipNbrs se k done vs pair todo).2.length ≤ todo.length + 2 * vs.length := by
  intro vs
  induction vs with
  | nil => intro pair todo; simp [ctFlipNbrs]
  | cons v tl ih =>
    intro pair todo
    simp only [ctFlipNbrs]
    split
    · split
      · refine Nat.le_trans (ih _ _) ?_; simp only [List.length_cons]; omega
      · split
        · refine Nat.le_trans (ih _ _) ?_
          simp only [List.length_cons, List.length_append, List.length_nil]; omega
        · refine Nat.le_trans (ih _ _) ?_; simp only [List.length_cons]; omega
    · refine Nat.le_trans (ih _ _) ?_; simp only [List.length_cons]; omega

theorem ctFlipLoop_no_fuel (se : SEnv) (adjacency : List (Nat × List Nat)) : ∀ (fuel : Nat) (todo done : List Nat)
    (pair : List ((Nat × Nat) × Bool)), todo.length + S adjacency done ≤ fuel →
    ctFlipLoop se adjacency fuel todo done pair ≠ .error .fuel := by
  intro fuel
  induction fuel with
  | zero =>
    intro todo done pair h
    have : todo = [] := List.length_eq_zero_iff.1 (by omega)
    subst this
    simp [ctFlipLoop]
  | succ n ih =>
    intro todo done pair h
    rw [ctFlipLoop]
    split
    · simp
    · rename_i k hk
      have hne : todo ≠ [] := by intro e; subst e; simp at hk
      have hlen : todo.dropLast.length + 1 = todo.length := by
        rw [List.length_dropLast]; have := List.length_pos_of_ne_nil hne; omega
      split
      · exact ih _ _ _ (by omega)
      · rename_i hd
        have hkd : k ∉ done := by simpa using hd
        split
        · simp
        · rename_i vs hvs
          apply ih
          have h1 := ctFlipNbrs_len se k (k :: done) vs pair todo.dropLast
          have h2 := S_drop k done hkd adjacency vs hvs
          omega

/-! ## nothing else in a round raises the fuel error -/

theorem ofPy_nf {α} (x : Except Stereo.PyErr α) : ofPy x ≠ .error .fuel := by
  cases x with
  | ok a => simp [ofPy]
  | error e => cases e <;> simp [ofPy]

theorem ctWrong_nf (m : Mol) (se : SEnv) (ct : CtMap) : ∀ l, ctWrong m se ct l ≠ .error .fuel := by
  intro l
  induction l with
  | nil => simp [ctWrong]
  | cons hd tl ih =>
    obtain ⟨term, e⟩ := hd
    intro h
    simp only [ctWrong] at h
    repeat' split at h
    all_goals first
      | (cases h; done)
      | (cases h; exact absurd (by assumption) ih)
      | (cases h; exact absurd (by assumption) (ofPy_nf _))

theorem ctRepair_nf (m : Mol) (se : SEnv) (adjacency : List (Nat × List Nat)) : ∀ l ct, ctRepair m se adjacency l ct ≠ .error .fuel := by
  intro l
  induction l with
  | nil => intro ct; simp [ctRepair]
  | cons hd tl ih =>
    intro ct
    obtain ⟨term, e⟩ := hd
    intro h
    have hfl : ∀ pair, ctFlipLoop se adjacency (4 * ((adjacency.map (·.2.length)).sum + adjacency.length) + 4) [term.1] [term.2] pair
        ≠ .error .fuel := by
      intro pair
      refine ctFlipLoop_no_fuel se adjacency _ _ _ _ ?_
      have h1 := S_mono term.2 [] adjacency
      have h2 := S_nil adjacency
      simp only [List.length_singleton]
      omega
    simp only [ctRepair] at h
    repeat' split at h
    all_goals first
      | (cases h; done)
      | exact ih _ h
      | (cases h; exact absurd (by assumption) (ctWrong_nf _ _ _ _))
      | (cases h; exact absurd (by assumption) (hfl _))

theorem ctInner_nf (m : Mol) (se : SEnv) (k : Nat) (cs : Nat × Nat) (e : Stereo.Ends) :
    ∀ vs ct seen, ctInner m se k cs e vs ct seen ≠ .error .fuel := by
  intro vs
  induction vs with
  | nil => intro ct seen; simp [ctInner]
  | cons v tl ih =>
    intro ct seen h
    simp only [ctInner] at h
    repeat' split at h
    all_goals first
      | (cases h; done)
      | exact ih _ _ h
      | (cases h; exact absurd (by assumption) (ofPy_nf _))

theorem ctOuter_nf (m : Mol) (se : SEnv) (sb : List Nat) : ∀ l ct seen, ctOuter m se sb l ct seen ≠ .error .fuel := by
  intro l
  induction l with
  | nil => intro ct seen; simp [ctOuter]
  | cons hd tl ih =>
    intro ct seen h
    obtain ⟨k, vs⟩ := hd
    simp only [ctOuter] at h
    repeat' split at h
    all_goals first
      | (cases h; done)
      | exact ih _ _ h
      | (cases h; exact absurd (by assumption) (ctInner_nf _ _ _ _ _ _ _ _))

theorem ctMap_nf (m : Mol) (se : SEnv) (adjacency : List (Nat × List Nat)) : ctMap m se adjacency ≠ .error .fuel := by
  intro h
  unfold ctMap at h
  simp only at h
  repeat' split at h
  all_goals first
    | (cases h; done)
    | exact ctRepair_nf _ _ _ _ _ h
    | (cases h; exact absurd (by assumption) (ctOuter_nf _ _ _ _ _ _))

theorem map_nf {α β} (f : α → β) (x : Except Err α) (h : x ≠ .error .fuel) : Except.map f x ≠ .error .fuel := by
  cases x with
  | ok a => simp [Except.map]
  | error e => intro h'; simp only [Except.map, Except.error.injEq] at h'; subst h'; exact h rfl

theorem formatBond_nf (m : Mol) (opts : Opts) (sc : SCtx) (hct : sc.ct ≠ .error .fuel) (a b : Nat) :
    formatBond m opts sc a b ≠ .error .fuel := by
  intro h
  unfold formatBond at h
  repeat' split at h
  all_goals first
    | (cases h; done)
    | (cases h; exact absurd (by assumption) hct)

theorem stereoMark_nf (m : Mol) (opts : Opts) (sc : SCtx) (n : Nat) (atom : Atom) : stereoMark m opts sc n atom ≠ .error .fuel := by
  intro h
  unfold stereoMark at h
  repeat' split at h
  all_goals first
    | (cases h; done)
    | exact map_nf _ _ (ofPy_nf _) h

theorem symbolOf_nf (z : Nat) : symbolOf z ≠ .error .fuel := by
  intro h; unfold symbolOf at h; split at h <;> cases h

theorem chargeText_nf (opts : Opts) (atom : Atom) : chargeText opts atom ≠ .error .fuel := by
  intro h
  unfold chargeText at h
  repeat' split at h
  all_goals cases h

theorem formatAtom_nf (m : Mol) (opts : Opts) (sc : SCtx) (n : Nat) : formatAtom m opts sc n ≠ .error .fuel := by
  intro h
  unfold formatAtom at h
  repeat' split at h
  all_goals first
    | (cases h; done)
    | (cases h; exact absurd (by assumption) (stereoMark_nf _ _ _ _ _))
    | (cases h; exact absurd (by assumption) (symbolOf_nf _))
    | (cases h; exact absurd (by assumption) (chargeText_nf _ _))

theorem closureBond_nf (m : Mol) (opts : Opts) (sc : SCtx) (hct : sc.ct ≠ .error .fuel) (n k : Nat) (vb : List (Nat × Nat)) :
    closureBond m opts sc n k vb ≠ .error .fuel := by
  intro h
  unfold closureBond at h
  repeat' split at h
  all_goals first
    | (cases h; done)
    | (cases h; exact absurd (by assumption) (formatBond_nf _ _ _ hct _ _))

theorem emitClosures_nf (m : Mol) (opts : Opts) (sc : SCtx) (hct : sc.ct ≠ .error .fuel) (casted : List (Nat × Nat)) (n : Nat) :
    ∀ cl vb, emitClosures m opts sc casted n cl vb ≠ .error .fuel := by
  intro cl
  induction cl with
  | nil => intro vb; simp [emitClosures]
  | cons kc tl ih =>
    intro vb h
    obtain ⟨k, c⟩ := kc
    simp only [emitClosures] at h
    repeat' split at h
    all_goals first
      | (cases h; done)
      | (cases h; exact absurd (by assumption) (ih _))
      | (cases h; exact absurd (by assumption) (closureBond_nf _ _ _ hct _ _ _))

theorem sortedClosures_nf (casted : List (Nat × Nat)) (tokens : List (Nat × List (Nat × Nat))) (n : Nat) :
    sortedClosures casted tokens n ≠ .error .fuel := by
  intro h
  unfold sortedClosures at h
  split at h <;> cases h

theorem emit_nf (m : Mol) (opts : Opts) (sc : SCtx) (hct : sc.ct ≠ .error .fuel) (casted : List (Nat × Nat))
    (tokens : List (Nat × List (Nat × Nat))) : ∀ smi vb, emit m opts sc casted tokens smi vb ≠ .error .fuel := by
  intro smi
  induction smi with
  | nil => intro vb; simp [emit]
  | cons t tl ih =>
    intro vb h
    cases t <;> simp only [emit] at h <;> repeat' split at h
    all_goals first
      | (cases h; done)
      | (cases h; exact absurd (by assumption) (ih _))
      | (cases h; exact absurd (by assumption) (formatAtom_nf _ _ _ _))
      | (cases h; exact absurd (by assumption) (formatBond_nf _ _ _ hct _ _))
      | (cases h; exact absurd (by assumption) (sortedClosures_nf _ _ _))
      | (cases h; exact absurd (by assumption) (emitClosures_nf _ _ _ hct _ _ _ _))

theorem castOne_nf : ∀ cyc casted heap released, castOne cyc casted heap released ≠ .error .fuel := by
  intro cyc
  induction cyc with
  | nil => intro casted heap released; simp [castOne]
  | cons c tl ih =>
    intro casted heap released h
    simp only [castOne] at h
    repeat' split at h
    all_goals first
      | (cases h; done)
      | exact ih _ _ _ h

theorem castSeq_nf : ∀ L casted heap, castSeq L casted heap ≠ .error .fuel := by
  intro L
  induction L with
  | nil => intro casted heap; simp [castSeq]
  | cons c tl ih =>
    intro casted heap h
    simp only [castSeq] at h
    repeat' split at h
    all_goals first
      | (cases h; done)
      | exact ih _ _ h
      | (cases h; exact absurd (by assumption) (castOne_nf _ _ _ _))

theorem adjacencyOf_nf (casted : List (Nat × Nat)) (d : Dfs) : adjacencyOf casted d ≠ .error .fuel := by
  intro h
  unfold adjacencyOf at h
  obtain ⟨p, _, hp⟩ := Fuel.mapM_except_error _ _ _ h
  split at hp
  · rename_i e he; cases hp; exact sortedClosures_nf _ _ _ he
  · cases hp

theorem finishRound_nf (m : Mol) (env : Env) (opts : Opts) (g : Global) (start : Nat) (seen : List (Nat × Int)) (d : Dfs) :
    finishRound m env opts g start seen d ≠ .error .fuel := by
  intro h
  unfold finishRound at h
  simp only at h
  repeat' split at h
  all_goals first
    | (cases h; done)
    | (cases h; exact absurd (by assumption) (castSeq_nf _ _ _))
    | (cases h; exact absurd (by assumption) (adjacencyOf_nf _ _))
    | (cases h; exact absurd (by assumption) (emit_nf _ _ _ (ctMap_nf _ _ _) _ _ _ _))

theorem oneRound_nf {m : Mol} (hwf : m.WF = true) (env : Env) (opts : Opts) (groups : List (Int × Int)) (g : Global) :
    oneRound m env opts groups g ≠ .error .fuel := by
  intro h
  unfold oneRound at h
  split at h
  · rename_i e he; cases h; exact traverse_no_fuel_error hwf g he
  · exact finishRound_nf _ _ _ _ _ _ _ h

end Fuel2

/-- the writer model never reports a fuel error on a well-formed molecule: none of its fuel bounds (DFS steps, BFS pops,
    depth of `flat` [see `dfs_covers_component`], the cis/trans repair loop, the round loop) is ever an assumption -/
theorem smilesRounds_no_fuel_error {m : Mol} {env : Env} {opts : Opts} (hwf : m.WF = true) :
    smilesRounds m env opts ≠ .error .fuel :=
  smilesRounds_own_fuel hwf fun groups g => Fuel2.oneRound_nf hwf env opts groups g

end ChythonModel.Proofs.C02
