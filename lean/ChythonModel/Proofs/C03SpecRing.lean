import ChythonModel.Proofs.C03Spec
import ChythonModel.Proofs.C03Parser
/-!
# C03 — `parser` computes the denotation with ring closures (`Spec.denoteR`) on every syntax tree (helper lemmas)
-/
set_option linter.unusedSimpArgs false
namespace ChythonModel.Proofs.C03
open ChythonModel.Model.C03 ChythonModel.Spec.Smiles

/-- atom payload of a tree with ring closures: the atom (aromatic?, token) and the ring bonds written after it -/
abbrev B := A × List RingBond

/-- aromaticity of a payload -/
def aromB (b : B) : Bool := b.1.1

def symTokB : Sym B → Tok
  | .atom b => .atom (tyOf b.1) b.1.2
  | .bond o => .bond o
  | .dir b => .dir b
  | .dot => .dot
  | .lpar => .lpar
  | .rpar => .rpar
  | .ring n => .cyc n

def toToksB (l : List (Sym B)) : List Tok := l.map symTokB

theorem toToksB_printLink (l : Link) : toToksB (printLink l) = toToks (printLink l) := by
  cases l <;> rfl

theorem toToksB_printRings : ∀ (r : List RingBond), toToksB (printRings r) = toToks (printRings r)
  | [] => rfl
  | rb :: tl => by
    have ih := toToksB_printRings tl
    obtain ⟨sym, n⟩ := rb
    cases sym <;> simp [printRings, printRing, toToksB, toToks, symTokB, symTok] at ih ⊢ <;> exact ih

theorem toToksB_noOther (l : List (Sym B)) : ∀ t ∈ toToksB l, noOther t = true := by
  intro t ht
  simp only [toToksB, List.mem_map] at ht
  obtain ⟨s, _, rfl⟩ := ht
  cases s <;> rfl

theorem linkBonds_B (l : Link) (n p : Nat) (a pa : B) :
    linkBonds aromB l n p a pa = linkBonds (·.1) l n p a.1 pa.1 := by
  cases l <;> rfl

def toPB : RSym → Option PB
  | .none => none
  | .order o => some (.bond o)
  | .dir b => some (.dir b)

/-- the parser's `cycles` dict and the spec's table of open rings describe the same open rings, in the same order -/
def CycRel : List (Nat × Cyc) → List (OpenRing B) → Prop
  | [], [] => True
  | (k, c) :: tl, o :: tl' => k = o.num ∧ c.atom = o.atom ∧ c.bond = toPB o.sym ∧ CycRel tl tl'
  | _, _ => False

theorem cycRel_lookup_none : ∀ (cs : List (Nat × Cyc)) (tbl : List (OpenRing B)) (k : Nat), CycRel cs tbl →
    findRing k tbl = none → lookupNat k cs = none
  | [], [], _, _, _ => rfl
  | [], _ :: _, _, h, _ => by cases h
  | _ :: _, [], _, h, _ => by cases h
  | (k', c) :: tl, o :: tl', k, h, hf => by
    obtain ⟨h1, _, _, h4⟩ := h
    unfold findRing at hf
    split at hf
    · cases hf
    · rename_i hne
      unfold lookupNat
      rw [h1]
      simp only [hne, Bool.false_eq_true, if_false]
      exact cycRel_lookup_none tl tl' k h4 hf

theorem cycRel_lookup_some : ∀ (cs : List (Nat × Cyc)) (tbl : List (OpenRing B)) (k : Nat) (o : OpenRing B),
    CycRel cs tbl → findRing k tbl = some o →
    ∃ c, lookupNat k cs = some c ∧ c.atom = o.atom ∧ c.bond = toPB o.sym
  | [], [], _, _, _, hf => by simp [findRing] at hf
  | [], _ :: _, _, _, h, _ => by cases h
  | _ :: _, [], _, _, h, _ => by cases h
  | (k', c) :: tl, o' :: tl', k, o, h, hf => by
    obtain ⟨h1, h2, h3, h4⟩ := h
    unfold findRing at hf
    unfold lookupNat
    rw [h1]
    split at hf
    · rename_i heq
      cases hf
      simp only [heq, if_true]
      exact ⟨c, rfl, h2, h3⟩
    · rename_i hne
      simp only [hne, Bool.false_eq_true, if_false]
      exact cycRel_lookup_some tl tl' k o h4 hf

theorem cycRel_erase : ∀ (cs : List (Nat × Cyc)) (tbl : List (OpenRing B)) (k : Nat), CycRel cs tbl →
    CycRel (eraseKey k cs) (eraseRing k tbl)
  | [], [], _, _ => trivial
  | [], _ :: _, _, h => by cases h
  | _ :: _, [], _, h => by cases h
  | (k', c) :: tl, o :: tl', k, h => by
    obtain ⟨h1, h2, h3, h4⟩ := h
    unfold eraseKey eraseRing
    rw [h1]
    by_cases hk : (o.num == k) = true
    · simp only [hk, if_true]; exact h4
    · simp only [hk, Bool.false_eq_true, if_false]
      exact ⟨rfl, h2, h3, cycRel_erase tl tl' k h4⟩

theorem cycRel_snoc : ∀ (cs : List (Nat × Cyc)) (tbl : List (OpenRing B)) (k : Nat) (c : Cyc) (o : OpenRing B),
    CycRel cs tbl → k = o.num → c.atom = o.atom → c.bond = toPB o.sym → CycRel (cs ++ [(k, c)]) (tbl ++ [o])
  | [], [], _, _, _, _, h1, h2, h3 => ⟨h1, h2, h3, trivial⟩
  | [], _ :: _, _, _, _, h, _, _, _ => by cases h
  | _ :: _, [], _, _, _, h, _, _, _ => by cases h
  | (k', c') :: tl, o' :: tl', k, c, o, h, h1, h2, h3 => by
    obtain ⟨g1, g2, g3, g4⟩ := h
    exact ⟨g1, g2, g3, cycRel_snoc tl tl' k c o g4 h1 h2 h3⟩

theorem cycRel_nil_left : ∀ (tbl : List (OpenRing B)), CycRel [] tbl → tbl = []
  | [], _ => rfl
  | _ :: _, h => by cases h

theorem cycRel_nil_right : ∀ (cs : List (Nat × Cyc)), CycRel cs ([] : List (OpenRing B)) → cs = []
  | [], _ => rfl
  | _ :: _, h => by cases h

theorem mem_eraseRing {k : Nat} : ∀ {tbl : List (OpenRing B)} {o : OpenRing B}, o ∈ eraseRing k tbl → o ∈ tbl
  | [], _, h => by simp [eraseRing] at h
  | o' :: tl, o, h => by
    unfold eraseRing at h
    split at h
    · simp [h]
    · simp only [List.mem_cons] at h ⊢
      rcases h with rfl | h
      · exact Or.inl rfl
      · exact Or.inr (mem_eraseRing h)

theorem findRing_mem {k : Nat} : ∀ {tbl : List (OpenRing B)} {o : OpenRing B}, findRing k tbl = some o → o ∈ tbl
  | [], _, h => by simp [findRing] at h
  | o' :: tl, o, h => by
    unfold findRing at h
    split at h
    · cases h; simp
    · simp [findRing_mem h]

/-- the opening atom of every open ring has the recorded aromatic/aliphatic type -/
def TypesOK (st : PState) (tbl : List (OpenRing B)) : Prop := ∀ o ∈ tbl, st.types[o.atom]? = some (tyOf o.pay.1)

theorem toToks_noOther (l : List (Sym A)) : ∀ t ∈ toToks l, noOther t = true := by
  intro t ht
  simp only [toToks, List.mem_map] at ht
  obtain ⟨s, _, rfl⟩ := ht
  cases s <;> rfl

/-- invariant after a run of non-`other` tokens that succeeded -/
theorem pinv_of_run {st st' : PState} {ts : List Tok} (h : PInv st) (hn : ∀ t ∈ ts, noOther t = true)
    (hr : prun false st ts = .ok st') : PInv st' := by
  have := prun_inv false ts st h hn
  rw [hr] at this
  exact this

theorem arom4_eq (x y : Nat) : arom4 x y = if (x == 8 && y == 8) then 4 else 1 := by
  unfold arom4
  by_cases h1 : x = 8
  · subst h1
    by_cases h2 : y = 8
    · subst h2; rfl
    · have : (8 == y) = false := by simpa using fun h => h2 h.symm
      simp [h2, this]
  · have : (x == 8) = false := by simpa using h1
    by_cases h2 : y = 8
    · subst h2; simp [this, h1]
    · simp [this, h2]

/-- order of the ring bond computed by `closeBond` is the one the spec assigns -/
theorem closeBond_spec (st : PState) (c : Cyc) (s1 s2 : RSym) (x y ord : Nat)
    (hb : c.bond = toPB s1) (hp : st.previous = toPB s2)
    (hx : st.types[st.lastNum]? = some x) (hy : st.types[c.atom]? = some y)
    (ho : ringOrder (x == 8 && y == 8) s1 s2 = some ord) :
    ∃ sb lg, closeBond st false c = .ok (ord, sb, none, lg) := by
  unfold closeBond
  dsimp only
  cases s1 with
  | none =>
    cases s2 with
    | none =>
      simp only [toPB] at hb hp
      simp only [ringOrder, Option.some.injEq] at ho
      simp only [hb, hp, hx, hy, arom4_eq, ho]
      exact ⟨_, _, rfl⟩
    | order o =>
      simp only [toPB] at hb hp
      simp only [ringOrder, Option.some.injEq] at ho
      simp only [hb, hp, ho, Bool.false_eq_true, if_false]
      exact ⟨_, _, rfl⟩
    | dir b =>
      simp only [toPB] at hb hp
      simp only [ringOrder, Option.some.injEq] at ho
      simp only [hb, hp, hx, hy, arom4_eq, ho]
      exact ⟨_, _, rfl⟩
  | order o1 =>
    cases s2 with
    | none =>
      simp only [toPB] at hb hp
      simp only [ringOrder, Option.some.injEq] at ho
      simp only [hb, hp, ho, Bool.false_eq_true, if_false]
      exact ⟨_, _, rfl⟩
    | order o2 =>
      simp only [toPB] at hb hp
      simp only [ringOrder] at ho
      split at ho
      · rename_i heq
        cases ho
        subst heq
        simp only [hb, hp, bne_self_eq_false, Bool.false_eq_true, if_false]
        exact ⟨_, _, rfl⟩
      · cases ho
    | dir b =>
      simp only [toPB] at hb hp
      simp only [ringOrder] at ho
      split at ho
      · rename_i heq
        cases ho
        subst heq
        simp only [hb, hp, bne_self_eq_false, Bool.false_eq_true, if_false]
        exact ⟨_, _, rfl⟩
      · cases ho
  | dir b1 =>
    cases s2 with
    | none =>
      simp only [toPB] at hb hp
      simp only [ringOrder, Option.some.injEq] at ho
      simp only [hb, hp, hx, hy, arom4_eq, ho]
      exact ⟨_, _, rfl⟩
    | order o2 =>
      simp only [toPB] at hb hp
      simp only [ringOrder] at ho
      split at ho
      · rename_i heq
        cases ho
        subst heq
        simp only [hb, hp, bne_self_eq_false, Bool.false_eq_true, if_false]
        exact ⟨_, _, rfl⟩
      · cases ho
    | dir b2 =>
      simp only [toPB] at hb hp
      simp only [ringOrder, Option.some.injEq] at ho
      simp only [hb, hp, hx, hy, arom4_eq, ho]
      exact ⟨_, _, rfl⟩

theorem tyOf_eq8 (a : A) : (tyOf a == 8) = a.1 := by
  obtain ⟨b, _⟩ := a
  cases b <;> rfl

/-- reading the ring-closure number itself, with the bond symbol (if any) already in `previous` -/
theorem ring_cyc_step (st : PState) (a : B) (sym : RSym) (num : Nat) (tbl tbl1 : List (OpenRing B))
    (b1 : List (Nat × Nat × Nat)) (hp : st.previous = toPB sym) (hlty : st.types[st.lastNum]? = some (tyOf a.1))
    (hI : PInv st) (hop : st.opened = false) (hC : CycRel st.cycles tbl) (hT : TypesOK st tbl)
    (hs : ringOne aromB tbl st.lastNum a ⟨sym, num⟩ = some (tbl1, b1)) :
    ∃ st1, pstep false st (.cyc num) = .ok st1 ∧ st1.bonds = st.bonds ++ b1 ∧ st1.atoms = st.atoms ∧
      st1.types = st.types ∧ st1.atomNum = st.atomNum ∧ st1.lastNum = st.lastNum ∧ st1.stack = st.stack ∧
      st1.previous = none ∧ st1.opened = false ∧ CycRel st1.cycles tbl1 := by
  have hnd : (st.previous == some PB.dot) = false := by
    rw [hp]; cases sym <;> rfl
  unfold ringOne at hs
  dsimp only at hs
  cases hf : findRing num tbl with
  | none =>
    rw [hf] at hs
    dsimp only at hs
    cases hs
    have hl := cycRel_lookup_none st.cycles tbl num hC hf
    have hstep : pstep false st (.cyc num) = .ok
        { st with cycles := st.cycles ++ [(num, ⟨st.lastNum, st.previous, (orderGet st.order st.lastNum).length⟩)],
                  order := orderAppend st.order st.lastNum none, previous := none } := by
      simp only [pstep, hnd, hop, hl, Bool.false_eq_true, if_false]
    refine ⟨_, hstep, by simp, rfl, rfl, rfl, rfl, rfl, rfl, hop, ?_⟩
    exact cycRel_snoc _ _ _ _ _ hC rfl rfl hp
  | some o =>
    rw [hf] at hs
    dsimp only at hs
    split at hs
    · cases hs
    · rename_i hne
      cases hro : ringOrder (aromB o.pay && aromB a) o.sym sym with
      | none => rw [hro] at hs; cases hs
      | some ord =>
        rw [hro] at hs
        dsimp only at hs
        cases hs
        obtain ⟨c, hl, hca, hcb⟩ := cycRel_lookup_some st.cycles tbl num o hC hf
        have hy : st.types[c.atom]? = some (tyOf o.pay.1) := by rw [hca]; exact hT o (findRing_mem hf)
        have hro' : ringOrder (tyOf a.1 == 8 && tyOf o.pay.1 == 8) o.sym sym = some ord := by
          rw [tyOf_eq8, tyOf_eq8, Bool.and_comm]; exact hro
        obtain ⟨sb, lg, hcl⟩ := closeBond_spec st c o.sym sym (tyOf a.1) (tyOf o.pay.1) ord hcb hp hlty hy hro'
        have hmem := lookupNat_mem num st.cycles c hl
        obtain ⟨_, hci, _⟩ := hI.cycles _ hmem
        obtain ⟨o', ho', _⟩ := orderSet_some st.order c.atom c.ind (some st.lastNum) hci
        have hstep : pstep false st (.cyc num) = .ok
            { st with bonds := st.bonds ++ [(st.lastNum, c.atom, ord)],
                      order := orderAppend o' st.lastNum (some c.atom),
                      cycles := eraseKey num st.cycles, stereoBonds := sb, previous := none, log := lg } := by
          simp only [pstep, hnd, hop, hl, hcl, ho', Bool.false_eq_true, if_false]
        refine ⟨_, hstep, by simp [hca], rfl, rfl, rfl, rfl, rfl, rfl, hop, ?_⟩
        exact cycRel_erase _ _ _ hC

/-- reading one written ring bond (optional bond symbol + number) after the current atom -/
theorem ring_one_run (st : PState) (a : B) (rb : RingBond) (tbl tbl1 : List (OpenRing B))
    (b1 : List (Nat × Nat × Nat)) (hR : Ready st a.1) (hI : PInv st) (hop : st.opened = false)
    (hC : CycRel st.cycles tbl) (hT : TypesOK st tbl)
    (hs : ringOne aromB tbl st.lastNum a rb = some (tbl1, b1)) :
    ∃ st1, prun false st (toToks (printRing rb)) = .ok st1 ∧ st1.bonds = st.bonds ++ b1 ∧ st1.atoms = st.atoms ∧
      st1.types = st.types ∧ st1.atomNum = st.atomNum ∧ st1.lastNum = st.lastNum ∧ st1.stack = st.stack ∧
      st1.previous = none ∧ st1.opened = false ∧ CycRel st1.cycles tbl1 := by
  obtain ⟨sym, num⟩ := rb
  have hne : st.atoms.isEmpty = false := by
    have := hI.pos
    cases hk : st.atoms with
    | nil => simp [hk] at this
    | cons _ _ => rfl
  have hp0 := hR.prev
  cases sym with
  | none =>
    obtain ⟨st1, h1, rest⟩ := ring_cyc_step st a .none num tbl tbl1 b1 hp0 hR.lty hI hop hC hT hs
    exact ⟨st1, by simp [printRing, toToks, symTok, prun, h1], rest⟩
  | order o =>
    have hI' : PInv { st with previous := some (.bond o) } :=
      ⟨hI.pos, hI.types, hI.num, hI.last, hI.stack, hI.bonds, hI.cycles⟩
    obtain ⟨st1, h1, rest⟩ := ring_cyc_step { st with previous := some (.bond o) } a (.order o) num tbl tbl1 b1 rfl
      hR.lty hI' hop hC hT hs
    refine ⟨st1, ?_, rest⟩
    have e1 : pstep false st (.bond o) = .ok { st with previous := some (.bond o) } := by
      simp [pstep, hp0, hne]
    show prun false st [Tok.bond o, Tok.cyc num] = .ok st1
    simp only [prun, e1, h1]
  | dir b =>
    have hI' : PInv { st with previous := some (.dir b) } :=
      ⟨hI.pos, hI.types, hI.num, hI.last, hI.stack, hI.bonds, hI.cycles⟩
    obtain ⟨st1, h1, rest⟩ := ring_cyc_step { st with previous := some (.dir b) } a (.dir b) num tbl tbl1 b1 rfl
      hR.lty hI' hop hC hT hs
    refine ⟨st1, ?_, rest⟩
    have e1 : pstep false st (.dir b) = .ok { st with previous := some (.dir b) } := by
      simp [pstep, hp0, hne]
    show prun false st [Tok.dir b, Tok.cyc num] = .ok st1
    simp only [prun, e1, h1]

theorem ringOne_typesOK (st : PState) (a : B) (rb : RingBond) (tbl tbl1 : List (OpenRing B))
    (b1 : List (Nat × Nat × Nat)) (hlty : st.types[st.lastNum]? = some (tyOf a.1)) (hT : TypesOK st tbl)
    (hs : ringOne aromB tbl st.lastNum a rb = some (tbl1, b1)) : TypesOK st tbl1 := by
  unfold ringOne at hs
  split at hs
  · cases hs
    intro o ho
    simp only [List.mem_append, List.mem_singleton] at ho
    rcases ho with ho | rfl
    · exact hT o ho
    · exact hlty
  · split at hs
    · cases hs
    · split at hs
      · cases hs
        intro o ho
        exact hT o (mem_eraseRing ho)
      · cases hs

/-- reading all ring bonds written after the current atom -/
theorem ring_all_run : ∀ (rbs : List RingBond) (st : PState) (a : B) (tbl tbl1 : List (OpenRing B))
    (b1 : List (Nat × Nat × Nat)), Ready st a.1 → PInv st → st.opened = false → CycRel st.cycles tbl → TypesOK st tbl →
    ringAll aromB st.lastNum a tbl rbs = some (tbl1, b1) →
    ∃ st1, prun false st (toToks (printRings rbs)) = .ok st1 ∧ st1.bonds = st.bonds ++ b1 ∧ st1.atoms = st.atoms ∧
      st1.types = st.types ∧ st1.atomNum = st.atomNum ∧ st1.lastNum = st.lastNum ∧ st1.stack = st.stack ∧
      st1.previous = none ∧ st1.opened = false ∧ CycRel st1.cycles tbl1 ∧ PInv st1 ∧ TypesOK st1 tbl1
  | [], st, a, tbl, tbl1, b1, hR, hI, hop, hC, hT, hs => by
    simp only [ringAll, Option.some.injEq, Prod.mk.injEq] at hs
    obtain ⟨rfl, rfl⟩ := hs
    exact ⟨st, rfl, by simp, rfl, rfl, rfl, rfl, rfl, hR.prev, hop, hC, hI, hT⟩
  | rb :: rest, st, a, tbl, tbl1, b1, hR, hI, hop, hC, hT, hs => by
    unfold ringAll at hs
    cases h1 : ringOne aromB tbl st.lastNum a rb with
    | none => rw [h1] at hs; cases hs
    | some p =>
      obtain ⟨tblA, bA⟩ := p
      rw [h1] at hs
      dsimp only at hs
      cases h2 : ringAll aromB st.lastNum a tblA rest with
      | none => rw [h2] at hs; cases hs
      | some q =>
        obtain ⟨tbl2, b2⟩ := q
        rw [h2] at hs
        dsimp only at hs
        simp only [Option.some.injEq, Prod.mk.injEq] at hs
        obtain ⟨rfl, rfl⟩ := hs
        obtain ⟨stA, eA, fb, fa, ft, fn, fl, fs, fp, fo, fc⟩ := ring_one_run st a rb tbl tblA bA hR hI hop hC hT h1
        have hIA : PInv stA := pinv_of_run hI (toToks_noOther _) eA
        have hRA : Ready stA a.1 := ⟨fp, by rw [fa, fn]; exact hR.alen, by rw [ft, fn]; exact hR.tlen,
          by rw [fl, fn]; exact hR.last, by rw [fl, ft]; exact hR.lty⟩
        have hTA : TypesOK stA tblA := by
          intro o ho
          rw [ft]
          exact ringOne_typesOK st a rb tbl tblA bA hR.lty hT h1 o ho
        rw [← fl] at h2
        obtain ⟨st1, e1, gb, ga, gt, gn, gl, gs, gp, go, gc, gi, gT⟩ :=
          ring_all_run rest stA a tblA tbl2 b2 hRA hIA fo fc hTA h2
        refine ⟨st1, ?_, by rw [gb, fb]; simp, by rw [ga, fa], by rw [gt, ft], by rw [gn, fn], by rw [gl, fl],
          by rw [gs, fs], gp, go, gc, gi, gT⟩
        show prun false st (toToks (printRing rb ++ printRings rest)) = .ok st1
        simp only [toToks, List.map_append]
        rw [prun_append]
        have eA' : prun false st (List.map symTok (printRing rb)) = .ok stA := eA
        rw [eA']
        exact e1

/-- `link atom` as a finished run, also recording that the "just opened a branch" flag is cleared -/
theorem link_atom_run (st : PState) (pa a : A) (l : Link) (h : Ready st pa) :
    ∃ st1, prun false st (toToks (printLink l) ++ [symTok (.atom a)]) = .ok st1 ∧
      Ext st st1 [a] (linkBonds (·.1) l st.atomNum st.lastNum a pa) ∧ st1.lastNum = st.atomNum ∧
      st1.opened = false := by
  have hne : st.atoms.isEmpty = false := by
    have := h.last
    have h2 := h.alen
    cases hk : st.atoms with
    | nil => simp [hk] at h2; omega
    | cons _ _ => rfl
  have hp := h.prev
  have hl := h.lty
  cases l with
  | implicit =>
    refine ⟨_, by simp [toToks, printLink, symTok, prun, pstep, hne, hp, hl]; rfl, ?_, rfl, rfl⟩
    exact ⟨by simp [strip], by simp, by simp [linkBonds, arom4_tyOf], by simp, rfl, rfl, rfl⟩
  | explicit o =>
    refine ⟨_, by simp [toToks, printLink, symTok, prun, pstep, hne, hp, hl]; rfl, ?_, rfl, rfl⟩
    exact ⟨by simp [strip], by simp, by simp [linkBonds], by simp, rfl, rfl, rfl⟩
  | dir b =>
    refine ⟨_, by simp [toToks, printLink, symTok, prun, pstep, hne, hp, hl]; rfl, ?_, rfl, rfl⟩
    exact ⟨by simp [strip], by simp, by simp [linkBonds, arom4_tyOf], by simp, rfl, rfl, rfl⟩
  | dot =>
    refine ⟨_, by simp [toToks, printLink, symTok, prun, pstep, hne, hp, hl]; rfl, ?_, rfl, rfl⟩
    exact ⟨by simp [strip], by simp, by simp [linkBonds], by simp, rfl, rfl, rfl⟩

theorem typesOK_append (st st1 : PState) (tbl : List (OpenRing B)) (extra : List Nat)
    (ht : st1.types = st.types ++ extra) (hT : TypesOK st tbl) : TypesOK st1 tbl := by
  intro o ho
  rw [ht]
  exact getElem?_append_left' _ _ _ _ (hT o ho)

/-- what holds after a run that read some atoms `as`, bonds `bs` and left the ring table `tbl'` -/
structure After (st st' : PState) (as : List B) (bs : List (Nat × Nat × Nat)) (tbl' : List (OpenRing B)) : Prop where
  atoms : st'.atoms = st.atoms ++ as.map (fun b => strip b.1)
  types : st'.types = st.types ++ as.map (fun b => tyOf b.1)
  bonds : st'.bonds = st.bonds ++ bs
  num : st'.atomNum = st.atomNum + as.length
  stack : st'.stack = st.stack
  prev : st'.previous = none
  opened : st'.opened = false
  cyc : CycRel st'.cycles tbl'
  inv : PInv st'
  tys : TypesOK st' tbl'

/-- `link atom ringbond*` -/
theorem link_atom_rings_run (st : PState) (pa a : B) (l : Link)
    (tbl tbl1 : List (OpenRing B)) (rb1 : List (Nat × Nat × Nat)) (hR : Ready st pa.1) (hI : PInv st)
    (hC : CycRel st.cycles tbl) (hT : TypesOK st tbl)
    (hs : ringAll aromB st.atomNum a tbl a.2 = some (tbl1, rb1)) :
    ∃ st1, prun false st (toToksB (printLink l ++ printAtomR (·.2) a)) = .ok st1 ∧
      After st st1 [a] (linkBonds aromB l st.atomNum st.lastNum a pa ++ rb1) tbl1 ∧ st1.lastNum = st.atomNum ∧
      Ready st1 a.1 := by
  obtain ⟨stA, eA, xA, hlA, hoA⟩ := link_atom_run st pa.1 a.1 l hR
  have hIA : PInv stA := pinv_of_run hI (by
    intro t ht
    simp only [List.mem_append, List.mem_singleton] at ht
    rcases ht with ht | rfl
    · exact toToks_noOther _ t ht
    · rfl) eA
  have hRA : Ready stA a.1 := by
    refine ⟨xA.prev, ?_, ?_, ?_, ?_⟩
    · rw [xA.atoms, xA.num]; simp [hR.alen]
    · rw [xA.types, xA.num]; simp [hR.tlen]
    · rw [hlA, xA.num]; simp
    · rw [hlA, xA.types]
      have : st.atomNum = st.types.length := hR.tlen.symm
      rw [this]; simp
  have hCA : CycRel stA.cycles tbl := by rw [xA.cycles]; exact hC
  have hTA : TypesOK stA tbl := typesOK_append st stA tbl _ xA.types hT
  rw [← hlA] at hs
  obtain ⟨st1, e1, gb, ga, gt, gn, gl, gs, gp, go, gc, gi, gT⟩ :=
    ring_all_run a.2 stA a tbl tbl1 rb1 hRA hIA hoA hCA hTA hs
  refine ⟨st1, ?_, ⟨by rw [ga, xA.atoms]; simp, by rw [gt, xA.types]; simp, by rw [gb, xA.bonds, linkBonds_B]; simp,
    by rw [gn, xA.num]; simp, by rw [gs, xA.stack], gp, go, gc, gi, gT⟩, by rw [gl, hlA],
    ⟨gp, by rw [ga, gn]; exact hRA.alen, by rw [gt, gn]; exact hRA.tlen, by rw [gl, gn]; exact hRA.last,
      by rw [gl, gt]; exact hRA.lty⟩⟩
  have : toToksB (printLink l ++ printAtomR (·.2) a) =
      (toToks (printLink l) ++ [symTok (.atom a.1)]) ++ toToks (printRings a.2) := by
    have h1 := toToksB_printLink l
    have h2 := toToksB_printRings a.2
    simp only [toToksB, toToks] at h1 h2
    simp [toToksB, toToks, printAtomR, symTokB, symTok, h1, h2]
  rw [this, prun_append, eA]
  exact e1

theorem After.trans {st st1 st2 : PState} {as1 as2 : List B} {bs1 bs2 : List (Nat × Nat × Nat)}
    {t1 t2 : List (OpenRing B)} (h1 : After st st1 as1 bs1 t1) (h2 : After st1 st2 as2 bs2 t2) :
    After st st2 (as1 ++ as2) (bs1 ++ bs2) t2 :=
  ⟨by rw [h2.atoms, h1.atoms]; simp, by rw [h2.types, h1.types]; simp, by rw [h2.bonds, h1.bonds]; simp,
   by rw [h2.num, h1.num]; simp; omega, by rw [h2.stack, h1.stack], h2.prev, h2.opened, h2.cyc, h2.inv, h2.tys⟩

/-- **simulation with ring closures** -/
theorem prun_printKR : ∀ (k : K B) (st : PState) (pa : B) (tbl : List (OpenRing B))
    (as : List B) (bs : List (Nat × Nat × Nat)) (tbl' : List (OpenRing B)),
    Ready st pa.1 → PInv st → st.opened = false → CycRel st.cycles tbl → TypesOK st tbl →
    denoteKR aromB (·.2) st.lastNum pa st.atomNum tbl k = some (as, bs, tbl') →
    ∃ st', prun false st (toToksB (printKR (·.2) k)) = .ok st' ∧ After st st' as bs tbl' ∧ st'.lastNum < st'.atomNum
  | .done, st, pa, tbl, as, bs, tbl', hR, hI, hop, hC, hT, hd => by
    simp only [denoteKR, Option.some.injEq, Prod.mk.injEq] at hd
    obtain ⟨rfl, rfl, rfl⟩ := hd
    exact ⟨st, rfl, ⟨by simp, by simp, by simp, by simp, rfl, hR.prev, hop, hC, hI, hT⟩, hR.last⟩
  | .next l a k, st, pa, tbl, as, bs, tbl', hR, hI, hop, hC, hT, hd => by
    unfold denoteKR at hd
    cases h1 : ringAll aromB st.atomNum a tbl a.2 with
    | none => rw [h1] at hd; cases hd
    | some p1 =>
      obtain ⟨tbl1, rb1⟩ := p1
      rw [h1] at hd
      dsimp only at hd
      cases h2 : denoteKR aromB (·.2) st.atomNum a (st.atomNum + 1) tbl1 k with
      | none => rw [h2] at hd; cases hd
      | some p2 =>
        obtain ⟨as1, bs1, tbl2⟩ := p2
        rw [h2] at hd
        dsimp only at hd
        simp only [Option.some.injEq, Prod.mk.injEq] at hd
        obtain ⟨rfl, rfl, rfl⟩ := hd
        obtain ⟨st1, e1, a1, hl1, hR1⟩ := link_atom_rings_run st pa a l tbl tbl1 rb1 hR hI hC hT h1
        have hn1 : st1.atomNum = st.atomNum + 1 := by rw [a1.num]; rfl
        have h2' : denoteKR aromB (·.2) st1.lastNum a st1.atomNum tbl1 k = some (as1, bs1, tbl2) := by
          rw [hl1, hn1]; exact h2
        obtain ⟨st2, e2, a2, hl2⟩ := prun_printKR k st1 a tbl1 as1 bs1 tbl2 hR1 a1.inv a1.opened a1.cyc a1.tys h2'
        refine ⟨st2, ?_, by simpa using a1.trans a2, hl2⟩
        have : toToksB (printKR (·.2) (.next l a k)) = toToksB (printLink l ++ printAtomR (·.2) a) ++ toToksB (printKR (·.2) k) := by
          simp [printKR, toToksB]
        rw [this, prun_append, e1]
        exact e2
  | .side l a inner k, st, pa, tbl, as, bs, tbl', hR, hI, hop, hC, hT, hd => by
    unfold denoteKR at hd
    cases h1 : ringAll aromB st.atomNum a tbl a.2 with
    | none => rw [h1] at hd; cases hd
    | some p1 =>
      obtain ⟨tbl1, rb1⟩ := p1
      rw [h1] at hd
      dsimp only at hd
      cases h2 : denoteKR aromB (·.2) st.atomNum a (st.atomNum + 1) tbl1 inner with
      | none => rw [h2] at hd; cases hd
      | some p2 =>
        obtain ⟨as1, bs1, tbl2⟩ := p2
        rw [h2] at hd
        dsimp only at hd
        cases h3 : denoteKR aromB (·.2) st.lastNum pa (st.atomNum + 1 + as1.length) tbl2 k with
        | none => rw [h3] at hd; cases hd
        | some p3 =>
          obtain ⟨as2, bs2, tbl3⟩ := p3
          rw [h3] at hd
          dsimp only at hd
          simp only [Option.some.injEq, Prod.mk.injEq] at hd
          obtain ⟨rfl, rfl, rfl⟩ := hd
          -- '('
          obtain ⟨st0, hst0⟩ : ∃ st0 : PState, st0 = { st with stack := st.lastNum :: st.stack, opened := true } := ⟨_, rfl⟩
          have e0 : prun false st [Tok.lpar] = .ok st0 := by
            rw [hst0]; simp [prun, pstep, hR.prev]
          have hI0 : PInv st0 := pinv_of_run hI (by intro t ht; simp at ht; subst ht; rfl) e0
          have n0 : st0.atomNum = st.atomNum := by rw [hst0]
          have l0 : st0.lastNum = st.lastNum := by rw [hst0]
          have a0 : st0.atoms = st.atoms := by rw [hst0]
          have t0 : st0.types = st.types := by rw [hst0]
          have b0 : st0.bonds = st.bonds := by rw [hst0]
          have s0 : st0.stack = st.lastNum :: st.stack := by rw [hst0]
          have c0 : st0.cycles = st.cycles := by rw [hst0]
          have hR0 : Ready st0 pa.1 := by rw [hst0]; exact ⟨hR.prev, hR.alen, hR.tlen, hR.last, hR.lty⟩
          clear hst0
          have hC0 : CycRel st0.cycles tbl := by rw [c0]; exact hC
          have hT0 : TypesOK st0 tbl := by intro o ho; rw [t0]; exact hT o ho
          rw [← n0] at h1
          obtain ⟨st1, e1, a1, hl1, hR1⟩ := link_atom_rings_run st0 pa a l tbl tbl1 rb1 hR0 hI0 hC0 hT0 h1
          have hn1 : st1.atomNum = st.atomNum + 1 := by rw [a1.num, n0]; rfl
          rw [n0] at hl1
          have h2' : denoteKR aromB (·.2) st1.lastNum a st1.atomNum tbl1 inner = some (as1, bs1, tbl2) := by
            rw [hl1, hn1]; exact h2
          obtain ⟨st2, e2, a2, _⟩ := prun_printKR inner st1 a tbl1 as1 bs1 tbl2 hR1 a1.inv a1.opened a1.cyc a1.tys h2'
          -- ')'
          have hstack : st2.stack = st.lastNum :: st.stack := by rw [a2.stack, a1.stack, s0]
          obtain ⟨st3, hst3⟩ : ∃ st3 : PState, st3 = { st2 with lastNum := st.lastNum, stack := st.stack } := ⟨_, rfl⟩
          have e3 : prun false st2 [Tok.rpar] = .ok st3 := by
            rw [hst3]; simp [prun, pstep, a2.prev, hstack]
          have hI3 : PInv st3 := pinv_of_run a2.inv (by intro t ht; simp at ht; subst ht; rfl) e3
          have n3 : st3.atomNum = st2.atomNum := by rw [hst3]
          have l3 : st3.lastNum = st.lastNum := by rw [hst3]
          have a3 : st3.atoms = st2.atoms := by rw [hst3]
          have t3 : st3.types = st2.types := by rw [hst3]
          have b3 : st3.bonds = st2.bonds := by rw [hst3]
          have s3 : st3.stack = st.stack := by rw [hst3]
          have c3 : st3.cycles = st2.cycles := by rw [hst3]
          have p3 : st3.previous = st2.previous := by rw [hst3]
          have o3 : st3.opened = st2.opened := by rw [hst3]
          clear hst3
          have a12 := a1.trans a2
          have hnum2 : st2.atomNum = st.atomNum + 1 + as1.length := by rw [a12.num, n0]; simp; omega
          have hty2 : st2.types = st.types ++ (tyOf a.1 :: as1.map (fun b => tyOf b.1)) := by rw [a12.types, t0]; simp
          have hat2 : st2.atoms = st.atoms ++ (strip a.1 :: as1.map (fun b => strip b.1)) := by rw [a12.atoms, a0]; simp
          have hR3 : Ready st3 pa.1 := by
            refine ⟨by rw [p3]; exact a2.prev, ?_, ?_, ?_, ?_⟩
            · rw [a3, n3, hat2, hnum2]; simp [hR.alen]; omega
            · rw [t3, n3, hty2, hnum2]; simp [hR.tlen]; omega
            · rw [l3, n3, hnum2]; have := hR.last; omega
            · rw [l3, t3, hty2]; exact getElem?_append_left' _ _ _ _ hR.lty
          have hC3 : CycRel st3.cycles tbl2 := by rw [c3]; exact a2.cyc
          have hT3 : TypesOK st3 tbl2 := by intro o ho; rw [t3]; exact a2.tys o ho
          have h3' : denoteKR aromB (·.2) st3.lastNum pa st3.atomNum tbl2 k = some (as2, bs2, tbl3) := by
            rw [l3, n3, hnum2]; exact h3
          obtain ⟨st4, e4, a4, hl4⟩ := prun_printKR k st3 pa tbl2 as2 bs2 tbl3 hR3 hI3 (by rw [o3]; exact a2.opened) hC3 hT3 h3'
          refine ⟨st4, ?_, ?_, hl4⟩
          · have : toToksB (printKR (·.2) (.side l a inner k)) =
                [Tok.lpar] ++ (toToksB (printLink l ++ printAtomR (·.2) a) ++ (toToksB (printKR (·.2) inner) ++
                  ([Tok.rpar] ++ toToksB (printKR (·.2) k)))) := by
              simp [printKR, toToksB, symTokB]
            rw [this, prun_append, e0]
            dsimp only
            rw [prun_append, e1]
            dsimp only
            rw [prun_append, e2]
            dsimp only
            rw [prun_append, e3]
            exact e4
          · exact ⟨by rw [a4.atoms, a3, hat2]; simp, by rw [a4.types, t3, hty2]; simp,
              by rw [a4.bonds, b3, a12.bonds, b0]; simp [l0, n0],
              by rw [a4.num, n3, hnum2]; simp; omega, by rw [a4.stack, s3], a4.prev, a4.opened, a4.cyc, a4.inv, a4.tys⟩

/-- **the parser builds exactly the denoted graph, ring closures included** (default `strong_cycle = False`) -/
theorem parse_printR (c : Chain B) (g : Graph B) (hd : denoteR aromB (·.2) c = some g) :
    ∃ st, parse false (toToksB (printR (·.2) c)) = .ok st ∧
      st.atoms = g.atoms.map (fun b => strip b.1) ∧ st.types = g.atoms.map (fun b => tyOf b.1) ∧ st.bonds = g.bonds := by
  obtain ⟨a0, k⟩ := c
  unfold denoteR at hd
  dsimp only at hd
  cases h0 : ringAll aromB 0 a0 [] a0.2 with
  | none => rw [h0] at hd; cases hd
  | some p0 =>
    obtain ⟨tbl0, rb0⟩ := p0
    rw [h0] at hd
    dsimp only at hd
    cases h1 : denoteKR aromB (·.2) 0 a0 1 tbl0 k with
    | none => rw [h1] at hd; cases hd
    | some p1 =>
      obtain ⟨as, bs, tbl⟩ := p1
      rw [h1] at hd
      dsimp only at hd
      by_cases hemp : tbl.isEmpty = true
      case neg => rw [if_neg hemp] at hd; cases hd
      rw [if_pos hemp] at hd
      cases hd
      have htbl : tbl = [] := by cases tbl with
        | nil => rfl
        | cons _ _ => simp at hemp
      -- first atom
      obtain ⟨st1, hst1⟩ : ∃ st1 : PState, pstep false {} (Tok.atom (tyOf a0.1) a0.1.2) = .ok st1 ∧
          st1.atoms = [strip a0.1] ∧ st1.types = [tyOf a0.1] ∧ st1.bonds = [] ∧ st1.atomNum = 1 ∧ st1.lastNum = 0 ∧
          st1.stack = [] ∧ st1.cycles = [] ∧ st1.previous = none ∧ st1.opened = false :=
        ⟨_, rfl, rfl, rfl, rfl, rfl, rfl, rfl, rfl, rfl, rfl⟩
      obtain ⟨e1, a1, t1, b1, n1, l1, s1, c1, p1, o1⟩ := hst1
      have hI1 : PInv st1 := by
        obtain ⟨st1', h1', hinv⟩ := first_atom_inv false (tyOf a0.1) a0.1.2 [] false (by simp)
        have : st1' = st1 := by
          have e1' : pstep false { stack := [], opened := false } (Tok.atom (tyOf a0.1) a0.1.2) = .ok st1 := e1
          rw [h1'] at e1'; cases e1'; rfl
        rw [← this]; exact hinv
      have hR1 : Ready st1 a0.1 := ⟨p1, by rw [a1, n1]; rfl, by rw [t1, n1]; rfl, by rw [l1, n1]; exact Nat.one_pos,
        by rw [l1, t1]; rfl⟩
      have hC1 : CycRel st1.cycles ([] : List (OpenRing B)) := by rw [c1]; trivial
      have hT1 : TypesOK st1 [] := by intro o ho; cases ho
      have h0' : ringAll aromB st1.lastNum a0 [] a0.2 = some (tbl0, rb0) := by rw [l1]; exact h0
      obtain ⟨stR, eR, gb, ga, gt, gn, gl, gs, gp, go, gc, gi, gT⟩ :=
        ring_all_run a0.2 st1 a0 [] tbl0 rb0 hR1 hI1 o1 hC1 hT1 h0'
      have hRR : Ready stR a0.1 := ⟨gp, by rw [ga, gn]; exact hR1.alen, by rw [gt, gn]; exact hR1.tlen,
        by rw [gl, gn]; exact hR1.last, by rw [gl, gt]; exact hR1.lty⟩
      have h1' : denoteKR aromB (·.2) stR.lastNum a0 stR.atomNum tbl0 k = some (as, bs, tbl) := by
        rw [gl, gn, l1, n1]; exact h1
      obtain ⟨st2, e2, a2, _⟩ := prun_printKR k stR a0 tbl0 as bs tbl hRR gi go gc gT h1'
      have hcyc : st2.cycles = [] := by
        have := a2.cyc
        rw [htbl] at this
        exact cycRel_nil_right _ this
      refine ⟨st2, ?_, ?_, ?_, ?_⟩
      · have hrun : prun false {} (toToksB (printR (·.2) ⟨a0, k⟩)) = .ok st2 := by
          have : toToksB (printR (·.2) ⟨a0, k⟩) =
              [Tok.atom (tyOf a0.1) a0.1.2] ++ (toToks (printRings a0.2) ++ toToksB (printKR (·.2) k)) := by
            have h2 := toToksB_printRings a0.2
            simp only [toToksB, toToks] at h2
            simp [printR, printAtomR, toToksB, toToks, symTokB, h2]
          rw [this, prun_append]
          have : prun false {} [Tok.atom (tyOf a0.1) a0.1.2] = .ok st1 := by simp only [prun, e1]
          rw [this]
          dsimp only
          rw [prun_append, eR]
          exact e2
        unfold parse
        have hstart : startCheck (toToksB (printR (·.2) ⟨a0, k⟩)) = .ok () := by
          simp [printR, printAtomR, toToksB, symTokB, startCheck, Tok.isAtom]
        rw [hstart]
        dsimp only
        rw [hrun]
        simp [endCheck, a2.stack, gs, s1, hcyc, a2.prev]
      · rw [a2.atoms, ga, a1]; simp
      · rw [a2.types, gt, t1]; simp
      · rw [a2.bonds, gb, b1]; simp

end ChythonModel.Proofs.C03
