import ChythonModel.Model.BitLayout
import Mathlib.Data.List.Nodup
namespace ChythonModel.Proofs.C09
open ChythonModel.Model.Bits ChythonModel.Model

/-- the search both matchers perform, with the bookkeeping (matched array / mapping dicts) recomputed from the path:
    `cands d path'` = candidates for depth `d + 1` once `path'` (length `d + 1`) is fixed, in adjacency order;
    `yld path d n` = the dict yielded when `(n, d)` is popped at the last depth -/
structure GenEnv where
  size : Nat
  cands : Nat → List Nat → Option (List Nat)
  yld : List Nat → Nat → Nat → Option Iso.Dict

def runG (E : GenEnv) : Nat → List (Nat × Nat) → List Nat → List Iso.Dict → Option (List Iso.Dict)
  | 0, _, _, _ => none
  | _+1, [], _, acc => some acc.reverse
  | fuel+1, (n, d) :: stack, path, acc =>
    if d == E.size then
      match E.yld path d n with
      | none => none
      | some mp => runG E fuel stack path (mp :: acc)
    else
      match E.cands d (path.take d ++ [n]) with
      | none => none
      | some cs => runG E fuel (cs.reverse.map (·, d + 1) ++ stack) (path.take d ++ [n]) acc

/-- indicator array of a path -/
def ind (N : Nat) (path : List Nat) : List Bool := (List.range N).map fun i => path.contains i

theorem ind_length (N : Nat) (p : List Nat) : (ind N p).length = N := by simp [ind]

theorem ind_get (N : Nat) (p : List Nat) (i : Nat) (h : i < N) : (ind N p)[i]? = some (p.contains i) := by
  simp [ind, h]

theorem set_ind (N : Nat) (p : List Nat) (n : Nat) : (ind N p).set n true = ind N (p ++ [n]) := by
  apply List.ext_getElem?
  intro i
  by_cases hi : i < N
  · rw [List.getElem?_set, ind_get _ _ _ hi, ind_get _ _ _ hi, ind_length]
    by_cases hn : n = i
    · subst hn; simp [hi]
    · simp only [hn, if_false, List.contains_eq_mem, List.mem_append, List.mem_singleton, Option.some.injEq, decide_eq_decide]
      constructor
      · intro h; exact Or.inl h
      · rintro (h | h)
        · exact h
        · exact absurd h.symm hn
  · have h1 : (ind N (p ++ [n])).length ≤ i := by rw [ind_length]; omega
    have h2 : ((ind N p).set n true).length ≤ i := by rw [List.length_set, ind_length]; omega
    rw [List.getElem?_eq_none h1, List.getElem?_eq_none h2]

theorem unmark_length (xs : List Nat) (l : List Bool) : (unmark xs l).length = l.length := by
  induction xs generalizing l with
  | nil => rfl
  | cons x xs ih => simp [unmark, ih]

theorem unmark_get (xs : List Nat) (l : List Bool) (i : Nat) :
    (unmark xs l)[i]? = if xs.contains i then l[i]?.map (fun _ => false) else l[i]? := by
  induction xs generalizing l with
  | nil => simp [unmark]
  | cons x xs ih =>
    simp only [unmark, ih, List.contains_cons]
    by_cases hx : x = i
    · subst hx
      by_cases hl : x < l.length
      · simp [List.getElem?_set, hl]
      · have : l.length ≤ x := by omega
        simp [List.getElem?_set, List.getElem?_eq_none this]
        exact this
    · have : (i == x) = false := by simp [Ne.symm hx]
      simp [List.getElem?_set, hx, this]

theorem unmark_ind (N : Nat) (xs p : List Nat) (hnd : (p ++ xs).Nodup) : unmark xs (ind N (p ++ xs)) = ind N p := by
  apply List.ext_getElem?
  intro i
  rw [unmark_get]
  by_cases hi : i < N
  · rw [ind_get _ _ _ hi, ind_get _ _ _ hi]
    by_cases hx : i ∈ xs
    · have hp : i ∉ p := fun h => (List.nodup_append.mp hnd).2.2 i h i hx rfl
      simp [hx, hp]
    · simp [hx]
  · have h1 : (ind N (p ++ xs)).length ≤ i := by rw [ind_length]; omega
    have h2 : (ind N p).length ≤ i := by rw [ind_length]; omega
    rw [List.getElem?_eq_none h1, List.getElem?_eq_none h2]; simp


/-! ## the compiled matcher as an instance of the generic search -/

def candsOfC (cm : CMol) (cq : CQuery) (scope : List Bool) (d : Nat) (path' : List Nat) : Option (List Nat) :=
  match path'.getLast? with
  | none => none
  | some n =>
    if n ≥ cm.atoms.length then none
    else expandC cm cq scope d n path' (ind cm.atoms.length path')

def envC (cm : CMol) (cq : CQuery) (scope : List Bool) : GenEnv :=
  { size := cq.atoms.length - 1, cands := candsOfC cm cq scope, yld := fun path d n => buildMapping cm cq path d n }

/-- bookkeeping invariant of the depth-first stack: the path is injective, every waiting entry `(n, d)` hangs below the first `d`
    atoms of the current path and is not one of them, and deeper entries are on top -/
structure InvS (stack : List (Nat × Nat)) (path : List Nat) : Prop where
  nodup : path.Nodup
  entries : ∀ e ∈ stack, e.2 ≤ path.length ∧ e.1 ∉ path.take e.2
  sorted : stack.Pairwise (fun a b => b.2 ≤ a.2)

theorem candidatesC_fresh (cm : CMol) (cq : CQuery) (scope : List Bool) (qa : CQAtom) (n : Nat) (matched : List Bool) (path : List Nat)
    (row : List CBond) (cs : List Nat) (h : candidatesC cm cq scope qa n matched path row = some cs) :
    ∀ c ∈ cs, matched[c]? = some false := by
  induction row generalizing cs with
  | nil => simp [candidatesC] at h; subst h; intro c hc; simp at hc
  | cons ib rest ih =>
    simp only [candidatesC, Option.bind_eq_bind, Option.pure_def, bind, pure] at h
    cases htl : candidatesC cm cq scope qa n matched path rest with
    | none => rw [htl] at h; simp at h
    | some tl =>
      rw [htl] at h
      simp only [Option.bind_some] at h
      cases ha : cm.atoms[ib.index]? with
      | none => rw [ha] at h; simp at h
      | some mAtom =>
        cases hs : scope[ib.index]? with
        | none => rw [ha, hs] at h; simp at h
        | some sc =>
          cases hm : matched[ib.index]? with
          | none => rw [ha, hs, hm] at h; simp at h
          | some mt =>
            rw [ha, hs, hm] at h
            simp only [Option.bind_some] at h
            by_cases hc : (sc && !mt && nextOk qa ib.bond mAtom) = true
            · simp only [hc, if_true] at h
              cases hcl : closureC cm cq qa mAtom n matched path with
              | none => rw [hcl] at h; simp at h
              | some b =>
                rw [hcl] at h
                simp only [Option.bind_some] at h
                cases b
                · simp only [Bool.false_eq_true, if_false, Option.some.injEq] at h
                  subst h; exact ih tl htl
                · simp only [if_true, Option.some.injEq] at h
                  subst h
                  intro c hc'
                  simp only [List.mem_cons] at hc'
                  rcases hc' with rfl | hc'
                  · have : mt = false := by
                      simp only [Bool.and_eq_true, Bool.not_eq_true'] at hc; exact hc.1.2
                    rw [hm, this]
                  · exact ih tl htl c hc'
            · have hc' : (sc && !mt && nextOk qa ib.bond mAtom) = false := by simpa using hc
              simp only [hc', Bool.false_eq_true, if_false, Option.some.injEq] at h
              subst h; exact ih tl htl


theorem take_append_take (path : List Nat) (d k : Nat) (n : Nat) (h : k ≤ d) (hd : d ≤ path.length) :
    (path.take d ++ [n]).take k = path.take k := by
  rw [List.take_append_of_le_length (by simp [List.length_take]; omega), List.take_take]
  congr 1; omega

/-- the invariant survives one expansion step -/
theorem InvS.step {n d : Nat} {stack : List (Nat × Nat)} {path cs : List Nat} (h : InvS ((n, d) :: stack) path)
    (hcs : ∀ c ∈ cs, c ∉ path.take d ++ [n]) :
    InvS (cs.reverse.map (·, d + 1) ++ stack) (path.take d ++ [n]) := by
  have hnd := h.entries (n, d) (by simp)
  have hsorted := List.pairwise_cons.mp h.sorted
  constructor
  · rw [List.nodup_append]
    refine ⟨(h.nodup.sublist (List.take_sublist _ _)), by simp, ?_⟩
    intro a ha b hb
    simp only [List.mem_singleton] at hb; subst hb
    intro hab; subst hab; exact hnd.2 ha
  · intro e he
    rw [List.mem_append] at he
    have hd' : d ≤ path.length := hnd.1
    have hlen : (path.take d ++ [n]).length = d + 1 := by simp [List.length_take]; omega
    rcases he with he | he
    · simp only [List.mem_map, List.mem_reverse] at he
      obtain ⟨c, hc, rfl⟩ := he
      refine ⟨by simp only [hlen]; omega, ?_⟩
      simp only
      rw [List.take_of_length_le (by omega)]
      exact hcs c hc
    · have hle := hsorted.1 e he
      have hent := h.entries e (by simp [he])
      refine ⟨by rw [hlen]; simp only at hle; omega, ?_⟩
      rw [take_append_take path d e.2 n hle hnd.1]
      exact hent.2
  · rw [List.pairwise_append]
    refine ⟨?_, hsorted.2, ?_⟩
    · rw [List.pairwise_map]
      exact List.Pairwise.imp (fun _ => Nat.le_refl _) (List.pairwise_of_forall (by intros; trivial) : List.Pairwise (fun _ _ => True) _)
    · intro a ha b hb
      simp only [List.mem_map, List.mem_reverse] at ha
      obtain ⟨c, _, rfl⟩ := ha
      have := hsorted.1 b hb
      simp only at this ⊢; omega

theorem InvS.pop {e : Nat × Nat} {stack : List (Nat × Nat)} {path : List Nat} (h : InvS (e :: stack) path) : InvS stack path :=
  ⟨h.nodup, fun x hx => h.entries x (by simp [hx]), (List.pairwise_cons.mp h.sorted).2⟩


theorem mem_of_ind_false (N : Nat) (p : List Nat) (c : Nat) (h : (ind N p)[c]? = some false) : c ∉ p := by
  by_cases hc : c < N
  · rw [ind_get _ _ _ hc] at h
    simp only [Option.some.injEq, List.contains_eq_mem, decide_eq_false_iff_not] at h
    exact h
  · have : (ind N p).length ≤ c := by rw [ind_length]; omega
    rw [List.getElem?_eq_none this] at h; simp at h

theorem expandC_fresh (cm : CMol) (cq : CQuery) (scope : List Bool) (d n : Nat) (path : List Nat) (matched : List Bool) (cs : List Nat)
    (h : expandC cm cq scope d n path matched = some cs) : ∀ c ∈ cs, matched[c]? = some false := by
  unfold expandC at h
  split at h
  · simp at h
  · split at h
    · simp at h
    · split at h
      · simp at h
      · split at h
        · simp at h
        · exact candidatesC_fresh _ _ _ _ _ _ _ _ _ h

/-- **Lemma A**: the loop of `_isomorphism.pyx` with its `matched` array is the generic search (the array is the indicator of the path) -/
theorem runLoopC_eq_runG (cm : CMol) (cq : CQuery) (scope : List Bool) (fuel : Nat) (stack : List (Nat × Nat)) (path : List Nat)
    (acc : List Iso.Dict) (hinv : InvS stack path) :
    runLoopC cm cq scope (cq.atoms.length - 1) fuel stack path (ind cm.atoms.length path) acc =
      runG (envC cm cq scope) fuel stack path acc := by
  induction fuel generalizing stack path acc with
  | zero => rfl
  | succ fuel ih =>
    cases stack with
    | nil => rfl
    | cons e stack =>
      obtain ⟨n, d⟩ := e
      have hent := hinv.entries (n, d) (by simp)
      have hd : d ≤ path.length := hent.1
      by_cases hsz : d = cq.atoms.length - 1
      · subst hsz
        simp only [runLoopC, runG, envC, beq_self_eq_true, if_true, Option.bind_eq_bind, bind]
        cases hb : buildMapping cm cq path (cq.atoms.length - 1) n with
        | none => simp
        | some mp => simp only [Option.bind_some]; exact ih stack path (mp :: acc) hinv.pop
      · have hne : (d == cq.atoms.length - 1) = false := by simp [hsz]
        have hsplit : path = path.take d ++ path.drop d := (List.take_append_drop d path).symm
        have hm1 : (if path.length != d then unmark (path.drop d) (ind cm.atoms.length path) else ind cm.atoms.length path) =
            ind cm.atoms.length (path.take d) := by
          have : unmark (path.drop d) (ind cm.atoms.length path) = ind cm.atoms.length (path.take d) := by
            have h := unmark_ind cm.atoms.length (path.drop d) (path.take d) (by rw [List.take_append_drop]; exact hinv.nodup)
            rwa [List.take_append_drop] at h
          by_cases hl : path.length = d
          · have h2 : path.take d = path := List.take_of_length_le (by omega)
            have h3 : (path.length != d) = false := by simp [hl]
            rw [h3, h2]; rfl
          · have : (path.length != d) = true := by simp [hl]
            simp only [this, if_true]; assumption
        simp only [runLoopC, runG, hne, Bool.false_eq_true, if_false, Option.bind_eq_bind, bind, hm1, ind_length, envC]
        unfold candsOfC
        simp only [List.getLast?_append, List.getLast?_singleton, Option.some_or]
        by_cases hn : n ≥ cm.atoms.length
        · simp [hn]
        · simp only [hn, if_false, set_ind]
          cases hc : expandC cm cq scope d n (path.take d ++ [n]) (ind cm.atoms.length (path.take d ++ [n])) with
          | none => simp
          | some cs =>
            simp only [Option.bind_some]
            have hfresh : ∀ c ∈ cs, c ∉ path.take d ++ [n] := fun c hc' =>
              mem_of_ind_false _ _ _ (expandC_fresh _ _ _ _ _ _ _ _ hc c hc')
            exact ih _ _ acc (hinv.step hfresh)

end ChythonModel.Proofs.C09
