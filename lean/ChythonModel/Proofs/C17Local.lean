import ChythonModel.Proofs.C17Morgan
/-! C17: locality of the Morgan identifiers — the radius-`r` identifier of an atom is a function of its `r`-ball. -/
namespace ChythonModel.Proofs.C17
open ChythonModel.Model ChythonModel.Model.Fingerprint ChythonModel.Spec.Fingerprint

/-- two molecules agree on the `r`-ball of atom `x`: the atom itself carries the same data in both; and, when `r > 0`, `x`
    has the same neighbour dict (same neighbours, same bonds, same insertion order) in both and the molecules agree on the
    `(r-1)`-ball of every neighbour. Nothing is required of atoms farther than `r` bonds from `x`, nor of the bonds between
    two atoms at distance exactly `r`. -/
def AgreeBall (m m' : Mol) : Nat → Nat → Prop
  | 0, x => m.atom? x = m'.atom? x
  | r + 1, x => m.atom? x = m'.atom? x ∧ m.nbrs x = m'.nbrs x ∧ ∀ kb ∈ m.nbrs x, AgreeBall m m' r kb.1

instance AgreeBall.dec (m m' : Mol) : ∀ (r x : Nat), Decidable (AgreeBall m m' r x)
  | 0, x => inferInstanceAs (Decidable (m.atom? x = m'.atom? x))
  | r + 1, x =>
    have : ∀ y, Decidable (AgreeBall m m' r y) := fun y => AgreeBall.dec m m' r y
    inferInstanceAs (Decidable (m.atom? x = m'.atom? x ∧ m.nbrs x = m'.nbrs x ∧ ∀ kb ∈ m.nbrs x, AgreeBall m m' r kb.1))

theorem AgreeBall.mono {m m' : Mol} : ∀ (r : Nat) (x : Nat), AgreeBall m m' (r + 1) x → AgreeBall m m' r x
  | 0, _, h => h.1
  | r + 1, _, h => ⟨h.1, h.2.1, fun kb hk => AgreeBall.mono r kb.1 (h.2.2 kb hk)⟩

theorem AgreeBall.atom {m m' : Mol} : ∀ (r : Nat) (x : Nat), AgreeBall m m' r x → m.atom? x = m'.atom? x
  | 0, _, h => h
  | _ + 1, _, h => h.1

theorem AgreeBall.refl (m : Mol) : ∀ (r : Nat) (x : Nat), AgreeBall m m r x
  | 0, _ => rfl
  | r + 1, _ => ⟨rfl, rfl, fun kb _ => AgreeBall.refl m r kb.1⟩

theorem ecIdent_local (H : TupleHash) (m m' : Mol) :
    ∀ (r : Nat) (x : Nat), AgreeBall m m' r x → ecIdent H m r x = ecIdent H m' r x
  | 0, x, h => by
    show identOf H m x = identOf H m' x
    unfold identOf; rw [show m.atom? x = m'.atom? x from h]
  | r + 1, x, h => by
    show ecStep H m (ecIdent H m r) x = ecStep H m' (ecIdent H m' r) x
    unfold ecStep
    rw [ecIdent_local H m m' r x (AgreeBall.mono r x h), ← h.2.1]
    congr 4
    apply List.map_congr_left
    intro kb hk
    rw [ecIdent_local H m m' r kb.1 (h.2.2 kb hk)]

/-- the same in graph terms (Spec vocabulary): along every walk of `m` that starts at `x` and uses at most `r` bonds, the
    atom reached carries the same data in both molecules, and — unless the walk already used all `r` bonds — has the same
    neighbour dict in both. -/
def BallAgree (m m' : Mol) (r x : Nat) : Prop :=
  ∀ p : List Nat, Walk m (x :: p) → p.length ≤ r →
    m.atom? ((x :: p).getLast (List.cons_ne_nil _ _)) = m'.atom? ((x :: p).getLast (List.cons_ne_nil _ _)) ∧
    (p.length < r → m.nbrs ((x :: p).getLast (List.cons_ne_nil _ _)) = m'.nbrs ((x :: p).getLast (List.cons_ne_nil _ _)))

theorem agreeBall_of_ballAgree {m m' : Mol} : ∀ (r x : Nat), BallAgree m m' r x → AgreeBall m m' r x
  | 0, x, h => by
    have := (h [] trivial (Nat.le_refl 0)).1
    show m.atom? x = m'.atom? x
    simpa using this
  | r + 1, x, h => by
    have h0 := h [] trivial (Nat.zero_le _)
    simp only [List.getLast_singleton, List.length_nil] at h0
    refine ⟨h0.1, h0.2 (Nat.succ_pos r), fun kb hk => agreeBall_of_ballAgree r kb.1 ?_⟩
    intro p hw hl
    have hadj : Adj m x kb.1 := List.mem_map.mpr ⟨kb, hk, rfl⟩
    have hw' : Walk m (x :: kb.1 :: p) := ⟨hadj, hw⟩
    have := h (kb.1 :: p) hw' (by simp; omega)
    rw [List.getLast_cons_cons] at this
    exact ⟨this.1, fun hlt => this.2 (by simp; omega)⟩

end ChythonModel.Proofs.C17
