import ChythonModel.Proofs.C09Component
import ChythonModel.Proofs.C07Compile
namespace ChythonModel.Proofs.C09
open ChythonModel.Model.Bits ChythonModel.Gen.Bits ChythonModel.Model.Query ChythonModel.Model

theorem mappersWith_congr {κ1 κ2} (f : κ1 → List Nat → Option (List Iso.Dict)) (g : κ2 → List Nat → Option (List Iso.Dict))
    (scope : Option (List Nat)) :
    ∀ (ks1 : List κ1) (ks2 : List κ2), List.Forall₂ (fun a b => ∀ cand, f a cand = g b cand) ks1 ks2 →
      ∀ cands, mappersWith f scope ks1 cands = mappersWith g scope ks2 cands := by
  intro ks1 ks2 h
  induction h with
  | nil => intro cands; cases cands <;> rfl
  | cons hab _ ih =>
    intro cands
    cases cands with
    | nil => rfl
    | cons c cs =>
      simp only [mappersWith, hab, ih]

theorem isoWith_congr {κ1 κ2} (f : κ1 → List Nat → Option (List Iso.Dict)) (g : κ2 → List Nat → Option (List Iso.Dict))
    (tComps : List (List Nat)) (scope : Option (List Nat)) (ks1 : List κ1) (ks2 : List κ2)
    (h : List.Forall₂ (fun a b => ∀ cand, f a cand = g b cand) ks1 ks2) :
    isoWith f tComps scope ks1 = isoWith g tComps scope ks2 := by
  have hlen := h.length_eq
  cases h with
  | nil => simp only [isoWith, mappersWith_congr f g scope [] [] List.Forall₂.nil]; rfl
  | cons hab hrest =>
    cases hrest with
    | nil =>
      simp only [isoWith, hab]
    | cons hab2 hrest2 =>
      have hh := List.Forall₂.cons hab (List.Forall₂.cons hab2 hrest2)
      unfold isoWith
      simp only [mappersWith_congr f g scope _ _ hh, List.length_cons, hrest2.length_eq]


theorem permutations_length {α} (l : List α) (r : Nat) : ∀ x ∈ Iso.permutations l r, x.length = r := by
  induction r generalizing l with
  | zero => intro x hx; simp [Iso.permutations] at hx; subst hx; rfl
  | succ r ih =>
    intro x hx
    simp only [Iso.permutations, List.mem_flatMap, List.mem_map] at hx
    obtain ⟨p, _, y, hy, rfl⟩ := hx
    simp [ih p.2 y hy]

theorem foldlM_skip {α β} (l : List α) (f : β → α → Option β) (b : β) (h : ∀ a ∈ l, ∀ acc, f acc a = some acc) :
    l.foldlM f b = some b := by
  induction l generalizing b with
  | nil => rfl
  | cons a l ih =>
    rw [List.foldlM_cons, h a (by simp) b]
    simp only [Option.bind_eq_bind, Option.bind_some]
    exact ih b (fun x hx => h x (by simp [hx]))

/-- when no candidate survives the scope restriction the mapper is never called and nothing is yielded -/
theorem isoWith_not_needed {κ} (f : κ → List Nat → Option (List Iso.Dict)) (tComps : List (List Nat)) (scope : Option (List Nat))
    (ks : List κ) (hne : ks ≠ [])
    (h : neededC tComps scope ks.length = false) :
    isoWith f tComps scope ks = some [] := by
  cases ks with
  | nil => exact absurd rfl hne
  | cons k ks' =>
    cases ks' with
    | nil =>
      simp only [neededC, List.length_singleton, beq_self_eq_true, if_true] at h
      rw [List.any_eq_false] at h
      unfold isoWith
      apply foldlM_skip
      intro c hc acc
      have := h c hc
      simp only [survives, Bool.not_eq_true, Bool.not_eq_false'] at this
      simp only [this, if_true]
    | cons k2 ks'' =>
      have hl : ((k :: k2 :: ks'').length == 1) = false := by simp
      simp only [neededC, hl, Bool.false_eq_true, if_false] at h
      rw [List.any_eq_false] at h
      unfold isoWith
      apply foldlM_skip
      intro cands hc acc
      have hlen := permutations_length tComps _ cands hc
      cases cands with
      | nil => simp at hlen
      | cons c cs =>
        have := h (c :: cs) hc
        simp only [survives, Bool.not_eq_true, Bool.not_eq_false'] at this
        simp only [mappersWith, this, if_true, Option.bind_eq_bind, Option.bind_some, bind, pure]


theorem mapM_except_forall2 {ε α β} (f : α → Except ε β) : ∀ (l : List α) (r : List β), l.mapM f = .ok r →
    List.Forall₂ (fun y x => f x = .ok y) r l := by
  intro l
  induction l with
  | nil => intro r h; simp [List.mapM_nil, pure, Except.pure] at h; subst h; exact List.Forall₂.nil
  | cons a l ih =>
    intro r h
    rw [List.mapM_cons] at h
    cases hfa : f a with
    | error e => simp [hfa, bind, Except.bind] at h
    | ok b =>
      cases hl : l.mapM f with
      | error e => simp [hfa, hl, bind, Except.bind] at h
      | ok r' =>
        simp [hfa, hl, bind, Except.bind, pure, Except.pure] at h
        subst h
        exact List.Forall₂.cons hfa (ih r' hl)

theorem forall2_imp_mem {α β} {R S : α → β → Prop} {l1 : List α} {l2 : List β} (h : List.Forall₂ R l1 l2)
    (himp : ∀ a b, b ∈ l2 → R a b → S a b) : List.Forall₂ S l1 l2 := by
  induction h with
  | nil => exact List.Forall₂.nil
  | cons hab _ ih => exact List.Forall₂.cons (himp _ _ (by simp) hab) (ih (fun a b hb => himp a b (by simp [hb])))

/-- the static inputs of the reference call -/
def pyProblem (q : LQuery) (m : LMol) (tComps : List (List Nat)) (scope : Option (List Nat)) (autoF : Bool) : Iso.Problem :=
  { q := q.graph, t := m.graph, tComps := tComps, scope := scope, autoFilter := autoF, atomOk := atomOkPy q m, bondOk := bondOkPy q m }

theorem pythonPath_eq (q : LQuery) (m : LMol) (tComps : List (List Nat)) (scope : Option (List Nat)) (autoF : Bool) :
    pythonPath q m tComps scope autoF =
      match Iso.isoGetMapping (pyProblem q m tComps scope autoF) with
      | none => .crash
      | some r => .ok r := rfl

/-- **end to end, given that compiling the query and the structure did not raise**: the accelerated path returns exactly what the
    reference path returns (same mappings, same order, same automorphism filtering) -/
theorem cythonPath_eq_pythonPath (q : LQuery) (m : LMol) (tComps : List (List Nat)) (scope : Option (List Nat)) (autoF : Bool)
    (hm : MolOK m) (hq : QueryOK q) (hqwf : q.graph.WF = true) (hqne : q.atoms ≠ [])
    (hpairs : ∀ p ∈ q.atoms, ∀ r ∈ m.atoms, NoHeavyClash p.2 r.2 ∧ HKnown p.2 r.2)
    (comps : List (List Iso.Step)) (cl : Iso.Closures) (hcq : Iso.compileQuery q.graph = some (comps, cl))
    (hcl : (cl.map (·.1)).Nodup)
    (cqs : List CQuery) (henq : encQuery q comps cl = .ok cqs) (cm : CMol) (hems : encStructure m = .ok cm) :
    cythonPath q m tComps scope autoF = pythonPath q m tComps scope autoF := by
  have hCO := ChythonModel.Proofs.C07.compile_ok q.graph hqwf comps cl hcq
  -- pointwise equal mappers
  have hF2 : List.Forall₂ (fun (cq : CQuery) (lq : List Iso.Step) => ∀ cand,
      getMappingC cm cq (scopeArray m cand) =
        Iso.getMapping (Iso.mkEnv (pyProblem q m tComps scope autoF) cl lq cand)) cqs comps := by
    have h0 := mapM_except_forall2 (encComponent q cl) comps cqs henq
    refine forall2_imp_mem h0 ?_
    intro cq lq hlq henc cand
    have c : Ctx q m cl lq cm cq :=
      ⟨hm, hq, hems, henc, ChythonModel.Proofs.C07.CompiledOK.comp_nodup hCO hlq, hcl, hCO.comp lq hlq⟩
    exact getMappingC_eq_python c cand hpairs
  have hcomps_ne : comps ≠ [] := by
    intro h
    obtain ⟨p, hp⟩ := List.exists_mem_of_ne_nil _ hqne
    have := hCO.cover p.1 (by simp only [LQuery.graph]; exact List.mem_map.mpr ⟨p, hp, rfl⟩)
    rw [h] at this; simp at this
  have hcqs_ne : cqs ≠ [] := by
    intro h; rw [h] at hF2; cases hF2; exact hcomps_ne rfl
  have hiso : isoWith (fun cq cand => getMappingC cm cq (scopeArray m cand)) tComps scope cqs =
      Iso.isoUnfiltered (pyProblem q m tComps scope autoF) comps cl := by
    rw [← isoWith_python]
    exact isoWith_congr _ _ tComps scope cqs comps hF2
  rw [pythonPath_eq]
  unfold cythonPath cythonPathWith Iso.isoGetMapping
  have hpq : (pyProblem q m tComps scope autoF).q = q.graph := rfl
  have hpa : (pyProblem q m tComps scope autoF).autoFilter = autoF := rfl
  simp only [hpq, hpa, hcq, henq, Option.bind_eq_bind, Option.bind_some, hems]
  cases hneeded : neededC tComps scope cqs.length
  · simp only [Bool.not_false, if_true]
    have h0 := isoWith_not_needed (fun cq cand => getMappingC cm cq (scopeArray m cand)) tComps scope cqs hcqs_ne hneeded
    rw [hiso] at h0
    rw [h0]
    cases autoF <;> rfl
  · simp only [Bool.not_true, Bool.false_eq_true, if_false, hiso]
    cases Iso.isoUnfiltered (pyProblem q m tComps scope autoF) comps cl <;> rfl

end ChythonModel.Proofs.C09
