import ChythonModel.Proofs.C01RenameFullDefs
/-!
Exact naturality of the cis/trans and allene blocks of `__differentiation`, of `diffFull` and (given the naturality of the
tables, `C01RenameCum.lean`) of `chiralFull` under a pure renaming of the atoms.
-/
namespace ChythonModel.Proofs.C01
open ChythonModel.Model ChythonModel.Model.Morgan ChythonModel.Model.Stereo ChythonModel.Model.ChiralMorgan
open ChythonModel.Model.ChiralFull ChythonModel.Spec.Renumbering
open List

/-! ## generic -/

theorem lookup_map_inj {κ κ' ν ν' : Type} [BEq κ] [LawfulBEq κ] [BEq κ'] [LawfulBEq κ'] (f : κ → κ')
    (hf : Function.Injective f) (g : ν → ν') (d : List (κ × ν)) (k : κ) :
    (d.map fun kv => (f kv.1, g kv.2)).lookup (f k) = (d.lookup k).map g := by
  induction d with
  | nil => rfl
  | cons kv d ih =>
    obtain ⟨k', v⟩ := kv
    simp only [map_cons, lookup_cons]
    by_cases hk : k = k'
    · subst hk; simp
    · have h1 : (f k == f k') = false := by simp; exact fun h => hk (hf h)
      have h2 : (k == k') = false := by simp [hk]
      simp only [h1, h2]; exact ih

theorem getKey_map_inj {κ κ' ν ν' : Type} [BEq κ] [LawfulBEq κ] [BEq κ'] [LawfulBEq κ'] (f : κ → κ')
    (hf : Function.Injective f) (g : ν → ν') (d : List (κ × ν)) (k : κ) :
    getKey (d.map fun kv => (f kv.1, g kv.2)) (f k) = (getKey d k).map g := by
  unfold getKey
  rw [lookup_map_inj f hf]
  cases d.lookup k <;> rfl

theorem renPair_injective {π : Nat → Nat} (hπ : Function.Injective π) : Function.Injective (renPair π) := by
  intro a b h
  simp only [renPair, Prod.mk.injEq] at h
  exact Prod.ext (hπ h.1) (hπ h.2)

theorem beq_rename {π : Nat → Nat} (hπ : Function.Injective π) (a b : Nat) : (π a == π b) = (a == b) := by
  rw [Bool.eq_iff_iff]; simp only [beq_iff_eq]; exact ⟨fun h => hπ h, fun h => h ▸ rfl⟩

theorem eq_rename {π : Nat → Nat} (hπ : Function.Injective π) (a b : Nat) : (π a = π b) ↔ (a = b) :=
  ⟨fun h => hπ h, fun h => h ▸ rfl⟩

/-! ## small pieces -/

theorem isHOf_rename {π : Nat → Nat} (hπ : Function.Injective π) (m : MolView) (x : Nat) :
    isHOf (renMol π m) (π x) = isHOf m x := by
  unfold isHOf
  have : (renMol π m).atoms.lookup (π x) = m.atoms.lookup x := lookup_mapKeys hπ m.atoms x
  rw [this]

theorem bondStereo_rename {π : Nat → Nat} (hπ : Function.Injective π) (m : MolView) (i j : Nat) :
    bondStereo (renMol π m) (π i) (π j) = bondStereo m i j := by
  unfold bondStereo
  have h1 : getKey (renMol π m).bonds (π i) = (getKey m.bonds i).map (mapKeys π) :=
    getKey_map_key hπ (mapKeys π) m.bonds i
  rw [h1]
  cases getKey m.bonds i with
  | error e => rfl
  | ok row =>
    simp only [Except.map]
    have h2 : getKey (mapKeys π row) (π j) = getKey row j := by
      unfold getKey; rw [lookup_mapKeys hπ]
    rw [h2]

theorem getOr0_rename {π : Nat → Nat} (hπ : Function.Injective π) (w : Weights) (o : Option Nat) :
    getOr0 (mapKeys π w) (o.map π) = getOr0 w o := by
  cases o with
  | none => rfl
  | some k => simp only [Option.map_some, getOr0]; rw [lookup_mapKeys hπ]

theorem endsDistinct_rename {π : Nat → Nat} (hπ : Function.Injective π) (w : Weights) (e : Ends) :
    endsDistinct (mapKeys π w) (renEnds π e) = endsDistinct w e := by
  unfold endsDistinct
  simp only [renEnds, mget_rename hπ, getOr0_rename hπ]

theorem pickMin_rename {π : Nat → Nat} (hπ : Function.Injective π) (w : Weights) (a : Nat) (o : Option Nat) :
    pickMin (mapKeys π w) (π a) (o.map π) = (pickMin w a o).map π := by
  cases o with
  | none => rfl
  | some b =>
    simp only [Option.map_some, pickMin, mget_rename hπ]
    cases mget w a with
    | error e => rfl
    | ok va =>
      cases mget w b with
      | error e => rfl
      | ok vb => simp only [Except.map]; split <;> rfl

/-! ## the C12 sign translation under renaming -/

theorem matchOpt_rename {π : Nat → Nat} (hπ : Function.Injective π) (isH isH' : Nat → Bool)
    (hH : ∀ x, isH' (π x) = isH x) (x : Nat) (o : Option Nat) :
    matchOpt (π x) (o.map π) isH' = matchOpt x o isH := by
  cases o with
  | none => exact hH x
  | some k => simp only [Option.map_some, matchOpt]; exact beq_rename hπ x k

theorem endsSlots_rename {π : Nat → Nat} (hπ : Function.Injective π) (isH isH' : Nat → Bool)
    (hH : ∀ x, isH' (π x) = isH x) (e : Ends) (nn nm : Nat) :
    endsSlots (renEnds π e) isH' (π nn) (π nm) = endsSlots e isH nn nm := by
  unfold endsSlots
  simp only [renEnds, eq_rename hπ, matchOpt_rename hπ isH isH' hH]

theorem translateEnds_rename {π : Nat → Nat} (hπ : Function.Injective π) (isH isH' : Nat → Bool)
    (hH : ∀ x, isH' (π x) = isH x) (e : Ends) (nn nm : Nat) (s : Bool) :
    translateEnds (renEnds π e) isH' (π nn) (π nm) s = translateEnds e isH nn nm s := by
  unfold translateEnds
  rw [endsSlots_rename hπ isH isH' hH]

theorem translateCisTrans_rename {π : Nat → Nat} (hπ : Function.Injective π) (isH isH' : Nat → Bool)
    (hH : ∀ x, isH' (π x) = isH x) (sct : List ((Nat × Nat) × Ends)) (n m nn nm : Nat) (stored s : Option Bool) :
    translateCisTrans (renSct π sct) isH' (π n) (π m) (π nn) (π nm) stored s =
      translateCisTrans sct isH n m nn nm stored s := by
  unfold translateCisTrans
  have h1 : (renSct π sct).lookup (π n, π m) = (sct.lookup (n, m)).map (renEnds π) :=
    lookup_map_inj (renPair π) (renPair_injective hπ) (renEnds π) sct (n, m)
  have h2 : getKey (renSct π sct) (π m, π n) = (getKey sct (m, n)).map (renEnds π) :=
    getKey_map_inj (renPair π) (renPair_injective hπ) (renEnds π) sct (m, n)
  rw [h1, h2]
  cases sct.lookup (n, m) with
  | some e =>
    simp only [Option.map_some, bind, Except.bind]
    cases pickSign stored s with
    | error er => rfl
    | ok b => exact translateEnds_rename hπ isH isH' hH e nn nm b
  | none =>
    simp only [Option.map_none, bind, Except.bind]
    cases getKey sct (m, n) with
    | error er => rfl
    | ok e =>
      simp only [Except.map]
      cases pickSign stored s with
      | error er => rfl
      | ok b => exact translateEnds_rename hπ isH isH' hH e nm nn b

theorem translateAllene_rename {π : Nat → Nat} (hπ : Function.Injective π) (isH isH' : Nat → Bool)
    (hH : ∀ x, isH' (π x) = isH x) (env? : Option Ends) (nn nm : Nat) (stored s : Option Bool) :
    translateAllene (env?.map (renEnds π)) isH' (π nn) (π nm) stored s = translateAllene env? isH nn nm stored s := by
  unfold translateAllene
  simp only [bind, Except.bind]
  cases pickSign stored s with
  | error er => rfl
  | ok b =>
    cases env? with
    | none => rfl
    | some e => exact translateEnds_rename hπ isH isH' hH e nn nm b

/-! ## members of the groups: keys, tests, signs -/

def renItem (π : Nat → Nat) (it : CTItem) : CTItem := (π it.1, renPair π it.2)

theorem ctKey_rename {π : Nat → Nat} (hπ : Function.Injective π) (w : Weights) (nm : Nat × Nat) :
    ctKey (mapKeys π w) (renPair π nm) = (ctKey w nm).map fun kv => (renItem π kv.1, kv.2) := by
  unfold ctKey
  simp only [renPair, mget_rename hπ]
  cases mget w nm.1 with
  | error e => rfl
  | ok mn =>
    cases mget w nm.2 with
    | error e => rfl
    | ok mm => simp only [Except.map]; split <;> rfl

theorem getKey_sct_rename {π : Nat → Nat} (hπ : Function.Injective π) (sct : List ((Nat × Nat) × Ends)) (nm : Nat × Nat) :
    getKey (renSct π sct) (renPair π nm) = (getKey sct nm).map (renEnds π) :=
  getKey_map_inj (renPair π) (renPair_injective hπ) (renEnds π) sct nm

theorem getKey_sal_rename {π : Nat → Nat} (hπ : Function.Injective π) (sal : List (Nat × Ends)) (c : Nat) :
    getKey (renSal π sal) (π c) = (getKey sal c).map (renEnds π) :=
  getKey_map_key hπ (renEnds π) sal c

theorem ctTest_rename {π : Nat → Nat} (hπ : Function.Injective π) (T : Tables) (w : Weights) (it : CTItem) :
    ctTest (renTables π T) (mapKeys π w) (renItem π it) = ctTest T w it := by
  unfold ctTest
  simp only [renTables, renItem, getKey_sct_rename hπ]
  cases getKey T.sct it.2 with
  | error e => rfl
  | ok e => simp only [Except.map]; exact endsDistinct_rename hπ w e

theorem alTest_rename {π : Nat → Nat} (hπ : Function.Injective π) (T : Tables) (w : Weights) (c : Nat) :
    alTest (renTables π T) (mapKeys π w) (π c) = alTest T w c := by
  unfold alTest
  simp only [renTables, getKey_sal_rename hπ]
  cases getKey T.sal c with
  | error e => rfl
  | ok e => simp only [Except.map]; exact endsDistinct_rename hπ w e

theorem ctSign_rename {π : Nat → Nat} (hπ : Function.Injective π) (T : Tables) (w : Weights) (it : CTItem) :
    ctSign (renTables π T) (mapKeys π w) (renItem π it) = ctSign T w it := by
  unfold ctSign
  simp only [renTables, renItem, getKey_sct_rename hπ]
  cases getKey T.sct it.2 with
  | error e => rfl
  | ok e =>
    simp only [Except.map, renEnds, pickMin_rename hπ]
    cases pickMin w e.n0 e.n2 with
    | error er => rfl
    | ok a =>
      simp only
      cases pickMin w e.n1 e.n3 with
      | error er => rfl
      | ok b =>
        simp only [renPair]
        have hc : getKey (renCenters π T.centers) (π it.2.1) = (getKey T.centers it.2.1).map (renPair π) :=
          getKey_map_key hπ (renPair π) T.centers it.2.1
        rw [hc]
        cases getKey T.centers it.2.1 with
        | error er => rfl
        | ok c =>
          simp only [Except.map, renPair, bondStereo_rename hπ]
          cases bondStereo T.mol c.1 c.2 with
          | error er => rfl
          | ok stored =>
            exact translateCisTrans_rename hπ (isHOf T.mol) (isHOf (renMol π T.mol)) (isHOf_rename hπ T.mol)
              T.sct it.2.1 it.2.2 a b stored none

theorem alSign_rename {π : Nat → Nat} (hπ : Function.Injective π) (T : Tables) (w : Weights) (c : Nat) :
    alSign (renTables π T) (mapKeys π w) (π c) = alSign T w c := by
  unfold alSign
  simp only [renTables, getKey_sal_rename hπ]
  cases getKey T.sal c with
  | error e => rfl
  | ok e =>
    simp only [Except.map, renEnds, pickMin_rename hπ]
    cases pickMin w e.n0 e.n2 with
    | error er => rfl
    | ok a =>
      simp only
      cases pickMin w e.n1 e.n3 with
      | error er => rfl
      | ok b =>
        have h1 : (renSal π T.sal).lookup (π c) = (T.sal.lookup c).map (renEnds π) :=
          lookup_map_key hπ (renEnds π) T.sal c
        have h2 : (mapKeys π T.labels).lookup (π c) = T.labels.lookup c := lookup_mapKeys hπ T.labels c
        rw [h1, h2]
        exact translateAllene_rename hπ (isHOf T.mol) (isHOf (renMol π T.mol)) (isHOf_rename hπ T.mol)
          (T.sal.lookup c) a b (T.labels.lookup c) none

/-! ## groups and blocks -/

theorem groupsBy_map {α β : Type} (f : α → β) (keyed : List (α × Int)) :
    groupsBy (keyed.map fun kv => (f kv.1, kv.2)) = (groupsBy keyed).map (List.map f) := by
  unfold groupsBy
  simp only [map_map, Function.comp_def]
  apply map_congr_left
  intro k _
  simp [filter_map, map_map, Function.comp_def]

def renBlock {β β' : Type} (π : Nat → Nat) (g : β → β') (st : BlockState β) : BlockState β' :=
  ⟨mapKeys π st.update, st.discard.map g, st.groups⟩

theorem all_sameTest_map {α α' : Type} (f : α → α') (test : α → Except PyErr Bool) (test' : α' → Except PyErr Bool)
    (ht : ∀ a, test' (f a) = test a) (t0 : Bool) (group : List α) :
    ((group.map f).all fun it => sameTest t0 (test' it)) = group.all fun it => sameTest t0 (test it) := by
  simp only [all_map, Function.comp_def, ht]

theorem processBlock_map {α α' β β' : Type} {π : Nat → Nat} (hπ : Function.Injective π) (f : α → α') (g : β → β')
    (test sign : α → Except PyErr Bool) (test' sign' : α' → Except PyErr Bool)
    (atomOf : α → Nat) (atomOf' : α' → Nat) (setKey : α → β) (setKey' : α' → β')
    (ht : ∀ a, test' (f a) = test a) (hs : ∀ a, sign' (f a) = sign a)
    (ha : ∀ a, atomOf' (f a) = π (atomOf a)) (hk : ∀ a, setKey' (f a) = g (setKey a))
    (w : Weights) (st : BlockState β) (group : List α) :
    processBlock test' sign' atomOf' setKey' (mapKeys π w) (renBlock π g st) (group.map f) =
      (processBlock test sign atomOf setKey w st group).map (renBlock π g) := by
  unfold processBlock
  simp only [length_map]
  split
  · rfl
  · cases group with
    | nil => rfl
    | cons g0 gt =>
      simp only [map_cons, ht]
      cases test g0 with
      | error e => rfl
      | ok t0 =>
        simp only
        have hall := all_sameTest_map f test test' ht t0 (g0 :: gt)
        simp only [map_cons] at hall
        rw [hall]
        split
        · rfl
        · split
          · have hf := exFilterM_map f sign sign' hs (g0 :: gt)
            simp only [map_cons] at hf
            rw [hf]
            cases exFilterM sign (g0 :: gt) with
            | error e => rfl
            | ok sl =>
              simp only [Except.map, length_map, length_cons]
              split
              · have hm : (sl.map f).map atomOf' = (sl.map atomOf).map π := by
                  simp only [map_map, Function.comp_def, ha]
                rw [hm, exMapM_map π (fun kv : Nat × Int => (π kv.1, kv.2)) (negOf w) (negOf (mapKeys π w))
                  (fun x => negOf_rename hπ w x)]
                cases exMapM (negOf w) (sl.map atomOf) with
                | error e => rfl
                | ok upd =>
                  simp only [Except.map, renBlock, mapKeys, map_append, map_map, Function.comp_def, hk, map_cons]
              · rfl
          · rfl

theorem processBlocks_map {α α' β β' : Type} {π : Nat → Nat} (hπ : Function.Injective π) (f : α → α') (g : β → β')
    (test sign : α → Except PyErr Bool) (test' sign' : α' → Except PyErr Bool)
    (atomOf : α → Nat) (atomOf' : α' → Nat) (setKey : α → β) (setKey' : α' → β')
    (ht : ∀ a, test' (f a) = test a) (hs : ∀ a, sign' (f a) = sign a)
    (ha : ∀ a, atomOf' (f a) = π (atomOf a)) (hk : ∀ a, setKey' (f a) = g (setKey a))
    (w : Weights) : ∀ (gs : List (List α)) (st : BlockState β),
    processBlocks test' sign' atomOf' setKey' (mapKeys π w) (renBlock π g st) (gs.map (List.map f)) =
      (processBlocks test sign atomOf setKey w st gs).map (renBlock π g) := by
  intro gs
  induction gs with
  | nil => intro st; rfl
  | cons grp tl ih =>
    intro st
    simp only [map_cons, processBlocks,
      processBlock_map hπ f g test sign test' sign' atomOf atomOf' setKey setKey' ht hs ha hk w st grp]
    cases processBlock test sign atomOf setKey w st grp with
    | error e => rfl
    | ok st' => simp only [Except.map]; exact ih st'

theorem passCT_rename {π : Nat → Nat} (hπ : Function.Injective π) (T : Tables) (w : Weights) (Sc : List (Nat × Nat)) :
    passCT (renTables π T) (mapKeys π w) (Sc.map (renPair π)) = (passCT T w Sc).map (renBlock π (renPair π)) := by
  unfold passCT
  rw [exMapM_map (renPair π) (fun kv : CTItem × Int => (renItem π kv.1, kv.2)) (ctKey w) (ctKey (mapKeys π w))
    (fun nm => ctKey_rename hπ w nm)]
  cases exMapM (ctKey w) Sc with
  | error e => rfl
  | ok keyed =>
    simp only [Except.map]
    rw [groupsBy_map (renItem π) keyed]
    exact processBlocks_map hπ (renItem π) (renPair π) (ctTest T w) (ctSign T w) _ _ (·.1) (·.1) (·.2) (·.2)
      (fun it => ctTest_rename hπ T w it) (fun it => ctSign_rename hπ T w it) (fun _ => rfl) (fun _ => rfl) w
      (groupsBy keyed) ⟨[], [], false⟩

theorem passAL_rename {π : Nat → Nat} (hπ : Function.Injective π) (T : Tables) (w : Weights) (Sa : List Nat) :
    passAL (renTables π T) (mapKeys π w) (Sa.map π) = (passAL T w Sa).map (renBlock π π) := by
  unfold passAL
  rw [exMapM_map π (fun kv : Nat × Int => (π kv.1, kv.2)) (keyOf w) (keyOf (mapKeys π w))
    (fun x => keyOf_rename hπ w x)]
  cases exMapM (keyOf w) Sa with
  | error e => rfl
  | ok keyed =>
    simp only [Except.map]
    rw [groupsBy_map π keyed]
    exact processBlocks_map hπ π π (alTest T w) (alSign T w) _ _ id id id id
      (fun c => alTest_rename hπ T w c) (fun c => alSign_rename hπ T w c) (fun _ => rfl) (fun _ => rfl) w
      (groupsBy keyed) ⟨[], [], false⟩

def renFull (π : Nat → Nat) (st : FullState) : FullState :=
  ⟨mapKeys π st.update, st.dT.map π, st.dC.map (renPair π), st.dA.map π, st.groups⟩

theorem passFull_rename {π : Nat → Nat} (hπ : Function.Injective π) (T : Tables) (w : Weights) (St : List Nat)
    (Sc : List (Nat × Nat)) (Sa : List Nat) :
    passFull (renTables π T) (mapKeys π w) (St.map π) (Sc.map (renPair π)) (Sa.map π) =
      (passFull T w St Sc Sa).map (renFull π) := by
  unfold passFull
  have hp : pass (renTables π T).tetra (renTables π T).labels (mapKeys π w) (St.map π) =
      (pass T.tetra T.labels w St).map (renState π) := pass_rename hπ T.tetra T.labels w St
  rw [hp, passCT_rename hπ, passAL_rename hπ]
  cases pass T.tetra T.labels w St with
  | error e => rfl
  | ok pt =>
    cases passCT T w Sc with
    | error e => rfl
    | ok pc =>
      cases passAL T w Sa with
      | error e => rfl
      | ok pa =>
        simp only [Except.map, renFull, renState, renBlock, mapKeys, map_append]
        have : (pt.groups.map (List.map π)).isEmpty = pt.groups.isEmpty := by cases pt.groups <;> rfl
        rw [this]

/-! ## the loop and `_chiral_morgan` -/

theorem contains_map_inj {α β : Type} [BEq α] [LawfulBEq α] [BEq β] [LawfulBEq β] (f : α → β)
    (hf : Function.Injective f) (t : List α) (a : α) : (t.map f).contains (f a) = t.contains a := by
  rw [Bool.eq_iff_iff]
  simp only [contains_iff_mem, mem_map]
  constructor
  · rintro ⟨b, hb, hab⟩; exact hf hab ▸ hb
  · intro ha; exact ⟨a, ha, rfl⟩

theorem filter_not_contains_map_inj {α β : Type} [BEq α] [LawfulBEq α] [BEq β] [LawfulBEq β] (f : α → β)
    (hf : Function.Injective f) (l t : List α) :
    (l.map f).filter (fun n => !(t.map f).contains n) = (l.filter fun n => !t.contains n).map f := by
  induction l with
  | nil => rfl
  | cons a tl ih =>
    simp only [map_cons, filter_cons, contains_map_inj f hf, ih]
    cases t.contains a <;> rfl

theorem diffFull_rename (h : TupleHash) {π : Nat → Nat} (hπ : Function.Injective π) (bonds : IntAdj) (T : Tables) :
    ∀ (fuel : Nat) (morgan : List (Nat × Nat)) (St : List Nat) (Sc : List (Nat × Nat)) (Sa : List Nat),
      diffFull h (renAdj π bonds) (renTables π T) fuel (mapKeys π morgan) (St.map π) (Sc.map (renPair π)) (Sa.map π) =
        (diffFull h bonds T fuel morgan St Sc Sa).map fun r => (mapKeys π r.1, r.2) := by
  intro fuel
  induction fuel with
  | zero => intro _ _ _ _; rfl
  | succ fuel ih =>
    intro morgan St Sc Sa
    simp only [diffFull, toWeights_rename, passFull_rename hπ]
    cases passFull T (toWeights morgan) St Sc Sa with
    | error e => rfl
    | ok st =>
      simp only [Except.map, renFull, filter_not_contains_map hπ,
        filter_not_contains_map_inj (renPair π) (renPair_injective hπ)]
      have hemp : (mapKeys π st.update).isEmpty = st.update.isEmpty := by cases st.update <;> rfl
      rw [hemp]
      split
      · rfl
      · rw [applyUpdate_rename hπ, morgan_rename h hπ]
        cases Morgan.morgan h (applyUpdate (toWeights morgan) st.update) bonds with
        | none => rfl
        | some morgan' => simp only [Option.map_some]; exact ih morgan' _ _ _

theorem dedupPairs_rename {π : Nat → Nat} (hπ : Function.Injective π) (l : List (Nat × Nat)) :
    dedupPairs (l.map (renPair π)) = (dedupPairs l).map (renPair π) := by
  induction l with
  | nil => rfl
  | cons x tl ih =>
    simp only [map_cons, dedupPairs, ih, filter_map, Function.comp_def]
    congr 2
    apply filter_congr
    intro y _
    have : (renPair π y == renPair π x) = (y == x) := by
      rw [Bool.eq_iff_iff]; simp only [beq_iff_eq]
      exact ⟨fun h => renPair_injective hπ h, fun h => h ▸ rfl⟩
    simp only [bne, this]

/-- **naturality of the full `_chiral_morgan` model** under a pure renaming, given the naturality of its tables -/
theorem chiralFull_rename_of_tables (htab : TablesOfRename) : ChiralFullRename := by
  intro h single dbl π hπ m labels
  unfold chiralFull
  have hle : (mapKeys π labels).isEmpty = labels.isEmpty := by cases labels <;> rfl
  have hsb : stereoBondAtoms (renMol π m).bonds = (stereoBondAtoms m.bonds).map π := stereoBondAtoms_rename π m.bonds
  have hb : (stereoBondAtoms (renMol π m).bonds).isEmpty = (stereoBondAtoms m.bonds).isEmpty := by
    rw [hsb]; cases stereoBondAtoms m.bonds <;> rfl
  rw [hle, hb, atomsOrder_rename h hπ]
  split
  · cases atomsOrder h m <;> rfl
  · cases atomsOrder h m with
    | none => rfl
    | some r0 =>
      simp only [Option.map_some]
      rw [tetrahedrons_rename hπ]
      cases tetrahedrons m with
      | error e => rfl
      | ok tet =>
        simp only [Except.map]
        have hk : (mapKeys π labels).map (·.1) = (labels.map (·.1)).map π := by
          simp [mapKeys, map_map, Function.comp_def]
        rw [hk, filter_contains_map hπ, filter_not_contains_map hπ, htab single dbl hπ m labels]
        cases tablesOf single dbl m labels with
        | error s => cases s <;> rfl
        | ok Tt =>
          obtain ⟨T, terminals⟩ := Tt
          simp only [Except.map, hsb]
          rw [exMapM_map π (renPair π) (getKey terminals) (getKey (renCenters π terminals))
            (fun n => getKey_map_key hπ (renPair π) terminals n)]
          cases exMapM (getKey terminals) (stereoBondAtoms m.bonds) with
          | error e => rfl
          | ok pairs =>
            simp only [Except.map, dedupPairs_rename hπ, length_map]
            have hia : intAdjacency (renMol π m).bonds = renAdj π (intAdjacency m.bonds) := intAdjacency_rename π m.bonds
            rw [hia, diffFull_rename h hπ]
            cases diffFull h (intAdjacency m.bonds) T
                (((labels.map (·.1)).filter tet.contains).length + (dedupPairs pairs).length +
                  ((labels.map (·.1)).filter fun n => !tet.contains n).length + 1) r0
                ((labels.map (·.1)).filter tet.contains) (dedupPairs pairs)
                ((labels.map (·.1)).filter fun n => !tet.contains n) with
            | error s => cases s <;> rfl
            | ok r =>
              simp only [Except.map]
              split <;> rfl

end ChythonModel.Proofs.C01
