import ChythonModel.Proofs.C15Compose
/-!
Multiplicity: every unordered atom pair occurs at most once in the `bonds` list collected by `compose`, hence every row
of the resulting `_bonds` has pairwise different keys — `adjOf` (a `filterMap`) is exactly the dict the assignments
`hb[n][m] = hb[m][n] = bond` build.
-/
namespace ChythonModel.Proofs.C15
open ChythonModel.Model ChythonModel.Model.C15

/-- two triples name different unordered atom pairs -/
def DiffPair {β : Type} (t t' : Nat × Nat × β) : Prop :=
  ¬ ((t.1 = t'.1 ∧ t.2.1 = t'.2.1) ∨ (t.1 = t'.2.1 ∧ t.2.1 = t'.1))

theorem pairLoop_mem_dir {β : Type} (row : Nat → List (Nat × β)) (ns : List Nat) :
    ∀ ha n m x, (n, m, x) ∈ pairLoop row ha ns → n ∈ ns ∧ (m, x) ∈ row n ∧ m ∉ ha ∧ m ≠ n := by
  induction ns with
  | nil => intro ha n m x h; simp [pairLoop] at h
  | cons a rest ih =>
    intro ha n m x h
    simp only [pairLoop, List.mem_append, List.mem_filterMap] at h
    rcases h with ⟨⟨k, y⟩, hk, he⟩ | h
    · simp only at he
      split at he
      · cases he
      · rename_i hc
        simp only [Option.some.injEq, Prod.mk.injEq] at he
        obtain ⟨e1, e2, e3⟩ := he
        subst e1; subst e2; subst e3
        simp only [List.contains_eq_mem, List.mem_cons, decide_eq_true_eq, not_or] at hc
        exact ⟨List.mem_cons_self, hk, hc.2, hc.1⟩
    · obtain ⟨h1, h2, h3, h4⟩ := ih (a :: ha) n m x h
      simp only [List.mem_cons, not_or] at h3
      exact ⟨List.mem_cons_of_mem _ h1, h2, h3.2, h4⟩

/-- positions processed later never point back to `a`: used for the cross condition -/
theorem pairLoop_mem_notin {β : Type} (row : Nat → List (Nat × β)) (ns : List Nat) :
    ∀ ha n m x, (n, m, x) ∈ pairLoop row ha ns → m ∉ ha := fun ha n m x h => (pairLoop_mem_dir row ns ha n m x h).2.2.1

theorem pairLoop_pairwise {β : Type} (row : Nat → List (Nat × β)) (ns : List Nat) :
    ∀ ha, ns.Nodup → (∀ n ∈ ns, ((row n).map (·.1)).Nodup) →
      (pairLoop row ha ns).Pairwise DiffPair := by
  induction ns with
  | nil => intro ha _ _; simp [pairLoop]
  | cons a rest ih =>
    intro ha nd hrow
    have nd' := List.nodup_cons.mp nd
    simp only [pairLoop]
    rw [List.pairwise_append]
    refine ⟨?_, ih (a :: ha) nd'.2 (fun n hn => hrow n (List.mem_cons_of_mem _ hn)), ?_⟩
    · have hk : (row a).Pairwise (fun e e' => e.1 ≠ e'.1) := by
        have := hrow a List.mem_cons_self
        unfold List.Nodup at this
        rwa [List.pairwise_map] at this
      apply List.Pairwise.filterMap _ _ hk
      intro e e' hne b hb b' hb'
      split at hb
      · cases hb
      · split at hb'
        · cases hb'
        · cases hb; cases hb'
          simp only [DiffPair, true_and, not_or]
          rename_i h1 h2
          simp only [List.contains_eq_mem, List.mem_cons, decide_eq_true_eq, not_or] at h1 h2
          exact ⟨hne, fun h => h1.1 h.2⟩
    · intro t ht t' ht'
      obtain ⟨n, m, x⟩ := t
      obtain ⟨n', m', x'⟩ := t'
      simp only [List.mem_filterMap] at ht
      obtain ⟨⟨k, y⟩, _, he⟩ := ht
      simp only at he
      split at he
      · cases he
      · simp only [Option.some.injEq, Prod.mk.injEq] at he
        obtain ⟨e1, e2, e3⟩ := he
        subst e1
        have d := pairLoop_mem_dir row rest (a :: ha) n' m' x' ht'
        simp only [DiffPair, not_or]
        refine ⟨fun h => nd'.1 (h.1 ▸ d.1), fun h => ?_⟩
        have := d.2.2.1
        simp only [List.mem_cons, not_or] at this
        exact this.1 h.1.symm

theorem sideRow_keys_nodup (g : Mol) (w : WFp g) (cs : List Nat) (formed : Bool) (n : Nat) :
    ((sideRow g cs formed n).map (·.1)).Nodup := by
  unfold sideRow
  simp only [List.map_map, Function.comp_def]
  exact nbrs_nodup g w n

theorem adjRow_keys_nodup (r p : Mol) (wr : WFp r) (wp : WFp p) (cs : List Nat) (n : Nat) :
    ((adjRow r p cs n).map (·.1)).Nodup := by
  unfold adjRow
  simp only [List.map_append, List.map_map, Function.comp_def]
  rw [List.nodup_append]
  have hr : (((r.nbrs n).filter fun mb => cs.contains mb.1).map (·.1)).Nodup := by
    have := nbrs_nodup r wr n
    unfold List.Nodup at this ⊢
    rw [List.pairwise_map] at this ⊢
    exact this.filter _
  have hp : ((((p.nbrs n).filter fun mb => cs.contains mb.1).filter fun mb =>
      !(((r.nbrs n).filter fun mb => cs.contains mb.1).any (·.1 == mb.1))).map (·.1)).Nodup := by
    have := nbrs_nodup p wp n
    unfold List.Nodup at this ⊢
    rw [List.pairwise_map] at this ⊢
    exact (this.filter _).filter _
  refine ⟨hr, hp, ?_⟩
  intro a ha b hb e
  subst e
  obtain ⟨⟨k, x⟩, hk, e1⟩ := List.mem_map.mp ha
  obtain ⟨⟨k', x'⟩, hk', e2⟩ := List.mem_map.mp hb
  simp only at e1 e2
  subst e1
  simp only [List.mem_filter, Bool.not_eq_true', List.any_eq_false, beq_iff_eq] at hk'
  exact hk'.2 (k, x) (List.mem_filter.mp hk) e2.symm

theorem mapE_pairwise {α β : Type} (f : α → Except String β) (R : α → α → Prop) (S : β → β → Prop)
    (h : ∀ a a' b b', R a a' → f a = .ok b → f a' = .ok b' → S b b') :
    ∀ (l : List α) (l' : List β), mapE f l = .ok l' → l.Pairwise R → l'.Pairwise S := by
  intro l
  induction l with
  | nil => intro l' e _; simp only [mapE, Except.ok.injEq] at e; subst e; exact List.Pairwise.nil
  | cons a tl ih =>
    intro l' e hp
    simp only [mapE] at e
    split at e
    · cases e
    · rename_i b hb
      split at e
      · cases e
      · rename_i bs hbs
        simp only [Except.ok.injEq] at e; subst e
        have hp' := List.pairwise_cons.mp hp
        rw [List.pairwise_cons]
        refine ⟨?_, ih bs hbs hp'.2⟩
        intro b' hb'
        obtain ⟨a', ha', e'⟩ := (mapE_mem f tl bs hbs b').mp hb'
        exact h a a' b b' (hp'.1 a' ha') hb e'

/-- every unordered pair occurs at most once among the bonds collected by the three loops -/
theorem bonds_pairwise (r p : Mol) (wr : WFp r) (wp : WFp p) (ls fs cs : List Nat) (ad : Admissible r p ls fs cs)
    (b3 : List (Nat × Nat × DynBond))
    (hb3 : mapE commonBond (pairLoop (adjRow r p cs) (fs.reverse ++ ls.reverse) cs) = .ok b3) :
    (pairLoop (sideRow r cs false) [] ls ++ pairLoop (sideRow p cs true) ls.reverse fs ++ b3).Pairwise DiffPair := by
  have p1 := pairLoop_pairwise (sideRow r cs false) ls [] ad.lsNodup (fun n _ => sideRow_keys_nodup r wr cs false n)
  have p2 := pairLoop_pairwise (sideRow p cs true) fs ls.reverse ad.fsNodup (fun n _ => sideRow_keys_nodup p wp cs true n)
  have p3raw := pairLoop_pairwise (adjRow r p cs) cs (fs.reverse ++ ls.reverse) ad.csNodup
    (fun n _ => adjRow_keys_nodup r p wr wp cs n)
  have p3 : b3.Pairwise DiffPair := by
    apply mapE_pairwise commonBond DiffPair DiffPair _ _ b3 hb3 p3raw
    intro a a' b b' hR hb hb'
    unfold commonBond at hb hb'
    split at hb
    · split at hb'
      · cases hb; cases hb'; exact hR
      · cases hb'
    · cases hb
  have m3 : ∀ t ∈ b3, t.1 ∈ cs ∧ t.2.1 ∈ cs := by
    intro t ht
    obtain ⟨⟨n, m, o1, o2⟩, hraw, e⟩ := (mapE_mem commonBond _ b3 hb3 t).mp ht
    unfold commonBond at e
    split at e
    · cases e
      have d := pairLoop_mem_dir (adjRow r p cs) cs _ n m (o1, o2) hraw
      exact ⟨d.1, by have := (adjRow_mem r p wr wp cs n m o1 o2).mp d.2.1; simpa using this.1⟩
    · cases e
  rw [List.pairwise_append, List.pairwise_append]
  refine ⟨⟨p1, p2, ?_⟩, p3, ?_⟩
  · intro t ht t' ht'
    obtain ⟨n, m, x⟩ := t
    obtain ⟨n', m', x'⟩ := t'
    have d := pairLoop_mem_dir _ _ _ n m x ht
    have d' := pairLoop_mem_dir _ _ _ n' m' x' ht'
    simp only [DiffPair, not_or]
    refine ⟨fun h => ?_, fun h => ?_⟩
    · have hn : n = n' := h.1
      subst hn
      exact ((ad.fs_iff n).mp d'.1).2 ((ad.ls_iff n).mp d.1).1
    · have hn : n = m' := h.1
      subst hn
      exact d'.2.2.1 (List.mem_reverse.mpr d.1)
  · intro t ht t' ht'
    obtain ⟨n, m, x⟩ := t
    have hc := m3 t' ht'
    have hn : n ∉ cs := by
      rcases List.mem_append.mp ht with h | h
      · have d := pairLoop_mem_dir _ _ _ n m x h
        exact fun hcs => ((ad.ls_iff n).mp d.1).2 ((ad.cs_iff n).mp hcs).2
      · have d := pairLoop_mem_dir _ _ _ n m x h
        exact fun hcs => ((ad.fs_iff n).mp d.1).2 ((ad.cs_iff n).mp hcs).1
    simp only [DiffPair, not_or]
    exact ⟨fun h => hn (h.1 ▸ hc.1), fun h => hn (h.1 ▸ hc.2)⟩

/-- rows of `adjOf` have pairwise different keys when the bond list names every unordered pair at most once -/
theorem adjOf_rows_nodup (keys : List Nat) (B : List (Nat × Nat × DynBond)) (hB : B.Pairwise DiffPair) :
    ∀ nl ∈ adjOf keys B, (nl.2.map (·.1)).Nodup := by
  intro nl hnl
  unfold adjOf at hnl
  obtain ⟨k, _, e⟩ := List.mem_map.mp hnl
  subst e
  simp only
  unfold List.Nodup
  rw [List.pairwise_map]
  apply List.Pairwise.filterMap _ _ hB
  intro t t' hd b hb b' hb' heq
  apply hd
  by_cases h1 : t.1 = k <;> by_cases h1' : t'.1 = k
  · simp only [h1, h1', beq_self_eq_true, if_true, Option.some.injEq] at hb hb'
    subst hb; subst hb'
    exact Or.inl ⟨h1.trans h1'.symm, heq⟩
  · have hb1 : (t'.1 == k) = false := by simpa using h1'
    simp only [h1, beq_self_eq_true, if_true, Option.some.injEq, hb1, Bool.false_eq_true, if_false] at hb hb'
    split at hb'
    · rename_i h2'
      simp only [beq_iff_eq] at h2'
      simp only [Option.some.injEq] at hb'
      subst hb; subst hb'
      exact Or.inr ⟨h1.trans h2'.symm, heq⟩
    · cases hb'
  · have hb1 : (t.1 == k) = false := by simpa using h1
    simp only [h1', beq_self_eq_true, if_true, Option.some.injEq, hb1, Bool.false_eq_true, if_false] at hb hb'
    split at hb
    · rename_i h2
      simp only [beq_iff_eq] at h2
      simp only [Option.some.injEq] at hb
      subst hb; subst hb'
      exact Or.inr ⟨heq, h2.trans h1'.symm⟩
    · cases hb
  · have hb1 : (t.1 == k) = false := by simpa using h1
    have hb1' : (t'.1 == k) = false := by simpa using h1'
    simp only [hb1, hb1', Bool.false_eq_true, if_false] at hb hb'
    split at hb
    · split at hb'
      · rename_i h2 h2'
        simp only [beq_iff_eq] at h2 h2'
        simp only [Option.some.injEq] at hb hb'
        subst hb; subst hb'
        exact Or.inl ⟨heq, h2.trans h2'.symm⟩
      · cases hb'
    · cases hb

/-- the composed graph is a faithful dict of dicts: keys of `_atoms`, of `_bonds` and of every `_bonds[n]` are
    pairwise different -/
theorem composeWith_dict (r p : Mol) (wr : WFp r) (wp : WFp p) (ls fs cs : List Nat) (ad : Admissible r p ls fs cs)
    (h : CGR) (hc : composeWith ls fs cs r p = .ok h) :
    (h.atoms.map (·.1)).Nodup ∧ (h.adj.map (·.1)).Nodup ∧ ∀ nl ∈ h.adj, (nl.2.map (·.1)).Nodup := by
  have hk := composeWith_keys r p ls fs cs h hc
  have nd := keys_nodup r p ls fs cs ad
  obtain ⟨la, fa, ca, b3, _, _, _, hb3, e⟩ := composeWith_ok ls fs cs r p h hc
  refine ⟨hk.1 ▸ nd, hk.2 ▸ nd, ?_⟩
  subst e
  exact adjOf_rows_nodup _ _ (bonds_pairwise r p wr wp ls fs cs ad b3 hb3)

end ChythonModel.Proofs.C15
