import ChythonModel.Proofs.C19Ops
import ChythonModel.Spec.PySetSemantics
/-!
# C19 — histories of set operations: the table model refines the documented finite-set semantics
-/
namespace ChythonModel.Py.IntSet
open ChythonModel.Spec.PySet

/-- the documented effect of an op on the abstract set, given what the op returned -/
def absStep (A : ASet) : SetOp → Obs → ASet
  | .add k, _ => aAdd A k
  | .discard k, _ => aRemove A k
  | .pop, .popped k => aRemove A k
  | .pop, _ => A
  | .clear, _ => aEmpty
  | .updateIter ks, _ => aUpdate A ks
  | .updateDict ks, _ => aUpdate A ks
  | .differenceUpdate ks, _ => aDifferenceUpdate A ks

def absRun (A : ASet) : List SetOp → List Obs → ASet
  | op :: ops, o :: os => absRun (absStep A op o) ops os
  | _, _ => A

/-- the documented constraint on what an op may return: `pop` returns a member, or raises KeyError on the empty set -/
def obsLegal (A : ASet) : SetOp → Obs → Prop
  | .pop, .popped k => A k
  | .pop, .keyError => ∀ x, ¬ A x
  | .pop, .none => False
  | _, o => o = .none

def obsLegalRun (A : ASet) : List SetOp → List Obs → Prop
  | op :: ops, o :: os => obsLegal A op o ∧ obsLegalRun (absStep A op o) ops os
  | [], [] => True
  | _, _ => False

/-- the table represents the abstract set `A` -/
def Represents (s : IntSet) (A : ASet) : Prop := TWF s.table ∧ ∀ x, Mem s.table x ↔ A x

theorem stepOp_represents {s s' : IntSet} {A : ASet} {op : SetOp} {o : Obs} (h : Represents s A)
    (hs : s.stepOp op = some (s', o)) : Represents s' (absStep A op o) ∧ (∀ k, o = .popped k → A k) := by
  obtain ⟨hw, hm⟩ := h
  cases op with
  | add k =>
    simp only [IntSet.stepOp, Option.map_eq_some_iff, Prod.mk.injEq] at hs
    obtain ⟨s1, h1, e1, e2⟩ := hs
    subst e1 e2
    obtain ⟨a1, a2⟩ := add_spec hw h1
    exact ⟨⟨a1, fun x => by rw [a2 x, hm x]; rfl⟩, by simp⟩
  | discard k =>
    simp only [IntSet.stepOp, Option.map_eq_some_iff, Prod.mk.injEq] at hs
    obtain ⟨⟨s1, b⟩, h1, e1, e2⟩ := hs
    simp only at e1
    subst e1 e2
    obtain ⟨a1, _, a2⟩ := discard_spec hw h1
    exact ⟨⟨a1, fun x => by rw [a2 x, hm x]; rfl⟩, by simp⟩
  | pop =>
    simp only [IntSet.stepOp] at hs
    split at hs
    · simp at hs
    · simp at hs
      obtain ⟨e1, e2⟩ := hs
      subst e1 e2
      exact ⟨⟨hw, hm⟩, by simp⟩
    · rename_i k s1 hp
      simp at hs
      obtain ⟨e1, e2⟩ := hs
      subst e1 e2
      obtain ⟨a0, a1, a2⟩ := pop_spec hw hp
      refine ⟨⟨a1, fun x => by rw [a2 x, hm x]; rfl⟩, ?_⟩
      intro k' e
      simp at e
      subst e
      exact (hm _).1 a0
  | clear =>
    simp only [IntSet.stepOp, Option.some.injEq, Prod.mk.injEq] at hs
    obtain ⟨e1, e2⟩ := hs
    subst e1 e2
    obtain ⟨a1, a2⟩ := clear_spec s
    exact ⟨⟨a1, fun x => ⟨fun h => absurd h (a2 x), fun h => h.elim⟩⟩, by simp⟩
  | updateIter ks =>
    simp only [IntSet.stepOp, Option.map_eq_some_iff, Prod.mk.injEq] at hs
    obtain ⟨s1, h1, e1, e2⟩ := hs
    subst e1 e2
    obtain ⟨a1, a2⟩ := updateIter_spec hw h1
    exact ⟨⟨a1, fun x => by rw [a2 x, hm x]; rfl⟩, by simp⟩
  | updateDict ks =>
    simp only [IntSet.stepOp, Option.map_eq_some_iff, Prod.mk.injEq] at hs
    obtain ⟨s1, h1, e1, e2⟩ := hs
    subst e1 e2
    obtain ⟨a1, a2⟩ := updateDict_spec hw h1
    exact ⟨⟨a1, fun x => by rw [a2 x, hm x]; rfl⟩, by simp⟩
  | differenceUpdate ks =>
    simp only [IntSet.stepOp, Option.map_eq_some_iff, Prod.mk.injEq] at hs
    obtain ⟨s1, h1, e1, e2⟩ := hs
    subst e1 e2
    obtain ⟨a1, a2⟩ := differenceUpdate_spec hw h1
    exact ⟨⟨a1, fun x => by rw [a2 x, hm x]; rfl⟩, by simp⟩

theorem runOps_represents : ∀ (ops : List SetOp) {s s' : IntSet} {A : ASet} {os : List Obs}, Represents s A →
    s.runOps ops = some (s', os) → Represents s' (absRun A ops os) := by
  intro ops
  induction ops with
  | nil =>
    intro s s' A os h hr
    simp [IntSet.runOps] at hr
    obtain ⟨e1, e2⟩ := hr
    subst e1 e2
    exact h
  | cons op ops ih =>
    intro s s' A os h hr
    unfold IntSet.runOps at hr
    split at hr
    · simp at hr
    · rename_i s1 o h1
      split at hr
      · simp at hr
      · rename_i s2 os2 h2
        simp at hr
        obtain ⟨e1, e2⟩ := hr
        subst e1 e2
        exact ih (stepOp_represents h h1).1 h2

theorem empty_represents : Represents empty aEmpty :=
  ⟨empty_spec.1, fun x => ⟨fun h => absurd h (empty_spec.2 x), fun h => h.elim⟩⟩

end ChythonModel.Py.IntSet
