import ChythonModel.Proofs.C09Faithful
import ChythonModel.Proofs.C09SearchP
import ChythonModel.Proofs.C07Stack
namespace ChythonModel.Proofs.C09
open ChythonModel.Model.Bits ChythonModel.Gen.Bits ChythonModel.Model.Query ChythonModel.Model

/-- atom number at array index `i` -/
def numOf (m : LMol) (i : Nat) : Nat := m.ids.getD i 0

theorem numOf_get (m : LMol) (i : Nat) (hi : i < m.atoms.length) : m.ids[i]? = some (numOf m i) := by
  have : i < m.ids.length := by simpa [LMol.ids] using hi
  simp [numOf, List.getD, List.getElem?_eq_getElem this]

theorem numOf_inj (m : LMol) (hnd : m.ids.Nodup) (i k : Nat) (hi : i < m.atoms.length) (hk : k < m.atoms.length)
    (h : numOf m i = numOf m k) : i = k := by
  have h1 := numOf_get m i hi
  have h2 := numOf_get m k hk
  rw [h] at h1
  obtain ⟨l1, e1⟩ := List.getElem?_eq_some_iff.mp h1
  obtain ⟨l2, e2⟩ := List.getElem?_eq_some_iff.mp h2
  exact (List.Nodup.getElem_inj_iff hnd).mp (e1.trans e2.symm)

theorem scopeArray_get (m : LMol) (cand : List Nat) (i : Nat) (hi : i < m.atoms.length) :
    (scopeArray m cand)[i]? = some (cand.contains (numOf m i)) := by
  unfold scopeArray
  rw [List.getElem?_map, numOf_get m i hi]; rfl

/-- adjacency of the atom at index `i`, read off its encoded bond row -/
theorem mol_nbrs (m : LMol) (cm : CMol) (hm : MolOK m) (henc : encStructure m = .ok cm) (i : Nat) (ca : CAtom) (row : List CBond)
    (hca : cm.atoms[i]? = some ca) (hrow : slice? cm.bonds ca.from_ ca.to_ = some row) :
    m.graph.nbrs (numOf m i) = row.map (fun ib => numOf m ib.index) ∧ ∀ ib ∈ row, ib.index < m.atoms.length := by
  obtain ⟨hlen, hlay⟩ := encStructure_layout m cm henc hm.keys hm.nodup
  have hi : i < m.atoms.length := by rw [← hlen]; exact (List.getElem?_eq_some_iff.mp hca).1
  obtain ⟨n, a, ms, h1, h2⟩ := mol_row m hm.keys i hi
  obtain ⟨ca', mdl, ws, bs, g1, _, _, _, _, g6, g7⟩ := hlay i n a ms h1 h2
  rw [hca] at g1; obtain rfl := Option.some.inj g1
  rw [hrow] at g7; obtain rfl := Option.some.inj g7
  obtain ⟨hbl, hget⟩ := rowBonds_get m.ids (ws.map (·.v1)) ms row g6
  have hnum : numOf m i = n := by
    have := numOf_get m i hi
    have h' : m.ids[i]? = some n := by simp [LMol.ids, h1]
    rw [h'] at this; exact (Option.some.inj this).symm
  have hkn : (m.adj.map (·.1)).Nodup := by rw [hm.keys]; exact hm.nodup
  have hnb : m.graph.nbrs n = ms.map (·.1) := by
    unfold Iso.Graph.nbrs LMol.graph
    have : (m.adj.map fun (x : Nat × List (Nat × MBond)) => (x.1, x.2.map (·.1)))[i]? = some (n, ms.map (·.1)) := by
      simp [h2]
    have hkn' : ((m.adj.map fun (x : Nat × List (Nat × MBond)) => (x.1, x.2.map (·.1))).map (·.1)).Nodup := by
      rw [List.map_map]; exact hkn
    rw [lookup_of_get_nodup _ hkn' i n _ this]; rfl
  have hidx : ∀ (t : Nat) (ht : t < row.length), (row[t]).index < m.atoms.length ∧ numOf m (row[t]).index = (ms[t]'(by omega)).1 := by
    intro t ht
    obtain ⟨k, b, v, e1, f1, _, _⟩ := hget t row[t] (List.getElem?_eq_getElem ht)
    have hg := indexOf_get _ _ _ f1
    have hl : (row[t]).index < m.atoms.length := by
      have := (List.getElem?_eq_some_iff.mp hg).1; simpa [LMol.ids] using this
    refine ⟨hl, ?_⟩
    have := numOf_get m _ hl
    rw [hg] at this
    have hk : (ms[t]'(by omega)) = (k, b) := by
      have := List.getElem?_eq_getElem (l := ms) (i := t) (by omega)
      rw [e1] at this; exact (Option.some.inj this).symm
    rw [hk]; exact (Option.some.inj this).symm
  constructor
  · rw [hnum, hnb]
    apply List.ext_getElem
    · simp [hbl]
    · intro t h1' h2'
      simp only [List.getElem_map]
      simp only [List.length_map] at h1' h2'
      exact ((hidx t h2').2).symm
  · intro ib hib
    obtain ⟨t, ht, rfl⟩ := List.mem_iff_getElem.mp hib
    exact (hidx t ht).1


/-- the reference bond-row scan as a filter, when every read succeeds -/
theorem candidatesR_filter (D : Decode) (cm : CMol) (cq : CQuery) (scope : List Bool) (j : Nat) (qa : CQAtom) (n : Nat)
    (matched : List Bool) (path : List Nat) (scF mtF : Nat → Bool) (clF : CBond → Bool) (row : List CBond)
    (h : ∀ ib ∈ row, ∃ mAtom, cm.atoms[ib.index]? = some mAtom ∧ scope[ib.index]? = some (scF ib.index) ∧
      matched[ib.index]? = some (mtF ib.index) ∧ closureR D cm cq j qa ib.index mAtom n matched path = some (clF ib)) :
    candidatesR D cm cq scope j qa n matched path row =
      some ((row.filter fun ib => scF ib.index && !mtF ib.index && refNext D j n ib.index && clF ib).map (·.index)) := by
  induction row with
  | nil => rfl
  | cons ib rest ih =>
    obtain ⟨mAtom, h1, h2, h3, h4⟩ := h ib (by simp)
    simp only [candidatesR, ih (fun x hx => h x (by simp [hx])), h1, h2, h3, h4, List.filter_cons]
    cases hc : (scF ib.index && !mtF ib.index && refNext D j n ib.index) <;> cases hcl : clF ib <;> simp [hc, hcl]

theorem atom_lookup (m : LMol) (hm : MolOK m) (i : Nat) (n : Nat) (a : MAtom) (h : m.atoms[i]? = some (n, a)) :
    m.atom? n = some a := by
  unfold LMol.atom?
  exact lookup_of_get_nodup m.atoms (by have := hm.nodup; simpa [LMol.ids] using this) i n a h

theorem mol_atom (q : LQuery) (m : LMol) (lq : List Iso.Step) (hm : MolOK m) (i : Nat) (hi : i < m.atoms.length) :
    m.atom? (numOf m i) = some ((decodeOf q m lq).mat i) := by
  have hat : m.atoms[i]? = some (m.atoms[i]) := List.getElem?_eq_getElem hi
  have hn : numOf m i = (m.atoms[i]).1 := by
    have := numOf_get m i hi
    have h' : m.ids[i]? = some (m.atoms[i]).1 := by simp [LMol.ids, hat]
    rw [h'] at this; exact (Option.some.inj this).symm
  rw [hn, mat_eq q m lq i (m.atoms[i]).1 (m.atoms[i]).2 hat]
  exact atom_lookup m hm i _ _ hat

theorem lookup_map_val {β γ} (l : List (Nat × β)) (f : β → γ) (k : Nat) :
    (l.map fun x => (x.1, f x.2)).lookup k = (l.lookup k).map f := by
  induction l with
  | nil => rfl
  | cons r rest ih =>
    obtain ⟨k', v⟩ := r
    simp only [List.map_cons, List.lookup_cons]
    cases (k == k') <;> simp [ih]

/-- the bond between the atom at index `i` and a member of its encoded row -/
theorem mol_bond (q : LQuery) (m : LMol) (lq : List Iso.Step) (cm : CMol) (hm : MolOK m) (henc : encStructure m = .ok cm)
    (i : Nat) (ca : CAtom) (row : List CBond) (hca : cm.atoms[i]? = some ca) (hrow : slice? cm.bonds ca.from_ ca.to_ = some row)
    (ib : CBond) (hib : ib ∈ row) :
    m.bond? (numOf m i) (numOf m ib.index) = some ((decodeOf q m lq).mbd i ib.index) := by
  obtain ⟨hnb, hlt⟩ := mol_nbrs m cm hm henc i ca row hca hrow
  have hmem : numOf m ib.index ∈ m.graph.nbrs (numOf m i) := by
    rw [hnb]; exact List.mem_map.mpr ⟨ib, hib, rfl⟩
  have hgn : m.graph.nbrs (numOf m i) = ((m.adj.lookup (numOf m i)).map (fun ms => ms.map (·.1))).getD [] := by
    unfold Iso.Graph.nbrs LMol.graph
    simp only
    rw [lookup_map_val m.adj (fun ms => ms.map (·.1)) (numOf m i)]
  rw [hgn] at hmem
  have hd : (decodeOf q m lq).mbd i ib.index = (m.bond? (numOf m i) (numOf m ib.index)).getD default := rfl
  rw [hd]
  unfold LMol.bond?
  cases hl : m.adj.lookup (numOf m i) with
  | none => rw [hl] at hmem; simp at hmem
  | some ms =>
    rw [hl] at hmem
    simp only [Option.map_some, Option.getD_some, List.mem_map] at hmem
    obtain ⟨kb, hkb, hke⟩ := hmem
    simp only [Option.bind_some]
    cases hl2 : ms.lookup (numOf m ib.index) with
    | none =>
      rw [List.lookup_eq_none_iff] at hl2
      have := hl2 kb hkb
      rw [hke] at this; simp at this
    | some b => rfl


theorem orderDepth_eq_indexOf (lq : List Iso.Step) (b : Nat) : Iso.orderDepth lq b = indexOf? (lq.map (·.front)) b := by
  unfold Iso.orderDepth indexOf?
  rw [List.findIdx?_map]; rfl

/-- what the component buffer says about step `j ≥ 1` of the linearised component -/
theorem comp_step (q : LQuery) (m : LMol) (cl : Iso.Closures) (lq : List Iso.Step) (cq : CQuery) (hq : QueryOK q)
    (hqe : encComponent q cl lq = .ok cq) (hF : (lq.map (·.front)).Nodup) (hcl : (cl.map (·.1)).Nodup)
    (hcomp : ChythonModel.Proofs.C07.CompOK q.graph cl lq) (j : Nat) (s : Iso.Step) (hs : lq[j + 1]? = some s) :
    ∃ (qa : CQAtom) (back : Nat) (qb : List CBond),
      cq.atoms[j + 1]? = some qa ∧ s.back = some back ∧ Iso.orderDepth lq back = some qa.back ∧ qa.back < j + 1 ∧
      q.atom? s.front = some ((decodeOf q m lq).qat (j + 1)) ∧
      q.bond? back s.front = some ((decodeOf q m lq).qbd (j + 1)) ∧
      slice? cq.bonds qa.from_ qa.to_ = some qb ∧ qb.length = (Iso.Closures.get cl s.front).length ∧
      ∀ (t : Nat) (jb : CBond), qb[t]? = some jb →
        ∃ mq, (Iso.Closures.get cl s.front)[t]? = some mq ∧ Iso.orderDepth lq mq = some jb.index ∧ jb.index < j + 1 ∧
          q.bond? s.front mq = some ((decodeOf q m lq).qcb (j + 1) jb.index) := by
  obtain ⟨hql, hqlay⟩ := encComponent_layout q cl lq cq hqe hF hcl
  obtain ⟨qa, w, qb, g1, g2, _, _, g5, _, g7, g8, g9, g10⟩ := hqlay (j + 1) s hs
  obtain ⟨a, b, qmdl, k1, k2, k3, k4, k5⟩ := stepMask_ok q s w g2
  have hst := hcomp.step (j + 1) s hs
  have hjl : j + 1 < lq.length := (List.getElem?_eq_some_iff.mp hs).1
  cases hb : s.back with
  | none =>
    have h0 := congrArg List.length (hst.back_none hb)
    simp only [List.length_map, List.length_take, List.length_nil] at h0
    omega
  | some back =>
    obtain ⟨qbd, hk1, hk2⟩ := k3 back hb
    have hback := g5 back hb
    have hearlier : ∀ x ∈ (lq.take (j + 1)).map (·.front), ∀ jj, indexOf? (lq.map (·.front)) x = some jj → jj < j + 1 := by
      intro x hx jj hjj
      obtain ⟨t, ht, hte⟩ := List.mem_iff_getElem.mp hx
      simp only [List.length_map, List.length_take] at ht
      have hft : (lq.map (·.front))[t]? = some x := by
        have : ((lq.take (j + 1)).map (·.front))[t]? = some x := by
          rw [List.getElem?_eq_getElem (by simpa using ht)]; rw [hte]
        rw [List.map_take, List.getElem?_take] at this
        simp only [show t < j + 1 by omega, if_true] at this
        exact this
      have := indexOf_nodup _ hF t x hft
      rw [this] at hjj; obtain rfl := Option.some.inj hjj; omega
    have hqat : (decodeOf q m lq).qat (j + 1) = a := by
      simp only [decodeOf]; rw [front_getD lq (j + 1) s hs, k1]; rfl
    have hqbd : (decodeOf q m lq).qbd (j + 1) = qbd := by
      simp only [decodeOf]
      rw [front_getD lq (j + 1) s hs, hs]
      simp only [Option.bind_some, hb, Option.getD_some, hk1]
    refine ⟨qa, back, qb, g1, rfl, by rw [orderDepth_eq_indexOf]; exact hback,
      hearlier back (hst.back_some back hb).1 _ hback, by rw [hqat]; exact k1, by rw [hqbd]; exact hk1, g7, ?_, ?_⟩
    · -- length of the closure row
      cases hlk : cl.lookup s.front with
      | none =>
        have := g10 (Or.inl hlk); subst this; simp [Iso.Closures.get, hlk]
      | some ms =>
        by_cases hemp : ms = []
        · subst hemp; have := g10 (Or.inr hlk); subst this; simp [Iso.Closures.get, hlk]
        · have := (closureBonds_get q _ _ ms qb (g9 ms hlk hemp)).1
          simp [Iso.Closures.get, hlk, this]
    · intro t jb hjb
      cases hlk : cl.lookup s.front with
      | none => have := g10 (Or.inl hlk); subst this; simp at hjb
      | some ms =>
        by_cases hemp : ms = []
        · subst hemp; have := g10 (Or.inr hlk); subst this; simp at hjb
        · obtain ⟨_, hget⟩ := closureBonds_get q _ _ ms qb (g9 ms hlk hemp)
          obtain ⟨mq, bq, e1, e2, e3, _⟩ := hget t jb hjb
          have hclget : Iso.Closures.get cl s.front = ms := by simp [Iso.Closures.get, hlk]
          have hmq : mq ∈ (lq.take (j + 1)).map (·.front) := by
            have := (hst.cls mq).mp (List.mem_append.mpr (Or.inr (by rw [hclget]; exact List.mem_of_getElem? e1)))
            exact this.2
          have hcb' : (decodeOf q m lq).qcb (j + 1) jb.index = bq := by
            simp only [decodeOf]
            rw [front_getD lq (j + 1) s hs]
            have := indexOf_get _ _ _ e3
            rw [getD_of_get _ _ mq 0 this, e2]; rfl
          exact ⟨mq, by rw [hclget]; exact e1, by rw [orderDepth_eq_indexOf]; exact e3, hearlier mq hmq _ e3, by rw [hcb']; exact e2⟩

end ChythonModel.Proofs.C09
