import ChythonModel.Proofs.C11Block
/-!
# C11 — metadata blocks: SDF `>  <key>` blocks and RDF `$DTYPE/$DATUM` pairs read back what was written
-/
namespace ChythonModel.Proofs.C11
open ChythonModel.Model.C11 ChythonModel.Gen.Mdl

/-! ## `str.replace` leaves strings alone that lack the first character of the pattern -/

theorem replaceGo_absent (old new : Str) (c : Char) (tl : Str) (hold : old = c :: tl) :
    ∀ (s : Str), c ∉ s → replaceGo old new 0 s = s := by
  intro s
  induction s with
  | nil => intro _; rfl
  | cons d ds ih =>
    intro h
    have hd : d ≠ c := by intro hd; subst hd; simp at h
    have hds : c ∉ ds := by intro hm; exact h (by simp [hm])
    have hp : old.isPrefixOf (d :: ds) = false := by
      rw [hold]; simp [List.isPrefixOf, Ne.symm hd]
    simp only [replaceGo, hp, Bool.false_eq_true, if_false, ih hds]

theorem replace_absent (old new : Str) (c : Char) (tl : Str) (hold : old = c :: tl) (s : Str) (h : c ∉ s) :
    replace old new s = s := by
  unfold replace
  rw [hold]
  simp only [List.isEmpty_cons, Bool.false_eq_true, if_false]
  rw [← hold]
  exact replaceGo_absent old new c tl hold s h

/-- a key the SDF format represents verbatim -/
structure WFKey (k : Str) : Prop where
  ne : k ≠ []
  stripped : strip k = k
  plain : ∀ c ∈ k, c ≠ '<' ∧ c ≠ '>' ∧ c ≠ '&' ∧ c ≠ '\n'

theorem escape_id_of_plain {k : Str} (h : WFKey k) : applyEscapes sdfWriteEscape k = k := by
  have h1 : '>' ∉ k := fun hm => (h.plain _ hm).2.1 rfl
  have h2 : '<' ∉ k := fun hm => (h.plain _ hm).1 rfl
  show replace "<".toList "&lt;".toList (replace ">".toList "&gt;".toList k) = k
  rw [replace_absent ">".toList "&gt;".toList '>' [] rfl k h1, replace_absent "<".toList "&lt;".toList '<' [] rfl k h2]

theorem unescape_id_of_plain {k : Str} (h : WFKey k) : applyEscapes sdfReadEscape k = k := by
  have h1 : '&' ∉ k := fun hm => (h.plain _ hm).2.2.1 rfl
  show replace "&lt;".toList "<".toList (replace "&gt;".toList ">".toList k) = k
  rw [replace_absent "&gt;".toList ">".toList '&' "gt;".toList rfl k h1,
    replace_absent "&lt;".toList "<".toList '&' "lt;".toList rfl k h1]

theorem takeWhile_absent {c : Char} : ∀ {s : Str} (t : Str), c ∉ s →
    (s ++ c :: t).takeWhile (· != c) = s ∧ (s ++ c :: t).dropWhile (· != c) = c :: t := by
  intro s
  induction s with
  | nil => intro t _; simp
  | cons d ds ih =>
    intro t h
    have hd : d ≠ c := by intro hd; subst hd; simp at h
    have hds : c ∉ ds := by intro hm; exact h (by simp [hm])
    have : (d != c) = true := by simpa using hd
    simp [this, ih t hds]

/-- the key line written for a plain key matches the pattern with groups `"  "`, key, `"\n"` -/
theorem matchMeta_keyline {k : Str} (h : WFKey k) :
    matchMeta (sL ">  <" ++ k ++ sL ">\n") = some (sL "  ", k, sL "\n") := by
  have hk : '>' ∉ k := fun hm => (h.plain _ hm).2.1 rfl
  have hline : sL ">  <" ++ k ++ sL ">\n" = '>' :: (sL "  " ++ '<' :: (k ++ '>' :: sL "\n")) := by simp [sL]
  rw [hline]
  obtain ⟨a1, a2⟩ := takeWhile_absent (c := '<') (s := sL "  ") (k ++ '>' :: sL "\n") (by decide)
  obtain ⟨b1, b2⟩ := takeWhile_absent (c := '>') (s := k) (sL "\n") hk
  unfold matchMeta
  simp only [a1, a2, b1, b2]
  have hne : k.isEmpty = false := by
    cases hk' : k with
    | nil => exact absurd hk' h.ne
    | cons _ _ => rfl
  simp [hne, sL]

/-- a value line the SDF format represents: already stripped, non-empty, one line, not shaped like a key line -/
structure WFValueLine (v : Str) : Prop where
  ne : v ≠ []
  stripped : strip v = v
  oneLine : '\n' ∉ v
  notKey : matchMeta (v ++ ['\n']) = none

/-- the lines of one written metadata block -/
def chunkLines (k : Str) (vs : List Str) : List Str :=
  (sL ">  <" ++ k ++ sL ">\n") :: (vs.map (· ++ ['\n'])) ++ [sL "\n"]

theorem readMetaLoop_values (k : Str) (hk : k ≠ []) :
    ∀ (vs : List Str) (rest : List Str) (d : List (Str × List Str)) (acc : List Str),
      (∀ v ∈ vs, WFValueLine v) → (d.any (·.1 == k)) = false → (acc ≠ [] ∨ True) →
      readMetaLoop (vs.map (· ++ ['\n']) ++ rest) (some k) (if acc.isEmpty then d else d ++ [(k, acc)]) =
      readMetaLoop rest (some k) (if (acc ++ vs).isEmpty then d else d ++ [(k, acc ++ vs)]) := by
  intro vs
  induction vs with
  | nil => intro rest d acc _ _ _; simp
  | cons v vs ih =>
    intro rest d acc hv hd _
    have hw := hv v (by simp)
    have hs : strip (v ++ ['\n']) = v := by rw [strip_snoc_newline, hw.stripped]
    have hvne : v.isEmpty = false := by
      cases hv' : v with
      | nil => exact absurd hv' hw.ne
      | cons _ _ => rfl
    have hkne : k.isEmpty = false := by
      cases hk' : k with
      | nil => exact absurd hk' hk
      | cons _ _ => rfl
    simp only [List.map_cons, List.cons_append, readMetaLoop, hw.notKey, hkne, Bool.not_false, if_true, hs, hvne,
      Bool.false_eq_true, if_false]
    have hstep : dictAppend (if acc.isEmpty then d else d ++ [(k, acc)]) k v =
        (if (acc ++ [v]).isEmpty then d else d ++ [(k, acc ++ [v])]) := by
      cases hacc : acc with
      | nil =>
        simp only [List.isEmpty_nil, if_true, List.nil_append, List.isEmpty_cons, Bool.false_eq_true, if_false]
        unfold dictAppend
        simp [hd]
      | cons a as =>
        simp only [List.isEmpty_cons, Bool.false_eq_true, if_false, List.cons_append, List.isEmpty_cons]
        unfold dictAppend
        have hany : (d ++ [(k, a :: as)]).any (·.1 == k) = true := by simp
        simp only [hany, if_true, List.map_append, List.map_cons, List.map_nil]
        have hmap : d.map (fun kv => if (kv.1 == k) = true then (kv.1, kv.2 ++ [v]) else kv) = d := by
          have hd' := List.any_eq_false.mp hd
          refine (List.map_congr_left (fun kv hkv => ?_)).trans (List.map_id _)
          have := hd' kv hkv
          simp only [Bool.not_eq_true] at this
          simp [this]
        have hmap' : d.map (fun kv => if kv.1 = k then (kv.1, kv.2 ++ [v]) else kv) = d := by
          simpa using hmap
        simp [hmap']
    rw [hstep]
    have := ih rest d (acc ++ [v]) (fun x hx => hv x (by simp [hx])) hd (Or.inr trivial)
    simpa [List.append_assoc] using this

/-- one written block in front of the metadata lines: its key is registered with exactly its value lines -/
theorem readMetaLoop_chunk (k : Str) (vs : List Str) (rest : List Str) (mkey : Option Str) (d : List (Str × List Str))
    (hk : WFKey k) (hv : ∀ v ∈ vs, WFValueLine v) (hne : vs ≠ []) (hd : (d.any (·.1 == k)) = false) :
    readMetaLoop (chunkLines k vs ++ rest) mkey d = readMetaLoop rest (some k) (d ++ [(k, vs)]) := by
  unfold chunkLines
  have hshape : (sL ">  <" ++ k ++ sL ">\n") :: (vs.map (· ++ ['\n'])) ++ [sL "\n"] ++ rest =
      (sL ">  <" ++ k ++ sL ">\n") :: (vs.map (· ++ ['\n']) ++ ([sL "\n"] ++ rest)) := by
    simp only [List.cons_append, List.append_assoc]
  rw [hshape]
  simp only [readMetaLoop, matchMeta_keyline hk]
  have hparts : (([sL "  ", k, sL "\n"].map strip).filter fun y => !y.isEmpty) = [k] := by
    have hkne : k.isEmpty = false := by
      cases hk' : k with
      | nil => exact absurd hk' hk.ne
      | cons _ _ => rfl
    have e1 : strip (sL "  ") = [] := by decide
    have e2 : strip (sL "\n") = [] := by decide
    simp [e1, e2, hk.stripped, hkne]
  simp only [hparts, joinWith, unescape_id_of_plain hk]
  have := readMetaLoop_values k hk.ne vs ([sL "\n"] ++ rest) d [] hv hd (Or.inr trivial)
  simp only [List.isEmpty_nil, if_true, List.nil_append] at this
  rw [this]
  have hvs : vs.isEmpty = false := by
    cases hvs' : vs with
    | nil => exact absurd hvs' hne
    | cons _ _ => rfl
  simp only [hvs, Bool.false_eq_true, if_false, List.singleton_append]
  have hm : matchMeta (sL "\n") = none := by decide
  have hkne : k.isEmpty = false := by
    cases hk' : k with
    | nil => exact absurd hk' hk.ne
    | cons _ _ => rfl
  have hs : strip (sL "\n") = [] := by decide
  simp [readMetaLoop, hm, hkne, hs]

/-- all blocks of a record's metadata -/
theorem readMetaLoop_chunks :
    ∀ (kvs : List (Str × List Str)) (mkey : Option Str) (d : List (Str × List Str)),
      (∀ kv ∈ kvs, WFKey kv.1 ∧ (∀ v ∈ kv.2, WFValueLine v) ∧ kv.2 ≠ []) →
      ((d ++ kvs).map (·.1)).Nodup →
      readMetaLoop ((kvs.map fun kv => chunkLines kv.1 kv.2).flatten) mkey d = d ++ kvs := by
  intro kvs
  induction kvs with
  | nil => intro mkey d _ _; simp [readMetaLoop]
  | cons kv kvs ih =>
    intro mkey d hwf hnd
    obtain ⟨k, vs⟩ := kv
    obtain ⟨hk, hv, hne⟩ := hwf (k, vs) (by simp)
    have hd : (d.any (·.1 == k)) = false := by
      rw [List.any_eq_false]
      intro x hx hxk
      simp only [beq_iff_eq] at hxk
      simp only [List.map_append, List.map_cons] at hnd
      have := (List.nodup_append.mp hnd).2.2 x.1 (List.mem_map_of_mem hx) k (by simp)
      exact this hxk
    simp only [List.map_cons, List.flatten_cons]
    rw [readMetaLoop_chunk k vs _ mkey d hk hv hne hd]
    have := ih (some k) (d ++ [(k, vs)]) (fun x hx => hwf x (by simp [hx])) (by simpa [List.append_assoc] using hnd)
    simpa [List.append_assoc] using this

theorem joinWith_nl : ∀ (vs : List Str), vs ≠ [] → joinWith ['\n'] vs ++ ['\n'] = (vs.map (· ++ ['\n'])).flatten
  | [], h => absurd rfl h
  | [a], _ => by simp [joinWith]
  | a :: b :: t, _ => by
    have := joinWith_nl (b :: t) (by simp)
    simp only [joinWith, List.map_cons, List.flatten_cons, List.append_assoc] at this ⊢
    rw [this]

theorem chunk_text (k : Str) (vs : List Str) (hk : WFKey k) (hne : vs ≠ []) :
    writeMetaChunk (k, joinWith ['\n'] vs) = (chunkLines k vs).flatten := by
  unfold writeMetaChunk chunkLines
  simp only [escape_id_of_plain hk, List.flatten_cons, List.flatten_append, List.flatten_nil, List.append_nil]
  have h2 : sL "\n\n" = ['\n'] ++ sL "\n" := rfl
  rw [h2, ← List.append_assoc _ ['\n'], List.append_assoc (sL ">  <" ++ k ++ sL ">\n"), joinWith_nl vs hne]

theorem chunkLines_isLine (k : Str) (vs : List Str) (hk : WFKey k) (hv : ∀ v ∈ vs, WFValueLine v) :
    ∀ l ∈ chunkLines k vs, IsLine l := by
  intro l hl
  unfold chunkLines at hl
  simp only [List.cons_append, List.mem_cons, List.mem_append, List.mem_map, List.not_mem_nil, or_false] at hl
  rcases hl with h | ⟨v, hvm, h⟩ | h
  · subst h
    refine ⟨sL ">  <" ++ k ++ ['>'], by simp [sL], ?_⟩
    intro hm
    simp only [sL, List.mem_append, List.mem_cons, List.not_mem_nil, or_false] at hm
    rcases hm with (hm | hm) | hm
    · revert hm; decide
    · exact (hk.plain _ hm).2.2.2 rfl
    · cases hm
  · subst h
    exact ⟨v, rfl, (hv v hvm).oneLine⟩
  · subst h
    exact ⟨[], rfl, by simp⟩

/-- **SDF metadata round trip**: what `SDFWrite.write` emits for the metadata dict `{k: '\n'.join(vs)}` is read back by
    `SDFRead.read_metadata` as the same ordered dict, for plain keys and normalised value lines -/
theorem sdf_meta_roundtrip (kvs : List (Str × List Str))
    (hwf : ∀ kv ∈ kvs, WFKey kv.1 ∧ (∀ v ∈ kv.2, WFValueLine v) ∧ kv.2 ≠ []) (hnd : (kvs.map (·.1)).Nodup) :
    readMeta (splitLinesKeep ((kvs.map fun kv => writeMetaChunk (kv.1, joinWith ['\n'] kv.2)).flatten)) =
      kvs.map fun kv => (kv.1, joinWith ['\n'] kv.2) := by
  have htext : (kvs.map fun kv => writeMetaChunk (kv.1, joinWith ['\n'] kv.2)).flatten =
      ((kvs.map fun kv => chunkLines kv.1 kv.2).flatten).flatten := by
    rw [List.flatten_flatten, List.map_map]
    congr 1
    apply List.map_congr_left
    intro kv hkv
    obtain ⟨h1, _, h3⟩ := hwf kv hkv
    exact chunk_text kv.1 kv.2 h1 h3
  rw [htext, splitLinesKeep_flatten]
  · unfold readMeta
    rw [readMetaLoop_chunks kvs none [] hwf (by simpa using hnd)]
    simp
  · intro l hl
    simp only [List.mem_flatten, List.mem_map] at hl
    obtain ⟨ls, ⟨kv, hkv, rfl⟩, hl⟩ := hl
    obtain ⟨h1, h2, _⟩ := hwf kv hkv
    exact chunkLines_isLine kv.1 kv.2 h1 h2 l hl

/-! ## RDF `$DTYPE / $DATUM` -/

structure WFRdfKey (k : Str) : Prop where
  ne : k ≠ []
  stripped : strip k = k
  oneLine : '\n' ∉ k

/-- a value line RDF represents: stripped, non-empty, one line, and not starting with a `$DTYPE` / `$DATUM` marker -/
structure WFRdfLine (v : Str) : Prop where
  ne : v ≠ []
  stripped : strip v = v
  oneLine : '\n' ∉ v
  notDtype : startsWith v (sL "$DTYPE") = false
  notDatum : startsWith v (sL "$DATUM") = false

def rdfChunkLines (k : Str) (vs : List Str) : List Str :=
  match vs with
  | [] => []
  | v :: tl => (sL "$DTYPE " ++ k ++ sL "\n") :: (sL "$DATUM " ++ v ++ sL "\n") :: tl.map (· ++ ['\n'])

theorem startsWith_snoc_nl {v p : Str} (hp : '\n' ∉ p) : startsWith (v ++ ['\n']) p = startsWith v p := by
  unfold startsWith
  induction p generalizing v with
  | nil => simp
  | cons c cs ih =>
    have hc : c ≠ '\n' := by intro h; subst h; simp at hp
    have hcs : '\n' ∉ cs := by intro hm; exact hp (by simp [hm])
    cases v with
    | nil => simp [List.isPrefixOf, hc]
    | cons d ds =>
      simp only [List.cons_append, List.isPrefixOf]
      rw [ih hcs]

theorem rdfMetaLoop_values (k : Str) (hk : k ≠ []) :
    ∀ (vs : List Str) (rest : List Str) (d : List (Str × List Str)) (acc : List Str),
      (∀ v ∈ vs, WFRdfLine v) → (d.any (·.1 == k)) = false → acc ≠ [] →
      rdfMetaLoop datumStrip (vs.map (· ++ ['\n']) ++ rest) k (d ++ [(k, acc)]) =
      rdfMetaLoop datumStrip rest k (d ++ [(k, acc ++ vs)]) := by
  intro vs
  induction vs with
  | nil => intro rest d acc _ _ _; simp
  | cons v vs ih =>
    intro rest d acc hv hd hacc
    have hw := hv v (by simp)
    have h1 : startsWith (v ++ ['\n']) (sL "$DTYPE") = false := by
      rw [startsWith_snoc_nl (by decide)]; exact hw.notDtype
    have h2 : datumStrip (v ++ ['\n']) = v ++ ['\n'] := by
      unfold datumStrip removePrefix
      have : (sL "$DATUM").isPrefixOf (v ++ ['\n']) = false := by
        have := startsWith_snoc_nl (v := v) (p := sL "$DATUM") (by decide)
        unfold startsWith at this
        rw [this]; exact hw.notDatum
      simp [this]
    have hs : strip (v ++ ['\n']) = v := by rw [strip_snoc_newline, hw.stripped]
    have hvne : v.isEmpty = false := by
      cases hv' : v with
      | nil => exact absurd hv' hw.ne
      | cons _ _ => rfl
    have hkne : k.isEmpty = false := by
      cases hk' : k with
      | nil => exact absurd hk' hk
      | cons _ _ => rfl
    simp only [List.map_cons, List.cons_append, rdfMetaLoop, h1, Bool.false_eq_true, if_false, hkne, Bool.not_false,
      if_true, h2, hs, hvne]
    have hstep : dictAppend (d ++ [(k, acc)]) k v = d ++ [(k, acc ++ [v])] := by
      unfold dictAppend
      have hany : (d ++ [(k, acc)]).any (·.1 == k) = true := by simp
      simp only [hany, if_true, List.map_append, List.map_cons, List.map_nil]
      have hd' := List.any_eq_false.mp hd
      have hmap : d.map (fun kv => if (kv.1 == k) = true then (kv.1, kv.2 ++ [v]) else kv) = d := by
        refine (List.map_congr_left (fun kv hkv => ?_)).trans (List.map_id _)
        have := hd' kv hkv
        simp only [Bool.not_eq_true] at this
        simp [this]
      have hmap' : d.map (fun kv => if kv.1 = k then (kv.1, kv.2 ++ [v]) else kv) = d := by simpa using hmap
      simp [hmap']
    rw [hstep]
    have := ih rest d (acc ++ [v]) (fun x hx => hv x (by simp [hx])) hd (by simp)
    simpa [List.append_assoc] using this

theorem rdfMetaLoop_chunk (k : Str) (v : Str) (vs : List Str) (rest : List Str) (mkey : Str) (d : List (Str × List Str))
    (hk : WFRdfKey k) (hv : ∀ x ∈ v :: vs, WFRdfLine x) (hd : (d.any (·.1 == k)) = false) :
    rdfMetaLoop datumStrip (rdfChunkLines k (v :: vs) ++ rest) mkey d =
      rdfMetaLoop datumStrip rest k (d ++ [(k, v :: vs)]) := by
  have hw := hv v (by simp)
  have hkne : k.isEmpty = false := by
    cases hk' : k with
    | nil => exact absurd hk' hk.ne
    | cons _ _ => rfl
  have hvne : v.isEmpty = false := by
    cases hv' : v with
    | nil => exact absurd hv' hw.ne
    | cons _ _ => rfl
  have l1 : startsWith (sL "$DTYPE " ++ k ++ sL "\n") (sL "$DTYPE") = true := by
    rw [List.append_assoc, startsWith_append_of_le _ _ _ (by decide)]; decide
  have l1k : strip ((sL "$DTYPE " ++ k ++ sL "\n").drop 7) = k := by
    have : (sL "$DTYPE " ++ k ++ sL "\n").drop 7 = k ++ ['\n'] := by simp [sL]
    rw [this, strip_snoc_newline, hk.stripped]
  have l2 : startsWith (sL "$DATUM " ++ v ++ sL "\n") (sL "$DTYPE") = false := by
    rw [List.append_assoc, startsWith_append_of_le _ _ _ (by decide)]; decide
  have l2d : strip (datumStrip (sL "$DATUM " ++ v ++ sL "\n")) = v := by
    have : datumStrip (sL "$DATUM " ++ v ++ sL "\n") = ' ' :: (v ++ ['\n']) := by
      unfold datumStrip removePrefix
      have hp : (sL "$DATUM").isPrefixOf (sL "$DATUM " ++ v ++ sL "\n") = true := by
        have := startsWith_append_of_le (sL "$DATUM") (sL "$DATUM ") (v ++ sL "\n") (by decide)
        unfold startsWith at this
        rw [List.append_assoc, this]; decide
      simp [sL]
    rw [this]
    have : (' ' :: (v ++ ['\n'])) = padLeft (v.length + 1) v ++ ['\n'] := by
      simp [padLeft]
    rw [this, strip_snoc_newline]
    unfold strip lstrip rstrip padLeft
    rw [dropWhile_replicate_append isSpace ' ' (by decide)]
    have := hw.stripped
    unfold strip lstrip rstrip at this
    exact this
  unfold rdfChunkLines
  simp only [List.cons_append, rdfMetaLoop, l1, if_true, l1k, hkne, Bool.false_eq_true, if_false, l2, Bool.not_false,
    l2d, hvne]
  have hstep : dictAppend d k v = d ++ [(k, [v])] := by
    unfold dictAppend; simp [hd]
  rw [hstep]
  have := rdfMetaLoop_values k hk.ne vs rest d [v] (fun x hx => hv x (by simp [hx])) hd (by simp)
  simpa using this

theorem rdfMetaLoop_chunks :
    ∀ (kvs : List (Str × Str × List Str)) (mkey : Str) (d : List (Str × List Str)),
      (∀ kv ∈ kvs, WFRdfKey kv.1 ∧ (∀ v ∈ kv.2.1 :: kv.2.2, WFRdfLine v)) →
      ((d.map (·.1)) ++ kvs.map (·.1)).Nodup →
      rdfMetaLoop datumStrip ((kvs.map fun kv => rdfChunkLines kv.1 (kv.2.1 :: kv.2.2)).flatten) mkey d =
        d ++ kvs.map fun kv => (kv.1, kv.2.1 :: kv.2.2) := by
  intro kvs
  induction kvs with
  | nil => intro mkey d _ _; simp [rdfMetaLoop]
  | cons kv kvs ih =>
    intro mkey d hwf hnd
    obtain ⟨k, v, vs⟩ := kv
    obtain ⟨hk, hv⟩ := hwf (k, v, vs) (by simp)
    have hd : (d.any (·.1 == k)) = false := by
      rw [List.any_eq_false]
      intro x hx hxk
      simp only [beq_iff_eq] at hxk
      simp only [List.map_cons] at hnd
      have := (List.nodup_append.mp hnd).2.2 x.1 (List.mem_map_of_mem hx) k (by simp)
      exact this hxk
    simp only [List.map_cons, List.flatten_cons]
    rw [rdfMetaLoop_chunk k v vs _ mkey d hk hv hd]
    have := ih k (d ++ [(k, v :: vs)]) (fun x hx => hwf x (by simp [hx])) (by simpa [List.append_assoc] using hnd)
    simpa [List.append_assoc] using this

theorem rdf_chunk_text (k v : Str) (vs : List Str) :
    rdfMetaChunk (k, joinWith ['\n'] (v :: vs)) = (rdfChunkLines k (v :: vs)).flatten := by
  unfold rdfMetaChunk rdfChunkLines
  have h := joinWith_nl (v :: vs) (by simp)
  simp only [List.map_cons, List.flatten_cons] at h
  have e1 : sL "\n$DATUM " = ['\n'] ++ sL "$DATUM " := rfl
  have e2 : sL "\n" = ['\n'] := rfl
  simp only [List.flatten_cons, e1, e2, List.append_assoc]
  rw [h]
  simp [List.append_assoc]

theorem rdfChunkLines_isLine (k v : Str) (vs : List Str) (hk : WFRdfKey k) (hv : ∀ x ∈ v :: vs, WFRdfLine x) :
    ∀ l ∈ rdfChunkLines k (v :: vs), IsLine l := by
  intro l hl
  unfold rdfChunkLines at hl
  simp only [List.mem_cons, List.mem_map] at hl
  rcases hl with h | h | ⟨x, hx, h⟩
  · subst h
    refine ⟨sL "$DTYPE " ++ k, by simp [sL], ?_⟩
    intro hm
    simp only [List.mem_append] at hm
    rcases hm with hm | hm
    · revert hm; decide
    · exact hk.oneLine hm
  · subst h
    refine ⟨sL "$DATUM " ++ v, by simp [sL], ?_⟩
    intro hm
    simp only [List.mem_append] at hm
    rcases hm with hm | hm
    · revert hm; decide
    · exact (hv v (by simp)).oneLine hm
  · subst h
    exact ⟨x, rfl, (hv x (by simp [hx])).oneLine⟩

/-- **RDF metadata round trip**: the `$DTYPE/$DATUM` pairs written by `RDFWrite`/`ERDFWrite` are read back by
    `RDFRead.read_metadata` (prefix removal of `$DATUM`) as the same ordered dict -/
theorem rdf_meta_roundtrip (kvs : List (Str × Str × List Str))
    (hwf : ∀ kv ∈ kvs, WFRdfKey kv.1 ∧ (∀ v ∈ kv.2.1 :: kv.2.2, WFRdfLine v)) (hnd : (kvs.map (·.1)).Nodup) :
    rdfReadMeta (splitLinesKeep ((kvs.map fun kv => rdfMetaChunk (kv.1, joinWith ['\n'] (kv.2.1 :: kv.2.2))).flatten)) =
      kvs.map fun kv => (kv.1, joinWith ['\n'] (kv.2.1 :: kv.2.2)) := by
  have htext : (kvs.map fun kv => rdfMetaChunk (kv.1, joinWith ['\n'] (kv.2.1 :: kv.2.2))).flatten =
      ((kvs.map fun kv => rdfChunkLines kv.1 (kv.2.1 :: kv.2.2)).flatten).flatten := by
    rw [List.flatten_flatten, List.map_map]
    congr 1
    apply List.map_congr_left
    intro kv _
    exact rdf_chunk_text kv.1 kv.2.1 kv.2.2
  rw [htext, splitLinesKeep_flatten]
  · unfold rdfReadMeta rdfReadMetaWith
    rw [rdfMetaLoop_chunks kvs [] [] hwf (by simpa using hnd)]
    simp
  · intro l hl
    simp only [List.mem_flatten, List.mem_map] at hl
    obtain ⟨ls, ⟨kv, hkv, rfl⟩, hl⟩ := hl
    obtain ⟨h1, h2⟩ := hwf kv hkv
    exact rdfChunkLines_isLine kv.1 kv.2.1 kv.2.2 h1 h2 l hl

end ChythonModel.Proofs.C11
