import ChythonModel.Proofs.C17Morgan
/-! C17: independence of numbering and of insertion order (for every hash function). -/
set_option linter.unusedSimpArgs false
namespace ChythonModel.Proofs.C17
open ChythonModel.Model ChythonModel.Model.Fingerprint ChythonModel.Spec.Fingerprint

/-! ## association lists under permutation and renaming -/

theorem mem_of_lookup {β : Type} (l : List (Nat × β)) (k : Nat) (v : β) (h : l.lookup k = some v) : (k, v) ∈ l :=
  lookup_mem l k v h

theorem perm_lookup {β : Type} (l l' : List (Nat × β)) (hp : l.Perm l') (hn : (l.map (·.1)).Nodup) (k : Nat) :
    l'.lookup k = l.lookup k := by
  have hn' : (l'.map (·.1)).Nodup := (hp.map _).nodup_iff.mp hn
  cases h : l.lookup k with
  | some v => exact lookup_of_mem_nodup l' k v hn' (hp.subset (mem_of_lookup l k v h))
  | none =>
    cases h' : l'.lookup k with
    | none => rfl
    | some v =>
      have := lookup_of_mem_nodup l k v hn (hp.symm.subset (mem_of_lookup l' k v h'))
      rw [h] at this; cases this

theorem lookup_rename {β : Type} (f : Nat → Nat) : ∀ (l : List (Nat × β)) (k : Nat),
    (∀ k' ∈ l.map (·.1), f k' = f k → k' = k) → (l.map fun kv => (f kv.1, kv.2)).lookup (f k) = l.lookup k
  | [], _, _ => rfl
  | (k', v) :: l, k, h => by
    have ih := lookup_rename f l k (fun a ha => h a (by simp only [List.map_cons]; exact List.mem_cons_of_mem _ ha))
    simp only [List.map_cons, List.lookup_cons, ih]
    by_cases e : k = k'
    · subst e; simp
    · have h1 : (k == k') = false := by simpa using e
      have h2 : (f k == f k') = false := by
        have : f k ≠ f k' := fun hh => e (h k' (by simp) hh.symm).symm
        simpa using this
      rw [h1, h2]

theorem nodup_map_of_inj_on {α β : Type} (f : α → β) : ∀ (l : List α), l.Nodup →
    (∀ a ∈ l, ∀ b ∈ l, f a = f b → a = b) → (l.map f).Nodup
  | [], _, _ => by simp
  | a :: l, hn, hinj => by
    rw [List.nodup_cons] at hn
    simp only [List.map_cons, List.nodup_cons]
    refine ⟨?_, nodup_map_of_inj_on f l hn.2 (fun x hx y hy => hinj x (List.mem_cons_of_mem _ hx) y (List.mem_cons_of_mem _ hy))⟩
    intro hm
    obtain ⟨b, hb, e⟩ := List.mem_map.mp hm
    have := hinj b (List.mem_cons_of_mem _ hb) a (by simp) e
    subst this; exact hn.1 hb

theorem map_inj_on (f : Nat → Nat) (S : Nat → Prop) (hinj : ∀ x, S x → ∀ y, S y → f x = f y → x = y) :
    ∀ (a b : List Nat), (∀ x ∈ a, S x) → (∀ x ∈ b, S x) → a.map f = b.map f → a = b
  | [], [], _, _, _ => rfl
  | [], _ :: _, _, _, h => by simp at h
  | _ :: _, [], _, _, h => by simp at h
  | x :: a, y :: b, ha, hb, h => by
    simp only [List.map_cons, List.cons.injEq] at h
    have e := hinj x (ha x (by simp)) y (hb y (by simp)) h.1
    subst e
    rw [map_inj_on f S hinj a b (fun z hz => ha z (List.mem_cons_of_mem _ hz))
      (fun z hz => hb z (List.mem_cons_of_mem _ hz)) h.2]

theorem wf_nbrs_nodup (m : Mol) (h : m.WF = true) (x : Nat) : ((m.nbrs x).map (·.1)).Nodup := by
  unfold Mol.nbrs
  cases hl : m.adj.lookup x with
  | none => simp
  | some ms =>
    simp only [Option.getD_some]
    have hm := lookup_mem _ _ _ hl
    unfold Mol.WF at h
    simp only [Bool.and_eq_true, decide_eq_true_eq, beq_iff_eq, List.all_eq_true] at h
    have := h.2 (x, ms) hm
    simp only [Bool.and_eq_true, decide_eq_true_eq] at this
    exact this.1

/-! ## what a renumbering preserves -/

section renum
variable {f : Nat → Nat} {m m' : Mol} (R : Renumbering f m m') (hwf : m.WF = true)
include R

theorem ren_ids : (m.ids.map f).Perm m'.ids := by
  have := R.atoms.map (·.1)
  rw [List.map_map] at this
  unfold Mol.ids
  rw [List.map_map]
  exact this

theorem ren_mem_ids' (y : Nat) : y ∈ m'.ids ↔ ∃ x ∈ m.ids, y = f x := by
  rw [← (ren_ids R).mem_iff, List.mem_map]
  constructor
  · rintro ⟨x, hx, rfl⟩; exact ⟨x, hx, rfl⟩
  · rintro ⟨x, hx, rfl⟩; exact ⟨x, hx, rfl⟩

include hwf

theorem ren_atom (x : Nat) (hx : x ∈ m.ids) : m'.atom? (f x) = m.atom? x := by
  unfold Mol.atom?
  have hn : ((m.atoms.map fun na => (f na.1, na.2)).map (·.1)).Nodup := by
    have : (m.atoms.map fun na => (f na.1, na.2)).map (·.1) = m.ids.map f := by
      simp [Mol.ids, List.map_map, Function.comp]
    rw [this]
    exact nodup_map_of_inj_on f m.ids (wf_parts m hwf).1 R.inj
  rw [perm_lookup _ _ R.atoms hn]
  exact lookup_rename f m.atoms x (fun k' hk' e => R.inj k' hk' x hx e)

theorem ren_bond (x y : Nat) (hx : x ∈ m.ids) (hy : y ∈ m.ids) : m'.bond? (f x) (f y) = m.bond? x y := by
  unfold Mol.bond?
  have hkeys : ∀ k ∈ (m.nbrs x).map (·.1), k ∈ m.ids := by
    intro k hk
    obtain ⟨kb, hkb, rfl⟩ := List.mem_map.mp hk
    exact nbrs_in_ids m hwf x kb hkb
  have hn : (((m.nbrs x).map fun kb => (f kb.1, kb.2)).map (·.1)).Nodup := by
    have : ((m.nbrs x).map fun kb => (f kb.1, kb.2)).map (·.1) = ((m.nbrs x).map (·.1)).map f := by
      simp [List.map_map, Function.comp]
    rw [this]
    exact nodup_map_of_inj_on f _ (wf_nbrs_nodup m hwf x)
      (fun a ha b hb e => R.inj a (hkeys a ha) b (hkeys b hb) e)
  rw [perm_lookup _ _ (R.nbrs x hx) hn]
  exact lookup_rename f (m.nbrs x) y (fun k' hk' e => R.inj k' (hkeys k' hk') y hy e)

theorem ren_adj (x y : Nat) (hx : x ∈ m.ids) (hy : y ∈ m.ids) : Adj m' (f x) (f y) ↔ Adj m x y := by
  rw [adj_iff_bond, adj_iff_bond, ren_bond R hwf x y hx hy]

theorem ren_identOf (H : TupleHash) (x : Nat) (hx : x ∈ m.ids) : identOf H m' (f x) = identOf H m x := by
  unfold identOf; rw [ren_atom R hwf x hx]

theorem ren_orderOf (x y : Nat) (hx : x ∈ m.ids) (hy : y ∈ m.ids) : orderOf m' (f x) (f y) = orderOf m x y := by
  unfold orderOf; rw [ren_bond R hwf x y hx hy]

/-! ## Morgan identifiers -/

theorem ren_ecIdent (H : TupleHash) : ∀ (r : Nat) (x : Nat), x ∈ m.ids → ecIdent H m' r (f x) = ecIdent H m r x
  | 0, x, hx => ren_identOf R hwf H x hx
  | r + 1, x, hx => by
    simp only [ecIdent, ecStep]
    rw [ren_ecIdent H r x hx]
    congr 3
    apply mergeSort_eq_of_perm
    have hp := (R.nbrs x hx).map fun kb => ((kb.2.order : Int), ecIdent H m' r kb.1)
    refine hp.symm.trans ?_
    rw [List.map_map]
    apply List.Perm.of_eq
    apply List.map_congr_left
    intro kb hkb
    simp only [Function.comp]
    rw [ren_ecIdent H r kb.1 (nbrs_in_ids m hwf x kb hkb)]

/-! ## simple paths and label sequences -/

theorem ren_walk : ∀ (p : Path), (∀ x ∈ p, x ∈ m.ids) → (Walk m' (p.map f) ↔ Walk m p)
  | [], _ => by simp [Walk]
  | [a], _ => by simp [Walk]
  | a :: b :: t, h => by
    have ih := ren_walk (b :: t) (fun x hx => h x (List.mem_cons_of_mem _ hx))
    simp only [List.map_cons, Walk] at ih ⊢
    rw [ih, ren_adj R hwf a b (h a (by simp)) (h b (by simp))]

theorem ren_simple (p : Path) (hp : SimplePath m p) : SimplePath m' (p.map f) := by
  refine ⟨by simpa using hp.ne, ?_, ?_, (ren_walk R hwf p hp.atoms).mpr hp.walk⟩
  · intro y hy
    obtain ⟨x, hx, rfl⟩ := List.mem_map.mp hy
    exact (ren_mem_ids' R _).mpr ⟨x, hp.atoms x hx, rfl⟩
  · exact nodup_map_of_inj_on f p hp.nodup (fun a ha b hb e => R.inj a (hp.atoms a ha) b (hp.atoms b hb) e)

theorem ren_simple_inv : ∀ (q : Path), (∀ y ∈ q, y ∈ m'.ids) → q.Nodup → Walk m' q →
    ∃ p, (∀ x ∈ p, x ∈ m.ids) ∧ p.Nodup ∧ Walk m p ∧ q = p.map f
  | [], _, _, _ => ⟨[], by simp, by simp, by simp [Walk], rfl⟩
  | y :: q, ha, hn, hw => by
    rw [List.nodup_cons] at hn
    have hw' : Walk m' q := by
      cases q with
      | nil => simp [Walk]
      | cons z q' => simp only [Walk] at hw; exact hw.2
    obtain ⟨p, hpa, hpn, hpw, rfl⟩ := ren_simple_inv q (fun z hz => ha z (List.mem_cons_of_mem _ hz)) hn.2 hw'
    obtain ⟨x, hx, rfl⟩ := (ren_mem_ids' R y).mp (ha y (by simp))
    refine ⟨x :: p, ?_, ?_, ?_, rfl⟩
    · intro z hz
      rcases List.mem_cons.mp hz with rfl | hz
      · exact hx
      · exact hpa z hz
    · rw [List.nodup_cons]
      exact ⟨fun hmem => hn.1 (List.mem_map.mpr ⟨x, hmem, rfl⟩), hpn⟩
    · cases p with
      | nil => simp [Walk]
      | cons z p' =>
        simp only [List.map_cons, Walk] at hw ⊢
        exact ⟨(ren_adj R hwf x z hx (hpa z (by simp))).mp hw.1, hpw⟩

theorem ren_simple_iff (q : Path) : SimplePath m' q ↔ ∃ p, SimplePath m p ∧ q = p.map f := by
  constructor
  · intro hq
    obtain ⟨p, hpa, hpn, hpw, rfl⟩ := ren_simple_inv R hwf q hq.atoms hq.nodup hq.walk
    exact ⟨p, ⟨by simpa using hq.ne, hpa, hpn, hpw⟩, rfl⟩
  · rintro ⟨p, hp, rfl⟩; exact ren_simple R hwf p hp

theorem ren_labelSeqFrom (H : TupleHash) : ∀ (x : Nat) (p : Path), x ∈ m.ids → (∀ y ∈ p, y ∈ m.ids) →
    labelSeqFrom H m' (f x) (p.map f) = labelSeqFrom H m x p
  | _, [], _, _ => rfl
  | x, y :: p, hx, hp => by
    have hy := hp y (by simp)
    simp only [List.map_cons, labelSeqFrom, ren_orderOf R hwf x y hx hy, ren_identOf R hwf H y hy,
      ren_labelSeqFrom H y p hy (fun z hz => hp z (List.mem_cons_of_mem _ hz))]

theorem ren_labelSeq (H : TupleHash) (p : Path) (hp : ∀ y ∈ p, y ∈ m.ids) : labelSeq H m' (p.map f) = labelSeq H m p := by
  cases p with
  | nil => rfl
  | cons x p =>
    have hx := hp x (by simp)
    simp only [List.map_cons, labelSeq, ren_identOf R hwf H x hx,
      ren_labelSeqFrom R hwf H x p hx (fun z hz => hp z (List.mem_cons_of_mem _ hz))]

theorem ren_fragKey (H : TupleHash) (p : Path) (hp : ∀ y ∈ p, y ∈ m.ids) : fragKey H m' (p.map f) = fragKey H m p := by
  unfold fragKey; rw [ren_labelSeq R hwf H p hp]

end renum

theorem canon_map_canon (f : Nat → Nat) (p : Path) : canon ((canon p).map f) = canon (p.map f) := by
  rcases canon_eq_or p with h | h <;> rw [h]
  rw [List.map_reverse, canon_reverse]

end ChythonModel.Proofs.C17
