import ChythonModel.Proofs.C06PidMain
import ChythonModel.Proofs.C06PidBfsFuel
import ChythonModel.Proofs.C06PidNoRaise
/-!
# C06 — the candidate generator of `_sssr` never raises: `pidCandidates_total`

On a well-formed symmetric graph whose pruned graph is not empty, `_skin_graph`, `_bfs`, `_make_pid` all return and no element of
the sequence `_c_set` generates is a raise (`none`): `_canonic_ring` is only ever applied to closed trails with ≥ 3 atoms,
and an odd `c_num` always comes with a `pid2` cell.
-/
namespace ChythonModel.Proofs.C06
open ChythonModel.Model.C06 ChythonModel.Spec.CycleBasis

theorem pidInitStep_isSome (st : Pid1 × Pid2 × Dist) {c : Path} (h : 2 ≤ c.length) : (pidInitStep st c).isSome = true := by
  obtain ⟨p1, p2, d⟩ := st
  unfold pidInitStep
  split
  · simp at h
  · simp at h
  · simp only
    split
    · split <;> rfl
    · rfl

theorem foldlM_pidInitStep_isSome : ∀ (cs : List Path) (st : Pid1 × Pid2 × Dist), (∀ c ∈ cs, 2 ≤ c.length) →
    (cs.foldlM pidInitStep st).isSome = true
  | [], _, _ => rfl
  | c :: cs, st, h => by
    rw [List.foldlM_cons]
    have := pidInitStep_isSome st (h c List.mem_cons_self)
    cases hs : pidInitStep st c with
    | none => rw [hs] at this; cases this
    | some st1 => exact foldlM_pidInitStep_isSome cs st1 fun x hx => h x (List.mem_cons_of_mem _ hx)

theorem makePid_isSome {paths : List Path} (h : ∀ p ∈ paths, 2 ≤ p.length) : (makePid paths).isSome = true := by
  unfold makePid pidInit
  have := foldlM_pidInitStep_isSome (sortByLenStable paths) ([], [], [])
    (fun c hc => h c ((isort_perm _ _).mem_iff.1 hc))
  cases hs : (sortByLenStable paths).foldlM pidInitStep ([], [], []) with
  | none => rw [hs] at this; cases this
  | some st => rfl

/-- what `closeRing` returns: nothing, or `_canonic_ring` of the duplicate-free closed sequence -/
theorem closeRing_mem {c1 c2 : Path} {x : Option Ring} (hx : x ∈ closeRing c1 c2) :
    (c1 ++ ((c2.drop 1).dropLast).reverse).Nodup ∧ x = canonicRing (c1 ++ ((c2.drop 1).dropLast).reverse) := by
  unfold closeRing at hx
  simp only at hx
  split at hx
  · next hnd => exact ⟨hnd, by simpa using hx⟩
  · simp at hx

theorem closeRing_length {g : Adj} {i j : Nat} {c1 c2 : Path} (h2 : PathFromTo g i j c2) :
    (c1 ++ ((c2.drop 1).dropLast).reverse).length + 2 = c1.length + c2.length := by
  obtain ⟨M, e2⟩ := path_decompose h2
  subst e2
  simp
  omega

/-- entries with `p2ij = None` have an even `c_num` -/
theorem cSetRow_parity {p2 : Pid2} {d : Dist} {seen : List Nat} {i : Nat} {row : List (Nat × Inner)}
    {e : Nat × List Path × Option (List Path)} (he : e ∈ cSetRow p2 d seen i row) (hn : e.2.2 = none) : e.1 % 2 = 0 := by
  unfold cSetRow at he
  simp only [List.mem_flatMap] at he
  obtain ⟨jp, _, he⟩ := he
  split at he
  · simp at he
  · split at he
    · split at he
      · simp at he
      · simp only [List.mem_singleton] at he
        subst he
        simp at hn
    · split at he
      · simp only [List.mem_singleton] at he
        subst he
        simp only
        omega
      · simp only [List.mem_cons, List.not_mem_nil, or_false] at he
        rcases he with he | he
        · subst he
          simp only
          omega
        · subst he
          simp at hn

theorem cSetEntries_parity {p1 : Pid1} {p2 : Pid2} {d : Dist} {e : Nat × List Path × Option (List Path)}
    (he : e ∈ cSetEntries p1 p2 d) (hn : e.2.2 = none) : e.1 % 2 = 0 := by
  unfold cSetEntries at he
  simp only [List.mem_flatMap, List.mem_range] at he
  obtain ⟨idx, _, he⟩ := he
  split at he
  · simp at he
  · exact cSetRow_parity he hn

theorem canonicRing_isSome_of_three {c : List Nat} (h3 : 3 ≤ c.length) (hnd : c.Nodup) : canonicRing c ≠ none := by
  obtain ⟨r, hr, _⟩ := canonic_ring_spec_proof c h3 hnd
  rw [hr]; simp

/-- no element of the generated sequence is a raise -/
theorem cSet_no_raise {g : Adj} {p1 : Pid1} {p2 : Pid2} {d : Dist} (hok : PidOK g p1 p2) (hnd : NoDoubleBond p1 p2) :
    none ∉ cSet p1 p2 d := by
  intro hr
  unfold cSet at hr
  simp only [List.mem_flatMap] at hr
  obtain ⟨e, he, hr⟩ := hr
  have he' : e ∈ cSetEntries p1 p2 d := (isort_perm _ _).mem_iff.1 he
  obtain ⟨irow, hi, jin, hj, e1, e2⟩ := cSetEntries_from he'
  have hcell : ∀ c ∈ e.2.1, PathFromTo g irow.1 jin.1 c := by
    intro c hc
    rw [e1] at hc
    obtain ⟨kp, hk, rfl⟩ := List.mem_map.1 hc
    exact hok.1 irow hi jin hj kp hk
  unfold cSetExpand at hr
  split at hr
  · next hodd =>
    split at hr
    · next hnone =>
      have := cSetEntries_parity he' hnone
      simp only [beq_iff_eq] at hodd
      omega
    · next q hq =>
      simp only [List.mem_flatMap] at hr
      obtain ⟨c1, h1, c2, h2, hr⟩ := hr
      rw [e2 q hq] at h2
      obtain ⟨kp, hk, rfl⟩ := List.mem_map.1 h2
      have hq2 : PathFromTo g irow.1 jin.1 kp.2 := p2get_ok hok.2 _ _ kp hk
      have hlong : 3 ≤ kp.2.length := by
        unfold p2get at hk
        cases hl : p2.lookup (irow.1, jin.1) with
        | none => rw [hl] at hk; simp at hk
        | some inner =>
          rw [hl] at hk
          exact hnd.2 _ (lookup_mem hl) kp hk
      obtain ⟨hn, hx⟩ := closeRing_mem hr
      have hlen := closeRing_length (c1 := c1) hq2
      have := (hcell c1 h1).2.1
      exact canonicRing_isSome_of_three (by omega) hn hx.symm
  · simp only [List.mem_flatMap] at hr
    obtain ⟨cc, hcc, hr⟩ := hr
    obtain ⟨h1, h2⟩ := mem_zip_drop_one _ cc.1 cc.2 hcc
    obtain ⟨hn, hx⟩ := closeRing_mem hr
    have hlen := closeRing_length (c1 := cc.1) (hcell _ h2)
    have l1 := (hcell _ h1).2.1
    have l2 := (hcell _ h2).2.1
    refine canonicRing_isSome_of_three ?_ hn hx.symm
    by_cases hb : cc.1.length = 2 ∧ cc.2.length = 2
    · exfalso
      have h2f := two_filter_of_zip_drop (fun c : Path => c.length == 2) e.2.1 cc.1 cc.2 hcc (by simp [hb.1]) (by simp [hb.2])
      rw [e1, List.filter_map, List.length_map] at h2f
      have := hnd.1 irow hi jin hj
      have e3 : (fun c : Path => c.length == 2) ∘ (fun x : (Nat × Nat) × Path => x.2) = fun kp => kp.2.length == 2 := rfl
      rw [e3] at h2f
      omega
    · omega

/-- **the candidate generator is total**: on a well-formed symmetric graph whose pruned graph is not empty every stage returns
and no generated element is a raise -/
theorem pidCandidates_total {g : Adj} (hwf : wfAdj g = true) (hsym : symAdj g = true)
    (hskin : ∀ s, skinGraph g = some s → s ≠ []) :
    ∃ cands, pidCandidates g = some cands ∧ none ∉ cands := by
  have hs := sym_of_symAdj hsym
  unfold pidCandidates sssrTrace
  cases hsk : skinGraph g with
  | none => have := skinGraph_isSome g; rw [hsk] at this; cases this
  | some s =>
    simp only
    cases hb : Model.C06.bfsPaths s with
    | none => have := bfsPaths_isSome s (hskin s hsk); rw [hb] at this; cases this
    | some paths =>
      simp only
      have hw : ∀ p ∈ paths, Walk g p ∧ 2 ≤ p.length := fun p hp =>
        ⟨walk_mono (nbrsOf_sub_of_skin (keys_nodup_of_wfAdj hwf) hsk) p (bfsPaths_walks s paths hb p hp).1,
          (bfsPaths_walks s paths hb p hp).2⟩
      cases hp : makePid paths with
      | none => have := makePid_isSome (fun p h => (hw p h).2); rw [hp] at this; cases this
      | some st =>
        obtain ⟨p1, p2, d⟩ := st
        simp only
        exact ⟨_, rfl, cSet_no_raise (makePid_ok g hs paths hw hp)
          ⟨makePid_one_short g hs paths hw hp, makePid_p2_long g hs (no_loop_of_wfAdj hwf) paths hw hp⟩⟩

theorem sssrTrace_cands_indep (g : Adj) (n k : Nat) : (sssrTrace g n).cands = (sssrTrace g k).cands := by
  unfold sssrTrace
  split
  · rfl
  · split
    · rfl
    · split <;> rfl

theorem sssrTrace_final_of_cands {g : Adj} {n : Nat} {cands : List (Option Ring)}
    (h : (sssrTrace g n).cands = some cands) : (sssrTrace g n).final = ringsFilter cands n := by
  unfold sssrTrace at h ⊢
  split at h
  · cases h
  · split at h
    · cases h
    · split at h
      · cases h
      · simp only [Option.some.injEq] at h
        subst h
        rfl

/-- **`_sssr` never crashes**: on a well-formed symmetric graph with a non-empty pruned graph the model answers `ok …` or
`notReached` (`ImplementationError`), unless the candidate generator yields nothing at all (`StopIteration` of `next(rings)`) -/
theorem sssrPid_raised_only_without_candidates {g : Adj} (hwf : wfAdj g = true) (hsym : symAdj g = true)
    (hskin : ∀ s, skinGraph g = some s → s ≠ []) {n : Nat} (h : sssrPid g n = .raised) : pidCandidates g = some [] := by
  obtain ⟨cands, hc, hnone⟩ := pidCandidates_total hwf hsym hskin
  have hcyc := sssrTrace_cands_cycles hwf hsym (p2LongFor_of_wf hwf hsym) 0 hc
  have hcn : (sssrTrace g n).cands = some cands := by rw [sssrTrace_cands_indep g n 0]; exact hc
  have hf : sssrPid g n = ringsFilter cands n := sssrTrace_final_of_cands hcn
  by_cases he : cands = []
  · rw [hc, he]
  · exfalso
    refine ringsFilter_no_raise ?_ he n (hf ▸ h)
    intro x hx
    cases x with
    | none => exact absurd hx hnone
    | some r => exact ⟨r, rfl, (hcyc r hx).1, (hcyc r hx).2.1⟩

end ChythonModel.Proofs.C06
