import ChythonModel.Proofs.C10Layout2
/-!
# C10: bond-order stream, cis/trans block and the whole pack conform to the documented layout
-/
namespace ChythonModel.Proofs.C10
open ChythonModel.Model.Pack ChythonModel.Spec.PackLayout ChythonModel.Gen

theorem byteA_val : ∀ o0 < 8, ∀ o1 < 8, ∀ o2 < 8, byteA o0 o1 o2 = o0 * 32 + o1 * 4 + o2 / 2 := by decide +kernel
theorem byteB_val : ∀ o2 < 8, ∀ o3 < 8, ∀ o4 < 8, ∀ o5 < 8,
    byteB o2 o3 o4 o5 = (o2 % 2) * 128 + o3 * 16 + o4 * 2 + o5 / 4 := by decide +kernel
theorem byteC_val : ∀ o5 < 8, ∀ o6 < 8, ∀ o7 < 8, byteC o5 o6 o7 = (o5 % 4) * 64 + o6 * 8 + o7 := by decide +kernel

theorem chunk8_layout {o0 o1 o2 o3 o4 o5 o6 o7 : Nat} (h0 : o0 < 8) (h1 : o1 < 8) (h2 : o2 < 8) (h3 : o3 < 8)
    (h4 : o4 < 8) (h5 : o5 < 8) (h6 : o6 < 8) (h7 : o7 < 8) :
    fieldsBytes [(3, o0), (3, o1), (3, o2), (3, o3), (3, o4), (3, o5), (3, o6), (3, o7)] =
      [byteA o0 o1 o2, byteB o2 o3 o4 o5, byteC o5 o6 o7] := by
  rw [byteA_val o0 h0 o1 h1 o2 h2, byteB_val o2 h2 o3 h3 o4 h4 o5 h5, byteC_val o5 h5 o6 h6 o7 h7]
  simp only [fieldsBytes, width, packFields, List.map, List.sum_cons, List.sum_nil, List.foldl]
  simp only [Nat.reduceAdd, Nat.reduceMod, Nat.reduceSub, Nat.reducePow, Nat.reduceDiv, Nat.mul_one,
    Nat.zero_mul, Nat.zero_add]
  rw [toBE3]
  congr 1
  · omega
  congr 1
  · omega
  congr 1
  omega


/-- evaluate `fieldsBytes` of a short literal field list -/
macro "fields_eval" : tactic => `(tactic| (
  simp only [fieldsBytes, width, packFields, List.map, List.sum_cons, List.sum_nil, List.foldl]
  simp only [Nat.reduceAdd, Nat.reduceMod, Nat.reduceSub, Nat.reducePow, Nat.reduceDiv, Nat.mul_one,
    Nat.zero_mul, Nat.zero_add]))

theorem orders_layout : ∀ (codes : List Nat) (b : Nat), (∀ c ∈ codes, c < 8) →
    orderEnc 0 b codes = fieldsBytes (codes.map fun c => (3, c))
  | [], b, _ => by simp [orderEnc]; rfl
  | [o0], b, h => by
    have h0 := h o0 (by simp)
    simp only [orderEnc, Nat.reduceBNe, ↓reduceIte]
    rw [flushA1]
    have := byteA_val o0 h0 0 (by decide) 0 (by decide)
    simp only [byteA] at this; rw [this]
    fields_eval; rw [toBE1]; congr 1; omega
  | [o0, o1], b, h => by
    have h0 := h o0 (by simp); have h1 := h o1 (by simp)
    simp only [orderEnc, Nat.reduceBNe, ↓reduceIte]
    rw [flushA2]
    have := byteA_val o0 h0 o1 h1 0 (by decide)
    simp only [byteA] at this; rw [this]
    fields_eval; rw [toBE1]; congr 1; omega
  | [o0, o1, o2], b, h => by
    have h0 := h o0 (by simp); have h1 := h o1 (by simp); have h2 := h o2 (by simp)
    simp only [orderEnc, Nat.reduceBNe, ↓reduceIte]
    rw [flushB3]
    have hA := byteA_val o0 h0 o1 h1 o2 h2
    have hB := byteB_val o2 h2 0 (by decide) 0 (by decide) 0 (by decide)
    simp only [byteA, byteB] at hA hB; rw [hA, hB]
    fields_eval; rw [toBE2]; congr 1; · omega
    congr 1; omega
  | [o0, o1, o2, o3], b, h => by
    have h0 := h o0 (by simp); have h1 := h o1 (by simp); have h2 := h o2 (by simp); have h3 := h o3 (by simp)
    simp only [orderEnc, Nat.reduceBNe, ↓reduceIte]
    rw [flushB4]
    have hA := byteA_val o0 h0 o1 h1 o2 h2
    have hB := byteB_val o2 h2 o3 h3 0 (by decide) 0 (by decide)
    simp only [byteA, byteB] at hA hB; rw [hA, hB]
    fields_eval; rw [toBE2]; congr 1; · omega
    congr 1; omega
  | [o0, o1, o2, o3, o4], b, h => by
    have h0 := h o0 (by simp); have h1 := h o1 (by simp); have h2 := h o2 (by simp); have h3 := h o3 (by simp)
    have h4 := h o4 (by simp)
    simp only [orderEnc, Nat.reduceBNe, ↓reduceIte]
    rw [flushB5]
    have hA := byteA_val o0 h0 o1 h1 o2 h2
    have hB := byteB_val o2 h2 o3 h3 o4 h4 0 (by decide)
    simp only [byteA, byteB] at hA hB; rw [hA, hB]
    fields_eval; rw [toBE2]; congr 1; · omega
    congr 1; omega
  | [o0, o1, o2, o3, o4, o5], b, h => by
    have h0 := h o0 (by simp); have h1 := h o1 (by simp); have h2 := h o2 (by simp); have h3 := h o3 (by simp)
    have h4 := h o4 (by simp); have h5 := h o5 (by simp)
    simp only [orderEnc, Nat.reduceBNe, ↓reduceIte]
    rw [flushC6]
    have hA := byteA_val o0 h0 o1 h1 o2 h2
    have hB := byteB_val o2 h2 o3 h3 o4 h4 o5 h5
    have hC := byteC_val o5 h5 0 (by decide) 0 (by decide)
    simp only [byteA, byteB, byteC] at hA hB hC; rw [hA, hB, hC]
    fields_eval; rw [toBE3]; congr 1; · omega
    congr 1; · omega
    congr 1; omega
  | [o0, o1, o2, o3, o4, o5, o6], b, h => by
    have h0 := h o0 (by simp); have h1 := h o1 (by simp); have h2 := h o2 (by simp); have h3 := h o3 (by simp)
    have h4 := h o4 (by simp); have h5 := h o5 (by simp); have h6 := h o6 (by simp)
    simp only [orderEnc, Nat.reduceBNe, ↓reduceIte]
    rw [flushC7]
    have hA := byteA_val o0 h0 o1 h1 o2 h2
    have hB := byteB_val o2 h2 o3 h3 o4 h4 o5 h5
    have hC := byteC_val o5 h5 o6 h6 0 (by decide)
    simp only [byteA, byteB, byteC] at hA hB hC; rw [hA, hB, hC]
    fields_eval; rw [toBE3]; congr 1; · omega
    congr 1; · omega
    congr 1; omega
  | o0 :: o1 :: o2 :: o3 :: o4 :: o5 :: o6 :: o7 :: rest, b, h => by
    have h0 := h o0 (by simp); have h1 := h o1 (by simp); have h2 := h o2 (by simp); have h3 := h o3 (by simp)
    have h4 := h o4 (by simp); have h5 := h o5 (by simp); have h6 := h o6 (by simp); have h7 := h o7 (by simp)
    have hrest : ∀ c ∈ rest, c < 8 := fun c hc => h c (by simp [hc])
    have ih := orders_layout rest (u8 (u8 (o5 <<< 6) ||| o6 <<< 3)) hrest
    have hok : FieldsOK (rest.map fun c => ((3, c) : Field)) := by
      intro f hf
      obtain ⟨c, hc, rfl⟩ := List.mem_map.mp hf
      exact hrest c hc
    have e : (o0 :: o1 :: o2 :: o3 :: o4 :: o5 :: o6 :: o7 :: rest).map (fun c => ((3, c) : Field)) =
        [(3, o0), (3, o1), (3, o2), (3, o3), (3, o4), (3, o5), (3, o6), (3, o7)] ++ rest.map fun c => (3, c) := rfl
    rw [e, fieldsBytes_append _ _ (by simp [width]) hok, chunk8_layout h0 h1 h2 h3 h4 h5 h6 h7, ← ih]
    simp only [orderEnc, byteA, byteB, byteC, List.cons_append, List.nil_append]


theorem ct_block_layout (terminals : List (Nat × Nat × Nat)) : ∀ (fs : List (Nat × PNbr)),
    (∀ p ∈ fs, p.2.stereo.isSome → ∃ tn tm, terminals.lookup p.1 = some (tn, tm) ∧ tn < 4096 ∧ tm < 4096) →
    ∃ cf ct, ctFields terminals fs = some cf ∧ ctBlock terminals fs = .ok ct ∧ fieldsBytes cf = ct ∧
      width cf % 8 = 0 ∧ FieldsOK cf
  | [], _ => ⟨[], [], rfl, rfl, rfl, rfl, fieldsOK_nil⟩
  | (n, nb) :: rest, h => by
    obtain ⟨cf, ct, i1, i2, i3, i4, i5⟩ := ct_block_layout terminals rest (fun p hp => h p (by simp [hp]))
    cases hs : nb.stereo with
    | none => exact ⟨cf, ct, by simp [ctFields, hs, i1], by simp [ctBlock, hs, i2], i3, i4, i5⟩
    | some s =>
      obtain ⟨tn, tm, hl, h1, h2⟩ := h (n, nb) (by simp) (by simp [hs])
      have e1 : u16 tn = tn := u16_id (Nat.lt_trans h1 (by decide))
      have e2 : u16 tm = tm := u16_id (Nat.lt_trans h2 (by decide))
      have hok : FieldsOK [(12, tn), (12, tm), (7, 0), (1, if s then 1 else 0)] :=
        fieldsOK_cons (by simpa using h1) (fieldsOK_cons (by simpa using h2) (fieldsOK_cons (by simp)
          (fieldsOK_cons (by cases s <;> simp) fieldsOK_nil)))
      refine ⟨[(12, tn), (12, tm), (7, 0), (1, if s then 1 else 0)] ++ cf,
        [u8 (tn >>> 4), u8 (tn <<< 4 ||| tm >>> 8), u8 tm, if s then 1 else 0] ++ ct, ?_, ?_, ?_, ?_,
        fieldsOK_append hok i5⟩
      · simp only [ctFields, hs, hl, i1]; rfl
      · simp only [ctBlock, hs, ctEntry, hl, e1, e2, i2]; rfl
      · rw [fieldsBytes_append _ _ (by simp [width]) i5, ct_layout tn tm s h1 h2, i3]
      · rw [width_append]; simp only [width, List.map, List.sum_cons, List.sum_nil] at i4 ⊢; omega

theorem bondsInOrder_eq : ∀ (seen : List Nat) (atoms : List PAtom), bondsInOrder seen atoms = firstSeen seen atoms
  | _, [] => rfl
  | seen, a :: rest => by simp only [bondsInOrder, firstSeen, bondsInOrder_eq (a.num :: seen) rest]

theorem connFields_eq (atoms : List PAtom) : connFields atoms = (flatM atoms).map fun m => (12, m) := by
  simp only [connFields, flatM, List.map_flatMap, List.map_map]; rfl

/-- **bit-for-bit conformance**: for every molecule within the format limits the packer's bytes are exactly the
    documented version-2 layout. -/
theorem encode_is_layout_aux (m : PMol) (h : WF m) : ∃ bytes, encode m = .ok bytes ∧ layoutBytes m = some bytes := by
  obtain ⟨af, ab, a1, a2, a3, a4, a5⟩ := atoms_layout m.atoms h.atomsOK
  obtain ⟨cf, ct, c1, c2, c3, _, _⟩ := ct_block_layout m.terminals (firstSeen [] m.atoms) h.terminals
  obtain ⟨F, hF⟩ : ∃ F, (firstSeen [] m.atoms).length = F := ⟨_, rfl⟩
  have hT : (m.atoms.map (·.nbrs.length)).sum = 2 * F := by rw [← hF]; exact h.handshake.symm
  have hcount := h.count
  have hu2 : u16 m.atoms.length = m.atoms.length := u16_id (by omega)
  have hu3 : u16 (ctCount m.atoms) = ctCount m.atoms := u16_id (by have := h.ctLimit; omega)
  have hflat := flatNbrs_eq m.atoms h.nbrRange
  have hflen : (flatM m.atoms).length = 2 * F := by rw [flatM_length, hT]
  have hcodes : ∀ c ∈ orderCodes m.atoms, c < 8 := by
    intro c hc
    simp only [orderCodes, List.mem_map] at hc
    obtain ⟨p, hp, rfl⟩ := hc
    obtain ⟨a, ha, hnb⟩ := firstSeen_mem [] m.atoms p hp
    exact (code_roundtrip (h.graph.order a ha p.2 hnb)).1
  have hconn := conn_layout (flatM m.atoms) 0 (flatM_lt _ h.nbrRange) (by omega)
  have hord := orders_layout (orderCodes m.atoms) 0 hcodes
  have hof : orderFields m.atoms = (orderCodes m.atoms).map fun c => (3, c) := by
    simp only [orderFields, orderCodes, bondsInOrder_eq, List.map_map]
    apply List.map_congr_left
    intro p hp
    obtain ⟨a, ha, hnb⟩ := firstSeen_mem [] m.atoms p hp
    have := h.graph.order a ha p.2 hnb
    simp only [Function.comp, u8]
    congr 1; omega
  have hokconn : FieldsOK ((flatM m.atoms).map fun m => ((12, m) : Field)) := by
    intro f hf
    obtain ⟨x, hx, rfl⟩ := List.mem_map.mp hf
    exact flatM_lt _ h.nbrRange x hx
  refine ⟨header m.atoms ++ ab ++ pairEnc true 0 (flatM m.atoms) ++ orderEnc 0 0 (orderCodes m.atoms) ++ ct, ?_, ?_⟩
  · simp only [encode, checkLimits_ok h, encodeRaw, a2, c2, hflat]; rfl
  · simp only [layoutBytes, a1, bondsInOrder_eq, c1, stereoBondCount]
    show some (fieldsBytes ([(8, 2), (12, m.atoms.length), (12, ctCount m.atoms)] ++ af ++ connFields m.atoms) ++
      fieldsBytes (orderFields m.atoms) ++ fieldsBytes cf) = _
    rw [connFields_eq, hof, ← hord, c3,
      fieldsBytes_append _ _ (by rw [width_append, a4]; simp [width]; omega) hokconn,
      fieldsBytes_append _ _ (by simp [width]) a5, a3, ← hconn,
      header_layout _ _ (by omega) (by have := h.ctLimit; omega)]
    simp only [header, hu2, hu3]

end ChythonModel.Proofs.C10
