import ChythonModel.Proofs.C09Search
import ChythonModel.Proofs.C09Api
import ChythonModel.Proofs.C09Closure
namespace ChythonModel.Proofs.C09
open ChythonModel.Model.Bits ChythonModel.Gen.Bits ChythonModel.Model.Query ChythonModel.Model

/-- closure bond mask vs bond word: the "atom doesn't matter" bits cover any word-I element bit -/
theorem closure_mask_eq_bondEq (qb : QBond) (a : MAtom) (b : MBond) (mdl : Nat) (ha : ADom mdl a) (hb : BDom qb b) :
    (closureWord qb &&& bondWord (atomV1 a) b == bondWord (atomV1 a) b) = bondEq qb b := by
  have hw : bondWord (atomV1 a) b = orShifts 0 [zPos1 a.z, orderPos b.order, ringPos b.inRing] := by
    unfold bondWord
    rw [atomV1_eq, sOrderBit_eq, pos1_eq]
    have : (if b.inRing then sRingYes else sRingNo) = 1 <<< ringPos b.inRing := by
      cases b.inRing <;> simp [ringPos, sRingYes, sRingNo]
    rw [this]
    simp [orShifts, Nat.or_assoc]
  rw [hw, sub_orShifts]
  have wo := within_qOrderBits cOrd1 cOrd2 cOrd3 cOrd4 cOrdElse cOrderBit_eq qb.orders
  have wr := within_qRingBit cRingAny cRingYes cRingNo (by decide) (by decide) (by decide) qb.inRing
  have wa : Within cAtomAny 0 57 := by
    have : cAtomAny = (2 ^ 57 - 1) <<< 0 := by decide
    rw [this]; exact within_run 57 0
  have hz1 : zPos1 a.z < 57 := by
    unfold zPos1; by_cases h : a.z > 56
    · simp [h]
    · have := ha.z_lo; simp only [h, if_false]; omega
  have ho := orderPos_range b.order
  have hr : 57 ≤ ringPos b.inRing ∧ ringPos b.inRing ≤ 58 := by cases b.inRing <;> simp [ringPos]
  have t1 : (closureWord qb).testBit (zPos1 a.z) = true := by
    unfold closureWord
    rw [Nat.testBit_or, Nat.testBit_or]
    have : cAtomAny.testBit (zPos1 a.z) = true := by
      have : cAtomAny = (2 ^ 57 - 1) <<< 0 := by decide
      rw [this, testBit_run]; simp; omega
    rw [this]; simp
  have t2 : (closureWord qb).testBit (orderPos b.order) = qb.orders.contains b.order := by
    unfold closureWord
    rw [Nat.testBit_or, Nat.testBit_or, wa.out (p := orderPos b.order) (by omega), wr.out (p := orderPos b.order) (by omega),
      qOrderBits_at cOrd1 cOrd2 cOrd3 cOrd4 cOrdElse cOrderBit_eq qb.orders b.order hb.o hb.qo]; simp
  have t3 : (closureWord qb).testBit (ringPos b.inRing) = (match qb.inRing with | some x => x == b.inRing | none => true) := by
    unfold closureWord
    rw [Nat.testBit_or, Nat.testBit_or, wa.out (p := ringPos b.inRing) (by omega), wo.out (p := ringPos b.inRing) (by omega),
      qRingBit_at cRingAny cRingYes cRingNo (by decide) (by decide) (by decide)]
    cases qb.inRing <;> simp
  simp only [List.all_cons, List.all_nil, Bool.and_true, t1, t2, t3, not_bondEq, Bool.true_and]
  cases qb.inRing <;> rfl

theorem bondWord_ne_zero (v : Nat) (b : MBond) : bondWord v b ≠ 0 := by
  intro h
  have : (bondWord v b).testBit (ringPos b.inRing) = true := by
    unfold bondWord
    have : (if b.inRing then sRingYes else sRingNo) = 1 <<< ringPos b.inRing := by
      cases b.inRing <;> simp [ringPos, sRingYes, sRingNo]
    rw [this, Nat.testBit_or, testBit_shl1]; simp
  rw [h] at this; simp at this


/-- every row of the regenerated periodic table carries the same `mdl_isotope` / atomic number in its query class -/
theorem table_rows : ∀ r ∈ ChythonModel.Gen.periodicTable, r.qmdl = some r.mdl ∧ r.qz = some r.z := by
  decide +kernel

/-! ## the reference search on the encoded structure -/

/-- what the buffers encode: molecule atoms / bonds by array index, query atoms / bonds by depth in the linearised component -/
structure Decode where
  mat : Nat → MAtom
  mdl : Nat → Nat
  mbd : Nat → Nat → MBond
  qat : Nat → QAtom
  qmdl : Nat → Nat
  qbd : Nat → QBond
  qcb : Nat → Nat → QBond

def wordsOfC (ca : CAtom) : Words := ⟨ca.b1, ca.b2, ca.b3, ca.b4⟩
def wordsOfQ (qa : CQAtom) : Words := ⟨qa.m1, qa.m2, qa.m3, qa.m4⟩

/-- the buffers are faithful encodings of `D` (what `encStructure` / `encComponent` produce; checked on every correspondence case
    by comparing the model's buffers with the real ones) and every (query atom, atom) pair is inside the documented domain -/
structure Faithful (D : Decode) (cm : CMol) (cq : CQuery) : Prop where
  atoms : ∀ i ca, cm.atoms[i]? = some ca →
    wordsOfC ca = atomWords (D.mdl i) (D.mat i) ∧ ADom (D.mdl i) (D.mat i) ∧ mdlOf (D.mat i).z = some (D.mdl i)
  rows : ∀ i ca row, cm.atoms[i]? = some ca → slice? cm.bonds ca.from_ ca.to_ = some row →
    (row.map (·.index)).Nodup ∧
    ∀ ib ∈ row, ib.bond = bondWord (atomV1 (D.mat ib.index)) (D.mbd i ib.index) ∧ OrderOk (D.mbd i ib.index).order ∧
      ib.index < cm.atoms.length
  qatoms : ∀ j qa, cq.atoms[j + 1]? = some qa →
    wordsOfQ qa = qWords (D.qmdl (j + 1)) (D.qat (j + 1)) (some (D.qbd (j + 1))) ∧
    (∀ x ∈ (D.qbd (j + 1)).orders, OrderOk x)
  qroot : ∀ qa, cq.atoms[0]? = some qa → wordsOfQ qa = qWords (D.qmdl 0) (D.qat 0) none
  qdom : ∀ j, j < cq.atoms.length → QDom (D.qat j) ∧ qmdlFor (D.qat j) = .ok (D.qmdl j)
  qrows : ∀ j qa, cq.atoms[j]? = some qa →
    ∃ qb, slice? cq.bonds qa.from_ qa.to_ = some qb ∧ qb.length = qa.closure ∧ (qb.map (·.index)).Nodup ∧
      ∀ jb ∈ qb, jb.index < j ∧ jb.bond = closureWord (D.qcb j jb.index) ∧ (∀ x ∈ (D.qcb j jb.index).orders, OrderOk x)
  pairs : ∀ j i, j < cq.atoms.length → i < cm.atoms.length → NoHeavyClash (D.qat j) (D.mat i) ∧ HKnown (D.qat j) (D.mat i)

/-- `s_bond == o_bond and s_atom == o_atom` on the decoded objects -/
def refNext (D : Decode) (j n' mi : Nat) : Bool := pyEq (D.qat j) (D.mat mi) && bondEq (D.qbd j) (D.mbd n' mi)

/-- `o_closures == {mapping[m] …} and all(bond == obon[mapping[m]] …)` on the decoded objects -/
def refClosure (D : Decode) (j mi : Nat) (hits qb : List CBond) (images : List Nat) : Bool :=
  Iso.setEq (hits.map (·.index)) images &&
  (qb.zip images).all fun (jb, x) => bondEq (D.qcb j jb.index) (D.mbd mi x)

def closureR (D : Decode) (m : CMol) (q : CQuery) (j : Nat) (qa : CQAtom) (mi : Nat) (mAtom : CAtom) (n : Nat)
    (matched : List Bool) (path : List Nat) : Option Bool :=
  match slice? m.bonds mAtom.from_ mAtom.to_ with
  | none => none
  | some nb =>
    match nb.mapM (fun jb => matched[jb.index]?) with
    | none => none
    | some flags =>
      match slice? q.bonds qa.from_ qa.to_ with
      | none => none
      | some qb =>
        match qb.mapM (fun jb => path[jb.index]?) with
        | none => none
        | some images => some (refClosure D j mi (hitsOf nb flags n) qb images)

def candidatesR (D : Decode) (m : CMol) (q : CQuery) (scope : List Bool) (j : Nat) (qa : CQAtom) (n : Nat) (matched : List Bool)
    (path : List Nat) : List CBond → Option (List Nat)
  | [] => some []
  | ib :: rest =>
    match candidatesR D m q scope j qa n matched path rest with
    | none => none
    | some tl =>
      match m.atoms[ib.index]?, scope[ib.index]?, matched[ib.index]? with
      | some mAtom, some sc, some mt =>
        if sc && !mt && refNext D j n ib.index then
          match closureR D m q j qa ib.index mAtom n matched path with
          | none => none
          | some true => some (ib.index :: tl)
          | some false => some tl
        else some tl
      | _, _, _ => none


theorem mapM_some_eq {α β} (g : α → Option β) (d : β) :
    ∀ (l : List α) (w : List β), l.mapM g = some w →
      w = l.map (fun m => (g m).getD d) ∧ ∀ m ∈ l, ∃ y, g m = some y := by
  intro l
  induction l with
  | nil => intro w h; simp at h; simp [h]
  | cons a l ih =>
    intro w h
    rw [List.mapM_cons] at h
    cases hga : g a with
    | none => simp [hga] at h
    | some y =>
      cases hl : l.mapM g with
      | none => simp [hga, hl] at h
      | some w' =>
        simp [hga, hl] at h
        obtain ⟨hw, hall⟩ := ih w' hl
        subst h
        refine ⟨by simp [hga, ← hw], ?_⟩
        intro m hm
        rcases List.mem_cons.1 hm with rfl | hm
        · exact ⟨y, hga⟩
        · exact hall m hm

theorem nextOk_eq_nextW (qa : CQAtom) (bond : Nat) (ca : CAtom) : nextOk qa bond ca = nextW (wordsOfQ qa) bond (wordsOfC ca) := rfl
theorem rootOk_eq_rootW (qa : CQAtom) (ca : CAtom) : rootOk qa ca = rootW (wordsOfQ qa) (wordsOfC ca) := rfl

/-- one candidate of the bond-row scan: the compiled test is the reference test on the decoded objects -/
theorem nextOk_eq_ref (D : Decode) (cm : CMol) (cq : CQuery) (hF : Faithful D cm cq) (j n' : Nat) (qa : CQAtom) (nAtom mAtom : CAtom)
    (row : List CBond) (ib : CBond)
    (hqa : cq.atoms[j + 1]? = some qa) (hn : cm.atoms[n']? = some nAtom) (hr : slice? cm.bonds nAtom.from_ nAtom.to_ = some row)
    (hib : ib ∈ row) (hm : cm.atoms[ib.index]? = some mAtom) :
    nextOk qa ib.bond mAtom = refNext D (j + 1) n' ib.index := by
  obtain ⟨hw, had, hmdl⟩ := hF.atoms ib.index mAtom hm
  obtain ⟨_, hrow⟩ := hF.rows n' nAtom row hn hr
  obtain ⟨hb, ho, _⟩ := hrow ib hib
  obtain ⟨hqw, hqo⟩ := hF.qatoms j qa hqa
  have hjl : j + 1 < cq.atoms.length := (List.getElem?_eq_some_iff.mp hqa).1
  have hil : ib.index < cm.atoms.length := (List.getElem?_eq_some_iff.mp hm).1
  obtain ⟨hqd, hqm⟩ := hF.qdom (j + 1) hjl
  obtain ⟨hc, hh⟩ := hF.pairs (j + 1) ib.index hjl hil
  rw [nextOk_eq_nextW, hw, hqw, hb]
  rw [mask_next_norm (D.mdl ib.index) (D.qmdl (j + 1)) (D.qat (j + 1)) (D.qbd (j + 1)) (D.mat ib.index) (D.mbd n' ib.index) hqd had
      ⟨ho, hqo⟩ (qmdl_eq _ _ _ _ hmdl hqm hc (fun z => mdl_tables_agree_gen ChythonModel.Gen.periodicTable table_rows z)),
    pyEq_norm_eq _ _ hc hh]
  rfl


theorem all_congr_mem {α} (l : List α) (f g : α → Bool) (h : ∀ x ∈ l, f x = g x) : l.all f = l.all g := by
  induction l with
  | nil => rfl
  | cons a t ih =>
    simp only [List.all_cons, h a (by simp)]
    rw [ih (fun x hx => h x (by simp [hx]))]

theorem mapM_ne_none {α β} (g : α → Option β) (l : List α) (h : ∀ m ∈ l, ∃ y, g m = some y) : ∃ w, l.mapM g = some w := by
  induction l with
  | nil => exact ⟨[], by simp⟩
  | cons a l ih =>
    obtain ⟨y, hy⟩ := h a (by simp)
    obtain ⟨w, hw⟩ := ih (fun m hm => h m (by simp [hm]))
    exact ⟨y :: w, by rw [List.mapM_cons, hy, hw]; simp⟩

theorem hitsOf_sub (nb : List CBond) (flags : List Bool) (n : Nat) : (hitsOf nb flags n).Sublist nb := by
  unfold hitsOf
  have h1 : ((nb.zip flags).filter fun (jb, f) => jb.index != n && f).Sublist (nb.zip flags) := List.filter_sublist
  have h2 := h1.map (·.1)
  refine h2.trans ?_
  -- map fst (zip nb flags) is a sublist (prefix) of nb
  clear h1 h2
  induction nb generalizing flags with
  | nil => simp
  | cons a nb ih =>
    cases flags with
    | nil => simp
    | cons f flags => simp only [List.zip_cons_cons, List.map_cons]; exact (ih flags).cons₂ a

theorem images_nodup (path : List Nat) (hp : path.Nodup) (qb : List CBond) (hq : (qb.map (·.index)).Nodup) (images : List Nat)
    (h : qb.mapM (fun jb => path[jb.index]?) = some images) : images.Nodup := by
  obtain ⟨he, hs⟩ := mapM_some_eq (fun jb : CBond => path[jb.index]?) 0 qb images h
  subst he
  have : (qb.map fun m => (path[m.index]?).getD 0) = (qb.map (·.index)).map (fun i => (path[i]?).getD 0) := by
    rw [List.map_map]; rfl
  rw [this]
  apply List.Nodup.map_on _ hq
  intro i hi k hk heq
  obtain ⟨jb, hjb, rfl⟩ := List.mem_map.mp hi
  obtain ⟨kb, hkb, rfl⟩ := List.mem_map.mp hk
  obtain ⟨y, hy⟩ := hs jb hjb
  obtain ⟨z, hz⟩ := hs kb hkb
  rw [hy, hz] at heq
  simp only [Option.getD_some] at heq
  subst heq
  obtain ⟨h1, e1⟩ := List.getElem?_eq_some_iff.mp hy
  obtain ⟨h2, e2⟩ := List.getElem?_eq_some_iff.mp hz
  exact (List.Nodup.getElem_inj_iff hp).mp (e1.trans e2.symm)

/-- the closure block: compiled counter test on the buffers = reference set test on the decoded bonds -/
theorem closureC_eq_R (D : Decode) (cm : CMol) (cq : CQuery) (hF : Faithful D cm cq) (j mi n : Nat) (qa : CQAtom) (mAtom : CAtom)
    (matched : List Bool) (path : List Nat)
    (hqa : cq.atoms[j]? = some qa) (hm : cm.atoms[mi]? = some mAtom) (hp : path.Nodup) (hlen : j ≤ path.length) :
    closureC cm cq qa mAtom n matched path = closureR D cm cq j qa mi mAtom n matched path := by
  unfold closureR
  cases h1 : slice? cm.bonds mAtom.from_ mAtom.to_ with
  | none => simp [closureC, h1]
  | some nb =>
    simp only
    cases h2 : nb.mapM (fun jb => matched[jb.index]?) with
    | none => simp [closureC, h1, h2]
    | some flags =>
      simp only
      obtain ⟨qb, h3, hk, hqn, hqb⟩ := hF.qrows j qa hqa
      rw [h3]
      simp only
      obtain ⟨images, h4⟩ := mapM_ne_none (fun jb : CBond => path[jb.index]?) qb (by
        intro jb hjb
        have := (hqb jb hjb).1
        exact ⟨path[jb.index]'(by omega), List.getElem?_eq_getElem (by omega)⟩)
      rw [h4]
      simp only
      rw [closureC_eq cm cq qa mAtom n matched path nb qb flags images h1 h2 h3 h4]
      congr 1
      obtain ⟨hrn, hrow⟩ := hF.rows mi mAtom nb hm h1
      have hsub := hitsOf_sub nb flags n
      have hhn : ((hitsOf nb flags n).map (·.index)).Nodup := hrn.sublist (hsub.map _)
      have hin := images_nodup path hp qb hqn images h4
      have hz : ∀ h ∈ hitsOf nb flags n, h.bond ≠ 0 := by
        intro h hh
        rw [(hrow h (hsub.subset hh)).1]; exact bondWord_ne_zero _ _
      have hil : images.length = qa.closure := by
        have := (mapM_some_eq (fun jb : CBond => path[jb.index]?) 0 qb images h4).1
        rw [this, List.length_map, hk]
      rw [closure_tests_agree _ qb images qa.closure hhn hin hz hk hil]
      unfold closureSetTest refClosure
      cases hse : Iso.setEq ((hitsOf nb flags n).map (·.index)) images
      · rfl
      · simp only [Bool.true_and]
        apply all_congr_mem
        intro p hp'
        obtain ⟨jb, x⟩ := p
        have hjb : jb ∈ qb := (List.of_mem_zip hp').1
        have hx : x ∈ images := (List.of_mem_zip hp').2
        rw [Iso.setEq, Bool.and_eq_true, List.all_eq_true, List.all_eq_true] at hse
        have hxin : x ∈ (hitsOf nb flags n).map (·.index) := List.contains_iff_mem.mp (hse.2 x hx)
        have hfs := (find_some_iff_mem (hitsOf nb flags n) x).mpr hxin
        cases hf : (hitsOf nb flags n).find? (·.index == x) with
        | none => rw [hf] at hfs; simp at hfs
        | some h =>
          simp only
          have hmem := List.mem_of_find?_eq_some hf
          have hidx : h.index = x := by have := List.find?_some hf; simpa using this
          obtain ⟨hbw, hbo, hlt⟩ := hrow h (hsub.subset hmem)
          obtain ⟨_, hjw, hjo⟩ := hqb jb hjb
          obtain ⟨_, had, _⟩ := hF.atoms h.index cm.atoms[h.index] (List.getElem?_eq_getElem hlt)
          rw [hjw, hbw, hidx] at *
          exact closure_mask_eq_bondEq _ _ _ _ (hidx ▸ had) ⟨hidx ▸ hbo, hjo⟩


theorem candidatesC_eq_R (D : Decode) (cm : CMol) (cq : CQuery) (hF : Faithful D cm cq) (scope : List Bool) (j n' : Nat) (qa : CQAtom)
    (nAtom : CAtom) (row : List CBond) (matched : List Bool) (path : List Nat)
    (hqa : cq.atoms[j + 1]? = some qa) (hn : cm.atoms[n']? = some nAtom) (hr : slice? cm.bonds nAtom.from_ nAtom.to_ = some row)
    (hp : path.Nodup) (hlen : j + 1 ≤ path.length) (rest : List CBond) (hrest : ∀ ib ∈ rest, ib ∈ row) :
    candidatesC cm cq scope qa n' matched path rest = candidatesR D cm cq scope (j + 1) qa n' matched path rest := by
  induction rest with
  | nil => rfl
  | cons ib rest ih =>
    have ih' := ih (fun x hx => hrest x (by simp [hx]))
    simp only [candidatesC, candidatesR, Option.bind_eq_bind, Option.pure_def, bind, pure, ih']
    cases htl : candidatesR D cm cq scope (j + 1) qa n' matched path rest with
    | none => simp
    | some tl =>
      simp only [Option.bind_some]
      cases hm : cm.atoms[ib.index]? with
      | none => simp
      | some mAtom =>
        cases hs : scope[ib.index]? with
        | none => simp
        | some sc =>
          cases hmt : matched[ib.index]? with
          | none => simp
          | some mt =>
            simp only [Option.bind_some]
            rw [nextOk_eq_ref D cm cq hF j n' qa nAtom mAtom row ib hqa hn hr (hrest ib (by simp)) hm,
              closureC_eq_R D cm cq hF (j + 1) ib.index n' qa mAtom matched path hqa hm hp hlen]
            by_cases hc : (sc && !mt && refNext D (j + 1) n' ib.index) = true
            · simp only [hc, if_true]
              cases closureR D cm cq (j + 1) qa ib.index mAtom n' matched path with
              | none => simp
              | some b => cases b <;> simp
            · have hc' : (sc && !mt && refNext D (j + 1) n' ib.index) = false := by simpa using hc
              simp [hc']

/-- the expansion step with the reference tests -/
def expandR (D : Decode) (m : CMol) (q : CQuery) (scope : List Bool) (depth n : Nat) (path : List Nat) (matched : List Bool) :
    Option (List Nat) :=
  match q.atoms[depth + 1]? with
  | none => none
  | some qa =>
    match (if qa.back != depth then path[qa.back]? else some n) with
    | none => none
    | some n' =>
      match m.atoms[n']? with
      | none => none
      | some nAtom =>
        match slice? m.bonds nAtom.from_ nAtom.to_ with
        | none => none
        | some row => candidatesR D m q scope (depth + 1) qa n' matched path row

theorem expandC_eq_R (D : Decode) (cm : CMol) (cq : CQuery) (hF : Faithful D cm cq) (scope : List Bool) (d n : Nat) (path : List Nat)
    (matched : List Bool) (hp : path.Nodup) (hlen : d + 1 ≤ path.length) :
    expandC cm cq scope d n path matched = expandR D cm cq scope d n path matched := by
  unfold expandC expandR
  cases hqa : cq.atoms[d + 1]? with
  | none => rfl
  | some qa =>
    simp only
    cases hn' : (if qa.back != d then path[qa.back]? else some n) with
    | none => rfl
    | some n' =>
      simp only
      cases hn : cm.atoms[n']? with
      | none => rfl
      | some nAtom =>
        simp only
        cases hr : slice? cm.bonds nAtom.from_ nAtom.to_ with
        | none => rfl
        | some row =>
          simp only
          exact candidatesC_eq_R D cm cq hF scope d n' qa nAtom row matched path hqa hn hr hp hlen row (fun _ h => h)

def candsOfR (D : Decode) (cm : CMol) (cq : CQuery) (scope : List Bool) (d : Nat) (path' : List Nat) : Option (List Nat) :=
  match path'.getLast? with
  | none => none
  | some n =>
    if n ≥ cm.atoms.length then none
    else expandR D cm cq scope d n path' (ind cm.atoms.length path')

/-- the reference search on the encoded structure: same depth-first skeleton, `query_atom == atom`, `query_bond == bond` and the
    closure-set comparison evaluated on the decoded objects -/
def envR (D : Decode) (cm : CMol) (cq : CQuery) (scope : List Bool) : GenEnv :=
  { size := cq.atoms.length - 1, cands := candsOfR D cm cq scope, yld := fun path d n => buildMapping cm cq path d n }

/-- congruence of the shared search: two instances with the same size and yield whose candidate functions agree on injective paths
    of the right length explore the same tree -/
theorem runG_congr (E1 E2 : GenEnv) (hs : E1.size = E2.size) (hy : E1.yld = E2.yld)
    (hc : ∀ d path', path'.Nodup → path'.length = d + 1 → E1.cands d path' = E2.cands d path')
    (hfresh : ∀ d path' cs, E1.cands d path' = some cs → ∀ c ∈ cs, c ∉ path')
    (fuel : Nat) (stack : List (Nat × Nat)) (path : List Nat) (acc : List Iso.Dict) (hinv : InvS stack path) :
    runG E1 fuel stack path acc = runG E2 fuel stack path acc := by
  induction fuel generalizing stack path acc with
  | zero => rfl
  | succ fuel ih =>
    cases stack with
    | nil => rfl
    | cons e stack =>
      obtain ⟨n, d⟩ := e
      have hent := hinv.entries (n, d) (by simp)
      simp only [runG, hs, hy]
      by_cases hsz : (d == E2.size) = true
      · simp only [hsz, if_true]
        cases E2.yld path d n with
        | none => rfl
        | some mp => exact ih stack path _ hinv.pop
      · simp only [hsz, Bool.false_eq_true, if_false]
        have hnd : (path.take d ++ [n]).Nodup := (hinv.step (cs := []) (by simp)).nodup
        have hl : (path.take d ++ [n]).length = d + 1 := by
          have : d ≤ path.length := hent.1
          simp [List.length_take]; omega
        rw [← hc d _ hnd hl]
        cases hcs : E1.cands d (path.take d ++ [n]) with
        | none => rfl
        | some cs => exact ih _ _ acc (hinv.step (hfresh d _ cs hcs))

theorem candsOfC_fresh (cm : CMol) (cq : CQuery) (scope : List Bool) (d : Nat) (path' cs : List Nat)
    (h : candsOfC cm cq scope d path' = some cs) : ∀ c ∈ cs, c ∉ path' := by
  unfold candsOfC at h
  split at h
  · simp at h
  · split at h
    · simp at h
    · intro c hc
      exact mem_of_ind_false _ _ _ (expandC_fresh _ _ _ _ _ _ _ _ h c hc)

/-- **congruence**: on faithful buffers the compiled search is the reference search -/
theorem runG_C_eq_R (D : Decode) (cm : CMol) (cq : CQuery) (hF : Faithful D cm cq) (scope : List Bool)
    (fuel : Nat) (stack : List (Nat × Nat)) (path : List Nat) (acc : List Iso.Dict) (hinv : InvS stack path) :
    runG (envC cm cq scope) fuel stack path acc = runG (envR D cm cq scope) fuel stack path acc := by
  refine runG_congr (envC cm cq scope) (envR D cm cq scope) rfl rfl ?_ ?_ fuel stack path acc hinv
  · intro d path' hnd hl
    simp only [envC, envR, candsOfC, candsOfR]
    cases path'.getLast? with
    | none => rfl
    | some n =>
      simp only
      split
      · rfl
      · exact expandC_eq_R D cm cq hF scope d n path' _ hnd (by omega)
  · intro d path' cs h
    exact candsOfC_fresh cm cq scope d path' cs h


theorem ind_nil (N : Nat) : ind N [] = List.replicate N false := by
  apply List.ext_getElem?
  intro i
  by_cases hi : i < N
  · rw [ind_get _ _ _ hi]; simp [hi]
  · have h1 : (ind N []).length ≤ i := by rw [ind_length]; omega
    have h2 : (List.replicate N false).length ≤ i := by simp; omega
    rw [List.getElem?_eq_none h1, List.getElem?_eq_none h2]

/-- first loop with the reference test -/
def rootsR (D : Decode) (m : CMol) (q : CQuery) (scope : List Bool) : Option (List Nat) :=
  match q.atoms[0]? with
  | none => none
  | some _ =>
    if scope.length < m.atoms.length then none
    else some ((m.atoms.zipIdx.filter fun (_, i) => scope.getD i false && pyEq (D.qat 0) (D.mat i)).map (·.2))

theorem rootOk_eq_ref (D : Decode) (cm : CMol) (cq : CQuery) (hF : Faithful D cm cq) (qa : CQAtom) (hqa : cq.atoms[0]? = some qa)
    (i : Nat) (ca : CAtom) (hca : cm.atoms[i]? = some ca) : rootOk qa ca = pyEq (D.qat 0) (D.mat i) := by
  obtain ⟨hw, had, hmdl⟩ := hF.atoms i ca hca
  have hjl : 0 < cq.atoms.length := (List.getElem?_eq_some_iff.mp hqa).1
  have hil : i < cm.atoms.length := (List.getElem?_eq_some_iff.mp hca).1
  obtain ⟨hqd, hqm⟩ := hF.qdom 0 hjl
  obtain ⟨hc, hh⟩ := hF.pairs 0 i hjl hil
  rw [rootOk_eq_rootW, hw, hF.qroot qa hqa,
    mask_root_norm (D.mdl i) (D.qmdl 0) (D.qat 0) (D.mat i) hqd had
      (qmdl_eq _ _ _ _ hmdl hqm hc (fun z => mdl_tables_agree_gen ChythonModel.Gen.periodicTable table_rows z)),
    pyEq_norm_eq _ _ hc hh]

theorem rootsC_eq_R (D : Decode) (cm : CMol) (cq : CQuery) (hF : Faithful D cm cq) (scope : List Bool) :
    rootsC cm cq scope = rootsR D cm cq scope := by
  unfold rootsC rootsR
  simp only [Option.bind_eq_bind, bind, Option.pure_def, pure]
  cases hqa : cq.atoms[0]? with
  | none => rfl
  | some qa =>
    simp only [Option.bind_some]
    by_cases hs : scope.length < cm.atoms.length
    · simp [hs]
    · simp only [hs, if_false]
      congr 2
      apply List.filter_congr
      intro p hp
      obtain ⟨a, i⟩ := p
      have hmem := List.mem_zipIdx hp
      have hca : cm.atoms[i]? = some a := by
        have := hmem.2.2
        simp only [Nat.zero_add, Nat.sub_zero] at this
        rw [this]; exact List.getElem?_eq_getElem _
      simp only [rootOk_eq_ref D cm cq hF qa hqa i a hca]

/-- `get_mapping` of the `.pyx` with the reference tests on the decoded objects -/
def getMappingR (D : Decode) (m : CMol) (q : CQuery) (scope : List Bool) : Option (List Iso.Dict) :=
  match rootsR D m q scope with
  | none => none
  | some roots => runG (envR D m q scope) (fuelC m q) (roots.reverse.map (·, 0)) [] []

theorem invS_roots (roots : List Nat) : InvS (roots.map (·, 0)) [] := by
  constructor
  · exact List.nodup_nil
  · intro e he
    obtain ⟨r, _, rfl⟩ := List.mem_map.mp he
    simp
  · rw [List.pairwise_map]
    exact List.pairwise_of_forall (fun _ _ => Nat.le_refl _)

/-- **the compiled matcher on faithful buffers is the reference search**: same depth-first skeleton, with `mask & bits` tests replaced
    by `query_atom == atom and query_bond == bond` and the closure counter replaced by the closure-set comparison -/
theorem getMappingC_eq_R (D : Decode) (cm : CMol) (cq : CQuery) (hF : Faithful D cm cq) (scope : List Bool) :
    getMappingC cm cq scope = getMappingR D cm cq scope := by
  unfold getMappingC getMappingR
  simp only [Option.bind_eq_bind, bind]
  rw [rootsC_eq_R D cm cq hF scope]
  cases rootsR D cm cq scope with
  | none => rfl
  | some roots =>
    simp only [Option.bind_some]
    rw [← ind_nil, runLoopC_eq_runG cm cq scope _ _ [] [] (invS_roots _)]
    exact runG_C_eq_R D cm cq hF scope _ _ [] [] (invS_roots _)

end ChythonModel.Proofs.C09
