import Mathlib.Data.List.Nodup
import Mathlib.Data.List.Basic
import Mathlib.Data.List.Perm.Basic
import Mathlib.Data.List.Forall2
import ChythonModel.Model.Iso
/-!
`lazy_product` yields every element of the cartesian product exactly once; `itertools.permutations`.
-/
namespace ChythonModel.Proofs.C07
open ChythonModel.Model.Iso

/-! ### `cartesian` -/

theorem mem_cartesian {α} : ∀ (ls : List (List α)) (x : List α), x ∈ cartesian ls ↔ List.Forall₂ (· ∈ ·) x ls := by
  intro ls
  induction ls with
  | nil => intro x; simp [cartesian]
  | cons a rest ih =>
    intro x
    simp only [cartesian, List.mem_flatMap, List.mem_map]
    constructor
    · rintro ⟨y, hy, tl, htl, rfl⟩
      exact List.Forall₂.cons hy ((ih tl).1 htl)
    · intro h
      cases h with
      | cons hy htl => exact ⟨_, hy, _, (ih _).2 htl, rfl⟩

theorem cartesian_nodup {α} : ∀ (ls : List (List α)), (∀ l ∈ ls, l.Nodup) → (cartesian ls).Nodup := by
  intro ls
  induction ls with
  | nil => intro _; simp [cartesian]
  | cons a rest ih =>
    intro h
    simp only [cartesian]
    rw [List.nodup_flatMap]
    refine ⟨?_, ?_⟩
    · intro x _
      exact List.Nodup.map (fun _ _ h => (List.cons.inj h).2) (ih (fun l hl => h l (by simp [hl])))
    · refine List.Pairwise.imp_of_mem ?_ (h a (by simp))
      intro x y _ _ hxy
      simp only [Function.onFun]
      intro p hp1 hp2
      obtain ⟨t1, _, rfl⟩ := List.mem_map.1 hp1
      obtain ⟨t2, _, h2⟩ := List.mem_map.1 hp2
      exact hxy (List.cons.inj h2).1.symm

theorem cartesian_eq_nil_iff {α} : ∀ (ls : List (List α)), cartesian ls = [] ↔ ∃ a ∈ ls, a = [] := by
  intro ls
  induction ls with
  | nil => simp [cartesian]
  | cons a rest ih =>
    simp only [cartesian, List.flatMap_eq_nil_iff, List.map_eq_nil_iff, List.mem_cons, exists_eq_or_imp]
    rw [ih]
    constructor
    · intro h
      cases a with
      | nil => left; rfl
      | cons x xs => right; exact h x (by simp)
    · rintro (h | h)
      · subst h; simp
      · intro _ _; exact h

/-! ### the diagonal rounds -/

theorem foldl_max_ge (lens : List Nat) (m : Nat) : m ≤ lens.foldl max m ∧ ∀ n ∈ lens, n ≤ lens.foldl max m := by
  induction lens generalizing m with
  | nil => simp
  | cons a l ih =>
    simp only [List.foldl_cons]
    obtain ⟨h1, h2⟩ := ih (max m a)
    refine ⟨by omega, ?_⟩
    intro n hn
    rcases List.mem_cons.1 hn with rfl | hn
    · omega
    · exact h2 n hn

theorem foldl_max_mem (lens : List Nat) (m : Nat) : lens.foldl max m = m ∨ lens.foldl max m ∈ lens := by
  induction lens generalizing m with
  | nil => simp
  | cons a l ih =>
    simp only [List.foldl_cons]
    rcases ih (max m a) with h | h
    · by_cases hma : a ≤ m
      · left; rw [h]; omega
      · right; rw [h]; simp; left; omega
    · right; exact List.mem_cons_of_mem _ h

/-- the index tuple of diagonal round `j` -/
def diagRow (lens : List Nat) (j : Nat) : List Nat := lens.map fun n => min j (n - 1)

theorem diag_nodup (lens : List Nat) (hpos : ∀ n ∈ lens, 0 < n) :
    ((List.range (lens.foldl max 0)).map (diagRow lens)).Nodup := by
  refine List.Nodup.map_on ?_ List.nodup_range
  intro j1 h1 j2 h2 heq
  rw [List.mem_range] at h1 h2
  rcases foldl_max_mem lens 0 with h0 | hm
  · omega
  · -- the longest pool distinguishes the rounds
    have := congrArg (fun r => r[lens.idxOf (lens.foldl max 0)]?) heq
    simp only [diagRow, List.getElem?_map] at this
    have hidx : lens[lens.idxOf (lens.foldl max 0)]? = some (lens.foldl max 0) := by
      rw [List.getElem?_eq_getElem (List.idxOf_lt_length_of_mem hm)]
      simp
    rw [hidx] at this
    simp at this
    omega

theorem diag_sub (lens : List Nat) (hpos : ∀ n ∈ lens, 0 < n) (j : Nat) :
    diagRow lens j ∈ cartesian (lens.map List.range) := by
  rw [mem_cartesian]
  unfold diagRow
  induction lens with
  | nil => simp
  | cons a l ih =>
    simp only [List.map_cons]
    refine List.Forall₂.cons ?_ (ih (fun n hn => hpos n (by simp [hn])))
    have := hpos a (by simp)
    rw [List.mem_range]; omega

/-- **`lazyIndices` is a rearrangement of the full index product**: every index tuple exactly once. -/
theorem lazyIndices_perm (lens : List Nat) : (lazyIndices lens).Perm (cartesian (lens.map List.range)) := by
  unfold lazyIndices
  split
  · simp [cartesian]
  · rename_i n
    simp only [List.map_cons, List.map_nil, cartesian, List.map_cons, List.map_nil]
    have : ∀ (l : List Nat), l.map (fun x => [x]) = l.flatMap fun x => [[x]] := by
      intro l; induction l with
      | nil => rfl
      | cons a l ih => simp [ih]
    rw [this]
  · split
    · rename_i h0
      -- an empty pool: the product is empty
      have : cartesian (lens.map List.range) = [] := by
        rw [List.eq_nil_iff_forall_not_mem]
        intro x hx
        rw [mem_cartesian] at hx
        obtain ⟨n, hn, hn0⟩ := List.any_eq_true.1 h0
        have hn0 : n = 0 := by simpa using hn0
        subst hn0
        obtain ⟨k, hk⟩ := List.mem_iff_getElem?.1 hn
        have h2 : (lens.map List.range)[k]? = some (List.range 0) := by simp [hk]
        have hlen := hx.length_eq
        have hkl : k < x.length := by
          rw [hlen]
          by_contra hc
          rw [List.getElem?_eq_none (by omega)] at h2
          simp at h2
        have := List.Forall₂.get hx hkl (by rw [← hlen]; exact hkl)
        have h3 : (lens.map List.range).get ⟨k, by rw [← hlen]; exact hkl⟩ = List.range 0 := by
          have := List.getElem?_eq_some_iff.1 h2
          obtain ⟨_, hh⟩ := this
          simpa using hh
        rw [h3] at this
        simp at this
      rw [this]
    · rename_i h0
      have hpos : ∀ n ∈ lens, 0 < n := by
        intro n hn
        by_contra hc
        apply h0
        exact List.any_eq_true.2 ⟨n, hn, by simp; omega⟩
      set all := cartesian (lens.map List.range) with hall
      set diag := (List.range (lens.foldl max 0)).map (fun j => lens.map fun n => min j (n - 1)) with hdiag
      have hdn : diag.Nodup := diag_nodup lens hpos
      have han : all.Nodup := cartesian_nodup _ (by
        intro l hl
        obtain ⟨n, _, rfl⟩ := List.mem_map.1 hl
        exact List.nodup_range)
      have hsub : ∀ x ∈ diag, x ∈ all := by
        intro x hx
        obtain ⟨j, _, rfl⟩ := List.mem_map.1 hx
        exact diag_sub lens hpos j
      rw [List.perm_ext_iff_of_nodup _ han]
      · intro x
        rw [List.mem_append, List.mem_filter]
        constructor
        · rintro (h | h)
          · exact hsub x h
          · exact h.1
        · intro h
          by_cases hd : x ∈ diag
          · left; exact hd
          · right
            refine ⟨h, ?_⟩
            cases hc : diag.contains x with
            | false => rfl
            | true => exact absurd (List.contains_iff_mem.1 hc) hd
      · rw [List.nodup_append]
        refine ⟨hdn, List.Nodup.filter _ han, ?_⟩
        intro a ha b hb hab
        subst hab
        rw [List.mem_filter] at hb
        have hc := hb.2
        rw [List.contains_iff_mem.2 ha] at hc
        simp at hc

/-! ### from index tuples to elements -/

theorem flatMap_range_getElem {α β} (a : List α) (g : α → List β) :
    (List.range a.length).flatMap (fun i => match a[i]? with | some x => g x | none => []) = a.flatMap g := by
  induction a with
  | nil => simp
  | cons x a ih =>
    rw [List.length_cons, List.range_succ_eq_map, List.flatMap_cons, List.flatMap_map]
    simp only [List.getElem?_cons_zero, List.flatMap_cons]
    congr 1

theorem cartesian_pick {α} : ∀ (args : List (List α)),
    (cartesian (args.map fun a => List.range a.length)).filterMap (pick args) = cartesian args := by
  intro args
  induction args with
  | nil => simp [cartesian, pick]
  | cons a rest ih =>
    simp only [List.map_cons, cartesian, List.filterMap_flatMap]
    rw [← flatMap_range_getElem a]
    apply List.flatMap_congr
    intro i hi
    rw [List.mem_range] at hi
    have hai : a[i]? = some a[i] := by simp [hi]
    rw [hai, List.filterMap_map]
    simp only
    rw [← ih, List.map_filterMap]
    apply List.filterMap_congr
    intro is _
    simp only [Function.comp, pick, hai]
    cases pick rest is <;> simp

/-- **`lazy_product` exactness**: the yielded tuples are a rearrangement of the cartesian product of the argument lists —
    each combination (by position) exactly once; in particular nothing is yielded iff some factor is empty. -/
theorem lazyProduct_perm {α} (args : List (List α)) : (lazyProduct args).Perm (cartesian args) := by
  unfold lazyProduct
  rw [← cartesian_pick args]
  have := lazyIndices_perm (args.map List.length)
  rw [List.map_map] at this
  exact List.Perm.filterMap _ this

/-! ### `itertools.permutations` -/

theorem picks_eq {α} [DecidableEq α] : ∀ (l : List α), l.Nodup → picks l = l.map fun x => (x, l.erase x) := by
  intro l
  induction l with
  | nil => intro _; rfl
  | cons a xs ih =>
    intro h
    rw [List.nodup_cons] at h
    simp only [picks, List.map_cons, List.erase_cons_head, ih h.2, List.map_map]
    congr 1
    apply List.map_congr_left
    intro y hy
    have : a ≠ y := fun hay => h.1 (hay ▸ hy)
    simp [Function.comp, List.erase_cons, this]

theorem permutations_spec {α} [DecidableEq α] : ∀ (r : Nat) (l : List α), l.Nodup →
    (∀ p, p ∈ permutations l r ↔ (p.length = r ∧ p.Nodup ∧ ∀ x ∈ p, x ∈ l)) ∧ (permutations l r).Nodup := by
  intro r
  induction r with
  | zero =>
    intro l _
    simp only [permutations, List.mem_singleton, List.nodup_cons, List.not_mem_nil, not_false_eq_true,
      List.nodup_nil, and_self, and_true]
    intro p
    constructor
    · rintro rfl; simp
    · rintro ⟨h, _⟩; exact List.eq_nil_of_length_eq_zero h
  | succ r ih =>
    intro l hl
    simp only [permutations, picks_eq l hl, List.flatMap_map]
    constructor
    · intro p
      simp only [List.mem_flatMap, List.mem_map]
      constructor
      · rintro ⟨x, hx, p', hp', rfl⟩
        obtain ⟨h1, h2, h3⟩ := ((ih (l.erase x) (hl.erase x)).1 p').1 hp'
        refine ⟨by simp [h1], ?_, ?_⟩
        · rw [List.nodup_cons]
          refine ⟨fun hin => ?_, h2⟩
          have := h3 x hin
          rw [hl.mem_erase_iff] at this
          exact this.1 rfl
        · intro y hy
          rcases List.mem_cons.1 hy with rfl | hy
          · exact hx
          · exact List.mem_of_mem_erase (h3 y hy)
      · rintro ⟨h1, h2, h3⟩
        match p, h1 with
        | x :: p', h1 =>
          rw [List.nodup_cons] at h2
          refine ⟨x, h3 x (by simp), p', ?_, rfl⟩
          rw [(ih (l.erase x) (hl.erase x)).1 p']
          refine ⟨by simpa using h1, h2.2, ?_⟩
          intro y hy
          rw [hl.mem_erase_iff]
          exact ⟨fun hyx => h2.1 (hyx ▸ hy), h3 y (by simp [hy])⟩
    · rw [List.nodup_flatMap]
      refine ⟨?_, ?_⟩
      · intro x _
        exact List.Nodup.map (fun _ _ h => (List.cons.inj h).2) (ih (l.erase x) (hl.erase x)).2
      · refine List.Pairwise.imp_of_mem ?_ hl
        intro x y _ _ hxy
        simp only [Function.onFun]
        intro p hp1 hp2
        obtain ⟨t1, _, rfl⟩ := List.mem_map.1 hp1
        obtain ⟨t2, _, h2⟩ := List.mem_map.1 hp2
        exact hxy (List.cons.inj h2).1.symm

end ChythonModel.Proofs.C07
