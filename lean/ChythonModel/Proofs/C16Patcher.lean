import ChythonModel.Model.C16Patcher
/-!
# C16 — helper lemmas about the `_patcher` model (dict algebra, loop invariants)
-/
namespace ChythonModel.Proofs.C16P
open ChythonModel.Model ChythonModel.Model.C16

/-! ### `d[k] = v` -/

theorem lookup_dictSet {β} (l : List (Nat × β)) (k a : Nat) (v : β) :
    (dictSet l k v).lookup a = if a = k then some v else l.lookup a := by
  induction l with
  | nil =>
    simp only [dictSet, List.lookup]
    by_cases h : a = k
    · subst h; simp
    · have : (a == k) = false := by simpa using h
      simp [this, h]
  | cons p tl ih =>
    obtain ⟨k', v'⟩ := p
    simp only [dictSet]
    by_cases hk : k' = k
    · subst hk
      simp only [beq_self_eq_true, if_true, List.lookup]
      by_cases h : a = k'
      · subst h; simp
      · have : (a == k') = false := by simpa using h
        simp [this, h]
    · have hkb : (k' == k) = false := by simpa using hk
      simp only [hkb, Bool.false_eq_true, if_false, List.lookup]
      by_cases h : a = k'
      · subst h
        have : ¬ a = k := hk
        simp [this]
      · have : (a == k') = false := by simpa using h
        simp only [this, ih]

theorem keys_dictSet {β} (l : List (Nat × β)) (k : Nat) (v : β) :
    (dictSet l k v).map (·.1) = if k ∈ l.map (·.1) then l.map (·.1) else l.map (·.1) ++ [k] := by
  induction l with
  | nil => simp [dictSet]
  | cons p tl ih =>
    obtain ⟨k', v'⟩ := p
    simp only [dictSet]
    by_cases hk : k' = k
    · subst hk; simp
    · have hkb : (k' == k) = false := by simpa using hk
      have hne : ¬ k = k' := fun h => hk h.symm
      simp only [hkb, Bool.false_eq_true, if_false, List.map_cons, ih, List.mem_cons, hne, false_or]
      split <;> simp

theorem mem_keys_dictSet {β} (l : List (Nat × β)) (k a : Nat) (v : β) :
    a ∈ (dictSet l k v).map (·.1) ↔ a = k ∨ a ∈ l.map (·.1) := by
  rw [keys_dictSet]
  split
  · next h => constructor
              · exact Or.inr
              · rintro (rfl | h')
                · exact h
                · exact h'
  · simp only [List.mem_append, List.mem_singleton]; exact Or.comm

theorem nodup_keys_dictSet {β} (l : List (Nat × β)) (k : Nat) (v : β) (h : (l.map (·.1)).Nodup) :
    ((dictSet l k v).map (·.1)).Nodup := by
  rw [keys_dictSet]
  split
  · exact h
  · next hk =>
    rw [List.nodup_append]
    refine ⟨h, by simp, ?_⟩
    intro a ha b hb
    simp at hb
    subst hb
    intro hab; subst hab; exact hk ha

theorem lookup_isSome_iff_mem_keys {β} (l : List (Nat × β)) (a : Nat) : (l.lookup a).isSome ↔ a ∈ l.map (·.1) := by
  induction l with
  | nil => simp [List.lookup]
  | cons p tl ih =>
    obtain ⟨k, v⟩ := p
    simp only [List.lookup, List.map_cons, List.mem_cons]
    by_cases h : a = k
    · subst h; simp
    · have : (a == k) = false := by simpa using h
      simp [this, h, ih]

theorem lookup_none_iff_not_mem_keys {β} (l : List (Nat × β)) (a : Nat) : l.lookup a = none ↔ a ∉ l.map (·.1) := by
  rw [← lookup_isSome_iff_mem_keys]
  cases l.lookup a <;> simp


theorem lookup_some_mem' {β} {l : List (Nat × β)} {a : Nat} {v : β} (h : l.lookup a = some v) : (a, v) ∈ l := by
  induction l with
  | nil => simp [List.lookup] at h
  | cons p tl ih =>
    obtain ⟨k, w⟩ := p
    simp only [List.lookup] at h
    split at h
    · next heq =>
      have : a = k := by simpa using heq
      cases h; subst this; simp
    · exact List.mem_cons_of_mem _ (ih h)

theorem lookup_of_mem_nodup {β} {l : List (Nat × β)} {a : Nat} {v : β} (hnd : (l.map (·.1)).Nodup) (h : (a, v) ∈ l) :
    l.lookup a = some v := by
  induction l with
  | nil => simp at h
  | cons p tl ih =>
    obtain ⟨k, w⟩ := p
    simp only [List.map_cons, List.nodup_cons] at hnd
    rcases List.mem_cons.1 h with heq | hin
    · cases heq; simp [List.lookup]
    · have hne : a ≠ k := by
        intro e; subst e
        exact hnd.1 (List.mem_map.2 ⟨(a, v), hin, rfl⟩)
      have : (a == k) = false := by simpa using hne
      simp only [List.lookup, this]
      exact ih hnd.2 hin

/-! ### bonds as a partial function -/

/-- `nbonds[n].get(m)`, `none` also when the row is missing -/
def bget (b : Bonds) (n m : Nat) : Option Bond :=
  match b.lookup n with
  | some row => row.lookup m
  | none => none

def strip (sb : Bond) : Bond := { order := sb.order, stereo := none }

theorem linkStep_spec {b b' : Bonds} {n m : Nat} {fresh : Bond} (h : linkStep b n m fresh = .ok b') :
    (b.lookup n).isSome ∧ (b.lookup m).isSome ∧
    (∀ a, (b'.lookup a).isSome = (b.lookup a).isSome) ∧
    (b'.map (·.1) = b.map (·.1)) ∧
    (∀ a c, bget b' a c = if a = n ∧ c = m then some ((bget b m n).getD fresh) else bget b a c) := by
  unfold linkStep at h
  cases hm : b.lookup m with
  | none => simp [hm] at h
  | some rowm =>
    cases hn : b.lookup n with
    | none => simp [hm, hn] at h
    | some rown =>
      simp only [hm, hn, Except.ok.injEq] at h
      subst h
      refine ⟨by simp, by simp, ?_, ?_, ?_⟩
      · intro a
        rw [lookup_dictSet]
        by_cases ha : a = n
        · subst ha; simp [hn]
        · simp [ha]
      · rw [keys_dictSet]
        have : n ∈ b.map (·.1) := (lookup_isSome_iff_mem_keys b n).1 (by simp [hn])
        simp [this]
      · intro a c
        simp only [bget, lookup_dictSet]
        by_cases ha : a = n
        · subst ha
          simp only [true_and, if_true, lookup_dictSet, hn, hm]
          by_cases hc : c = m
          · subst hc
            simp only [if_true]
            cases rowm.lookup a <;> rfl
          · simp [hc]
        · simp [ha]

/-! ### the structure-bond loop (phase 4) -/

/-- what the loop needs to know about the source molecule: dict keys are unique, adjacency is symmetric with the same
bond on both sides -/
structure SrcWF (s : Mol) : Prop where
  adj_nodup : (s.adj.map (·.1)).Nodup
  row_nodup : ∀ n row, (n, row) ∈ s.adj → (row.map (·.1)).Nodup
  symm : ∀ a c, s.bond? a c = s.bond? c a

theorem bond?_of_mem {s : Mol} (hwf : SrcWF s) {n m : Nat} {row : List (Nat × Bond)} {sb : Bond}
    (hrow : (n, row) ∈ s.adj) (hm : (m, sb) ∈ row) : s.bond? n m = some sb := by
  have h1 : s.adj.lookup n = some row := lookup_of_mem_nodup hwf.adj_nodup hrow
  simp only [Mol.bond?, Mol.nbrs, h1, Option.getD_some]
  exact lookup_of_mem_nodup (hwf.row_nodup n row hrow) hm

/-- invariant: every entry that is not between two patched atoms is the (stereo-stripped) source bond between
two surviving atoms -/
def J (s : Mol) (P Dl : List Nat) (b : Bonds) : Prop :=
  ∀ a c v, ¬ (a ∈ P ∧ c ∈ P) → bget b a c = some v →
    a ∉ Dl ∧ c ∉ Dl ∧ ∃ sb, s.bond? a c = some sb ∧ v = strip sb

/-- entries never disappear -/
def Grows (b b' : Bonds) : Prop := ∀ a c, (bget b a c).isSome → (bget b' a c).isSome

theorem Grows.refl (b : Bonds) : Grows b b := fun _ _ h => h
theorem Grows.trans {a b c : Bonds} (h1 : Grows a b) (h2 : Grows b c) : Grows a c := fun x y h => h2 x y (h1 x y h)

theorem structRow_spec {s : Mol} (hwf : SrcWF s) (P Dl : List Nat) (n : Nat) (hn : n ∉ Dl)
    (full : List (Nat × Bond)) (hfull : (n, full) ∈ s.adj) :
    ∀ (row : List (Nat × Bond)), (∀ e ∈ row, e ∈ full) → ∀ {b b' : Bonds}, J s P Dl b →
    structRowLoop P Dl n row b = .ok b' →
    J s P Dl b' ∧ Grows b b' ∧ (b'.map (·.1) = b.map (·.1)) ∧
    (∀ m sb, (m, sb) ∈ row → m ∉ Dl → ¬ (n ∈ P ∧ m ∈ P) → (bget b' n m).isSome) := by
  intro row
  induction row with
  | nil =>
    intro _ b b' hJ h
    simp only [structRowLoop] at h
    cases h
    exact ⟨hJ, Grows.refl _, rfl, by simp⟩
  | cons e tl ih =>
    obtain ⟨m, sb⟩ := e
    intro hsub b b' hJ h
    have hsub' : ∀ e ∈ tl, e ∈ full := fun e he => hsub e (List.mem_cons_of_mem _ he)
    simp only [structRowLoop] at h
    split at h
    · next hskip =>
      obtain ⟨hJ', hG, hK, hC⟩ := ih hsub' hJ h
      refine ⟨hJ', hG, hK, ?_⟩
      intro m' sb' hm' hD hPP
      rcases List.mem_cons.1 hm' with heq | hin
      · cases heq
        simp only [Bool.or_eq_true, Bool.and_eq_true, List.contains_iff_mem] at hskip
        rcases hskip with h1 | h2
        · exact absurd h1 hD
        · exact absurd h2 hPP
      · exact hC m' sb' hin hD hPP
    · next hskip =>
      simp only [Bool.or_eq_true, Bool.and_eq_true, List.contains_iff_mem, not_or] at hskip
      obtain ⟨hmD, hPP⟩ := hskip
      split at h
      · simp at h
      · next b1 h1 =>
        obtain ⟨_, _, _, hkeys, hget⟩ := linkStep_spec h1
        have hsb : s.bond? n m = some sb := bond?_of_mem hwf hfull (hsub (m, sb) (by simp))
        have hJ1 : J s P Dl b1 := by
          intro a c v hnp hv
          rw [hget] at hv
          split at hv
          · next hac =>
            obtain ⟨rfl, rfl⟩ := hac
            refine ⟨hn, hmD, sb, hsb, ?_⟩
            cases hback : bget b c a with
            | none => simp [hback] at hv; exact hv.symm
            | some v' =>
              simp only [hback, Option.getD_some, Option.some.injEq] at hv
              subst hv
              obtain ⟨_, _, sb', hsb', hv'⟩ := hJ c a v' (fun h => hnp ⟨h.2, h.1⟩) hback
              rw [hwf.symm c a, hsb] at hsb'
              cases hsb'
              exact hv'
          · exact hJ a c v hnp hv
        have hG1 : Grows b b1 := by
          intro a c hs
          rw [hget]
          split
          · simp
          · exact hs
        obtain ⟨hJ', hG, hK, hC⟩ := ih hsub' hJ1 h
        refine ⟨hJ', Grows.trans hG1 hG, hK.trans hkeys, ?_⟩
        intro m' sb' hm' hD hPP'
        rcases List.mem_cons.1 hm' with heq | hin
        · cases heq
          apply hG
          rw [hget]
          simp
        · exact hC m' sb' hin hD hPP'

theorem structBonds_spec {s : Mol} (hwf : SrcWF s) (P Dl : List Nat) :
    ∀ (rows : List (Nat × List (Nat × Bond))), (∀ r ∈ rows, r ∈ s.adj) → ∀ {b b' : Bonds}, J s P Dl b →
    structBondsLoop P Dl rows b = .ok b' →
    J s P Dl b' ∧ Grows b b' ∧ (b'.map (·.1) = b.map (·.1)) ∧
    (∀ n row m sb, (n, row) ∈ rows → (m, sb) ∈ row → n ∉ Dl → m ∉ Dl → ¬ (n ∈ P ∧ m ∈ P) → (bget b' n m).isSome) := by
  intro rows
  induction rows with
  | nil =>
    intro _ b b' hJ h
    simp only [structBondsLoop] at h
    cases h
    exact ⟨hJ, Grows.refl _, rfl, by simp⟩
  | cons r tl ih =>
    obtain ⟨n, row⟩ := r
    intro hsub b b' hJ h
    have hsub' : ∀ r ∈ tl, r ∈ s.adj := fun r hr => hsub r (List.mem_cons_of_mem _ hr)
    simp only [structBondsLoop] at h
    split at h
    · next hskip =>
      obtain ⟨hJ', hG, hK, hC⟩ := ih hsub' hJ h
      refine ⟨hJ', hG, hK, ?_⟩
      intro n' row' m sb hr hm hnD hmD hPP
      rcases List.mem_cons.1 hr with heq | hin
      · cases heq
        exact absurd (List.contains_iff_mem.1 hskip) hnD
      · exact hC n' row' m sb hin hm hnD hmD hPP
    · next hskip =>
      have hnD : n ∉ Dl := by simpa using hskip
      split at h
      · simp at h
      · next b1 h1 =>
        obtain ⟨hJ1, hG1, hK1, hC1⟩ := structRow_spec hwf P Dl n hnD row (hsub (n, row) (by simp)) row (fun _ h => h) hJ h1
        obtain ⟨hJ', hG, hK, hC⟩ := ih hsub' hJ1 h
        refine ⟨hJ', Grows.trans hG1 hG, hK.trans hK1, ?_⟩
        intro n' row' m sb hr hm hnD' hmD hPP
        rcases List.mem_cons.1 hr with heq | hin
        · cases heq
          exact hG _ _ (hC1 m sb hm hmD hPP)
        · exact hC n' row' m sb hin hm hnD' hmD hPP

/-- closed form of phase 4 for every pair that is not between two patched atoms -/
theorem structBonds_frame {s : Mol} (hwf : SrcWF s) (P Dl : List Nat) {b b' : Bonds} (hJ : J s P Dl b)
    (h : structBondsLoop P Dl s.adj b = .ok b') (a c : Nat) (ha : a ∉ Dl) (hPP : ¬ (a ∈ P ∧ c ∈ P))
    (hrow : ∃ row, (a, row) ∈ s.adj) :
    bget b' a c = if c ∈ Dl then none else (s.bond? a c).map strip := by
  obtain ⟨hJ', _, _, hC⟩ := structBonds_spec hwf P Dl s.adj (fun _ h => h) hJ h
  obtain ⟨row, hrow⟩ := hrow
  cases hget : bget b' a c with
  | some v =>
    obtain ⟨_, hcD, sb, hsb, hv⟩ := hJ' a c v hPP hget
    simp [hcD, hsb, hv]
  | none =>
    split
    · rfl
    · next hcD =>
      cases hsb : s.bond? a c with
      | none => rfl
      | some sb =>
        exfalso
        have h1 : s.adj.lookup a = some row := lookup_of_mem_nodup hwf.adj_nodup hrow
        have hmem : (c, sb) ∈ row := by
          simp only [Mol.bond?, Mol.nbrs, h1, Option.getD_some] at hsb
          exact ChythonModel.Proofs.C16P.lookup_some_mem' hsb
        have := hC a row c sb hrow hmem ha hcD hPP
        simp [hget] at this


/-! ### phase 1: replacement atoms -/

theorem foldl_max_ge (l : List Nat) (a : Nat) : a ≤ l.foldl max a ∧ ∀ k ∈ l, k ≤ l.foldl max a := by
  induction l generalizing a with
  | nil => simp
  | cons b tl ih =>
    simp only [List.foldl_cons]
    obtain ⟨h1, h2⟩ := ih (max a b)
    refine ⟨Nat.le_trans (Nat.le_max_left a b) h1, ?_⟩
    intro k hk
    rcases List.mem_cons.1 hk with rfl | hk
    · exact Nat.le_trans (Nat.le_max_right a k) h1
    · exact h2 k hk

theorem maxKey_ge {l : List Nat} {mx : Nat} (h : maxKey l = .ok mx) : ∀ k ∈ l, k ≤ mx := by
  cases l with
  | nil => simp [maxKey] at h
  | cons a tl =>
    simp only [maxKey, Except.ok.injEq] at h
    subst h
    intro k hk
    rcases List.mem_cons.1 hk with rfl | hk
    · exact (foldl_max_ge tl k).1
    · exact (foldl_max_ge tl a).2 k hk

/-- the atom `_patcher` creates for a replacement atom landing on an existing structure atom `sa` (`isNew = false`)
or on a fresh number (`isNew = true`) -/
def requested (ra : RAtom) (sa : Atom) (isNew : Bool) : Atom :=
  if ra.kind = .any then
    { z := sa.z, isotope := sa.isotope, charge := ra.charge, radical := ra.radical, implH := none, stereo := none }
  else
    { z := ra.z, isotope := ra.isotope, charge := ra.charge, radical := ra.radical,
      implH := if isNew then ra.hs.head? else none, stereo := none }

/-- the three successful outcomes of one replacement-atom step -/
theorem replAtomStep_cases {s : Mol} {st st' : PState} {n : Nat} {ra : RAtom} (h : replAtomStep s st n ra = .ok st') :
    (∃ m sa, mget st.mapping n = some m ∧ s.atoms.lookup m = some sa ∧ st' = placeAtom st m (requested ra sa false)) ∨
    (ra.kind ≠ .any ∧ mget st.mapping n = none ∧
      st' = placeAtom { st with mapping := dictSet st.mapping n (st.maxAtom + 1), maxAtom := st.maxAtom + 1 }
              (st.maxAtom + 1) (requested ra default true)) := by
  unfold replAtomStep at h
  split at h
  · next hk =>
    split at h
    · simp at h
    · next m hm =>
      split at h
      · simp at h
      · next sa hsa =>
        simp only [Except.ok.injEq] at h
        exact Or.inl ⟨m, sa, hm, hsa, by simp [requested, hk, ← h]⟩
  · next hk =>
    have hk' : ra.kind ≠ .any := fun e => hk e
    split at h
    · next hm =>
      simp only [Except.ok.injEq] at h
      exact Or.inr ⟨hk', hm, by simp [requested, hk', ← h]⟩
    · next m hm =>
      split at h
      · simp at h
      · next sa hsa =>
        simp only [Except.ok.injEq] at h
        exact Or.inl ⟨m, sa, hm, hsa, by simp [requested, hk', ← h]⟩


theorem bget_dictSet_empty (b : Bonds) (k a c : Nat) (h : bget b a c = none) : bget (dictSet b k []) a c = none := by
  simp only [bget, lookup_dictSet]
  by_cases ha : a = k
  · simp [ha, List.lookup]
  · simpa [ha, bget] using h

structure Inv1 (mx0 : Nat) (st : PState) : Prop where
  max_ge : mx0 ≤ st.maxAtom
  keys_le : ∀ k ∈ st.atoms.map (·.1), k ≤ st.maxAtom
  keys_eq : st.bonds.map (·.1) = st.atoms.map (·.1)
  rows_empty : ∀ a c, bget st.bonds a c = none
  atoms_nodup : (st.atoms.map (·.1)).Nodup

theorem mem_ids_of_lookup {s : Mol} {m : Nat} {sa : Atom} (h : s.atoms.lookup m = some sa) : m ∈ s.ids :=
  (lookup_isSome_iff_mem_keys s.atoms m).1 (by simp [h])

/-- everything one step of the replacement-atom loop does -/
theorem replAtomStep_facts {s : Mol} {mx0 : Nat} (hmx : ∀ k ∈ s.ids, k ≤ mx0) {st st' : PState} {n : Nat} {ra : RAtom}
    (hinv : Inv1 mx0 st) (h : replAtomStep s st n ra = .ok st') :
    Inv1 mx0 st' ∧ st.maxAtom ≤ st'.maxAtom ∧ (∀ k, k ≠ n → st'.mapping.lookup k = st.mapping.lookup k) ∧
    ∃ m a, st'.atoms.lookup m = some a ∧ (∀ m', m' ≠ m → st'.atoms.lookup m' = st.atoms.lookup m') ∧
      (∀ k, k ∈ st'.atoms.map (·.1) ↔ k = m ∨ k ∈ st.atoms.map (·.1)) ∧
      ((∃ sa, mget st.mapping n = some m ∧ s.atoms.lookup m = some sa ∧ a = requested ra sa false ∧
          st'.mapping = st.mapping ∧ st'.maxAtom = st.maxAtom) ∨
       (ra.kind ≠ .any ∧ mget st.mapping n = none ∧ m = st.maxAtom + 1 ∧ st'.maxAtom = m ∧
          st'.mapping.lookup n = some m ∧ a = requested ra default true)) := by
  rcases replAtomStep_cases h with ⟨m, sa, hm, hsa, rfl⟩ | ⟨hk, hm, rfl⟩
  · have hmle : m ≤ mx0 := hmx m (mem_ids_of_lookup hsa)
    refine ⟨⟨hinv.max_ge, ?_, ?_, ?_, ?_⟩, Nat.le_refl _, fun _ _ => rfl, m, _, ?_, ?_, ?_, Or.inl ⟨sa, hm, hsa, rfl, rfl, rfl⟩⟩
    · intro k hk
      rcases (mem_keys_dictSet _ _ _ _).1 hk with rfl | hk
      · exact Nat.le_trans hmle hinv.max_ge
      · exact hinv.keys_le k hk
    · simp only [placeAtom, keys_dictSet, hinv.keys_eq]
    · intro a c; exact bget_dictSet_empty _ _ _ _ (hinv.rows_empty a c)
    · exact nodup_keys_dictSet _ _ _ hinv.atoms_nodup
    · simp [placeAtom, lookup_dictSet]
    · intro m' hm'; simp [placeAtom, lookup_dictSet, hm']
    · intro k; exact mem_keys_dictSet _ _ _ _
  · refine ⟨⟨Nat.le_succ_of_le hinv.max_ge, ?_, ?_, ?_, ?_⟩, Nat.le_succ _, ?_, st.maxAtom + 1, _, ?_, ?_, ?_,
      Or.inr ⟨hk, hm, rfl, rfl, ?_, rfl⟩⟩
    · intro k hk
      rcases (mem_keys_dictSet _ _ _ _).1 hk with rfl | hk
      · exact Nat.le_refl _
      · exact Nat.le_succ_of_le (hinv.keys_le k hk)
    · simp only [placeAtom, keys_dictSet, hinv.keys_eq]
    · intro a c; exact bget_dictSet_empty _ _ _ _ (hinv.rows_empty a c)
    · exact nodup_keys_dictSet _ _ _ hinv.atoms_nodup
    · intro k hk; simp [placeAtom, lookup_dictSet, hk]
    · simp [placeAtom, lookup_dictSet]
    · intro m' hm'; simp [placeAtom, lookup_dictSet, hm']
    · intro k; exact mem_keys_dictSet _ _ _ _
    · simp [placeAtom, lookup_dictSet]


theorem mget_congr {mp1 mp2 : List (Nat × Nat)} {n : Nat} (h : mp1.lookup n = mp2.lookup n) : mget mp1 n = mget mp2 n := by
  simp only [mget, h]

/-- what a successful run of the replacement-atom loop guarantees for one of its atoms -/
def AtomPlaced (s : Mol) (st st' : PState) (n : Nat) (ra : RAtom) : Prop :=
  (∃ m sa, mget st.mapping n = some m ∧ s.atoms.lookup m = some sa ∧ st'.mapping.lookup n = st.mapping.lookup n ∧
      st'.atoms.lookup m = some (requested ra sa false)) ∨
  (ra.kind ≠ .any ∧ mget st.mapping n = none ∧ ∃ m, st.maxAtom < m ∧ m ≤ st'.maxAtom ∧ st'.mapping.lookup n = some m ∧
      st'.atoms.lookup m = some (requested ra default true))

theorem replAtomsLoop_spec {s : Mol} {mx0 : Nat} (hmx : ∀ k ∈ s.ids, k ≤ mx0) :
    ∀ (l : List (Nat × RAtom)) {st st' : PState}, (l.map (·.1)).Nodup → Inv1 mx0 st →
    (∀ k1 ∈ l.map (·.1), ∀ k2 ∈ l.map (·.1), ∀ m, mget st.mapping k1 = some m → mget st.mapping k2 = some m → k1 = k2) →
    replAtomsLoop s l st = .ok st' →
    Inv1 mx0 st' ∧ st.maxAtom ≤ st'.maxAtom ∧
    (∀ k, k ∉ l.map (·.1) → st'.mapping.lookup k = st.mapping.lookup k) ∧
    (∀ m, m ≤ st.maxAtom → (mx0 < m ∨ ∀ k ∈ l.map (·.1), mget st.mapping k ≠ some m) →
        st'.atoms.lookup m = st.atoms.lookup m) ∧
    (∀ k ∈ st'.atoms.map (·.1), k ∈ st.atoms.map (·.1) ∨ st.maxAtom < k ∨ k ∈ s.ids) ∧
    (∀ n ra, (n, ra) ∈ l → AtomPlaced s st st' n ra) := by
  intro l
  induction l with
  | nil =>
    intro st st' _ hinv _ h
    simp only [replAtomsLoop] at h
    cases h
    exact ⟨hinv, Nat.le_refl _, fun _ _ => rfl, fun _ _ _ => rfl, fun k hk => Or.inl hk, by simp⟩
  | cons e tl ih =>
    obtain ⟨n, ra⟩ := e
    intro st st' hnd hinv hinj h
    simp only [replAtomsLoop] at h
    split at h
    · simp at h
    · next st1 h1 =>
      simp only [List.map_cons, List.nodup_cons] at hnd
      obtain ⟨hntl, hndtl⟩ := hnd
      obtain ⟨hinv1, hmono1, hmap1, m1, a1, hat1, hother1, hkeys1, hcase⟩ := replAtomStep_facts hmx hinv h1
      have hne : ∀ k ∈ tl.map (·.1), k ≠ n := fun k hk e => hntl (e ▸ hk)
      have hmg : ∀ k ∈ tl.map (·.1), mget st1.mapping k = mget st.mapping k :=
        fun k hk => mget_congr (hmap1 k (hne k hk))
      have hinj1 : ∀ k1 ∈ tl.map (·.1), ∀ k2 ∈ tl.map (·.1), ∀ m, mget st1.mapping k1 = some m →
          mget st1.mapping k2 = some m → k1 = k2 := by
        intro k1 hk1 k2 hk2 m e1 e2
        rw [hmg k1 hk1] at e1
        rw [hmg k2 hk2] at e2
        exact hinj k1 (List.mem_cons_of_mem _ hk1) k2 (List.mem_cons_of_mem _ hk2) m e1 e2
      obtain ⟨hinv', hmono', hmap', hpres', hkeys', hplaced'⟩ := ih hndtl hinv1 hinj1 h
      -- the step's target is at most st1.maxAtom and is not hit again by the tail
      have hm1le : m1 ≤ st1.maxAtom := by
        rcases hcase with ⟨sa, _, hsa, _, _, hmax⟩ | ⟨_, _, _, hmax, _, _⟩
        · rw [hmax]; exact Nat.le_trans (hmx m1 (mem_ids_of_lookup hsa)) hinv.max_ge
        · rw [hmax]; exact Nat.le_refl _
      have hm1safe : mx0 < m1 ∨ ∀ k ∈ tl.map (·.1), mget st1.mapping k ≠ some m1 := by
        rcases hcase with ⟨sa, hmg1, _, _, _, _⟩ | ⟨_, _, hm1, _, _, _⟩
        · refine Or.inr ?_
          intro k hk e
          rw [hmg k hk] at e
          exact hne k hk (hinj k (List.mem_cons_of_mem _ hk) n (by simp) m1 e hmg1)
        · exact Or.inl (by rw [hm1]; exact Nat.lt_succ_of_le hinv.max_ge)
      have hat' : st'.atoms.lookup m1 = some a1 := by rw [hpres' m1 hm1le hm1safe]; exact hat1
      refine ⟨hinv', Nat.le_trans hmono1 hmono', ?_, ?_, ?_, ?_⟩
      · intro k hk
        simp only [List.map_cons, List.mem_cons, not_or] at hk
        rw [hmap' k hk.2, hmap1 k hk.1]
      · intro m hm hsafe
        have hmm1 : m ≠ m1 := by
          rcases hcase with ⟨sa, hmg1, hsa, _, _, _⟩ | ⟨_, _, hm1, _, _, _⟩
          · rcases hsafe with hlt | hno
            · intro e; subst e
              exact Nat.lt_irrefl _ (Nat.lt_of_lt_of_le hlt (hmx m (mem_ids_of_lookup hsa)))
            · intro e; subst e
              exact hno n (by simp) hmg1
          · intro e; rw [hm1] at e; subst e; exact Nat.lt_irrefl _ (Nat.lt_of_lt_of_le (Nat.lt_succ_self _) hm)
        rw [hpres' m (Nat.le_trans hm hmono1) ?_, hother1 m hmm1]
        rcases hsafe with hlt | hno
        · exact Or.inl hlt
        · refine Or.inr ?_
          intro k hk e
          rw [hmg k hk] at e
          exact hno k (List.mem_cons_of_mem _ hk) e
      · intro k hk
        rcases hkeys' k hk with h1 | h1 | h1
        · rcases (hkeys1 k).1 h1 with rfl | h2
          · rcases hcase with ⟨sa, _, hsa, _, _, _⟩ | ⟨_, _, hm1, _, _, _⟩
            · exact Or.inr (Or.inr (mem_ids_of_lookup hsa))
            · exact Or.inr (Or.inl (by rw [hm1]; exact Nat.lt_succ_self _))
          · exact Or.inl h2
        · exact Or.inr (Or.inl (Nat.lt_of_le_of_lt hmono1 h1))
        · exact Or.inr (Or.inr h1)
      · intro n' ra' hmem
        rcases List.mem_cons.1 hmem with heq | hin
        · cases heq
          have hmapn : st'.mapping.lookup n = st1.mapping.lookup n := hmap' n hntl
          rcases hcase with ⟨sa, hmg1, hsa, ha1, hmp, _⟩ | ⟨hk, hmg1, hm1, hmax, hmp, ha1⟩
          · exact Or.inl ⟨m1, sa, hmg1, hsa, by rw [hmapn, hmp], by rw [hat', ha1]⟩
          · refine Or.inr ⟨hk, hmg1, m1, by rw [hm1]; exact Nat.lt_succ_self _, ?_, by rw [hmapn, hmp], by rw [hat', ha1]⟩
            rw [← hmax]; exact hmono'
        · have hn'tl : n' ∈ tl.map (·.1) := List.mem_map.2 ⟨(n', ra'), hin, rfl⟩
          rcases hplaced' n' ra' hin with ⟨m, sa, hmg', hsa, hmp, hat⟩ | ⟨hk, hmg', m, hlt, hle, hmp, hat⟩
          · exact Or.inl ⟨m, sa, by rw [← hmg n' hn'tl]; exact hmg', hsa, by rw [hmp, hmap1 n' (hne n' hn'tl)], hat⟩
          · exact Or.inr ⟨hk, by rw [← hmg n' hn'tl]; exact hmg', m, Nat.lt_of_le_of_lt hmono1 hlt, hle, hmp, hat⟩


/-! ### phase 2: replacement bonds only ever connect patched atoms -/

/-- every bond entry joins two keys of the bond dict -/
def Within (b : Bonds) : Prop := ∀ a c, (bget b a c).isSome → a ∈ b.map (·.1) ∧ c ∈ b.map (·.1)

theorem linkStep_within {b b' : Bonds} {n m : Nat} {fresh : Bond} (h : linkStep b n m fresh = .ok b') (hw : Within b) :
    Within b' ∧ b'.map (·.1) = b.map (·.1) := by
  obtain ⟨hn, hm, _, hkeys, hget⟩ := linkStep_spec h
  refine ⟨?_, hkeys⟩
  intro a c hs
  rw [hkeys]
  rw [hget] at hs
  split at hs
  · next hac =>
    obtain ⟨rfl, rfl⟩ := hac
    exact ⟨(lookup_isSome_iff_mem_keys b a).1 hn, (lookup_isSome_iff_mem_keys b c).1 hm⟩
  · exact hw a c hs

theorem replRow_within (mp : List (Nat × Nat)) (n : Nat) : ∀ (row : List (Nat × List Nat)) {b b' : Bonds},
    replRowLoop mp n row b = .ok b' → Within b → Within b' ∧ b'.map (·.1) = b.map (·.1) := by
  intro row
  induction row with
  | nil => intro b b' h hw; simp only [replRowLoop] at h; cases h; exact ⟨hw, rfl⟩
  | cons e tl ih =>
    obtain ⟨m, ord⟩ := e
    intro b b' h hw
    simp only [replRowLoop] at h
    split at h
    · simp at h
    · next m' hm' =>
      split at h
      · simp at h
      · next b1 h1 =>
        obtain ⟨hw1, hk1⟩ := linkStep_within h1 hw
        obtain ⟨hw', hk'⟩ := ih h hw1
        exact ⟨hw', hk'.trans hk1⟩

theorem replBonds_within (mp : List (Nat × Nat)) : ∀ (rows : List (Nat × List (Nat × List Nat))) {b b' : Bonds},
    replBondsLoop mp rows b = .ok b' → Within b → Within b' ∧ b'.map (·.1) = b.map (·.1) := by
  intro rows
  induction rows with
  | nil => intro b b' h hw; simp only [replBondsLoop] at h; cases h; exact ⟨hw, rfl⟩
  | cons e tl ih =>
    obtain ⟨n, row⟩ := e
    intro b b' h hw
    simp only [replBondsLoop] at h
    split at h
    · simp at h
    · next n' hn' =>
      split at h
      · simp at h
      · next b1 h1 =>
        obtain ⟨hw1, hk1⟩ := replRow_within mp n' row h1 hw
        obtain ⟨hw', hk'⟩ := ih h hw1
        exact ⟨hw', hk'.trans hk1⟩

/-! ### phase 3: unmatched / masked atoms are copied -/

def stripAtom (sa : Atom) : Atom := { sa with stereo := none }

theorem bget_dictSet_empty_isSome (b : Bonds) (k a c : Nat) (h : (bget (dictSet b k []) a c).isSome) :
    (bget b a c).isSome := by
  simp only [bget, lookup_dictSet] at h
  by_cases ha : a = k
  · simp [ha, List.lookup] at h
  · simpa [ha, bget] using h

theorem remainderAtoms_spec (P Dl : List Nat) : ∀ (l : List (Nat × Atom)) (atoms : List (Nat × Atom)) (bonds : Bonds)
    (atoms' : List (Nat × Atom)) (bonds' : Bonds),
    remainderAtoms P Dl l (atoms, bonds) = (atoms', bonds') → (l.map (·.1)).Nodup →
    (∀ a c, (bget bonds' a c).isSome → (bget bonds a c).isSome) ∧
    (bonds.map (·.1) = atoms.map (·.1) → bonds'.map (·.1) = atoms'.map (·.1)) ∧
    ((atoms.map (·.1)).Nodup → (atoms'.map (·.1)).Nodup) ∧
    (∀ k, k ∈ atoms.map (·.1) → k ∈ atoms'.map (·.1)) ∧
    (∀ k, atoms'.lookup k = if k ∈ P ∨ k ∈ Dl then atoms.lookup k else
        match l.lookup k with
        | some sa => some (stripAtom sa)
        | none => atoms.lookup k) := by
  intro l
  induction l with
  | nil =>
    intro atoms bonds atoms' bonds' h _
    simp only [remainderAtoms, Prod.mk.injEq] at h
    obtain ⟨rfl, rfl⟩ := h
    refine ⟨fun _ _ h => h, fun h => h, fun h => h, fun _ h => h, ?_⟩
    intro k; split <;> simp [List.lookup]
  | cons e tl ih =>
    obtain ⟨n, sa⟩ := e
    intro atoms bonds atoms' bonds' h hnd
    simp only [List.map_cons, List.nodup_cons] at hnd
    obtain ⟨hntl, hndtl⟩ := hnd
    have htl : tl.lookup n = none := (lookup_none_iff_not_mem_keys tl n).2 hntl
    simp only [remainderAtoms] at h
    split at h
    · next hcond =>
      simp only [Bool.and_eq_true, Bool.not_eq_eq_eq_not, Bool.not_true, List.contains_eq_mem,
        decide_eq_false_iff_not] at hcond
      obtain ⟨hnP, hnD⟩ := hcond
      obtain ⟨hb, hk, hn, hsub, hl⟩ := ih _ _ _ _ h hndtl
      refine ⟨?_, ?_, ?_, ?_, ?_⟩
      · intro a c hs
        exact bget_dictSet_empty_isSome _ _ _ _ (hb a c hs)
      · intro heq
        apply hk
        rw [keys_dictSet, keys_dictSet, heq]
      · intro hnd
        exact hn (nodup_keys_dictSet _ _ _ hnd)
      · intro k hk'
        exact hsub k ((mem_keys_dictSet _ _ _ _).2 (Or.inr hk'))
      · intro k
        rw [hl k]
        by_cases hkn : k = n
        · subst hkn
          have : ¬ (k ∈ P ∨ k ∈ Dl) := fun h => h.elim hnP hnD
          simp [this, htl, lookup_dictSet, List.lookup, stripAtom]
        · have hkb : (k == n) = false := by simpa using hkn
          simp only [lookup_dictSet, hkn, if_false, List.lookup, hkb]
    · next hcond =>
      obtain ⟨hb, hk, hn, hsub, hl⟩ := ih _ _ _ _ h hndtl
      refine ⟨hb, hk, hn, hsub, ?_⟩
      intro k
      rw [hl k]
      by_cases hkn : k = n
      · subst hkn
        have : k ∈ P ∨ k ∈ Dl := by
          simp only [Bool.and_eq_true, Bool.not_eq_eq_eq_not, Bool.not_true, List.contains_eq_mem,
            decide_eq_false_iff_not, not_and, Decidable.not_not] at hcond
          by_cases hp : k ∈ P
          · exact Or.inl hp
          · exact Or.inr (hcond hp)
        simp [this]
      · have hkb : (k == n) = false := by simpa using hkn
        simp only [List.lookup, hkb]

/-! ### phase 5: the hydrogen loop touches nothing but hydrogen counts that were unset -/

def SameButH (a0 a : Atom) : Prop :=
  a.z = a0.z ∧ a.isotope = a0.isotope ∧ a.charge = a0.charge ∧ a.radical = a0.radical ∧ a.stereo = a0.stereo ∧
  (a0.implH.isSome → a.implH = a0.implH)

theorem SameButH.refl (a : Atom) : SameButH a a := ⟨rfl, rfl, rfl, rfl, rfl, fun _ => rfl⟩

theorem lookup_setH (m : Mol) (n k : Nat) (h : Option Nat) :
    (setH m n h).atoms.lookup k =
      (m.atoms.lookup k).map fun a => if k = n then { a with implH := h } else a := by
  simp only [C16.setH]
  induction m.atoms with
  | nil => simp [List.lookup]
  | cons p tl ih =>
    obtain ⟨k', a⟩ := p
    simp only [List.map_cons, List.lookup]
    by_cases hk : k = k'
    · subst hk
      by_cases hkn : k = n
      · subst hkn; simp
      · have : (k == n) = false := by simpa using hkn
        simp [this, hkn]
    · have hkb : (k == k') = false := by simpa using hk
      by_cases hkn : k' = n
      · subst hkn
        simp only [beq_self_eq_true, if_true, hkb]
        exact ih
      · have : (k' == n) = false := by simpa using hkn
        simp only [this, Bool.false_eq_true, if_false, hkb]
        exact ih

theorem keys_setH (m : Mol) (n : Nat) (h : Option Nat) : (setH m n h).atoms.map (·.1) = m.atoms.map (·.1) := by
  simp only [C16.setH, List.map_map]
  apply List.map_congr_left
  intro p _
  simp only [Function.comp]
  split <;> rfl

theorem calcLoop_spec : ∀ (ns : List Nat) {m m' : Mol}, calcLoop ns m = .ok m' →
    m'.adj = m.adj ∧ m'.atoms.map (·.1) = m.atoms.map (·.1) ∧
    ∀ k, (m.atoms.lookup k = none → m'.atoms.lookup k = none) ∧
         (∀ a, m.atoms.lookup k = some a → ∃ a', m'.atoms.lookup k = some a' ∧ SameButH a a') := by
  intro ns
  induction ns with
  | nil =>
    intro m m' h
    simp only [calcLoop] at h
    cases h
    exact ⟨rfl, rfl, fun k => ⟨fun h => h, fun a h => ⟨a, h, SameButH.refl a⟩⟩⟩
  | cons n tl ih =>
    intro m m' h
    simp only [calcLoop] at h
    split at h
    · simp at h
    · next a hna =>
      split at h
      · exact ih h
      · next hsome =>
        split at h
        · simp at h
        · next hv hcalc =>
          obtain ⟨hadj, hkeys, hat⟩ := ih h
          refine ⟨by rw [hadj]; rfl, by rw [hkeys, keys_setH], ?_⟩
          intro k
          obtain ⟨h1, h2⟩ := hat k
          constructor
          · intro hnone
            apply h1
            rw [lookup_setH, hnone]; rfl
          · intro a0 ha0
            have : (setH m n hv).atoms.lookup k = some (if k = n then { a0 with implH := hv } else a0) := by
              rw [lookup_setH, ha0]; rfl
            obtain ⟨a', ha', hs⟩ := h2 _ this
            refine ⟨a', ha', ?_⟩
            by_cases hkn : k = n
            · subst hkn
              rw [hna] at ha0
              cases ha0
              simp only [if_true] at hs
              obtain ⟨e1, e2, e3, e4, e5, _⟩ := hs
              refine ⟨e1, e2, e3, e4, e5, ?_⟩
              intro hh
              simp [hh] at hsome
            · simpa [hkn] using hs


theorem replAtomsLoop_nodup {s : Mol} : ∀ (l : List (Nat × RAtom)) {st st' : PState},
    (st.atoms.map (·.1)).Nodup → replAtomsLoop s l st = .ok st' → (st'.atoms.map (·.1)).Nodup := by
  intro l
  induction l with
  | nil => intro st st' hnd h; simp only [replAtomsLoop] at h; cases h; exact hnd
  | cons e tl ih =>
    obtain ⟨n, ra⟩ := e
    intro st st' hnd h
    simp only [replAtomsLoop] at h
    split at h
    · simp at h
    · next st1 h1 =>
      apply ih _ h
      rcases replAtomStep_cases h1 with ⟨m, sa, _, _, rfl⟩ | ⟨_, _, rfl⟩
      · exact nodup_keys_dictSet _ _ _ hnd
      · exact nodup_keys_dictSet _ _ _ hnd

theorem bond?_eq_bget (m : Mol) (a c : Nat) : m.bond? a c = bget m.adj a c := by
  simp only [Mol.bond?, Mol.nbrs, bget]
  cases m.adj.lookup a <;> simp [List.lookup]


/-- the executable well-formedness test of `Model/Graph.lean` implies the hypotheses of the frame theorems -/
theorem wf_sound {m : Mol} (h : m.WF = true) : m.ids.Nodup ∧ SrcWF m := by
  simp only [Mol.WF, Bool.and_eq_true, decide_eq_true_eq, beq_iff_eq, List.all_eq_true] at h
  obtain ⟨⟨hnd, hkeys⟩, hrows⟩ := h
  have hadjnd : (m.adj.map (·.1)).Nodup := by rw [hkeys]; exact hnd
  have hrow : ∀ n row, (n, row) ∈ m.adj → (row.map (·.1)).Nodup ∧
      ∀ k b, (k, b) ∈ row → m.bond? k n = some b := by
    intro n row hr
    have := hrows (n, row) hr
    simp only [Bool.and_eq_true, decide_eq_true_eq, List.all_eq_true] at this
    refine ⟨this.1, ?_⟩
    intro k b hkb
    have := this.2 (k, b) hkb
    simp only [Bool.and_eq_true, beq_iff_eq] at this
    exact this.2
  have half : ∀ a c b, m.bond? a c = some b → m.bond? c a = some b := by
    intro a c b hb
    simp only [Mol.bond?, Mol.nbrs] at hb
    cases hl : m.adj.lookup a with
    | none => simp [hl, List.lookup] at hb
    | some row =>
      simp only [hl, Option.getD_some] at hb
      exact (hrow a row (lookup_some_mem' hl)).2 c b (lookup_some_mem' hb)
  refine ⟨hnd, ⟨hadjnd, fun n row hr => (hrow n row hr).1, ?_⟩⟩
  intro a c
  cases h1 : m.bond? a c with
  | some b => exact (half a c b h1).symm
  | none =>
    cases h2 : m.bond? c a with
    | none => rfl
    | some b => rw [half c a b h2] at h1; cases h1


/-! ### phase 2 exactly: the bonds among patched atoms are the replacement's bonds -/

/-- the replacement's bond dict as a Python object: unique keys, symmetric with the same order on both sides, and every
atom it mentions is an atom of the replacement -/
structure ReplWF (t : Template) : Prop where
  atoms_nodup : (t.replAtoms.map (·.1)).Nodup
  keys_nodup : (t.replBonds.map (·.1)).Nodup
  row_nodup : ∀ n row, (n, row) ∈ t.replBonds → (row.map (·.1)).Nodup
  symm : ∀ n row m ord, (n, row) ∈ t.replBonds → (m, ord) ∈ row →
    ∃ row' ord', (m, row') ∈ t.replBonds ∧ (n, ord') ∈ row' ∧ ord'.headD 0 = ord.headD 0
  closed : ∀ n row, (n, row) ∈ t.replBonds → n ∈ t.replAtoms.map (·.1) ∧ ∀ m ord, (m, ord) ∈ row → m ∈ t.replAtoms.map (·.1)

/-- bond order the replacement requests between its atoms `n` and `m` -/
def rorder (t : Template) (n m : Nat) : Option Nat :=
  match t.replBonds.lookup n with
  | some row => (row.lookup m).map (·.headD 0)
  | none => none

/-- invariant of the replacement-bond loop: every entry is a requested bond between the images of two replacement atoms -/
def J2 (t : Template) (fm : List (Nat × Nat)) (b : Bonds) : Prop :=
  ∀ a c v, bget b a c = some v → ∃ n row m ord, (n, row) ∈ t.replBonds ∧ (m, ord) ∈ row ∧
    fm.lookup n = some a ∧ fm.lookup m = some c ∧ v = { order := ord.headD 0, stereo := none }

theorem replRow_exact {t : Template} (hwf : ReplWF t) {fm : List (Nat × Nat)}
    (hinj : ∀ k1 ∈ t.replAtoms.map (·.1), ∀ k2 ∈ t.replAtoms.map (·.1), ∀ v, fm.lookup k1 = some v → fm.lookup k2 = some v → k1 = k2)
    (n n' : Nat) (full : List (Nat × List Nat)) (hfull : (n, full) ∈ t.replBonds) (hn : fm.lookup n = some n') :
    ∀ (row : List (Nat × List Nat)), (∀ e ∈ row, e ∈ full) → ∀ {b b' : Bonds}, J2 t fm b →
    replRowLoop fm n' row b = .ok b' →
    J2 t fm b' ∧ Grows b b' ∧
    (∀ m ord m', (m, ord) ∈ row → fm.lookup m = some m' → (bget b' n' m').isSome) := by
  intro row
  induction row with
  | nil =>
    intro _ b b' hJ h
    simp only [replRowLoop] at h
    cases h
    exact ⟨hJ, Grows.refl _, by simp⟩
  | cons e tl ih =>
    obtain ⟨m, ord⟩ := e
    intro hsub b b' hJ h
    have hsub' : ∀ e ∈ tl, e ∈ full := fun e he => hsub e (List.mem_cons_of_mem _ he)
    simp only [replRowLoop] at h
    split at h
    · simp at h
    · next m' hm' =>
      split at h
      · simp at h
      · next b1 h1 =>
        obtain ⟨_, _, _, _, hget⟩ := linkStep_spec h1
        have hmem : (m, ord) ∈ full := hsub (m, ord) (by simp)
        have hJ1 : J2 t fm b1 := by
          intro a c v hv
          rw [hget] at hv
          split at hv
          · next hac =>
            obtain ⟨rfl, rfl⟩ := hac
            refine ⟨n, full, m, ord, hfull, hmem, hn, hm', ?_⟩
            cases hback : bget b c a with
            | none => simp only [hback, Option.getD_none, Option.some.injEq] at hv; exact hv.symm
            | some v' =>
              simp only [hback, Option.getD_some, Option.some.injEq] at hv
              subst hv
              obtain ⟨n0, row0, m0, ord0, hr0, he0, hfn0, hfm0, hv'⟩ := hJ c a v' hback
              -- n0 = m and m0 = n by injectivity of the extended match
              have hcl := hwf.closed n full hfull
              have hcl0 := hwf.closed n0 row0 hr0
              have e1 : n0 = m := hinj n0 hcl0.1 m (hcl.2 m ord hmem) c hfn0 hm'
              have e2 : m0 = n := hinj m0 (hcl0.2 m0 ord0 he0) n hcl.1 a hfm0 hn
              subst e1 e2
              obtain ⟨row', ord', hr', he', hord⟩ := hwf.symm m0 full n0 ord hfull hmem
              have : row' = row0 := by
                have h1 := lookup_of_mem_nodup hwf.keys_nodup hr'
                have h2 := lookup_of_mem_nodup hwf.keys_nodup hr0
                rw [h1] at h2; cases h2; rfl
              subst this
              have : ord' = ord0 := by
                have h1 := lookup_of_mem_nodup (hwf.row_nodup n0 row' hr0) he'
                have h2 := lookup_of_mem_nodup (hwf.row_nodup n0 row' hr0) he0
                rw [h1] at h2; cases h2; rfl
              subst this
              rw [hv', hord]
          · exact hJ a c v hv
        have hG1 : Grows b b1 := by
          intro a c hs
          rw [hget]
          split
          · simp
          · exact hs
        obtain ⟨hJ', hG, hC⟩ := ih hsub' hJ1 h
        refine ⟨hJ', Grows.trans hG1 hG, ?_⟩
        intro m2 ord2 m2' hmem2 hm2'
        rcases List.mem_cons.1 hmem2 with heq | hin
        · cases heq
          rw [hm'] at hm2'
          cases hm2'
          apply hG
          rw [hget]
          simp
        · exact hC m2 ord2 m2' hin hm2'

theorem replBonds_exact {t : Template} (hwf : ReplWF t) {fm : List (Nat × Nat)}
    (hinj : ∀ k1 ∈ t.replAtoms.map (·.1), ∀ k2 ∈ t.replAtoms.map (·.1), ∀ v, fm.lookup k1 = some v → fm.lookup k2 = some v → k1 = k2) :
    ∀ (rows : List (Nat × List (Nat × List Nat))), (∀ r ∈ rows, r ∈ t.replBonds) → ∀ {b b' : Bonds}, J2 t fm b →
    replBondsLoop fm rows b = .ok b' →
    J2 t fm b' ∧ Grows b b' ∧
    (∀ n row m ord n' m', (n, row) ∈ rows → (m, ord) ∈ row → fm.lookup n = some n' → fm.lookup m = some m' →
      (bget b' n' m').isSome) := by
  intro rows
  induction rows with
  | nil =>
    intro _ b b' hJ h
    simp only [replBondsLoop] at h
    cases h
    exact ⟨hJ, Grows.refl _, by simp⟩
  | cons r tl ih =>
    obtain ⟨n, row⟩ := r
    intro hsub b b' hJ h
    have hsub' : ∀ r ∈ tl, r ∈ t.replBonds := fun r hr => hsub r (List.mem_cons_of_mem _ hr)
    simp only [replBondsLoop] at h
    split at h
    · simp at h
    · next n' hn' =>
      split at h
      · simp at h
      · next b1 h1 =>
        obtain ⟨hJ1, hG1, hC1⟩ := replRow_exact hwf hinj n n' row (hsub (n, row) (by simp)) hn' row (fun _ h => h) hJ h1
        obtain ⟨hJ', hG, hC⟩ := ih hsub' hJ1 h
        refine ⟨hJ', Grows.trans hG1 hG, ?_⟩
        intro n2 row2 m ord n2' m' hr hm hn2 hm'
        rcases List.mem_cons.1 hr with heq | hin
        · cases heq
          rw [hn'] at hn2
          cases hn2
          exact hG _ _ (hC1 m ord m' hm hm')
        · exact hC n2 row2 m ord n2' m' hin hm hn2 hm'

/-- closed form of phase 2: between the images of two replacement atoms there is exactly the requested bond -/
theorem replBonds_closed_form {t : Template} (hwf : ReplWF t) {fm : List (Nat × Nat)}
    (hinj : ∀ k1 ∈ t.replAtoms.map (·.1), ∀ k2 ∈ t.replAtoms.map (·.1), ∀ v, fm.lookup k1 = some v → fm.lookup k2 = some v → k1 = k2)
    {b b' : Bonds} (hempty : ∀ a c, bget b a c = none) (h : replBondsLoop fm t.replBonds b = .ok b')
    (n m n' m' : Nat) (hn : n ∈ t.replAtoms.map (·.1)) (hm : m ∈ t.replAtoms.map (·.1))
    (hfn : fm.lookup n = some n') (hfm : fm.lookup m = some m') :
    bget b' n' m' = (rorder t n m).map fun o => { order := o, stereo := none } := by
  have hJ0 : J2 t fm b := by intro a c v hv; rw [hempty] at hv; cases hv
  obtain ⟨hJ, _, hC⟩ := replBonds_exact hwf hinj t.replBonds (fun _ h => h) hJ0 h
  cases hget : bget b' n' m' with
  | some v =>
    obtain ⟨n0, row0, m0, ord0, hr0, he0, hfn0, hfm0, hv⟩ := hJ n' m' v hget
    have hcl0 := hwf.closed n0 row0 hr0
    have e1 : n0 = n := hinj n0 hcl0.1 n hn n' hfn0 hfn
    have e2 : m0 = m := hinj m0 (hcl0.2 m0 ord0 he0) m hm m' hfm0 hfm
    subst e1 e2
    simp only [rorder, lookup_of_mem_nodup hwf.keys_nodup hr0, lookup_of_mem_nodup (hwf.row_nodup n0 row0 hr0) he0,
      Option.map_some, hv]
  | none =>
    simp only [rorder]
    cases hl : t.replBonds.lookup n with
    | none => rfl
    | some row =>
      cases hl2 : row.lookup m with
      | none => simp [hl2]
      | some ord =>
        exfalso
        have := hC n row m ord n' m' (lookup_some_mem' hl) (lookup_some_mem' hl2) hfn hfm
        simp [hget] at this


/-! ### phases 3 and 4 never touch a bond between two patched atoms -/

theorem remainderAtoms_bget (P Dl : List Nat) : ∀ (l : List (Nat × Atom)) (atoms : List (Nat × Atom)) (bonds : Bonds)
    (atoms' : List (Nat × Atom)) (bonds' : Bonds),
    remainderAtoms P Dl l (atoms, bonds) = (atoms', bonds') → ∀ a, a ∈ P → ∀ c, bget bonds' a c = bget bonds a c := by
  intro l
  induction l with
  | nil =>
    intro atoms bonds atoms' bonds' h a _ c
    simp only [remainderAtoms, Prod.mk.injEq] at h
    rw [h.2]
  | cons e tl ih =>
    obtain ⟨n, sa⟩ := e
    intro atoms bonds atoms' bonds' h a ha c
    simp only [remainderAtoms] at h
    split at h
    · next hcond =>
      simp only [Bool.and_eq_true, Bool.not_eq_eq_eq_not, Bool.not_true, List.contains_eq_mem,
        decide_eq_false_iff_not] at hcond
      rw [ih _ _ _ _ h a ha c]
      have hne : a ≠ n := fun e => hcond.1 (e ▸ ha)
      simp only [bget, lookup_dictSet, hne, if_false]
    · exact ih _ _ _ _ h a ha c

theorem structRow_pp (P Dl : List Nat) (n : Nat) : ∀ (row : List (Nat × Bond)) {b b' : Bonds},
    structRowLoop P Dl n row b = .ok b' → ∀ a c, a ∈ P → c ∈ P → bget b' a c = bget b a c := by
  intro row
  induction row with
  | nil => intro b b' h a c _ _; simp only [structRowLoop] at h; cases h; rfl
  | cons e tl ih =>
    obtain ⟨m, sb⟩ := e
    intro b b' h a c ha hc
    simp only [structRowLoop] at h
    split at h
    · exact ih h a c ha hc
    · next hskip =>
      simp only [Bool.or_eq_true, Bool.and_eq_true, List.contains_iff_mem, not_or] at hskip
      split at h
      · simp at h
      · next b1 h1 =>
        obtain ⟨_, _, _, _, hget⟩ := linkStep_spec h1
        rw [ih h a c ha hc, hget]
        have : ¬ (a = n ∧ c = m) := by
          rintro ⟨rfl, rfl⟩
          exact hskip.2 ⟨ha, hc⟩
        simp [this]

theorem structBonds_pp (P Dl : List Nat) : ∀ (rows : List (Nat × List (Nat × Bond))) {b b' : Bonds},
    structBondsLoop P Dl rows b = .ok b' → ∀ a c, a ∈ P → c ∈ P → bget b' a c = bget b a c := by
  intro rows
  induction rows with
  | nil => intro b b' h a c _ _; simp only [structBondsLoop] at h; cases h; rfl
  | cons r tl ih =>
    obtain ⟨n, row⟩ := r
    intro b b' h a c ha hc
    simp only [structBondsLoop] at h
    split at h
    · exact ih h a c ha hc
    · split at h
      · simp at h
      · next b1 h1 =>
        rw [ih h a c ha hc, structRow_pp P Dl n row h1 a c ha hc]

/-! ### the extended match is injective on the replacement atoms -/

theorem replAtomsLoop_inj {s : Mol} {mx0 : Nat} (hmx : ∀ k ∈ s.ids, k ≤ mx0) :
    ∀ (l : List (Nat × RAtom)) {st st' : PState}, (l.map (·.1)).Nodup → Inv1 mx0 st →
    (∀ k1 ∈ l.map (·.1), ∀ k2 ∈ l.map (·.1), ∀ m, mget st.mapping k1 = some m → mget st.mapping k2 = some m → k1 = k2) →
    replAtomsLoop s l st = .ok st' →
    (∀ k ∈ l.map (·.1), ∃ m, st'.mapping.lookup k = some m ∧
        ((mget st.mapping k = some m ∧ m ≤ mx0) ∨ (mget st.mapping k = none ∧ st.maxAtom < m))) ∧
    (∀ k1 ∈ l.map (·.1), ∀ k2 ∈ l.map (·.1), ∀ m, st'.mapping.lookup k1 = some m → st'.mapping.lookup k2 = some m → k1 = k2) := by
  intro l
  induction l with
  | nil => intro st st' _ _ _ _; simp
  | cons e tl ih =>
    obtain ⟨n, ra⟩ := e
    intro st st' hnd hinv hinj h
    have hfull := replAtomsLoop_spec hmx ((n, ra) :: tl) hnd hinv hinj h
    simp only [replAtomsLoop] at h
    split at h
    · simp at h
    · next st1 h1 =>
      simp only [List.map_cons, List.nodup_cons] at hnd
      obtain ⟨hntl, hndtl⟩ := hnd
      obtain ⟨hinv1, hmono1, hmap1, m1, a1, _, _, _, hcase⟩ := replAtomStep_facts hmx hinv h1
      have hne : ∀ k ∈ tl.map (·.1), k ≠ n := fun k hk e => hntl (e ▸ hk)
      have hmg : ∀ k ∈ tl.map (·.1), mget st1.mapping k = mget st.mapping k :=
        fun k hk => mget_congr (hmap1 k (hne k hk))
      have hinj1 : ∀ k1 ∈ tl.map (·.1), ∀ k2 ∈ tl.map (·.1), ∀ m, mget st1.mapping k1 = some m →
          mget st1.mapping k2 = some m → k1 = k2 := by
        intro k1 hk1 k2 hk2 m e1 e2
        rw [hmg k1 hk1] at e1
        rw [hmg k2 hk2] at e2
        exact hinj k1 (List.mem_cons_of_mem _ hk1) k2 (List.mem_cons_of_mem _ hk2) m e1 e2
      obtain ⟨hval, hinj'⟩ := ih hndtl hinv1 hinj1 h
      obtain ⟨_, _, hmap', _, _, _⟩ := replAtomsLoop_spec hmx tl hndtl hinv1 hinj1 h
      -- the head's final value
      have hhead : ∃ m, st'.mapping.lookup n = some m ∧
          ((mget st.mapping n = some m ∧ m ≤ mx0 ∧ m = m1) ∨ (mget st.mapping n = none ∧ m = st.maxAtom + 1 ∧ st1.maxAtom = m)) := by
        rcases hcase with ⟨sa, hmg1, hsa, _, hmp, _⟩ | ⟨_, hmg1, hm1, hmax, hmp, _⟩
        · refine ⟨m1, ?_, Or.inl ⟨hmg1, hmx m1 (mem_ids_of_lookup hsa), rfl⟩⟩
          rw [hmap' n hntl, hmp]
          simp only [mget] at hmg1
          split at hmg1
          · next v hv => split at hmg1
                         · cases hmg1
                         · cases hmg1; exact hv
          · cases hmg1
        · exact ⟨m1, by rw [hmap' n hntl, hmp], Or.inr ⟨hmg1, hm1, hmax⟩⟩
      have hvals : ∀ k ∈ tl.map (·.1), ∃ m, st'.mapping.lookup k = some m ∧
          ((mget st.mapping k = some m ∧ m ≤ mx0) ∨ (mget st.mapping k = none ∧ st1.maxAtom < m)) := by
        intro k hk
        obtain ⟨m, hm, hc⟩ := hval k hk
        refine ⟨m, hm, ?_⟩
        rcases hc with ⟨h1, h2⟩ | ⟨h1, h2⟩
        · exact Or.inl ⟨by rw [← hmg k hk]; exact h1, h2⟩
        · exact Or.inr ⟨by rw [← hmg k hk]; exact h1, h2⟩
      constructor
      · intro k hk
        rcases List.mem_cons.1 hk with rfl | hk
        · obtain ⟨m, hm, hc⟩ := hhead
          refine ⟨m, hm, ?_⟩
          rcases hc with ⟨h1, h2, _⟩ | ⟨h1, h2, _⟩
          · exact Or.inl ⟨h1, h2⟩
          · exact Or.inr ⟨h1, by rw [h2]; exact Nat.lt_succ_self _⟩
        · obtain ⟨m, hm, hc⟩ := hvals k hk
          refine ⟨m, hm, ?_⟩
          rcases hc with hc | ⟨h1, h2⟩
          · exact Or.inl hc
          · exact Or.inr ⟨h1, Nat.lt_of_le_of_lt hmono1 h2⟩
      · -- injectivity
        have key : ∀ k ∈ tl.map (·.1), ∀ m, st'.mapping.lookup n = some m → st'.mapping.lookup k = some m → False := by
          intro k hk m hn hk'
          obtain ⟨mh, hmh, hch⟩ := hhead
          have e1 : mh = m := by rw [hmh] at hn; exact Option.some.inj hn
          obtain ⟨mk, hmk, hck⟩ := hvals k hk
          have e2 : mk = m := by rw [hmk] at hk'; exact Option.some.inj hk'
          subst e1 e2
          rcases hch with ⟨h1, h2, _⟩ | ⟨h1, h2, h3⟩
          · rcases hck with ⟨h4, _⟩ | ⟨_, h5⟩
            · exact hne k hk (hinj k (List.mem_cons_of_mem _ hk) n (by simp) _ h4 h1)
            · exact Nat.lt_irrefl _ (Nat.lt_of_le_of_lt (Nat.le_trans (Nat.le_trans h2 hinv.max_ge) hmono1) h5)
          · rcases hck with ⟨_, h5⟩ | ⟨_, h5⟩
            · rw [h2] at h5
              exact Nat.lt_irrefl _ (Nat.lt_of_le_of_lt (Nat.le_trans h5 hinv.max_ge) (Nat.lt_succ_self _))
            · rw [h3] at h5; exact Nat.lt_irrefl _ h5
        intro k1 hk1 k2 hk2 m e1 e2
        rcases List.mem_cons.1 hk1 with h1n | hk1'
        · rcases List.mem_cons.1 hk2 with h2n | hk2'
          · rw [h1n, h2n]
          · subst h1n; exact (key k2 hk2' m e1 e2).elim
        · rcases List.mem_cons.1 hk2 with h2n | hk2'
          · subst h2n; exact (key k1 hk1' m e2 e1).elim
          · exact hinj' k1 hk1' k2 hk2' m e1 e2


theorem replAtomsLoop_rows {s : Mol} : ∀ (l : List (Nat × RAtom)) (st st' : PState), replAtomsLoop s l st = .ok st' →
    ((∀ x y, bget st.bonds x y = none) ∧ st.bonds.map (·.1) = st.atoms.map (·.1)) →
    ((∀ x y, bget st'.bonds x y = none) ∧ st'.bonds.map (·.1) = st'.atoms.map (·.1)) := by
  intro l
  induction l with
  | nil => intro st st' h hi; simp only [replAtomsLoop] at h; cases h; exact hi
  | cons e tl ih =>
    obtain ⟨n, ra⟩ := e
    intro st st' h hi
    simp only [replAtomsLoop] at h
    split at h
    · simp at h
    · next stm hm =>
      apply ih _ _ h
      rcases replAtomStep_cases hm with ⟨m, sa, _, _, rfl⟩ | ⟨_, _, rfl⟩
      · exact ⟨fun x y => bget_dictSet_empty _ _ _ _ (hi.1 x y), by simp only [placeAtom, keys_dictSet, hi.2]⟩
      · exact ⟨fun x y => bget_dictSet_empty _ _ _ _ (hi.1 x y), by simp only [placeAtom, keys_dictSet, hi.2]⟩

/-- every patched atom is the image of a replacement atom under the extended match -/
theorem replAtomsLoop_keys_img {s : Mol} {mx0 : Nat} (hmx : ∀ k ∈ s.ids, k ≤ mx0) :
    ∀ (l : List (Nat × RAtom)) {st st' : PState}, (l.map (·.1)).Nodup → Inv1 mx0 st →
    (∀ k1 ∈ l.map (·.1), ∀ k2 ∈ l.map (·.1), ∀ m, mget st.mapping k1 = some m → mget st.mapping k2 = some m → k1 = k2) →
    replAtomsLoop s l st = .ok st' →
    ∀ k ∈ st'.atoms.map (·.1), k ∈ st.atoms.map (·.1) ∨ ∃ n ∈ l.map (·.1), st'.mapping.lookup n = some k := by
  intro l
  induction l with
  | nil =>
    intro st st' _ _ _ h k hk
    simp only [replAtomsLoop] at h
    cases h
    exact Or.inl hk
  | cons e tl ih =>
    obtain ⟨n, ra⟩ := e
    intro st st' hnd hinv hinj h k hk
    simp only [replAtomsLoop] at h
    split at h
    · simp at h
    · next st1 h1 =>
      simp only [List.map_cons, List.nodup_cons] at hnd
      obtain ⟨hntl, hndtl⟩ := hnd
      obtain ⟨hinv1, _, hmap1, m1, a1, _, _, hkeys1, hcase⟩ := replAtomStep_facts hmx hinv h1
      have hne : ∀ k ∈ tl.map (·.1), k ≠ n := fun k hk e => hntl (e ▸ hk)
      have hmg : ∀ k ∈ tl.map (·.1), mget st1.mapping k = mget st.mapping k :=
        fun k hk => mget_congr (hmap1 k (hne k hk))
      have hinj1 : ∀ k1 ∈ tl.map (·.1), ∀ k2 ∈ tl.map (·.1), ∀ m, mget st1.mapping k1 = some m →
          mget st1.mapping k2 = some m → k1 = k2 := by
        intro k1 hk1 k2 hk2 m e1 e2
        rw [hmg k1 hk1] at e1
        rw [hmg k2 hk2] at e2
        exact hinj k1 (List.mem_cons_of_mem _ hk1) k2 (List.mem_cons_of_mem _ hk2) m e1 e2
      obtain ⟨_, _, hmap', _, _, _⟩ := replAtomsLoop_spec hmx tl hndtl hinv1 hinj1 h
      rcases ih hndtl hinv1 hinj1 h k hk with h2 | ⟨n2, hn2, hk2⟩
      · rcases (hkeys1 k).1 h2 with rfl | h3
        · refine Or.inr ⟨n, by simp, ?_⟩
          rw [hmap' n hntl]
          rcases hcase with ⟨sa, hmg1, _, _, hmp, _⟩ | ⟨_, _, _, _, hmp, _⟩
          · rw [hmp]
            simp only [mget] at hmg1
            split at hmg1
            · next v hv => split at hmg1
                           · cases hmg1
                           · cases hmg1; exact hv
            · cases hmg1
          · exact hmp
        · exact Or.inl h3
      · exact Or.inr ⟨n2, List.mem_cons_of_mem _ hn2, hk2⟩

end ChythonModel.Proofs.C16P
