import ChythonModel.Proofs.C17Bridge
/-! C17: `_fragments` — label sequences, direction-free key, the `defaultdict(list)` grouping. -/
set_option linter.unusedSimpArgs false
namespace ChythonModel.Proofs.C17
open ChythonModel.Model ChythonModel.Model.Fingerprint ChythonModel.Spec.Fingerprint

/-! ## total reading of the label sequence (what `labels` returns when no `KeyError` occurs) -/

/-- identifier of atom `x` (`_atom_identifiers[x]`); atoms outside the molecule never occur on a path -/
def identOf (H : TupleHash) (m : Mol) (x : Nat) : Int := (m.atom? x).elim 0 (atomIdent H)
/-- `int(bonds[x][y])` -/
def orderOf (m : Mol) (x y : Nat) : Int := (m.bond? x y).elim 0 (fun b => (b.order : Int))

def labelSeqFrom (H : TupleHash) (m : Mol) (x : Nat) : Path → List Int
  | [] => []
  | y :: rest => orderOf m x y :: identOf H m y :: labelSeqFrom H m y rest

/-- atom identifier, bond order, atom identifier, … along the path -/
def labelSeq (H : TupleHash) (m : Mol) : Path → List Int
  | [] => []
  | x :: rest => identOf H m x :: labelSeqFrom H m x rest

/-- the fragment key: the label sequence read in its larger direction -/
def fragKey (H : TupleHash) (m : Mol) (p : Path) : List Int :=
  if tupleGt (labelSeq H m p) (labelSeq H m p).reverse then labelSeq H m p else (labelSeq H m p).reverse

/-- the direction in which `_fragments` stores the path -/
def fragDir (H : TupleHash) (m : Mol) (p : Path) : Path :=
  if tupleGt (labelSeq H m p) (labelSeq H m p).reverse then p else p.reverse

theorem lookup_map_snd {β γ : Type} (f : β → γ) : ∀ (l : List (Nat × β)) (k : Nat),
    (l.map fun na => (na.1, f na.2)).lookup k = (l.lookup k).map f
  | [], _ => rfl
  | (k', v) :: l, k => by
    simp only [List.map_cons, List.lookup_cons]
    split <;> simp [lookup_map_snd f l k]

theorem getItem_ident (H : TupleHash) (m : Mol) (x : Nat) (hx : x ∈ m.ids) :
    getItem (atomIdentifiers H m) x = .ok (identOf H m x) := by
  unfold getItem atomIdentifiers identOf Mol.atom?
  rw [lookup_map_snd]
  obtain ⟨a, ha⟩ := lookup_isSome_of_mem_keys m.atoms x hx
  rw [ha]; rfl

theorem getItem_bond (m : Mol) (x y : Nat) (h : Adj m x y) :
    ∃ b, getItem (m.nbrs x) y = .ok b ∧ orderOf m x y = (b.order : Int) := by
  obtain ⟨b, hb⟩ := (adj_iff_bond m x y).mp h
  refine ⟨b, ?_, ?_⟩
  · unfold getItem; unfold Mol.bond? at hb; rw [hb]; rfl
  · unfold orderOf; rw [hb]; rfl

theorem labelsFrom_ok (H : TupleHash) (m : Mol) (hwf : m.WF = true) : ∀ (x : Nat) (rest : Path),
    x ∈ m.ids → (∀ y ∈ rest, y ∈ m.ids) → Walk m (x :: rest) →
    labelsFrom (atomIdentifiers H m) m x rest = .ok (labelSeqFrom H m x rest)
  | _, [], _, _, _ => rfl
  | x, y :: rest, hx, hr, hw => by
    simp only [Walk] at hw
    obtain ⟨b, hb, ho⟩ := getItem_bond m x y hw.1
    have hy : y ∈ m.ids := hr y (by simp)
    have ih := labelsFrom_ok H m hwf y rest hy (fun z hz => hr z (List.mem_cons_of_mem _ hz)) hw.2
    simp only [labelsFrom, labelSeqFrom, getItem_adj m hwf x hx, hb, getItem_ident H m y hy, ih, ho,
      bind, Except.bind, pure, Except.pure]

theorem labels_ok (H : TupleHash) (m : Mol) (hwf : m.WF = true) (p : Path) (hs : SimplePath m p) :
    labels (atomIdentifiers H m) m p = .ok (labelSeq H m p) := by
  match p, hs with
  | x :: rest, hs =>
    have hx : x ∈ m.ids := hs.atoms x (by simp)
    have := labelsFrom_ok H m hwf x rest hx (fun y hy => hs.atoms y (List.mem_cons_of_mem _ hy)) hs.walk
    simp only [labels, labelSeq, getItem_ident H m x hx, this, bind, Except.bind, pure, Except.pure]

theorem fragStep_ok (H : TupleHash) (m : Mol) (hwf : m.WF = true) (out : FragDict) (p : Path) (hs : SimplePath m p) :
    fragStep (atomIdentifiers H m) m out p = .ok (dictAppend out (fragKey H m p) (fragDir H m p)) := by
  unfold fragStep fragKey fragDir
  simp only [labels_ok H m hwf p hs, bind, Except.bind, pure, Except.pure]
  split <;> rfl

/-! ## direction independence of the key -/

theorem labelSeqFrom_append (H : TupleHash) (m : Mol) : ∀ (x : Nat) (p : Path) (y : Nat),
    labelSeqFrom H m x (p ++ [y]) =
      labelSeqFrom H m x p ++ [orderOf m ((x :: p).getLast (by simp)) y, identOf H m y]
  | x, [], y => by simp [labelSeqFrom]
  | x, z :: p, y => by
    simp only [List.cons_append, labelSeqFrom, labelSeqFrom_append H m z p y]
    simp

theorem labelSeq_reverse (H : TupleHash) (m : Mol) (hsym : ∀ x y, orderOf m x y = orderOf m y x) : ∀ (p : Path),
    labelSeq H m p.reverse = (labelSeq H m p).reverse
  | [] => rfl
  | [x] => rfl
  | x :: y :: rest => by
    have ih := labelSeq_reverse H m hsym (y :: rest)
    rw [List.reverse_cons]
    -- (y :: rest).reverse is non-empty: write it as head :: tail
    cases hrev : (y :: rest).reverse with
    | nil => simp at hrev
    | cons h t =>
      rw [hrev] at ih
      simp only [List.cons_append, labelSeq] at ih ⊢
      rw [labelSeqFrom_append]
      have hlast : (h :: t).getLast (by simp) = y := by
        have : (h :: t) = (y :: rest).reverse := hrev.symm
        simp only [this]
        simp
      rw [hlast]
      simp only [labelSeq, labelSeqFrom, List.reverse_cons, List.append_assoc, List.cons_append,
        List.nil_append] at ih ⊢
      rw [← List.cons_append, ih, hsym y x]
      simp

theorem orderOf_symm (m : Mol) (hwf : m.WF = true) (x y : Nat) : orderOf m x y = orderOf m y x := by
  unfold orderOf
  cases h : m.bond? x y with
  | some b => rw [bond_symm_of_wf m hwf x y b h]
  | none =>
    cases h' : m.bond? y x with
    | some b => rw [bond_symm_of_wf m hwf y x b h'] at h; cases h
    | none => rfl

theorem fragKey_reverse (H : TupleHash) (m : Mol) (hwf : m.WF = true) (p : Path) :
    fragKey H m p.reverse = fragKey H m p := by
  unfold fragKey
  rw [labelSeq_reverse H m (orderOf_symm m hwf), List.reverse_reverse]
  generalize labelSeq H m p = v
  by_cases h : tupleGt v v.reverse = true
  · rw [if_pos h, intGt_asymm _ _ h]; simp
  · have h' : tupleGt v v.reverse = false := by simpa using h
    rw [if_neg h]
    by_cases h2 : tupleGt v.reverse v = true
    · rw [if_pos h2]
    · have h2' : tupleGt v.reverse v = false := by simpa using h2
      rw [if_neg h2]
      exact intGt_total _ _ h' h2'

theorem fragKey_canon (H : TupleHash) (m : Mol) (hwf : m.WF = true) (p : Path) :
    fragKey H m (canon p) = fragKey H m p := by
  rcases canon_eq_or p with h | h <;> rw [h]
  exact fragKey_reverse H m hwf p

theorem fragDir_eq_or (H : TupleHash) (m : Mol) (p : Path) : fragDir H m p = p ∨ fragDir H m p = p.reverse := by
  unfold fragDir; split <;> simp

theorem canon_fragDir (H : TupleHash) (m : Mol) (p : Path) : canon (fragDir H m p) = canon p := by
  rcases fragDir_eq_or H m p with h | h <;> rw [h]
  exact canon_reverse p

/-- the stored direction reads the key itself -/
theorem labelSeq_fragDir (H : TupleHash) (m : Mol) (hwf : m.WF = true) (p : Path) :
    labelSeq H m (fragDir H m p) = fragKey H m p := by
  unfold fragDir fragKey
  split
  · rfl
  · exact labelSeq_reverse H m (orderOf_symm m hwf) p

/-! ## grouping -/

def valuesOf {κ ν : Type} [DecidableEq κ] : List (κ × List ν) → κ → List ν
  | [], _ => []
  | (k, vs) :: tl, K => if k = K then vs else valuesOf tl K

theorem valuesOf_dictAppend {κ ν : Type} [DecidableEq κ] : ∀ (d : List (κ × List ν)) (k : κ) (v : ν) (K : κ),
    valuesOf (dictAppend d k v) K = if k = K then valuesOf d K ++ [v] else valuesOf d K
  | [], k, v, K => by simp only [dictAppend, valuesOf]; split <;> simp
  | (k', vs) :: tl, k, v, K => by
    simp only [dictAppend]
    by_cases e : k' = k
    · subst e
      simp only [if_true, valuesOf]
      split <;> rfl
    · simp only [e, if_false, valuesOf, valuesOf_dictAppend tl k v K]
      by_cases e2 : k' = K
      · subst e2
        have : ¬ k = k' := fun h => e h.symm
        simp [this]
      · simp [e2]

theorem keys_dictAppend {κ ν : Type} [DecidableEq κ] : ∀ (d : List (κ × List ν)) (k : κ) (v : ν),
    (dictAppend d k v).map (·.1) = if k ∈ d.map (·.1) then d.map (·.1) else d.map (·.1) ++ [k]
  | [], k, v => by simp [dictAppend]
  | (k', vs) :: tl, k, v => by
    simp only [dictAppend]
    by_cases e : k' = k
    · subst e; simp
    · have e' : ¬ k = k' := fun h => e h.symm
      simp only [e, if_false, List.map_cons, keys_dictAppend tl k v, List.mem_cons, e', false_or]
      split <;> simp

theorem keys_nodup_dictAppend {κ ν : Type} [DecidableEq κ] (d : List (κ × List ν)) (k : κ) (v : ν)
    (h : (d.map (·.1)).Nodup) : ((dictAppend d k v).map (·.1)).Nodup := by
  rw [keys_dictAppend]
  split
  · exact h
  · rename_i hn
    rw [List.nodup_append]
    refine ⟨h, by simp, ?_⟩
    intro a ha b hb
    simp at hb; subst hb
    intro e; subst e; exact hn ha

theorem mem_keys_dictAppend {κ ν : Type} [DecidableEq κ] (d : List (κ × List ν)) (k : κ) (v : ν) (K : κ) :
    K ∈ (dictAppend d k v).map (·.1) ↔ K ∈ d.map (·.1) ∨ K = k := by
  rw [keys_dictAppend]
  split
  · rename_i h
    constructor
    · exact Or.inl
    · rintro (h' | rfl); exact h'; exact h
  · simp

section group
variable {α κ ν : Type} [DecidableEq κ] (f : α → κ) (g : α → ν)

def groupFold (d : List (κ × List ν)) (l : List α) : List (κ × List ν) :=
  l.foldl (fun d a => dictAppend d (f a) (g a)) d

theorem valuesOf_groupFold : ∀ (l : List α) (d : List (κ × List ν)) (K : κ),
    valuesOf (groupFold f g d l) K = valuesOf d K ++ (l.filter fun a => f a = K).map g
  | [], d, K => by simp [groupFold]
  | a :: l, d, K => by
    have ih := valuesOf_groupFold l (dictAppend d (f a) (g a)) K
    simp only [groupFold, List.foldl_cons] at ih ⊢
    rw [ih, valuesOf_dictAppend]
    by_cases e : f a = K
    · simp [e, List.filter_cons]
    · simp [e, List.filter_cons]

theorem keys_nodup_groupFold : ∀ (l : List α) (d : List (κ × List ν)), (d.map (·.1)).Nodup →
    ((groupFold f g d l).map (·.1)).Nodup
  | [], d, h => by simpa [groupFold]
  | a :: l, d, h => by
    simp only [groupFold, List.foldl_cons]
    exact keys_nodup_groupFold l _ (keys_nodup_dictAppend d _ _ h)

theorem mem_keys_groupFold : ∀ (l : List α) (d : List (κ × List ν)) (K : κ),
    K ∈ (groupFold f g d l).map (·.1) ↔ K ∈ d.map (·.1) ∨ ∃ a ∈ l, f a = K
  | [], d, K => by simp [groupFold]
  | a :: l, d, K => by
    have ih := mem_keys_groupFold l (dictAppend d (f a) (g a)) K
    simp only [groupFold, List.foldl_cons] at ih ⊢
    rw [ih, mem_keys_dictAppend]
    constructor
    · rintro ((h | rfl) | ⟨b, hb, e⟩)
      · exact Or.inl h
      · exact Or.inr ⟨a, by simp, rfl⟩
      · exact Or.inr ⟨b, List.mem_cons_of_mem _ hb, e⟩
    · rintro (h | ⟨b, hb, e⟩)
      · exact Or.inl (Or.inl h)
      · rcases List.mem_cons.mp hb with rfl | hb
        · exact Or.inl (Or.inr e.symm)
        · exact Or.inr ⟨b, hb, e⟩
end group

theorem valuesOf_of_mem {κ ν : Type} [DecidableEq κ] : ∀ (d : List (κ × List ν)) (K : κ) (vs : List ν),
    (d.map (·.1)).Nodup → (K, vs) ∈ d → valuesOf d K = vs
  | [], _, _, _, h => by simp at h
  | (k, v) :: tl, K, vs, hn, h => by
    simp only [List.map_cons, List.nodup_cons] at hn
    simp only [valuesOf]
    rcases List.mem_cons.mp h with e | h
    · cases e; simp
    · have : k ≠ K := by
        intro e; subst e
        exact hn.1 (List.mem_map.mpr ⟨(k, vs), h, rfl⟩)
      simp only [this, if_false]
      exact valuesOf_of_mem tl K vs hn.2 h

theorem mem_of_mem_keys {κ ν : Type} [DecidableEq κ] : ∀ (d : List (κ × List ν)) (K : κ),
    K ∈ d.map (·.1) → (K, valuesOf d K) ∈ d
  | [], _, h => by simp at h
  | (k, v) :: tl, K, h => by
    simp only [valuesOf]
    by_cases e : k = K
    · subst e; simp
    · simp only [e, if_false]
      simp only [List.map_cons, List.mem_cons] at h
      rcases h with h | h
      · exact absurd h.symm e
      · exact List.mem_cons_of_mem _ (mem_of_mem_keys tl K h)

/-! ## `_fragments` as a pure grouping of the chains -/

theorem foldlM_fragStep (H : TupleHash) (m : Mol) (hwf : m.WF = true) : ∀ (cs : List Path) (d : FragDict),
    (∀ c ∈ cs, SimplePath m c) →
    cs.foldlM (fragStep (atomIdentifiers H m) m) d = .ok (groupFold (fragKey H m) (fragDir H m) d cs)
  | [], d, _ => rfl
  | c :: cs, d, h => by
    rw [List.foldlM_cons, fragStep_ok H m hwf d c (h c (by simp))]
    simp only [bind, Except.bind]
    rw [foldlM_fragStep H m hwf cs _ (fun c' hc' => h c' (List.mem_cons_of_mem _ hc'))]
    simp [groupFold]

end ChythonModel.Proofs.C17
