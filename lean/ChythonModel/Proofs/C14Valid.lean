import ChythonModel.Model.StdRuleFacts
import ChythonModel.Proofs.C04
/-!
# C14 — soundness of the "valence-valid pattern" test for all-single pinned atoms

If a query atom that pins its environment down to `d` single bonds (`D = d`, `z = 1`) matches an atom of a molecule whose
labels are fresh, and no compiled valence rule of the atom's element is `ruleSat` in that environment, then `calc_implicit`
(C04 model) gives that atom no hydrogen count: the atom is a valence error. So a rule whose pattern is invalid for this
reason cannot fire on a valence-valid molecule.
-/
namespace ChythonModel.Proofs.C14
open ChythonModel.Model ChythonModel.Model.Std ChythonModel.Gen.Rules ChythonModel.Proofs.C04

theorem count_le_filter_length (l : List Valence.BE) (p : Valence.BE → Bool) (k : Valence.BE) (hk : p k = true) :
    l.count k ≤ (l.filter p).length := by
  induction l with
  | nil => simp
  | cons x tl ih =>
    rw [List.count_cons, List.filter_cons]
    by_cases hx : (x == k) = true
    · have : x = k := by simpa using hx
      subst this
      simp only [hx, if_true, hk, List.length_cons]
      omega
    · have hx' : (x == k) = false := by simpa using hx
      simp only [hx', Bool.false_eq_true, if_false, Nat.add_zero]
      split
      · simp only [List.length_cons]; omega
      · exact ih

theorem length_filter_split (l : List Valence.BE) (p : Valence.BE → Bool) :
    (l.filter p).length + (l.filter fun b => !p b).length = l.length := by
  induction l with
  | nil => rfl
  | cons x tl ih =>
    rw [List.filter_cons, List.filter_cons]
    cases hp : p x <;> simp [hp] <;> omega

/-- a compiled valence rule that matches the real bonds of an atom whose counted bonds are all single is satisfiable in the
    all-single environment described by their number `d` and the number `k` of hetero neighbours -/
theorem ruleMatches_ruleSat (bs : List Valence.BE) (r : Valence.Rule) (d k : Nat)
    (h1 : ∀ b ∈ Valence.counted bs, b.1 = 1) (hd : (Valence.counted bs).length = d)
    (hk : ((Valence.counted bs).filter fun b => isHetero b.2).length = k)
    (hm : Valence.ruleMatches (Valence.explicitDict bs) r = true) :
    ruleSat (.allSingle d (some k)) r = true ∧ ruleSat (.allSingle d none) r = true := by
  unfold Valence.ruleMatches at hm
  simp only [Bool.and_eq_true, List.all_eq_true, decide_eq_true_eq] at hm
  obtain ⟨hset, hdict⟩ := hm
  have hs : r.set.all (fun key => key.1 == 1) = true := by
    apply List.all_eq_true.mpr
    intro key hkey
    have := hset key hkey
    rw [hasKey_explicitDict] at this
    have := h1 key (List.contains_iff_mem.mp this)
    simp [this]
  have hc : ∀ kc ∈ r.dict, kc.2 ≤ (Valence.counted bs).count kc.1 := by
    intro kc hkc
    have := hdict kc hkc
    rw [cnt_explicitDict] at this
    exact this
  have hdl : r.dict.all (fun kc => decide (kc.2 ≤ d)) = true := by
    apply List.all_eq_true.mpr
    intro kc hkc
    have h' := hc kc hkc
    have : (Valence.counted bs).count kc.1 ≤ d := by rw [← hd]; exact List.count_le_length
    simp only [decide_eq_true_eq]; omega
  refine ⟨?_, ?_⟩
  · unfold ruleSat
    simp only [hs, hdl, Bool.and_true, Bool.true_and]
    apply List.all_eq_true.mpr
    intro kc hkc
    have h' := hc kc hkc
    by_cases hh : isHetero kc.1.2 = true
    · simp only [hh, if_true, decide_eq_true_eq]
      have := count_le_filter_length (Valence.counted bs) (fun b => isHetero b.2) kc.1 hh
      omega
    · have hh' : isHetero kc.1.2 = false := by simpa using hh
      simp only [hh', Bool.false_eq_true, if_false, decide_eq_true_eq]
      have h2 := count_le_filter_length (Valence.counted bs) (fun b => !isHetero b.2) kc.1 (by simp [hh'])
      have h3 := length_filter_split (Valence.counted bs) (fun b => isHetero b.2)
      omega
  · unfold ruleSat
    simp only [hs, hdl, Bool.and_true]

/-- no satisfiable rule in the all-single environment ⇒ `calc_implicit` finds no count -/
theorem calcWith_none_of_no_ruleSat (t : Valence.Rules) (c : Valence.Ctx) (d k : Nat) (hetero : Option Nat)
    (hz : c.z ≠ 1) (ha : Valence.aromaCount c.bonds = 0)
    (h1 : ∀ b ∈ Valence.counted c.bonds, b.1 = 1) (hd : (Valence.counted c.bonds).length = d)
    (hk : ((Valence.counted c.bonds).filter fun b => isHetero b.2).length = k)
    (hh : hetero = none ∨ hetero = some k)
    (hbad : match Valence.valenceRules t c.charge c.radical d with
            | some rules => rules.all (fun r => !ruleSat (.allSingle d hetero) r) = true
            | none => True) :
    Valence.calcWith t c = none := by
  have hsum : Valence.explicitSum c.bonds = d := by
    unfold Valence.explicitSum
    rw [← hd]
    have : ∀ (l : List Valence.BE), (∀ b ∈ l, b.1 = 1) → (l.map (·.1)).sum = l.length := by
      intro l
      induction l with
      | nil => intro _; rfl
      | cons x tl ih =>
        intro h
        simp only [List.map_cons, List.sum_cons, List.length_cons]
        rw [ih (fun b hb => h b (List.mem_cons_of_mem _ hb)), h x (List.mem_cons_self)]
        omega
    exact this _ h1
  unfold Valence.calcWith
  have hz' : (c.z == 1) = false := by simpa using hz
  simp only [hz', Bool.false_eq_true, if_false, ha, bne_self_eq_false, Bool.false_and, Nat.reduceBEq, hsum]
  cases hr : Valence.valenceRules t c.charge c.radical d with
  | none => rfl
  | some rules =>
    simp only [hr] at hbad
    simp only
    apply (firstRule_none _ rules).mpr
    intro r hr'
    apply Bool.eq_false_iff.mpr
    intro hm
    obtain ⟨s1, s2⟩ := ruleMatches_ruleSat c.bonds r d k h1 hd hk hm
    have := List.all_eq_true.mp hbad r hr'
    rcases hh with rfl | rfl
    · simp [s2] at this
    · simp [s1] at this

/-! ## from the cached labels to the bonds `calc_implicit` reads -/

theorem hybStep_eq_one (h o : Nat) (hs : Query.hybStep h o = 1) : h = 1 ∧ o ≠ 2 ∧ o ≠ 3 ∧ o ≠ 4 := by
  unfold Query.hybStep at hs
  by_cases h4 : o = 4
  · subst h4; simp at hs
  · have h4' : (o == 4) = false := by simpa using h4
    simp only [h4', Bool.false_eq_true, if_false] at hs
    by_cases hh : h = 4
    · subst hh; simp at hs
    · have hh' : (h != 4) = true := by simpa using hh
      simp only [hh', if_true] at hs
      by_cases h3 : o = 3
      · subst h3; simp at hs
      · have h3' : (o == 3) = false := by simpa using h3
        simp only [h3', Bool.false_eq_true, if_false] at hs
        by_cases h2 : o = 2
        · subst h2
          simp only [beq_self_eq_true, if_true] at hs
          split at hs
          · simp at hs
          · split at hs
            · simp at hs
            · rename_i a b
              exact absurd hs (by
                intro e; subst e; simp at a)
        · have h2' : (o == 2) = false := by simpa using h2
          simp only [h2', Bool.false_eq_true, if_false] at hs
          exact ⟨hs, h2, h3, h4⟩

/-- what `calc_labels` stored, in terms of the `(order, Z)` pairs `calc_implicit` reads -/
theorem labelsLoop_spec (atoms : List (Nat × Atom)) : ∀ (row : List (Nat × Bond)) (acc l : Query.Labels) (bs : List Valence.BE),
    Query.labelsLoop (fun k => (atoms.lookup k).map (·.z)) row acc = some l →
    row.mapM (Valence.nbrEntry atoms) = some bs →
    l.neighbors = acc.neighbors + (bs.filter fun b => b.1 != 8).length ∧
    l.heteroatoms = acc.heteroatoms + ((bs.filter fun b => b.1 != 8).filter fun b => isHetero b.2).length ∧
    (l.hybridization = 1 → acc.hybridization = 1 ∧ ∀ b ∈ bs, b.1 ≠ 8 → b.1 ≠ 2 ∧ b.1 ≠ 3 ∧ b.1 ≠ 4) := by
  intro row
  induction row with
  | nil =>
    intro acc l bs hl hb
    simp only [Query.labelsLoop, Option.some.injEq] at hl
    simp only [List.mapM_nil, Option.pure_def, Option.some.injEq] at hb
    subst hl hb
    simp
  | cons kb rest ih =>
    obtain ⟨k, bond⟩ := kb
    intro acc l bs hl hb
    rw [List.mapM_cons] at hb
    cases he : Valence.nbrEntry atoms (k, bond) with
    | none => simp [he] at hb
    | some e =>
      cases hr : rest.mapM (Valence.nbrEntry atoms) with
      | none => simp [he, hr] at hb
      | some tl =>
        simp only [he, hr, Option.pure_def, Option.bind_eq_bind, Option.bind_some, Option.some.injEq] at hb
        subst hb
        unfold Valence.nbrEntry at he
        cases hx : atoms.lookup k with
        | none => simp [hx] at he
        | some x =>
          simp only [hx, Option.map_some, Option.some.injEq] at he
          subst he
          rw [Query.labelsLoop] at hl
          by_cases h8 : bond.order = 8
          · have h8' : (bond.order == 8) = true := by simpa using h8
            simp only [h8', if_true] at hl
            obtain ⟨a1, a2, a3⟩ := ih acc l tl hl hr
            refine ⟨?_, ?_, ?_⟩
            · rw [a1]; simp [List.filter_cons, h8]
            · rw [a2]; simp [List.filter_cons, h8]
            · intro h1
              obtain ⟨b1, b2⟩ := a3 h1
              refine ⟨b1, ?_⟩
              intro b hb hb8
              rcases List.mem_cons.mp hb with rfl | hb
              · exact absurd h8 hb8
              · exact b2 b hb hb8
          · have h8' : (bond.order == 8) = false := by simpa using h8
            simp only [h8', Bool.false_eq_true, if_false, hx, Option.map_some] at hl
            obtain ⟨a1, a2, a3⟩ := ih _ l tl hl hr
            have hne : ((bond.order, x.z).1 != 8) = true := by simpa using h8
            refine ⟨?_, ?_, ?_⟩
            · rw [a1]; simp only [List.filter_cons, hne, if_true, List.length_cons]; omega
            · rw [a2]
              simp only [List.filter_cons, hne, if_true]
              by_cases hz1 : x.z = 1
              · simp [hz1, isHetero]
              · by_cases hz6 : x.z = 6
                · simp [hz6, isHetero]
                · have : isHetero x.z = true := by simp [isHetero, hz1, hz6]
                  have hz1' : (x.z == 1) = false := by simpa using hz1
                  have hz6' : (x.z != 6) = true := by simpa using hz6
                  simp only [hz1', Bool.false_eq_true, if_false, hz6', if_true, this, List.length_cons]
                  omega
            · intro h1
              obtain ⟨b1, b2⟩ := a3 h1
              simp only at b1
              obtain ⟨c1, c2, c3, c4⟩ := hybStep_eq_one _ _ b1
              refine ⟨c1, ?_⟩
              intro b hb hb8
              rcases List.mem_cons.mp hb with rfl | hb
              · exact ⟨c2, c3, c4⟩
              · exact b2 b hb hb8

theorem mapM_nbrEntry_orders' (atoms : List (Nat × Atom)) : ∀ (row : List (Nat × Bond)) (bs : List Valence.BE),
    row.mapM (Valence.nbrEntry atoms) = some bs → bs.map (·.1) = row.map (·.2.order) := by
  intro row
  induction row with
  | nil => intro bs h; simp only [List.mapM_nil, Option.pure_def, Option.some.injEq] at h; subst h; rfl
  | cons kb rest ih =>
    intro bs h
    rw [List.mapM_cons] at h
    cases h1 : Valence.nbrEntry atoms kb with
    | none => simp [h1] at h
    | some e =>
      cases h2 : rest.mapM (Valence.nbrEntry atoms) with
      | none => simp [h1, h2] at h
      | some tl =>
        simp only [h1, h2, Option.pure_def, Option.bind_eq_bind, Option.bind_some, Option.some.injEq] at h
        subst h
        simp only [List.map_cons, ih tl h2, List.cons.injEq, and_true]
        unfold Valence.nbrEntry at h1
        cases h3 : atoms.lookup kb.1 with
        | none => simp [h3] at h1
        | some x => simp only [h3, Option.map_some, Option.some.injEq] at h1; rw [← h1]

/-! ## the theorem -/

theorem tupleRejects_singleton (d v : Nat) (h : Query.tupleRejects [d] v = false) : v = d := by
  unfold Query.tupleRejects at h
  simp only [List.isEmpty_cons, Bool.not_false, Bool.true_and, Bool.not_eq_false', List.contains_cons, List.contains_nil,
    Bool.or_false, beq_iff_eq] at h
  exact h

/-- what a successful comparison of a non-metal query atom says about the atom -/
theorem pyEq_facts (q : Query.QAtom) (ma : Query.MAtom) (hk : q.kind ≠ .metal) (h : Query.pyEq q ma = true) :
    q.charge = ma.charge ∧ q.radical = ma.radical ∧ Query.tupleRejects q.neighbors ma.neighbors = false ∧
    Query.tupleRejects q.hybridization ma.hybridization = false ∧ Query.tupleRejects q.heteroatoms ma.heteroatoms = false := by
  have tail : ∀ iso, Query.extendedTail q iso ma = true →
      q.charge = ma.charge ∧ q.radical = ma.radical ∧ Query.tupleRejects q.neighbors ma.neighbors = false ∧
      Query.tupleRejects q.hybridization ma.hybridization = false ∧ Query.tupleRejects q.heteroatoms ma.heteroatoms = false := by
    intro iso ht
    unfold Query.extendedTail at ht
    split at ht
    · simp at ht
    · rename_i h1
      split at ht
      · simp at ht
      · rename_i h2
        split at ht
        · simp at ht
        · split at ht
          · simp at ht
          · rename_i h4
            split at ht
            · simp at ht
            · rename_i h5
              split at ht
              · simp at ht
              · split at ht
                · simp at ht
                · split at ht
                  · simp at ht
                  · rename_i h8
                    refine ⟨by simpa using h1, by simpa using h2, by simpa using h4, by simpa using h5, by simpa using h8⟩
  unfold Query.pyEq at h
  cases hkind : q.kind with
  | element z iso =>
    simp only [hkind] at h
    split at h
    · simp at h
    · exact tail iso h
  | any => simp only [hkind] at h; exact tail none h
  | list zs =>
    simp only [hkind] at h
    split at h
    · simp at h
    · exact tail none h
  | metal => exact absurd hkind hk

/-- **An invalid all-single pattern atom only matches valence errors.** Let a non-metal query atom pin its environment to
    `d` single bonds (`D = d`, `z = 1`) and let no compiled valence rule of element `a.z` be satisfiable there (`badFor`).
    If it compares equal to atom `x` of a molecule with fresh labels (`mAtomOf`) whose bond orders are legal, then
    `calc_implicit` gives `x` no hydrogen count — `x` is a valence error. -/
theorem invalid_pinned_atom_is_valence_error (m : Mol) (sssr : List (List Nat)) (x : Nat) (a : Atom) (q : Query.QAtom) (d : Nat)
    (ha : m.atom? x = some a) (hz : a.z ≠ 1) (hq : q.neighbors = [d]) (hy : q.hybridization = [1]) (hkind : q.kind ≠ .metal)
    (hord : ∀ row, m.adj.lookup x = some row → ∀ kb ∈ row, kb.2.order ∈ [1, 2, 3, 4, 8])
    (ma : Query.MAtom) (hma : Query.mAtomOf m sssr x = some ma) (heq : Query.pyEq q ma = true)
    (hbad : badFor a.z q d = true) : ∀ h, Valence.calcImplicitMol m x ≠ some (some h) := by
  intro h hcalc
  -- the labels
  unfold Query.mAtomOf at hma
  simp only [ha, bind, Option.bind] at hma
  cases hl : Query.labelsOf m x with
  | none => simp [hl] at hma
  | some l =>
    simp only [hl, Option.some.injEq] at hma
    subst hma
    obtain ⟨e1, e2, e3, e4, e5⟩ := pyEq_facts q _ hkind heq
    simp only at e1 e2 e3 e4 e5
    rw [hq] at e3
    rw [hy] at e4
    have hn : l.neighbors = d := tupleRejects_singleton d _ e3
    have hh1 : l.hybridization = 1 := tupleRejects_singleton 1 _ e4
    -- unfold `calc_implicit`
    unfold Valence.calcImplicitMol Valence.ctxOf at hcalc
    have ha' : m.atoms.lookup x = some a := ha
    simp only [ha'] at hcalc
    cases hrow : m.adj.lookup x with
    | none => simp [hrow] at hcalc
    | some row =>
      simp only [hrow] at hcalc
      cases hbs : row.mapM (Valence.nbrEntry m.atoms) with
      | none => simp [hbs] at hcalc
      | some bs =>
        simp only [hbs, Option.map_some, Option.bind_some, Valence.calcImplicit] at hcalc
        cases ht : Valence.tableOf a.z with
        | none => simp [ht] at hcalc
        | some t =>
          simp only [ht, Option.map_some, Option.some.injEq] at hcalc
          -- labels in terms of `bs`
          have hnb : m.nbrs x = row := by unfold Mol.nbrs; rw [hrow]; rfl
          unfold Query.labelsOf at hl
          rw [hnb] at hl
          obtain ⟨s1, s2, s3⟩ := labelsLoop_spec m.atoms row ⟨0, 0, 1, 0⟩ l bs hl hbs
          simp only [Nat.zero_add] at s1 s2
          obtain ⟨-, hno⟩ := s3 hh1
          -- legal orders
          have hordb : ∀ b ∈ bs, b.1 ∈ [1, 2, 3, 4, 8] := by
            intro b hb
            have ho := mapM_nbrEntry_orders' m.atoms row bs hbs
            have : b.1 ∈ bs.map (·.1) := List.mem_map.mpr ⟨b, hb, rfl⟩
            rw [ho] at this
            obtain ⟨kb, hkb, e⟩ := List.mem_map.mp this
            rw [← e]; exact hord row hrow kb hkb
          have hcnt : Valence.counted bs = bs.filter fun b => b.1 != 8 := by
            unfold Valence.counted
            apply List.filter_congr
            intro b hb
            by_cases h8 : b.1 = 8
            · simp [h8]
            · have := (hno b hb h8).2.2
              simp [h8, this]
          have hone : ∀ b ∈ Valence.counted bs, b.1 = 1 := by
            intro b hb
            rw [hcnt] at hb
            obtain ⟨hb1, hb2⟩ := List.mem_filter.mp hb
            have h8 : b.1 ≠ 8 := by simpa using hb2
            obtain ⟨n2, n3, n4⟩ := hno b hb1 h8
            have := hordb b hb1
            simp only [List.mem_cons, List.mem_nil_iff, or_false] at this
            omega
          have harom : Valence.aromaCount bs = 0 := by
            unfold Valence.aromaCount
            rw [List.filter_eq_nil_iff.mpr]; rfl
            intro b hb
            by_cases h8 : b.1 = 8
            · simp [h8]
            · have := (hno b hb h8).2.2
              simp [this]
          have hd : (Valence.counted bs).length = d := by rw [hcnt, ← s1, hn]
          have hhet : pinnedHetero q = none ∨
              pinnedHetero q = some ((Valence.counted bs).filter fun b => isHetero b.2).length := by
            unfold pinnedHetero
            split
            · rename_i k hk
              right
              rw [hk] at e5
              have := tupleRejects_singleton k _ e5
              rw [hcnt, ← s2, this]
            · left; rfl
          have hbad' : match Valence.valenceRules t a.charge a.radical d with
              | some rules => rules.all (fun r => !ruleSat (.allSingle d (pinnedHetero q)) r) = true
              | none => True := by
            unfold badFor at hbad
            rw [ht, e1, e2] at hbad
            split
            · rename_i rules hr; simp only [hr] at hbad; exact hbad
            · trivial
          have := calcWith_none_of_no_ruleSat t ⟨a.z, a.charge, a.radical, bs⟩ d _ (pinnedHetero q) hz harom hone hd rfl hhet hbad'
          rw [this] at hcalc
          simp at hcalc

end ChythonModel.Proofs.C14
