import ChythonModel.Spec.CycleBasisMin
import ChythonModel.Proofs.C06Gauss
/-!
# The exchange criterion (greedy optimality over GF(2)) behind `checkMinimalWrt`

* `SpanLE B w v ↔ Span ((B.filter (·.1 ≤ w)).map (·.2)) v`, hence soundness/completeness of `inSpanLE`;
* Steinitz: `k` independent vectors inside the span of `m` vectors ⇒ `k ≤ m`;
* threshold counting + summation ⇒ `exchange_minimal`, `checkMinimalWrt_sound`.
-/
namespace ChythonModel.Proofs.C06
open ChythonModel.Spec.CycleBasis

/-! ## `SpanLE`, recursive characterisation -/

theorem spanLE_nil (w v : Nat) : SpanLE [] w v ↔ v = 0 := by
  constructor
  · rintro ⟨cs, hl, hx, _⟩
    cases cs with
    | nil => simpa [xorSel] using hx.symm
    | cons _ _ => simp at hl
  · rintro rfl
    exact ⟨[], rfl, rfl, by intro i b h; simp at h⟩

theorem spanLE_cons (b : WVec) (B : List WVec) (w v : Nat) :
    SpanLE (b :: B) w v ↔ SpanLE B w v ∨ (b.1 ≤ w ∧ SpanLE B w (v ^^^ b.2)) := by
  constructor
  · rintro ⟨cs, hl, hx, hw⟩
    cases cs with
    | nil => simp at hl
    | cons c cs =>
      have hl' : cs.length = B.length := by simpa using hl
      have hw' : ∀ (i : Nat) (b' : WVec), cs[i]? = some true → B[i]? = some b' → b'.1 ≤ w := by
        intro i b' h1 h2
        exact hw (i+1) b' (by simpa using h1) (by simpa using h2)
      simp only [List.map_cons, xorSel] at hx
      cases c with
      | false =>
        left
        refine ⟨cs, hl', ?_, hw'⟩
        simpa using hx
      | true =>
        right
        refine ⟨hw 0 b (by simp) (by simp), cs, hl', ?_, hw'⟩
        simp only [if_true] at hx
        rw [← hx]; exact (xor_cancel_b b.2 _).symm
  · rintro (⟨cs, hl, hx, hw⟩ | ⟨hb, cs, hl, hx, hw⟩)
    · refine ⟨false :: cs, by simp [hl], by simp [xorSel, hx], ?_⟩
      intro i b' h1 h2
      cases i with
      | zero => simp at h1
      | succ i => exact hw i b' (by simpa using h1) (by simpa using h2)
    · refine ⟨true :: cs, by simp [hl], ?_, ?_⟩
      · simp only [List.map_cons, xorSel, if_true, hx]; exact xor_self_cancel b.2 v
      · intro i b' h1 h2
        cases i with
        | zero =>
          simp only [List.getElem?_cons_zero, Option.some.injEq] at h2
          subst h2; exact hb
        | succ i => exact hw i b' (by simpa using h1) (by simpa using h2)

/-- a combination of weight-`≤ w` members, `w ≤ t`, lies in the span of the weight-`≤ t` members -/
theorem spanLE_span_filter {B : List WVec} {w v t : Nat} (h : SpanLE B w v) (hwt : w ≤ t) :
    Span ((B.filter fun b => decide (b.1 ≤ t)).map (·.2)) v := by
  induction B generalizing v with
  | nil => rw [spanLE_nil] at h; subst h; exact span_zero _
  | cons b B ih =>
    rw [spanLE_cons] at h
    rw [List.filter_cons]
    rcases h with h | ⟨hb, h⟩
    · split
      · exact span_tail (ih h)
      · exact ih h
    · have : decide (b.1 ≤ t) = true := by simpa using Nat.le_trans hb hwt
      rw [if_pos this]
      exact Or.inr (ih h)

theorem span_filter_spanLE {B : List WVec} {w v : Nat}
    (h : Span ((B.filter fun b => decide (b.1 ≤ w)).map (·.2)) v) : SpanLE B w v := by
  induction B generalizing v with
  | nil => rw [spanLE_nil]; exact h
  | cons b B ih =>
    rw [spanLE_cons]
    rw [List.filter_cons] at h
    split at h
    · next hb =>
      have hb' : b.1 ≤ w := by simpa using hb
      rcases h with h | h
      · exact Or.inl (ih h)
      · exact Or.inr ⟨hb', ih h⟩
    · exact Or.inl (ih h)

theorem spanLE_iff_span_filter (B : List WVec) (w v : Nat) :
    SpanLE B w v ↔ Span ((B.filter fun b => decide (b.1 ≤ w)).map (·.2)) v :=
  ⟨fun h => spanLE_span_filter h (Nat.le_refl _), span_filter_spanLE⟩

theorem spanLE_zero (B : List WVec) (w : Nat) : SpanLE B w 0 := by
  induction B with
  | nil => exact (spanLE_nil w 0).2 rfl
  | cons b B ih => exact (spanLE_cons b B w 0).2 (Or.inl ih)

/-- every member is a combination of members no heavier than itself -/
theorem mem_spanLE {B : List WVec} {c : WVec} (h : c ∈ B) : SpanLE B c.1 c.2 := by
  induction B with
  | nil => cases h
  | cons b B ih =>
    rw [spanLE_cons]
    rcases List.mem_cons.1 h with rfl | h
    · exact Or.inr ⟨Nat.le_refl _, by rw [Nat.xor_self]; exact spanLE_zero B _⟩
    · exact Or.inl (ih h)

/-! ## independence: coefficient form = recursive form; inherited by sublists -/

theorem independent_indepRec {vs : List Nat} (h : Independent vs) : IndepRec vs := by
  induction vs with
  | nil => trivial
  | cons v vs ih =>
    refine ⟨?_, ih (independent_tail h)⟩
    intro hs
    obtain ⟨cs, hl, hx⟩ := span_coeff hs
    have := h (true :: cs) (by simp [hl]) (by simp [xorSel, hx]) true (List.mem_cons_self ..)
    cases this

theorem independent_iff_indepRec (vs : List Nat) : Independent vs ↔ IndepRec vs :=
  ⟨independent_indepRec, indepRec_independent⟩

theorem span_sublist {l l' : List Nat} (h : l'.Sublist l) {x : Nat} (hx : Span l' x) : Span l x := by
  induction h generalizing x with
  | slnil => exact hx
  | cons a _ ih => exact Or.inl (ih hx)
  | cons_cons a _ ih =>
    rcases hx with hx | hx
    · exact Or.inl (ih hx)
    · exact Or.inr (ih hx)

theorem indepRec_sublist {l l' : List Nat} (h : l'.Sublist l) (hi : IndepRec l) : IndepRec l' := by
  induction h with
  | slnil => trivial
  | cons a _ ih => exact ih hi.2
  | cons_cons a hs ih => exact ⟨fun hx => hi.1 (span_sublist hs hx), ih hi.2⟩

theorem independent_sublist {l l' : List Nat} (h : l'.Sublist l) (hi : Independent l) : Independent l' :=
  indepRec_independent (indepRec_sublist h (independent_indepRec hi))

theorem independent_filter_map {B : List WVec} (p : WVec → Bool) (hi : Independent (B.map (·.2))) :
    Independent ((B.filter p).map (·.2)) :=
  independent_sublist (List.Sublist.map _ List.filter_sublist) hi

/-! ## the executable membership test -/

/-- soundness of the executable membership test -/
theorem inSpanLE_sound {B : List WVec} {w v : Nat} (h : inSpanLE B w v = true) : SpanLE B w v := by
  unfold inSpanLE at h
  split at h
  · cases h
  · next E hE =>
    have hr : reduce E v = 0 := by simpa using h
    have hs := reduce_span E v
    rw [hr, Nat.zero_xor] at hs
    exact span_filter_spanLE (((echelon_sound hE).2.1 v).2 hs)

/-- completeness: needs the members independent -/
theorem inSpanLE_complete {B : List WVec} (hB : Independent (B.map (·.2))) {w v : Nat} (h : SpanLE B w v) :
    inSpanLE B w v = true := by
  have hi := independent_filter_map (fun b => decide (b.1 ≤ w)) hB
  have hsome := echelon_complete hi
  unfold inSpanLE
  split
  · next hn => rw [hn] at hsome; cases hsome
  · next E hE =>
    obtain ⟨hEch, hspan, _⟩ := echelon_sound hE
    have hv : Span E v := (hspan v).1 ((spanLE_iff_span_filter B w v).1 h)
    have hred := span_xor (reduce_span E v) hv
    rw [xor_cancel_e] at hred
    have := ech_span_zero hEch hred (reduce_pivots hEch v)
    simp [this]

theorem inSpanLE_iff {B : List WVec} (hB : Independent (B.map (·.2))) (w v : Nat) :
    inSpanLE B w v = true ↔ SpanLE B w v :=
  ⟨inSpanLE_sound, inSpanLE_complete hB⟩

/-! ## Steinitz exchange -/

theorem span_cons_of {a : Nat} {l L : List Nat} {x : Nat} (hx : Span (a :: l) x)
    (hl : ∀ y, Span l y → Span L y) (ha : Span L a) : Span L x := by
  rcases hx with hx | hx
  · exact hl x hx
  · have := span_xor (hl _ hx) ha
    rwa [xor_cancel_e] at this

/-- one elimination step: independent vectors in `Span (v :: vs)` give independent vectors in `Span vs`,
at most one fewer -/
theorem steinitz_step {v : Nat} {vs us : List Nat} (hi : IndepRec us) (hs : ∀ u ∈ us, Span (v :: vs) u) :
    ∃ us', (∀ u ∈ us', Span vs u) ∧ IndepRec us' ∧ (∀ x, Span us' x → Span us x) ∧
      (us.length ≤ us'.length ∨ (us.length ≤ us'.length + 1 ∧ ∃ p, Span us p ∧ Span vs (p ^^^ v))) := by
  induction us with
  | nil => exact ⟨[], by simp, trivial, fun x h => h, Or.inl (Nat.le_refl _)⟩
  | cons u rest ih =>
    obtain ⟨rest', hin, hind, hsub, hlen⟩ := ih hi.2 (fun u hu => hs u (List.mem_cons_of_mem _ hu))
    have hu := hs u (List.mem_cons_self ..)
    by_cases hvu : Span vs u
    · refine ⟨u :: rest', ?_, ⟨fun h => hi.1 (hsub u h), hind⟩, ?_, ?_⟩
      · intro y hy
        rcases List.mem_cons.1 hy with rfl | hy
        · exact hvu
        · exact hin y hy
      · intro x hx
        exact span_cons_of hx (fun y hy => span_tail (hsub y hy)) (span_head u rest)
      · rcases hlen with hlen | ⟨hlen, p, hp, hpv⟩
        · left; simp only [List.length_cons]; omega
        · right; exact ⟨by simp only [List.length_cons]; omega, p, span_tail hp, hpv⟩
    · have huv : Span vs (u ^^^ v) := by
        rcases hu with hu | hu
        · exact absurd hu hvu
        · exact hu
      rcases hlen with hlen | ⟨hlen, p, hp, hpv⟩
      · exact ⟨rest', hin, hind, fun x hx => span_tail (hsub x hx),
          Or.inr ⟨by simp only [List.length_cons]; omega, u, span_head u rest, huv⟩⟩
      · have hup : Span vs (u ^^^ p) := by
          have := span_xor huv hpv
          rwa [xor_cancel_a] at this
        refine ⟨(u ^^^ p) :: rest', ?_, ⟨?_, hind⟩, ?_, ?_⟩
        · intro y hy
          rcases List.mem_cons.1 hy with rfl | hy
          · exact hup
          · exact hin y hy
        · intro h
          have := span_xor (hsub _ h) hp
          rw [xor_cancel_e] at this
          exact hi.1 this
        · intro x hx
          refine span_cons_of hx (fun y hy => span_tail (hsub y hy)) ?_
          exact span_xor (span_head u rest) (span_tail hp)
        · right; exact ⟨by simp only [List.length_cons]; omega, p, span_tail hp, hpv⟩

theorem indepRec_length_le_of_span {us vs : List Nat} (hi : IndepRec us) (hs : ∀ u ∈ us, Span vs u) :
    us.length ≤ vs.length := by
  induction vs generalizing us with
  | nil =>
    cases us with
    | nil => exact Nat.le_refl _
    | cons u rest =>
      exfalso
      have : u = 0 := hs u (List.mem_cons_self ..)
      exact hi.1 (this ▸ span_zero rest)
  | cons v vs ih =>
    obtain ⟨us', hin, hind, _, hlen⟩ := steinitz_step hi hs
    have := ih hind hin
    simp only [List.length_cons]
    rcases hlen with h | ⟨h, _⟩ <;> omega

/-- Steinitz: `k` independent vectors inside the span of `m` vectors ⇒ `k ≤ m` -/
theorem independent_length_le_of_span {us vs : List Nat} (hi : Independent us) (hs : ∀ u ∈ us, Span vs u) :
    us.length ≤ vs.length :=
  indepRec_length_le_of_span (independent_indepRec hi) hs

/-! ## threshold counting and summation by layers -/

def cntLE (B : List WVec) (t : Nat) : Nat := (B.filter fun b => decide (b.1 ≤ t)).length
def cntGT (B : List WVec) (t : Nat) : Nat := (B.filter fun b => decide (t < b.1)).length

theorem cntLE_add_cntGT (B : List WVec) (t : Nat) : cntLE B t + cntGT B t = B.length := by
  induction B with
  | nil => rfl
  | cons b B ih =>
    simp only [cntLE, cntGT, List.filter_cons, List.length_cons] at *
    by_cases h : b.1 ≤ t
    · have h' : ¬ t < b.1 := by omega
      simp only [h, h', decide_true, decide_false, if_true, List.length_cons]
      simp; omega
    · have h' : t < b.1 := by omega
      simp only [h, h', decide_true, decide_false, if_true, List.length_cons]
      simp; omega

/-- `Σ_{t < M} #{b ∈ B : t < b.1}` -/
def layerSum (B : List WVec) : Nat → Nat
  | 0 => 0
  | M + 1 => layerSum B M + cntGT B M

theorem cntGT_cons (b : WVec) (B : List WVec) (t : Nat) :
    cntGT (b :: B) t = (if t < b.1 then 1 else 0) + cntGT B t := by
  simp only [cntGT, List.filter_cons]
  by_cases h : t < b.1
  · simp [h]; omega
  · simp [h]

theorem layerSum_cons (b : WVec) (B : List WVec) (M : Nat) :
    layerSum (b :: B) M = min b.1 M + layerSum B M := by
  induction M with
  | zero => simp [layerSum]
  | succ M ih =>
    simp only [layerSum, ih, cntGT_cons]
    split <;> omega

theorem layerSum_le (B : List WVec) (M : Nat) : layerSum B M ≤ totalLen B := by
  induction B with
  | nil =>
    induction M with
    | zero => simp [layerSum]
    | succ M ih => simp_all [layerSum, cntGT, totalLen]
  | cons b B ih =>
    rw [layerSum_cons]
    simp only [totalLen, List.map_cons, List.sum_cons] at *
    omega

theorem layerSum_eq (B : List WVec) (M : Nat) (hM : ∀ b ∈ B, b.1 ≤ M) : layerSum B M = totalLen B := by
  induction B with
  | nil => exact Nat.le_antisymm (layerSum_le [] M) (Nat.zero_le _)
  | cons b B ih =>
    rw [layerSum_cons]
    have hb := hM b (List.mem_cons_self ..)
    have := ih fun c hc => hM c (List.mem_cons_of_mem _ hc)
    simp only [totalLen, List.map_cons, List.sum_cons] at *
    omega

theorem le_totalLen_of_mem {B : List WVec} {b : WVec} (h : b ∈ B) : b.1 ≤ totalLen B := by
  induction B with
  | nil => cases h
  | cons c B ih =>
    simp only [totalLen, List.map_cons, List.sum_cons] at *
    rcases List.mem_cons.1 h with rfl | h
    · omega
    · have := ih h; omega

theorem layerSum_mono {B B' : List WVec} (h : ∀ t, cntGT B t ≤ cntGT B' t) (M : Nat) :
    layerSum B M ≤ layerSum B' M := by
  induction M with
  | zero => exact Nat.le_refl _
  | succ M ih => simp only [layerSum]; have := h M; omega

/-- summation: pointwise-dominated threshold counts at equal length give the weight inequality -/
theorem totalLen_le_of_cntLE {B B' : List WVec} (hlen : B'.length = B.length)
    (h : ∀ t, cntLE B' t ≤ cntLE B t) : totalLen B ≤ totalLen B' := by
  have hgt : ∀ t, cntGT B t ≤ cntGT B' t := by
    intro t
    have h1 := cntLE_add_cntGT B t
    have h2 := cntLE_add_cntGT B' t
    have := h t
    omega
  have h1 := layerSum_eq B (totalLen B) fun b hb => le_totalLen_of_mem hb
  have h2 := layerSum_mono hgt (totalLen B)
  have h3 := layerSum_le B' (totalLen B)
  omega

/-! ## the exchange criterion -/

theorem cntLE_le_of_spanLE {B B' : List WVec} (hB' : Independent (B'.map (·.2)))
    (hF : ∀ c ∈ B', SpanLE B c.1 c.2) (t : Nat) : cntLE B' t ≤ cntLE B t := by
  have hi := independent_filter_map (fun b => decide (b.1 ≤ t)) hB'
  have hs : ∀ u ∈ (B'.filter fun b => decide (b.1 ≤ t)).map (·.2),
      Span ((B.filter fun b => decide (b.1 ≤ t)).map (·.2)) u := by
    intro u hu
    obtain ⟨c, hc, rfl⟩ := List.mem_map.1 hu
    obtain ⟨hcB, hct⟩ := List.mem_filter.1 hc
    exact spanLE_span_filter (hF c hcB) (by simpa using hct)
  have := independent_length_le_of_span hi hs
  simpa [cntLE] using this

set_option linter.unusedVariables false in
/-- **exchange criterion / greedy optimality**: `B` independent (not even needed); every member `(w, v)` of the
family `F` is a GF(2) sum of members of `B` of weight `≤ w`. Then any independent `B'` drawn from `F` with as many
members as `B` weighs at least as much. -/
theorem exchange_minimal (B F : List WVec) (hB : Independent (B.map (·.2)))
    (hF : ∀ c ∈ F, SpanLE B c.1 c.2)
    (B' : List WVec) (hsub : ∀ c ∈ B', c ∈ F) (hB' : Independent (B'.map (·.2)))
    (hlen : B'.length = B.length) : totalLen B ≤ totalLen B' :=
  totalLen_le_of_cntLE hlen (cntLE_le_of_spanLE hB' fun c hc => hF c (hsub c hc))

/-- the checker form -/
theorem checkMinimalWrt_sound (B F : List WVec) (hB : Independent (B.map (·.2)))
    (hc : checkMinimalWrt B F = true)
    (B' : List WVec) (hsub : ∀ c ∈ B', c ∈ F) (hB' : Independent (B'.map (·.2)))
    (hlen : B'.length = B.length) : totalLen B ≤ totalLen B' := by
  refine exchange_minimal B F hB ?_ B' hsub hB' hlen
  intro c hcF
  exact inSpanLE_sound (List.all_eq_true.1 hc c hcF)

/-! ## converse: the checker raises no false alarm on a basis that is minimal w.r.t. `B ++ F` -/

theorem xor_cancel_f (v p : Nat) : v ^^^ (v ^^^ p) = p := by grind

/-- a vector of the span that is not a combination of the weight-`≤ w` members uses some heavier member `b`,
and is independent of the others -/
theorem exchange_exists {B : List WVec} (hi : IndepRec (B.map (·.2))) {w v : Nat}
    (hs : Span (B.map (·.2)) v) (hn : ¬ SpanLE B w v) :
    ∃ (b : WVec) (B₀ : List WVec), B₀.Sublist B ∧ B₀.length + 1 = B.length ∧
      totalLen B = b.1 + totalLen B₀ ∧ w < b.1 ∧ ¬ Span (B₀.map (·.2)) v := by
  induction B generalizing v with
  | nil => exact absurd ((spanLE_nil w v).2 hs) hn
  | cons p rest ih =>
    rw [spanLE_cons] at hn
    have hn1 : ¬ SpanLE rest w v := fun h => hn (Or.inl h)
    have hn2 : p.1 ≤ w → ¬ SpanLE rest w (v ^^^ p.2) := fun hp h => hn (Or.inr ⟨hp, h⟩)
    obtain ⟨hp, hir⟩ := hi
    by_cases hv : Span (rest.map (·.2)) v
    · obtain ⟨b, R, hsub, hlen, htot, hwb, hnot⟩ := ih hir hv hn1
      refine ⟨b, p :: R, hsub.cons_cons p, by simp [hlen], ?_, hwb, ?_⟩
      · simp only [totalLen, List.map_cons, List.sum_cons] at *; omega
      · rintro (h | h)
        · exact hnot h
        · have h' := span_sublist (hsub.map (·.2)) h
          have := span_xor hv h'
          rw [xor_cancel_f] at this
          exact hp this
    · have hv2 : Span (rest.map (·.2)) (v ^^^ p.2) := by
        rcases hs with hs | hs
        · exact absurd hs hv
        · exact hs
      by_cases hpw : p.1 ≤ w
      · obtain ⟨b, R, hsub, hlen, htot, hwb, hnot⟩ := ih hir hv2 (hn2 hpw)
        refine ⟨b, p :: R, hsub.cons_cons p, by simp [hlen], ?_, hwb, ?_⟩
        · simp only [totalLen, List.map_cons, List.sum_cons] at *; omega
        · rintro (h | h)
          · exact hv (span_sublist (hsub.map (·.2)) h)
          · exact hnot h
      · exact ⟨p, rest, List.sublist_cons_self p rest, by simp, by simp [totalLen], by omega, hv⟩

/-- false-alarm freedom: an independent `B` spanning `F` that no same-size independent selection from `B ++ F`
undercuts is accepted by the checker -/
theorem checkMinimalWrt_complete (B F : List WVec) (hB : Independent (B.map (·.2)))
    (hspan : ∀ c ∈ F, Span (B.map (·.2)) c.2)
    (hmin : ∀ B' : List WVec, (∀ c ∈ B', c ∈ B ++ F) → Independent (B'.map (·.2)) →
      B'.length = B.length → totalLen B ≤ totalLen B') :
    checkMinimalWrt B F = true := by
  refine List.all_eq_true.2 fun c hcF => inSpanLE_complete hB ?_
  apply Classical.byContradiction
  intro hn
  have hi := independent_indepRec hB
  obtain ⟨b, B₀, hsub, hlen, htot, hwb, hnot⟩ := exchange_exists hi (hspan c hcF) hn
  have h := hmin (c :: B₀)
    (by
      intro d hd
      rcases List.mem_cons.1 hd with rfl | hd
      · exact List.mem_append_right _ hcF
      · exact List.mem_append_left _ (hsub.subset hd))
    (indepRec_independent ⟨hnot, indepRec_sublist (hsub.map (·.2)) hi⟩)
    (by simp [hlen])
  simp only [totalLen, List.map_cons, List.sum_cons] at h htot
  omega

/-- with `B` independent and spanning `F`: the checker accepts **iff** no same-size independent selection from
`B ++ F` is lighter than `B` -/
theorem checkMinimalWrt_iff (B F : List WVec) (hB : Independent (B.map (·.2)))
    (hspan : ∀ c ∈ F, Span (B.map (·.2)) c.2) :
    checkMinimalWrt B F = true ↔
      ∀ B' : List WVec, (∀ c ∈ B', c ∈ B ++ F) → Independent (B'.map (·.2)) →
        B'.length = B.length → totalLen B ≤ totalLen B' := by
  constructor
  · intro hc B' hsub hB' hlen
    refine exchange_minimal B (B ++ F) hB ?_ B' hsub hB' hlen
    intro c hc'
    rcases List.mem_append.1 hc' with h | h
    · exact mem_spanLE h
    · exact inSpanLE_sound (List.all_eq_true.1 hc c h)
  · exact checkMinimalWrt_complete B F hB hspan

end ChythonModel.Proofs.C06
