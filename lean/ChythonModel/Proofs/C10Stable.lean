import ChythonModel.Proofs.C10Blocks
/-!
# C10: the documented bytes (format versions 2 and 0) of a molecule decode to that molecule
-/
namespace ChythonModel.Proofs.C10
open ChythonModel.Model.Pack ChythonModel.Spec.PackLayout

theorem header_layout_v (v n cc : Nat) (hv : v < 256) (hn : n < 4096) (hc : cc < 4096) :
    fieldsBytes [(8, v), (12, n), (12, cc)] = [v, u8 (n >>> 4), u8 (n <<< 4 ||| cc >>> 8), u8 cc] := by
  obtain ⟨a1, a2, a3⟩ := pair12_arith n cc hn hc
  rw [a1, a2, a3]
  fields_eval
  rw [toBE4]
  congr 1
  · omega
  congr 1
  · omega
  congr 1
  · omega
  congr 1
  omega

theorem v0OrderBytes_length : ∀ (codes : List Nat), (∀ c ∈ codes, c < 8) →
    (v0OrderBytes codes).length = ((codes.length + 4) / 5) * 2
  | [], _ => rfl
  | [c0], h => by
    simpa [v0OrderBytes] using (v0_group (h c0 (by simp)) (c1 := 0) (by decide) (c2 := 0) (by decide) (c3 := 0) (by decide) (c4 := 0) (by decide)).1
  | [c0, c1], h => by
    simpa [v0OrderBytes] using (v0_group (h c0 (by simp)) (h c1 (by simp)) (c2 := 0) (by decide) (c3 := 0) (by decide) (c4 := 0) (by decide)).1
  | [c0, c1, c2], h => by
    simpa [v0OrderBytes] using (v0_group (h c0 (by simp)) (h c1 (by simp)) (h c2 (by simp)) (c3 := 0) (by decide) (c4 := 0) (by decide)).1
  | [c0, c1, c2, c3], h => by
    simpa [v0OrderBytes] using (v0_group (h c0 (by simp)) (h c1 (by simp)) (h c2 (by simp)) (h c3 (by simp)) (c4 := 0) (by decide)).1
  | c0 :: c1 :: c2 :: c3 :: c4 :: rest, h => by
    have ih := v0OrderBytes_length rest (fun c hc => h c (by simp [hc]))
    have g := (v0_group (h c0 (by simp)) (h c1 (by simp)) (h c2 (by simp)) (h c3 (by simp)) (h c4 (by simp))).1
    simp only [v0OrderBytes, List.length_append, g, ih, List.length_cons]; omega

theorem orderCountOf_v0 (F : Nat) : orderCountOf 0 F = ((F + 4) / 5) * 2 := by
  simp only [orderCountOf]
  have h02 : ((0 : Nat) == 2) = false := rfl
  rw [h02]
  simp only [Bool.false_eq_true, ↓reduceIte]
  split
  · rename_i hz; simp only [bne_iff_ne, ne_eq] at hz; omega
  · rename_i hz; simp only [bne_iff_ne, ne_eq, Decidable.not_not] at hz; omega


/-- **stable layout, version 2**: the documented bytes of a molecule within the limits decode to that molecule -/
theorem decode_layout_aux (m : PMol) (h : WF m) (rest : List Nat) :
    ∃ bytes, layoutBytes m = some bytes ∧
      decode (bytes ++ rest) = .ok ⟨m.atoms.map eraseSt, ctListOf m.terminals (firstSeen [] m.atoms), bytes.length⟩ := by
  obtain ⟨b1, e1, l1⟩ := encode_is_layout_aux m h
  obtain ⟨b2, e2, _, d2⟩ := decode_encode_aux m h rest
  rw [e1] at e2
  have : b1 = b2 := by injection e2
  subst this
  exact ⟨b1, l1, d2⟩

/-- **stable layout, version 0**: a version-0 pack of the molecule (old bond-order block) decodes to the same result -/
theorem decode_layout_v0_aux (m : PMol) (h : WF m) (rest : List Nat) :
    ∃ bytes, layoutBytesV0 m = some bytes ∧
      decode (bytes ++ rest) = .ok ⟨m.atoms.map eraseSt, ctListOf m.terminals (firstSeen [] m.atoms), bytes.length⟩ := by
  have hcodes : ∀ c ∈ orderCodes m.atoms, c < 8 := by
    intro c hc
    simp only [orderCodes, List.mem_map] at hc
    obtain ⟨p, hp, rfl⟩ := hc
    obtain ⟨a, ha, hnb⟩ := firstSeen_mem [] m.atoms p hp
    exact (code_roundtrip (h.graph.order a ha p.2 hnb)).1
  obtain ⟨pad, hpad⟩ := v0_orders (orderCodes m.atoms) hcodes
  have hlen : (v0OrderBytes (orderCodes m.atoms)).length = orderCountOf 0 (firstSeen [] m.atoms).length := by
    rw [v0OrderBytes_length _ hcodes, orderCountOf_v0]; simp [orderCodes]
  have h02 : ((0 : Nat) == 2) = false := rfl
  obtain ⟨ab, ct, hab, hct, hd⟩ := decode_blocks m h 0 (Or.inl rfl) (v0OrderBytes (orderCodes m.atoms)) pad hlen
    (by rw [h02]; exact hpad) rest
  refine ⟨_, ?_, hd⟩
  -- the documented bytes are these blocks
  obtain ⟨af, ab', a1, a2, a3, a4, a5⟩ := atoms_layout m.atoms h.atomsOK
  obtain ⟨cf, ct', c1, c2, c3, _, _⟩ := ct_block_layout m.terminals (firstSeen [] m.atoms) h.terminals
  rw [hab] at a2; cases a2
  rw [hct] at c2; cases c2
  obtain ⟨F, hF⟩ : ∃ F, (firstSeen [] m.atoms).length = F := ⟨_, rfl⟩
  have hT : (m.atoms.map (·.nbrs.length)).sum = 2 * F := by rw [← hF]; exact h.handshake.symm
  have hflen : (flatM m.atoms).length = 2 * F := by rw [flatM_length, hT]
  have hconn := conn_layout (flatM m.atoms) 0 (flatM_lt _ h.nbrRange) (by omega)
  have hokconn : FieldsOK ((flatM m.atoms).map fun m => ((12, m) : Field)) := by
    intro f hf
    obtain ⟨x, hx, rfl⟩ := List.mem_map.mp hf
    exact flatM_lt _ h.nbrRange x hx
  have hof : (firstSeen [] m.atoms).map (fun p => p.2.order - 1) = orderCodes m.atoms := by
    simp only [orderCodes]
    apply List.map_congr_left
    intro p hp
    obtain ⟨a, ha, hnb⟩ := firstSeen_mem [] m.atoms p hp
    have := h.graph.order a ha p.2 hnb
    simp only [u8]; omega
  have hcount := h.count
  simp only [layoutBytesV0, a1, bondsInOrder_eq, c1, stereoBondCount]
  show some (fieldsBytes ([(8, 0), (12, m.atoms.length), (12, ctCount m.atoms)] ++ af ++ connFields m.atoms) ++
      v0OrderBytes ((firstSeen [] m.atoms).map fun p => p.2.order - 1) ++ fieldsBytes cf) = _
  rw [hof, connFields_eq, c3,
    fieldsBytes_append _ _ (by rw [width_append, a4]; simp [width]; omega) hokconn,
    fieldsBytes_append _ _ (by simp [width]) a5, a3, ← hconn,
    header_layout_v 0 _ _ (by decide) (by omega) (by have := h.ctLimit; omega)]

end ChythonModel.Proofs.C10
