import ChythonModel.Proofs.C02ReadOk
import Mathlib.Data.List.Perm.Basic
namespace ChythonModel.Proofs.C02
open ChythonModel.Model ChythonModel.Model.SmilesWriter ChythonModel.Model.C02RT

/-! ## A. `cyclesWF` from occurrence counts -/

theorem count_eq_one_of_nodup_mem {l : List Nat} (h : l.Nodup) {c : Nat} (hm : c ∈ l) : l.count c = 1 := by
  have h1 := List.nodup_iff_count.mp h c
  have h2 := List.count_pos_iff.mpr hm
  omega

theorem cyclesWF_of_counts_gen : ∀ (L : List (List Nat)) (opened seen : List Nat),
    (∀ l ∈ L, l.Nodup) → (∀ c, seen.count c + L.flatten.count c ≤ 2) →
    (∀ c, c ∈ opened ↔ seen.count c = 1) → cyclesWF opened seen L = true := by
  intro L
  induction L with
  | nil => intro _ _ _ _ _; rfl
  | cons cyc tl ih =>
    intro opened seen hnd hc ho
    have hcn : cyc.Nodup := hnd cyc (by simp)
    have hcc : ∀ c, c ∈ cyc → cyc.count c = 1 := fun c hm => count_eq_one_of_nodup_mem hcn hm
    have hcc0 : ∀ c, c ∉ cyc → cyc.count c = 0 := fun c hm => List.count_eq_zero_of_not_mem hm
    simp only [cyclesWF, Bool.and_eq_true, decide_eq_true_eq, List.all_eq_true, Bool.or_eq_true,
      List.contains_iff_mem, Bool.not_eq_eq_eq_not, Bool.not_true]
    refine ⟨⟨hcn, ?_⟩, ?_⟩
    · intro c hm
      have h1 := hc c
      simp only [List.flatten_cons, List.count_append, hcc c hm] at h1
      by_cases h0 : seen.count c = 0
      · right
        have : c ∉ seen := fun hs => by
          have := List.count_pos_iff.mpr hs
          omega
        simpa using this
      · left; exact (ho c).mpr (by omega)
    · apply ih
      · intro l hl; exact hnd l (by simp [hl])
      · intro c
        have h1 := hc c
        simp only [List.flatten_cons, List.count_append] at h1 ⊢
        omega
      · intro c
        have h1 := hc c
        simp only [List.flatten_cons, List.count_append] at h1
        rw [mem_toggle, List.count_append, ho c]
        by_cases hm : c ∈ cyc
        · have := hcc c hm
          simp only [hm, not_true_eq_false, and_false, true_and, false_or]
          omega
        · have := hcc0 c hm
          simp only [hm, not_false_eq_true, and_true, false_and, or_false]
          omega

theorem cyclesWF_of_counts (L : List (List Nat)) (hnd : ∀ l ∈ L, l.Nodup) (hc : ∀ c, L.flatten.count c ≤ 2) :
    cyclesWF [] [] L = true :=
  cyclesWF_of_counts_gen L [] [] hnd (by simpa using hc) (by simp)

/-! ## B. the pairing table empties when every key occurs zero or two times -/

theorem lookup_eq_none_of_not_mem (opened : List (Nat × Nat)) (k : Nat) (h : k ∉ keysOf opened) :
    opened.lookup k = none := by
  cases hlk : opened.lookup k with
  | none => rfl
  | some a => exact absurd ((lookup_isSome_iff opened k).mp (by rw [hlk]; rfl)) h

theorem lookup_some_of_mem (opened : List (Nat × Nat)) (k : Nat) (h : k ∈ keysOf opened) :
    ∃ a, opened.lookup k = some a := by
  have hl := (lookup_isSome_iff opened k).mpr h
  cases hlk : opened.lookup k with
  | none => rw [hlk] at hl; simp at hl
  | some a => exact ⟨a, rfl⟩

theorem keysOf_filter (opened : List (Nat × Nat)) (k : Nat) :
    keysOf (opened.filter (fun p => p.1 != k)) = (keysOf opened).filter (fun x => x != k) := by
  induction opened with
  | nil => rfl
  | cons p tl ih =>
    simp only [keysOf, List.filter_cons, List.map_cons] at ih ⊢
    by_cases hp : p.1 = k <;> simp [hp, ih]

theorem keysOf_pairStep_of_mem (opened : List (Nat × Nat)) (ev : Nat × Nat) (h : ev.2 ∈ keysOf opened) :
    keysOf (pairStep opened ev).1 = (keysOf opened).filter (fun x => x != ev.2) := by
  obtain ⟨a, ha⟩ := lookup_some_of_mem opened ev.2 h
  simp only [pairStep, ha, keysOf_filter]

theorem keysOf_pairStep_of_not (opened : List (Nat × Nat)) (ev : Nat × Nat) (h : ev.2 ∉ keysOf opened) :
    keysOf (pairStep opened ev).1 = keysOf opened ++ [ev.2] := by
  simp [pairStep, lookup_eq_none_of_not_mem opened ev.2 h, keysOf]

theorem count_filter_ne (l : List Nat) (k x : Nat) :
    (l.filter (fun y => y != k)).count x = if x = k then 0 else l.count x := by
  induction l with
  | nil => simp
  | cons y tl ih =>
    simp only [List.filter_cons, List.count_cons]
    by_cases hy : y = k <;> by_cases hx : x = k <;> by_cases hxy : y = x <;>
      simp_all

theorem keysOf_pairStep_nodup (opened : List (Nat × Nat)) (ev : Nat × Nat) (h : (keysOf opened).Nodup) :
    (keysOf (pairStep opened ev).1).Nodup := by
  by_cases hm : ev.2 ∈ keysOf opened
  · rw [keysOf_pairStep_of_mem opened ev hm]; exact h.filter _
  · rw [keysOf_pairStep_of_not opened ev hm]
    exact List.nodup_append.mpr ⟨h, by simp, by
      intro a ha b hb; simp at hb; subst hb; intro e; subst e; exact hm ha⟩

/-- the balance invariant: every key is, counting the open table and the remaining events, seen zero or two times -/
def Bal (opened evs : List (Nat × Nat)) : Prop :=
  ∀ k, (keysOf opened).count k + (evs.map (·.2)).count k = 0 ∨ (keysOf opened).count k + (evs.map (·.2)).count k = 2

theorem bal_step (opened : List (Nat × Nat)) (ev : Nat × Nat) (evs : List (Nat × Nat))
    (hnd : (keysOf opened).Nodup) (hb : Bal opened (ev :: evs)) : Bal (pairStep opened ev).1 evs := by
  intro k
  have hk := hb k
  simp only [List.map_cons, List.count_cons] at hk
  by_cases hm : ev.2 ∈ keysOf opened
  · rw [keysOf_pairStep_of_mem opened ev hm, count_filter_ne]
    have h1 := count_eq_one_of_nodup_mem hnd hm
    by_cases hke : k = ev.2
    · subst hke; simp at hk ⊢; omega
    · have : (ev.2 == k) = false := by simp [Ne.symm hke]
      simp only [this] at hk; simp only [hke, if_false] ; simpa using hk
  · rw [keysOf_pairStep_of_not opened ev hm, List.count_append]
    have h0 := List.count_eq_zero_of_not_mem hm
    by_cases hke : k = ev.2
    · subst hke; simp at hk ⊢; omega
    · have : (ev.2 == k) = false := by simp [Ne.symm hke]
      simp only [this] at hk
      simp [List.count_cons, this] at hk ⊢
      exact hk

theorem pairAll_closed_gen : ∀ (evs opened : List (Nat × Nat)), (keysOf opened).Nodup → Bal opened evs →
    (pairAll opened evs).1 = [] := by
  intro evs
  induction evs with
  | nil =>
    intro opened hnd hb
    simp only [pairAll]
    cases opened with
    | nil => rfl
    | cons p tl =>
      exfalso
      have hk := hb p.1
      have h1 := count_eq_one_of_nodup_mem hnd (c := p.1) (by simp [keysOf])
      simp at hk; omega
  | cons ev tl ih =>
    intro opened hnd hb
    simp only [pairAll]
    exact ih _ (keysOf_pairStep_nodup opened ev hnd) (bal_step opened ev tl hnd hb)

theorem bal_nil_of_counts (evs : List (Nat × Nat))
    (h : ∀ k, (evs.map (·.2)).count k = 0 ∨ (evs.map (·.2)).count k = 2) : Bal [] evs := by
  intro k; simpa [keysOf] using h k

theorem pairAll_closed_of_counts (evs : List (Nat × Nat))
    (h : ∀ k, (evs.map (·.2)).count k = 0 ∨ (evs.map (·.2)).count k = 2) : (pairAll [] evs).1 = [] :=
  pairAll_closed_gen evs [] (by simp [keysOf]) (bal_nil_of_counts evs h)

/-! ## C. the bonds produced by the pairing -/

/-- the key-recording twin of `pairStep`'s bond output -/
def pairStepK (opened : List (Nat × Nat)) (ev : Nat × Nat) : List (Nat × Nat × Nat) :=
  match opened.lookup ev.2 with
  | some a => [(a, ev.1, ev.2)]
  | none => []

/-- the key-recording twin of `pairAll`'s bond output -/
def pairAllK : List (Nat × Nat) → List (Nat × Nat) → List (Nat × Nat × Nat)
  | _, [] => []
  | opened, ev :: evs => pairStepK opened ev ++ pairAllK (pairStep opened ev).1 evs

theorem pairStepK_proj (opened : List (Nat × Nat)) (ev : Nat × Nat) :
    (pairStepK opened ev).map (fun t => (t.1, t.2.1)) = (pairStep opened ev).2 := by
  simp only [pairStepK, pairStep]
  cases opened.lookup ev.2 <;> rfl

theorem pairAllK_proj : ∀ (evs opened : List (Nat × Nat)),
    (pairAllK opened evs).map (fun t => (t.1, t.2.1)) = (pairAll opened evs).2 := by
  intro evs
  induction evs with
  | nil => intro _; rfl
  | cons ev tl ih =>
    intro opened
    simp only [pairAllK, pairAll, List.map_append, pairStepK_proj, ih]

theorem pairAllK_keys_sub : ∀ (evs opened : List (Nat × Nat)) (k : Nat),
    k ∈ (pairAllK opened evs).map (·.2.2) → k ∈ evs.map (·.2) := by
  intro evs
  induction evs with
  | nil => intro _ k h; simp [pairAllK] at h
  | cons ev tl ih =>
    intro opened k h
    simp only [pairAllK, List.map_append, List.mem_append] at h
    rcases h with h | h
    · simp only [pairStepK] at h
      cases hl : opened.lookup ev.2 with
      | none => rw [hl] at h; simp at h
      | some a => rw [hl] at h; simp at h; simp [h]
    · simp only [List.map_cons, List.mem_cons]; exact Or.inr (ih _ k h)

theorem pairAllK_nodup : ∀ (evs opened : List (Nat × Nat)), (keysOf opened).Nodup → Bal opened evs →
    ((pairAllK opened evs).map (·.2.2)).Nodup := by
  intro evs
  induction evs with
  | nil => intro _ _ _; simp [pairAllK]
  | cons ev tl ih =>
    intro opened hnd hb
    have ih' := ih _ (keysOf_pairStep_nodup opened ev hnd) (bal_step opened ev tl hnd hb)
    simp only [pairAllK, List.map_append]
    by_cases hm : ev.2 ∈ keysOf opened
    · obtain ⟨a, ha⟩ := lookup_some_of_mem opened ev.2 hm
      simp only [pairStepK, ha, List.map_cons, List.map_nil, List.singleton_append, List.nodup_cons]
      refine ⟨?_, ih'⟩
      intro hk
      have h1 := pairAllK_keys_sub tl _ ev.2 hk
      have h2 := List.count_pos_iff.mpr h1
      have h3 := count_eq_one_of_nodup_mem hnd hm
      have h4 := hb ev.2
      simp only [List.map_cons, List.count_cons] at h4
      simp at h4; omega
    · simp only [pairStepK, lookup_eq_none_of_not_mem opened ev.2 hm, List.map_nil, List.nil_append]
      exact ih'

theorem pairAllK_covers : ∀ (evs opened : List (Nat × Nat)), (keysOf opened).Nodup → Bal opened evs →
    ∀ k, (k ∈ keysOf opened ∨ k ∈ evs.map (·.2)) → k ∈ (pairAllK opened evs).map (·.2.2) := by
  intro evs
  induction evs with
  | nil =>
    intro opened hnd hb k hk
    exfalso
    rcases hk with hk | hk
    · have h1 := count_eq_one_of_nodup_mem hnd hk
      have h2 := hb k
      simp at h2; omega
    · simp at hk
  | cons ev tl ih =>
    intro opened hnd hb k hk
    have ih' := ih _ (keysOf_pairStep_nodup opened ev hnd) (bal_step opened ev tl hnd hb) k
    simp only [pairAllK, List.map_append, List.mem_append]
    simp only [List.map_cons, List.mem_cons] at hk
    by_cases hm : ev.2 ∈ keysOf opened
    · obtain ⟨a, ha⟩ := lookup_some_of_mem opened ev.2 hm
      by_cases hke : k = ev.2
      · left; simp [pairStepK, ha, hke]
      · right; apply ih'
        rcases hk with hk | hk | hk
        · left; exact (keysOf_pairStep_mem opened ev k hm).mpr ⟨hk, hke⟩
        · exact absurd hk hke
        · right; exact hk
    · right; apply ih'
      rcases hk with hk | hk | hk
      · left; exact (keysOf_pairStep_not opened ev k hm).mpr (Or.inl hk)
      · left; exact (keysOf_pairStep_not opened ev k hm).mpr (Or.inr hk)
      · right; exact hk

theorem pairAllK_events : ∀ (evs opened : List (Nat × Nat)) (t : Nat × Nat × Nat), t ∈ pairAllK opened evs →
    ((t.2.2, t.1) ∈ opened ∧ ∃ mid post, evs = mid ++ (t.2.1, t.2.2) :: post) ∨
      ∃ pre mid post, evs = pre ++ (t.1, t.2.2) :: mid ++ (t.2.1, t.2.2) :: post := by
  intro evs
  induction evs with
  | nil => intro _ t h; simp [pairAllK] at h
  | cons ev tl ih =>
    intro opened t h
    simp only [pairAllK, List.mem_append] at h
    rcases h with h | h
    · left
      simp only [pairStepK] at h
      cases hl : opened.lookup ev.2 with
      | none => rw [hl] at h; simp at h
      | some a =>
        rw [hl] at h
        simp only [List.mem_singleton] at h
        subst h
        exact ⟨lookup_mem_pair opened ev.2 a hl, [], tl, rfl⟩
    · rcases ih _ t h with ⟨hmem, mid, post, he⟩ | ⟨pre, mid, post, he⟩
      · rcases mem_pairStep opened ev _ hmem with ho | ho
        · left; exact ⟨ho, ev :: mid, post, by rw [he]; rfl⟩
        · right
          refine ⟨[], mid, post, ?_⟩
          have e1 : t.2.2 = ev.2 := congrArg Prod.fst ho
          have e2 : t.1 = ev.1 := congrArg Prod.snd ho
          rw [he, e1, e2]; rfl
      · right; exact ⟨ev :: pre, mid, post, by rw [he]; rfl⟩

theorem pairAll_edges_of_counts (evs : List (Nat × Nat))
    (h : ∀ k, (evs.map (·.2)).count k = 0 ∨ (evs.map (·.2)).count k = 2) :
    ∃ tr : List (Nat × Nat × Nat),
      tr.map (fun t => (t.1, t.2.1)) = (pairAll [] evs).2 ∧
      (tr.map (·.2.2)).Nodup ∧
      (∀ k, k ∈ evs.map (·.2) → k ∈ tr.map (·.2.2)) ∧
      (∀ t ∈ tr, ∃ pre mid post, evs = pre ++ (t.1, t.2.2) :: mid ++ (t.2.1, t.2.2) :: post) := by
  have hnd : (keysOf ([] : List (Nat × Nat))).Nodup := by simp [keysOf]
  have hb := bal_nil_of_counts evs h
  refine ⟨pairAllK [] evs, pairAllK_proj evs [], pairAllK_nodup evs [] hnd hb,
    fun k hk => pairAllK_covers evs [] hnd hb k (Or.inr hk), ?_⟩
  intro t ht
  rcases pairAllK_events evs [] t ht with ⟨hmem, _⟩ | h
  · simp at hmem
  · exact h

/-! ### number of bonds -/

theorem length_filter_ne_of_nodup : ∀ (opened : List (Nat × Nat)) (k : Nat), (keysOf opened).Nodup → k ∈ keysOf opened →
    (opened.filter (fun p => p.1 != k)).length + 1 = opened.length := by
  intro opened
  induction opened with
  | nil => intro k _ h; simp [keysOf] at h
  | cons p tl ih =>
    intro k hnd hm
    simp only [keysOf, List.map_cons, List.nodup_cons, List.mem_cons] at hnd hm
    simp only [List.filter_cons]
    by_cases hp : p.1 = k
    · subst hp
      have : tl.filter (fun q => q.1 != p.1) = tl := by
        apply List.filter_eq_self.mpr
        intro q hq
        have : q.1 ≠ p.1 := fun e => hnd.1 (e ▸ List.mem_map_of_mem hq)
        simpa using this
      simp [this]
    · have hm' : k ∈ keysOf tl := by
        rcases hm with hm | hm
        · exact absurd hm.symm hp
        · exact hm
      have := ih k hnd.2 hm'
      simp [hp]; omega

theorem pairAll_length_gen : ∀ (evs opened : List (Nat × Nat)), (keysOf opened).Nodup →
    2 * (pairAll opened evs).2.length + (pairAll opened evs).1.length = evs.length + opened.length := by
  intro evs
  induction evs with
  | nil => intro opened _; simp [pairAll]
  | cons ev tl ih =>
    intro opened hnd
    have ih' := ih _ (keysOf_pairStep_nodup opened ev hnd)
    simp only [pairAll, List.length_append, List.length_cons]
    by_cases hm : ev.2 ∈ keysOf opened
    · obtain ⟨a, ha⟩ := lookup_some_of_mem opened ev.2 hm
      have hl := length_filter_ne_of_nodup opened ev.2 hnd hm
      simp only [pairStep, ha] at ih' ⊢
      simp only [List.length_cons, List.length_nil]
      omega
    · have ha := lookup_eq_none_of_not_mem opened ev.2 hm
      simp only [pairStep, ha] at ih' ⊢
      simp only [List.length_append, List.length_cons, List.length_nil] at ih' ⊢
      omega

theorem pairAll_edges_length (evs : List (Nat × Nat))
    (h : ∀ k, (evs.map (·.2)).count k = 0 ∨ (evs.map (·.2)).count k = 2) :
    2 * (pairAll [] evs).2.length = evs.length := by
  have h1 := pairAll_length_gen evs [] (by simp [keysOf])
  rw [pairAll_closed_of_counts evs h] at h1
  simpa using h1

end ChythonModel.Proofs.C02
