import ChythonModel.Proofs.C10Streams
/-!
# C10 helper lemmas: the 9-byte atom record and the atom block
-/
namespace ChythonModel.Proofs.C10
open ChythonModel.Model.Pack ChythonModel.Gen

structure AtomOK (a : PAtom) : Prop where
  num : a.num < 4096
  deg : a.nbrs.length < 16
  z : 1 ≤ a.z ∧ a.z ≤ 118
  iso : ∀ i, a.iso = some i → ∃ c, commonAt packCommon a.z = some c ∧ 1 ≤ i - c ∧ i - c ≤ 31
  x : a.x < 65536
  y : a.y < 65536
  h : ∀ k, a.h = some k → k ≤ 6
  charge : -4 ≤ a.charge ∧ a.charge ≤ 4

theorem common_total : ∀ z < 119, ∃ c, commonAt unpackCommon z = some c ∧ commonAt packCommon z = some c := by
  decide +kernel

theorem atom_record_roundtrip (a : PAtom) (h : AtomOK a) :
    ∃ bs, atomRecord a = some bs ∧ bs.length = 9 ∧ decodeAtom bs = .ok ({ a with nbrs := [] }, a.nbrs.length) := by
  obtain ⟨c, hcu, hcp⟩ := common_total a.z (by have := h.z; omega)
  -- the isotope field
  have hiso : ∃ k, isoField a.z a.iso = some k ∧ k < 32 ∧
      (if k != 0 then some (c + (k : Int)) else none) = a.iso := by
    cases hi : a.iso with
    | none => exact ⟨0, by simp [isoField], by decide, by simp⟩
    | some i =>
      obtain ⟨c', hc', h1, h2⟩ := h.iso i hi
      rw [hcp] at hc'; cases hc'
      refine ⟨(i - c).toNat, ?_, by omega, ?_⟩
      · simp only [isoField, hcp, Option.map_some]
        congr 1; omega
      · have : ((i - c).toNat != 0) = true := by simp; omega
        simp only [this, ↓reduceIte]; congr 1; omega
  obtain ⟨k, hk, hk32, hkiso⟩ := hiso
  have hn : u16 a.num = a.num := u16_id (by have := h.num; omega)
  have hd : u8 a.nbrs.length = a.nbrs.length := u8_id (by have := h.deg; omega)
  have hrec : atomRecord a = some [u8 (a.num >>> 4), u8 (a.num <<< 4 ||| a.nbrs.length),
        u8 (stereoNibble a.stereo a.nbrs.length ||| k >>> 1), u8 (k <<< 7 ||| u8 a.z), u8 (a.x >>> 8), u8 a.x,
        u8 (a.y >>> 8), u8 a.y, hcrByte a.h a.charge a.radical] := by
    simp only [atomRecord, hk, Option.map_some, hn, hd]
  refine ⟨_, hrec, rfl, ?_⟩
  obtain ⟨n1, n2⟩ := num12_nibble' a.num a.nbrs.length h.num h.deg
  have hst : a.stereo ∈ [none, some true, some false] := by
    rcases a.stereo with _ | _ | _ <;> simp
  obtain ⟨s1, s2⟩ := stereo_nibble_roundtrip a.stereo hst a.nbrs.length h.deg
  have hz : a.z = (a.z / 16) * 16 + a.z % 16 := by omega
  obtain ⟨z1, z2, z3⟩ := stereo_iso_z_bytes _ s2 k hk32 (a.z / 16) (by have := h.z; omega) (a.z % 16) (by omega)
  rw [← hz] at z2 z3
  have hh : a.h ∈ [none, some 0, some 1, some 2, some 3, some 4, some 5, some 6] := by
    cases hh : a.h with
    | none => simp
    | some v =>
      have := h.h v hh
      have : v = 0 ∨ v = 1 ∨ v = 2 ∨ v = 3 ∨ v = 4 ∨ v = 5 ∨ v = 6 := by omega
      rcases this with rfl | rfl | rfl | rfl | rfl | rfl | rfl <;> simp
  have hc : a.charge ∈ [(-4 : Int), -3, -2, -1, 0, 1, 2, 3, 4] := by
    have := h.charge
    have : a.charge = -4 ∨ a.charge = -3 ∨ a.charge = -2 ∨ a.charge = -1 ∨ a.charge = 0 ∨ a.charge = 1 ∨
        a.charge = 2 ∨ a.charge = 3 ∨ a.charge = 4 := by omega
    rcases this with e | e | e | e | e | e | e | e | e <;> simp [e]
  have hr : a.radical ∈ [false, true] := by cases a.radical <;> simp
  obtain ⟨_, r1, r2, r3⟩ := hcr_roundtrip a.h hh a.charge hc a.radical hr
  have hlen : unpackElems.length = 119 := by decide
  have hzz : ¬((a.z == 0) = true ∨ a.z ≥ 119) := by have := h.z; simp; omega
  simp only [decodeAtom]
  rw [z3, z2, z1, s1, n1, n2, u16_id (Nat.lt_trans h.num (by decide)), be16 a.x h.x, be16 a.y h.y, hlen, if_neg hzz, hcu]
  simp only [r1, r2, r3, hkiso]

/-- what the decoder knows about an atom after the atom block: everything but the neighbours -/
def stripNbrs (a : PAtom) : PAtom × Nat := ({ a with nbrs := [] }, a.nbrs.length)

theorem decodeAtoms_atomBlock : ∀ (atoms : List PAtom) (tail : List Nat), (∀ a ∈ atoms, AtomOK a) →
    ∃ ab, atomBlock atoms = some ab ∧ ab.length = 9 * atoms.length ∧
      decodeAtoms atoms.length (ab ++ tail) = .ok (atoms.map stripNbrs, tail)
  | [], tail, _ => ⟨[], by simp [atomBlock], by simp, by simp [decodeAtoms]⟩
  | a :: rest, tail, h => by
    obtain ⟨bs, h1, h2, h3⟩ := atom_record_roundtrip a (h a (by simp))
    obtain ⟨ab, i1, i2, i3⟩ := decodeAtoms_atomBlock rest tail (fun x hx => h x (by simp [hx]))
    refine ⟨bs ++ ab, by simp [atomBlock, h1, i1], by simp [h2, i2]; omega, ?_⟩
    have hlen : ¬ ((bs ++ ab ++ tail).length < 9) := by simp [h2]
    have htake : (bs ++ ab ++ tail).take 9 = bs := by
      rw [List.append_assoc, List.take_left' h2]
    have hdrop : (bs ++ ab ++ tail).drop 9 = ab ++ tail := by
      rw [List.append_assoc, List.drop_left' h2]
    simp only [List.length_cons, decodeAtoms, if_neg hlen, htake, hdrop, h3, i3, List.map_cons, stripNbrs]
    rfl

end ChythonModel.Proofs.C10
