import ChythonModel.Proofs.C07Dict
import ChythonModel.Proofs.C07Complete
/-!
The explicit stack machine (`runLoop` / `getMapping`) yields exactly the list the recursive enumerator yields.
-/
namespace ChythonModel.Proofs.C07
open ChythonModel.Model.Iso

/-! ### the dictionaries denote the path -/

theorem lookup_zip_img : ∀ (lq : List Step) (P : List Nat) (m : Nat),
    ((lq.map (·.front)).zip P).lookup m = img lq P m := by
  intro lq
  induction lq with
  | nil => intro P m; simp [img, orderDepth]
  | cons a lq ih =>
    intro P m
    cases P with
    | nil =>
      simp only [List.map_cons, List.zip_nil_right, List.lookup_nil, img]
      cases orderDepth (a :: lq) m <;> simp
    | cons p P =>
      simp only [List.map_cons, List.zip_cons_cons, List.lookup_cons, img, orderDepth, List.findIdx?_cons]
      by_cases h : a.front = m
      · subst h; simp
      · have h1 : (m == a.front) = false := beq_false_of_ne (fun hh => h hh.symm)
        have h2 : (a.front == m) = false := beq_false_of_ne h
        simp only [h1, h2, Bool.false_eq_true, if_false]
        rw [ih P m]
        unfold img orderDepth
        cases List.findIdx? (fun x => x.front == m) lq <;> simp

theorem has_zip (F P : List Nat) (h : P.length ≤ F.length) (y : Nat) : Dict.has (P.zip F) y = P.contains y := by
  have hk : (P.zip F).map (·.1) = P := List.map_fst_zip h
  cases hc : P.contains y with
  | true =>
    rw [dict_has_iff, hk]
    exact List.contains_iff_mem.1 hc
  | false =>
    cases hh : Dict.has (P.zip F) y with
    | false => rfl
    | true =>
      rw [dict_has_iff, hk] at hh
      rw [List.contains_iff_mem.2 hh] at hc
      exact Bool.noConfusion hc

/-! ### `candidates` = the filter `children` uses -/

/-- the acceptance test of one candidate, with the closure images already looked up -/
def childPred (e : Env) (s : Step) (b n : Nat) (path : List Nat) (want : List Nat) (oN : Nat) : Bool :=
  e.scope oN && !path.contains oN && e.bondOk b s.front n oN && e.atomOk s.front oN &&
    (setEq (((e.t.nbrs oN).filter fun y => path.contains y).filter (· != n)) want &&
      ((e.cl.get s.front).zip want).all fun (m, y) => e.bondOk s.front m oN y)

theorem children_eq (e : Env) (depth : Nat) (path : List Nat) (s : Step) (b n : Nat) (want : List Nat)
    (hs : e.lq[depth]? = some s) (hb : s.back = some b) (hn : img e.lq path b = some n)
    (hw : (e.cl.get s.front).mapM (img e.lq path) = some want) :
    children e depth path = (e.t.nbrs n).filter (childPred e s b n path want) := by
  unfold children
  simp only [hs, hb, hn, hw]
  rfl

theorem closureOk_eq (e : Env) (s : Step) (n oN : Nat) (P : List Nat) (want : List Nat)
    (hlen : P.length ≤ (e.lq.map (·.front)).length)
    (hw : (e.cl.get s.front).mapM (img e.lq P) = some want) :
    closureOk e s.front oN n ((e.lq.map (·.front)).zip P) (P.zip (e.lq.map (·.front))) =
      some (setEq (((e.t.nbrs oN).filter fun y => P.contains y).filter (· != n)) want &&
        ((e.cl.get s.front).zip want).all fun (m, y) => e.bondOk s.front m oN y) := by
  unfold closureOk
  have hl : (fun m => List.lookup m ((e.lq.map (·.front)).zip P)) = img e.lq P := by
    funext m; exact lookup_zip_img e.lq P m
  have hh : (fun y => Dict.has (P.zip (e.lq.map (·.front))) y) = fun y => P.contains y := by
    funext y; exact has_zip _ P hlen y
  simp only [hl, hh, hw, Option.bind_eq_bind, Option.bind_some]
  generalize setEq (List.filter (fun x => x != n) (List.filter (fun y => P.contains y) (e.t.nbrs oN))) want = X
  cases X <;> simp

theorem candidates_eq (e : Env) (s : Step) (b n : Nat) (P : List Nat) (want : List Nat)
    (hlen : P.length ≤ (e.lq.map (·.front)).length)
    (hw : (e.cl.get s.front).mapM (img e.lq P) = some want) : ∀ (l : List Nat),
    candidates e s.front b n ((e.lq.map (·.front)).zip P) (P.zip (e.lq.map (·.front))) l =
      some (l.filter (childPred e s b n P want)) := by
  intro l
  induction l with
  | nil => simp [candidates]
  | cons oN rest ih =>
    unfold candidates
    rw [ih]
    simp only [Option.bind_eq_bind, Option.bind_some, has_zip _ P hlen, closureOk_eq e s n oN P want hlen hw]
    rw [List.filter_cons]
    have hp : childPred e s b n P want oN =
        ((e.scope oN && !P.contains oN && e.bondOk b s.front n oN) && e.atomOk s.front oN &&
          (setEq (((e.t.nbrs oN).filter fun y => P.contains y).filter (· != n)) want &&
            ((e.cl.get s.front).zip want).all fun (m, y) => e.bondOk s.front m oN y)) := rfl
    rw [hp]
    generalize (e.scope oN && !P.contains oN && e.bondOk b s.front n oN) = c1
    generalize e.atomOk s.front oN = c2
    generalize (setEq (((e.t.nbrs oN).filter fun y => P.contains y).filter (· != n)) want &&
            ((e.cl.get s.front).zip want).all fun (m, y) => e.bondOk s.front m oN y) = c3
    cases c1 <;> cases c2 <;> cases c3 <;> simp


/-! ### one iteration: truncation, recording, candidates -/

theorem filter_zip_drop (F P : List Nat) (hnd : P.Nodup) (hlen : P.length ≤ F.length) (d : Nat) (hd : d ≤ P.length) :
    (F.zip P).filter (fun p => !(P.drop d).contains p.2) = F.zip (P.take d) := by
  have hA : (P.take d).length = d := by simp [hd]
  have hFd : (F.take d).length = d := by simp; omega
  have hz : F.zip P = (F.take d).zip (P.take d) ++ (F.drop d).zip (P.drop d) := by
    conv_lhs => rw [← List.take_append_drop d F, ← List.take_append_drop d P]
    exact List.zip_append (by rw [hA, hFd])
  have hdisj : ∀ x ∈ P.take d, x ∉ P.drop d := by
    intro x hx hx'
    have := hnd
    rw [← List.take_append_drop d P, List.nodup_append] at this
    exact this.2.2 x hx x hx' rfl
  rw [hz, List.filter_append]
  have h1 : ((F.take d).zip (P.take d)).filter (fun p => !(P.drop d).contains p.2) = (F.take d).zip (P.take d) := by
    rw [List.filter_eq_self]
    intro p hp
    obtain ⟨a, b⟩ := p
    have := (List.of_mem_zip hp).2
    cases hc : (P.drop d).contains b with
    | false => rfl
    | true => exact absurd (List.contains_iff_mem.1 hc) (hdisj b this)
  have h2 : ((F.drop d).zip (P.drop d)).filter (fun p => !(P.drop d).contains p.2) = [] := by
    rw [List.filter_eq_nil_iff]
    intro p hp
    obtain ⟨a, b⟩ := p
    have := (List.of_mem_zip hp).2
    rw [List.contains_iff_mem.2 this]
    simp
  rw [h1, h2, List.append_nil]
  have := zip_prefix F (P.take d) (by rw [hA]; omega)
  rw [hA] at this
  exact this.symm

theorem trunc_eq (F path : List Nat) (hFnd : F.Nodup) (hnd : path.Nodup) (hlen : path.length ≤ F.length) (d : Nat)
    (hd : d ≤ path.length) :
    (if path.length != d then truncate (path.drop d) (F.zip path) (path.zip F) else some (F.zip path, path.zip F)) =
      some (F.zip (path.take d), (path.take d).zip F) := by
  by_cases h : path.length = d
  · have : (path.length != d) = false := by simp [h]
    rw [this]
    simp only [Bool.false_eq_true, if_false]
    rw [List.take_of_length_le (by omega)]
  · have : (path.length != d) = true := by simpa using h
    rw [this]
    simp only [if_true]
    have hsw : path.zip F = (F.zip path).map Prod.swap := (List.zip_swap F path).symm
    rw [hsw, truncate_spec (path.drop d) (F.zip path)
      (by rw [zip_keys F path hlen]; exact List.Nodup.sublist (List.take_sublist _ _) hFnd)
      (by rw [zip_vals F path hlen]; exact hnd)
      (List.Nodup.sublist (List.drop_sublist _ _) hnd)
      (by intro x hx; rw [zip_vals F path hlen]; exact List.mem_of_mem_drop hx)]
    rw [filter_zip_drop F path hnd hlen d hd, List.zip_swap]

theorem img_snoc_last (lq : List Step) (hnd : (lq.map (·.front)).Nodup) (P : List Nat) (n : Nat) (cur : Step)
    (hcur : lq[P.length]? = some cur) : img lq (P ++ [n]) cur.front = some n := by
  apply img_full lq hnd (P ++ [n]) P.length cur n hcur
  simp

theorem stepDown_spec (q : Graph) (e : Env) (hS : Setting q e) (d n : Nat) (path : List Nat) (cur s : Step)
    (hcur : e.lq[d]? = some cur) (hs : e.lq[d + 1]? = some s) (hd : d ≤ path.length)
    (hplen : path.length + 1 ≤ e.lq.length) (hpnd : path.Nodup) (hn : n ∉ path.take d) :
    stepDown e d n cur.front path ((e.lq.map (·.front)).zip path) (path.zip (e.lq.map (·.front))) =
      some (path.take d ++ [n], (e.lq.map (·.front)).zip (path.take d ++ [n]),
            (path.take d ++ [n]).zip (e.lq.map (·.front)), children e (d + 1) (path.take d ++ [n])) := by
  set F := e.lq.map (·.front) with hF
  set A := path.take d with hA
  have hAlen : A.length = d := by simp [hA, hd]
  have hFlen : F.length = e.lq.length := by simp [hF]
  have hFd : F[A.length]? = some cur.front := by rw [hAlen, hF]; simp [hcur]
  -- truncation
  have htr := trunc_eq F path hS.nodup hpnd (by omega) d hd
  -- recording
  have hset1 : Dict.set (F.zip A) cur.front n = F.zip (A ++ [n]) := by
    rw [dict_set_new, zip_snoc F A cur.front n hFd]
    rw [zip_keys F A (by omega), hAlen]
    intro hm
    obtain ⟨j, hj, hjc⟩ := (mem_take_iff F d cur.front).1 hm
    have hjs : e.lq[j]? = some e.lq[j] := by
      have : j < e.lq.length := by omega
      simp [this]
    have hfj : e.lq[j].front = cur.front := by
      rw [hF, List.getElem?_map, hjs] at hjc
      simpa using hjc
    have := pos_unique e.lq hS.nodup j d _ cur hjs hcur hfj
    omega
  have hset2 : Dict.set (A.zip F) n cur.front = (A ++ [n]).zip F := by
    rw [dict_set_new, zip_snoc' F A cur.front n hFd]
    rw [List.map_fst_zip (by omega)]
    exact hn
  -- the next step has a parent, whose image is known
  obtain ⟨b, hb⟩ := back_exists q e.cl e.lq hS.ok (d + 1) (by omega) s hs
  have hst := hS.ok.step (d + 1) s hs
  obtain ⟨hbe, _, _⟩ := hst.back_some b hb
  have hPlen : (A ++ [n]).length = d + 1 := by simp [hAlen]
  -- images of earlier fronts under the new path
  have himg : ∀ m, m ∈ (e.lq.take (d + 1)).map (·.front) → ∃ y, img e.lq (A ++ [n]) m = some y := by
    intro m hm
    obtain ⟨k, sk, hk, hks, hkm⟩ := mem_fronts_take e.lq (d + 1) m hm
    have : k < (A ++ [n]).length := by omega
    exact ⟨(A ++ [n])[k], by rw [← hkm]; exact img_full e.lq hS.nodup _ k sk _ hks (by simp [this])⟩
  obtain ⟨n', hn'⟩ := himg b hbe
  have hnsel : (if b != cur.front then img e.lq (A ++ [n]) b else some n) = some n' := by
    by_cases hbc : b = cur.front
    · have : (b != cur.front) = false := by simp [hbc]
      rw [this]
      simp only [Bool.false_eq_true, if_false]
      have h1 := img_snoc_last e.lq hS.nodup A n cur (by rw [hAlen]; exact hcur)
      rw [← hbc, hn'] at h1
      exact h1.symm
    · have : (b != cur.front) = true := by simpa using hbc
      rw [this]
      simp only [if_true]
      exact hn'
  have hcl : ∀ m ∈ e.cl.get s.front, m ∈ (e.lq.take (d + 1)).map (·.front) := by
    intro m hm
    exact ((hst.cls m).1 (by simp [hm])).2
  obtain ⟨want, hw⟩ : ∃ want, (e.cl.get s.front).mapM (img e.lq (A ++ [n])) = some want := by
    refine ⟨(e.cl.get s.front).map (fun m => (img e.lq (A ++ [n]) m).getD 0), ?_⟩
    apply mapM_option_of_forall
    intro m hm
    obtain ⟨y, hy⟩ := himg m (hcl m hm)
    simp [hy]
  have hdl : d + 1 < e.lq.length := by
    by_contra hc
    rw [List.getElem?_eq_none (by omega)] at hs
    simp at hs
  have hcands := candidates_eq e s b n' (A ++ [n]) want (by rw [hPlen, List.length_map]; omega) hw (e.t.nbrs n')
  have hchildren := children_eq e (d + 1) (A ++ [n]) s b n' want hs hb hn' hw
  unfold stepDown
  rw [htr]
  simp only [← hA, hset1, hset2, hs, hb, hnsel, hchildren]
  rw [← hF] at hcands
  rw [hcands]


/-! ### the loop -/

theorem runLoop_nil (e : Env) (size fuel : Nat) (path : List Nat) (m r : Dict) (acc : List Dict) :
    runLoop e size (fuel + 1) [] path m r acc = some acc.reverse := by
  simp [runLoop]

theorem runLoop_yield (e : Env) (size fuel n d : Nat) (stack : List (Nat × Nat)) (path : List Nat) (m r : Dict)
    (acc : List Dict) (cur : Step) (hcur : e.lq[d]? = some cur) (hd : d = size) :
    runLoop e size (fuel + 1) ((n, d) :: stack) path m r acc =
      runLoop e size fuel stack path m r (m.set cur.front n :: acc) := by
  subst hd
  rw [runLoop]
  simp [hcur]

theorem runLoop_down (e : Env) (size fuel n d : Nat) (stack : List (Nat × Nat)) (path : List Nat) (m r : Dict)
    (acc : List Dict) (cur : Step) (hcur : e.lq[d]? = some cur) (hd : d ≠ size) (p' : List Nat) (m' r' : Dict)
    (cands : List Nat) (hstep : stepDown e d n cur.front path m r = some (p', m', r', cands)) :
    runLoop e size (fuel + 1) ((n, d) :: stack) path m r acc =
      runLoop e size fuel (cands.reverse.map (·, d + 1) ++ stack) p' m' r' acc := by
  rw [runLoop]
  have : (d == size) = false := by simpa using hd
  simp [hcur, this, hstep]

def toDict (e : Env) (p : List Nat) : Dict := (e.lq.map (·.front)).zip p

/-- what the remaining stack will yield, top first -/
def denote (e : Env) (size : Nat) (path : List Nat) (stack : List (Nat × Nat)) : List Dict :=
  stack.flatMap fun nd => (extend e (size - nd.2) (path.take nd.2 ++ [nd.1])).map (toDict e)

/-- termination potential: an entry of depth `d` weighs `B^(size+1-d)` -/
def pot (B size : Nat) (stack : List (Nat × Nat)) : Nat := (stack.map fun nd => B ^ (size + 1 - nd.2)).sum

structure MInv (size : Nat) (stack : List (Nat × Nat)) (path : List Nat) : Prop where
  path_nodup : path.Nodup
  path_len : path.length ≤ size
  sorted : stack.Pairwise (fun a b => b.2 ≤ a.2)
  entries : ∀ nd ∈ stack, nd.2 ≤ path.length ∧ nd.2 ≤ size ∧ nd.1 ∉ path.take nd.2

theorem set_zip_snoc (e : Env) (hnd : (e.lq.map (·.front)).Nodup) (A : List Nat) (n : Nat) (cur : Step)
    (hcur : e.lq[A.length]? = some cur) :
    Dict.set ((e.lq.map (·.front)).zip A) cur.front n = (e.lq.map (·.front)).zip (A ++ [n]) := by
  set F := e.lq.map (·.front) with hF
  have hlt : A.length < e.lq.length := by
    by_contra hc
    rw [List.getElem?_eq_none (by omega)] at hcur
    simp at hcur
  have hFd : F[A.length]? = some cur.front := by rw [hF]; simp [hcur]
  rw [dict_set_new, zip_snoc F A cur.front n hFd]
  rw [zip_keys F A (by rw [hF, List.length_map]; omega)]
  intro hm
  obtain ⟨j, hj, hjc⟩ := (mem_take_iff F A.length cur.front).1 hm
  have hjs : e.lq[j]? = some e.lq[j] := by
    have : j < e.lq.length := by omega
    simp [this]
  have hfj : e.lq[j].front = cur.front := by
    rw [hF, List.getElem?_map, hjs] at hjc
    simpa using hjc
  have := pos_unique e.lq hnd j A.length _ cur hjs hcur hfj
  omega

theorem children_length_le (e : Env) (htn : ∀ x, (e.t.nbrs x).Nodup) (htc : ∀ x y, y ∈ e.t.nbrs x → y ∈ e.t.atoms)
    (d : Nat) (path : List Nat) : (children e d path).length ≤ e.t.atoms.length := by
  have key : ∀ n (p : Nat → Bool), ((e.t.nbrs n).filter p).length ≤ e.t.atoms.length := by
    intro n p
    refine Nat.le_trans (List.length_filter_le _ _) ?_
    exact List.Nodup.length_le_of_subset (htn n) (fun y hy => htc n y hy)
  unfold children
  split
  · simp
  · split
    · simp
    · split
      · simp
      · exact key _ _

theorem pow_step (B k X : Nat) (hk : k + 1 ≤ B) (hX : 1 ≤ X) : k * X + 1 ≤ B * X := by
  have h1 : (k + 1) * X ≤ B * X := Nat.mul_le_mul_right X hk
  have h2 : (k + 1) * X = k * X + X := by rw [Nat.add_mul, Nat.one_mul]
  omega

theorem run_spec (q : Graph) (e : Env) (hS : Setting q e) (htn : ∀ x, (e.t.nbrs x).Nodup) (size : Nat)
    (hsize : size + 1 = e.lq.length) : ∀ (fuel : Nat) (stack : List (Nat × Nat)) (path : List Nat) (acc : List Dict),
    MInv size stack path → pot (e.oAtoms.length + 1) size stack + 1 ≤ fuel →
    runLoop e size fuel stack path ((e.lq.map (·.front)).zip path) (path.zip (e.lq.map (·.front))) acc =
      some (acc.reverse ++ denote e size path stack) := by
  intro fuel
  induction fuel with
  | zero => intro stack path acc _ h; omega
  | succ fuel ih =>
    intro stack path acc inv hfuel
    match stack, inv, hfuel with
    | [], _, _ => rw [runLoop_nil]; simp [denote]
    | (n, d) :: stack, inv, hfuel =>
      obtain ⟨hd1, hd2, hd3⟩ := inv.entries (n, d) (by simp)
      simp only at hd1 hd2 hd3
      have hdl : d < e.lq.length := by omega
      have hcur : e.lq[d]? = some e.lq[d] := by simp [hdl]
      have hB : 1 ≤ e.oAtoms.length + 1 := by omega
      have hsorted := List.pairwise_cons.1 inv.sorted
      have inv_tail : ∀ path', (∀ nd ∈ stack, path'.take nd.2 = path.take nd.2) → path'.Nodup →
          path'.length ≤ size → d ≤ path'.length → MInv size stack path' := by
        intro path' hsame hnd' hlen' hdp
        refine ⟨hnd', hlen', hsorted.2, ?_⟩
        intro nd hnd
        obtain ⟨h1, h2, h3⟩ := inv.entries nd (List.mem_cons_of_mem _ hnd)
        have := hsorted.1 nd hnd
        simp only at this
        exact ⟨by omega, h2, by rw [hsame nd hnd]; exact h3⟩
      by_cases hds : d = size
      · -- a complete mapping is yielded
        have hplen : path.length = size := by have := inv.path_len; omega
        rw [runLoop_yield e size fuel n d stack path _ _ acc e.lq[d] hcur hds]
        have hcur' : e.lq[path.length]? = some e.lq[d] := by rw [hplen, ← hds]; exact hcur
        rw [set_zip_snoc e hS.nodup path n e.lq[d] hcur']
        have hpot : pot (e.oAtoms.length + 1) size stack + 1 ≤ fuel := by
          unfold pot at hfuel ⊢
          simp only [List.map_cons, List.sum_cons] at hfuel
          have : 1 ≤ (e.oAtoms.length + 1) ^ (size + 1 - d) := Nat.one_le_pow _ _ hB
          omega
        rw [ih stack path _ (inv_tail path (fun _ _ => rfl) inv.path_nodup inv.path_len hd1) hpot]
        congr 1
        simp only [denote, List.flatMap_cons, List.reverse_cons, List.append_assoc]
        congr 1
        have : path.take d = path := List.take_of_length_le (by omega)
        rw [this, hds]
        simp [extend, toDict]
      · -- go one level down
        have hdlt : d < size := by omega
        have hs : e.lq[d + 1]? = some e.lq[d + 1] := by
          have : d + 1 < e.lq.length := by omega
          simp [this]
        have hstep := stepDown_spec q e hS d n path e.lq[d] e.lq[d + 1] hcur hs hd1
          (by have := inv.path_len; omega) inv.path_nodup hd3
        rw [runLoop_down e size fuel n d stack path _ _ acc e.lq[d] hcur hds _ _ _ _ hstep]
        set P' := path.take d ++ [n] with hP'
        have hP'len : P'.length = d + 1 := by simp [hP', hd1]
        have hP'nd : P'.Nodup := by
          rw [hP', List.nodup_append]
          refine ⟨List.Nodup.sublist (List.take_sublist _ _) inv.path_nodup, by simp, ?_⟩
          intro a ha b hb hab
          simp at hb
          subst hb
          exact hd3 (hab ▸ ha)
        have hsame : ∀ nd ∈ stack, P'.take nd.2 = path.take nd.2 := by
          intro nd hnd
          have := hsorted.1 nd hnd
          simp only at this
          rw [hP', List.take_append_of_le_length (by simp; omega), List.take_take]
          congr 1
          omega
        set ch := children e (d + 1) P' with hch
        have hchlen : ch.length ≤ e.oAtoms.length := by
          rw [hS.oatoms]; exact children_length_le e htn hS.tclosed _ _
        -- invariant for the new state
        have inv' : MInv size (ch.reverse.map (·, d + 1) ++ stack) P' := by
          have base := inv_tail P' hsame hP'nd (by omega) (by omega)
          refine ⟨hP'nd, by omega, ?_, ?_⟩
          · rw [List.pairwise_append]
            refine ⟨?_, base.sorted, ?_⟩
            · rw [List.pairwise_map]
              exact List.pairwise_of_forall_sublist (fun _ => Nat.le_refl _)
            · intro a ha b hb
              obtain ⟨c, _, rfl⟩ := List.mem_map.1 ha
              have := hsorted.1 b hb
              simp only at this ⊢
              omega
          · intro nd hnd
            rcases List.mem_append.1 hnd with h | h
            · obtain ⟨c, hc, rfl⟩ := List.mem_map.1 h
              simp only
              refine ⟨by omega, by omega, ?_⟩
              rw [List.take_of_length_le (by omega)]
              have hc' : c ∈ children e (d + 1) P' := by simpa [hch] using hc
              obtain ⟨_, _, _, _, _, _, _, _, _, hnot, _⟩ := (mem_children e (d + 1) P' c).1 hc'
              exact hnot
            · exact base.entries nd h
        have hpot : pot (e.oAtoms.length + 1) size (ch.reverse.map (·, d + 1) ++ stack) + 1 ≤ fuel := by
          unfold pot at hfuel ⊢
          simp only [List.map_cons, List.sum_cons, List.map_append, List.sum_append, List.map_map] at hfuel ⊢
          have hconst : ((ch.reverse.map ((fun nd : Nat × Nat => (e.oAtoms.length + 1) ^ (size + 1 - nd.2)) ∘ fun x => (x, d + 1)))).sum
              = ch.length * (e.oAtoms.length + 1) ^ (size - d) := by
            have : ∀ (l : List Nat), (l.map ((fun nd : Nat × Nat => (e.oAtoms.length + 1) ^ (size + 1 - nd.2)) ∘ fun x => (x, d + 1))).sum
                = l.length * (e.oAtoms.length + 1) ^ (size - d) := by
              intro l
              induction l with
              | nil => simp
              | cons a l ihl =>
                simp only [List.map_cons, List.sum_cons, ihl, List.length_cons, Function.comp]
                have : size + 1 - (d + 1) = size - d := by omega
                rw [this, Nat.add_mul, Nat.one_mul]
                omega
            rw [this, List.length_reverse]
          rw [hconst]
          have hX : 1 ≤ (e.oAtoms.length + 1) ^ (size - d) := Nat.one_le_pow _ _ hB
          have hpow : (e.oAtoms.length + 1) ^ (size + 1 - d) = (e.oAtoms.length + 1) * (e.oAtoms.length + 1) ^ (size - d) := by
            have : size + 1 - d = (size - d) + 1 := by omega
            rw [this, Nat.pow_succ, Nat.mul_comm]
          have := pow_step (e.oAtoms.length + 1) ch.length _ (by omega) hX
          rw [hpow] at hfuel
          omega
        rw [ih _ P' acc inv' hpot]
        -- the denotations agree
        have hden : denote e size P' (ch.reverse.map (·, d + 1) ++ stack) = denote e size path ((n, d) :: stack) := by
          unfold denote
          rw [List.flatMap_append, List.flatMap_cons]
          congr 1
          · rw [List.flatMap_map]
            have hk : size - d = (size - (d + 1)) + 1 := by omega
            rw [hk, extend, ← hP', hP'len, List.map_flatMap, ← hch]
            apply List.flatMap_congr
            intro c _
            simp only [Function.comp]
            rw [List.take_of_length_le (by omega)]
          · apply List.flatMap_congr
            intro nd hnd
            rw [hsame nd hnd]
        rw [hden]


theorem pot_const (B size : Nat) (l : List Nat) : pot B size (l.map (·, 0)) = l.length * B ^ (size + 1) := by
  unfold pot
  induction l with
  | nil => simp
  | cons a l ih =>
    simp only [List.map_cons, List.sum_cons, List.length_cons] at ih ⊢
    rw [ih, Nat.add_mul, Nat.one_mul]
    simp
    omega

/-- **the stack machine refines the recursive enumerator** -/
theorem getMapping_eq_rec (q : Graph) (e : Env) (hS : Setting q e) (htn : ∀ x, (e.t.nbrs x).Nodup) :
    getMapping e = some (recMapping e) := by
  have hne := hS.ok.ne
  unfold getMapping
  cases hlq : e.lq with
  | nil => exact absurd hlq hne
  | cons a l =>
    simp only
    rw [← hlq]
    have hsize : (e.lq.length - 1) + 1 = e.lq.length := by rw [hlq]; simp
    have inv0 : MInv (e.lq.length - 1) ((roots e).reverse.map (·, 0)) [] := by
      refine ⟨List.nodup_nil, by simp, ?_, ?_⟩
      · rw [List.pairwise_map]
        exact List.pairwise_of_forall_sublist (fun _ => Nat.le_refl _)
      · intro nd hnd
        obtain ⟨r, _, rfl⟩ := List.mem_map.1 hnd
        simp
    have hpot : pot (e.oAtoms.length + 1) (e.lq.length - 1) ((roots e).reverse.map (·, 0)) + 1 ≤ machineFuel e := by
      rw [pot_const, List.length_reverse, hsize]
      unfold machineFuel
      have h1 : (roots e).length ≤ e.oAtoms.length := by
        unfold roots
        split
        · simp
        · exact List.length_filter_le _ _
      have h2 : (e.oAtoms.length + 1) ^ e.lq.length ≤ (e.oAtoms.length + 1) ^ (e.lq.length + 1) :=
        Nat.pow_le_pow_right (by omega) (by omega)
      have := Nat.mul_le_mul h1 h2
      omega
    have := run_spec q e hS htn (e.lq.length - 1) hsize (machineFuel e) _ [] [] inv0 hpot
    simp only [List.zip_nil_right, List.zip_nil_left, List.reverse_nil, List.nil_append] at this
    rw [this]
    congr 1
    unfold denote recMapping
    rw [List.flatMap_map, List.map_flatMap]
    apply List.flatMap_congr
    intro r _
    simp [Function.comp, toDict]

end ChythonModel.Proofs.C07
