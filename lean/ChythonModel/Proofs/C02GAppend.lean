import ChythonModel.Proofs.C02GFacts
import Mathlib.Data.List.Perm.Basic
import Mathlib.Data.List.Nodup
/-!
# C02 — combining the traversal records of separate rounds, and counting bonds

`GFacts.append` glues the records of two traversals over disjoint atom sets with disjoint cycle ids; `GFacts.nil` is
the empty traversal.  `GFacts.ids_count`: every cycle id occurs in exactly two records.  `tree_undirected_nodup`,
`tree_closure_disjoint`, `mem_bond_iff`: tree bonds and closure records are exactly the bonds, each once.
-/
namespace ChythonModel.Proofs.C02
open ChythonModel.Model ChythonModel.Model.SmilesWriter ChythonModel.Model.C02RT

theorem GFacts.nil {m : Mol} : GFacts m [] [] [] where
  vNodup := List.nodup_nil
  tSnd := List.nodup_nil
  tMem := by intro p c h; simp at h
  tAsym := by intro a b h; simp at h
  cNodup := List.nodup_nil
  cMem := by intro a b k h; simp at h
  cId := by intro a b a' b' k h; simp at h
  cPair := by intro a b k k' h; simp at h
  cover := by intro a h; simp at h

theorem GFacts.append {m : Mol} {V1 V2 : List Nat} {T1 T2 : List (Nat × Nat)} {C1 C2 : List (Nat × Nat × Nat)}
    (h1 : GFacts m V1 T1 C1) (h2 : GFacts m V2 T2 C2)
    (hV : ∀ a, a ∈ V1 → a ∉ V2)
    (hK : ∀ a b k a' b', (a, b, k) ∈ C1 → (a', b', k) ∉ C2) :
    GFacts m (V1 ++ V2) (T1 ++ T2) (C1 ++ C2) where
  vNodup := by
    refine List.Nodup.append h1.vNodup h2.vNodup ?_
    intro a ha hb
    exact hV a ha hb
  tSnd := by
    rw [List.map_append]
    refine List.Nodup.append h1.tSnd h2.tSnd ?_
    intro c hc1 hc2
    obtain ⟨⟨p1, c1⟩, hm1, rfl⟩ := List.mem_map.1 hc1
    obtain ⟨⟨p2, c2⟩, hm2, hc⟩ := List.mem_map.1 hc2
    simp only at hc
    subst hc
    exact hV _ (h1.tMem _ _ hm1).2.1 (h2.tMem _ _ hm2).2.1
  tMem := by
    intro p c h
    rcases List.mem_append.1 h with h | h
    · obtain ⟨hp, hc, hn⟩ := h1.tMem p c h
      exact ⟨List.mem_append_left _ hp, List.mem_append_left _ hc, hn⟩
    · obtain ⟨hp, hc, hn⟩ := h2.tMem p c h
      exact ⟨List.mem_append_right _ hp, List.mem_append_right _ hc, hn⟩
  tAsym := by
    intro a b h h'
    rcases List.mem_append.1 h with h | h <;> rcases List.mem_append.1 h' with h' | h'
    · exact h1.tAsym a b h h'
    · exact hV a (h1.tMem _ _ h).1 (h2.tMem _ _ h').2.1
    · exact hV a (h1.tMem _ _ h').2.1 (h2.tMem _ _ h).1
    · exact h2.tAsym a b h h'
  cNodup := by
    refine List.Nodup.append h1.cNodup h2.cNodup ?_
    rintro ⟨a, b, k⟩ ha hb
    exact hK a b k a b ha hb
  cMem := by
    intro a b k h
    rcases List.mem_append.1 h with h | h
    · obtain ⟨hs, hne, ha, hb, hn, ht⟩ := h1.cMem a b k h
      refine ⟨List.mem_append_left _ hs, hne, List.mem_append_left _ ha, List.mem_append_left _ hb, hn, ?_⟩
      intro hT
      rcases List.mem_append.1 hT with hT | hT
      · exact ht hT
      · exact hV a ha (h2.tMem _ _ hT).1
    · obtain ⟨hs, hne, ha, hb, hn, ht⟩ := h2.cMem a b k h
      refine ⟨List.mem_append_right _ hs, hne, List.mem_append_right _ ha, List.mem_append_right _ hb, hn, ?_⟩
      intro hT
      rcases List.mem_append.1 hT with hT | hT
      · exact hV a (h1.tMem _ _ hT).1 ha
      · exact ht hT
  cId := by
    intro a b a' b' k h h'
    rcases List.mem_append.1 h with h | h <;> rcases List.mem_append.1 h' with h' | h'
    · exact h1.cId a b a' b' k h h'
    · exact absurd h' (hK a b k a' b' h)
    · exact absurd h (hK a' b' k a b h')
    · exact h2.cId a b a' b' k h h'
  cPair := by
    intro a b k k' h h'
    rcases List.mem_append.1 h with h | h <;> rcases List.mem_append.1 h' with h' | h'
    · exact h1.cPair a b k k' h h'
    · exact absurd (h2.cMem _ _ _ h').2.2.1 (hV a (h1.cMem _ _ _ h).2.2.1)
    · exact absurd (h2.cMem _ _ _ h).2.2.1 (hV a (h1.cMem _ _ _ h').2.2.1)
    · exact h2.cPair a b k k' h h'
  cover := by
    intro a ha b hb
    rcases List.mem_append.1 ha with ha | ha
    · rcases h1.cover a ha b hb with h | h | ⟨k, h⟩
      · exact Or.inl (List.mem_append_left _ h)
      · exact Or.inr (Or.inl (List.mem_append_left _ h))
      · exact Or.inr (Or.inr ⟨k, List.mem_append_left _ h⟩)
    · rcases h2.cover a ha b hb with h | h | ⟨k, h⟩
      · exact Or.inl (List.mem_append_right _ h)
      · exact Or.inr (Or.inl (List.mem_append_right _ h))
      · exact Or.inr (Or.inr ⟨k, List.mem_append_right _ h⟩)

theorem GFacts.ids_count {m : Mol} {V : List Nat} {T : List (Nat × Nat)} {C : List (Nat × Nat × Nat)}
    (h : GFacts m V T C) :
    ∀ k, (C.map (·.2.2)).count k = 0 ∨ (C.map (·.2.2)).count k = 2 := by
  intro k
  by_cases hk : k ∈ C.map (·.2.2)
  · right
    obtain ⟨⟨a, b, k'⟩, hm, rfl⟩ := List.mem_map.1 hk
    have hs := h.cMem a b k' hm
    have hnd : (C.filter fun t => t.2.2 == k').Nodup := h.cNodup.filter _
    have h2 : [(a, b, k'), (b, a, k')].Nodup := by
      simp only [List.nodup_cons, List.mem_singleton, Prod.mk.injEq, List.not_mem_nil, not_false_eq_true,
        List.nodup_nil, and_true]
      intro hh; exact hs.2.1 hh.1
    have hp : (C.filter fun t => t.2.2 == k').Perm [(a, b, k'), (b, a, k')] := by
      rw [List.perm_ext_iff_of_nodup hnd h2]
      rintro ⟨a', b', k''⟩
      simp only [List.mem_filter, beq_iff_eq, List.mem_cons, Prod.mk.injEq, List.not_mem_nil, or_false]
      constructor
      · rintro ⟨hm', rfl⟩
        rcases h.cId a b a' b' k'' hm hm' with ⟨e1, e2⟩ | ⟨e1, e2⟩
        · left; exact ⟨e1, e2, rfl⟩
        · right; exact ⟨e1, e2, rfl⟩
      · rintro (⟨rfl, rfl, rfl⟩ | ⟨rfl, rfl, rfl⟩)
        · exact ⟨hm, rfl⟩
        · exact ⟨hs.1, rfl⟩
    have hc : (C.map (·.2.2)).count k' = (C.filter fun t => t.2.2 == k').length := by
      rw [List.count_eq_countP, List.countP_map, List.countP_eq_length_filter]
      rfl
    rw [hc, hp.length_eq]; rfl
  · left; exact List.count_eq_zero.2 hk

/-- `undirected` identifies exactly the two orientations of a pair. -/
theorem undirected_eq_iff (a b c d : Nat) :
    undirected a b = undirected c d ↔ (a = c ∧ b = d) ∨ (a = d ∧ b = c) := by
  unfold undirected
  split <;> split <;> simp only [Prod.mk.injEq] <;> omega

theorem GFacts.tNodup {m : Mol} {V : List Nat} {T : List (Nat × Nat)} {C : List (Nat × Nat × Nat)}
    (h : GFacts m V T C) : T.Nodup := h.tSnd.of_map _

theorem GFacts.tree_undirected_nodup {m : Mol} {V : List Nat} {T : List (Nat × Nat)} {C : List (Nat × Nat × Nat)}
    (h : GFacts m V T C) : (T.map fun p => undirected p.1 p.2).Nodup := by
  refine h.tNodup.map_on ?_
  rintro ⟨a, b⟩ hx ⟨c, d⟩ hy he
  simp only at he
  rcases (undirected_eq_iff a b c d).1 he with ⟨rfl, rfl⟩ | ⟨rfl, rfl⟩
  · rfl
  · exact absurd hy (h.tAsym _ _ hx)

theorem GFacts.tree_closure_disjoint {m : Mol} {V : List Nat} {T : List (Nat × Nat)} {C : List (Nat × Nat × Nat)}
    (h : GFacts m V T C) :
    ∀ p ∈ T, ∀ t ∈ C, undirected p.1 p.2 ≠ undirected t.1 t.2.1 := by
  rintro ⟨a, b⟩ hp ⟨c, d, k⟩ ht he
  simp only at he
  rcases (undirected_eq_iff a b c d).1 he with ⟨rfl, rfl⟩ | ⟨rfl, rfl⟩
  · exact (h.cMem _ _ _ ht).2.2.2.2.2 hp
  · exact (h.cMem _ _ _ (h.cMem _ _ _ ht).1).2.2.2.2.2 hp

theorem GFacts.mem_bond_iff {m : Mol} {V : List Nat} {T : List (Nat × Nat)} {C : List (Nat × Nat × Nat)}
    (h : GFacts m V T C) (hsym : ∀ a b, b ∈ nk m a → a ∈ nk m b) :
    ∀ a b, a ∈ V → (b ∈ nk m a ↔ ((a, b) ∈ T ∨ (b, a) ∈ T ∨ ∃ k, (a, b, k) ∈ C)) := by
  intro a b ha
  constructor
  · exact h.cover a ha b
  · rintro (ht | ht | ⟨k, hc⟩)
    · exact (h.tMem _ _ ht).2.2
    · exact hsym _ _ (h.tMem _ _ ht).2.2
    · exact (h.cMem _ _ _ hc).2.2.2.2.1

end ChythonModel.Proofs.C02
