import ChythonModel.Proofs.C15Union
/-!
Equivariance of `compose` under a renumbering that is injective **on the atom numbers of the two sides** only
(`compose_equivariant` asks for a globally injective map): every such map agrees, on everything `compose` looks at, with a
globally injective one.
-/
namespace ChythonModel.Proofs.C15
open ChythonModel.Model ChythonModel.Model.C15

theorem dictAdmissible (r p : Mol) (wr : WFp r) (wp : WFp p) :
    Admissible r p (cleavedIds r p) (formedIds r p) (commonIds r p) := by
  have w1 := wr.idsNodup
  have w2 := wp.idsNodup
  refine ⟨w1.filter _, w2.filter _, w1.filter _, ?_, ?_, ?_⟩ <;> intro n <;>
    simp [cleavedIds, formedIds, commonIds, hasAtom_iff, hasAtom_false_iff]

/-- every key that occurs anywhere in a composed graph is an atom number of one of the sides -/
theorem composeWith_closed (r p : Mol) (wr : WFp r) (wp : WFp p) (ls fs cs : List Nat) (ad : Admissible r p ls fs cs)
    (h : CGR) (hc : composeWith ls fs cs r p = .ok h) :
    (∀ na ∈ h.atoms, na.1 ∈ r.ids ∨ na.1 ∈ p.ids) ∧
    ∀ nl ∈ h.adj, (nl.1 ∈ r.ids ∨ nl.1 ∈ p.ids) ∧ ∀ kb ∈ nl.2, kb.1 ∈ r.ids ∨ kb.1 ∈ p.ids := by
  obtain ⟨k1, k2⟩ := composeWith_keys r p ls fs cs h hc
  refine ⟨?_, ?_⟩
  · intro na hna
    apply (mem_keys r p ls fs cs ad na.1).mp
    rw [← k1]; exact List.mem_map.mpr ⟨na, hna, rfl⟩
  · intro nl hnl
    refine ⟨?_, ?_⟩
    · apply (mem_keys r p ls fs cs ad nl.1).mp
      rw [← k2]; exact List.mem_map.mpr ⟨nl, hnl, rfl⟩
    · obtain ⟨la, fa, ca, b3, _, _, _, hb3, e⟩ := composeWith_ok ls fs cs r p h hc
      subst e
      intro kb hkb
      obtain ⟨m, d⟩ := kb
      simp only [adjOf, List.mem_map] at hnl
      obtain ⟨k, _, rfl⟩ := hnl
      have h1 := (adjOf_row_mem _ k m d).mp hkb
      have h2 := (has_symm _ k m d).mp h1
      have h3 := (has_all r p wr wp ls fs cs ad b3 hb3 m k d).mp h2
      exact specBond_some_keys r p wr wp m k d h3

theorem renameCGR_congr (f g : Nat → Nat) (h : CGR)
    (h1 : ∀ na ∈ h.atoms, f na.1 = g na.1)
    (h2 : ∀ nl ∈ h.adj, f nl.1 = g nl.1 ∧ ∀ kb ∈ nl.2, f kb.1 = g kb.1) : renameCGR f h = renameCGR g h := by
  unfold renameCGR
  simp only [CGR.mk.injEq]
  constructor
  · apply List.map_congr_left
    intro na hna
    rw [h1 na hna]
  · apply List.map_congr_left
    intro nl hnl
    obtain ⟨e1, e2⟩ := h2 nl hnl
    rw [e1]
    simp only [Prod.mk.injEq, true_and]
    apply List.map_congr_left
    intro kb hkb
    rw [e2 kb hkb]

def maxL (l : List Nat) : Nat := l.foldl max 0

theorem le_maxL (l : List Nat) (x : Nat) (h : x ∈ l) : x ≤ maxL l := by
  unfold maxL
  have : ∀ (l : List Nat) (a : Nat), a ≤ l.foldl max a ∧ ∀ x ∈ l, x ≤ l.foldl max a := by
    intro l
    induction l with
    | nil => intro a; exact ⟨Nat.le_refl _, by intro x hx; cases hx⟩
    | cons y ys ih =>
      intro a
      obtain ⟨i1, i2⟩ := ih (max a y)
      refine ⟨by simp only [List.foldl_cons]; omega, ?_⟩
      intro x hx
      simp only [List.foldl_cons]
      rcases List.mem_cons.mp hx with rfl | hx
      · omega
      · exact i2 x hx
  exact (this l 0).2 x h

/-- a map injective on `S` agrees on `S` with a globally injective map -/
def extendInj (g : Nat → Nat) (S : List Nat) (n : Nat) : Nat :=
  if S.contains n then g n else maxL (S.map g) + 1 + n

theorem extendInj_injective (g : Nat → Nat) (S : List Nat) (hinj : ∀ x ∈ S, ∀ y ∈ S, g x = g y → x = y) :
    Function.Injective (extendInj g S) := by
  intro x y e
  unfold extendInj at e
  by_cases hx : S.contains x = true <;> by_cases hy : S.contains y = true
  · simp only [hx, hy, if_true] at e
    exact hinj x (by simpa using hx) y (by simpa using hy) e
  · simp only [hx, hy, if_true, Bool.false_eq_true, if_false] at e
    have := le_maxL (S.map g) (g x) (List.mem_map.mpr ⟨x, by simpa using hx, rfl⟩)
    omega
  · simp only [hx, hy, if_true, Bool.false_eq_true, if_false] at e
    have := le_maxL (S.map g) (g y) (List.mem_map.mpr ⟨y, by simpa using hy, rfl⟩)
    omega
  · simp only [hx, hy, Bool.false_eq_true, if_false] at e
    omega

theorem extendInj_on (g : Nat → Nat) (S : List Nat) (n : Nat) (h : n ∈ S) : extendInj g S n = g n := by
  unfold extendInj
  have : S.contains n = true := by simpa using h
  simp only [this, if_true]

/-- **`compose` is equivariant under every renumbering that is injective on the atoms of the two sides** -/
theorem compose_rename_on (g : Nat → Nat) (r p : Mol) (wr : WFp r) (wp : WFp p)
    (hinj : ∀ x ∈ r.ids ++ p.ids, ∀ y ∈ r.ids ++ p.ids, g x = g y → x = y) :
    compose (rename g r) (rename g p) = mapExcept (renameCGR g) (compose r p) := by
  have hf := extendInj_injective g (r.ids ++ p.ids) hinj
  have e1 : rename g r = rename (extendInj g (r.ids ++ p.ids)) r :=
    rename_congr _ _ r (nbrClosed_of_wfp r wr) (fun n hn => (extendInj_on g _ n (by simp [hn])).symm)
  have e2 : rename g p = rename (extendInj g (r.ids ++ p.ids)) p :=
    rename_congr _ _ p (nbrClosed_of_wfp p wp) (fun n hn => (extendInj_on g _ n (by simp [hn])).symm)
  rw [e1, e2, compose_rename _ hf r p]
  cases hc : compose r p with
  | error e => rfl
  | ok h =>
    simp only [mapExcept, Except.ok.injEq]
    obtain ⟨c1, c2⟩ := composeWith_closed r p wr wp _ _ _ (dictAdmissible r p wr wp) h hc
    apply renameCGR_congr
    · intro na hna
      exact extendInj_on g _ _ (by have := c1 na hna; simpa using this)
    · intro nl hnl
      obtain ⟨d1, d2⟩ := c2 nl hnl
      refine ⟨extendInj_on g _ _ (by simpa using d1), ?_⟩
      intro kb hkb
      exact extendInj_on g _ _ (by have := d2 kb hkb; simpa using this)

end ChythonModel.Proofs.C15
