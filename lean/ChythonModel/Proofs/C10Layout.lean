import ChythonModel.Spec.PackLayout
import ChythonModel.Proofs.C10WF
/-!
# C10: bit-field packing machinery and per-block conformance with the documented layout
-/
namespace ChythonModel.Proofs.C10
open ChythonModel.Model.Pack ChythonModel.Spec.PackLayout ChythonModel.Gen

def FieldsOK (fs : List Field) : Prop := ∀ f ∈ fs, f.2 < 2 ^ f.1

theorem width_append (a b : List Field) : width (a ++ b) = width a + width b := by simp [width]

theorem foldl_pack (fs : List Field) : ∀ acc, fs.foldl (fun acc f => acc * 2 ^ f.1 + f.2) acc =
    acc * 2 ^ width fs + packFields fs := by
  induction fs with
  | nil => intro acc; simp [width, packFields]
  | cons f fs ih =>
    intro acc
    simp only [List.foldl_cons, packFields]
    rw [ih, ih (0 * 2 ^ f.1 + f.2)]
    have : width (f :: fs) = f.1 + width fs := by simp [width]
    rw [this, Nat.pow_add]
    simp only [Nat.zero_mul, Nat.zero_add, Nat.add_mul, Nat.mul_assoc, Nat.add_assoc]

theorem packFields_append (a b : List Field) : packFields (a ++ b) = packFields a * 2 ^ width b + packFields b := by
  simp only [packFields, List.foldl_append]
  rw [foldl_pack b]; rfl

theorem packFields_cons (f : Field) (fs : List Field) :
    packFields (f :: fs) = f.2 * 2 ^ width fs + packFields fs := by
  have := packFields_append [f] fs
  simpa [packFields] using this

theorem packFields_lt : ∀ (fs : List Field), FieldsOK fs → packFields fs < 2 ^ width fs
  | [], _ => by simp [packFields, width]
  | f :: fs, h => by
    have h1 : FieldsOK fs := fun x hx => h x (by simp [hx])
    have h2 : f.2 < 2 ^ f.1 := h f (by simp)
    have ih := packFields_lt fs h1
    have hw : width (f :: fs) = f.1 + width fs := by simp [width]
    rw [packFields_cons, hw, Nat.pow_add]
    calc f.2 * 2 ^ width fs + packFields fs < f.2 * 2 ^ width fs + 2 ^ width fs := by omega
      _ = (f.2 + 1) * 2 ^ width fs := by rw [Nat.add_mul, Nat.one_mul]
      _ ≤ 2 ^ f.1 * 2 ^ width fs := Nat.mul_le_mul_right _ (by omega)

theorem toBE_append (k1 : Nat) (A : Nat) : ∀ (k2 B : Nat), B < 2 ^ (8 * k2) →
    toBE (k1 + k2) (A * 2 ^ (8 * k2) + B) = toBE k1 A ++ toBE k2 B
  | 0, B, h => by
    have : B = 0 := by simpa using h
    simp [this, toBE]
  | k2 + 1, B, h => by
    have hp : 2 ^ (8 * (k2 + 1)) = 2 ^ (8 * k2) * 256 := by rw [Nat.mul_add, Nat.pow_add]
    have hB : B / 256 < 2 ^ (8 * k2) := by rw [hp] at h; exact Nat.div_lt_of_lt_mul (by rw [Nat.mul_comm]; exact h)
    have e1 : (A * 2 ^ (8 * (k2 + 1)) + B) / 256 = A * 2 ^ (8 * k2) + B / 256 := by
      rw [hp, ← Nat.mul_assoc, Nat.add_comm, Nat.add_mul_div_right _ _ (by decide : 0 < 256), Nat.add_comm]
    have e2 : (A * 2 ^ (8 * (k2 + 1)) + B) % 256 = B % 256 := by
      rw [hp, ← Nat.mul_assoc, Nat.add_comm, Nat.add_mul_mod_self_right]
    show toBE (k1 + k2 + 1) _ = _
    simp only [toBE, e1, e2]
    rw [toBE_append k1 A k2 (B / 256) hB, List.append_assoc]

/-- byte-aligned prefix: the bytes of a concatenation are the concatenation of the bytes -/
theorem fieldsBytes_append (a b : List Field) (ha : width a % 8 = 0) (hb : FieldsOK b) :
    fieldsBytes (a ++ b) = fieldsBytes a ++ fieldsBytes b := by
  simp only [fieldsBytes, width_append]
  have hpa : (8 - width a % 8) % 8 = 0 := by omega
  have hpab : (8 - (width a + width b) % 8) % 8 = (8 - width b % 8) % 8 := by omega
  rw [hpa, hpab]
  generalize hp : (8 - width b % 8) % 8 = p
  obtain ⟨ka, hka⟩ : ∃ ka, width a = 8 * ka := ⟨width a / 8, by omega⟩
  obtain ⟨kb, hkb⟩ : ∃ kb, width b + p = 8 * kb := ⟨(width b + p) / 8, by omega⟩
  have e1 : (width a + width b + p) / 8 = ka + kb := by omega
  have e2 : (width a + 0) / 8 = ka := by omega
  have e3 : (width b + p) / 8 = kb := by omega
  rw [e1, e2, e3, packFields_append, Nat.pow_zero, Nat.mul_one, Nat.add_mul, Nat.mul_assoc, ← Nat.pow_add, hkb]
  apply toBE_append
  have := packFields_lt b hb
  calc packFields b * 2 ^ p < 2 ^ width b * 2 ^ p := Nat.mul_lt_mul_of_pos_right this (Nat.two_pow_pos p)
    _ = 2 ^ (8 * kb) := by rw [← Nat.pow_add, hkb]


/-! ### block equalities -/

theorem toBE1 (n : Nat) : toBE 1 n = [n % 256] := rfl
theorem toBE2 (n : Nat) : toBE 2 n = [n / 256 % 256, n % 256] := rfl
theorem toBE3 (n : Nat) : toBE 3 n = [n / 256 / 256 % 256, n / 256 % 256, n % 256] := rfl
theorem toBE4 (n : Nat) : toBE 4 n = [n / 256 / 256 / 256 % 256, n / 256 / 256 % 256, n / 256 % 256, n % 256] := rfl


theorem num12_arith (p h : Nat) (hp : p < 4096) (hh : h < 16) :
    u8 (p >>> 4) = p / 16 ∧ u8 (p <<< 4 ||| h) = (p % 16) * 16 + h := by
  constructor
  · simp only [u8, Nat.shiftRight_eq_div_pow, Nat.reducePow]; omega
  · rw [← u8_or_left]
    simp only [u8, Nat.shiftLeft_eq, Nat.reducePow]
    have e1 : p * 16 % 256 = (p % 16) * 16 := by omega
    rw [e1, or16 _ _ hh]; omega

theorem header_layout (n cc : Nat) (hn : n < 4096) (hc : cc < 4096) :
    fieldsBytes [(8, 2), (12, n), (12, cc)] = [2, u8 (n >>> 4), u8 (n <<< 4 ||| cc >>> 8), u8 cc] := by
  obtain ⟨a1, a2, a3⟩ := pair12_arith n cc hn hc
  rw [a1, a2, a3]
  simp only [fieldsBytes, width, packFields, List.map, List.sum_cons, List.sum_nil, List.foldl]
  simp only [Nat.reduceAdd, Nat.reduceMod, Nat.reduceSub, Nat.reducePow, Nat.reduceDiv, Nat.mul_one,
    Nat.zero_mul, Nat.zero_add]
  rw [toBE4]
  congr 1
  · omega
  congr 1
  · omega
  congr 1
  · omega
  congr 1
  omega



theorem pair_layout (p q : Nat) (hp : p < 4096) (hq : q < 4096) :
    fieldsBytes [(12, p), (12, q)] = [u8 (p >>> 4), u8 (u8 (p <<< 4) ||| q >>> 8), u8 q] := by
  obtain ⟨a1, a2, a3⟩ := pair12_arith p q hp hq
  rw [u8_or_left, a1, a2, a3]
  simp only [fieldsBytes, width, packFields, List.map, List.sum_cons, List.sum_nil, List.foldl]
  simp only [Nat.reduceAdd, Nat.reduceMod, Nat.reduceSub, Nat.reducePow, Nat.reduceDiv, Nat.mul_one,
    Nat.zero_mul, Nat.zero_add]
  rw [toBE3]
  congr 1
  · omega
  congr 1
  · omega
  congr 1
  omega

theorem ct_layout (tn tm : Nat) (s : Bool) (h1 : tn < 4096) (h2 : tm < 4096) :
    fieldsBytes [(12, tn), (12, tm), (7, 0), (1, if s then 1 else 0)] =
      [u8 (tn >>> 4), u8 (tn <<< 4 ||| tm >>> 8), u8 tm, if s then 1 else 0] := by
  obtain ⟨a1, a2, a3⟩ := pair12_arith tn tm h1 h2
  rw [a1, a2, a3]
  simp only [fieldsBytes, width, packFields, List.map, List.sum_cons, List.sum_nil, List.foldl]
  simp only [Nat.reduceAdd, Nat.reduceMod, Nat.reduceSub, Nat.reducePow, Nat.reduceDiv, Nat.mul_one,
    Nat.zero_mul, Nat.zero_add, Nat.add_zero]
  rw [toBE4]
  cases s <;>
  · simp only [Bool.false_eq_true, ↓reduceIte]
    congr 1
    · omega
    congr 1
    · omega
    congr 1
    · omega
    congr 1
    omega

theorem numdeg_layout (n d : Nat) (hn : n < 4096) (hd : d < 16) :
    fieldsBytes [(12, n), (4, d)] = [u8 (n >>> 4), u8 (n <<< 4 ||| d)] := by
  obtain ⟨a1, a2⟩ := num12_arith n d hn hd
  rw [a1, a2]
  simp only [fieldsBytes, width, packFields, List.map, List.sum_cons, List.sum_nil, List.foldl]
  simp only [Nat.reduceAdd, Nat.reduceMod, Nat.reduceSub, Nat.reducePow, Nat.reduceDiv, Nat.mul_one,
    Nat.zero_mul, Nat.zero_add]
  rw [toBE2]
  congr 1
  · omega
  congr 1
  omega

theorem coord_layout (x : Nat) (hx : x < 65536) : fieldsBytes [(16, x)] = [u8 (x >>> 8), u8 x] := by
  simp only [fieldsBytes, width, packFields, List.map, List.sum_cons, List.sum_nil, List.foldl]
  simp only [Nat.reduceAdd, Nat.reduceMod, Nat.reduceSub, Nat.reducePow, Nat.reduceDiv, Nat.mul_one,
    Nat.zero_mul, Nat.zero_add]
  rw [toBE2]
  simp only [u8, Nat.shiftRight_eq_div_pow, Nat.reducePow]

/-- stereo / isotope / atomic number bytes against the documented fields (whole domain) -/
theorem stereo_iso_z_layout :
    ∀ st ∈ [none, some true, some false], ∀ deg ∈ [0, 2], ∀ iso < 32, ∀ zh < 8, ∀ zl < 16,
      fieldsBytes [(2, if deg == 2 then 0 else signField st), (2, if deg == 2 then signField st else 0), (5, iso),
          (7, zh * 16 + zl)] =
        [u8 (stereoNibble st deg ||| iso >>> 1), u8 (iso <<< 7 ||| u8 (zh * 16 + zl))] := by
  decide +kernel

/-- hydrogens / charge / radical byte against the documented fields (whole domain) -/
theorem hcr_layout :
    ∀ h ∈ [none, some 0, some 1, some 2, some 3, some 4, some 5, some 6],
    ∀ c ∈ [(-4 : Int), -3, -2, -1, 0, 1, 2, 3, 4], ∀ r ∈ [false, true],
      fieldsBytes [(3, hydrogenField h), (4, (c + 4).toNat), (1, if r then 1 else 0)] =
        [hcrByte h c r] := by
  decide +kernel

end ChythonModel.Proofs.C10
