import ChythonModel.Proofs.C05SearchNoDup
/-!
# C05 — completeness of the search on prepared components without ambiguous atoms: local part

If `g` gives every forward neighbour of the atom an order such that the atom ends up with exactly one double bond
(none if it is in `double_bonded`) and no double bond goes to an atom of `double_bonded`, then the plan is not dead and
one of its continuations pushes exactly the orders `g` prescribes.
-/
namespace ChythonModel.Proofs.C05S
open ChythonModel.Model ChythonModel.Model.C05 ChythonModel.Model.C05S

theorem growStage_complete {c : Ctx} {atom bond len : Nat} {ins0 : Option Entry} {closures fs : List Nat}
    (g : Nat → Nat) (hpyr : c.pyr = []) (hb : bond = 1 ∨ bond = 2)
    (hg : ∀ x ∈ fs, g x = 1 ∨ g x = 2) (hdbfs : ∀ x ∈ fs, c.db.contains x = true → g x = 1)
    (hsum : (if bond = 2 then 1 else 0) + fs.countP (fun x => g x == 2) = if c.db.contains atom = true then 0 else 1)
    (hlen : fs.length ≤ 2) :
    growStage c atom bond len ins0 closures fs ≠ .dead ∧
    (∀ s, growStage c atom bond len ins0 closures fs ≠ .crash s) ∧
    (∀ i0 clos brs, growStage c atom bond len ins0 closures fs = .go i0 clos brs →
      ∃ br ∈ brs, ∀ e ∈ br, e.bond = g e.atom) := by
  have hp : c.pyr.contains atom = false := by simp [hpyr]
  have hzero : fs.countP (fun x => g x == 2) = 0 → ∀ x ∈ fs, g x = 1 := by
    intro h0 x hx
    rw [List.countP_eq_zero] at h0
    have := h0 x hx
    rcases hg x hx with h | h
    · exact h
    · simp [h] at this
  unfold growStage
  simp only [hp, Bool.false_eq_true, if_false, Bool.not_false, Bool.and_true]
  split
  · rename_i h1
    refine ⟨by simp, by simp, ?_⟩
    intro i0 clos brs h
    injection h with _ _ h3
    subst h3
    refine ⟨_, List.mem_singleton.2 rfl, ?_⟩
    intro e he
    obtain ⟨x, hx, rfl⟩ := List.mem_map.1 he
    have h0 : fs.countP (fun x => g x == 2) = 0 := by
      simp only [Bool.or_eq_true, beq_iff_eq] at h1
      rcases h1 with h1 | h1
      · subst h1; simp only [if_true] at hsum; split at hsum <;> omega
      · rw [if_pos h1] at hsum; omega
    simp [mk, hzero h0 x hx]
  · rename_i h1
    simp only [Bool.or_eq_true, beq_iff_eq, not_or, Bool.not_eq_true] at h1
    obtain ⟨hb2, hnd⟩ := h1
    have hone : fs.countP (fun x => g x == 2) = 1 := by
      simp only [hb2, if_false, hnd, Bool.false_eq_true] at hsum
      omega
    match fs, hlen, hg, hdbfs, hone with
    | [], _, _, _, hone => simp at hone
    | [x], _, hg, hdbfs, hone =>
      have hgx : g x = 2 := by
        simp only [List.countP_cons, List.countP_nil] at hone
        by_cases h : g x = 2
        · exact h
        · simp [h] at hone
      have hxdb : c.db.contains x = false := by
        cases hh : c.db.contains x
        · rfl
        · have := hdbfs x (by simp) hh; omega
      simp only [hxdb, Bool.false_eq_true, if_false]
      refine ⟨by simp, by simp, ?_⟩
      intro i0 clos brs h
      injection h with _ _ h3
      subst h3
      exact ⟨_, List.mem_singleton.2 rfl, by simp [mk, hgx]⟩
    | [x1, x2], _, hg, hdbfs, hone =>
      have h12 : (g x1 = 2 ∧ g x2 = 1) ∨ (g x1 = 1 ∧ g x2 = 2) := by
        simp only [List.countP_cons, List.countP_nil] at hone
        rcases hg x1 (by simp) with a1 | a1 <;> rcases hg x2 (by simp) with a2 | a2 <;> simp [a1, a2] at hone ⊢
      simp only
      rcases h12 with ⟨a1, a2⟩ | ⟨a1, a2⟩
      · have hx1 : c.db.contains x1 = false := by
          cases hh : c.db.contains x1
          · rfl
          · have := hdbfs x1 (by simp) hh; omega
        simp only [hx1, Bool.false_eq_true, if_false]
        split
        · refine ⟨by simp, by simp, ?_⟩
          intro i0 clos brs h
          injection h with _ _ h3
          subst h3
          exact ⟨_, List.mem_singleton.2 rfl, by simp [mk, a1, a2]⟩
        · refine ⟨by simp, by simp, ?_⟩
          intro i0 clos brs h
          injection h with _ _ h3
          subst h3
          exact ⟨_, List.mem_cons_self, by simp [mk, a1, a2]⟩
      · have hx2 : c.db.contains x2 = false := by
          cases hh : c.db.contains x2
          · rfl
          · have := hdbfs x2 (by simp) hh; omega
        simp only [hx2, Bool.false_eq_true, if_false]
        split
        · refine ⟨by simp, by simp, ?_⟩
          intro i0 clos brs h
          injection h with _ _ h3
          subst h3
          exact ⟨_, List.mem_singleton.2 rfl, by simp [mk, a1, a2]⟩
        · refine ⟨by simp, by simp, ?_⟩
          intro i0 clos brs h
          injection h with _ _ h3
          subst h3
          exact ⟨_, List.mem_cons_of_mem _ List.mem_cons_self, by simp [mk, mkT, a1, a2]⟩
    | _ :: _ :: _ :: _, hlen, _, _, _ => simp at hlen

theorem loopStage_complete {c : Ctx} {atom bond : Nat} {loop : Bool} {fs : List Nat} (g : Nat → Nat)
    (hpyr : c.pyr = []) (hb : bond = 1 ∨ bond = 2)
    (hsum : (if bond = 2 then 1 else 0) + (if loop = true ∧ loopBond c = 2 then 1 else 0) +
      fs.countP (fun x => g x == 2) = if c.db.contains atom = true then 0 else 1) :
    loopStage c atom bond loop fs ≠ none := by
  have hp : c.pyr.contains atom = false := by simp [hpyr]
  unfold loopStage
  cases loop
  · simp
  · simp only [if_true]
    rcases hb with rfl | rfl
    · simp only [Nat.reduceBEq, Bool.false_eq_true, if_false]
      by_cases hd : c.db.isEmpty = true
      · simp [hd]
      · simp only [hd, Bool.not_false, if_true]
        split
        · simp
        · rename_i hc
          exfalso
          simp only [Bool.or_eq_true, Bool.not_eq_true', not_or, Bool.not_eq_true, hp] at hc
          obtain ⟨⟨h1, h2⟩, -⟩ := hc
          have hfs : fs = [] := by cases fs <;> simp_all
          have hlb : loopBond c = 1 := by simp [loopBond, hd]
          subst hfs
          simp only [hlb, Nat.reduceEqDiff, and_false, if_false, List.countP_nil, h2, Bool.false_eq_true] at hsum
          omega
    · simp only [Nat.reduceBEq, if_true]
      by_cases hd : c.db.isEmpty = true
      · exfalso
        have hlb : loopBond c = 2 := by simp [loopBond, hd]
        simp only [hlb, and_self, if_true] at hsum
        split at hsum <;> omega
      · simp [hd]

/-- **local completeness**: `g x` = the order a given Kekulé form gives the bond atom–x. If the form is valid at the
    atom (exactly one double bond among all its ring bonds — none for an atom of `double_bonded` —, closures single,
    the closing bond as the start atom needs it, no double bond towards `double_bonded`), the plan is neither dead nor
    an exception and one of its continuations pushes exactly the orders of the form. -/
theorem plan_complete {c : Ctx} {a p b len : Nat} {hashed : Nat → Bool} (g : Nat → Nat)
    {nbrs : List Nat} (hn : c.rings.lookup a = some nbrs) (hL : nbrs.length ≤ 3)
    (hP : p ∈ nbrs) (hpyr : c.pyr = []) (hb : b = 1 ∨ b = 2)
    (hg : ∀ x ∈ forStackOf c p hashed nbrs, g x = 1 ∨ g x = 2)
    (hdbfs : ∀ x ∈ forStackOf c p hashed nbrs, c.db.contains x = true → g x = 1)
    (hsum : (if b = 2 then 1 else 0) + (if hasLoop c p nbrs = true ∧ loopBond c = 2 then 1 else 0) +
      (forStackOf c p hashed nbrs).countP (fun x => g x == 2) = if c.db.contains a = true then 0 else 1) :
    plan c a p b hashed len ≠ .dead ∧ (∀ s, plan c a p b hashed len ≠ .crash s) ∧
    (∀ ins0 clos brs, plan c a p b hashed len = .go ins0 clos brs → ∃ br ∈ brs, ∀ e ∈ br, e.bond = g e.atom) := by
  have hls := loopStage_complete (c := c) (atom := a) (bond := b) (loop := hasLoop c p nbrs)
    (fs := forStackOf c p hashed nbrs) g hpyr hb hsum
  unfold plan
  rw [hn]
  simp only
  cases hl : loopStage c a b (hasLoop c p nbrs) (forStackOf c p hashed nbrs) with
  | none => exact absurd hl hls
  | some r =>
    obtain ⟨i0, bond'⟩ := r
    simp only
    obtain ⟨l1, l2, l3, l4, l5⟩ := loopStage_facts hl hb
    have htw : twos i0.toList = if hasLoop c p nbrs = true ∧ loopBond c = 2 then 1 else 0 := by
      cases hh : hasLoop c p nbrs
      · have := (l2 hh).1
        subst this
        simp [twos]
      · obtain ⟨e0, he0⟩ := l1 hh
        have := l3 e0 he0
        subst he0
        simp only [Option.toList_some, twos, List.countP_cons, List.countP_nil, this, beq_iff_eq, true_and]
        split <;> simp_all
    have hpart := partition_nbrs c p hashed nbrs
    have hcp : 0 < nbrs.countP (· == p) := List.countP_pos_iff.2 ⟨p, hP, by simp⟩
    have hsum' : (if bond' = 2 then 1 else 0) + (forStackOf c p hashed nbrs).countP (fun x => g x == 2) =
        if c.db.contains a = true then 0 else 1 := by
      rw [← htw] at hsum
      omega
    exact growStage_complete g hpyr l4 hg hdbfs hsum' (by omega)

end ChythonModel.Proofs.C05S
