import ChythonModel.Proofs.C05SearchNoDup
/-!
# C05 — completeness of the search on prepared components without ambiguous atoms: local part

If `g` gives every forward neighbour of the atom an order such that the atom ends up with exactly one double bond
(none if it is in `double_bonded`) and no double bond goes to an atom of `double_bonded`, then the plan is not dead and
one of its continuations pushes exactly the orders `g` prescribes.
-/
namespace ChythonModel.Proofs.C05S
open ChythonModel.Model ChythonModel.Model.C05 ChythonModel.Model.C05S

theorem growStage_complete {c : Ctx} {atom bond len : Nat} {ins0 : Option Entry} {closures fs : List Nat}
    (g : Nat → Nat) (hpyr : c.pyr = []) (hb : bond = 1 ∨ bond = 2)
    (hg : ∀ x ∈ fs, g x = 1 ∨ g x = 2) (hdbfs : ∀ x ∈ fs, c.db.contains x = true → g x = 1)
    (hsum : (if bond = 2 then 1 else 0) + fs.countP (fun x => g x == 2) = if c.db.contains atom = true then 0 else 1)
    (hlen : fs.length ≤ 2) :
    growStage c atom bond len ins0 closures fs ≠ .dead ∧
    (∀ s, growStage c atom bond len ins0 closures fs ≠ .crash s) ∧
    (∀ i0 clos brs, growStage c atom bond len ins0 closures fs = .go i0 clos brs →
      ∃ br ∈ brs, ∀ e ∈ br, e.bond = g e.atom) := by
  have hp : c.pyr.contains atom = false := by simp [hpyr]
  have hzero : fs.countP (fun x => g x == 2) = 0 → ∀ x ∈ fs, g x = 1 := by
    intro h0 x hx
    rw [List.countP_eq_zero] at h0
    have := h0 x hx
    rcases hg x hx with h | h
    · exact h
    · simp [h] at this
  unfold growStage
  simp only [hp, Bool.false_eq_true, if_false, Bool.not_false, Bool.and_true]
  split
  · rename_i h1
    refine ⟨by simp, by simp, ?_⟩
    intro i0 clos brs h
    injection h with _ _ h3
    subst h3
    refine ⟨_, List.mem_singleton.2 rfl, ?_⟩
    intro e he
    obtain ⟨x, hx, rfl⟩ := List.mem_map.1 he
    have h0 : fs.countP (fun x => g x == 2) = 0 := by
      simp only [Bool.or_eq_true, beq_iff_eq] at h1
      rcases h1 with h1 | h1
      · subst h1; simp only [if_true] at hsum; split at hsum <;> omega
      · rw [if_pos h1] at hsum; omega
    simp [mk, hzero h0 x hx]
  · rename_i h1
    simp only [Bool.or_eq_true, beq_iff_eq, not_or, Bool.not_eq_true] at h1
    obtain ⟨hb2, hnd⟩ := h1
    have hone : fs.countP (fun x => g x == 2) = 1 := by
      simp only [hb2, if_false, hnd, Bool.false_eq_true] at hsum
      omega
    match fs, hlen, hg, hdbfs, hone with
    | [], _, _, _, hone => simp at hone
    | [x], _, hg, hdbfs, hone =>
      have hgx : g x = 2 := by
        simp only [List.countP_cons, List.countP_nil] at hone
        by_cases h : g x = 2
        · exact h
        · simp [h] at hone
      have hxdb : c.db.contains x = false := by
        cases hh : c.db.contains x
        · rfl
        · have := hdbfs x (by simp) hh; omega
      simp only [hxdb, Bool.false_eq_true, if_false]
      refine ⟨by simp, by simp, ?_⟩
      intro i0 clos brs h
      injection h with _ _ h3
      subst h3
      exact ⟨_, List.mem_singleton.2 rfl, by simp [mk, hgx]⟩
    | [x1, x2], _, hg, hdbfs, hone =>
      have h12 : (g x1 = 2 ∧ g x2 = 1) ∨ (g x1 = 1 ∧ g x2 = 2) := by
        simp only [List.countP_cons, List.countP_nil] at hone
        rcases hg x1 (by simp) with a1 | a1 <;> rcases hg x2 (by simp) with a2 | a2 <;> simp [a1, a2] at hone ⊢
      simp only
      rcases h12 with ⟨a1, a2⟩ | ⟨a1, a2⟩
      · have hx1 : c.db.contains x1 = false := by
          cases hh : c.db.contains x1
          · rfl
          · have := hdbfs x1 (by simp) hh; omega
        simp only [hx1, Bool.false_eq_true, if_false]
        split
        · refine ⟨by simp, by simp, ?_⟩
          intro i0 clos brs h
          injection h with _ _ h3
          subst h3
          exact ⟨_, List.mem_singleton.2 rfl, by simp [mk, a1, a2]⟩
        · refine ⟨by simp, by simp, ?_⟩
          intro i0 clos brs h
          injection h with _ _ h3
          subst h3
          exact ⟨_, List.mem_cons_self, by simp [mk, a1, a2]⟩
      · have hx2 : c.db.contains x2 = false := by
          cases hh : c.db.contains x2
          · rfl
          · have := hdbfs x2 (by simp) hh; omega
        simp only [hx2, Bool.false_eq_true, if_false]
        split
        · refine ⟨by simp, by simp, ?_⟩
          intro i0 clos brs h
          injection h with _ _ h3
          subst h3
          exact ⟨_, List.mem_singleton.2 rfl, by simp [mk, a1, a2]⟩
        · refine ⟨by simp, by simp, ?_⟩
          intro i0 clos brs h
          injection h with _ _ h3
          subst h3
          exact ⟨_, List.mem_cons_of_mem _ List.mem_cons_self, by simp [mk, mkT, a1, a2]⟩
    | _ :: _ :: _ :: _, hlen, _, _, _ => simp at hlen

theorem loopStage_complete {c : Ctx} {atom bond : Nat} {loop : Bool} {fs : List Nat} (g : Nat → Nat)
    (hpyr : c.pyr = []) (hb : bond = 1 ∨ bond = 2)
    (hsum : (if bond = 2 then 1 else 0) + (if loop = true ∧ loopBond c = 2 then 1 else 0) +
      fs.countP (fun x => g x == 2) = if c.db.contains atom = true then 0 else 1) :
    loopStage c atom bond loop fs ≠ none := by
  have hp : c.pyr.contains atom = false := by simp [hpyr]
  unfold loopStage
  cases loop
  · simp
  · simp only [if_true]
    rcases hb with rfl | rfl
    · simp only [Nat.reduceBEq, Bool.false_eq_true, if_false]
      by_cases hd : c.db.isEmpty = true
      · simp [hd]
      · simp only [hd, Bool.not_false, if_true]
        split
        · simp
        · rename_i hc
          exfalso
          simp only [Bool.or_eq_true, Bool.not_eq_true', not_or, Bool.not_eq_true, hp] at hc
          obtain ⟨⟨h1, h2⟩, -⟩ := hc
          have hfs : fs = [] := by cases fs <;> simp_all
          have hlb : loopBond c = 1 := by simp [loopBond, hd]
          subst hfs
          simp only [hlb, Nat.reduceEqDiff, and_false, if_false, List.countP_nil, h2, Bool.false_eq_true] at hsum
          omega
    · simp only [Nat.reduceBEq, if_true]
      by_cases hd : c.db.isEmpty = true
      · exfalso
        have hlb : loopBond c = 2 := by simp [loopBond, hd]
        simp only [hlb, and_self, if_true] at hsum
        split at hsum <;> omega
      · simp [hd]

/-- **local completeness**: `g x` = the order a given Kekulé form gives the bond atom–x. If the form is valid at the
    atom (exactly one double bond among all its ring bonds — none for an atom of `double_bonded` —, closures single,
    the closing bond as the start atom needs it, no double bond towards `double_bonded`), the plan is neither dead nor
    an exception and one of its continuations pushes exactly the orders of the form. -/
theorem plan_complete {c : Ctx} {a p b len : Nat} {hashed : Nat → Bool} (g : Nat → Nat)
    {nbrs : List Nat} (hn : c.rings.lookup a = some nbrs) (hL : nbrs.length ≤ 3)
    (hP : p ∈ nbrs) (hpyr : c.pyr = []) (hb : b = 1 ∨ b = 2)
    (hg : ∀ x ∈ forStackOf c p hashed nbrs, g x = 1 ∨ g x = 2)
    (hdbfs : ∀ x ∈ forStackOf c p hashed nbrs, c.db.contains x = true → g x = 1)
    (hsum : (if b = 2 then 1 else 0) + (if hasLoop c p nbrs = true ∧ loopBond c = 2 then 1 else 0) +
      (forStackOf c p hashed nbrs).countP (fun x => g x == 2) = if c.db.contains a = true then 0 else 1) :
    plan c a p b hashed len ≠ .dead ∧ (∀ s, plan c a p b hashed len ≠ .crash s) ∧
    (∀ ins0 clos brs, plan c a p b hashed len = .go ins0 clos brs → ∃ br ∈ brs, ∀ e ∈ br, e.bond = g e.atom) := by
  have hls := loopStage_complete (c := c) (atom := a) (bond := b) (loop := hasLoop c p nbrs)
    (fs := forStackOf c p hashed nbrs) g hpyr hb hsum
  unfold plan
  rw [hn]
  simp only
  cases hl : loopStage c a b (hasLoop c p nbrs) (forStackOf c p hashed nbrs) with
  | none => exact absurd hl hls
  | some r =>
    obtain ⟨i0, bond'⟩ := r
    simp only
    obtain ⟨l1, l2, l3, l4, l5⟩ := loopStage_facts hl hb
    have htw : twos i0.toList = if hasLoop c p nbrs = true ∧ loopBond c = 2 then 1 else 0 := by
      cases hh : hasLoop c p nbrs
      · have := (l2 hh).1
        subst this
        simp [twos]
      · obtain ⟨e0, he0⟩ := l1 hh
        have := l3 e0 he0
        subst he0
        simp only [Option.toList_some, twos, List.countP_cons, List.countP_nil, this, beq_iff_eq, true_and]
        split <;> simp_all
    have hpart := partition_nbrs c p hashed nbrs
    have hcp : 0 < nbrs.countP (· == p) := List.countP_pos_iff.2 ⟨p, hP, by simp⟩
    have hsum' : (if bond' = 2 then 1 else 0) + (forStackOf c p hashed nbrs).countP (fun x => g x == 2) =
        if c.db.contains a = true then 0 else 1 := by
      rw [← htw] at hsum
      omega
    exact growStage_complete g hpyr l4 hg hdbfs hsum' (by omega)

/-! ## global part -/

/-- a Kekulé form of the component as an order for every (undirected) skeleton bond -/
structure ValidForm (c : Ctx) (db0 : List Nat) (f : Nat × Nat → Nat) : Prop where
  ord : ∀ v w, w ∈ nb c v → f (ukey v w) = 1 ∨ f (ukey v w) = 2
  deg : ∀ v, nb c v ≠ [] → (nb c v).countP (fun w => f (ukey v w) == 2) = if db0.contains v = true then 0 else 1

/-- the entries carry the orders of the form -/
def Agr (f : Nat × Nat → Nat) (l : List PEntry) : Prop := ∀ x ∈ l, x.2.2 = f (key x)

/-- stack discipline: only the entry on top of a level can carry a double bond or a depth tag (closing entries excepted) -/
def LInv (c : Ctx) (level : Level) : Prop := ∀ e ∈ level.dropLast, (e.bond = 1 ∧ e.tag = none) ∨ e.atom = c.start

def Good (f : Nat × Nat → Nat) (r : Res) (limit : Nat) : Prop :=
  r.crash.isSome = true ∨ limit ≤ r.found.length ∨ ∃ y ∈ r.found, Agr f y

theorem seqBranches_good {β : Type} (f : Nat × Nat → Nat) (g : β → Nat → Res) :
    ∀ (bs : List β) (limit : Nat) (b : β), b ∈ bs → (∀ lim, Good f (g b lim) lim) →
      Good f (seqBranches bs g limit) limit := by
  intro bs
  induction bs with
  | nil => intro _ b hb; simp at hb
  | cons b0 rest ih =>
    intro limit b hb hg
    simp only [seqBranches]
    split
    · rename_i hc
      simp only [Bool.or_eq_true, decide_eq_true_eq] at hc
      rcases hc with hc | hc
      · exact Or.inl hc
      · exact Or.inr (Or.inl hc)
    · rename_i hc
      simp only [Bool.or_eq_true, decide_eq_true_eq, not_or, Nat.not_le] at hc
      rcases List.mem_cons.1 hb with rfl | hb'
      · rcases hg limit with h | h | ⟨y, hy, hA⟩
        · exact absurd h hc.1
        · omega
        · exact Or.inr (Or.inr ⟨y, List.mem_append_left _ hy, hA⟩)
      · rcases ih (limit - (g b0 limit).found.length) b hb' hg with h | h | ⟨y, hy, hA⟩
        · exact Or.inl h
        · refine Or.inr (Or.inl ?_)
          simp only [List.length_append]
          omega
        · exact Or.inr (Or.inr ⟨y, List.mem_append_right _ hy, hA⟩)

theorem countP_ge_two {l : List Nat} {P : Nat → Bool} {x y : Nat} (hx : x ∈ l) (hy : y ∈ l) (hxy : x ≠ y)
    (h1 : P x = true) (h2 : P y = true) : 2 ≤ l.countP P := by
  have hsub : [x, y].Subperm l := by
    apply List.subperm_of_subset
    · simp [hxy]
    · intro z hz
      simp only [List.mem_cons, List.not_mem_nil, or_false] at hz
      rcases hz with rfl | rfl <;> assumption
  have := hsub.countP_le P
  have h3 : List.countP P [x, y] = 2 := by simp [List.countP_cons, h1, h2]
  omega

/-- the neighbours of an atom split into the previous atom, the start atom, closures and forward neighbours -/
theorem partition_countP (c : Ctx) (p : Nat) (hashed : Nat → Bool) (Q : Nat → Bool) (nbrs : List Nat) :
    nbrs.countP Q = (forStackOf c p hashed nbrs).countP Q + (closuresOf c p hashed nbrs).countP Q +
      nbrs.countP (fun x => Q x && x == p) + nbrs.countP (fun x => Q x && (x != p && x == c.start)) := by
  induction nbrs with
  | nil => simp [forStackOf, closuresOf]
  | cons x xs ih =>
    simp only [forStackOf, closuresOf, List.filter_cons, List.countP_cons] at ih ⊢
    by_cases h1 : x = p
    · subst h1; simp; cases Q x <;> simp <;> omega
    · by_cases h2 : x = c.start
      · subst h2; simp [h1]; cases Q c.start <;> simp <;> omega
      · cases h3 : hashed x <;> cases h4 : Q x <;> simp [h1, h2, h3, h4] <;> omega

theorem growStage_dropLast {c : Ctx} {atom bond len : Nat} {ins0 i0 : Option Entry} {closures fs clos : List Nat}
    {brs : List (List Entry)} (h : growStage c atom bond len ins0 closures fs = .go i0 clos brs) :
    ∀ br ∈ brs, ∀ e ∈ br.dropLast, e.bond = 1 ∧ e.tag = none := by
  unfold growStage at h
  split at h
  · injection h with _ _ h3; subst h3
    intro br hbr e he
    simp only [List.mem_singleton] at hbr; subst hbr
    obtain ⟨x, _, rfl⟩ := List.mem_map.1 (List.dropLast_subset _ he)
    simp [mk]
  · split at h
    · repeat' split at h
      all_goals first
        | (injection h with _ _ h3; subst h3
           intro br hbr e he
           simp only [List.mem_cons, List.not_mem_nil, or_false] at hbr
           rcases hbr with rfl | rfl <;> simp at he)
        | cases h
    · split at h
      · cases h
      · injection h with _ _ h3; subst h3
        intro br hbr e he
        simp only [List.mem_singleton] at hbr; subst hbr
        simp at he
    · repeat' split at h
      all_goals first
        | (injection h with _ _ h3; subst h3
           intro br hbr e he
           simp only [List.mem_cons, List.not_mem_nil, or_false] at hbr
           rcases hbr with rfl | rfl | rfl <;> simp [List.dropLast] at he <;> subst he <;> simp [mk])
        | cases h
    · cases h

theorem plan_dropLast {c : Ctx} {atom prev bond len : Nat} {hashed : Nat → Bool} {ins0 : Option Entry} {clos : List Nat}
    {brs : List (List Entry)} (h : plan c atom prev bond hashed len = .go ins0 clos brs) :
    ∀ br ∈ brs, ∀ e ∈ br.dropLast, e.bond = 1 ∧ e.tag = none := by
  unfold plan at h
  split at h
  · cases h
  · split at h
    · cases h
    · exact growStage_dropLast h

theorem countP_at {l : List Nat} (hnd : l.Nodup) (Q R : Nat → Bool) (t : Nat) (hR : ∀ x, R x = true → x = t) :
    l.countP (fun x => Q x && R x) = if t ∈ l ∧ Q t = true ∧ R t = true then 1 else 0 := by
  induction l with
  | nil => simp
  | cons y ys ih =>
    simp only [List.nodup_cons] at hnd
    rw [List.countP_cons, ih hnd.2]
    by_cases hy : y = t
    · subst hy
      have : ¬ (y ∈ ys ∧ Q y = true ∧ R y = true) := fun h => hnd.1 h.1
      simp only [this, if_false, List.mem_cons, true_or, true_and]
      cases Q y <;> cases R y <;> simp
    · have hRy : R y = false := by
        cases h : R y
        · rfl
        · exact absurd (hR y h) hy
      have hy' : ¬ t = y := fun h => hy h.symm
      simp [hRy, hy']

section complete
variable {c : Ctx} {init : PEntry} {level' : Level} {e : Entry} {path : Path} {ins0 : Option Entry}
  {clos : List Nat} {brs : List (List Entry)} {base : Level} {f : Nat × Nat → Nat}

/-- a closure of the atom being visited is joined to it by a single bond in every form the state agrees with -/
theorem closure_single (D : Dom c) (I : Inv c init (level' ++ [e]) path) (hi : init.2.1 = c.start)
    (hV : hashedIn path e.atom = false) (hs : e.atom ≠ c.start)
    (hL : ∀ e' ∈ level', (e'.bond = 1 ∧ e'.tag = none) ∨ e'.atom = c.start)
    (hA : Agr f (M (level' ++ [e]) path)) {x : Nat}
    (hx : x ∈ closuresOf c e.prev (hashedIn (path ++ [pe e])) (nb c e.atom)) : f (ukey x e.atom) = 1 := by
  obtain ⟨x1, x2, x3, x4⟩ := mem_closuresOf hx
  have hxa : x ≠ e.atom := fun h => D.noself _ (h ▸ x1)
  have hVx : hashedIn path x = true := by
    rw [hashedIn_append, Bool.or_eq_true] at x4
    rcases x4 with h | h
    · exact h
    · simp only [hashedIn, List.any_cons, List.any_nil, Bool.or_false, pe, beq_iff_eq] at h
      exact absurd h.symm hxa
  obtain ⟨y, hy, hk⟩ := List.mem_map.1 (I.cover x hVx x3 e.atom (D.sym _ _ x1))
  have hy2 : y.2.1 ≠ e.atom := no_prev_unvisited I hi hV hs y hy
  have hy1 : y.1 = e.atom ∧ y.2.1 = x := by
    rcases ukey_eq hk with ⟨-, h2⟩ | ⟨h1, h2⟩
    · exact absurd h2 hy2
    · exact ⟨h1, h2⟩
  rcases mem_M hy with h | ⟨e', he', rfl⟩
  · have := hashedIn_mem h
    rw [hy1.1, hV] at this; exact Bool.noConfusion this
  · rcases List.mem_append.1 he' with h | h
    · rcases hL e' h with ⟨hb, -⟩ | hst
      · have := hA (pe e') (mem_M_level he')
        have hk' : key (pe e') = ukey x e.atom := hk
        rw [hk'] at this
        rw [← this]; exact hb
      · exact absurd (hy1.1 ▸ hst) hs
    · simp only [List.mem_singleton] at h
      subst h
      exact absurd hy1.2.symm x2

/-- … and the closing bond to the start atom carries the closing order -/
theorem start_edge (D : Dom c) {db0 : List Nat} (SO : StartOK c db0 init) (VF : ValidForm c db0 f)
    (I : Inv c init (level' ++ [e]) path) (hV : hashedIn path e.atom = false)
    (hA : Agr f (M (level' ++ [e]) path)) (hst : c.start ∈ nb c e.atom) (hsp : c.start ≠ e.prev) :
    f (ukey c.start e.atom) = loopBond c := by
  have ha : e.atom ∈ nb c c.start := D.sym _ _ hst
  have hne : nb c c.start ≠ [] := List.ne_nil_of_mem ha
  have hdeg := VF.deg c.start hne
  have hord := VF.ord c.start e.atom ha
  have hinitM := I.ini
  have hie := I.edges init hinitM
  have hf0 : init.1 ∈ nb c c.start := SO.prev ▸ hie.1
  have hfi : f (ukey c.start init.1) = init.2.2 := by
    have := hA init hinitM
    rw [this]; simp [key, SO.prev, ukey_comm]
  -- the atom being visited is not the first neighbour
  have hne0 : e.atom ≠ init.1 := by
    intro h
    rcases mem_M hinitM with hp | ⟨e', he', he'i⟩
    · have := hashedIn_mem hp
      rw [← h, hV] at this; exact Bool.noConfusion this
    · have hprev : e'.prev = c.start := by
        have : (pe e').2.1 = init.2.1 := by rw [he'i]
        exact this.trans SO.prev
      rcases (I.lvl e' he').2.1 with ⟨-, h2⟩ | h2
      · exact h2 hprev
      · have := I.fresh h2
        simp only [List.map_append, List.map_cons, List.map_nil] at this
        have hl : level' = [] := by
          have := congrArg List.length this
          simp only [List.length_append, List.length_map, List.length_cons, List.length_nil] at this
          exact List.eq_nil_of_length_eq_zero (by omega)
        subst hl
        simp only [List.nil_append, List.mem_singleton] at he'
        subst he'
        exact hsp hprev.symm
  rcases SO.cases with ⟨h1, h2, h3⟩ | ⟨h1, h2, h3, h4⟩ | ⟨h1, h2, h3⟩
  · rw [h3, if_pos rfl, List.countP_eq_zero] at hdeg
    have := hdeg e.atom ha
    rcases hord with h | h
    · rw [h, h1]
    · simp [h] at this
  · rw [h3] at hdeg
    simp only [Bool.false_eq_true, if_false] at hdeg
    rw [h1]
    have hndn := D.nodup c.start
    match hnb : nb c c.start, h4, hndn, ha, hf0, hdeg with
    | [u, v], _, hnn, ha, hf0, hdeg =>
      simp only [List.mem_cons, List.not_mem_nil, or_false] at ha hf0
      simp only [List.countP_cons, List.countP_nil] at hdeg
      rw [h2] at hfi
      rcases ha with ha | ha <;> rcases hf0 with hf0 | hf0
      · exact absurd (ha.trans hf0.symm) hne0
      · rw [← ha, ← hf0, hfi] at hdeg
        rcases hord with h | h
        · simp [h] at hdeg
        · exact h
      · rw [← ha, ← hf0, hfi] at hdeg
        rcases hord with h | h
        · simp [h] at hdeg
        · exact h
      · exact absurd (ha.trans hf0.symm) hne0
  · rw [h3] at hdeg
    simp only [Bool.false_eq_true, if_false] at hdeg
    rw [h1]
    rcases hord with h | h
    · exact h
    · exfalso
      rw [h2] at hfi
      have := countP_ge_two (P := fun w => f (ukey c.start w) == 2) ha hf0 hne0 (by simp [h]) (by simp [hfi])
      omega

/-- the hypotheses of `plan_complete` hold in a state that satisfies the invariant and agrees with a valid form -/
theorem plan_hyps (D : Dom c) {db0 : List Nat} (SO : StartOK c db0 init) (VF : ValidForm c db0 f)
    (I : Inv c init (level' ++ [e]) path) (hs : e.atom ≠ c.start)
    (hL : ∀ e' ∈ level', (e'.bond = 1 ∧ e'.tag = none) ∨ e'.atom = c.start)
    (hA : Agr f (M (level' ++ [e]) path)) {nbrs : List Nat} (hn : c.rings.lookup e.atom = some nbrs) :
    nbrs.length ≤ 3 ∧ e.prev ∈ nbrs ∧ (e.bond = 1 ∨ e.bond = 2) ∧
    (∀ x ∈ forStackOf c e.prev (hashedIn (path ++ [pe e])) nbrs, f (ukey x e.atom) = 1 ∨ f (ukey x e.atom) = 2) ∧
    (∀ x ∈ forStackOf c e.prev (hashedIn (path ++ [pe e])) nbrs, c.db.contains x = true → f (ukey x e.atom) = 1) ∧
    ((if e.bond = 2 then 1 else 0) + (if hasLoop c e.prev nbrs = true ∧ loopBond c = 2 then 1 else 0) +
      (forStackOf c e.prev (hashedIn (path ++ [pe e])) nbrs).countP (fun x => f (ukey x e.atom) == 2) =
        if c.db.contains e.atom = true then 0 else 1) := by
  have hel : e ∈ level' ++ [e] := by simp
  have hV : hashedIn path e.atom = false := by
    rcases (I.lvl e hel).1 with h | h
    · exact h
    · exact absurd h hs
  have hnb := nb_of_lookup hn
  have hedge := I.edges _ (mem_M_level (path := path) hel)
  have hP : e.prev ∈ nbrs := hnb ▸ D.sym _ _ hedge.1
  have hne : nb c e.atom ≠ [] := by rw [hnb]; exact List.ne_nil_of_mem hP
  have hdeg := D.deg _ hne
  rw [hnb] at hdeg
  have hN : nbrs.Nodup := hnb ▸ D.nodup e.atom
  refine ⟨hdeg.2, hP, hedge.2, ?_, ?_, ?_⟩
  · intro x hx
    have := (mem_forStackOf hx).1
    rw [ukey_comm]
    exact VF.ord e.atom x (hnb ▸ this)
  · intro x hx hdb
    obtain ⟨x1, -, x3, -⟩ := mem_forStackOf hx
    have hxa : e.atom ∈ nb c x := D.sym _ _ (hnb ▸ x1)
    have hd := VF.deg x (List.ne_nil_of_mem hxa)
    rw [← SO.other x x3, hdb, if_pos rfl, List.countP_eq_zero] at hd
    have := hd e.atom hxa
    rcases VF.ord x e.atom hxa with h | h
    · exact h
    · simp [h] at this
  · -- split the double bonds at the atom according to the kind of neighbour
    have hd := VF.deg e.atom hne
    rw [hnb, ← SO.other e.atom hs, partition_countP c e.prev (hashedIn (path ++ [pe e]))] at hd
    have hclos : (closuresOf c e.prev (hashedIn (path ++ [pe e])) nbrs).countP
        (fun w => f (ukey e.atom w) == 2) = 0 := by
      rw [List.countP_eq_zero]
      intro x hx
      have := closure_single D I SO.prev hV hs hL hA (hnb ▸ hx)
      rw [ukey_comm] at this
      simp [this]
    have hprev : nbrs.countP (fun x => (f (ukey e.atom x) == 2) && x == e.prev) = if e.bond = 2 then 1 else 0 := by
      rw [countP_at hN _ _ e.prev (fun x h => by simpa using h)]
      have hb : e.bond = f (ukey e.atom e.prev) := hA (pe e) (mem_M_level hel)
      simp [hP, hb]
    have hstart : nbrs.countP (fun x => (f (ukey e.atom x) == 2) && (x != e.prev && x == c.start)) =
        if hasLoop c e.prev nbrs = true ∧ loopBond c = 2 then 1 else 0 := by
      rw [countP_at hN _ _ c.start (fun x h => by
        simp only [Bool.and_eq_true, bne_iff_ne, ne_eq, beq_iff_eq] at h; exact h.2)]
      have hloop : hasLoop c e.prev nbrs = true ↔ (c.start ∈ nbrs ∧ c.start ≠ e.prev) := by
        simp only [hasLoop, Bool.and_eq_true, bne_iff_ne, ne_eq, List.contains_iff_mem, D.nz, not_false_eq_true,
          and_true]
        exact ⟨fun h => ⟨h.2, h.1⟩, fun h => ⟨h.2, h.1⟩⟩
      by_cases hl : c.start ∈ nbrs ∧ c.start ≠ e.prev
      · have hse := start_edge D SO VF I hV hA (hnb ▸ hl.1) hl.2
        rw [ukey_comm] at hse
        simp [hloop.2 hl, hl.1, hl.2, hse]
      · have hl' : ¬ (hasLoop c e.prev nbrs = true) := fun h => hl (hloop.1 h)
        have : ¬ (c.start ∈ nbrs ∧ (f (ukey e.atom c.start) == 2) = true ∧
            (c.start != e.prev && c.start == c.start) = true) := by
          intro h
          simp only [Bool.and_eq_true, bne_iff_ne, ne_eq, beq_self_eq_true, and_true] at h
          exact hl ⟨h.1, h.2.2⟩
        rw [if_neg this]
        simp [hl']
    have hfs : (forStackOf c e.prev (hashedIn (path ++ [pe e])) nbrs).countP (fun w => f (ukey e.atom w) == 2) =
        (forStackOf c e.prev (hashedIn (path ++ [pe e])) nbrs).countP (fun x => f (ukey x e.atom) == 2) := by
      apply List.countP_congr
      intro x _
      rw [ukey_comm]
    rw [hclos, hprev, hstart, hfs] at hd
    omega

end complete

theorem dropLast_append_sub {α : Type} (l b : List α) : ∀ x ∈ (l ++ b).dropLast, x ∈ l ∨ x ∈ b.dropLast := by
  intro x hx
  cases b with
  | nil =>
    simp only [List.append_nil] at hx
    exact Or.inl (List.dropLast_subset _ hx)
  | cons y ys =>
    rw [List.dropLast_append_of_ne_nil (by simp)] at hx
    exact List.mem_append.1 hx

/-- **completeness of `explore`**: from a state that satisfies the invariant and agrees with a valid form, the search
    ends in an exception, or stops at the limit, or finds that form -/
theorem explore_complete {c : Ctx} (D : Dom c) {db0 : List Nat} {init : PEntry} (SO : StartOK c db0 init)
    {f : Nat × Nat → Nat} (VF : ValidForm c db0 f) (level : Level) (path : Path) (limit : Nat)
    (I : Inv c init level path) (hL : LInv c level) (hA : Agr f (M level path)) :
    Good f (explore c level path limit) limit := by
  fun_induction explore c level path limit with
  | case1 level path limit hl => exact Or.inl rfl
  | case2 level path limit e hl hsz =>
    refine Or.inr (Or.inr ⟨_, List.mem_singleton.2 rfl, ?_⟩)
    obtain ⟨ys, rfl⟩ := List.getLast?_eq_some_iff.1 hl
    intro x hx
    exact hA x ((M_pop_perm ys e path).subset (List.mem_append_left _ hx))
  | case3 level path limit e hl hsz hs ih =>
    obtain ⟨ys, rfl⟩ := List.getLast?_eq_some_iff.1 hl
    rw [List.dropLast_concat] at ih ⊢
    apply ih (inv_start I SO.prev hs)
    · intro e' he'
      have : e' ∈ (ys ++ [e]).dropLast := by rw [List.dropLast_concat]; exact List.dropLast_subset _ he'
      exact hL e' this
    · intro x hx
      exact hA x ((M_pop_perm ys e path).subset hx)
  | case4 level path limit e hl hsz hs s hp => exact Or.inl rfl
  | case5 level path limit e hl hsz hs hp =>
    exfalso
    obtain ⟨ys, rfl⟩ := List.getLast?_eq_some_iff.1 hl
    have hL' : ∀ e' ∈ ys, (e'.bond = 1 ∧ e'.tag = none) ∨ e'.atom = c.start := by
      intro e' he'; exact hL e' (by rw [List.dropLast_concat]; exact he')
    cases hn : c.rings.lookup e.atom with
    | none => simp [plan, hn] at hp
    | some nbrs =>
      obtain ⟨h1, h2, h3, h4, h5, h6⟩ := plan_hyps D SO VF I hs hL' hA hn
      exact (plan_complete (len := (path ++ [(e.atom, e.prev, e.bond)]).length) (fun x => f (ukey x e.atom))
        hn h1 h2 D.pyr h3 h4 h5 h6).1 hp
  | case6 level path limit e hl hsz hs ins0 clos branches hp hr => exact Or.inl rfl
  | case7 level path limit e hl hsz hs ins0 clos branches hp base hr ih =>
    obtain ⟨ys, rfl⟩ := List.getLast?_eq_some_iff.1 hl
    rw [List.dropLast_concat] at hr
    have hL' : ∀ e' ∈ ys, (e'.bond = 1 ∧ e'.tag = none) ∨ e'.atom = c.start := by
      intro e' he'; exact hL e' (by rw [List.dropLast_concat]; exact he')
    have S := stepCtx_of D SO.prev I hs hp hr
    obtain ⟨nbrs, hn, -⟩ := plan_spec hp
    obtain ⟨h1, h2, h3, h4, h5, h6⟩ := plan_hyps D SO VF I hs hL' hA hn
    obtain ⟨br, hbr, hagr⟩ := (plan_complete (len := (path ++ [(e.atom, e.prev, e.bond)]).length)
      (fun x => f (ukey x e.atom)) hn h1 h2 D.pyr h3 h4 h5 h6).2.2 ins0 clos branches hp
    apply seqBranches_good f _ _ _ ⟨br, hbr⟩ (List.mem_attach _ _)
    intro lim
    apply ih ⟨br, hbr⟩ lim (inv_branch D S hbr)
    · -- stack discipline
      intro e' he'
      rcases dropLast_append_sub base br e' he' with h | h
      · have hR := removeAll_perm hr
        rw [insert0_eq] at hR
        have h0 : e' ∈ ins0.toList ++ ys := hR.symm.subset (List.mem_append_right _ h)
        rcases List.mem_append.1 h0 with h0 | h0
        · cases hi0 : ins0 with
          | none => simp [hi0] at h0
          | some e0 =>
            simp only [hi0, Option.toList_some, List.mem_singleton] at h0
            subst h0
            exact Or.inr (S.ins e' hi0).2.2.1
        · exact hL' e' h0
      · exact Or.inl (plan_dropLast hp br hbr e' h)
    · -- agreement with the form
      intro x hx
      rcases mem_step hr hx with h | ⟨y, hy, rfl⟩ | h
      · exact hA x h
      · have hV : hashedIn path e.atom = false := S.hV
        have := closure_single D I SO.prev hV hs hL' hA (S.f3 ▸ hy)
        simp only [key]
        rw [this]
      · obtain ⟨e', he', rfl⟩ := List.mem_map.1 h
        rcases List.mem_append.1 he' with h0 | h0
        · cases hi0 : ins0 with
          | none => simp [hi0] at h0
          | some e0 =>
            simp only [hi0, Option.toList_some, List.mem_singleton] at h0
            subst h0
            obtain ⟨i1, i2, i3, i4, -, -⟩ := S.ins e' hi0
            have := start_edge D SO VF I S.hV hA i1 i2
            simp only [pe, key, i3, i4]
            rw [this]
            exact S.f2 e' hi0
        · have h7 := hagr e' h0
          have h8 := (S.brn br hbr e' h0).2.2.2.2.1
          simp only [pe, key, h8]
          exact h7

/-- a Kekulé form of the component dict `rings` -/
structure ValidFormR (rings : Adj) (db0 : List Nat) (f : Nat × Nat → Nat) : Prop where
  ord : ∀ v w, w ∈ nbr rings v → f (ukey v w) = 1 ∨ f (ukey v w) = 2
  deg : ∀ v, nbr rings v ≠ [] →
    (nbr rings v).countP (fun w => f (ukey v w) == 2) = if db0.contains v = true then 0 else 1

/-- **completeness of the search** (prepared components without ambiguous atoms): if the search ran to its end
    (no exception, fewer complete paths than the limit), every Kekulé form of the component is among the paths found -/
theorem searchRaw_complete {rings : Adj} (G : GraphOK rings) (hk : ∀ p ∈ rings, 2 ≤ p.2.length) (db0 : List Nat)
    (limit : Nat) (hcrash : (searchRaw rings db0 [] limit).crash = none)
    (hlim : (searchRaw rings db0 [] limit).found.length < limit) {f : Nat × Nat → Nat}
    (VF : ValidFormR rings db0 f) : ∃ y ∈ (searchRaw rings db0 [] limit).found, Agr f y := by
  have hgood : Good f (searchRaw rings db0 [] limit) limit := by
    unfold searchRaw at hcrash ⊢
    split at hcrash
    · simp at hcrash
    · rename_i c levels hinit
      have IO := initial_ok G hinit
      have Gc : GraphOK c.rings := IO.hr ▸ G
      have hnbeq : ∀ v, nb c v = nbr rings v := fun v => by simp [nb, nbr, IO.hr]
      have VFc : ValidForm c db0 f := ⟨fun v w hw => VF.ord v w (hnbeq v ▸ hw),
        fun v hv => by rw [hnbeq v]; exact VF.deg v (hnbeq v ▸ hv)⟩
      obtain ⟨ms, hms⟩ := IO.skey
      have hnbs : nb c c.start = ms := by rw [hnbeq]; exact nbr_of_mem G hms
      have hms2 := hk _ hms
      have hne : nb c c.start ≠ [] := by
        rw [hnbs]; intro h0; rw [h0] at hms2; simp at hms2
      have hstart : nbr c.rings c.start ≠ [] := hne
      have D := dom_of Gc IO.pyr hstart
      -- pick the initial level that agrees with the form
      have pick : ∃ e0, [e0] ∈ levels ∧ e0.bond = f (ukey e0.atom c.start) := by
        have hdeg := VFc.deg c.start hne
        cases hdb : db0.contains c.start
        · rw [hdb] at hdeg
          simp only [Bool.false_eq_true, if_false] at hdeg
          have hpos : 0 < (nb c c.start).countP (fun w => f (ukey c.start w) == 2) := by omega
          obtain ⟨x, hx, hfx⟩ := List.countP_pos_iff.1 hpos
          simp only [beq_iff_eq] at hfx
          obtain ⟨ex, hex, hexa⟩ := IO.all hdb x hx
          obtain ⟨e0, he0, SO, hf, hb, hdbb⟩ := IO.lv _ hex
          simp only [List.cons.injEq, and_true] at he0
          subst he0
          rcases SO.cases with ⟨-, -, h3⟩ | ⟨h1, h2, -, h4⟩ | ⟨-, h2, -⟩
          · rw [hdb] at h3; exact Bool.noConfusion h3
          · -- first bonds single: take the level of the other neighbour
            have hndn := D.nodup c.start
            obtain ⟨y, hy, hyx⟩ : ∃ y ∈ nb c c.start, y ≠ x := by
              match hnb : nb c c.start, h4, hndn, hx with
              | [u, v], _, hnn, hx =>
                simp only [List.nodup_cons, List.mem_cons, List.not_mem_nil, or_false, not_false_eq_true,
                  List.nodup_nil, and_true] at hnn
                simp only [List.mem_cons, List.not_mem_nil, or_false] at hx
                rcases hx with rfl | rfl
                · exact ⟨v, by simp, fun h => hnn h.symm⟩
                · exact ⟨u, by simp, hnn⟩
            have hfy : f (ukey c.start y) = 1 := by
              rcases VFc.ord c.start y hy with h | h
              · exact h
              · exfalso
                have := countP_ge_two (P := fun w => f (ukey c.start w) == 2) hx hy (fun h => hyx h.symm)
                  (by simp [hfx]) (by simp [h])
                omega
            obtain ⟨ey, hey, heya⟩ := IO.all hdb y hy
            obtain ⟨e1, he1, SO1, -, -, -⟩ := IO.lv _ hey
            simp only [List.cons.injEq, and_true] at he1
            subst he1
            refine ⟨ey, hey, ?_⟩
            rcases SO1.cases with ⟨-, -, g3⟩ | ⟨-, g2, -, -⟩ | ⟨g1, -, -⟩
            · rw [hdb] at g3; exact Bool.noConfusion g3
            · have : ey.bond = 1 := g2
              rw [this, heya, ukey_comm, hfy]
            · omega
          · refine ⟨ex, hex, ?_⟩
            have : ex.bond = 2 := h2
            rw [this, hexa, ukey_comm, hfx]
        · rw [hdb, if_pos rfl, List.countP_eq_zero] at hdeg
          obtain ⟨e0, he0⟩ := IO.one hdb
          obtain ⟨e1, he1, SO, hf, -, -⟩ := IO.lv _ he0
          simp only [List.cons.injEq, and_true] at he1
          subst he1
          refine ⟨e0, he0, ?_⟩
          have h1 := hdeg e0.atom hf
          rcases SO.cases with ⟨-, h2, -⟩ | ⟨-, -, h3, -⟩ | ⟨-, -, h3⟩
          · have : e0.bond = 1 := h2
            rw [this, ukey_comm]
            rcases VFc.ord c.start e0.atom hf with h | h
            · exact h.symm
            · simp [h] at h1
          · rw [hdb] at h3; exact Bool.noConfusion h3
          · rw [hdb] at h3; exact Bool.noConfusion h3
      obtain ⟨e0, he0, hbond⟩ := pick
      obtain ⟨e1, he1, SO, hf, hb, hdbb⟩ := IO.lv _ he0
      simp only [List.cons.injEq, and_true] at he1
      subst he1
      apply seqBranches_good f _ levels limit [e0] he0
      intro lim
      apply explore_complete D SO VFc [e0] [] lim (inv_init D SO.prev hf hb hdbb)
      · intro e he; simp at he
      · intro x hx
        simp only [M, List.nil_append, List.map_cons, List.map_nil, List.mem_singleton] at hx
        subst hx
        simp only [pe, key]
        have : e0.prev = c.start := SO.prev
        rw [this]
        exact hbond
  rcases hgood with h | h | h
  · rw [hcrash] at h; simp at h
  · omega
  · exact h

theorem component_status (rings : Adj) (db pyr : List Nat) (buf limit : Nat)
    (h1 : (kekuleComponent rings db pyr buf limit).2 ≠ .more)
    (h2 : ∀ e, (kekuleComponent rings db pyr buf limit).2 ≠ .crashed e) :
    (searchRaw rings db pyr limit).crash = none ∧ (searchRaw rings db pyr limit).found.length < limit := by
  unfold kekuleComponent at h1 h2
  simp only at h1 h2
  cases hc : (searchRaw rings db pyr limit).crash with
  | some e => simp [hc] at h2
  | none =>
    refine ⟨rfl, ?_⟩
    simp only [hc] at h1
    by_contra hlt
    have : limit ≤ (searchRaw rings db pyr limit).found.length := by omega
    simp [this] at h1

/-- completeness for `kekuleComponent` without ambiguous atoms -/
theorem component_complete {rings : Adj} (G : GraphOK rings) (hk : ∀ p ∈ rings, 2 ≤ p.2.length) (db0 : List Nat)
    (buf limit : Nat) (h1 : (kekuleComponent rings db0 [] buf limit).2 ≠ .more)
    (h2 : ∀ e, (kekuleComponent rings db0 [] buf limit).2 ≠ .crashed e) {f : Nat × Nat → Nat}
    (VF : ValidFormR rings db0 f) : ∃ y ∈ (kekuleComponent rings db0 [] buf limit).1, Agr f y := by
  obtain ⟨hc, hl⟩ := component_status rings db0 [] buf limit h1 h2
  rw [component_yields_eq]
  exact searchRaw_complete G hk db0 limit hc hl VF

end ChythonModel.Proofs.C05S
