import ChythonModel.Proofs.C10Stable
import ChythonModel.Model.PackWF
/-!
# C10: the cis/trans re-attachment after decoding restores every bond mark
-/
namespace ChythonModel.Proofs.C10
open ChythonModel.Model.Pack

/-- completeness of the first-seen enumeration: every neighbour entry is a first-seen bond, read forward or backward -/
theorem firstSeen_complete {all : List PAtom} (g : GraphOK all) : ∀ (suf pre : List PAtom) (seen : List Nat),
    all = pre ++ suf → (∀ x, x ∈ seen ↔ x ∈ pre.map (·.num)) →
    ∀ a ∈ suf, ∀ nb ∈ a.nbrs, ¬ nb.m ∈ seen →
      (a.num, nb) ∈ firstSeen seen suf ∨ (nb.m, (⟨a.num, nb.order, nb.stereo⟩ : PNbr)) ∈ firstSeen seen suf
  | [], _, _, _, _, a, ha, _, _, _ => by simp at ha
  | c :: suf, pre, seen, hall, hseen, a, ha, nb, hnb, hns => by
    have hcall : c ∈ all := by rw [hall]; simp
    have haall : a ∈ all := by rw [hall]; exact List.mem_append_right _ ha
    have hnd := g.nodup
    rw [hall, List.map_append, List.map_cons] at hnd
    have hnd' := List.nodup_append.mp hnd
    rcases List.mem_cons.mp ha with rfl | ha'
    · left
      have hne := g.noLoop a haall nb hnb
      simp only [firstSeen, List.mem_append, List.mem_map, List.mem_filter]
      left
      exact ⟨nb, ⟨hnb, by simp [hne, hns]⟩, rfl⟩
    · have hane : a.num ≠ c.num := by
        intro e
        exact (List.nodup_cons.mp hnd'.2.1).1 (e ▸ List.mem_map_of_mem ha')
      have hans : ¬ a.num ∈ seen := by
        intro h2
        exact hnd'.2.2 a.num ((hseen _).mp h2) a.num (by simp [List.mem_map_of_mem (f := fun x : PAtom => x.num) ha']) rfl
      by_cases hc : nb.m = c.num
      · right
        obtain ⟨b, hb, hbn, hent⟩ := g.sym a haall nb hnb
        have : b = c := eq_of_num_eq g.nodup hb hcall (by rw [hbn, hc])
        subst this
        simp only [firstSeen, List.mem_append, List.mem_map, List.mem_filter]
        left
        exact ⟨⟨a.num, nb.order, nb.stereo⟩, ⟨hent, by simp [hane, hans]⟩, by rw [hc]⟩
      · have ih := firstSeen_complete g suf (pre ++ [c]) (c.num :: seen) (by simp [hall])
          (by intro x; simp only [List.mem_cons, List.map_append, List.map_cons, List.map_nil, List.mem_append,
                List.mem_singleton, hseen, List.not_mem_nil, or_false]; exact Or.comm)
          a ha' nb hnb (by simp [hc, hns])
        rcases ih with h1 | h1
        · left; simp only [firstSeen, List.mem_append]; right; exact h1
        · right; simp only [firstSeen, List.mem_append]; right; exact h1


/-- the molecule with bond stereo kept only on the bonds in `S` (either direction) -/
def keepNb (S : List (Nat × Nat)) (n : Nat) (nb : PNbr) : PNbr :=
  if S.contains (n, nb.m) || S.contains (nb.m, n) then nb else eraseNb nb

def keepSt (S : List (Nat × Nat)) (atoms : List PAtom) : List PAtom :=
  atoms.map fun a => { a with nbrs := a.nbrs.map (keepNb S a.num) }

theorem keepNb_nil (n : Nat) : keepNb [] n = eraseNb := by
  funext nb; simp [keepNb]

theorem keepSt_nil (atoms : List PAtom) : keepSt [] atoms = atoms.map eraseSt := by
  simp only [keepSt, keepNb_nil]; rfl

theorem eq_of_m_eq {l : List PNbr} (hnd : (l.map (·.m)).Nodup) {x y : PNbr} (hx : x ∈ l) (hy : y ∈ l) (e : x.m = y.m) :
    x = y := by
  have h1 := find_of_mem_nodup (·.m) l hnd x hx
  have h2 := find_of_mem_nodup (·.m) l hnd y hy
  simp only [e] at h1
  rw [h1] at h2; exact Option.some.inj h2

theorem keepNb_m (S : List (Nat × Nat)) (n : Nat) (nb : PNbr) : (keepNb S n nb).m = nb.m := by
  unfold keepNb; split <;> rfl

/-- one re-attachment step turns "stereo kept on S" into "stereo kept on (n, m) :: S" -/
theorem setBondStereo_keep {all : List PAtom} (g : GraphOK all) (S : List (Nat × Nat))
    {a0 : PAtom} (ha0 : a0 ∈ all) {nb0 : PNbr} (hnb0 : nb0 ∈ a0.nbrs) {s : Bool} (hs : nb0.stereo = some s) :
    setBondStereo (keepSt S all) a0.num nb0.m s = keepSt ((a0.num, nb0.m) :: S) all := by
  have hnm : nb0.m ≠ a0.num := g.noLoop a0 ha0 nb0 hnb0
  obtain ⟨b0, hb0, hb0n, hmir⟩ := g.sym a0 ha0 nb0 hnb0
  simp only [setBondStereo, keepSt, List.map_map]
  apply List.map_congr_left
  intro a ha
  simp only [Function.comp]
  by_cases h1 : a.num = a0.num
  · have : a = a0 := eq_of_num_eq g.nodup ha ha0 h1
    subst this
    simp only [beq_self_eq_true, ↓reduceIte, List.map_map]
    congr 1
    apply List.map_congr_left
    intro nb hnb
    simp only [Function.comp, keepNb_m]
    by_cases h2 : nb.m = nb0.m
    · have : nb = nb0 := eq_of_m_eq (g.nbrNodup a ha) hnb hnb0 h2
      subst this
      simp only [beq_self_eq_true, ↓reduceIte, keepNb, List.contains_cons, Bool.true_or]
      split <;> (cases nb; simp_all [eraseNb])
    · have hb : (nb.m == nb0.m) = false := by simp [h2]
      simp only [hb, Bool.false_eq_true, ↓reduceIte, keepNb, List.contains_cons]
      have e1 : ((a.num, nb.m) == (a.num, nb0.m)) = false := by simp [h2]
      have e2 : ((nb.m, a.num) == (a.num, nb0.m)) = false := by
        simp only [beq_eq_false_iff_ne, ne_eq, Prod.mk.injEq, not_and]
        intro e; exact fun e' => hnm e'.symm
      simp [e1, e2]
  · have hb1 : (a.num == a0.num) = false := by simp [h1]
    simp only [hb1, Bool.false_eq_true, ↓reduceIte]
    by_cases h3 : a.num = nb0.m
    · have : a = b0 := eq_of_num_eq g.nodup ha hb0 (by rw [h3, hb0n])
      subst this
      have hb3 : (a.num == nb0.m) = true := by simp [h3]
      simp only [hb3, ↓reduceIte, List.map_map]
      congr 1
      apply List.map_congr_left
      intro nb hnb
      simp only [Function.comp, keepNb_m]
      by_cases h4 : nb.m = a0.num
      · have : nb = ⟨a0.num, nb0.order, nb0.stereo⟩ := eq_of_m_eq (g.nbrNodup a ha) hnb hmir h4
        subst this
        have e2 : (((⟨a0.num, nb0.order, nb0.stereo⟩ : PNbr).m, a.num) == (a0.num, nb0.m)) = true := by simp [h3]
        simp only [beq_self_eq_true, ↓reduceIte, keepNb, List.contains_cons, e2, Bool.true_or, Bool.or_true]
        split <;> simp [hs, eraseNb]
      · have hb : (nb.m == a0.num) = false := by simp [h4]
        simp only [hb, Bool.false_eq_true, ↓reduceIte, keepNb, List.contains_cons]
        have e1 : ((a.num, nb.m) == (a0.num, nb0.m)) = false := by simp [h1]
        have e2 : ((nb.m, a.num) == (a0.num, nb0.m)) = false := by simp [h4]
        simp only [e1, e2, Bool.false_or]
    · have hb3 : (a.num == nb0.m) = false := by simp [h3]
      simp only [hb3, Bool.false_eq_true, ↓reduceIte]
      congr 1
      apply List.map_congr_left
      intro nb _
      simp only [keepNb, List.contains_cons]
      have e1 : ((a.num, nb.m) == (a0.num, nb0.m)) = false := by simp [h1]
      have e2 : ((nb.m, a.num) == (a0.num, nb0.m)) = false := by simp [h3]
      simp [e1, e2]


theorem setBondStereo_comm (atoms : List PAtom) (p q : Nat) (s : Bool) (hpq : p ≠ q) :
    setBondStereo atoms q p s = setBondStereo atoms p q s := by
  simp only [setBondStereo]
  apply List.map_congr_left
  intro a _
  by_cases h1 : a.num = p
  · have h2 : (a.num == q) = false := by simp [h1, hpq]
    simp [h1, hpq]
  · have hb : (a.num == p) = false := by simp [h1]
    simp only [hb, Bool.false_eq_true, ↓reduceIte]

theorem firstSeen_mem' : ∀ (seen : List Nat) (atoms : List PAtom) (p : Nat × PNbr), p ∈ firstSeen seen atoms →
    ∃ a ∈ atoms, p.1 = a.num ∧ p.2 ∈ a.nbrs
  | _, [], p, hp => by simp [firstSeen] at hp
  | seen, a :: rest, p, hp => by
    simp only [firstSeen, List.mem_append, List.mem_map, List.mem_filter] at hp
    rcases hp with ⟨nb, ⟨hnb, _⟩, rfl⟩ | hp
    · exact ⟨a, by simp, rfl, hnb⟩
    · obtain ⟨b, hb, h1, h2⟩ := firstSeen_mem' (a.num :: seen) rest p hp
      exact ⟨b, by simp [hb], h1, h2⟩

/-- the bonds that carry a cis/trans mark, accumulated in processing order -/
def pairsAcc (fs : List (Nat × PNbr)) (S : List (Nat × Nat)) : List (Nat × Nat) :=
  fs.foldl (fun S p => if p.2.stereo.isSome then (p.1, p.2.m) :: S else S) S

theorem mem_pairsAcc : ∀ (fs : List (Nat × PNbr)) (S : List (Nat × Nat)) (x : Nat × Nat),
    x ∈ pairsAcc fs S ↔ x ∈ S ∨ ∃ p ∈ fs, p.2.stereo.isSome ∧ (p.1, p.2.m) = x
  | [], S, x => by simp [pairsAcc]
  | p :: fs, S, x => by
    have ih := mem_pairsAcc fs (if p.2.stereo.isSome then (p.1, p.2.m) :: S else S) x
    simp only [pairsAcc, List.foldl_cons] at ih ⊢
    rw [ih]
    by_cases hs : p.2.stereo.isSome
    · simp only [hs, ↓reduceIte, List.mem_cons, exists_eq_or_imp, true_and]
      constructor
      · rintro ((h | h) | h)
        · exact Or.inr (Or.inl h.symm)
        · exact Or.inl h
        · exact Or.inr (Or.inr h)
      · rintro (h | h | h)
        · exact Or.inl (Or.inr h)
        · exact Or.inl (Or.inl h.symm)
        · exact Or.inr h
    · simp only [hs, Bool.false_eq_true, ↓reduceIte, List.mem_cons, exists_eq_or_imp, false_and, false_or]

/-- what `MoleculeContainer.unpack` needs from `_stereo_cis_trans_centers`: the first terminal of every marked bond
    leads back to that bond (in either direction) -/
def CentersOK (m : PMol) (centers : List (Nat × Nat × Nat)) : Prop :=
  ∀ p ∈ firstSeen [] m.atoms, ∀ s, p.2.stereo = some s →
    ∃ tn tm, m.terminals.lookup p.1 = some (tn, tm) ∧
      (centers.lookup tn = some (p.1, p.2.m) ∨ centers.lookup tn = some (p.2.m, p.1))

theorem attach_keep (m : PMol) (h : WF m) (centers : List (Nat × Nat × Nat)) (hc : CentersOK m centers) :
    ∀ (fs : List (Nat × PNbr)), (∀ p ∈ fs, p ∈ firstSeen [] m.atoms) → ∀ S : List (Nat × Nat),
      attach centers (keepSt S m.atoms) (ctListOf m.terminals fs) = keepSt (pairsAcc fs S) m.atoms
  | [], _, S => by simp [ctListOf, attach, pairsAcc]
  | p :: fs, hsub, S => by
    have hp := hsub p (by simp)
    obtain ⟨a, ha, hpa, hnb⟩ := firstSeen_mem' [] m.atoms p hp
    cases hs : p.2.stereo with
    | none =>
      have ih := attach_keep m h centers hc fs (fun q hq => hsub q (by simp [hq])) S
      obtain ⟨n, nb⟩ := p
      simp only at hs
      simp only [ctListOf, hs, pairsAcc, List.foldl_cons, Option.isSome_none, Bool.false_eq_true, ↓reduceIte] at ih ⊢
      exact ih
    | some s =>
      obtain ⟨tn, tm, hl, hcen⟩ := hc p hp s hs
      have ih := attach_keep m h centers hc fs (fun q hq => hsub q (by simp [hq])) ((p.1, p.2.m) :: S)
      have hstep := setBondStereo_keep h.graph S ha hnb hs
      have hne : p.2.m ≠ a.num := h.graph.noLoop a ha p.2 hnb
      obtain ⟨n, nb⟩ := p
      simp only at hs hl hcen hpa hstep hne ih
      subst hpa
      simp only [ctListOf, hs, hl, pairsAcc, List.foldl_cons, Option.isSome_some, ↓reduceIte, attach]
      rcases hcen with hcen | hcen
      · simp only [hcen]
        rw [hstep]; exact ih
      · simp only [hcen]
        rw [setBondStereo_comm _ _ _ _ (Ne.symm hne), hstep]; exact ih


/-- keeping the stereo of every marked bond keeps everything -/
theorem keepSt_all (m : PMol) (h : WF m) : keepSt (pairsAcc (firstSeen [] m.atoms) []) m.atoms = m.atoms := by
  simp only [keepSt]
  conv => rhs; rw [← List.map_id m.atoms]
  apply List.map_congr_left
  intro a ha
  show ({ a with nbrs := a.nbrs.map (keepNb _ a.num) } : PAtom) = a
  have : a.nbrs.map (keepNb (pairsAcc (firstSeen [] m.atoms) []) a.num) = a.nbrs := by
    conv => rhs; rw [← List.map_id a.nbrs]
    apply List.map_congr_left
    intro nb hnb
    simp only [keepNb, id]
    cases hs : nb.stereo with
    | none => split <;> (cases nb; simp_all [eraseNb])
    | some s =>
      have hcomp := firstSeen_complete h.graph m.atoms [] [] rfl (by simp) a ha nb hnb (by simp)
      have hcond : ((pairsAcc (firstSeen [] m.atoms) []).contains (a.num, nb.m) ||
          (pairsAcc (firstSeen [] m.atoms) []).contains (nb.m, a.num)) = true := by
        simp only [Bool.or_eq_true, List.contains_iff_mem, mem_pairsAcc, List.not_mem_nil, false_or]
        rcases hcomp with hf | hb
        · exact Or.inl ⟨(a.num, nb), hf, by simp [hs], rfl⟩
        · exact Or.inr ⟨(nb.m, ⟨a.num, nb.order, nb.stereo⟩), hb, by simp [hs], rfl⟩
      rw [hcond]; rfl
  rw [this]

/-- **stereo labels survive**: re-attaching the decoded cis/trans list to the decoded molecule (bond stereo erased) with a
    `_stereo_cis_trans_centers` dictionary that leads every first terminal back to its bond gives the original molecule. -/
theorem attach_roundtrip_aux (m : PMol) (h : WF m) (centers : List (Nat × Nat × Nat)) (hc : CentersOK m centers) :
    attach centers (m.atoms.map eraseSt) (ctListOf m.terminals (firstSeen [] m.atoms)) = m.atoms := by
  rw [← keepSt_nil, attach_keep m h centers hc _ (fun _ hp => hp) [], keepSt_all m h]

end ChythonModel.Proofs.C10

namespace ChythonModel.Proofs.C10
open ChythonModel.Model.Pack

theorem centersOKb_sound (m : PMol) (centers : List (Nat × Nat × Nat)) (h : centersOKb m centers = true) :
    CentersOK m centers := by
  intro p hp s hs
  simp only [centersOKb, List.all_eq_true] at h
  have := h p hp
  simp only [hs, Option.isSome_some, Bool.not_true, Bool.false_or] at this
  cases hl : m.terminals.lookup p.1 with
  | none => simp [hl] at this
  | some v =>
    obtain ⟨tn, tm⟩ := v
    simp only [hl, Bool.or_eq_true, beq_iff_eq] at this
    exact ⟨tn, tm, rfl, this⟩

end ChythonModel.Proofs.C10
