import ChythonModel.Proofs.C01Generic
import ChythonModel.Model.ChiralMorgan
/-!
Exact naturality of the whole refinement — including the stereo-aware `_chiral_morgan` with its R/S-pair branch — under a
pure renaming of the atoms (all insertion orders kept): every function of `Model/Morgan.lean` and `Model/ChiralMorgan.lean`
commutes with `π` *on the nose* (equal lists, not only equal up to order).
-/
namespace ChythonModel.Proofs.C01
open ChythonModel.Model ChythonModel.Model.Morgan ChythonModel.Model.Stereo ChythonModel.Model.ChiralMorgan
open ChythonModel.Spec.Renumbering
open List

/-- adjacency with every atom renamed, orders kept -/
def renAdj {β : Type} (π : Nat → Nat) (b : List (Nat × List (Nat × β))) : List (Nat × List (Nat × β)) :=
  b.map fun row => (π row.1, mapKeys π row.2)

/-- molecule with every atom renamed, all insertion orders kept -/
def renMol (π : Nat → Nat) (m : MolView) : MolView := ⟨mapKeys π m.atoms, renAdj π m.bonds⟩

/-! ## Morgan chain -/

theorem nbrPairs_rename {π : Nat → Nat} (hπ : Function.Injective π) (w : Weights) (ms : List (Nat × Int)) :
    nbrPairs (mapKeys π w) (mapKeys π ms) = nbrPairs w ms := by
  unfold nbrPairs
  induction ms with
  | nil => rfl
  | cons mb ms ih =>
    simp only [mapKeys, map_cons] at ih ⊢
    rw [optMapM_cons, optMapM_cons, ih]
    have := lookup_mapKeys hπ w mb.1
    simp only [mapKeys] at this
    rw [this]

theorem newWeight_rename (h : TupleHash) {π : Nat → Nat} (hπ : Function.Injective π) (w : Weights) (n : Nat)
    (ms : List (Nat × Int)) : newWeight h (mapKeys π w) (π n) (mapKeys π ms) = newWeight h w n ms := by
  unfold newWeight
  rw [lookup_mapKeys hπ, nbrPairs_rename hπ]

theorem step_rename (h : TupleHash) {π : Nat → Nat} (hπ : Function.Injective π) (w : Weights) (b : IntAdj) :
    step h (mapKeys π w) (renAdj π b) = (step h w b).map (mapKeys π) := by
  unfold step
  induction b with
  | nil => rfl
  | cons row tl ih =>
    simp only [renAdj, map_cons] at ih ⊢
    rw [optMapM_cons, optMapM_cons, ih, newWeight_rename h hπ]
    cases newWeight h w row.1 row.2 <;>
      cases optMapM (fun row => Option.map (fun x => (row.1, x)) (newWeight h w row.1 row.2)) tl <;> rfl

theorem values_rename (π : Nat → Nat) (w : Weights) : values (mapKeys π w) = values w := by
  simp [values, mapKeys]

theorem length_mapKeys {β : Type} (π : Nat → Nat) (d : List (Nat × β)) : (mapKeys π d).length = d.length := by
  simp [mapKeys]

theorem loop_rename (h : TupleHash) {π : Nat → Nat} (hπ : Function.Injective π) (b : IntAdj) (k : Nat) :
    ∀ (w : Weights) (numb stab : Nat),
      loop h (renAdj π b) k (mapKeys π w) numb stab = (loop h b k w numb stab).map (mapKeys π) := by
  induction k with
  | zero => intro w _ _; rfl
  | succ k ih =>
    intro w numb stab
    simp only [loop, step_rename h hπ]
    cases hs : step h w b with
    | none => rfl
    | some w' =>
      simp only [Option.map_some, values_rename, length_mapKeys]
      split
      · rfl
      · split
        · split
          · rfl
          · exact ih _ _ _
        · split
          · exact ih _ _ _
          · exact ih _ _ _

theorem insertBy_map {α β : Type} (f : α → β) (le : α → α → Bool) (le' : β → β → Bool)
    (hle : ∀ a b, le' (f a) (f b) = le a b) (a : α) (l : List α) :
    insertBy le' (f a) (l.map f) = (insertBy le a l).map f := by
  induction l with
  | nil => rfl
  | cons b tl ih =>
    simp only [map_cons, insertBy, hle]
    split
    · rfl
    · simp [ih]

theorem sortBy_map {α β : Type} (f : α → β) (le : α → α → Bool) (le' : β → β → Bool)
    (hle : ∀ a b, le' (f a) (f b) = le a b) (l : List α) : sortBy le' (l.map f) = (sortBy le l).map f := by
  induction l with
  | nil => rfl
  | cons a tl ih =>
    show insertBy le' (f a) (sortBy le' (tl.map f)) = (insertBy le a (sortBy le tl)).map f
    rw [ih, insertBy_map f le le' hle]

theorem sortBy_byValue_rename (π : Nat → Nat) (w : Weights) :
    sortBy byValue (mapKeys π w) = mapKeys π (sortBy byValue w) :=
  sortBy_map (fun kv : Nat × Int => (π kv.1, kv.2)) byValue byValue (fun _ _ => rfl) w

theorem assignRanks_rename (π : Nat → Nat) (l : List (Nat × Int)) :
    ∀ (p : Option Int) (i : Nat), assignRanks (mapKeys π l) p i = mapKeys π (assignRanks l p i) := by
  induction l with
  | nil => intro p i; cases p <;> rfl
  | cons nv tl ih =>
    intro p i
    obtain ⟨n, v⟩ := nv
    cases p with
    | none => simp only [mapKeys, map_cons, assignRanks] at ih ⊢; rw [ih]
    | some q =>
      simp only [mapKeys, map_cons, assignRanks] at ih ⊢
      split <;> simp [ih]

theorem ranks_rename (π : Nat → Nat) (w : Weights) : ranks (mapKeys π w) = mapKeys π (ranks w) := by
  unfold ranks
  rw [sortBy_byValue_rename, assignRanks_rename]

theorem morgan_rename (h : TupleHash) {π : Nat → Nat} (hπ : Function.Injective π) (w : Weights) (b : IntAdj) :
    morgan h (mapKeys π w) (renAdj π b) = (morgan h w b).map (mapKeys π) := by
  unfold morgan
  rw [length_mapKeys, values_rename, loop_rename h hπ]
  cases loop h b (w.length - Gen.C01.morganTriesOffset) w (numDistinct (values w)) 0 with
  | none => rfl
  | some wf => simp [ranks_rename]

theorem initWeights_rename (h : TupleHash) (π : Nat → Nat) (a : List (Nat × HAtom)) :
    initWeights h (mapKeys π a) = (initWeights h a).map (mapKeys π) := by
  unfold initWeights
  induction a with
  | nil => rfl
  | cons na tl ih =>
    simp only [mapKeys, map_cons] at ih ⊢
    rw [optMapM_cons, optMapM_cons, ih]
    cases atomHash h na.2 <;>
      cases optMapM (fun na => Option.map (fun x => (na.1, x)) (atomHash h na.2)) tl <;> rfl

theorem intAdjacency_rename (π : Nat → Nat) (b : List (Nat × List (Nat × Bond))) :
    intAdjacency (renAdj π b) = renAdj π (intAdjacency b) := by
  simp [intAdjacency, renAdj, mapKeys, map_map, Function.comp_def]

theorem atomsOrder_rename (h : TupleHash) {π : Nat → Nat} (hπ : Function.Injective π) (m : MolView) :
    atomsOrder h (renMol π m) = (atomsOrder h m).map (mapKeys π) := by
  unfold atomsOrder renMol
  match hm : m.atoms with
  | [] => simp [mapKeys]
  | [(n, a)] => simp [mapKeys]
  | x :: y :: tl =>
    simp only [mapKeys, map_cons]
    have hi := initWeights_rename h π (x :: y :: tl)
    simp only [mapKeys, map_cons] at hi
    rw [hi, intAdjacency_rename]
    cases initWeights h (x :: y :: tl) with
    | none => rfl
    | some w => simp only [Option.map_some]; exact morgan_rename h hπ w _

/-! ## generic: monadic list helpers under `map` -/

theorem lookup_map_key {β γ : Type} {π : Nat → Nat} (hπ : Function.Injective π) (g : β → γ) (d : List (Nat × β)) (n : Nat) :
    (d.map fun kv => (π kv.1, g kv.2)).lookup (π n) = (d.lookup n).map g := by
  induction d with
  | nil => rfl
  | cons kv d ih =>
    obtain ⟨k, v⟩ := kv
    simp only [map_cons, lookup_cons]
    by_cases hk : n = k
    · subst hk; simp
    · have h1 : (π n == π k) = false := by simp; exact fun h => hk (hπ h)
      have h2 : (n == k) = false := by simp [hk]
      simp only [h1, h2]; exact ih

theorem getKey_map_key {β γ : Type} {π : Nat → Nat} (hπ : Function.Injective π) (g : β → γ) (d : List (Nat × β)) (n : Nat) :
    getKey (d.map fun kv => (π kv.1, g kv.2)) (π n) = (getKey d n).map g := by
  unfold getKey
  rw [lookup_map_key hπ]
  cases d.lookup n <;> rfl

theorem exFilterM_map {α β : Type} (f : α → β) (p : α → Except PyErr Bool) (p' : β → Except PyErr Bool)
    (hp : ∀ a, p' (f a) = p a) (l : List α) : exFilterM p' (l.map f) = (exFilterM p l).map (List.map f) := by
  induction l with
  | nil => rfl
  | cons a tl ih =>
    simp only [map_cons, exFilterM, bind, Except.bind, hp, ih]
    cases p a with
    | error e => rfl
    | ok b =>
      cases exFilterM p tl with
      | error e => rfl
      | ok r => cases b <;> rfl

theorem exMapM_map {α β γ δ : Type} (f : α → β) (g : γ → δ) (q : α → Except PyErr γ) (q' : β → Except PyErr δ)
    (hq : ∀ a, q' (f a) = (q a).map g) (l : List α) : exMapM q' (l.map f) = (exMapM q l).map (List.map g) := by
  induction l with
  | nil => rfl
  | cons a tl ih =>
    simp only [map_cons, exMapM, bind, Except.bind, hq, ih]
    cases q a with
    | error e => rfl
    | ok b =>
      cases exMapM q tl with
      | error e => rfl
      | ok r => rfl

theorem exMapM_map_same {α β γ : Type} (f : α → β) (q : α → Except PyErr γ) (q' : β → Except PyErr γ)
    (hq : ∀ a, q' (f a) = q a) (l : List α) : exMapM q' (l.map f) = exMapM q l := by
  induction l with
  | nil => rfl
  | cons a tl ih => simp only [map_cons, exMapM, bind, Except.bind, hq, ih]

theorem exAllM_map {α β : Type} (f : α → β) (p : α → Except PyErr Bool) (p' : β → Except PyErr Bool)
    (hp : ∀ a, p' (f a) = p a) (l : List α) : exAllM p' (l.map f) = exAllM p l := by
  induction l with
  | nil => rfl
  | cons a tl ih =>
    simp only [map_cons, exAllM, bind, Except.bind, hp]
    cases p a with
    | error e => rfl
    | ok b => cases b <;> simp [ih]

theorem filter_contains_map {π : Nat → Nat} (hπ : Function.Injective π) (l t : List Nat) :
    (l.map π).filter (t.map π).contains = (l.filter t.contains).map π := by
  induction l with
  | nil => rfl
  | cons a tl ih =>
    have : (t.map π).contains (π a) = t.contains a := by
      rw [Bool.eq_iff_iff]
      simp only [contains_iff_mem, mem_map]
      constructor
      · rintro ⟨b, hb, hab⟩; exact hπ hab ▸ hb
      · intro ha; exact ⟨a, ha, rfl⟩
    simp only [map_cons, filter_cons, this]
    split <;> simp [ih]

theorem filter_not_contains_map {π : Nat → Nat} (hπ : Function.Injective π) (l t : List Nat) :
    (l.map π).filter (fun n => !(t.map π).contains n) = (l.filter fun n => !t.contains n).map π := by
  induction l with
  | nil => rfl
  | cons a tl ih =>
    have : (t.map π).contains (π a) = t.contains a := by
      rw [Bool.eq_iff_iff]
      simp only [contains_iff_mem, mem_map]
      constructor
      · rintro ⟨b, hb, hab⟩; exact hπ hab ▸ hb
      · intro ha; exact ⟨a, ha, rfl⟩
    simp only [map_cons, filter_cons, this, ih]
    cases t.contains a <;> rfl

theorem all_order_mapKeys (π : Nat → Nat) (env : List (Nat × Bond)) (p : Bond → Bool) :
    ((mapKeys π env).all fun mb => p mb.2) = env.all fun mb => p mb.2 := by
  induction env with
  | nil => rfl
  | cons a tl ih => simp only [mapKeys, map_cons, all_cons] at ih ⊢; rw [ih]

/-! ## chiral chain -/

def renTetra (π : Nat → Nat) (t : List (Nat × List Nat)) : List (Nat × List Nat) :=
  t.map fun kv => (π kv.1, kv.2.map π)

def renState (π : Nat → Nat) (st : PassState) : PassState :=
  ⟨mapKeys π st.update, st.discard.map π, st.groups.map (List.map π)⟩

theorem getKey_atoms_rename {π : Nat → Nat} (hπ : Function.Injective π) (m : MolView) (n : Nat) :
    getKey (renMol π m).atoms (π n) = getKey m.atoms n := by
  have := getKey_map_key hπ (fun a : HAtom => a) m.atoms n
  simp only [renMol, mapKeys]
  rw [this]
  cases getKey m.atoms n <;> rfl

theorem nbrsOf_rename {π : Nat → Nat} (hπ : Function.Injective π) (m : MolView) (n : Nat) :
    nbrsOf (renMol π m) (π n) = (nbrsOf m n).map (mapKeys π) := by
  unfold nbrsOf renMol renAdj
  exact getKey_map_key hπ (mapKeys π) m.bonds n

theorem isTetra_rename {π : Nat → Nat} (hπ : Function.Injective π) (m : MolView) (na : Nat × HAtom) :
    isTetra (renMol π m) (π na.1, na.2) = isTetra m na := by
  unfold isTetra
  simp only [nbrsOf_rename hπ]
  split
  · cases nbrsOf m na.1 with
    | error e => rfl
    | ok env =>
      simp only [Except.map, all_order_mapKeys π env (fun b => b.order == 1)]
      have : (mapKeys π env).map (fun mb => mb.2.order) = env.map (fun mb => mb.2.order) := by
        simp [mapKeys, map_map, Function.comp_def]
      rw [this]
  · rfl

theorem tetrahedrons_rename {π : Nat → Nat} (hπ : Function.Injective π) (m : MolView) :
    tetrahedrons (renMol π m) = (tetrahedrons m).map (List.map π) := by
  unfold tetrahedrons
  have h1 : (renMol π m).atoms = m.atoms.map fun na => (π na.1, na.2) := rfl
  rw [h1, exFilterM_map (fun na : Nat × HAtom => (π na.1, na.2)) (isTetra m) (isTetra (renMol π m))
    (fun na => isTetra_rename hπ m na)]
  cases exFilterM (isTetra m) m.atoms with
  | error e => rfl
  | ok l => simp [Except.map, map_map, Function.comp_def]

theorem nbrSingle_rename (single : Nat → Bool) {π : Nat → Nat} (hπ : Function.Injective π) (m : MolView)
    (mb : Nat × Bond) : nbrSingle single (renMol π m) (π mb.1, mb.2) = nbrSingle single m mb := by
  unfold nbrSingle
  rw [getKey_atoms_rename hπ]

theorem nbrHeavy_rename {π : Nat → Nat} (hπ : Function.Injective π) (m : MolView)
    (mb : Nat × Bond) : nbrHeavy (renMol π m) (π mb.1, mb.2) = nbrHeavy m mb := by
  unfold nbrHeavy
  rw [getKey_atoms_rename hπ]

theorem stereogenicOne_rename (single : Nat → Bool) {π : Nat → Nat} (hπ : Function.Injective π) (m : MolView) (n : Nat) :
    stereogenicOne single (renMol π m) (π n) =
      (stereogenicOne single m n).map (Option.map fun kv => (π kv.1, kv.2.map π)) := by
  unfold stereogenicOne
  rw [nbrsOf_rename hπ]
  cases nbrsOf m n with
  | error e => rfl
  | ok nb =>
    simp only [Except.map]
    have hA := exAllM_map (fun mb : Nat × Bond => (π mb.1, mb.2)) (nbrSingle single m) (nbrSingle single (renMol π m))
      (fun mb => nbrSingle_rename single hπ m mb) nb
    have hF := exFilterM_map (fun mb : Nat × Bond => (π mb.1, mb.2)) (nbrHeavy m) (nbrHeavy (renMol π m))
      (fun mb => nbrHeavy_rename hπ m mb) nb
    simp only [mapKeys]
    rw [hA, hF]
    cases exAllM (nbrSingle single m) nb with
    | error e => rfl
    | ok okAll =>
      simp only
      split
      · rfl
      · cases exFilterM (nbrHeavy m) nb with
        | error e => rfl
        | ok env =>
          simp only [Except.map, map_map, Function.comp_def, length_map]
          split <;> simp [map_map, Function.comp_def]

theorem stereogenicFrom_rename (single : Nat → Bool) {π : Nat → Nat} (hπ : Function.Injective π) (m : MolView)
    (l : List Nat) :
    stereogenicFrom single (renMol π m) (l.map π) = (stereogenicFrom single m l).map (renTetra π) := by
  induction l with
  | nil => rfl
  | cons n tl ih =>
    simp only [map_cons, stereogenicFrom, stereogenicOne_rename single hπ, ih]
    cases stereogenicOne single m n with
    | error e => rfl
    | ok x =>
      cases stereogenicFrom single m tl with
      | error e => rfl
      | ok r => cases x <;> rfl

theorem stereogenicTetrahedrons_rename (single : Nat → Bool) {π : Nat → Nat} (hπ : Function.Injective π) (m : MolView) :
    stereogenicTetrahedrons single (renMol π m) = (stereogenicTetrahedrons single m).map (renTetra π) := by
  unfold stereogenicTetrahedrons
  rw [tetrahedrons_rename hπ]
  cases tetrahedrons m with
  | error e => rfl
  | ok t => simp only [Except.map]; exact stereogenicFrom_rename single hπ m t

/-! ## weights, environments, signs -/

theorem mget_rename {π : Nat → Nat} (hπ : Function.Injective π) (w : Weights) (x : Nat) :
    mget (mapKeys π w) (π x) = mget w x := by
  unfold mget getKey
  rw [lookup_mapKeys hπ]

theorem keyOf_rename {π : Nat → Nat} (hπ : Function.Injective π) (w : Weights) (x : Nat) :
    keyOf (mapKeys π w) (π x) = (keyOf w x).map fun kv => (π kv.1, kv.2) := by
  unfold keyOf
  rw [mget_rename hπ]
  cases mget w x <;> rfl

theorem negOf_rename {π : Nat → Nat} (hπ : Function.Injective π) (w : Weights) (x : Nat) :
    negOf (mapKeys π w) (π x) = (negOf w x).map fun kv => (π kv.1, kv.2) := by
  unfold negOf
  rw [mget_rename hπ]
  cases mget w x <;> rfl

theorem sortEnv_rename {π : Nat → Nat} (hπ : Function.Injective π) (w : Weights) (env : List Nat) :
    sortEnv (mapKeys π w) (env.map π) = (sortEnv w env).map (List.map π) := by
  unfold sortEnv
  rw [exMapM_map π (fun kv : Nat × Int => (π kv.1, kv.2)) (keyOf w) (keyOf (mapKeys π w)) (fun x => keyOf_rename hπ w x)]
  cases exMapM (keyOf w) env with
  | error e => rfl
  | ok keyed =>
    simp only [Except.map]
    have := sortBy_byValue_rename π keyed
    simp only [mapKeys] at this
    rw [this]
    simp [map_map, Function.comp_def]

theorem index?_rename {π : Nat → Nat} (hπ : Function.Injective π) (order : List Nat) (x : Nat) :
    index? (order.map π) (π x) = index? order x := by
  induction order with
  | nil => rfl
  | cons y ys ih =>
    simp only [map_cons, index?]
    by_cases hxy : y = x
    · subst hxy; simp
    · have : ¬ π y = π x := fun h => hxy (hπ h)
      simp [hxy, this, ih]

theorem tetraLookup_rename {π : Nat → Nat} (hπ : Function.Injective π) (order env : List Nat) :
    tetraLookup (order.map π) (env.map π) = tetraLookup order env := by
  unfold tetraLookup
  match env with
  | [] => rfl
  | [_] => rfl
  | [_, _] => rfl
  | x :: y :: z :: _ => simp only [map_cons, index?_rename hπ]

theorem tetraOrder_rename (π : Nat → Nat) (order env : List Nat) :
    tetraOrder (order.map π) (env.map π) (fun _ => false) = (tetraOrder order env (fun _ => false)).map (List.map π) := by
  unfold tetraOrder
  simp only [length_map]
  have hf : ∀ l : List Nat, l.find? (fun _ => false) = none := by
    intro l; induction l <;> simp_all [find?]
  rw [hf, hf]
  split
  · split
    · rfl
    · split <;> rfl
  · split <;> rfl

theorem translateTetra_rename {π : Nat → Nat} (hπ : Function.Injective π) (order env : List Nat)
    (stored s : Option Bool) :
    translateTetra (order.map π) (env.map π) (fun _ => false) stored s =
      translateTetra order env (fun _ => false) stored s := by
  unfold translateTetra
  simp only [bind, Except.bind, tetraOrder_rename]
  cases pickSign stored s with
  | error e => rfl
  | ok sg =>
    simp only
    cases tetraOrder order env (fun _ => false) with
    | error e => rfl
    | ok order' => simp only [Except.map, tetraLookup_rename hπ]

theorem getKey_tetra_rename {π : Nat → Nat} (hπ : Function.Injective π) (tetra : List (Nat × List Nat)) (n : Nat) :
    getKey (renTetra π tetra) (π n) = (getKey tetra n).map (List.map π) :=
  getKey_map_key hπ (List.map π) tetra n

theorem signOf_rename {π : Nat → Nat} (hπ : Function.Injective π) (tetra : List (Nat × List Nat))
    (labels : List (Nat × Bool)) (w : Weights) (n : Nat) :
    signOf (renTetra π tetra) (mapKeys π labels) (mapKeys π w) (π n) = signOf tetra labels w n := by
  unfold signOf
  rw [getKey_tetra_rename hπ, lookup_mapKeys hπ]
  cases getKey tetra n with
  | error e => rfl
  | ok order =>
    simp only [Except.map, sortEnv_rename hπ]
    cases sortEnv w order with
    | error e => rfl
    | ok env => simp only [Except.map, translateTetra_rename hπ]

/-! ## one pass -/

theorem updatesOf_rename {π : Nat → Nat} (hπ : Function.Injective π) (w : Weights) (sl g : List Nat) :
    updatesOf (mapKeys π w) (sl.map π) (g.map π) = (updatesOf w sl g).map (mapKeys π) := by
  unfold updatesOf
  simp only [length_map]
  split
  · exact exMapM_map π (fun kv : Nat × Int => (π kv.1, kv.2)) (negOf w) (negOf (mapKeys π w))
      (fun x => negOf_rename hπ w x) sl
  · rfl

theorem renState_append (π : Nat → Nat) (st : PassState) (upd : List (Nat × Int)) (g : List Nat) :
    renState π { st with update := st.update ++ upd, discard := st.discard ++ g } =
      { renState π st with update := (renState π st).update ++ mapKeys π upd,
                           discard := (renState π st).discard ++ g.map π } := by
  simp [renState, mapKeys]

theorem processGroup_rename {π : Nat → Nat} (hπ : Function.Injective π) (tetra : List (Nat × List Nat))
    (labels : List (Nat × Bool)) (w : Weights) (st : PassState) (g : List Nat) :
    processGroup (renTetra π tetra) (mapKeys π labels) (mapKeys π w) (renState π st) (g.map π) =
      (processGroup tetra labels w st g).map (renState π) := by
  unfold processGroup
  simp only [length_map]
  split
  · rfl
  · match g with
    | [] => rfl
    | g0 :: gt =>
      simp only [map_cons]
      rw [getKey_tetra_rename hπ]
      cases getKey tetra g0 with
      | error e => rfl
      | ok env0 =>
        simp only [Except.map]
        rw [exMapM_map_same π (mget w) (mget (mapKeys π w)) (fun x => mget_rename hπ w x)]
        cases exMapM (mget w) env0 with
        | error e => rfl
        | ok vals =>
          simp only [length_map]
          split
          · have hF := exFilterM_map π (signOf tetra labels w)
              (signOf (renTetra π tetra) (mapKeys π labels) (mapKeys π w)) (fun n => signOf_rename hπ tetra labels w n) (g0 :: gt)
            simp only [map_cons] at hF
            rw [hF]
            cases exFilterM (signOf tetra labels w) (g0 :: gt) with
            | error e => rfl
            | ok sl =>
              simp only [Except.map]
              have hU := updatesOf_rename hπ w sl (g0 :: gt)
              simp only [map_cons] at hU
              rw [hU]
              cases updatesOf w sl (g0 :: gt) with
              | error e => rfl
              | ok upd =>
                simp only [Except.map]
                congr 1
                simp [renState, mapKeys]
          · simp only
            congr 1
            simp [renState, mapKeys]

theorem processGroups_rename {π : Nat → Nat} (hπ : Function.Injective π) (tetra : List (Nat × List Nat))
    (labels : List (Nat × Bool)) (w : Weights) :
    ∀ (gs : List (List Nat)) (st : PassState),
      processGroups (renTetra π tetra) (mapKeys π labels) (mapKeys π w) (renState π st) (gs.map (List.map π)) =
        (processGroups tetra labels w st gs).map (renState π) := by
  intro gs
  induction gs with
  | nil => intro st; rfl
  | cons g tl ih =>
    intro st
    simp only [map_cons, processGroups, processGroup_rename hπ]
    cases processGroup tetra labels w st g with
    | error e => rfl
    | ok st' => simp only [Except.map]; exact ih st'

theorem groupsOf_rename {π : Nat → Nat} (hπ : Function.Injective π) (w : Weights) (S : List Nat) :
    groupsOf (mapKeys π w) (S.map π) = (groupsOf w S).map (List.map (List.map π)) := by
  unfold groupsOf
  rw [exMapM_map π (fun kv : Nat × Int => (π kv.1, kv.2)) (keyOf w) (keyOf (mapKeys π w)) (fun x => keyOf_rename hπ w x)]
  cases exMapM (keyOf w) S with
  | error e => rfl
  | ok keyed =>
    simp only [Except.map, map_map, Function.comp_def]
    congr 1
    apply map_congr_left
    intro k _
    simp [filter_map, map_map, Function.comp_def]

theorem pass_rename {π : Nat → Nat} (hπ : Function.Injective π) (tetra : List (Nat × List Nat))
    (labels : List (Nat × Bool)) (w : Weights) (S : List Nat) :
    pass (renTetra π tetra) (mapKeys π labels) (mapKeys π w) (S.map π) =
      (pass tetra labels w S).map (renState π) := by
  unfold pass
  rw [groupsOf_rename hπ]
  cases groupsOf w S with
  | error e => rfl
  | ok gs =>
    simp only [Except.map]
    exact processGroups_rename hπ tetra labels w gs ⟨[], [], []⟩

/-! ## the loop and `_chiral_morgan` -/

theorem applyUpdate_rename {π : Nat → Nat} (hπ : Function.Injective π) (w : Weights) (upd : List (Nat × Int)) :
    applyUpdate (mapKeys π w) (mapKeys π upd) = mapKeys π (applyUpdate w upd) := by
  unfold applyUpdate
  simp only [mapKeys, map_map, Function.comp_def]
  apply map_congr_left
  intro nv _
  have := lookup_mapKeys hπ upd nv.1
  simp only [mapKeys] at this
  rw [this]
  cases lookup nv.1 upd <;> rfl

theorem toWeights_rename (π : Nat → Nat) (r : List (Nat × Nat)) : toWeights (mapKeys π r) = mapKeys π (toWeights r) := by
  simp [toWeights, mapKeys, map_map, Function.comp_def]

def renDiff (π : Nat → Nat) : DiffResult → DiffResult
  | .done morgan S groups => .done (mapKeys π morgan) (S.map π) (groups.map (List.map π))
  | .err e => .err e
  | .fuelOut => .fuelOut

theorem differentiation_rename (h : TupleHash) {π : Nat → Nat} (hπ : Function.Injective π) (bonds : IntAdj)
    (tetra : List (Nat × List Nat)) (labels : List (Nat × Bool)) :
    ∀ (fuel : Nat) (morgan : List (Nat × Nat)) (S : List Nat),
      differentiation h (renAdj π bonds) (renTetra π tetra) (mapKeys π labels) fuel (mapKeys π morgan) (S.map π) =
        renDiff π (differentiation h bonds tetra labels fuel morgan S) := by
  intro fuel
  induction fuel with
  | zero => intro _ _; rfl
  | succ fuel ih =>
    intro morgan S
    simp only [differentiation, toWeights_rename, pass_rename hπ]
    cases pass tetra labels (toWeights morgan) S with
    | error e => rfl
    | ok st =>
      simp only [Except.map, renState, filter_not_contains_map hπ]
      have hemp : (mapKeys π st.update).isEmpty = st.update.isEmpty := by cases st.update <;> rfl
      rw [hemp]
      split
      · rfl
      · rw [applyUpdate_rename hπ, morgan_rename h hπ]
        cases Morgan.morgan h (applyUpdate (toWeights morgan) st.update) bonds with
        | none => rfl
        | some morgan' => simp only [Option.map_some]; exact ih morgan' _

theorem stereoBondAtoms_rename (π : Nat → Nat) (b : List (Nat × List (Nat × Bond))) :
    stereoBondAtoms (renAdj π b) = (stereoBondAtoms b).map π := by
  unfold stereoBondAtoms renAdj
  induction b with
  | nil => rfl
  | cons row tl ih =>
    have : ((mapKeys π row.2).any fun mb => mb.2.stereo.isSome) = row.2.any fun mb => mb.2.stereo.isSome := by
      simp [mapKeys, any_map, Function.comp_def]
    simp only [map_cons, filter_cons, this]
    split <;> simp_all

def renOutcome (π : Nat → Nat) : Outcome → Outcome
  | .ranks r => .ranks (mapKeys π r)
  | .err e => .err e
  | .notModelled => .notModelled
  | .fuelOut => .fuelOut

/-- **naturality of `_chiral_morgan`** under a pure renaming (all insertion orders and label signs kept) -/
theorem chiralMorgan_rename (h : TupleHash) (single : Nat → Bool) {π : Nat → Nat} (hπ : Function.Injective π)
    (m : MolView) (labels : List (Nat × Bool)) :
    chiralMorgan h single (renMol π m) (mapKeys π labels) = renOutcome π (chiralMorgan h single m labels) := by
  unfold chiralMorgan
  have hle : (mapKeys π labels).isEmpty = labels.isEmpty := by cases labels <;> rfl
  have hb : (stereoBondAtoms (renMol π m).bonds).isEmpty = (stereoBondAtoms m.bonds).isEmpty := by
    show (stereoBondAtoms (renAdj π m.bonds)).isEmpty = _
    rw [stereoBondAtoms_rename]; cases stereoBondAtoms m.bonds <;> rfl
  rw [hle, hb, atomsOrder_rename h hπ]
  split
  · cases atomsOrder h m <;> rfl
  · split
    · rfl
    · cases atomsOrder h m with
      | none => rfl
      | some r0 =>
        simp only [Option.map_some]
        rw [tetrahedrons_rename hπ]
        cases tetrahedrons m with
        | error e => rfl
        | ok tet =>
          simp only [Except.map]
          have hk : (mapKeys π labels).map (·.1) = (labels.map (·.1)).map π := by
            simp [mapKeys, map_map, Function.comp_def]
          rw [hk, filter_contains_map hπ]
          simp only [length_map, length_mapKeys]
          split
          · rfl
          · rw [stereogenicTetrahedrons_rename single hπ]
            cases stereogenicTetrahedrons single m with
            | error e => rfl
            | ok tetra =>
              simp only [Except.map]
              have hd := differentiation_rename h hπ (intAdjacency m.bonds) tetra labels
                (((labels.map (·.1)).filter tet.contains).length + 1) r0 ((labels.map (·.1)).filter tet.contains)
              have hia : intAdjacency (renMol π m).bonds = renAdj π (intAdjacency m.bonds) := intAdjacency_rename π m.bonds
              rw [hia, hd]
              cases differentiation h (intAdjacency m.bonds) tetra labels
                  (((labels.map (·.1)).filter tet.contains).length + 1) r0 ((labels.map (·.1)).filter tet.contains) with
              | err e => rfl
              | fuelOut => rfl
              | done morgan S groups =>
                simp only [renDiff]
                have : (groups.map (List.map π)).isEmpty = groups.isEmpty := by cases groups <;> rfl
                rw [this]
                split <;> rfl

end ChythonModel.Proofs.C01
