import ChythonModel.Proofs.C19Scan
/-!
# C19 — the set model reads a key only through its hash and through equality

For an injective renaming `φ` of the keys that preserves `hashBits`, running the renamed history gives the renamed
tables and observations: same slots, same pop order, same iteration order (up to `φ`).  This is the precise form of
"CPython's set order is a function of the element hashes and the operation history".
-/
namespace ChythonModel.Py.IntSet

structure HashIso (φ : Int → Int) : Prop where
  inj : ∀ a b, φ a = φ b → a = b
  hash : ∀ k, hashBits (φ k) = hashBits k

def mapSlot (φ : Int → Int) : Slot → Slot
  | .empty => .empty
  | .dummy => .dummy
  | .active k => .active (φ k)

def mapT (φ : Int → Int) (t : Array Slot) : Array Slot := t.map (mapSlot φ)
def mapS (φ : Int → Int) (s : IntSet) : IntSet := { s with table := mapT φ s.table }

def SetOp.rename (φ : Int → Int) : SetOp → SetOp
  | .add k => .add (φ k)
  | .discard k => .discard (φ k)
  | .pop => .pop
  | .clear => .clear
  | .updateIter ks => .updateIter (ks.map φ)
  | .updateDict ks => .updateDict (ks.map φ)
  | .differenceUpdate ks => .differenceUpdate (ks.map φ)

def Obs.rename (φ : Int → Int) : Obs → Obs
  | .none => .none
  | .popped k => .popped (φ k)
  | .keyError => .keyError

variable {φ : Int → Int}

theorem get_mapT (t : Array Slot) (i : Nat) : (mapT φ t)[i]? = t[i]?.map (mapSlot φ) := by
  simp [mapT]

theorem size_mapT (t : Array Slot) : (mapT φ t).size = t.size := by simp [mapT]

theorem mapT_set! (t : Array Slot) (i : Nat) (v : Slot) : mapT φ (t.set! i v) = (mapT φ t).set! i (mapSlot φ v) := by
  simp [mapT, Array.map_setIfInBounds]

@[simp] theorem mapT_setIfInBounds (t : Array Slot) (i : Nat) (v : Slot) :
    mapT φ (t.setIfInBounds i v) = (mapT φ t).setIfInBounds i (mapSlot φ v) := by
  simp [mapT, Array.map_setIfInBounds]

theorem mapT_emptyTable (n : Nat) : mapT φ (emptyTable n) = emptyTable n := by
  simp [mapT, emptyTable, mapSlot]

theorem start_rename (h : HashIso φ) (mask : Nat) (k : Int) : PS.start mask (φ k) = PS.start mask k := by
  unfold PS.start; rw [h.hash]

theorem look_rename (h : HashIso φ) (t : Array Slot) (mask : Nat) (k : Int) :
    ∀ (f : Nat) (s : PS), look (mapT φ t) mask (φ k) f s = look t mask k f s := by
  intro f
  induction f with
  | zero => intro s; simp [look]
  | succ f ih =>
    intro s
    have hg := get_mapT (φ := φ) t s.idx
    rcases slot_cases k t[s.idx]? with he | he | he | ⟨k', hk, he⟩ | he
    · rw [he] at hg; rw [look_none _ _ _ _ _ he, look_none _ _ _ _ _ hg]
    · rw [he] at hg; rw [look_empty _ _ _ _ _ he, look_empty _ _ _ _ _ hg]
    · rw [he] at hg; rw [look_hit _ _ _ _ _ he, look_hit _ _ _ _ _ hg]
    · rw [he] at hg
      rw [look_miss _ _ _ _ _ he hk, look_miss _ _ _ _ _ hg (fun e => hk (h.inj _ _ e))]
      exact ih _
    · rw [he] at hg; rw [look_dummy _ _ _ _ _ he, look_dummy _ _ _ _ _ hg]; exact ih _

theorem addScan_rename (h : HashIso φ) (t : Array Slot) (mask : Nat) (k : Int) :
    ∀ (f : Nat) (s : PS) (fr : Option Nat), addScan (mapT φ t) mask (φ k) f s fr = addScan t mask k f s fr := by
  intro f
  induction f with
  | zero => intro s fr; simp [addScan]
  | succ f ih =>
    intro s fr
    have hg := get_mapT (φ := φ) t s.idx
    rcases slot_cases k t[s.idx]? with he | he | he | ⟨k', hk, he⟩ | he
    · rw [he] at hg; rw [addScan_none _ _ _ _ _ _ he, addScan_none _ _ _ _ _ _ hg]
    · rw [he] at hg; rw [addScan_empty _ _ _ _ _ _ he, addScan_empty _ _ _ _ _ _ hg]
    · rw [he] at hg; rw [addScan_hit _ _ _ _ _ _ he, addScan_hit _ _ _ _ _ _ hg]
    · rw [he] at hg
      rw [addScan_miss _ _ _ _ _ _ he hk, addScan_miss _ _ _ _ _ _ hg (fun e => hk (h.inj _ _ e))]
      exact ih _ _
    · rw [he] at hg; rw [addScan_dummy _ _ _ _ _ _ he, addScan_dummy _ _ _ _ _ _ hg]; exact ih _ _

theorem lookEmpty_rename (t : Array Slot) (mask : Nat) :
    ∀ (f : Nat) (s : PS), lookEmpty (mapT φ t) mask f s = lookEmpty t mask f s := by
  intro f
  induction f with
  | zero => intro s; simp [lookEmpty]
  | succ f ih =>
    intro s
    have hg := get_mapT (φ := φ) t s.idx
    rcases slot_cases 0 t[s.idx]? with he | he | he | ⟨k', hk, he⟩ | he
    · rw [he] at hg; rw [lookEmpty_none _ _ _ _ he, lookEmpty_none _ _ _ _ hg]
    · rw [he] at hg; rw [lookEmpty_empty _ _ _ _ he, lookEmpty_empty _ _ _ _ hg]
    · rw [he] at hg; rw [lookEmpty_active _ _ _ _ he, lookEmpty_active _ _ _ _ hg]; exact ih _
    · rw [he] at hg; rw [lookEmpty_active _ _ _ _ he, lookEmpty_active _ _ _ _ hg]; exact ih _
    · rw [he] at hg; rw [lookEmpty_dummy _ _ _ _ he, lookEmpty_dummy _ _ _ _ hg]; exact ih _

theorem activeKeys_rename (t : Array Slot) : activeKeys (mapT φ t) = (activeKeys t).map φ := by
  unfold activeKeys mapT
  rw [Array.toList_map, List.filterMap_map, List.map_filterMap]
  congr 1
  funext a
  cases a <;> rfl

theorem popScan_rename (t : Array Slot) : ∀ (f j : Nat),
    popScan (mapT φ t) f j = (popScan t f j).map fun r => (r.1, φ r.2) := by
  intro f
  induction f with
  | zero => intro j; simp [popScan]
  | succ f ih =>
    intro j
    unfold popScan
    rw [get_mapT, size_mapT]
    rcases t[j]? with _ | (_ | _ | k) <;> simp [mapSlot, ih]

theorem insertClean_rename (h : HashIso φ) (t : Array Slot) (k : Int) :
    insertClean (mapT φ t) (φ k) = (insertClean t k).map (mapT φ) := by
  unfold insertClean
  rw [size_mapT, start_rename h, lookEmpty_rename]
  cases lookEmpty t (t.size - 1) (fuelFor (t.size - 1)) (PS.start (t.size - 1) k) with
  | none => rfl
  | some j => simp [mapSlot]

theorem insertCleanAll_rename (h : HashIso φ) : ∀ (ks : List Int) (t : Array Slot),
    insertCleanAll (mapT φ t) (ks.map φ) = (insertCleanAll t ks).map (mapT φ) := by
  intro ks
  induction ks with
  | nil => intro t; simp [insertCleanAll]
  | cons k ks ih =>
    intro t
    simp only [List.map_cons, insertCleanAll]
    rw [insertClean_rename h]
    cases insertClean t k with
    | none => rfl
    | some t' => simp [ih]

theorem mask_mapS (s : IntSet) : (mapS φ s).mask = s.mask := by simp [mapS, IntSet.mask, size_mapT]

theorem resize_rename (h : HashIso φ) (s : IntSet) (m : Nat) :
    (mapS φ s).resize m = (s.resize m).map (mapS φ) := by
  unfold IntSet.resize
  simp only [mapS, size_mapT, activeKeys_rename]
  split
  · rfl
  · have e := insertCleanAll_rename h (activeKeys s.table) (emptyTable (newSize m))
    rw [mapT_emptyTable] at e
    rw [e]
    cases insertCleanAll (emptyTable (newSize m)) (activeKeys s.table) with
    | none => rfl
    | some t => rfl

theorem add_rename (h : HashIso φ) (s : IntSet) (k : Int) : (mapS φ s).add (φ k) = (s.add k).map (mapS φ) := by
  unfold IntSet.add
  rw [mask_mapS, start_rename h]
  have : (mapS φ s).table = mapT φ s.table := rfl
  rw [this, addScan_rename h]
  cases addScan s.table s.mask k (fuelFor s.mask) (PS.start s.mask k) none with
  | none => rfl
  | some r =>
    cases r with
    | present => rfl
    | slot fr j =>
      cases fr with
      | some f0 => simp [mapS, mapSlot]
      | none =>
        simp only
        have e : (mapT φ s.table).set! j (.active (φ k)) = mapT φ (s.table.set! j (.active k)) := by
          simp [mapSlot]
        rw [e]
        let S' : IntSet := { s with table := s.table.set! j (.active k), fill := s.fill + 1, used := s.used + 1 }
        show (if S'.fill * 5 < (mapS φ S').mask * 3 then some (mapS φ S') else (mapS φ S').resize (growTarget S'.used)) =
          Option.map (mapS φ) (if S'.fill * 5 < S'.mask * 3 then some S' else S'.resize (growTarget S'.used))
        rw [mask_mapS, resize_rename h]
        split <;> rfl

theorem lookup_rename (h : HashIso φ) (t : Array Slot) (k : Int) : lookup (mapT φ t) (φ k) = lookup t k := by
  unfold lookup
  rw [size_mapT, start_rename h, look_rename h]

theorem discard_rename (h : HashIso φ) (s : IntSet) (k : Int) :
    (mapS φ s).discard (φ k) = (s.discard k).map fun r => (mapS φ r.1, r.2) := by
  unfold IntSet.discard
  have : (mapS φ s).table = mapT φ s.table := rfl
  rw [this, lookup_rename h]
  cases lookup s.table k with
  | none => rfl
  | some j =>
    simp only [get_mapT]
    have hc : (Option.map (mapSlot φ) s.table[j]? == some (Slot.active (φ k))) = (s.table[j]? == some (Slot.active k)) := by
      rw [Bool.eq_iff_iff]
      simp only [beq_iff_eq]
      rcases s.table[j]? with _ | (_ | _ | k')
      · simp
      · simp [mapSlot]
      · simp [mapSlot]
      · by_cases e : k' = k
        · subst e; simp [mapSlot]
        · have e2 : φ k' ≠ φ k := fun e' => e (h.inj _ _ e')
          simp [mapSlot, e, e2]
    rw [hc]
    split
    · simp [mapS, mapSlot]
    · rfl

def PopRes.rename (φ : Int → Int) : PopRes → PopRes
  | .keyError => .keyError
  | .popped k s => .popped (φ k) (mapS φ s)

theorem pop_rename (s : IntSet) : (mapS φ s).pop = (s.pop).map (PopRes.rename φ) := by
  unfold IntSet.pop
  have : (mapS φ s).table = mapT φ s.table := rfl
  rw [this, mask_mapS, size_mapT, popScan_rename]
  have hu : (mapS φ s).used = s.used := rfl
  have hf : (mapS φ s).finger = s.finger := rfl
  rw [hu, hf]
  split
  · rfl
  · cases popScan s.table (s.table.size + 1) (s.finger &&& s.mask) with
    | none => rfl
    | some r => simp [PopRes.rename, mapS, mapSlot]

theorem addAll_rename (h : HashIso φ) : ∀ (ks : List Int) (s : IntSet),
    (mapS φ s).addAll (ks.map φ) = (s.addAll ks).map (mapS φ) := by
  intro ks
  induction ks with
  | nil => intro s; simp [IntSet.addAll]
  | cons k ks ih =>
    intro s
    simp only [List.map_cons, IntSet.addAll]
    rw [add_rename h]
    cases s.add k with
    | none => rfl
    | some s' => simp [ih]

theorem discardAll_rename (h : HashIso φ) : ∀ (ks : List Int) (s : IntSet),
    (mapS φ s).discardAll (ks.map φ) = (s.discardAll ks).map (mapS φ) := by
  intro ks
  induction ks with
  | nil => intro s; simp [IntSet.discardAll]
  | cons k ks ih =>
    intro s
    simp only [List.map_cons, IntSet.discardAll]
    rw [discard_rename h]
    cases s.discard k with
    | none => rfl
    | some r => simp [ih]

theorem presize_rename (h : HashIso φ) (s : IntSet) (n : Nat) : (mapS φ s).presize n = (s.presize n).map (mapS φ) := by
  unfold IntSet.presize
  rw [mask_mapS]
  have hu : (mapS φ s).used = s.used := rfl
  have hf : (mapS φ s).fill = s.fill := rfl
  rw [hu, hf]
  split
  · exact resize_rename h _ _
  · rfl

theorem updateDict_rename (h : HashIso φ) (s : IntSet) (ks : List Int) :
    (mapS φ s).updateDict (ks.map φ) = (s.updateDict ks).map (mapS φ) := by
  unfold IntSet.updateDict
  rw [List.length_map, presize_rename h]
  cases s.presize ks.length with
  | none => rfl
  | some s' => simp [addAll_rename h]

theorem differenceUpdate_rename (h : HashIso φ) (s : IntSet) (ks : List Int) :
    (mapS φ s).differenceUpdate (ks.map φ) = (s.differenceUpdate ks).map (mapS φ) := by
  unfold IntSet.differenceUpdate
  rw [discardAll_rename h]
  cases s.discardAll ks with
  | none => rfl
  | some s' =>
    simp only [Option.map_some]
    rw [mask_mapS]
    have hu : (mapS φ s').used = s'.used := rfl
    have hf : (mapS φ s').fill = s'.fill := rfl
    rw [hu, hf]
    split
    · rfl
    · exact resize_rename h _ _

theorem clear_rename (s : IntSet) : (mapS φ s).clear = mapS φ s.clear := by
  simp [IntSet.clear, mapS, empty, mapT_emptyTable]

theorem stepOp_rename (h : HashIso φ) (s : IntSet) (op : SetOp) :
    (mapS φ s).stepOp (op.rename φ) = (s.stepOp op).map fun r => (mapS φ r.1, r.2.rename φ) := by
  cases op with
  | add k => simp only [SetOp.rename, IntSet.stepOp, add_rename h]; cases s.add k <;> rfl
  | discard k => simp only [SetOp.rename, IntSet.stepOp, discard_rename h]; cases s.discard k <;> rfl
  | pop =>
    simp only [SetOp.rename, IntSet.stepOp, pop_rename]
    cases s.pop with
    | none => rfl
    | some r => cases r <;> rfl
  | clear => simp [SetOp.rename, IntSet.stepOp, clear_rename, Obs.rename]
  | updateIter ks =>
    simp only [SetOp.rename, IntSet.stepOp, IntSet.updateIter, addAll_rename h]; cases s.addAll ks <;> rfl
  | updateDict ks => simp only [SetOp.rename, IntSet.stepOp, updateDict_rename h]; cases s.updateDict ks <;> rfl
  | differenceUpdate ks =>
    simp only [SetOp.rename, IntSet.stepOp, differenceUpdate_rename h]; cases s.differenceUpdate ks <;> rfl

theorem runOps_rename (h : HashIso φ) : ∀ (ops : List SetOp) (s : IntSet),
    (mapS φ s).runOps (ops.map (SetOp.rename φ)) =
      (s.runOps ops).map fun r => (mapS φ r.1, r.2.map (Obs.rename φ)) := by
  intro ops
  induction ops with
  | nil => intro s; simp [IntSet.runOps]
  | cons op ops ih =>
    intro s
    simp only [List.map_cons, IntSet.runOps]
    rw [stepOp_rename h]
    cases s.stepOp op with
    | none => rfl
    | some r =>
      obtain ⟨s1, o⟩ := r
      simp only [Option.map_some]
      rw [ih]
      cases s1.runOps ops with
      | none => rfl
      | some r2 => rfl

theorem mapS_empty : mapS φ empty = empty := by
  simp [mapS, empty, mapT_emptyTable]

theorem toList_mapS (s : IntSet) : (mapS φ s).toList = s.toList.map φ := activeKeys_rename s.table

end ChythonModel.Py.IntSet

namespace ChythonModel.Py.IntSet

/-- a concrete non-trivial renaming with the same hashes: move every key away from 0 by the hash modulus 2⁶¹ − 1 -/
def shiftByModulus (k : Int) : Int := if 0 ≤ k then k + (2 ^ 61 - 1) else k - (2 ^ 61 - 1)

theorem pyHashInt_shift (k : Int) : pyHashInt (shiftByModulus k) = pyHashInt k := by
  unfold shiftByModulus pyHashInt pyHashModulus
  by_cases h : 0 ≤ k
  · have e : (k + (2 ^ 61 - 1)).natAbs % (2 ^ 61 - 1) = k.natAbs % (2 ^ 61 - 1) := by omega
    have n1 : ¬ k + (2 ^ 61 - 1) < 0 := by omega
    have n2 : ¬ k < 0 := by omega
    simp only [h, if_true, e, n1, n2, if_false]
  · have e : (k - (2 ^ 61 - 1)).natAbs % (2 ^ 61 - 1) = k.natAbs % (2 ^ 61 - 1) := by omega
    have n1 : k - (2 ^ 61 - 1) < 0 := by omega
    have n2 : k < 0 := by omega
    simp only [h, if_false, e, n1, n2, if_true]

theorem shiftByModulus_hashIso : HashIso shiftByModulus where
  inj := by
    intro a b h
    unfold shiftByModulus at h
    split at h <;> split at h <;> omega
  hash := by
    intro k
    unfold hashBits
    rw [pyHashInt_shift]

end ChythonModel.Py.IntSet
