import ChythonModel.Proofs.C07Stack
import ChythonModel.Proofs.C07WF
/-!
`Isomorphism._get_mapping` for a connected pattern (the `len(components) == 1` branch): the concatenation over the
target components is exactly the set of `IsEmbedding`s, without duplicates.
-/
namespace ChythonModel.Proofs.C07
open ChythonModel.Model.Iso ChythonModel.Spec.Embedding

/-! ### reachability -/

theorem reach_trans {g : Graph} {x y z : Nat} (h1 : Reach g x y) (h2 : Reach g y z) : Reach g x z := by
  induction h2 with
  | refl => exact h1
  | step _ hz ih => exact Reach.step ih hz

theorem reach_symm {g : Graph} (hs : ∀ x y, y ∈ g.nbrs x → x ∈ g.nbrs y) {x y : Nat} (h : Reach g x y) : Reach g y x := by
  induction h with
  | refl => exact Reach.refl _
  | step _ hz ih => exact reach_trans (Reach.step (Reach.refl _) (hs _ _ hz)) ih

theorem reach_closed {g : Graph} (S : Nat → Prop) (hcl : ∀ u, S u → ∀ v ∈ g.nbrs u, S v) {x y : Nat} (hx : S x)
    (h : Reach g x y) : S y := by
  induction h with
  | refl => exact hx
  | step _ hz ih => exact hcl _ ih _ hz

/-- an edge-preserving map on a neighbour-closed set preserves reachability -/
theorem reach_map {q t : Graph} (S : Nat → Prop) (hcl : ∀ u, S u → ∀ v ∈ q.nbrs u, S v) (f : Nat → Nat)
    (hf : ∀ u, S u → ∀ v ∈ q.nbrs u, f v ∈ t.nbrs (f u)) {x y : Nat} (hx : S x) (h : Reach q x y) :
    Reach t (f x) (f y) := by
  induction h with
  | refl => exact Reach.refl _
  | step hxy hz ih => exact Reach.step ih (hf _ (reach_closed S hcl hx hxy) _ hz)

/-- all atoms of an accepted component are reachable from its first atom -/
theorem comp_reach_head (q : Graph) (hs : ∀ x y, y ∈ q.nbrs x → x ∈ q.nbrs y) (cl : Closures) (lq : List Step)
    (hok : CompOK q cl lq) (s0 : Step) (h0 : lq[0]? = some s0) :
    ∀ (i : Nat) (s : Step), lq[i]? = some s → Reach q s0.front s.front := by
  intro i
  induction i using Nat.strong_induction_on with
  | _ i ih =>
    intro s hi
    cases i with
    | zero => rw [h0] at hi; cases hi; exact Reach.refl _
    | succ i =>
      obtain ⟨b, hb⟩ := back_exists q cl lq hok (i + 1) (by omega) s hi
      obtain ⟨hbe, hbn, _⟩ := (hok.step (i + 1) s hi).back_some b hb
      obtain ⟨k, sk, hk, hks, hkb⟩ := mem_fronts_take lq (i + 1) b hbe
      have := ih k hk sk hks
      rw [hkb] at this
      exact Reach.step this (hs _ _ hbn)

theorem comp_connected (q : Graph) (hs : ∀ x y, y ∈ q.nbrs x → x ∈ q.nbrs y) (cl : Closures) (lq : List Step)
    (hok : CompOK q cl lq) (u v : Nat) (hu : u ∈ lq.map (·.front)) (hv : v ∈ lq.map (·.front)) : Reach q u v := by
  have hne := hok.ne
  obtain ⟨s0, h0⟩ : ∃ s0, lq[0]? = some s0 := by
    cases lq with
    | nil => exact absurd rfl hne
    | cons a l => exact ⟨a, rfl⟩
  obtain ⟨i, si, hi, rfl⟩ := pos_of_mem lq u hu
  obtain ⟨j, sj, hj, rfl⟩ := pos_of_mem lq v hv
  exact reach_trans (reach_symm hs (comp_reach_head q hs cl lq hok s0 h0 i si hi)) (comp_reach_head q hs cl lq hok s0 h0 j sj hj)

/-! ### `checkComponents` -/

structure PartitionOK (t : Graph) (comps : List (List Nat)) : Prop where
  disjoint : comps.Pairwise List.Disjoint
  cover : ∀ x ∈ t.atoms, ∃ c ∈ comps, x ∈ c
  closed : ∀ c ∈ comps, ∀ x ∈ c, ∀ y ∈ t.nbrs x, y ∈ c

theorem checkComponents_sound (t : Graph) (comps : List (List Nat)) (h : checkComponents t comps = true) :
    PartitionOK t comps := by
  simp only [checkComponents, Bool.and_eq_true, decide_eq_true_eq, List.all_eq_true, List.contains_iff_mem] at h
  obtain ⟨⟨⟨h1, _⟩, h3⟩, h4⟩ := h
  refine ⟨(List.nodup_flatten.1 h1).2, ?_, ?_⟩
  · intro x hx
    have := h3 x hx
    rw [List.mem_flatten] at this
    exact this
  · intro c hc x hx y hy
    exact (h4 c hc).1 x hx y hy

/-! ### the single-component branch -/

theorem foldlM_append {α β} (step : List β → α → Option (List β)) (g : α → List β) :
    ∀ (l : List α) (init : List β), (∀ x ∈ l, ∀ acc, step acc x = some (acc ++ g x)) →
      l.foldlM step init = some (init ++ l.flatMap g) := by
  intro l
  induction l with
  | nil => intro init _; simp
  | cons a l ih =>
    intro init h
    rw [List.foldlM_cons, h a (by simp)]
    simp only [Option.bind_eq_bind, Option.bind_some]
    rw [ih _ (fun x hx => h x (by simp [hx]))]
    simp

theorem recMapping_empty_scope (e : Env) (h : ∀ n, e.scope n = false) : recMapping e = [] := by
  unfold recMapping
  have : roots e = [] := by
    unfold roots
    split
    · rfl
    · rw [List.filter_eq_nil_iff]
      intro n _
      simp [h n]
  simp [this]

/-- `n in scope` for the whole call: no scope, or membership in `searching_scope` -/
def scopeFn (scope : Option (List Nat)) (x : Nat) : Bool :=
  match scope with
  | none => true
  | some s => s.contains x

theorem restrict_contains (scope : Option (List Nat)) (cand : List Nat) (x : Nat) :
    (restrict scope cand).contains x = (cand.contains x && scopeFn scope x) := by
  cases scope with
  | none => simp [restrict, scopeFn]
  | some s =>
    simp only [restrict, scopeFn]
    cases h1 : cand.contains x <;> cases h2 : s.contains x <;>
      simp_all [List.contains_iff_mem, List.mem_filter]

/-- the unfiltered result of `Isomorphism._get_mapping` for a one-component pattern, as a plain list -/
theorem isoUnfiltered_single (p : Problem) (cl : Closures) (lq : List Step)
    (hgm : ∀ cand, getMapping (mkEnv p cl lq (restrict p.scope cand)) = some (recMapping (mkEnv p cl lq (restrict p.scope cand)))) :
    isoUnfiltered p [lq] cl =
      some (p.tComps.flatMap fun cand => recMapping (mkEnv p cl lq (restrict p.scope cand))) := by
  unfold isoUnfiltered
  simp only
  have := foldlM_append (fun acc cand =>
      if (scopeActive p.scope && (restrict p.scope cand).isEmpty) = true then some acc
      else (getMapping (mkEnv p cl lq (restrict p.scope cand))).bind fun r => some (acc ++ r))
    (fun cand => recMapping (mkEnv p cl lq (restrict p.scope cand))) p.tComps [] (by
      intro cand _ acc
      by_cases hc : (scopeActive p.scope && (restrict p.scope cand).isEmpty) = true
      · rw [if_pos hc]
        have hemp : (restrict p.scope cand) = [] := by
          simp only [Bool.and_eq_true, List.isEmpty_iff] at hc
          exact hc.2
        rw [recMapping_empty_scope]
        · simp
        · intro n
          simp [mkEnv, hemp]
      · rw [if_neg hc, hgm cand]
        rfl)
  simpa using this


theorem asDict_inj (C : List Nat) (f g : Nat → Nat) (h : asDict C f = asDict C g) : ∀ u ∈ C, f u = g u := by
  have := congrArg (List.map Prod.snd) h
  simp only [asDict] at this
  rw [List.map_snd_zip (by simp), List.map_snd_zip (by simp)] at this
  exact fun u hu => List.map_inj_left.1 this u hu

theorem comp_closed (q : Graph) (cl : Closures) (lq : List Step) (hok : CompOK q cl lq) :
    ∀ u, u ∈ lq.map (·.front) → ∀ v ∈ q.nbrs u, v ∈ lq.map (·.front) := by
  intro u hu v hv
  obtain ⟨j, s, hs, rfl⟩ := pos_of_mem lq u hu
  exact (hok.step j s hs).closed v hv

end ChythonModel.Proofs.C07
